import StoneVerif.Model.Cli
/-! Lemmas about the filter-expression lexer `Cli.lexAux` (C19): the text of a written expression
(every token followed by one blank) is lexed back into exactly its tokens, without errors. -/
namespace StoneVerif.Cli

/-! ### generic helpers -/

theorem countWhile_append_stop (p : Char → Bool) (xs : List Char) (c : Char) (rest : List Char)
    (hx : xs.all p = true) (hc : p c = false) : countWhile p (xs ++ c :: rest) = xs.length := by
  induction xs with
  | nil => simp [countWhile, hc]
  | cons x xs ih =>
    simp only [List.all_cons, Bool.and_eq_true] at hx
    simp [countWhile, hx.1, ih hx.2]

theorem countWhile_nil_stop (p : Char → Bool) (c : Char) (rest : List Char) (hc : p c = false) :
    countWhile p (c :: rest) = 0 := by
  simp [countWhile, hc]

theorem char_toNat_ne {c d : Char} (h : c.toNat ≠ d.toNat) : c ≠ d := by
  intro e; exact h (by rw [e])

/-- after the last character of a token comes a blank -/
theorem lexAux_blank (prev : Option Char) (rest : List Char) :
    lexAux prev (' ' :: rest) = .skip :: lexAux (some ' ') rest := by
  rw [lexAux]
  simp [lexStep]

/-- one token: if `lexStep` recognises `text` (followed by a blank) as `t`, so does `lexAux` -/
theorem lexAux_token (prev : Option Char) (c : Char) (cs rest : List Char) (t : Tok)
    (h : lexStep prev c (cs ++ ' ' :: rest) = (.tok t, cs.length)) :
    lexAux prev (c :: cs ++ ' ' :: rest) = .tok t :: .skip :: lexAux (some ' ') rest := by
  rw [List.cons_append, lexAux]
  simp only [h]
  have hd : List.drop (cs.length + 1) (c :: (cs ++ ' ' :: rest)) = ' ' :: rest := by
    simp
  rw [hd, lexAux_blank]

/-- `prev` at the start of a token of a rendered text: nothing or a blank -/
def startPrev (prev : Option Char) : Prop := prev = none ∨ prev = some ' '

theorem boundaryBefore_start {prev} (h : startPrev prev) : boundaryBefore prev = true := by
  rcases h with rfl | rfl <;> simp [boundaryBefore, isWord, isLetter, isDigit]

/-! ### punctuation and keywords -/

theorem lexStep_lpar (prev rest) : lexStep prev '(' ([] ++ ' ' :: rest) = (.tok .lpar, ([] : List Char).length) := by
  simp [lexStep, wordAt, List.isPrefixOf, matchFloat, matchInt, signLen, countWhile, isDigit, isIdStart, isLetter]

theorem lexStep_rpar (prev rest) : lexStep prev ')' ([] ++ ' ' :: rest) = (.tok .rpar, ([] : List Char).length) := by
  simp [lexStep, wordAt, List.isPrefixOf, matchFloat, matchInt, signLen, countWhile, isDigit, isIdStart, isLetter]

theorem lexStep_eq (prev rest) : lexStep prev '=' ([] ++ ' ' :: rest) = (.tok .eq, ([] : List Char).length) := by
  simp [lexStep, wordAt, List.isPrefixOf, matchFloat, matchInt, signLen, countWhile, isDigit, isIdStart, isLetter]

theorem lexStep_neq (prev rest) : lexStep prev '!' (['='] ++ ' ' :: rest) = (.tok .neq, ['='].length) := by
  simp [lexStep, wordAt, List.isPrefixOf, matchFloat, matchInt, signLen, countWhile, isDigit, isIdStart, isLetter]

theorem lexStep_and (prev rest) : lexStep prev 'a' (['n', 'd'] ++ ' ' :: rest) = (.tok .and, ['n', 'd'].length) := by
  simp [lexStep, wordAt, List.isPrefixOf, matchFloat, matchInt, signLen, countWhile, isDigit, isIdStart, isIdChar, isLetter]

theorem lexStep_or (prev rest) : lexStep prev 'o' (['r'] ++ ' ' :: rest) = (.tok .or, ['r'].length) := by
  simp [lexStep, wordAt, List.isPrefixOf, matchFloat, matchInt, signLen, countWhile, isDigit, isIdStart, isIdChar, isLetter]

theorem lexStep_true (prev rest) (hp : startPrev prev) :
    lexStep prev 't' (['r', 'u', 'e'] ++ ' ' :: rest) = (.tok (.lit (.bool true)), ['r', 'u', 'e'].length) := by
  simp [lexStep, wordAt, List.isPrefixOf, boundaryBefore_start hp, boundaryAfter, isWord, isLetter, isDigit]

theorem lexStep_false (prev rest) (hp : startPrev prev) :
    lexStep prev 'f' (['a', 'l', 's', 'e'] ++ ' ' :: rest) = (.tok (.lit (.bool false)), ['a', 'l', 's', 'e'].length) := by
  simp [lexStep, wordAt, List.isPrefixOf, boundaryBefore_start hp, boundaryAfter, isWord, isLetter, isDigit]

theorem lexStep_null (prev rest) (hp : startPrev prev) :
    lexStep prev 'n' (['u', 'l', 'l'] ++ ' ' :: rest) = (.tok (.lit .null), ['u', 'l', 'l'].length) := by
  simp [lexStep, wordAt, List.isPrefixOf, boundaryBefore_start hp, boundaryAfter, isWord, isLetter, isDigit]

/-! ### identifiers -/

theorem boundaryAfter_append_blank (r rest : List Char) :
    boundaryAfter (r ++ ' ' :: rest) = boundaryAfter r := by
  cases r with
  | nil => simp [boundaryAfter, isWord, isLetter, isDigit]
  | cons x r => simp [boundaryAfter]

theorem wordAt_true_reserved (prev : Option Char) (s rest : List Char)
    (h : wordAt ['t', 'r', 'u', 'e'] prev (s ++ ' ' :: rest) = true) : reservedStart s = true := by
  rcases s with _ | ⟨c1, _ | ⟨c2, _ | ⟨c3, _ | ⟨c4, r⟩⟩⟩⟩ <;>
    simp [wordAt, List.isPrefixOf] at h
  obtain ⟨⟨_, rfl, rfl, rfl, rfl⟩, h2⟩ := h
  simpa [reservedStart, boundaryAfter_append_blank] using h2

theorem wordAt_false_reserved (prev : Option Char) (s rest : List Char)
    (h : wordAt ['f', 'a', 'l', 's', 'e'] prev (s ++ ' ' :: rest) = true) : reservedStart s = true := by
  rcases s with _ | ⟨c1, _ | ⟨c2, _ | ⟨c3, _ | ⟨c4, _ | ⟨c5, r⟩⟩⟩⟩⟩ <;>
    simp [wordAt, List.isPrefixOf] at h
  obtain ⟨⟨_, rfl, rfl, rfl, rfl, rfl⟩, h2⟩ := h
  simpa [reservedStart, boundaryAfter_append_blank] using h2

theorem wordAt_null_reserved (prev : Option Char) (s rest : List Char)
    (h : wordAt ['n', 'u', 'l', 'l'] prev (s ++ ' ' :: rest) = true) : reservedStart s = true := by
  rcases s with _ | ⟨c1, _ | ⟨c2, _ | ⟨c3, _ | ⟨c4, r⟩⟩⟩⟩ <;>
    simp [wordAt, List.isPrefixOf] at h
  obtain ⟨⟨_, rfl, rfl, rfl, rfl⟩, h2⟩ := h
  simpa [reservedStart, boundaryAfter_append_blank] using h2

theorem idStart_facts {c : Char} (h : isIdStart c = true) :
    c ≠ ' ' ∧ c ≠ '"' ∧ c ≠ '-' ∧ isDigit c = false := by
  simp only [isIdStart, isLetter, Bool.or_eq_true, Bool.and_eq_true, decide_eq_true_eq] at h
  refine ⟨?_, ?_, ?_, ?_⟩
  · apply char_toNat_ne; simp; omega
  · apply char_toNat_ne; simp; omega
  · apply char_toNat_ne; simp; omega
  · simp [isDigit]; omega

theorem lexStep_id (prev : Option Char) (rest : List Char) (c : Char) (cs : List Char)
    (h : idOk (c :: cs) = true) :
    lexStep prev c (cs ++ ' ' :: rest) = (.tok (.id (c :: cs)), cs.length) := by
  simp only [idOk, Bool.and_eq_true, Bool.not_eq_true', decide_eq_true_eq] at h
  obtain ⟨⟨⟨⟨hs, hall⟩, hres⟩, hand⟩, hor⟩ := h
  obtain ⟨h1, h2, h3, h4⟩ := idStart_facts hs
  have hw1 : wordAt ['t', 'r', 'u', 'e'] prev (c :: (cs ++ ' ' :: rest)) = false := by
    cases hh : wordAt ['t', 'r', 'u', 'e'] prev (c :: (cs ++ ' ' :: rest)) with
    | false => rfl
    | true =>
      have := wordAt_true_reserved prev (c :: cs) rest (by simpa using hh)
      simp [hres] at this
  have hw2 : wordAt ['f', 'a', 'l', 's', 'e'] prev (c :: (cs ++ ' ' :: rest)) = false := by
    cases hh : wordAt ['f', 'a', 'l', 's', 'e'] prev (c :: (cs ++ ' ' :: rest)) with
    | false => rfl
    | true =>
      have := wordAt_false_reserved prev (c :: cs) rest (by simpa using hh)
      simp [hres] at this
  have hw3 : wordAt ['n', 'u', 'l', 'l'] prev (c :: (cs ++ ' ' :: rest)) = false := by
    cases hh : wordAt ['n', 'u', 'l', 'l'] prev (c :: (cs ++ ' ' :: rest)) with
    | false => rfl
    | true =>
      have := wordAt_null_reserved prev (c :: cs) rest (by simpa using hh)
      simp [hres] at this
  have hsign : signLen (c :: (cs ++ ' ' :: rest)) = 0 := by
    unfold signLen
    split
    · rename_i heq; simp at heq; exact absurd heq.1 h3
    · rfl
  have hcount : countWhile isIdChar (cs ++ ' ' :: rest) = cs.length :=
    countWhile_append_stop _ _ _ _ hall (by simp [isIdChar, isLetter, isDigit])
  have hf : matchFloat (c :: (cs ++ ' ' :: rest)) = none := by
    simp [matchFloat, hsign, countWhile, h4]
  have hi : matchInt (c :: (cs ++ ' ' :: rest)) = none := by
    simp [matchInt, hsign, countWhile, h4]
  simp [lexStep, h1, h2, hw1, hw2, hw3, hf, hi, hs, hcount, hand, hor]

/-! ### numbers -/

theorem digit_facts {c : Char} (h : isDigit c = true) :
    c ≠ ' ' ∧ c ≠ '"' ∧ c ≠ '-' ∧ c ≠ 't' ∧ c ≠ 'f' ∧ c ≠ 'n' ∧ isIdStart c = false := by
  simp only [isDigit, Bool.and_eq_true, decide_eq_true_eq] at h
  refine ⟨?_, ?_, ?_, ?_, ?_, ?_, ?_⟩
  · apply char_toNat_ne; simp; omega
  · apply char_toNat_ne; simp; omega
  · apply char_toNat_ne; simp; omega
  · apply char_toNat_ne; simp; omega
  · apply char_toNat_ne; simp; omega
  · apply char_toNat_ne; simp; omega
  · simp [isIdStart, isLetter]; omega

theorem digitsOk_cons {ds : List Char} (h : digitsOk ds = true) :
    ∃ d ds', ds = d :: ds' ∧ isDigit d = true ∧ ds'.all isDigit = true ∧ ds.all isDigit = true := by
  cases ds with
  | nil => simp [digitsOk] at h
  | cons d ds' =>
    simp only [digitsOk, List.isEmpty_cons, Bool.not_false, Bool.true_and, List.all_cons, Bool.and_eq_true] at h
    exact ⟨d, ds', rfl, h.1, h.2, by simp [h.1, h.2]⟩

theorem signLen_text (neg : Bool) (ds tail : List Char) (hd : digitsOk ds = true) :
    signLen (signText neg ++ (ds ++ tail)) = (signText neg).length ∧
    (signText neg ++ (ds ++ tail)).drop (signText neg).length = ds ++ tail := by
  obtain ⟨d, ds', rfl, hd0, _, _⟩ := digitsOk_cons hd
  obtain ⟨_, _, hm, _⟩ := digit_facts hd0
  cases neg with
  | true => simp [signText, signLen]
  | false =>
    simp only [signText, Bool.false_eq_true, if_false, List.nil_append, List.length_nil, List.drop_zero, and_true]
    unfold signLen
    split
    · rename_i heq; simp at heq; exact absurd heq.1 hm
    · rfl

theorem countDigits_text (ds : List Char) (stop : Char) (tail : List Char) (hd : digitsOk ds = true)
    (hs : isDigit stop = false) : countWhile isDigit (ds ++ stop :: tail) = ds.length := by
  obtain ⟨_, _, _, _, _, hall⟩ := digitsOk_cons hd
  exact countWhile_append_stop _ _ _ _ hall hs

theorem digitsOk_length {ds : List Char} (h : digitsOk ds = true) : ds.length ≠ 0 := by
  obtain ⟨d, ds', rfl, _⟩ := digitsOk_cons h
  simp

/-- the first character of a number spelling is neither a blank, a quote, a letter nor `_` -/
theorem numHead_facts (neg : Bool) (ds tail : List Char) (hd : digitsOk ds = true) :
    ∃ c cs, signText neg ++ (ds ++ tail) = c :: cs ∧ c ≠ ' ' ∧ c ≠ '"' ∧ c ≠ 't' ∧ c ≠ 'f' ∧ c ≠ 'n' ∧
      isIdStart c = false := by
  obtain ⟨d, ds', rfl, hd0, _, _⟩ := digitsOk_cons hd
  obtain ⟨h1, h2, _, h4, h5, h6, h7⟩ := digit_facts hd0
  cases neg with
  | true =>
    refine ⟨'-', d :: ds' ++ tail, by simp [signText], ?_, ?_, ?_, ?_, ?_, ?_⟩ <;>
      simp [isIdStart, isLetter]
  | false => exact ⟨d, ds' ++ tail, by simp [signText], h1, h2, h4, h5, h6, h7⟩

theorem wordAt_head_ne (w : Char) (ws : List Char) (prev : Option Char) (c : Char) (cs : List Char) (h : c ≠ w) :
    wordAt (w :: ws) prev (c :: cs) = false := by
  have : (w == c) = false := by simp; exact fun e => h e.symm
  simp [wordAt, List.isPrefixOf, this]

theorem lexStep_int (prev : Option Char) (rest : List Char) (neg : Bool) (ds : List Char)
    (hd : digitsOk ds = true) (c : Char) (cs : List Char) (hc : signText neg ++ ds = c :: cs) :
    lexStep prev c (cs ++ ' ' :: rest) = (.tok (.lit (intVal (signText neg ++ ds))), cs.length) := by
  have hall : c :: (cs ++ ' ' :: rest) = signText neg ++ (ds ++ ' ' :: rest) := by
    rw [← List.cons_append, ← hc]; simp
  obtain ⟨c', cs', he, h1, h2, h4, h5, h6, h7⟩ := numHead_facts neg ds (' ' :: rest) hd
  rw [← hall] at he
  obtain ⟨rfl, rfl⟩ := List.cons_eq_cons.mp he.symm
  obtain ⟨hs1, hs2⟩ := signLen_text neg ds (' ' :: rest) hd
  have hcnt := countDigits_text ds ' ' rest hd (by simp [isDigit])
  have hlen := digitsOk_length hd
  have hf : matchFloat (c' :: (cs ++ ' ' :: rest)) = none := by
    rw [hall]
    simp only [matchFloat, hs1, hs2, hcnt]
    simp [hlen]
  have hi : matchInt (c' :: (cs ++ ' ' :: rest)) = some ((signText neg).length + ds.length) := by
    rw [hall]
    simp only [matchInt, hs1, hs2, hcnt]
    simp [hlen]
  have htake : (c' :: (cs ++ ' ' :: rest)).take ((signText neg).length + ds.length) = signText neg ++ ds := by
    rw [hall, ← List.append_assoc, ← List.length_append]
    exact List.take_left' rfl
  have hlen2 : (signText neg).length + ds.length - 1 = cs.length := by
    have := congrArg List.length hc
    simp only [List.length_append, List.length_cons] at this
    omega
  simp only [lexStep, h1, if_false, wordAt_head_ne _ _ _ _ _ h4, wordAt_head_ne _ _ _ _ _ h5,
    wordAt_head_ne _ _ _ _ _ h6, hf, hi, htake, hlen2, Bool.false_eq_true]

/-! ### strings -/

theorem strBodyLen_plain (c : Char) (r : List Char) (hq : c ≠ '"') (hb : c ≠ '\\') :
    strBodyLen (c :: r) = (strBodyLen r).map (· + 1) := by
  cases r <;> simp [strBodyLen, hb]

theorem strBodyLen_ok (body rest : List Char) (h : strBodyOk body = true) :
    strBodyLen (body ++ '"' :: rest) = some body.length := by
  fun_induction strBodyOk body with
  | case1 => simp [strBodyLen]
  | case2 => simp at h
  | case3 => simp at h
  | case4 c r ih =>
    simp only [Bool.and_eq_true, decide_eq_true_eq] at h
    simp [strBodyLen, h.1, ih h.2]
  | case5 c r h1 h2 h3 ih =>
    have hq : c ≠ '"' := fun e => h1 e
    have hb : c ≠ '\\' := by
      intro e
      cases r with
      | nil => exact h2 e rfl
      | cons x r' => exact h3 x r' e rfl
    rw [List.cons_append, strBodyLen_plain c _ hq hb, ih h]
    simp

theorem lexStep_str (prev : Option Char) (rest : List Char) (body : List Char) (h : strBodyOk body = true) :
    lexStep prev '"' ((body ++ ['"']) ++ ' ' :: rest) = (.tok (.lit (.str body)), (body ++ ['"']).length) := by
  have hb : strBodyLen (body ++ '"' :: ' ' :: rest) = some body.length := strBodyLen_ok body (' ' :: rest) h
  have ht : List.take body.length (body ++ '"' :: ' ' :: rest) = body := List.take_left' rfl
  simp [lexStep, wordAt, List.isPrefixOf, matchFloat, matchInt, signLen, countWhile, isDigit, hb, ht]

/-! ### floats -/

theorem expLen_text (n : Bool) (x : List Char) (stop : Char) (tail : List Char) (hx : digitsOk x = true)
    (hs : isDigit stop = false) :
    expLen ('e' :: (signText n ++ (x ++ stop :: tail))) = (signText n).length + x.length + 1 := by
  obtain ⟨h1, h2⟩ := signLen_text n x (stop :: tail) hx
  have hc := countDigits_text x stop tail hx hs
  have hl := digitsOk_length hx
  simp only [expLen, h1, h2, hc]
  simp [hl]; omega

theorem expLen_blank (rest : List Char) : expLen (' ' :: rest) = 0 := by
  simp [expLen]

theorem matchFloat_text (neg : Bool) (ip : List Char) (fp : Option (List Char)) (ex : Option (Bool × List Char))
    (rest : List Char) (h : (LitSyn.float neg ip fp ex).wf = true) :
    matchFloat ((LitSyn.float neg ip fp ex).text ++ ' ' :: rest) = some (LitSyn.float neg ip fp ex).text.length := by
  simp only [LitSyn.wf, Bool.and_eq_true, Bool.or_eq_true] at h
  obtain ⟨⟨⟨hip, hsome⟩, hfp⟩, hex⟩ := h
  have hblank : isDigit ' ' = false := by simp [isDigit]
  have hdot : isDigit '.' = false := by simp [isDigit]
  have he : isDigit 'e' = false := by simp [isDigit]
  have hlen := digitsOk_length hip
  cases fp with
  | some f =>
    cases ex with
    | some nx =>
      obtain ⟨n, x⟩ := nx
      simp only at hfp hex
      have hall : (LitSyn.float neg ip (some f) (some (n, x))).text ++ ' ' :: rest =
          signText neg ++ (ip ++ '.' :: (f ++ 'e' :: (signText n ++ (x ++ ' ' :: rest)))) := by
        simp [LitSyn.text]
      obtain ⟨h1, h2⟩ := signLen_text neg ip ('.' :: (f ++ 'e' :: (signText n ++ (x ++ ' ' :: rest)))) hip
      have hc := countDigits_text ip '.' (f ++ 'e' :: (signText n ++ (x ++ ' ' :: rest))) hip hdot
      have hcf := countWhile_append_stop isDigit f 'e' (signText n ++ (x ++ ' ' :: rest)) hfp he
      have hexp := expLen_text n x ' ' rest hex hblank
      rw [hall]
      simp only [matchFloat, h1, h2, hc]
      simp only [hlen, if_false, List.drop_left', hcf]
      simp [hexp, LitSyn.text]; omega
    | none =>
      simp only at hfp
      have hall : (LitSyn.float neg ip (some f) none).text ++ ' ' :: rest =
          signText neg ++ (ip ++ '.' :: (f ++ ' ' :: rest)) := by
        simp [LitSyn.text]
      obtain ⟨h1, h2⟩ := signLen_text neg ip ('.' :: (f ++ ' ' :: rest)) hip
      have hc := countDigits_text ip '.' (f ++ ' ' :: rest) hip hdot
      have hcf := countWhile_append_stop isDigit f ' ' rest hfp hblank
      rw [hall]
      simp only [matchFloat, h1, h2, hc]
      simp [hlen, hcf, expLen_blank, LitSyn.text]; omega
  | none =>
    cases ex with
    | some nx =>
      obtain ⟨n, x⟩ := nx
      simp only at hex
      have hall : (LitSyn.float neg ip none (some (n, x))).text ++ ' ' :: rest =
          signText neg ++ (ip ++ 'e' :: (signText n ++ (x ++ ' ' :: rest))) := by
        simp [LitSyn.text]
      obtain ⟨h1, h2⟩ := signLen_text neg ip ('e' :: (signText n ++ (x ++ ' ' :: rest))) hip
      have hc := countDigits_text ip 'e' (signText n ++ (x ++ ' ' :: rest)) hip he
      have hexp := expLen_text n x ' ' rest hex hblank
      rw [hall]
      simp only [matchFloat, h1, h2, hc]
      simp [hlen, hexp, LitSyn.text]; omega
    | none => simp at hsome

theorem numHead_facts' (neg : Bool) (ds tail : List Char) (hd : digitsOk ds = true) (c : Char) (cs : List Char)
    (h : signText neg ++ (ds ++ tail) = c :: cs) :
    c ≠ ' ' ∧ c ≠ '"' ∧ c ≠ 't' ∧ c ≠ 'f' ∧ c ≠ 'n' ∧ isIdStart c = false := by
  obtain ⟨c', cs', he, hf⟩ := numHead_facts neg ds tail hd
  rw [h] at he
  obtain ⟨e1, _⟩ := List.cons_eq_cons.mp he
  rw [e1]; exact hf

theorem lexStep_float (prev : Option Char) (rest : List Char) (neg : Bool) (ip : List Char)
    (fp : Option (List Char)) (ex : Option (Bool × List Char)) (h : (LitSyn.float neg ip fp ex).wf = true)
    (c : Char) (cs : List Char) (hc : (LitSyn.float neg ip fp ex).text = c :: cs) :
    lexStep prev c (cs ++ ' ' :: rest) = (.tok (.lit (LitSyn.float neg ip fp ex).val), cs.length) := by
  have hm := matchFloat_text neg ip fp ex rest h
  have hip : digitsOk ip = true := by
    simp only [LitSyn.wf, Bool.and_eq_true] at h; exact h.1.1.1
  have htext : ∃ tail, (LitSyn.float neg ip fp ex).text = signText neg ++ (ip ++ tail) := by
    cases fp <;> cases ex <;> simp [LitSyn.text]
  obtain ⟨tail, ht⟩ := htext
  obtain ⟨h1, h2, h4, h5, h6, h7⟩ := numHead_facts' neg ip tail hip c cs (by rw [← ht, hc])
  rw [hc] at hm
  have htake : (c :: (cs ++ ' ' :: rest)).take (c :: cs).length = c :: cs := by
    rw [← List.cons_append]; exact List.take_left' rfl
  simp only [List.cons_append] at hm
  simp only [lexStep, h1, if_false, wordAt_head_ne _ _ _ _ _ h4, wordAt_head_ne _ _ _ _ _ h5,
    wordAt_head_ne _ _ _ _ _ h6, hm, htake, Bool.false_eq_true, LitSyn.val, hc]
  simp

/-! ### whole texts -/

theorem lexAux_stok (prev : Option Char) (hp : startPrev prev) (t : STok) (ht : t.wf = true) (rest : List Char) :
    lexAux prev (t.text ++ ' ' :: rest) = .tok t.tok :: .skip :: lexAux (some ' ') rest := by
  cases t with
  | id s =>
    cases s with
    | nil => simp [STok.wf, idOk] at ht
    | cons c cs => exact lexAux_token prev c cs rest _ (lexStep_id prev rest c cs ht)
  | lpar => exact lexAux_token prev '(' [] rest _ (lexStep_lpar prev rest)
  | rpar => exact lexAux_token prev ')' [] rest _ (lexStep_rpar prev rest)
  | conj c =>
    cases c with
    | and => exact lexAux_token prev 'a' ['n', 'd'] rest _ (lexStep_and prev rest)
    | or => exact lexAux_token prev 'o' ['r'] rest _ (lexStep_or prev rest)
  | op o =>
    cases o with
    | eq => exact lexAux_token prev '=' [] rest _ (lexStep_eq prev rest)
    | neq => exact lexAux_token prev '!' ['='] rest _ (lexStep_neq prev rest)
  | lit l =>
    cases l with
    | null => exact lexAux_token prev 'n' ['u', 'l', 'l'] rest _ (lexStep_null prev rest hp)
    | «true» => exact lexAux_token prev 't' ['r', 'u', 'e'] rest _ (lexStep_true prev rest hp)
    | «false» => exact lexAux_token prev 'f' ['a', 'l', 's', 'e'] rest _ (lexStep_false prev rest hp)
    | int neg ds =>
      have hd : digitsOk ds = true := ht
      cases hc : signText neg ++ ds with
      | nil =>
        have := digitsOk_length hd
        have h2 := congrArg List.length hc
        simp only [List.length_append, List.length_nil] at h2; omega
      | cons c cs =>
        have := lexAux_token prev c cs rest _ (lexStep_int prev rest neg ds hd c cs hc)
        simpa [STok.text, LitSyn.text, STok.tok, LitSyn.val, hc] using this
    | float neg ip fp ex =>
      have hw : (LitSyn.float neg ip fp ex).wf = true := ht
      cases hc : (LitSyn.float neg ip fp ex).text with
      | nil =>
        have hip : digitsOk ip = true := by
          simp only [LitSyn.wf, Bool.and_eq_true] at hw; exact hw.1.1.1
        have := digitsOk_length hip
        have h2 := congrArg List.length hc
        simp only [LitSyn.text, List.length_append, List.length_nil] at h2; omega
      | cons c cs =>
        have := lexAux_token prev c cs rest _ (lexStep_float prev rest neg ip fp ex hw c cs hc)
        simpa [STok.text, STok.tok, hc] using this
    | str body =>
      have := lexAux_token prev '"' (body ++ ['"']) rest _ (lexStep_str prev rest body ht)
      simpa [STok.text, LitSyn.text, STok.tok, LitSyn.val] using this

theorem lexAux_render (sts : List STok) (h : ∀ t ∈ sts, t.wf = true) (prev : Option Char) (hp : startPrev prev) :
    itemsToks (lexAux prev (render sts)) = sts.map STok.tok ∧ itemsErrs (lexAux prev (render sts)) = [] := by
  induction sts generalizing prev with
  | nil => simp [render, lexAux, itemsToks, itemsErrs]
  | cons t sts ih =>
    have ht := h t (by simp)
    obtain ⟨ih1, ih2⟩ := ih (fun u hu => h u (List.mem_cons_of_mem _ hu)) (some ' ') (Or.inr rfl)
    rw [render, lexAux_stok prev hp t ht]
    simp [itemsToks, itemsErrs, ih1, ih2]

/-- the text of well-spelled tokens, each followed by one blank, is lexed back into exactly those
tokens, and no character is illegal -/
theorem lex_render (sts : List STok) (h : ∀ t ∈ sts, t.wf = true) :
    lex (render sts) = ⟨sts.map STok.tok, []⟩ := by
  obtain ⟨h1, h2⟩ := lexAux_render sts h none (Or.inl rfl)
  simp [lex, h1, h2]

theorem stoks_wf (p : SExpr) (h : p.wf = true) : ∀ t ∈ p.stoks, t.wf = true := by
  induction p with
  | atom op a l =>
    simp only [SExpr.wf, Bool.and_eq_true] at h
    intro t ht
    simp only [SExpr.stoks, List.mem_cons, List.not_mem_nil, or_false] at ht
    rcases ht with rfl | rfl | rfl
    · exact h.1
    · rfl
    · exact h.2
  | paren p ih =>
    intro t ht
    simp only [SExpr.stoks, sparens, List.mem_cons, List.mem_append, List.not_mem_nil, or_false] at ht
    rcases ht with (rfl | ht) | rfl
    · rfl
    · exact ih h t ht
    · rfl
  | conj c l r ihl ihr =>
    simp only [SExpr.wf, Bool.and_eq_true] at h
    intro t ht
    have hsp : ∀ q : SExpr, (∀ u ∈ q.stoks, u.wf = true) →
        ∀ u ∈ (if q.isOr then sparens q.stoks else q.stoks), u.wf = true := by
      intro q hq u hu
      split at hu
      · simp only [sparens, List.mem_cons, List.mem_append, List.not_mem_nil, or_false] at hu
        rcases hu with (rfl | hu) | rfl
        · rfl
        · exact hq u hu
        · rfl
      · exact hq u hu
    cases c with
    | or =>
      simp only [SExpr.stoks, List.mem_append, List.mem_cons] at ht
      rcases ht with ht | rfl | ht
      · exact ihl h.1 t ht
      · rfl
      · exact ihr h.2 t ht
    | and =>
      simp only [SExpr.stoks, List.mem_append, List.mem_cons] at ht
      rcases ht with ht | rfl | ht
      · exact hsp l (ihl h.1) t ht
      · rfl
      · exact hsp r (ihr h.2) t ht

end StoneVerif.Cli
