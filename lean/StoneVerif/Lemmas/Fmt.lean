import StoneVerif.Model.Fmt
/-! Lemmas about the `str.format` subset: escaped text and replacement fields inside a longer buffer. -/
namespace StoneVerif.Fmt

/-- escaped text in front of an arbitrary rest of the buffer comes out verbatim and consumes no placeholder -/
theorem pyFormat_escape_append (named) (pos) (s rest : List Char) :
    pyFormat named pos (escape s ++ rest) = (pyFormat named pos rest).map (s ++ ·) := by
  induction s with
  | nil => simp [escape]
  | cons c cs ih =>
    by_cases h1 : c = '{'
    · subst h1; simp [escape, pyFormat, ih, Option.map_map, Function.comp_def]
    · by_cases h2 : c = '}'
      · subst h2; simp [escape, pyFormat, ih, Option.map_map, Function.comp_def]
      · rw [escape]
        · simp only [List.cons_append]
          rw [pyFormat]
          · simp [ih, Option.map_map, Function.comp_def]
          all_goals simp_all
        all_goals simp_all

theorem validName_no_brace (n : List Char) (h : validName n = true) : ∀ c ∈ n, c ≠ '{' ∧ c ≠ '}' := by
  intro c hc
  cases n with
  | nil => simp at hc
  | cons d ds =>
    simp [validName] at h
    simp at hc
    rcases hc with rfl | hc
    · rcases h.1 with h1 | h1
      · constructor <;> (intro e; subst e; revert h1; decide)
      · subst h1; decide
    · have := h.2 c hc
      simp [validNameChar] at this
      rcases this with h1 | h1
      · constructor <;> (intro e; subst e; revert h1; decide)
      · subst h1; decide

theorem takeName_append (acc n rest : List Char) (h : ∀ c ∈ n, c ≠ '{' ∧ c ≠ '}') :
    takeName acc (n ++ '}' :: rest) = some (acc.reverse ++ n, rest) := by
  induction n generalizing acc with
  | nil => simp [takeName]
  | cons c cs ih =>
    have hc := h c (by simp)
    simp only [List.cons_append]
    rw [takeName]
    · rw [ih (c :: acc) (fun d hd => h d (by simp [hd]))]; simp
    · exact hc.2
    · exact hc.1

/-- a replacement field in front of an arbitrary rest of the buffer -/
theorem pyFormat_field_append (named) (pos) (n rest : List Char) (h : validName n = true) :
    pyFormat named pos ('{' :: n ++ '}' :: rest) =
      if n = [] then
        match pos with
        | v :: pos' => (pyFormat named pos' rest).map (v ++ ·)
        | [] => none
      else
        match lookupNamed named n with
        | some v => (pyFormat named pos rest).map (v ++ ·)
        | none => none := by
  have hb := validName_no_brace n h
  have ht := takeName_append [] n rest hb
  simp only [List.reverse_nil, List.nil_append] at ht
  cases n with
  | nil =>
    simp only [List.nil_append]
    have ht' : takeName [] ('}' :: rest) = some ([], rest) := by simp [takeName]
    show pyFormat named pos ('{' :: '}' :: rest) = _
    rw [pyFormat]
    · split
      · next n' rest' heq =>
        rw [ht'] at heq
        simp at heq
        obtain ⟨rfl, rfl⟩ := heq
        simp only [if_true]
        cases pos <;> rfl
      · next heq => rw [ht'] at heq; simp at heq
    · intro cs' e; simp at e
  | cons c cs =>
    have hc := hb c (by simp)
    simp only [List.cons_append] at ht ⊢
    rw [pyFormat]
    · split
      · next n' rest' heq =>
        rw [ht] at heq
        simp at heq
        obtain ⟨rfl, rfl⟩ := heq
        simp only [List.cons_ne_nil, if_false]
        cases lookupNamed named (c :: cs) <;> rfl
      · next heq => rw [ht] at heq; simp at heq
    · intro cs' e; simp at e; exact hc.1 e.1

/-- Raw segments and placeholder fields format to the raw texts and the registered placeholder texts. -/
theorem pyFormat_renderSegs (named) (pos) (segs : List Seg)
    (h : ∀ n, Seg.field n ∈ segs → validName n = true) :
    pyFormat named pos (renderSegs segs) = expand named pos segs := by
  induction segs generalizing pos with
  | nil => simp [renderSegs, expand, pyFormat]
  | cons s rest ih =>
    have hrest : ∀ n, Seg.field n ∈ rest → validName n = true := fun n hn => h n (by simp [hn])
    cases s with
    | lit t =>
      simp only [renderSegs, List.map_cons, List.flatten_cons, encodeSeg, expand]
      rw [pyFormat_escape_append]
      have := ih pos hrest
      simp only [renderSegs] at this
      rw [this]
    | field n =>
      have hv := h n (by simp)
      simp only [renderSegs, List.map_cons, List.flatten_cons, encodeSeg, expand]
      have e : ('{' :: n ++ ['}']) ++ (rest.map encodeSeg).flatten = '{' :: n ++ '}' :: (rest.map encodeSeg).flatten := by simp
      rw [e, pyFormat_field_append named pos n _ hv]
      have ih' := fun p => ih p hrest
      simp only [renderSegs] at ih'
      by_cases hn : n = []
      · simp only [hn, if_true]
        cases pos with
        | nil => rfl
        | cons v p => simp [ih']
      · simp only [hn, if_false]
        cases lookupNamed named n <;> simp [ih']

end StoneVerif.Fmt
