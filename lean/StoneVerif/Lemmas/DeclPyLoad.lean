import StoneVerif.Lemmas.DeclPyLoadPre2
namespace StoneVerif.DeclPy

theorem runMod_started {mods : List (Name × List Stmt)} {fuel : Nat} {st : St} {m : Name}
    (h : m ∈ st.started) : runMod mods (fuel + 1) st m = .ok st := by
  have : st.started.contains m = true := by simpa using h
  unfold runMod
  simp only [this, if_true]
  rfl

/-- the state reached by the import statements of module `ns` -/
structure FoldPost (api : Api) (rank : Name → Nat) (st : St) (ns : Namespace) (st2 : St) : Prop where
  wf : StWF st2
  le : Le { st with started := modName ns :: st.started } st2
  only : ∀ n, (st2.global? (modName ns) n).isSome = true → n ∈ ns.imports.map fmtNamespace
  imported : ∀ m ∈ ns.imports, ∃ nsm ∈ api.namespaces, nsm.name = m ∧ Loaded api st2 nsm
    ∧ st2.global? (modName ns) (fmtNamespace m) = some (.modu (fmtNamespace m))
  frame : ∀ m ∈ st.started, ∀ n, st2.global? m n = st.global? m n
  newer : ∀ ns' ∈ api.namespaces, modName ns' ∈ st2.started →
    modName ns' ∈ modName ns :: st.started ∨ (rank ns'.name < rank ns.name ∧ Loaded api st2 ns')

/-- Loading a module whose import closure contains no started-but-unfinished module succeeds and leaves it
completely loaded. -/
theorem load_module {api : Api} (hapi : apiWF api = true) (rank : Name → Nat)
    (hrank : ∀ e ∈ importEdges api, rank e.2 < rank e.1) :
    ∀ (r : Nat) (ns : Namespace), ns ∈ api.namespaces → rank ns.name < r → ∀ (fuel : Nat) (st : St), StWF st →
      unstarted api st < fuel → InvB api rank st (rank ns.name) → modName ns ∉ st.started →
      ∃ st', runMod (pyModules api) fuel st (modName ns) = .ok st' ∧ LoadPost api rank st st' ns := by
  intro r
  induction r with
  | zero => intro ns _ h; exact absurd h (Nat.not_lt_zero _)
  | succ r ih =>
    intro ns hns hr fuel st hwf hfuel hinv hnot
    have hMin : modName ns ∈ api.namespaces.map modName := List.mem_map.mpr ⟨ns, hns, rfl⟩
    -- enter the module into `sys.modules`
    have hwf0 := stWF_start hwf (modName ns)
    have hle0 := le_start st (modName ns)
    have hlt0 : unstarted api { st with started := modName ns :: st.started } < unstarted api st :=
      unstartedIn_lt hnot List.mem_cons_self (fun m h => List.mem_cons_of_mem _ h) _ hMin
    cases fuel with
    | zero => exact absurd hfuel (Nat.not_lt_zero _)
    | succ fuel' =>
      have hfuel0 : unstarted api { st with started := modName ns :: st.started } < fuel' := by omega
      have hpos : 0 < fuel' := by omega
      -- the import statements
      have fold : ∀ (ms done : List Name), ns.imports = done ++ ms → ∀ st1, StWF st1 →
          Le { st with started := modName ns :: st.started } st1 → unstarted api st1 < fuel' →
          InvB api rank st1 (rank ns.name) →
          (∀ n, (st1.global? (modName ns) n).isSome = true → n ∈ done.map fmtNamespace) →
          (∀ m ∈ done, ∃ nsm ∈ api.namespaces, nsm.name = m ∧ Loaded api st1 nsm
            ∧ st1.global? (modName ns) (fmtNamespace m) = some (.modu (fmtNamespace m))) →
          (∀ m ∈ st.started, ∀ n, st1.global? m n = st.global? m n) →
          (∀ ns' ∈ api.namespaces, modName ns' ∈ st1.started →
            modName ns' ∈ modName ns :: st.started ∨ (rank ns'.name < rank ns.name ∧ Loaded api st1 ns')) →
          ∃ st2, execStmts (runMod (pyModules api) fuel') (modName ns) st1
              (ms.map fun m => Stmt.imp (fmtNamespace m)) = .ok st2 ∧ FoldPost api rank st ns st2 := by
        intro ms
        induction ms with
        | nil =>
          intro done hsplit st1 hwf1 hle1 _ _ honly himp hframe hnewer
          rw [List.append_nil] at hsplit
          exact ⟨st1, rfl, hwf1, hle1, by rw [hsplit]; exact honly, by rw [hsplit]; exact himp, hframe, hnewer⟩
        | cons m ms' ihms =>
          intro done hsplit st1 hwf1 hle1 hfuel1 hinv1 honly himp hframe hnewer
          have hm : m ∈ ns.imports := by rw [hsplit]; simp
          obtain ⟨nsm, hnsm, hnm⟩ := imports_info hapi hns hm
          have hmod : fmtNamespace m = modName nsm := by simp [modName, hnm]
          have hrk : rank nsm.name < rank ns.name := by
            rw [hnm]
            exact hrank (ns.name, m) (List.mem_flatMap.mpr ⟨ns, hns, List.mem_map.mpr ⟨m, hm, rfl⟩⟩)
          have hMst1 : modName ns ∈ st1.started := hle1.started _ List.mem_cons_self
          -- load it (or find it loaded)
          have hload : ∃ st1', runMod (pyModules api) fuel' st1 (modName nsm) = .ok st1' ∧ Le st1 st1' ∧ StWF st1'
              ∧ Loaded api st1' nsm ∧ (∀ m0 ∈ st1.started, ∀ n, st1'.global? m0 n = st1.global? m0 n)
              ∧ (∀ ns' ∈ api.namespaces, modName ns' ∈ st1'.started →
                  modName ns' ∈ st1.started ∨ (rank ns'.name ≤ rank nsm.name ∧ Loaded api st1' ns')) := by
            by_cases hst : modName nsm ∈ st1.started
            · obtain ⟨k, hk⟩ : ∃ k, fuel' = k + 1 := ⟨fuel' - 1, by omega⟩
              rw [hk]
              exact ⟨st1, runMod_started hst, Le.refl _, hwf1, hinv1 nsm hnsm hrk hst, fun _ _ _ => rfl,
                fun ns' _ h => Or.inl h⟩
            · obtain ⟨st1', hrun, hpost⟩ := ih nsm hnsm (by omega) fuel' st1 hwf1 hfuel1
                (fun ns' hns' hlt hs' => hinv1 ns' hns' (by omega) hs') hst
              exact ⟨st1', hrun, hpost.le, hpost.wf, hpost.loaded, hpost.frame, hpost.newer⟩
          obtain ⟨st1', hrun, hle', hwf', hloaded', hframe', hnewer'⟩ := hload
          -- bind its local name
          have hfresh : st1'.global? (modName ns) (fmtNamespace m) = none := by
            rw [hframe' _ hMst1]
            cases hg : st1.global? (modName ns) (fmtNamespace m) with
            | none => rfl
            | some v =>
              have hin := honly (fmtNamespace m) (by rw [hg]; rfl)
              have hnd := imports_nodup hapi hns
              rw [hsplit, List.map_append, List.map_cons] at hnd
              have := (List.nodup_append.mp hnd).2.2 _ hin _ List.mem_cons_self
              exact absurd rfl this
          obtain ⟨hleb, hwfb, hgb, hframeb⟩ := bind_module hwf' (hle'.started _ hMst1) hfresh
          have hle1b := hle'.trans hleb
          obtain ⟨st2, hexec, hpost⟩ := ihms (done ++ [m]) (by rw [hsplit]; simp)
            { st1' with globals := ((modName ns, fmtNamespace m), .modu (fmtNamespace m)) :: st1'.globals }
            hwfb (hle1.trans hle1b)
            (Nat.lt_of_le_of_lt (unstartedIn_mono (fun x hx => hle1b.started x hx) _) hfuel1)
            (by
              intro ns' hns' hlt hs'
              rcases hnewer' ns' hns' hs' with h | ⟨_, h⟩
              · exact (hinv1 ns' hns' hlt h).mono hle1b
              · exact h.mono hleb)
            (by
              intro n hn
              by_cases heq : n = fmtNamespace m
              · rw [heq]; exact List.mem_map.mpr ⟨m, by simp, rfl⟩
              · rw [hframeb _ _ (by simpa using heq), hframe' _ hMst1] at hn
                have := honly n hn
                simp only [List.map_append, List.mem_append]
                exact Or.inl this)
            (by
              intro m0 hm0
              rcases List.mem_append.mp hm0 with hm0 | hm0
              · obtain ⟨nsm0, h1, h2, h3, h4⟩ := himp m0 hm0
                exact ⟨nsm0, h1, h2, h3.mono hle1b, hle1b.glob _ _ _ h4⟩
              · simp only [List.mem_singleton] at hm0; subst hm0
                exact ⟨nsm, hnsm, hnm, hloaded'.mono hleb, hgb⟩)
            (by
              intro m0 hm0 n
              have hne : (m0, n) ≠ (modName ns, fmtNamespace m) := by
                intro h; injection h with h1 _; subst h1; exact hnot hm0
              rw [hframeb _ _ hne, hframe' _ (hle1.started _ (List.mem_cons_of_mem _ hm0)), hframe _ hm0])
            (by
              intro ns' hns' hs'
              rcases hnewer' ns' hns' hs' with h | ⟨hr', h⟩
              · rcases hnewer ns' hns' h with h2 | ⟨h2, h3⟩
                · exact Or.inl h2
                · exact Or.inr ⟨h2, h3.mono hle1b⟩
              · exact Or.inr ⟨by omega, h.mono hleb⟩)
          refine ⟨st2, ?_, hpost⟩
          simp only [List.map_cons, execStmts, hmod, hrun, bind, Except.bind]
          rw [← hmod]
          exact hexec
      obtain ⟨st2, hexec2, hpost2⟩ := fold ns.imports [] rfl _ hwf0 (Le.refl _) hfuel0
        (fun ns' hns' hlt hs' => by
          rcases List.mem_cons.mp hs' with h | h
          · have := nodup_map_inj modName (nodup_names_of_apiWF hapi).2 hns' hns h
            subst this; exact absurd hlt (Nat.lt_irrefl _)
          · exact (hinv ns' hns' hlt h).mono hle0)
        (fun n hn => by
          have := hwf.globstarted _ _ hn
          exact absurd this hnot)
        (fun m hm => by simp at hm) (fun _ _ _ => rfl) (fun ns' _ h => Or.inl h)
      -- the body
      have hctx : Ctx api st2 ns := ⟨hpost2.le.started _ List.mem_cons_self, hpost2.imported⟩
      obtain ⟨st3, hs3, hloaded3⟩ := body_ok hapi hns st2 hpost2.wf hctx hpost2.only
      refine ⟨st3, ?_, hle0.trans (hpost2.le.trans hs3.le), hs3.wf, hloaded3, ?_, ?_⟩
      · have hc : st.started.contains (modName ns) = false := by simpa using hnot
        simp only [runMod, hc, Bool.false_eq_true, if_false, lookup_pyModules hapi hns]
        rw [pyTypesStmts_eq, execStmts_append]
        have : importStmts ns = ns.imports.map fun m => Stmt.imp (fmtNamespace m) := rfl
        rw [this, hexec2]
        simp only [bind, Except.bind]
        rw [execStmts_noimp _ _ _ _ (body_noimp api ns)]
        exact hs3.ok
      · intro m0 hm0 n
        rw [hs3.frame m0 n (fun h => by subst h; exact absurd hm0 hnot), hpost2.frame m0 hm0]
      · intro ns' hns' hs'
        rw [hs3.started] at hs'
        rcases hpost2.newer ns' hns' hs' with h | ⟨h1, h2⟩
        · rcases List.mem_cons.mp h with h | h
          · have := nodup_map_inj modName (nodup_names_of_apiWF hapi).2 hns' hns h
            subst this
            exact Or.inr ⟨Nat.le_refl _, hloaded3⟩
          · exact Or.inl h
        · exact Or.inr ⟨Nat.le_of_lt h1, h2.mono hs3.le⟩

end StoneVerif.DeclPy
