import StoneVerif.Lemmas.DeclPyWF
namespace StoneVerif.DeclPy

theorem append_ne_self (c s : String) (hs : s ≠ "") : c ++ s ≠ c := by
  intro h
  have := congrArg String.length h
  simp only [String.length_append] at this
  have hl : s.length ≠ 0 := by
    intro h0
    apply hs
    exact String.length_eq_zero_iff.mp h0
  omega

theorem ready_here_global {st : St} {cur n : Name} {v : Val} (h : st.global? cur n = some v) :
    Ready st cur (here n) :=
  ⟨v, h, fun a ha => by simp [here] at ha⟩

/-- the two statements every struct / union class contributes -/
theorem class_item {api : Api} (hapi : apiWF api = true) {ns : Namespace} (hns : ns ∈ api.namespaces) {st : St}
    (hwf : StWF st) (hctx : Ctx api st ns) {pre post : List DataType} {d : DataType}
    (hsplit : ns.types = pre ++ d :: post) (hpre : ∀ y ∈ pre, ClassOK api st ns y)
    (body : List Name) (ctor : Option (List Name))
    (hfr : ∀ n ∈ [fmtClass d.name, fmtClass d.name ++ "_validator"], st.global? (modName ns) n = none) :
    ∃ st', Steps st (modName ns)
        [.cls (fmtClass d.name) (baseRef ns.name d) body ctor,
         .assign (fmtClass d.name ++ "_validator") none none [here (fmtClass d.name)]] st'
      ∧ st'.global? (modName ns) (fmtClass d.name) = some (.cls (clsId ns.name d.name))
      ∧ (st'.global? (modName ns) (fmtClass d.name ++ "_validator")).isSome = true
      ∧ (clsId ns.name d.name, parentId d) ∈ st'.classes
      ∧ (∀ b ∈ body, HasA st' (clsId ns.name d.name) b) := by
  have hb : match baseRef ns.name d with
      | none => parentId d = none
      | some r => r.attr = none ∧ ∃ p, parentId d = some p ∧ Resolves st (modName ns) r.mod r.name (.cls p) := by
    cases hp : d.parent with
    | none => simp [baseRef, parentId, hp]
    | some q =>
      obtain ⟨pns, pn⟩ := q
      obtain ⟨P, nsP, hnsP, hname, hmem, hPn, _, _, hloc, hfor⟩ := parent_info hapi hns hctx hsplit hp
      have hok : ClassOK api st nsP P := by
        by_cases h : pns = ns.name
        · obtain ⟨rfl, hin⟩ := hloc h; exact hpre P hin
        · exact (hfor h).2.cls P hmem
      simp only [baseRef, hp]
      exact ⟨qual_attr _ _ _ _, clsId pns pn, by simp [parentId, hp],
        resolves_parent hapi hctx hnsP hname hPn hok (fun h => (hfor h).1) none⟩
  obtain ⟨st1, hs1, hg1, he1, ha1⟩ := steps_cls (cur := modName ns) (n := fmtClass d.name) (body := body)
    (ctor := ctor) hwf (parentId d) hb (hfr _ (by simp)) hctx.started
  have hfr1 : st1.global? (modName ns) (fmtClass d.name ++ "_validator") = none := by
    rw [hs1.frame _ _ (fun _ => by
      simp only [List.flatMap_cons, List.flatMap_nil, globals_cls, List.append_nil, List.mem_singleton]
      exact append_ne_self _ _ (by decide))]
    exact hfr _ (by simp)
  obtain ⟨st2, v, hs2, hg2, _, hc2, ha2⟩ := steps_assign_glob (cur := modName ns)
    (t := fmtClass d.name ++ "_validator") (cp := none) (uses := [here (fmtClass d.name)]) hs1.wf
    (fun r hr => by simp only [List.mem_singleton] at hr; subst hr; exact ready_here_global hg1)
    (fun r hr => by simp at hr) hfr1 (hs1.le.started _ hctx.started)
  have hentry : (clsId ns.name d.name, parentId d) ∈ st2.classes := by rw [hc2]; exact he1
  refine ⟨st2, hs1.cons hs2, hs2.le.glob _ _ _ hg1, by simp [hg2], hentry, ?_⟩
  intro b hb'
  refine lookupAttr_direct _ _ _ (List.mem_map.mpr ⟨_, hentry, rfl⟩) ?_
  rw [ha2]; exact ha1 b hb'

end StoneVerif.DeclPy
