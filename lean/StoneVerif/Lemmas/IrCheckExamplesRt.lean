import StoneVerif.Model.IrCheck
import StoneVerif.Lemmas.IrCheck
import StoneVerif.Lemmas.RtWire
/-! C10, examples, part 1 (runtime side): a JSON object whose members are, field by field, values that the
strict decoder takes over unchanged, that assignment accepts unchanged and that the wire form gives back, is
decoded at a struct type into the instance holding exactly those members, and the wire form of that instance
is the object's members in declaration order. Nothing here mentions the compiler. -/
set_option linter.unusedSimpArgs false
set_option linter.unusedVariables false
namespace StoneVerif.IrCheck
open StoneVerif.Rt

/-! ### association lists: the four lookups of the model are one function -/

def lk {α : Type} (name : String) : List (String × α) → Option α
  | [] => none
  | (k, v) :: rest => if k == name then some v else lk name rest

theorem lookupSlot_eq_lk (n : String) (l : List (String × PyVal)) : lookupSlot n l = lk n l := by
  induction l with
  | nil => rfl
  | cons p rest ih => obtain ⟨k, v⟩ := p; simp [lookupSlot, lk, ih]

theorem jsonLookup_eq_lk (n : String) (l : List (String × JVal)) : jsonLookup n l = lk n l := by
  induction l with
  | nil => rfl
  | cons p rest ih => obtain ⟨k, v⟩ := p; simp [jsonLookup, lk, ih]

theorem lookupW_eq_lk (n : String) (l : List (String × JVal)) : lookupW n l = lk n l := by
  induction l with
  | nil => rfl
  | cons p rest ih => obtain ⟨k, v⟩ := p; simp [lookupW, lk, ih]

theorem childLookup_eq_lk (n : String) (l : List (String × R PyVal)) : childLookup n l = lk n l := by
  induction l with
  | nil => rfl
  | cons p rest ih => obtain ⟨k, v⟩ := p; simp [childLookup, lk, ih]

theorem lk_filterMap_of_not_mem {α β : Type} (nm : α → String) (g : α → Option β) (k : String) (L : List α)
    (hk : k ∉ L.map nm) : lk k (L.filterMap fun x => (g x).map fun b => (nm x, b)) = none := by
  induction L with
  | nil => simp [lk]
  | cons x xs ih =>
    simp only [List.map_cons, List.mem_cons, not_or] at hk
    cases hx : g x with
    | none => simpa [List.filterMap_cons, hx] using ih hk.2
    | some b =>
      have hne : ¬ nm x = k := fun h => hk.1 h.symm
      simpa [List.filterMap_cons, hx, lk, hne] using ih hk.2

theorem lk_filterMap_of_mem {α β : Type} (nm : α → String) (g : α → Option β) (L : List α)
    (hnd : (L.map nm).Nodup) (a : α) (ha : a ∈ L) :
    lk (nm a) (L.filterMap fun x => (g x).map fun b => (nm x, b)) = g a := by
  induction L with
  | nil => cases ha
  | cons x xs ih =>
    simp only [List.map_cons, List.nodup_cons] at hnd
    rcases List.mem_cons.mp ha with rfl | hm
    · cases hx : g a with
      | none => simpa [List.filterMap_cons, hx] using lk_filterMap_of_not_mem nm g (nm a) xs hnd.1
      | some b => simp [List.filterMap_cons, hx, lk]
    · have hne : ¬ nm x = nm a := fun h => hnd.1 (h ▸ List.mem_map_of_mem hm)
      cases hx : g x with
      | none => simpa [List.filterMap_cons, hx] using ih hnd.2 hm
      | some b => simpa [List.filterMap_cons, hx, lk, hne] using ih hnd.2 hm

theorem lk_some_mem {α : Type} {k : String} {l : List (String × α)} {v : α} (h : lk k l = some v) : (k, v) ∈ l := by
  induction l with
  | nil => simp [lk] at h
  | cons p rest ih =>
    obtain ⟨k', v'⟩ := p
    simp only [lk] at h
    by_cases hk : k' = k
    · subst hk; simp at h; subst h; simp
    · simp [hk] at h; exact List.mem_cons_of_mem _ (ih h)

theorem lk_of_mem_nodup {α : Type} {k : String} {l : List (String × α)} {v : α} (hnd : (l.map (·.1)).Nodup)
    (h : (k, v) ∈ l) : lk k l = some v := by
  induction l with
  | nil => cases h
  | cons p rest ih =>
    obtain ⟨k', v'⟩ := p
    simp only [List.map_cons, List.nodup_cons] at hnd
    rcases List.mem_cons.mp h with heq | hm
    · cases heq; simp [lk]
    · have hne : ¬ k' = k := fun he => hnd.1 (he ▸ List.mem_map_of_mem (f := (·.1)) hm)
      simp [lk, hne, ih hnd.2 hm]

theorem keys_filterMap_sublist {α β : Type} (nm : α → String) (g : α → Option β) (L : List α) :
    ((L.filterMap fun x => (g x).map fun b => (nm x, b)).map (·.1)).Sublist (L.map nm) := by
  induction L with
  | nil => simp
  | cons x xs ih =>
    cases hx : g x with
    | none => simpa [List.filterMap_cons, hx] using List.Sublist.cons _ ih
    | some b =>
      simp only [List.filterMap_cons, hx, Option.map_some, List.map_cons]
      exact List.Sublist.cons_cons _ ih

theorem nodup_of_map_nodup {α β : Type} (f : α → β) {l : List α} (h : (l.map f).Nodup) : l.Nodup := by
  induction l with
  | nil => simp
  | cons a as ih =>
    simp only [List.map_cons, List.nodup_cons] at h ⊢
    exact ⟨fun ha => h.1 (List.mem_map_of_mem ha), ih h.2⟩

/-- with distinct keys on both sides and every document key a field name, reading the document field by
field in table order gives a permutation of the document -/
theorem doc_perm {α : Type} (nm : α → String) (L : List α) (kvs : List (String × JVal))
    (hnd : (L.map nm).Nodup) (hkn : (kvs.map (·.1)).Nodup) (hkeys : ∀ kv ∈ kvs, kv.1 ∈ L.map nm) :
    (L.filterMap fun x => (lk (nm x) kvs).map fun j => (nm x, j)).Perm kvs := by
  have hnd1 : ((L.filterMap fun x => (lk (nm x) kvs).map fun j => (nm x, j)).map (·.1)).Nodup :=
    List.Nodup.sublist (keys_filterMap_sublist nm (fun x => lk (nm x) kvs) L) hnd
  rw [List.perm_ext_iff_of_nodup (nodup_of_map_nodup _ hnd1) (nodup_of_map_nodup _ hkn)]
  rintro ⟨k, j⟩
  constructor
  · intro h
    obtain ⟨x, _, hx⟩ := List.mem_filterMap.mp h
    cases hl : lk (nm x) kvs with
    | none => simp [hl] at hx
    | some j' =>
      simp [hl] at hx
      obtain ⟨rfl, rfl⟩ := hx
      exact lk_some_mem hl
  · intro h
    obtain ⟨x, hx, hxk⟩ := List.mem_map.mp (hkeys _ h)
    simp only at hxk
    refine List.mem_filterMap.mpr ⟨x, hx, ?_⟩
    rw [hxk, lk_of_mem_nodup hkn h]
    rfl

theorem filterMap_congr' {α β : Type} {f g : α → Option β} {l : List α} (h : ∀ x ∈ l, f x = g x) :
    l.filterMap f = l.filterMap g := by
  induction l with
  | nil => rfl
  | cons a as ih =>
    simp only [List.filterMap_cons, h a (by simp), ih (fun x hx => h x (List.mem_cons_of_mem _ hx))]

/-! ### slots -/

theorem setSlot_fresh (name : String) (v : PyVal) (slots : List (String × PyVal)) (h : ∀ p ∈ slots, p.1 ≠ name) :
    setSlot name v slots = slots ++ [(name, v)] := by
  induction slots with
  | nil => rfl
  | cons p rest ih =>
    obtain ⟨k, w⟩ := p
    have hk : ¬ k = name := h (k, w) (by simp)
    simp [setSlot, hk, ih (fun p hp => h p (List.mem_cons_of_mem _ hp))]

theorem delSlot_fresh (name : String) (slots : List (String × PyVal)) (h : ∀ p ∈ slots, p.1 ≠ name) :
    delSlot name slots = slots := by
  induction slots with
  | nil => rfl
  | cons p rest ih =>
    obtain ⟨k, w⟩ := p
    have hk : ¬ k = name := h (k, w) (by simp)
    simp [delSlot, hk, ih (fun p hp => h p (List.mem_cons_of_mem _ hp))]

theorem find_name_of_mem {fds : List FieldDef} (hnd : (fds.map (·.name)).Nodup) {fd : FieldDef} (h : fd ∈ fds) :
    fds.find? (·.name == fd.name) = some fd := by
  induction fds with
  | nil => cases h
  | cons a as ih =>
    simp only [List.map_cons, List.nodup_cons] at hnd
    rcases List.mem_cons.mp h with rfl | hm
    · simp
    · have hne : ¬ a.name = fd.name := fun he => hnd.1 (he ▸ List.mem_map_of_mem hm)
      simp [List.find?_cons, hne, ih hnd.2 hm]

/-! ### what the round trip needs of one member -/

/-- the member `j` of the document, at field `fd`: the strict decoder takes it over as `pyOfJson j`, assignment
stores that value as it is, and the wire form of the stored value is `j` again -/
structure StepSome (E : Ext) (env : Env) (fd : FieldDef) (j : JVal) : Prop where
  dec : decode E env [] true fd.ty j = .ok (pyOfJson j)
  set : ∀ slots, attrSet E env fd slots (pyOfJson j) = .ok (setSlot fd.name (pyOfJson j) slots)
  wir : wire E env fd.ty (pyOfJson j) = j
  nn : pyOfJson j ≠ .none
  vld : validB E env fd.ty (pyOfJson j) = true
  nrm : normalB env fd.ty (pyOfJson j) = true

/-- a field without a member in the document must be a nullable one -/
def StepOK (E : Ext) (env : Env) (fd : FieldDef) : Option JVal → Prop
  | some j => StepSome E env fd j
  | none => fd.attrNullable = true ∧ fd.ty.flags.nullable = true

/-! ### `decode_struct` -/

theorem decode_struct_obj (E : Ext) (env : Env) (cls : String) (kvs : List (String × JVal)) :
    decode E env [] true (.struct {} cls) (.obj kvs) =
      finishStruct E env [] true cls kvs
        (decodeMembers E env [] true (memberTable env [] true (.struct {} cls) kvs) kvs) := by
  unfold decode
  simp [PTy.flags]

theorem childLookup_decodeMembers (E : Ext) (env : Env) (perms : List String) (strict : Bool)
    (tbl : List (String × PTy)) (k : String) (kvs : List (String × JVal)) :
    childLookup k (decodeMembers E env perms strict tbl kvs) =
      match tbl.find? (·.1 == k), jsonLookup k kvs with
      | some p, some j => some (decode E env perms strict p.2 j)
      | _, _ => none := by
  induction kvs with
  | nil => cases tbl.find? (·.1 == k) <;> simp [decodeMembers, childLookup, jsonLookup]
  | cons kv rest ih =>
    obtain ⟨k', x⟩ := kv
    by_cases hk : k' = k
    · subst hk
      cases hf : tbl.find? (·.1 == k') with
      | none => simp only [decodeMembers, hf, ih]
      | some p => obtain ⟨a, ft⟩ := p; simp [decodeMembers, hf, childLookup, jsonLookup]
    · cases hf : tbl.find? (·.1 == k') with
      | none => simp only [decodeMembers, hf, ih, jsonLookup]; simp [hk]
      | some p =>
        obtain ⟨a, ft⟩ := p
        simp only [decodeMembers, hf, childLookup, jsonLookup, ih]
        simp [hk]

theorem finishFields_ok (E : Ext) (env : Env) (children : List (String × R PyVal)) (val : FieldDef → Option PyVal) :
    ∀ (fds : List FieldDef) (slots0 : List (String × PyVal)),
      (fds.map (·.name)).Nodup →
      (∀ fd ∈ fds, ∀ p ∈ slots0, p.1 ≠ fd.name) →
      (∀ fd ∈ fds, match val fd with
        | some v => childLookup fd.name children = some (.ok v) ∧
            ∀ slots, attrSet E env fd slots v = .ok (setSlot fd.name v slots)
        | none => childLookup fd.name children = none ∧ fd.attrNullable = true ∧ fd.ty.flags.nullable = true) →
      finishFields E env fds children slots0 =
        .ok (slots0 ++ fds.filterMap fun fd => (val fd).map fun v => (fd.name, v)) := by
  intro fds
  induction fds with
  | nil => intro slots0 _ _ _; simp [finishFields]
  | cons fd rest ih =>
    intro slots0 hnd hfresh hstep
    simp only [List.map_cons, List.nodup_cons] at hnd
    have hfd := hstep fd (by simp)
    have hrest : ∀ g ∈ rest, _ := fun g hg => hstep g (List.mem_cons_of_mem _ hg)
    cases hv : val fd with
    | some v =>
      simp only [hv] at hfd
      obtain ⟨hc, hs⟩ := hfd
      have hfr : ∀ p ∈ slots0, p.1 ≠ fd.name := hfresh fd (by simp)
      rw [finishFields]
      simp only [hc, bind, Except.bind, hs, setSlot_fresh _ _ _ hfr]
      rw [ih (slots0 ++ [(fd.name, v)]) hnd.2 ?_ hrest]
      · simp [List.filterMap_cons, hv]
      · intro g hg p hp
        rcases List.mem_append.mp hp with hp | hp
        · exact hfresh g (List.mem_cons_of_mem _ hg) p hp
        · simp at hp; subst hp
          intro he
          have he' : fd.name = g.name := he
          exact hnd.1 (he' ▸ List.mem_map_of_mem (f := (·.name)) hg)
    | none =>
      simp only [hv] at hfd
      obtain ⟨hc, hn, hfl⟩ := hfd
      have hfr : ∀ p ∈ slots0, p.1 ≠ fd.name := hfresh fd (by simp)
      have hhd : hasDefault env fd.ty = true := by simp [hasDefault, hfl]
      have hgd : getDefault fd.ty = .none := by simp [getDefault, hfl]
      rw [finishFields]
      simp only [hc, hhd, hgd, if_true, bind, Except.bind]
      have hset : attrSet E env fd slots0 .none = .ok slots0 := by
        simp [attrSet, hn, delSlot_fresh _ _ hfr]
      simp only [hset]
      rw [ih slots0 hnd.2 (fun g hg => hfresh g (List.mem_cons_of_mem _ hg)) hrest]
      simp [List.filterMap_cons, hv]

/-! ### the instance a document decodes to, and its wire form -/

/-- the slots of the decoded instance: the members of the document, in table order -/
def slotsOf (fds : List FieldDef) (kvs : List (String × JVal)) : List (String × PyVal) :=
  fds.filterMap fun fd => ((jsonLookup fd.name kvs).map pyOfJson).map fun v => (fd.name, v)

/-- the members of the document, in table order -/
def docOf (fds : List FieldDef) (kvs : List (String × JVal)) : List (String × JVal) :=
  fds.filterMap fun fd => (jsonLookup fd.name kvs).map fun j => (fd.name, j)

theorem memberTable_struct (env : Env) (cls : String) (sd : StructDef) (kvs : List (String × JVal))
    (henv : env.struct? cls = some sd) :
    memberTable env [] true (.struct {} cls) kvs = (sd.fieldsFor []).map fun f => (f.name, f.ty) := by
  simp [memberTable, henv]

theorem children_of_field (E : Ext) (env : Env) (fds : List FieldDef) (hnd : (fds.map (·.name)).Nodup)
    (kvs : List (String × JVal)) (fd : FieldDef) (h : fd ∈ fds) :
    childLookup fd.name (decodeMembers E env [] true (fds.map fun f => (f.name, f.ty)) kvs) =
      (jsonLookup fd.name kvs).map (decode E env [] true fd.ty) := by
  rw [childLookup_decodeMembers]
  have hf : (fds.map fun f => (f.name, f.ty)).find? (·.1 == fd.name) = some (fd.name, fd.ty) := by
    rw [List.find?_map]
    have := find_name_of_mem hnd h
    simp only [Function.comp_def]
    rw [this]; rfl
  rw [hf]
  cases jsonLookup fd.name kvs <;> rfl

theorem lookupSlot_slotsOf (fds : List FieldDef) (hnd : (fds.map (·.name)).Nodup) (kvs : List (String × JVal))
    (fd : FieldDef) (h : fd ∈ fds) : lookupSlot fd.name (slotsOf fds kvs) = (jsonLookup fd.name kvs).map pyOfJson := by
  rw [lookupSlot_eq_lk]
  exact lk_filterMap_of_mem (·.name) (fun fd => (jsonLookup fd.name kvs).map pyOfJson) fds hnd fd h

theorem attrHas_slotsOf (E : Ext) (env : Env) (fds : List FieldDef) (hnd : (fds.map (·.name)).Nodup)
    (kvs : List (String × JVal)) (hstep : ∀ fd ∈ fds, StepOK E env fd (jsonLookup fd.name kvs)) :
    (fds.all fun f => attrHas f (slotsOf fds kvs)) = true := by
  rw [List.all_eq_true]
  intro fd hfd
  have hs := hstep fd hfd
  simp only [attrHas, attrGet, lookupSlot_slotsOf fds hnd kvs fd hfd]
  cases hj : jsonLookup fd.name kvs with
  | some j => simp
  | none => simp only [hj, StepOK] at hs; simp [hs.1]

/-- DECODE: the strict decoder, at the struct type, turns the document into the instance whose slots are the
document's members (in table order). -/
theorem decode_struct_doc (E : Ext) (env : Env) (cls : String) (sd : StructDef) (kvs : List (String × JVal))
    (henv : env.struct? cls = some sd)
    (hnd : ((sd.fieldsFor []).map (·.name)).Nodup)
    (hkeys : ∀ kv ∈ kvs, kv.1 ∈ (sd.fieldsFor []).map (·.name))
    (hstep : ∀ fd ∈ sd.fieldsFor [], StepOK E env fd (jsonLookup fd.name kvs)) :
    decode E env [] true (.struct {} cls) (.obj kvs) = .ok (.struct cls (slotsOf (sd.fieldsFor []) kvs)) := by
  rw [decode_struct_obj, memberTable_struct env cls sd kvs henv]
  unfold finishStruct
  simp only [henv]
  have hstrict : (kvs.any fun x => match x with
      | (k, _) => !((sd.fieldsFor []).map (·.name)).contains k && !k.startsWith ".tag") = false := by
    rw [List.any_eq_false]
    rintro ⟨k, j⟩ hkv
    have := hkeys _ hkv
    simp only at this
    obtain ⟨x, hx, hxk⟩ := List.mem_map.mp this
    simp
    intro h
    exact absurd hxk (h x hx)
  have hff : finishFields E env (sd.fieldsFor [])
      (decodeMembers E env [] true ((sd.fieldsFor []).map fun f => (f.name, f.ty)) kvs) [] =
      .ok (slotsOf (sd.fieldsFor []) kvs) := by
    rw [finishFields_ok E env _ (fun fd => (jsonLookup fd.name kvs).map pyOfJson) (sd.fieldsFor []) [] hnd
      (by intro _ _ p hp; cases hp)]
    · simp [slotsOf]
    · intro fd hfd
      have hs := hstep fd hfd
      rw [children_of_field E env _ hnd kvs fd hfd]
      cases hj : jsonLookup fd.name kvs with
      | some j =>
        simp only [hj, StepOK] at hs
        exact ⟨by simp [hs.dec], hs.set⟩
      | none =>
        simp only [hj, StepOK] at hs
        exact ⟨rfl, hs⟩
  simp only [hstrict, hff, attrHas_slotsOf E env _ hnd kvs hstep]
  simp

theorem wireSlots_cons_some (E : Ext) (env : Env) (fields : List FieldDef) (k : String) (x : PyVal)
    (rest : List (String × PyVal)) (f : FieldDef) (hf : fields.find? (·.name == k) = some f) (hx : x ≠ .none) :
    wireSlots E env fields ((k, x) :: rest) = (k, wire E env f.ty x) :: wireSlots E env fields rest := by
  cases x <;> simp [wireSlots, hf] at hx ⊢

theorem wireSlots_doc (E : Ext) (env : Env) (fds : List FieldDef) (hnd : (fds.map (·.name)).Nodup)
    (kvs : List (String × JVal)) (hstep : ∀ fd ∈ fds, StepOK E env fd (jsonLookup fd.name kvs)) :
    ∀ L : List FieldDef, (∀ fd ∈ L, fd ∈ fds) → wireSlots E env fds (slotsOf L kvs) = docOf L kvs := by
  intro L
  induction L with
  | nil => intro _; simp [slotsOf, docOf, wireSlots]
  | cons fd rest ih =>
    intro hsub
    have hfd : fd ∈ fds := hsub fd (by simp)
    have ih' := ih (fun g hg => hsub g (List.mem_cons_of_mem _ hg))
    have hs := hstep fd hfd
    unfold slotsOf docOf at ih' ⊢
    cases hj : jsonLookup fd.name kvs with
    | none => simpa [List.filterMap_cons, hj] using ih'
    | some j =>
      simp only [hj, StepOK] at hs
      simp only [List.filterMap_cons, hj, Option.map_some]
      rw [wireSlots_cons_some E env fds fd.name (pyOfJson j) _ fd (find_name_of_mem hnd hfd) hs.nn, hs.wir, ih']

/-- WIRE: the wire form of the decoded instance is the document's members in table order. -/
theorem wire_struct_doc (E : Ext) (env : Env) (cls : String) (sd : StructDef) (kvs : List (String × JVal))
    (henv : env.struct? cls = some sd)
    (hnd : ((sd.fieldsFor []).map (·.name)).Nodup)
    (hstep : ∀ fd ∈ sd.fieldsFor [], StepOK E env fd (jsonLookup fd.name kvs)) :
    wire E env (.struct {} cls) (.struct cls (slotsOf (sd.fieldsFor []) kvs)) = .obj (docOf (sd.fieldsFor []) kvs) := by
  have hpf : publicFields env cls = sd.fieldsFor [] := by simp [publicFields, henv, fieldsFor_nil]
  unfold wire
  simp only [hpf, wireSlots_doc E env _ hnd kvs hstep _ (fun _ h => h)]
  congr 1
  unfold pick
  conv => rhs; unfold docOf
  apply filterMap_congr'
  intro fd hfd
  rw [lookupW_eq_lk]
  have := lk_filterMap_of_mem (·.name) (fun fd => jsonLookup fd.name kvs) (sd.fieldsFor []) hnd fd hfd
  unfold docOf
  rw [this]

theorem validSlots_doc (E : Ext) (env : Env) (fds : List FieldDef) (hnd : (fds.map (·.name)).Nodup)
    (kvs : List (String × JVal)) (hstep : ∀ fd ∈ fds, StepOK E env fd (jsonLookup fd.name kvs)) :
    ∀ L : List FieldDef, (∀ fd ∈ L, fd ∈ fds) →
      validSlots E env fds (slotsOf L kvs) = true ∧ normalSlots env fds (slotsOf L kvs) = true := by
  intro L
  induction L with
  | nil => intro _; simp [slotsOf, validSlots, normalSlots]
  | cons fd rest ih =>
    intro hsub
    have hfd : fd ∈ fds := hsub fd (by simp)
    have ih' := ih (fun g hg => hsub g (List.mem_cons_of_mem _ hg))
    have hs := hstep fd hfd
    unfold slotsOf at ih' ⊢
    cases hj : jsonLookup fd.name kvs with
    | none => simpa [List.filterMap_cons, hj] using ih'
    | some j =>
      simp only [hj, StepOK] at hs
      simp only [List.filterMap_cons, hj, Option.map_some, validSlots, normalSlots, find_name_of_mem hnd hfd,
        hs.vld, hs.nrm, ih'.1, ih'.2]
      simp

/-- VALID / NORMAL: the decoded instance is a valid value of the struct type, in stored form. -/
theorem valid_struct_doc (E : Ext) (env : Env) (cls : String) (sd : StructDef) (kvs : List (String × JVal))
    (henv : env.struct? cls = some sd) (hself : sd.ancestors.contains cls = true)
    (hnd : ((sd.fieldsFor []).map (·.name)).Nodup)
    (hstep : ∀ fd ∈ sd.fieldsFor [], StepOK E env fd (jsonLookup fd.name kvs)) :
    validB E env (.struct {} cls) (.struct cls (slotsOf (sd.fieldsFor []) kvs)) = true ∧
    normalB env (.struct {} cls) (.struct cls (slotsOf (sd.fieldsFor []) kvs)) = true := by
  have hpf : publicFields env cls = sd.fieldsFor [] := by simp [publicFields, henv, fieldsFor_nil]
  obtain ⟨h1, h2⟩ := validSlots_doc E env _ hnd kvs hstep _ (fun _ h => h)
  constructor
  · unfold validB
    have hself' : cls ∈ sd.ancestors := by simpa using hself
    simp [PTy.flags, hpf, Env.structSubclass, henv, hself', h1, attrHas_slotsOf E env _ hnd kvs hstep]
  · unfold normalB
    simp [hpf, h2]

theorem jsonCompatObjDecode_struct (E : Ext) (env : Env) (cls : String) (j : JVal) :
    jsonCompatObjDecode E env [] true (.struct {} cls) j = decode E env [] true (.struct {} cls) j := by
  simp only [jsonCompatObjDecode, PTy.flags]
  cases decode E env [] true (.struct {} cls) j <;> simp

end StoneVerif.IrCheck
