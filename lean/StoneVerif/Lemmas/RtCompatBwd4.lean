import StoneVerif.Lemmas.RtCompatBwd3
import StoneVerif.Lemmas.RtCompatFwd3
/-!
Helper lemmas for C07, part 13 (backward direction): `decode` of the newer spec on a document in the older spec's encoder
form, case by case.
-/
namespace StoneVerif.Rt.Compat
open StoneVerif.Rt

/-- the simulation of the members of one object (backward), for every pair of member tables -/
def MembersIHB (E : Ext) (ρ : Rho) (A B : Env) (sA sB : Bool) (kvs : List (String × JVal)) : Prop :=
  ∀ (tblA tblB : List (String × PTy)) (k : String) (ftA ftB : PTy),
    tightMembers A tblA kvs = true → nvrMembers ρ A B tblA kvs = true →
    tblA.find? (·.1 == k) = some (k, ftA) → tblB.find? (·.1 == k) = some (k, ftB) →
    tySub ρ ftA ftB = true → tyWF A ftA = true →
    ChildRelB ρ B (decodeMembers E A [] sA tblA kvs) (decodeMembers E B [] sB tblB kvs) k ftB

theorem field_name_ne_dotTag {env : Env} (hwf : envWF env = true) {c : String} {f : FieldDef} (hf : f ∈ publicFields env c) :
    f.name ≠ ".tag" := by
  unfold publicFields at hf
  cases hs : env.struct? c with
  | none => simp [hs] at hf
  | some s =>
    have hw := struct_wf hwf hs
    simp only [StructDef.wf, Bool.and_eq_true, List.all_eq_true] at hw
    have hmem : f ∈ s.allAttrs := by
      simp only [hs, fieldsSpec_nil] at hf
      exact (List.mem_filter.mp hf).1
    have := (hw.1.1.1.2 f hmem).1
    intro hc
    rw [hc] at this
    simp at this

theorem children_struct_bwd {E : Ext} {ρ : Rho} {A B : Env} (cx : Ctx ρ A B) {a b : String} {sA sB : Bool}
    {kvs : List (String × JVal)} (hIH : MembersIHB E ρ A B sA sB kvs)
    (hk : tightMembers A (structTable A a) kvs = true) (hn : nvrMembers ρ A B (structTable A a) kvs = true) :
    (∀ f ∈ publicFields A a, ∀ g ∈ publicFields B b, fieldSub ρ f g = true →
      ChildRelB ρ B (decodeMembers E A [] sA (structTable A a) kvs) (decodeMembers E B [] sB (structTable B b) kvs) g.name g.ty) ∧
    (∀ g ∈ publicFields B b, (∀ f ∈ publicFields A a, f.name ≠ g.name) →
      childLookup g.name (decodeMembers E B [] sB (structTable B b) kvs) = none) := by
  constructor
  · intro f hf g hg hsub
    have h1 := structTable_find cx.wfA hf
    have h2 := structTable_find cx.wfB hg
    rw [fieldSub_name hsub] at h1
    exact hIH _ _ g.name f.ty g.ty hk hn h1 h2 (fieldSub_parts hsub).1 (publicFields_tyWF cx.wfA hf)
  · intro g hg hno
    apply childLookup_none_of_absent
    intro x hx
    rcases tightMembers_known A _ kvs hk g.name x hx with h1 | h1
    · obtain ⟨p, hp⟩ := Option.isSome_iff_exists.mp h1
      have hm := List.mem_of_find?_eq_some hp
      have hpn : p.1 = g.name := by simpa using List.find?_some hp
      unfold structTable at hm
      obtain ⟨f, hf, hfp⟩ := List.mem_map.mp hm
      exact hno f hf (by rw [← hpn, ← hfp])
    · exact field_name_ne_dotTag cx.wfB hg h1

theorem tightDoc_struct_obj (A : Env) (fl : Flags) (c : String) (kvs : List (String × JVal)) :
    tightDoc A (.struct fl c) (.obj kvs) = tightMembers A (structTable A c) kvs := by
  unfold tightDoc; rfl

theorem nvrDoc_struct_obj (ρ : Rho) (A B : Env) (fl : Flags) (c : String) (kvs : List (String × JVal)) :
    nvrDoc ρ A B (.struct fl c) (.obj kvs) = nvrMembers ρ A B (structTable A c) kvs := by
  unfold nvrDoc; rfl

theorem decode_struct_bwd (E : Ext) {ρ : Rho} {A B : Env} (cx : Ctx ρ A B) {f g : Flags} {c c' : String}
    (hr : ρ.rel c c' = true) {sa : StructDef} (hsa : A.struct? c = some sa) (kvs : List (String × JVal)) (sA sB : Bool)
    (w : PyVal) (hIH : MembersIHB E ρ A B sA sB kvs)
    (hk : tightDoc A (.struct f c) (.obj kvs) = true) (hn : nvrDoc ρ A B (.struct f c) (.obj kvs) = true)
    (h : decode E A [] sA (.struct f c) (.obj kvs) = .ok w) :
    decode E B [] sB (.struct g c') (.obj kvs) = .ok (lift ρ B (.struct g c') w) := by
  obtain ⟨sb, hsb⟩ := struct_related cx hr hsa
  have hrel := fieldsRel_public cx.compat cx.wfA cx.wfB hr hsa
  rw [tightDoc_struct_obj] at hk
  rw [nvrDoc_struct_obj] at hn
  rw [decode_struct_obj', memberTable_struct' A sA f c sa kvs hsa] at h
  rw [decode_struct_obj', memberTable_struct' B sB g c' sb kvs hsb]
  obtain ⟨hc1, hc2⟩ := children_struct_bwd (b := c') (sA := sA) (sB := sB) cx hIH hk hn
  obtain ⟨slotsA, hw, hB⟩ := finishStruct_bwd E cx hsa hsb hrel kvs hc1 hc2 sA sB w hk h
  rw [hB, hw, lift_struct_struct]

/-! ### enumerated subtypes -/

theorem tightDoc_tree_obj (A : Env) (fl : Flags) (c : String) (kvs : List (String × JVal)) {tag : String} {s : StructDef}
    (ht : jsonLookup ".tag" kvs = some (.str tag)) (hs : A.struct? c = some s) :
    tightDoc A (.tree fl c) (.obj kvs) =
      match findSub [tag] (s.subtypes.getD []) with
      | some (_, sc, false) => tightMembers A (structTable A sc) kvs
      | _ => false := by
  unfold tightDoc
  simp only [isVoidT, Bool.false_eq_true, if_false, ht, hs]
  rfl

theorem nvrDoc_tree_obj (ρ : Rho) (A B : Env) (fl : Flags) (c : String) (kvs : List (String × JVal)) {tag : String} {s : StructDef}
    (ht : jsonLookup ".tag" kvs = some (.str tag)) (hs : A.struct? c = some s) :
    nvrDoc ρ A B (.tree fl c) (.obj kvs) =
      match findSub [tag] (s.subtypes.getD []) with
      | some (_, sc, false) => nvrMembers ρ A B (structTable A sc) kvs
      | _ => true := by
  unfold nvrDoc
  simp only [ht, hs]
  rfl

theorem treeClassB_leaf {ρ : Rho} {B : Env} (hρ : ρ.wf = true) (hwf : envWF B = true) {root tag scA scB : String}
    {s : StructDef} (hs : B.struct? root = some s) (he : ([tag], scB, false) ∈ s.subtypes.getD [])
    (hr : ρ.rel scA scB = true) : treeClassB ρ B root scA = scB := by
  unfold treeClassB
  simp [Rho.toB_of_rel hρ hr, leafTag_of_entry hwf hs he]

theorem decode_tree_bwd (E : Ext) {ρ : Rho} {A B : Env} (cx : Ctx ρ A B) {f g : Flags} {c c' : String}
    (hr : ρ.rel c c' = true) {sa : StructDef} (hsa : A.struct? c = some sa) (hta : sa.subtypes.isSome = true)
    (kvs : List (String × JVal)) (sA sB : Bool) (w : PyVal) (hIH : MembersIHB E ρ A B sA sB kvs)
    (hk : tightDoc A (.tree f c) (.obj kvs) = true) (hn : nvrDoc ρ A B (.tree f c) (.obj kvs) = true)
    (h : decode E A [] sA (.tree f c) (.obj kvs) = .ok w) :
    decode E B [] sB (.tree g c') (.obj kvs) = .ok (lift ρ B (.tree g c') w) := by
  obtain ⟨sb, hsb⟩ := struct_related cx hr hsa
  obtain ⟨_, hsubs⟩ := subsRel (compat_struct cx.compat hr hsa) hsa hsb hta
  have hρ := compatEnv_wf cx.compat
  cases ht : jsonLookup ".tag" kvs with
  | none => unfold decode at h; simp [ht, PTy.flags, verr] at h
  | some tv =>
    cases tv with
    | str tag =>
      rw [decode_tree_obj E A sA f c kvs ht hsa] at h
      rw [decode_tree_obj E B sB g c' kvs ht hsb]
      rw [tightDoc_tree_obj A f c kvs ht hsa] at hk
      rw [nvrDoc_tree_obj ρ A B f c kvs ht hsa] at hn
      cases hfA : findSub [tag] (sa.subtypes.getD []) with
      | none => simp [hfA] at hk
      | some eA =>
        obtain ⟨tagsA, scA, trA⟩ := eA
        obtain ⟨hmA, htA⟩ := findSub_some hfA
        simp only at htA
        subst htA
        cases trA with
        | true => simp [hfA] at hk
        | false =>
          simp only [hfA] at hk hn h
          simp only [Bool.false_eq_true, if_false] at h
          obtain ⟨e', hf', hr', htr'⟩ := hsubs.known _ hmA
          simp only at hf' hr' htr'
          obtain ⟨tagsB, scB, trB⟩ := e'
          simp only at hr' htr'
          subst htr'
          obtain ⟨hmB, htB⟩ := findSub_some hf'
          simp only at htB
          subst htB
          obtain ⟨_, dA, hdA⟩ := structSubclass_entry cx.wfA hsa hmA
          obtain ⟨_, dB, hdB⟩ := structSubclass_entry cx.wfB hsb hmB
          simp only at hdA hdB
          have hrel := fieldsRel_public cx.compat cx.wfA cx.wfB hr' hdA
          obtain ⟨hc1, hc2⟩ := children_struct_bwd (b := scB) (sA := sA) (sB := sB) cx hIH hk hn
          obtain ⟨slotsA, hw, hB⟩ := finishStruct_bwd E cx hdA hdB hrel kvs hc1 hc2 sA sB w hk h
          simp only [hf', Bool.false_eq_true, if_false, hB, hw, lift_tree_struct,
            treeClassB_leaf hρ cx.wfB hsb hmB hr']
    | _ => unfold decode at h; simp [ht, PTy.flags, verr] at h

/-! ### union constructors -/

theorem mkUnion_lift (E : Ext) {ρ : Rho} {A B : Env} (cx : Ctx ρ A B) {a b tag : String} {ua ub : UnionDef} {tdA tdB : TagDef}
    (hua : A.union? a = some ua) (hub : B.union? b = some ub)
    (htA : publicTag? A a tag = some tdA) (htB : publicTag? B b tag = some tdB)
    (hty : tySub ρ tdA.ty tdB.ty = true) (x w : PyVal) (h : mkUnion E A a tag x = .ok w) :
    w = .union a tag x ∧ mkUnion E B b tag (lift ρ B tdB.ty x) = .ok (.union b tag (lift ρ B tdB.ty x)) := by
  have hw := (publicTag_tyWF cx.wfA htA).1
  have hn := tySub_nullable hty
  rw [mkUnion_eq E A a tag x hua (ctorValidator_public cx.wfA hua htA)] at h
  rw [mkUnion_eq E B b tag _ hub (ctorValidator_public cx.wfB hub htB)]
  rw [← hn, ← tySub_isVoid hty, ← isUserT_sub hty, isNoneV_lift]
  by_cases h1 : (!tdA.ty.flags.nullable && isVoidT tdA.ty) = true
  · simp only [h1, if_true] at h ⊢
    by_cases hx : isNoneV x = true
    · have : x = .none := by cases x <;> simp_all [isNoneV]
      subst this
      simp only [isNoneV, if_true, Except.ok.injEq] at h
      simp [lift_none, isNoneV, h.symm]
    · simp [hx, verr] at h
  · simp only [h1, Bool.false_eq_true, if_false] at h ⊢
    by_cases h2 : (!tdA.ty.flags.nullable && isUserT tdA.ty) = true
    · simp only [h2, if_true] at h ⊢
      cases hv : validateTypeOnly A tdA.ty x with
      | error e => simp [hv, Except.map] at h
      | ok u =>
        simp only [hv, Except.map, Except.ok.injEq] at h
        simp [validateTypeOnly_lift cx hty hw x hv, Except.map, h.symm]
    · simp only [h2, Bool.false_eq_true, if_false] at h ⊢
      cases hv : validate E A tdA.ty x with
      | error e => simp [hv, Except.map] at h
      | ok x' =>
        simp only [hv, Except.map, Except.ok.injEq] at h
        simp [validate_lift E cx x _ _ x' hty hw hv, Except.map, h.symm]

end StoneVerif.Rt.Compat
