import StoneVerif.Lemmas.RtCompatRefl
/-!
Helper lemmas for C07, part 20: renaming types is a compatible change — `renEnv r A` is `A` with every class reference
replaced through `r`; with `r` one-to-one on the classes of `A`, `A` is an older version of `renEnv r A` under the
correspondence `c ↦ r c`.
-/
namespace StoneVerif.Rt.Compat
open StoneVerif.Rt

def renTy (r : String → String) : PTy → PTy
  | .list fl item a b => .list fl (renTy r item) a b
  | .map fl k v => .map fl (renTy r k) (renTy r v)
  | .struct fl c => .struct fl (r c)
  | .tree fl c => .tree fl (r c)
  | .union fl c => .union fl (r c)
  | t => t

def renField (r : String → String) (f : FieldDef) : FieldDef := { f with ty := renTy r f.ty }
def renLevel (r : String → String) (l : Level) : Level := { cls := r l.cls, fields := l.fields.map (renField r) }
def renSub (r : String → String) (e : SubEntry) : SubEntry := (e.1, r e.2.1, e.2.2)
def renStruct (r : String → String) (s : StructDef) : StructDef :=
  { cls := r s.cls, levels := s.levels.map (renLevel r), subtypes := s.subtypes.map (·.map (renSub r)), catchAll := s.catchAll }
def renTag (r : String → String) (t : TagDef) : TagDef := { t with ty := renTy r t.ty }
def renULevel (r : String → String) (l : ULevel) : ULevel := { cls := r l.cls, tags := l.tags.map (renTag r) }
def renUnion (r : String → String) (u : UnionDef) : UnionDef :=
  { cls := r u.cls, levels := u.levels.map (renULevel r), catchAll := u.catchAll }
def renEnv (r : String → String) (A : Env) : Env :=
  { structs := A.structs.map (renStruct r), unions := A.unions.map (renUnion r) }

/-- the correspondence of a renaming -/
def Rho.ofRen (r : String → String) (A : Env) : Rho := (Rho.idOf A).map fun p => (p.1, r p.2)

/-- `r` is one-to-one on the class names of `A` -/
def RenInj (r : String → String) (A : Env) : Prop :=
  ∀ p ∈ Rho.idOf A, ∀ q ∈ Rho.idOf A, r p.1 = r q.1 → p.1 = q.1

theorem ofRen_mem {r : String → String} {A : Env} {c : String} (h : (c, c) ∈ Rho.idOf A) : (c, r c) ∈ Rho.ofRen r A :=
  List.mem_map.mpr ⟨(c, c), h, rfl⟩

theorem ofRen_wf {r : String → String} {A : Env} (hinj : RenInj r A) : (Rho.ofRen r A).wf = true := by
  simp only [Rho.wf, Rho.ofRen, List.all_eq_true, List.mem_map]
  rintro _ ⟨p, hp, rfl⟩ _ ⟨q, hq, rfl⟩
  have e1 := idOf_diag hp
  have e2 := idOf_diag hq
  simp only
  by_cases h : p.1 = q.1
  · have : r p.2 = r q.2 := by rw [← e1, ← e2, h]
    simp [h, this]
  · have : ¬ r p.2 = r q.2 := by
      rw [← e1, ← e2]; exact fun hr => h (hinj p hp q hq hr)
    have e3 : (p.1 == q.1) = false := by simpa using h
    have e4 : (r p.2 == r q.2) = false := by simpa using this
    rw [e3, e4]; rfl

theorem renEnv_struct? {r : String → String} {A : Env} (hinj : RenInj r A) {c : String} {s : StructDef}
    (hs : A.struct? c = some s) : (renEnv r A).struct? (r c) = some (renStruct r s) := by
  have hc := idOf_mem_struct hs
  simp only [Env.struct?, renEnv] at hs ⊢
  have key : ∀ (l : List StructDef), (∀ x ∈ l, (x.cls, x.cls) ∈ Rho.idOf A) → l.find? (·.cls == c) = some s →
      (l.map (renStruct r)).find? (·.cls == r c) = some (renStruct r s) := by
    intro l
    induction l with
    | nil => intro _ h; cases h
    | cons x rest ih =>
      intro hall h
      simp only [List.find?_cons] at h
      simp only [List.map_cons, List.find?_cons]
      by_cases hx : x.cls = c
      · simp only [hx, beq_self_eq_true] at h
        cases h
        simp [renStruct, hx]
      · have h1 : (x.cls == c) = false := by simpa using hx
        simp only [h1] at h
        have h2 : ((renStruct r x).cls == r c) = false := by
          simp only [renStruct, beq_eq_false_iff_ne, ne_eq]
          intro hr
          exact hx (hinj _ (hall x List.mem_cons_self) _ hc hr)
        simp only [h2]
        exact ih (fun y hy => hall y (List.mem_cons_of_mem _ hy)) h
  refine key A.structs ?_ hs
  intro x hx
  simp only [Rho.idOf, List.mem_append, List.mem_map]
  exact .inl ⟨x, hx, rfl⟩

theorem renEnv_union? {r : String → String} {A : Env} (hinj : RenInj r A) {c : String} {u : UnionDef}
    (hu : A.union? c = some u) : (renEnv r A).union? (r c) = some (renUnion r u) := by
  have hc := idOf_mem_union hu
  simp only [Env.union?, renEnv] at hu ⊢
  have key : ∀ (l : List UnionDef), (∀ x ∈ l, (x.cls, x.cls) ∈ Rho.idOf A) → l.find? (·.cls == c) = some u →
      (l.map (renUnion r)).find? (·.cls == r c) = some (renUnion r u) := by
    intro l
    induction l with
    | nil => intro _ h; cases h
    | cons x rest ih =>
      intro hall h
      simp only [List.find?_cons] at h
      simp only [List.map_cons, List.find?_cons]
      by_cases hx : x.cls = c
      · simp only [hx, beq_self_eq_true] at h
        cases h
        simp [renUnion, hx]
      · have h1 : (x.cls == c) = false := by simpa using hx
        simp only [h1] at h
        have h2 : ((renUnion r x).cls == r c) = false := by
          simp only [renUnion, beq_eq_false_iff_ne, ne_eq]
          intro hr
          exact hx (hinj _ (hall x List.mem_cons_self) _ hc hr)
        simp only [h2]
        exact ih (fun y hy => hall y (List.mem_cons_of_mem _ hy)) h
  refine key A.unions ?_ hu
  intro x hx
  simp only [Rho.idOf, List.mem_append, List.mem_map]
  exact .inr ⟨x, hx, rfl⟩

theorem tySub_ren {r : String → String} {A : Env} : ∀ (t : PTy), tyWF A t = true →
    tySub (Rho.ofRen r A) t (renTy r t) = true := by
  intro t
  induction t with
  | list fl item a b ih =>
    intro h
    simp only [tyWF] at h
    simp [tySub, renTy, ih h]
  | map fl k v ihk ihv =>
    intro h
    simp only [tyWF, Bool.and_eq_true] at h
    have hk : tyWF A k = true := by cases k <;> simp_all [tyWF]
    simp [tySub, renTy, ihk hk, ihv h.2]
  | struct fl c =>
    intro h
    obtain ⟨s, hs⟩ := tyWF_struct h
    simp [tySub, renTy, Rho.rel_iff.mpr (ofRen_mem (idOf_mem_struct hs))]
  | tree fl c =>
    intro h
    obtain ⟨s, hs⟩ := tyWF_tree h
    simp [tySub, renTy, Rho.rel_iff.mpr (ofRen_mem (idOf_mem_struct hs))]
  | union fl c =>
    intro h
    obtain ⟨u, hu⟩ := tyWF_union h
    simp [tySub, renTy, Rho.rel_iff.mpr (ofRen_mem (idOf_mem_union hu))]
  | _ => intro _; simp [tySub, renTy]

theorem renStruct_allAttrs (r : String → String) (s : StructDef) :
    (renStruct r s).allAttrs = s.allAttrs.map (renField r) := by
  simp only [StructDef.allAttrs, renStruct, List.flatMap_map, renLevel]
  induction s.levels with
  | nil => rfl
  | cons l rest ih => simp [List.flatMap_cons, ih]

theorem find_renField {r : String → String} {fields : List FieldDef} (hnd : nodupS (fields.map (·.name)) = true)
    {f : FieldDef} (hf : f ∈ fields) : (fields.map (renField r)).find? (·.name == f.name) = some (renField r f) := by
  have hnd' : nodupS ((fields.map (renField r)).map (·.name)) = true := by
    have : (fields.map (renField r)).map (·.name) = fields.map (·.name) := by
      simp [List.map_map, Function.comp_def, renField]
    rw [this]; exact hnd
  have := find_name_of_mem hnd' (List.mem_map.mpr ⟨f, hf, rfl⟩)
  simpa [renField] using this

theorem structSub_ren {r : String → String} {A : Env} (hwf : envWF A = true) (hinj : RenInj r A) {c : String}
    {s : StructDef} (hs : A.struct? c = some s) : structSub (Rho.ofRen r A) A (renEnv r A) c (r c) = true := by
  have hw := struct_wf hwf hs
  have hnd := struct_nodup hw
  unfold structSub
  simp only [hs, renEnv_struct? hinj hs, renStruct_allAttrs, Bool.and_eq_true, List.all_eq_true]
  refine ⟨⟨?_, ?_⟩, ?_⟩
  · intro f hf
    rw [find_renField hnd hf]
    have hty : tyWF A f.ty = true := by
      have := hw
      simp only [StructDef.wf, Bool.and_eq_true, List.all_eq_true] at this
      exact (this.1.1.2 f hf).1
    simp [fieldSub, renField, tySub_ren f.ty hty]
  · intro g hg
    obtain ⟨f, hf, rfl⟩ := List.mem_map.mp hg
    have : (renField r f).name = f.name := rfl
    rw [this, find_name_of_mem hnd hf]; rfl
  · cases hsub : s.subtypes with
    | none => simp [renStruct, hsub]
    | some xa =>
      simp only [renStruct, hsub, Option.map_some, Bool.and_eq_true, beq_self_eq_true, List.all_eq_true, true_and]
      have hfind : ∀ e ∈ xa, findSub e.1 (xa.map (renSub r)) = some (renSub r e) := by
        intro e he
        have key : ∀ (l : List SubEntry), (∀ e' ∈ l, e'.1 = e.1 → e' = e) → e ∈ l →
            findSub e.1 (l.map (renSub r)) = some (renSub r e) := by
          intro l
          induction l with
          | nil => intro _ h; cases h
          | cons x rest ih =>
            intro huniq hm
            simp only [findSub, List.map_cons, List.find?_cons]
            by_cases hx : x.1 = e.1
            · have := huniq x List.mem_cons_self hx
              subst this
              simp [renSub]
            · have h1 : ((renSub r x).1 == e.1) = false := by simpa [renSub] using hx
              simp only [h1]
              rcases List.mem_cons.mp hm with rfl | hm'
              · exact absurd rfl hx
              · exact ih (fun e' he' => huniq e' (List.mem_cons_of_mem _ he')) hm'
        apply key xa _ he
        intro e' he' ht
        have hw' := hw
        simp only [StructDef.wf, hsub, Bool.and_eq_true] at hw'
        have hnd2 := (nodupS_iff _).mp hw'.2.2
        exact names_inj_of_nodup (fun (e : SubEntry) => String.intercalate "\x00" e.1) hnd2 e' he' e he
          (by show String.intercalate "\x00" e'.1 = String.intercalate "\x00" e.1; rw [ht])
      refine ⟨?_, ?_⟩
      · intro e he
        rw [hfind e he]
        have : e ∈ s.subtypes.getD [] := by rw [hsub]; exact he
        obtain ⟨d, hd, _⟩ := subtype_entry_wf hw this
        simp [renSub, Rho.rel_iff.mpr (ofRen_mem (idOf_mem_struct hd))]
      · rw [Bool.or_eq_true, List.all_eq_true]
        right
        intro e' he'
        obtain ⟨e, he, rfl⟩ := List.mem_map.mp he'
        -- the entry of A under the same tag path
        have : (renSub r e).1 = e.1 := rfl
        rw [this]
        cases hq : findSub e.1 xa with
        | some _ => rfl
        | none =>
          unfold findSub at hq
          have := List.find?_eq_none.mp hq e he
          simp at this

theorem renUnion_allTags (r : String → String) (u : UnionDef) :
    UnionDef.allTags (renUnion r u) = (UnionDef.allTags u).map (renTag r) := by
  simp only [UnionDef.allTags, renUnion, List.flatMap_map, renULevel]
  induction u.levels with
  | nil => rfl
  | cons l rest ih => simp [List.flatMap_cons, ih]

theorem unionSub_ren {r : String → String} {A : Env} (hwf : envWF A = true) (hinj : RenInj r A) {c : String}
    {u : UnionDef} (hu : A.union? c = some u) : unionSub (Rho.ofRen r A) A (renEnv r A) c (r c) = true := by
  have hw := union_wf hwf hu
  have hnd := union_tags_nodup hw
  have hnd' : nodupS (((UnionDef.allTags u).map (renTag r)).map (·.name)) = true := by
    have : ((UnionDef.allTags u).map (renTag r)).map (·.name) = (UnionDef.allTags u).map (·.name) := by
      simp [List.map_map, Function.comp_def, renTag]
    rw [this]; exact hnd
  unfold unionSub
  simp only [hu, renEnv_union? hinj hu, renUnion_allTags, Bool.and_eq_true, List.all_eq_true]
  refine ⟨⟨by simp [renUnion], ?_⟩, ?_⟩
  · intro t ht
    have h1 := findTag_self hnd' (List.mem_map.mpr ⟨t, ht, rfl⟩)
    have : (renTag r t).name = t.name := rfl
    rw [this] at h1
    rw [h1]
    have hty : tyWF A t.ty = true := by
      have := hw
      simp only [UnionDef.wf, Bool.and_eq_true, List.all_eq_true] at this
      exact (this.1.1.2 t ht).2
    simp [renTag, tySub_ren t.ty hty]
  · rw [Bool.or_eq_true, List.all_eq_true]
    right
    intro t' ht'
    obtain ⟨t, ht, rfl⟩ := List.mem_map.mp ht'
    have : (renTag r t).name = t.name := rfl
    rw [this, findTag_self hnd ht]; rfl

/-- RENAMING TYPES: `A` is an older version of `A` with its classes renamed one-to-one. -/
theorem edit_rename_env {A : Env} (hwf : envWF A = true) (r : String → String) (hinj : RenInj r A) :
    compatEnv (Rho.ofRen r A) A (renEnv r A) = true := by
  simp only [compatEnv, Bool.and_eq_true, ofRen_wf hinj, List.all_eq_true, true_and]
  intro p hp
  obtain ⟨q, hq, rfl⟩ := List.mem_map.mp hp
  have hd := idOf_diag hq
  obtain ⟨a, b⟩ := q
  simp only at hd
  subst hd
  have href := compatEnv_refl hwf
  simp only [compatEnv, Bool.and_eq_true, List.all_eq_true] at href
  have hpa := href.2 (a, a) hq
  simp only [pairOk, Bool.and_eq_true, Bool.or_eq_true] at hpa ⊢
  refine ⟨⟨hpa.1.1, ?_⟩, ?_⟩
  · cases hs : A.struct? a with
    | none => simp
    | some s => right; exact structSub_ren hwf hinj hs
  · cases hu : A.union? a with
    | none => simp
    | some u => right; exact unionSub_ren hwf hinj hu

end StoneVerif.Rt.Compat
