import StoneVerif.Lemmas.RtWireEnc
/-!
Helper lemmas for C05, part 5: `encode = wire` on valid values in stored-normal form (mutual induction on the value).
-/
namespace StoneVerif.Rt

/-! ### assembling a struct from its encoded slots -/

theorem lookupEnc_map_ok (name : String) (ws : List (String × JVal)) :
    lookupEnc name (ws.map fun kj => (kj.1, (.ok kj.2 : R JVal))) = (lookupW name ws).map .ok := by
  induction ws with
  | nil => rfl
  | cons kj rest ih =>
    obtain ⟨k, j⟩ := kj
    simp only [List.map_cons, lookupEnc, lookupW, ih]
    split <;> simp

/-- `encode_struct`'s loop: when every field of the table answers `hasattr` and every encoded slot succeeded,
the object consists of the encoded slots in table order. -/
theorem assembleStruct_ok (fields : List FieldDef) (slots : List (String × PyVal)) (ws : List (String × JVal))
    (hall : fields.all (fun f => attrHas f slots) = true) :
    assembleStruct fields slots (ws.map fun kj => (kj.1, (.ok kj.2 : R JVal))) = .ok (pick fields ws) := by
  induction fields with
  | nil => simp [assembleStruct, pick]
  | cons f rest ih =>
    simp only [List.all_cons, Bool.and_eq_true] at hall
    have ih' := ih hall.2
    have h1 := hall.1
    simp only [attrHas] at h1
    obtain ⟨x, hx⟩ := Option.isSome_iff_exists.mp h1
    simp only [assembleStruct, hx, lookupEnc_map_ok, ih', pick, List.filterMap_cons] at ih' ⊢
    cases lookupW f.name ws <;> simp [bind, Except.bind, pure, Except.pure]

/-! ### values without sub-values -/

def isLeafV : PyVal → Bool
  | .none | .bool _ | .int _ | .flt _ | .str _ | .bytes _ | .ts .. => true
  | _ => false

theorem validB_none {E : Ext} {env : Env} {t : PTy} (h : validB E env t .none = true) :
    t.flags.nullable = true ∨ isVoidT t = true := by
  cases hn : t.flags.nullable
  · right
    cases t <;> simp_all [validB, validPrim, isNoneV, isVoidT, PTy.flags]
  · exact .inl rfl

theorem encode_leaf_wire (E : Ext) (env : Env) (hx : envWFX env = true) (norm : Bool) (t : PTy) (v : PyVal)
    (hleaf : isLeafV v = true) (hv : validB E env t v = true) (hn : normalB env t v = true) :
    encode E env [] false norm t v = .ok (wire E env t v) := by
  by_cases hg : (t.flags.nullable && isNoneV v) = true
  · simp only [Bool.and_eq_true] at hg
    cases v <;> simp [isNoneV] at hg
    rw [encode_nullable_none E env norm t hg]
    simp [wire]
  · have hg' : (t.flags.nullable && isNoneV v) = false := by simpa using hg
    have hp : isPrimTy t = true := by
      cases t <;> cases v <;> simp_all [validB, validPrim, isNoneV, PTy.flags, isPrimTy, isLeafV]
    have hv2 : validB E env (t.withFlags {}) v = true := by
      cases t <;> cases v <;> simp_all [validB, validPrim, isNoneV, PTy.flags, PTy.withFlags, isPrimTy, isLeafV]
    rw [encode_prim E env norm t v hp hg' (validate_ok E env hx t v hv) (validate_ok E env hx _ v hv2)]
    cases t <;> cases v <;>
      simp_all [validB, validPrim, normalB, isNoneV, PTy.flags, isPrimTy, isLeafV, encodePrim, wire]

/-! ### table facts in the form the encoder uses them -/

theorem fieldsFor_eq_publicFields {env : Env} {c : String} {s : StructDef} (h : env.struct? c = some s) :
    s.fieldsFor [] = publicFields env c := by
  simp [publicFields, h, fieldsFor_nil]

theorem leafTag_find {env : Env} {cls c tag : String} {s : StructDef} (hs : env.struct? cls = some s)
    (h : leafTag? env cls c = some tag) :
    (s.subtypes.getD []).find? (fun (_, sc, _) => sc == c) = some ([tag], c, false) := by
  simp only [leafTag?, hs] at h
  cases hf : (s.subtypes.getD []).find? (fun (_, sc, _) => sc == c) with
  | none => simp [hf] at h
  | some e =>
    obtain ⟨tags, sc, isTree⟩ := e
    have hc : sc = c := by simpa using List.find?_some hf
    subst hc
    simp only [hf] at h
    split at h <;> simp_all

theorem tag_tables {env : Env} (hwf : envWF env = true) {cls tag : String} {u : UnionDef} {td : TagDef}
    (hu : env.union? cls = some u) (htag : publicTag? env cls tag = some td) :
    u.isTagPresent tag [] = true ∧ u.valDataType tag [] = some td.ty := by
  have := tagmap_lookup hwf hu tag
  rw [htag] at this
  simp [UnionDef.isTagPresent, UnionDef.valDataType, this]

/-! ### the main induction -/

mutual
theorem encode_wire (E : Ext) (env : Env) (hwf : envWF env = true) (hx : envWFX env = true) :
    ∀ (t : PTy) (v : PyVal) (norm : Bool), tyWF env t = true → validB E env t v = true →
      normalB env t v = true → encode E env [] false norm t v = .ok (wire E env t v)
  | t, .none, norm, _, hv, hn => encode_leaf_wire E env hx norm t _ rfl hv hn
  | t, .bool _, norm, _, hv, hn => encode_leaf_wire E env hx norm t _ rfl hv hn
  | t, .int _, norm, _, hv, hn => encode_leaf_wire E env hx norm t _ rfl hv hn
  | t, .flt _, norm, _, hv, hn => encode_leaf_wire E env hx norm t _ rfl hv hn
  | t, .str _, norm, _, hv, hn => encode_leaf_wire E env hx norm t _ rfl hv hn
  | t, .bytes _, norm, _, hv, hn => encode_leaf_wire E env hx norm t _ rfl hv hn
  | t, .ts _ _, norm, _, hv, hn => encode_leaf_wire E env hx norm t _ rfl hv hn
  | t, .other _, norm, _, hv, _ => by
    cases t <;> simp [validB, validPrim, isNoneV, PTy.flags] at hv
  | t, .tuple xs, norm, _, hv, hn => by
    cases t <;> simp [validB, validPrim, isNoneV, PTy.flags] at hv
    simp [normalB] at hn
  | t, .list xs, norm, ht, hv, hn => by
    cases t <;> simp [validB, validPrim, isNoneV, PTy.flags] at hv
    case list fl item lo hi =>
      simp only [tyWF] at ht
      simp only [normalB] at hn
      have ih := encodeList_wire E env hwf hx item xs ht hv.2 hn
      have hv2 : validB E env (.list {} item lo hi) (.list xs) = true := by
        simp [validB, isNoneV, PTy.flags, hv.1.1, hv.1.2, hv.2]
      obtain ⟨v', hv'⟩ := validate_ok E env hx _ _ hv2
      rw [encode_list E env norm fl item lo hi xs hv', ih]
      simp [wire, Except.map]
  | t, .dict kvs, norm, ht, hv, hn => by
    cases t <;> simp [validB, validPrim, isNoneV, PTy.flags] at hv
    case map fl kt vt =>
      simp only [tyWF, Bool.and_eq_true] at ht
      simp only [normalB] at hn
      have ih := encodeDict_wire E env hwf hx kt vt kvs ht.1 ht.2 hv hn
      have hv2 : validB E env (.map {} kt vt) (.dict kvs) = true := by
        simp [validB, isNoneV, PTy.flags, hv]
      obtain ⟨v', hv'⟩ := validate_ok E env hx _ _ hv2
      rw [encode_map E env norm fl kt vt kvs hv', ih]
      simp [wire, Except.map]
  | t, .struct c slots, norm, ht, hv, hn => by
    obtain ⟨fl, cls, htc, hsub, hall, hvs⟩ := validB_struct_inv hv
    obtain ⟨s, sc, hs, hsc, hp⟩ := publicFields_prefix hx hsub
    have hf := structFieldsOk_of_valid hx hsub slots hall
    rcases htc with rfl | rfl
    · -- an ordinary struct: the table of the validator's class
      simp only [normalB] at hn
      have hvs' := validSlots_prefix E env hp slots hvs
      have hn' := normalSlots_prefix env hp slots hn
      have hall' := attrsPrefix_all_attrHas hp slots hall
      have ih := encodeSlots_wire E env hwf hx (publicFields env cls) slots
        (fun f hf => publicFields_tyWF hwf hf) hvs' hn'
      rw [encode_struct E env norm fl cls c slots hs hsub hf, fieldsFor_eq_publicFields hs, ih,
        assembleStruct_ok _ _ _ hall']
      simp [wire, Except.map]
    · -- a struct with enumerated subtypes: the leaf's tag, then the table of the value's class
      simp only [normalB] at hn
      have hleaf : (leafTag? env cls c).isSome = true := by
        simp [validB, isNoneV, PTy.flags] at hv
        exact hv.1.1.1
      obtain ⟨tag, htag⟩ := Option.isSome_iff_exists.mp hleaf
      have ih := encodeSlots_wire E env hwf hx (publicFields env c) slots
        (fun f hf => publicFields_tyWF hwf hf) hvs hn
      rw [encode_tree E env norm fl cls c tag slots hs hsub hf (leafTag_find hs htag) hsc,
        fieldsFor_eq_publicFields hsc, ih, assembleStruct_ok _ _ _ hall]
      simp [wire, htag, Except.map]
  | t, .union c tag payload, norm, ht, hv, hn => by
    cases t <;> simp [validB, validPrim, isNoneV, PTy.flags] at hv
    case union fl cls =>
      simp only [tyWF] at ht
      obtain ⟨u, hu⟩ := Option.isSome_iff_exists.mp ht
      obtain ⟨hsub, hv⟩ := hv
      cases htag : publicTag? env cls tag with
      | none => simp [htag] at hv
      | some td =>
        simp only [htag] at hv
        simp only [normalB, htag] at hn
        obtain ⟨hpres, hvd⟩ := tag_tables hwf hu htag
        obtain ⟨htd, -⟩ := publicTag_tyWF hwf htag
        by_cases hvoid : isVoidT td.ty = true
        · rw [encode_union_tagonly E env norm fl cls c tag payload hu hsub hpres hvd (by simp [hvoid])]
          cases hty : td.ty <;> simp_all [isVoidT, wire]
        · simp only [hvoid, Bool.false_eq_true, if_false] at hv
          have ih := encode_wire E env hwf hx td.ty payload false htd hv hn
          by_cases hpn : isNoneV payload = true
          · have hpe : payload = .none := by cases payload <;> simp_all [isNoneV]
            subst hpe
            have hnl : td.ty.flags.nullable = true := by
              rcases validB_none hv with h | h
              · exact h
              · exact absurd h hvoid
            rw [encode_union_tagonly E env norm fl cls c tag .none hu hsub hpres hvd (by simp [hnl, isNoneV])]
            cases hty : td.ty <;> simp [wire, htag, hty]
          · have hg : (isVoidT td.ty || (td.ty.flags.nullable && isNoneV payload)) = false := by
              simp [hvoid, hpn]
            by_cases hst : ∃ fl' sc, td.ty = .struct fl' sc
            · obtain ⟨fl', sc, hty⟩ := hst
              rw [hty] at hvd ih hv
              obtain ⟨c', slots', rfl⟩ : ∃ c' slots', payload = .struct c' slots' := by
                cases payload <;> simp_all [validB, isNoneV, PTy.flags]
              have hw : wire E env (.struct fl' sc) (.struct c' slots') =
                  .obj (pick (publicFields env sc) (wireSlots E env (publicFields env sc) slots')) := by
                simp [wire]
              rw [hw] at ih
              rw [encode_union_struct E env norm fl cls c tag _ hu hsub hpres hvd (by simp [isNoneV]) ih]
              simp [wire, htag, hty]
            · have hns : ∀ fl' sc, td.ty ≠ .struct fl' sc := fun fl' sc h => hst ⟨fl', sc, h⟩
              rw [encode_union_nested E env norm fl cls c tag payload hu hsub hpres hvd hg hns ih]
              cases hty : td.ty <;> cases payload <;> simp_all [isVoidT, isNoneV, wire]
theorem encodeList_wire (E : Ext) (env : Env) (hwf : envWF env = true) (hx : envWFX env = true) :
    ∀ (t : PTy) (xs : List PyVal), tyWF env t = true → validList E env t xs = true →
      normalList env t xs = true → encodeList E env [] false t xs = .ok (wireList E env t xs)
  | t, [], _, _, _ => by simp [encodeList, wireList]
  | t, x :: xs, ht, hv, hn => by
    simp only [validList, normalList, Bool.and_eq_true] at hv hn
    have h1 := encode_wire E env hwf hx t x true ht hv.1 hn.1
    have h2 := encodeList_wire E env hwf hx t xs ht hv.2 hn.2
    simp [encodeList, wireList, h1, h2, bind, Except.bind, pure, Except.pure]
theorem encodeDict_wire (E : Ext) (env : Env) (hwf : envWF env = true) (hx : envWFX env = true) :
    ∀ (kt vt : PTy) (kvs : List (PyVal × PyVal)),
      (match kt with | .str fl _ _ _ => !fl.nullable | _ => false) = true → tyWF env vt = true →
      validDict E env kt vt kvs = true → normalDict env kt vt kvs = true →
      encodeDict E env [] false kt vt kvs = .ok (wireDict E env vt kvs)
  | kt, vt, [], _, _, _, _ => by simp [encodeDict, wireDict]
  | kt, vt, (k, x) :: rest, hk, ht, hv, hn => by
    simp only [validDict, normalDict, Bool.and_eq_true] at hv hn
    have hkt : tyWF env kt = true := by cases kt <;> simp_all [tyWF]
    have h0 := encode_wire E env hwf hx kt k true hkt hv.1.1 hn.1.1
    have h1 := encode_wire E env hwf hx vt x true ht hv.1.2 hn.1.2
    have h2 := encodeDict_wire E env hwf hx kt vt rest hk ht hv.2 hn.2
    have hks : ∃ s, k = .str s := by
      have := hv.1.1
      cases kt <;> simp at hk
      cases k <;> simp_all [validB, validPrim, isNoneV, PTy.flags]
    obtain ⟨ks, rfl⟩ := hks
    have hw : wire E env kt (.str ks) = .str ks := by simp [wire]
    rw [hw] at h0
    simp [encodeDict, wireDict, h0, h1, h2, bind, Except.bind, pure, Except.pure]
theorem encodeSlots_wire (E : Ext) (env : Env) (hwf : envWF env = true) (hx : envWFX env = true) :
    ∀ (fields : List FieldDef) (slots : List (String × PyVal)), (∀ f ∈ fields, tyWF env f.ty = true) →
      validSlots E env fields slots = true → normalSlots env fields slots = true →
      encodeSlots E env [] false fields slots =
        (wireSlots E env fields slots).map fun kj => (kj.1, (.ok kj.2 : R JVal))
  | fields, [], _, _, _ => by simp [encodeSlots, wireSlots]
  | fields, (k, x) :: rest, hty, hv, hn => by
    simp only [validSlots, normalSlots, Bool.and_eq_true] at hv hn
    have h2 := encodeSlots_wire E env hwf hx fields rest hty hv.2 hn.2
    cases hf : fields.find? (·.name == k) with
    | none => simp [encodeSlots, wireSlots, hf, h2]
    | some f =>
      have hv1 := hv.1
      have hn1 := hn.1
      simp only [hf] at hv1 hn1
      have h1 := encode_wire E env hwf hx f.ty x false (hty f (List.mem_of_find?_eq_some hf)) hv1 hn1
      cases x <;> simp [encodeSlots, wireSlots, hf, h1, h2, isNone]
end

end StoneVerif.Rt
