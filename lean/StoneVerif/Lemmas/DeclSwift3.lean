import StoneVerif.Lemmas.DeclSwift2
/-! Helper lemmas for Props/C17.lean, part 3: coverage (every IR item has its declaration) and counting. -/
namespace StoneVerif.DeclSwift

/-- a key that occurs in a duplicate-free key list is the key of exactly one element -/
theorem count_one_of_nodup {α β : Type} [DecidableEq β] (f : α → β) (l : List α) (k : β)
    (hn : (l.map f).Nodup) (hk : k ∈ l.map f) : (l.filter fun x => decide (f x = k)).length = 1 := by
  induction l with
  | nil => simp at hk
  | cons a rest ih =>
    simp only [List.map_cons, List.nodup_cons] at hn
    simp only [List.map_cons, List.mem_cons] at hk
    by_cases hak : f a = k
    · have : rest.filter (fun x => decide (f x = k)) = [] := by
        apply List.filter_eq_nil_iff.mpr
        intro x hx hfx
        have : f x = k := by simpa using hfx
        exact hn.1 (hak ▸ this ▸ List.mem_map_of_mem hx)
      simp [hak, this]
    · rcases hk with hk | hk
      · exact absurd hk.symm hak
      · simp [hak, ih hn.2 hk]

/-! ### Coverage of declared user types (what `refs_closed` needs) -/

theorem swStructDecls_heads (api : Api) (ns : String) (s : StructT) :
    (∃ d ∈ swStructDecls api ns s, d.key = ("", "class", [swClass ns], swClass s.name)) ∧
    (∃ d ∈ swStructDecls api ns s, d.key = ("", "class", [swClass ns], swClass s.name ++ "Serializer")) := by
  have h1 : ("", "class", [swClass ns], swClass s.name) ∈ (swStructDecls api ns s).map Decl.key := by
    simp [swStructDecls, Decl.key]
  have h2 : ("", "class", [swClass ns], swClass s.name ++ "Serializer") ∈ (swStructDecls api ns s).map Decl.key := by
    simp [swStructDecls, Decl.key]
  exact ⟨List.mem_map.mp h1, List.mem_map.mp h2⟩

theorem swUnionDecls_heads (api : Api) (ns : String) (u : UnionT) :
    (∃ d ∈ swUnionDecls api ns u, d.key = ("", "enum", [swClass ns], swClass u.name)) ∧
    (∃ d ∈ swUnionDecls api ns u, d.key = ("", "class", [swClass ns], swClass u.name ++ "Serializer")) := by
  have h1 : ("", "enum", [swClass ns], swClass u.name) ∈ (swUnionDecls api ns u).map Decl.key := by
    simp [swUnionDecls, Decl.key]
  have h2 : ("", "class", [swClass ns], swClass u.name ++ "Serializer") ∈ (swUnionDecls api ns u).map Decl.key := by
    simp [swUnionDecls, Decl.key]
  exact ⟨List.mem_map.mp h1, List.mem_map.mp h2⟩

theorem mem_swiftTypesDecls_of_type {api : Api} {ns : Namespace} {t : UserT} {d : Decl} (hns : ns ∈ api.nss)
    (ht : t ∈ ns.types)
    (hd : d ∈ (match t with
      | .struct s => swStructDecls api ns.name s
      | .union u => swUnionDecls api ns.name u)) : d ∈ swiftTypesDecls api := by
  simp only [swiftTypesDecls, List.mem_flatMap, List.mem_cons, List.mem_append]
  exact ⟨ns, hns, Or.inl (Or.inr ⟨t, ht, hd⟩)⟩

theorem key_nkey {d : Decl} {u k : String} {sc : List String} {n : String} (h : d.key = (u, k, sc, n)) :
    d.nkey = (u, sc, n) := by
  simp only [Decl.key, Prod.mk.injEq] at h
  simp [Decl.nkey, h.1, h.2.2.1, h.2.2.2]

theorem swiftTypes_declares {api : Api} {q : QName} {t : UserT} (h : api.find? q = some t) :
    ("", [swClass q.ns], swClass q.name) ∈ (swiftTypesDecls api).map Decl.nkey ∧
    ("", [swClass q.ns], swClass q.name ++ "Serializer") ∈ (swiftTypesDecls api).map Decl.nkey := by
  obtain ⟨ns, hns, hn, ht, htn⟩ := find?_sound h
  cases t with
  | struct s =>
    obtain ⟨⟨d1, h1, k1⟩, ⟨d2, h2, k2⟩⟩ := swStructDecls_heads api ns.name s
    simp only [UserT.name] at htn
    rw [hn, htn] at k1 k2
    exact ⟨List.mem_map.mpr ⟨d1, mem_swiftTypesDecls_of_type hns ht h1, key_nkey k1⟩,
           List.mem_map.mpr ⟨d2, mem_swiftTypesDecls_of_type hns ht h2, key_nkey k2⟩⟩
  | union u =>
    obtain ⟨⟨d1, h1, k1⟩, ⟨d2, h2, k2⟩⟩ := swUnionDecls_heads api ns.name u
    simp only [UserT.name] at htn
    rw [hn, htn] at k1 k2
    exact ⟨List.mem_map.mpr ⟨d1, mem_swiftTypesDecls_of_type hns ht h1, key_nkey k1⟩,
           List.mem_map.mpr ⟨d2, mem_swiftTypesDecls_of_type hns ht h2, key_nkey k2⟩⟩

theorem mem_swiftTypesObjcDecls_of_type {api : Api} {ns : Namespace} {t : UserT} {d : Decl} (hns : ns ∈ api.nss)
    (ht : t ∈ ns.types)
    (hd : d ∈ (match t with
      | .struct s => swObjcStructDecls api ns.name s
      | .union u => swObjcUnionDecls api ns.name u)) : d ∈ swiftTypesObjcDecls api := by
  simp only [swiftTypesObjcDecls, List.mem_flatMap]
  exact ⟨ns, hns, t, ht, hd⟩

theorem swObjcStructDecls_head (api : Api) (ns : String) (s : StructT) :
    ∃ d ∈ swObjcStructDecls api ns s, d.key = ("", "class", [], "DBX" ++ swClass ns ++ swClass s.name) := by
  have h1 : ("", "class", [], "DBX" ++ swClass ns ++ swClass s.name) ∈ (swObjcStructDecls api ns s).map Decl.key := by
    simp [swObjcStructDecls, Decl.key, TRef.text]
  exact List.mem_map.mp h1

theorem swObjcUnionDecls_head (api : Api) (ns : String) (u : UnionT) :
    ∃ d ∈ swObjcUnionDecls api ns u, d.key = ("", "class", [], "DBX" ++ swClass ns ++ swClass u.name) := by
  have h1 : ("", "class", [], "DBX" ++ swClass ns ++ swClass u.name) ∈ (swObjcUnionDecls api ns u).map Decl.key := by
    simp [swObjcUnionDecls, Decl.key, TRef.text]
  exact List.mem_map.mp h1

theorem swiftTypesObjc_declares {api : Api} {q : QName} {t : UserT} (h : api.find? q = some t) :
    ("", [], "DBX" ++ swClass q.ns ++ swClass q.name) ∈ (swiftTypesObjcDecls api).map Decl.nkey := by
  obtain ⟨ns, hns, hn, ht, htn⟩ := find?_sound h
  cases t with
  | struct s =>
    obtain ⟨d1, h1, k1⟩ := swObjcStructDecls_head api ns.name s
    simp only [UserT.name] at htn
    rw [hn, htn] at k1
    exact List.mem_map.mpr ⟨d1, mem_swiftTypesObjcDecls_of_type hns ht h1, key_nkey k1⟩
  | union u =>
    obtain ⟨d1, h1, k1⟩ := swObjcUnionDecls_head api ns.name u
    simp only [UserT.name] at htn
    rw [hn, htn] at k1
    exact List.mem_map.mpr ⟨d1, mem_swiftTypesObjcDecls_of_type hns ht h1, key_nkey k1⟩

theorem mem_objcTypesDecls_of_type {api : Api} {ns : Namespace} {t : UserT} {d : Decl} (hns : ns ∈ api.nss)
    (ht : t ∈ ns.types)
    (hd : d ∈ (match t with
      | .struct s => ocStructDecls api ns.name s
      | .union u => ocUnionDecls api ns.name u)) : d ∈ objcTypesDecls api := by
  simp only [objcTypesDecls, List.mem_flatMap, List.mem_append]
  exact ⟨ns, hns, Or.inl ⟨t, ht, hd⟩⟩

theorem serializerDecls_heads (q : QName) :
    (∃ d ∈ serializerDecls q, d.key = ("h", "interface", [], ocClassPrefix q ++ "Serializer")) ∧
    (∃ d ∈ serializerDecls q, d.key = ("m", "implementation", [], ocClassPrefix q)) ∧
    (∃ d ∈ serializerDecls q, d.key = ("m", "implementation", [], ocClassPrefix q ++ "Serializer")) := by
  have h1 : ("h", "interface", [], ocClassPrefix q ++ "Serializer") ∈ (serializerDecls q).map Decl.key := by
    simp [serializerDecls, Decl.key]
  have h2 : ("m", "implementation", [], ocClassPrefix q) ∈ (serializerDecls q).map Decl.key := by
    simp [serializerDecls, Decl.key]
  have h3 : ("m", "implementation", [], ocClassPrefix q ++ "Serializer") ∈ (serializerDecls q).map Decl.key := by
    simp [serializerDecls, Decl.key]
  exact ⟨List.mem_map.mp h1, List.mem_map.mp h2, List.mem_map.mp h3⟩

theorem ocStructDecls_head (api : Api) (ns : String) (s : StructT) :
    ∃ d ∈ ocStructDecls api ns s, d.key = ("h", "interface", [], ocClassPrefix ⟨ns, s.name⟩) := by
  have h1 : ("h", "interface", [], ocClassPrefix ⟨ns, s.name⟩) ∈ (ocStructDecls api ns s).map Decl.key := by
    simp [ocStructDecls, Decl.key]
  exact List.mem_map.mp h1

theorem ocStructDecls_ser (api : Api) (ns : String) (s : StructT) :
    ∀ d ∈ serializerDecls ⟨ns, s.name⟩, d ∈ ocStructDecls api ns s := by
  intro d hd
  unfold ocStructDecls
  simp only [List.mem_append]
  exact Or.inr hd

theorem ocUnionDecls_head (api : Api) (ns : String) (u : UnionT) :
    ∃ d ∈ ocUnionDecls api ns u, d.key = ("h", "interface", [], ocClassPrefix ⟨ns, u.name⟩) := by
  have h1 : ("h", "interface", [], ocClassPrefix ⟨ns, u.name⟩) ∈ (ocUnionDecls api ns u).map Decl.key := by
    simp [ocUnionDecls, Decl.key]
  exact List.mem_map.mp h1

theorem ocUnionDecls_ser (api : Api) (ns : String) (u : UnionT) :
    ∀ d ∈ serializerDecls ⟨ns, u.name⟩, d ∈ ocUnionDecls api ns u := by
  intro d hd
  unfold ocUnionDecls
  simp only [List.mem_append]
  exact Or.inr hd

theorem objcTypes_declares {api : Api} {q : QName} {t : UserT} (h : api.find? q = some t) :
    ("h", [], ocClassPrefix q) ∈ (objcTypesDecls api).map Decl.nkey ∧
    ("h", [], ocClassPrefix q ++ "Serializer") ∈ (objcTypesDecls api).map Decl.nkey := by
  obtain ⟨ns, hns, hn, ht, htn⟩ := find?_sound h
  have hq : (⟨ns.name, t.name⟩ : QName) = q := by cases q; simp_all
  obtain ⟨⟨d2, h2, k2⟩, _⟩ := serializerDecls_heads ⟨ns.name, t.name⟩
  rw [hq] at k2
  cases t with
  | struct s =>
    obtain ⟨d1, h1, k1⟩ := ocStructDecls_head api ns.name s
    simp only [UserT.name] at hq
    rw [hq] at k1
    exact ⟨List.mem_map.mpr ⟨d1, mem_objcTypesDecls_of_type hns ht h1, key_nkey k1⟩,
           List.mem_map.mpr ⟨d2, mem_objcTypesDecls_of_type hns ht (ocStructDecls_ser api ns.name s d2 h2), key_nkey k2⟩⟩
  | union u =>
    obtain ⟨d1, h1, k1⟩ := ocUnionDecls_head api ns.name u
    simp only [UserT.name] at hq
    rw [hq] at k1
    exact ⟨List.mem_map.mpr ⟨d1, mem_objcTypesDecls_of_type hns ht h1, key_nkey k1⟩,
           List.mem_map.mpr ⟨d2, mem_objcTypesDecls_of_type hns ht (ocUnionDecls_ser api ns.name u d2 h2), key_nkey k2⟩⟩

/-! ### Coverage of the IR items (`itemKeys`) -/

theorem keys_swiftTypes_of_type {api : Api} {ns : Namespace} {t : UserT} {k : String × String × List String × String}
    (hns : ns ∈ api.nss) (ht : t ∈ ns.types)
    (hk : k ∈ (match t with
      | .struct s => swStructDecls api ns.name s
      | .union u => swUnionDecls api ns.name u).map Decl.key) : k ∈ (swiftTypesDecls api).map Decl.key := by
  obtain ⟨d, hd, rfl⟩ := List.mem_map.mp hk
  exact List.mem_map_of_mem (mem_swiftTypesDecls_of_type hns ht hd)

theorem covers_swiftTypes (api : Api) : ∀ k ∈ itemKeys .swiftTypes api, k ∈ (swiftTypesDecls api).map Decl.key := by
  intro k hk
  simp only [itemKeys, List.mem_flatMap, List.mem_append, List.mem_cons, List.mem_map, List.not_mem_nil, or_false] at hk
  obtain ⟨ns, hns, hk⟩ := hk
  rcases hk with (rfl | ⟨t, ht, hk⟩) | ⟨r, hr, rfl⟩
  · simp only [swiftTypesDecls, List.map_flatMap, List.mem_flatMap]
    exact ⟨ns, hns, by simp [Decl.key]⟩
  · apply keys_swiftTypes_of_type hns ht
    cases t with
    | struct s =>
      simp only [List.mem_map] at hk
      rcases hk with (rfl | rfl) | ⟨f, hf, rfl⟩
      · simp [swStructDecls, Decl.key, UserT.isUnion, UserT.name]
      · simp [swStructDecls, Decl.key, UserT.name]
      · simp only [swStructDecls, List.map_append, List.mem_append, List.map_map, List.mem_map]
        exact Or.inr ⟨f, hf, by simp [Decl.key, UserT.name]⟩
    | union u =>
      simp only [List.mem_map] at hk
      rcases hk with (rfl | rfl) | ⟨f, hf, rfl⟩
      · simp [swUnionDecls, Decl.key, UserT.isUnion, UserT.name]
      · simp [swUnionDecls, Decl.key, UserT.name]
      · simp only [swUnionDecls, List.map_append, List.mem_append, List.map_map, List.mem_map]
        exact Or.inr ⟨f, hf, by simp [Decl.key, UserT.name]⟩
  · simp only [swiftTypesDecls, List.map_flatMap, List.mem_flatMap]
    refine ⟨ns, hns, ?_⟩
    simp only [List.map_cons, List.map_append, List.map_map, List.mem_cons, List.mem_append, List.mem_map]
    exact Or.inr ⟨r, hr, by simp [swRouteDecl, Decl.key]⟩

theorem covers_swiftTypesObjc (api : Api) :
    ∀ k ∈ itemKeys .swiftTypesObjc api, k ∈ (swiftTypesObjcDecls api).map Decl.key := by
  intro k hk
  simp only [itemKeys, List.mem_flatMap, List.mem_append, List.mem_cons, List.mem_map, List.not_mem_nil, or_false] at hk
  obtain ⟨ns, hns, t, ht, hk⟩ := hk
  have lift : ∀ k, k ∈ (match t with
      | .struct s => swObjcStructDecls api ns.name s
      | .union u => swObjcUnionDecls api ns.name u).map Decl.key → k ∈ (swiftTypesObjcDecls api).map Decl.key := by
    intro k hk
    obtain ⟨d, hd, rfl⟩ := List.mem_map.mp hk
    exact List.mem_map_of_mem (mem_swiftTypesObjcDecls_of_type hns ht hd)
  apply lift
  cases t with
  | struct s =>
    simp only [List.mem_map] at hk
    rcases hk with rfl | ⟨f, hf, rfl⟩
    · simp [swObjcStructDecls, Decl.key, UserT.name]
    · simp only [swObjcStructDecls, List.map_cons, List.mem_cons, List.map_map, List.mem_map]
      exact Or.inr ⟨f, hf, by simp [Decl.key, UserT.name]⟩
  | union u =>
    simp only [List.mem_map] at hk
    rcases hk with rfl | ⟨f, hf, rfl⟩
    · simp [swObjcUnionDecls, Decl.key, UserT.name]
    · simp only [swObjcUnionDecls, List.map_cons, List.map_append, List.mem_cons, List.mem_append, List.map_flatMap,
        List.mem_flatMap]
      exact Or.inr ⟨f, hf, Or.inl (by simp [Decl.key, UserT.name])⟩

theorem covers_objcTypes (api : Api) : ∀ k ∈ itemKeys .objcTypes api, k ∈ (objcTypesDecls api).map Decl.key := by
  intro k hk
  simp only [itemKeys, List.mem_flatMap, List.mem_append, List.mem_cons, List.mem_map, List.not_mem_nil, or_false] at hk
  obtain ⟨ns, hns, hk⟩ := hk
  rcases hk with ⟨t, ht, hk⟩ | ⟨r, hr, hk⟩
  · have lift : ∀ k, k ∈ (match t with
        | .struct s => ocStructDecls api ns.name s
        | .union u => ocUnionDecls api ns.name u).map Decl.key → k ∈ (objcTypesDecls api).map Decl.key := by
      intro k hk
      obtain ⟨d, hd, rfl⟩ := List.mem_map.mp hk
      exact List.mem_map_of_mem (mem_objcTypesDecls_of_type hns ht hd)
    apply lift
    cases t with
    | struct s =>
      simp only [List.mem_map] at hk
      rcases hk with (rfl | rfl | rfl | rfl) | ⟨f, hf, rfl⟩
      · simp [ocStructDecls, Decl.key, UserT.name]
      · simp [ocStructDecls, serializerDecls, Decl.key, UserT.name]
      · simp [ocStructDecls, serializerDecls, Decl.key, UserT.name]
      · simp [ocStructDecls, serializerDecls, Decl.key, UserT.name]
      · simp only [ocStructDecls, List.map_cons, List.map_append, List.mem_cons, List.mem_append, List.map_map, List.mem_map]
        exact Or.inl (Or.inl (Or.inl (Or.inl (Or.inr ⟨f, hf, by simp [Decl.key, UserT.name]⟩))))
    | union u =>
      simp only [List.mem_map] at hk
      rcases hk with (rfl | rfl | rfl | rfl) | ⟨f, hf, rfl⟩
      · simp [ocUnionDecls, Decl.key, UserT.name]
      · simp [ocUnionDecls, serializerDecls, Decl.key, UserT.name]
      · simp [ocUnionDecls, serializerDecls, Decl.key, UserT.name]
      · simp [ocUnionDecls, serializerDecls, Decl.key, UserT.name]
      · simp only [ocUnionDecls, List.map_cons, List.map_append, List.mem_cons, List.mem_append, List.map_map, List.mem_map]
        exact Or.inl (Or.inl (Or.inl (Or.inl (Or.inl (Or.inl (Or.inl (Or.inr (Or.inr ⟨f, hf, by simp [Decl.key, UserT.name]⟩))))))))
  · have hne : ns.routes.isEmpty = false := by
      cases h : ns.routes with
      | nil => simp [h] at hr
      | cons a b => rfl
    simp only [objcTypesDecls, List.map_flatMap, List.mem_flatMap]
    refine ⟨ns, hns, ?_⟩
    simp only [List.map_append, List.mem_append]
    right
    simp only [ocRouteObjDecls, hne, Bool.false_eq_true, ↓reduceIte, List.map_append, List.mem_append, List.map_flatMap,
      List.mem_flatMap]
    right
    refine ⟨r, hr, ?_⟩
    rcases hk with rfl | rfl <;> simp [Decl.key]

theorem covers (b : Backend) (api : Api) (o : Options) : ∀ k ∈ itemKeys b api, k ∈ (declsOf b api o).map Decl.key := by
  cases b <;> simp only [declsOf]
  · exact covers_swiftTypes api
  · exact covers_swiftTypesObjc api
  · intro k hk; simp [itemKeys] at hk
  · intro k hk; simp [itemKeys] at hk
  · exact covers_objcTypes api
  · intro k hk; simp [itemKeys] at hk

end StoneVerif.DeclSwift
