import StoneVerif.Lemmas.RtCompat
/-!
Helper lemmas for C07, part 2: what `compatEnv ρ A B` and `envWF` give for one related pair of classes.
-/
namespace StoneVerif.Rt.Compat
open StoneVerif.Rt

/-! ### the correspondence -/

theorem Rho.rel_iff {ρ : Rho} {a b : String} : ρ.rel a b = true ↔ (a, b) ∈ ρ := by
  simp only [Rho.rel, List.any_eq_true, Bool.and_eq_true, beq_iff_eq]
  constructor
  · rintro ⟨⟨x, y⟩, hm, h1, h2⟩
    simp only at h1 h2
    subst h1; subst h2; exact hm
  · intro h; exact ⟨(a, b), h, rfl, rfl⟩

theorem Rho.wf_iff {ρ : Rho} (h : ρ.wf = true) {p q : String × String} (hp : p ∈ ρ) (hq : q ∈ ρ) :
    p.1 = q.1 ↔ p.2 = q.2 := by
  simp only [Rho.wf, List.all_eq_true] at h
  have := h p hp q hq
  by_cases h1 : p.1 = q.1 <;> by_cases h2 : p.2 = q.2 <;> simp_all

theorem Rho.toA_of_rel {ρ : Rho} (hwf : ρ.wf = true) {a b : String} (h : ρ.rel a b = true) : ρ.toA b = some a := by
  have hm := Rho.rel_iff.mp h
  unfold Rho.toA
  cases hf : ρ.find? (fun p => p.2 == b) with
  | none =>
    have := List.find?_eq_none.mp hf (a, b) hm
    simp at this
  | some p =>
    have hp := List.mem_of_find?_eq_some hf
    have hp2 : p.2 = b := by simpa using List.find?_some hf
    have := (Rho.wf_iff hwf hp hm).mpr hp2
    simp [this]

theorem Rho.toB_of_rel {ρ : Rho} (hwf : ρ.wf = true) {a b : String} (h : ρ.rel a b = true) : ρ.toB a = some b := by
  have hm := Rho.rel_iff.mp h
  unfold Rho.toB
  cases hf : ρ.find? (fun p => p.1 == a) with
  | none =>
    have := List.find?_eq_none.mp hf (a, b) hm
    simp at this
  | some p =>
    have hp := List.mem_of_find?_eq_some hf
    have hp1 : p.1 = a := by simpa using List.find?_some hf
    have := (Rho.wf_iff hwf hp hm).mp hp1
    simp [this]

theorem Rho.rel_of_toA {ρ : Rho} {a b : String} (h : ρ.toA b = some a) : ρ.rel a b = true := by
  unfold Rho.toA at h
  cases hf : ρ.find? (fun p => p.2 == b) with
  | none => simp [hf] at h
  | some p =>
    simp only [hf, Option.map_some, Option.some.injEq] at h
    have hp := List.mem_of_find?_eq_some hf
    have hp2 : p.2 = b := by simpa using List.find?_some hf
    apply Rho.rel_iff.mpr
    rw [← h, ← hp2]; exact hp

theorem compatEnv_wf {ρ : Rho} {A B : Env} (h : compatEnv ρ A B = true) : ρ.wf = true := by
  simp only [compatEnv, Bool.and_eq_true] at h; exact h.1

theorem compat_pair {ρ : Rho} {A B : Env} (h : compatEnv ρ A B = true) {a b : String} (hr : ρ.rel a b = true) :
    pairOk ρ A B (a, b) = true := by
  simp only [compatEnv, Bool.and_eq_true, List.all_eq_true] at h
  exact h.2 (a, b) (Rho.rel_iff.mp hr)

theorem compat_struct {ρ : Rho} {A B : Env} (h : compatEnv ρ A B = true) {a b : String} (hr : ρ.rel a b = true)
    {sa : StructDef} (hs : A.struct? a = some sa) : structSub ρ A B a b = true := by
  have := compat_pair h hr
  simp only [pairOk, Bool.and_eq_true, Bool.or_eq_true, hs, Option.isNone_some, Bool.false_eq_true, false_or] at this
  exact this.1.2

theorem compat_union {ρ : Rho} {A B : Env} (h : compatEnv ρ A B = true) {a b : String} (hr : ρ.rel a b = true)
    {ua : UnionDef} (hu : A.union? a = some ua) : unionSub ρ A B a b = true := by
  have := compat_pair h hr
  simp only [pairOk, Bool.and_eq_true, Bool.or_eq_true, hu, Option.isNone_some, Bool.false_eq_true, false_or] at this
  exact this.2

/-! ### what `envWF` says about one class -/

theorem struct?_mem {env : Env} {c : String} {s : StructDef} (h : env.struct? c = some s) : s ∈ env.structs ∧ s.cls = c := by
  unfold Env.struct? at h
  exact ⟨List.mem_of_find?_eq_some h, by simpa using List.find?_some h⟩

theorem union?_mem {env : Env} {c : String} {u : UnionDef} (h : env.union? c = some u) : u ∈ env.unions ∧ u.cls = c := by
  unfold Env.union? at h
  exact ⟨List.mem_of_find?_eq_some h, by simpa using List.find?_some h⟩

theorem struct_wf {env : Env} (hwf : envWF env = true) {c : String} {s : StructDef} (h : env.struct? c = some s) :
    s.wf env = true := by
  simp only [envWF, Bool.and_eq_true, List.all_eq_true] at hwf
  exact hwf.1.2 s (struct?_mem h).1

theorem union_wf {env : Env} (hwf : envWF env = true) {c : String} {u : UnionDef} (h : env.union? c = some u) :
    u.wf env = true := by
  simp only [envWF, Bool.and_eq_true, List.all_eq_true] at hwf
  exact hwf.2 u (union?_mem h).1

theorem struct_nodup {env : Env} {s : StructDef} (h : s.wf env = true) : nodupS (s.allAttrs.map (·.name)) = true := by
  simp only [StructDef.wf, Bool.and_eq_true] at h
  exact h.1.1.1.1.2

theorem getLast?_mem {α} : ∀ {l : List α} {x : α}, l.getLast? = some x → x ∈ l
  | [], _, h => by simp at h
  | [a], x, h => by simp at h; simp [h]
  | a :: b :: rest, x, h => by
    have : (a :: b :: rest).getLast? = (b :: rest).getLast? := by simp [List.getLast?_cons_cons]
    rw [this] at h
    exact List.mem_cons_of_mem _ (getLast?_mem h)

theorem struct_self_ancestor {env : Env} {s : StructDef} (h : s.wf env = true) : s.ancestors.contains s.cls = true := by
  simp only [StructDef.wf, Bool.and_eq_true] at h
  have h0 := h.1.1.1.1.1
  cases hl : s.levels.getLast? with
  | none => simp [hl] at h0
  | some l =>
    simp only [hl, beq_iff_eq] at h0
    have := getLast?_mem hl
    simp only [StructDef.ancestors, List.contains_eq_mem, List.mem_map, decide_eq_true_eq]
    exact ⟨l, this, h0⟩

theorem union_self_ancestor {env : Env} {u : UnionDef} (h : u.wf env = true) : u.ancestors.contains u.cls = true := by
  simp only [UnionDef.wf, Bool.and_eq_true] at h
  have h0 := h.1.1.1.1
  cases hl : u.levels.getLast? with
  | none => simp [hl] at h0
  | some l =>
    simp only [hl, beq_iff_eq] at h0
    have := getLast?_mem hl
    simp only [UnionDef.ancestors, List.contains_eq_mem, List.mem_map, decide_eq_true_eq]
    exact ⟨l, this, h0⟩

/-! ### public fields -/

def isPublic (f : FieldDef) : Bool := f.omitted.isNone

theorem publicFields_eq {env : Env} {c : String} {s : StructDef} (h : env.struct? c = some s) :
    publicFields env c = s.allAttrs.filter isPublic := by
  simp only [publicFields, h, StructDef.fieldsSpec, StructDef.allAttrs]
  congr 1
  funext f
  cases ho : f.omitted <;> simp [isPublic, ho]

theorem publicFields_none {env : Env} {c : String} (h : env.struct? c = none) : publicFields env c = [] := by
  simp [publicFields, h]

theorem nodupS_filter {α} (name : α → String) (p : α → Bool) : ∀ (l : List α), nodupS (l.map name) = true →
    nodupS ((l.filter p).map name) = true
  | [], _ => rfl
  | a :: l, h => by
    obtain ⟨ha, hl⟩ := nodupS_cons h
    have ih := nodupS_filter name p l hl
    simp only [List.filter]
    split
    · simp only [List.map, nodupS, Bool.and_eq_true, Bool.not_eq_true', List.contains_eq_mem, decide_eq_false_iff_not]
      refine ⟨?_, ih⟩
      intro hm
      obtain ⟨x, hx, hxn⟩ := List.mem_map.mp hm
      exact ha (List.mem_map.mpr ⟨x, (List.mem_filter.mp hx).1, hxn⟩)
    · exact ih

theorem publicFields_nodup {env : Env} (hwf : envWF env = true) (c : String) :
    nodupS ((publicFields env c).map (·.name)) = true := by
  cases h : env.struct? c with
  | none => simp [publicFields_none h, nodupS]
  | some s =>
    rw [publicFields_eq h]
    exact nodupS_filter _ _ _ (struct_nodup (struct_wf hwf h))

/-- the relation between the visible fields of a class of A and of the related class of B -/
structure FieldsRel (ρ : Rho) (B : Env) (fa fb : List FieldDef) : Prop where
  nodupA : nodupS (fa.map (·.name)) = true
  nodupB : nodupS (fb.map (·.name)) = true
  common : ∀ f ∈ fa, ∃ g ∈ fb, fieldSub ρ f g = true
  extra : ∀ g ∈ fb, (∃ f ∈ fa, f.name = g.name) ∨ newFieldOk B g = true

theorem fieldSub_name {ρ : Rho} {f g : FieldDef} (h : fieldSub ρ f g = true) : f.name = g.name := by
  simp only [fieldSub, Bool.and_eq_true, beq_iff_eq] at h
  exact h.1.1.1.1.1

theorem fieldSub_parts {ρ : Rho} {f g : FieldDef} (h : fieldSub ρ f g = true) :
    tySub ρ f.ty g.ty = true ∧ f.omitted = g.omitted ∧ f.attrNullable = g.attrNullable ∧
    f.attrUserDefined = g.attrUserDefined ∧ f.dflt.isSome = g.dflt.isSome := by
  simp only [fieldSub, Bool.and_eq_true, beq_iff_eq] at h
  exact ⟨h.1.1.1.1.2, h.1.1.1.2, h.1.1.2, h.1.2, h.2⟩

theorem structSub_inv {ρ : Rho} {A B : Env} {a b : String} (h : structSub ρ A B a b = true) {sa : StructDef}
    (hs : A.struct? a = some sa) :
    ∃ sb, B.struct? b = some sb ∧
      (∀ f ∈ sa.allAttrs, ∃ g, sb.allAttrs.find? (·.name == f.name) = some g ∧ fieldSub ρ f g = true) ∧
      (∀ g ∈ sb.allAttrs, (sa.allAttrs.find? (·.name == g.name)).isSome = true ∨ newFieldOk B g = true) := by
  unfold structSub at h
  rw [hs] at h
  cases hb : B.struct? b with
  | none => simp [hb] at h
  | some sb =>
    simp only [hb, Bool.and_eq_true, List.all_eq_true, Bool.or_eq_true] at h
    refine ⟨sb, rfl, ?_, h.1.2⟩
    intro f hf
    have := h.1.1 f hf
    cases hg : sb.allAttrs.find? (·.name == f.name) with
    | none => simp [hg] at this
    | some g => exact ⟨g, rfl, by simpa [hg] using this⟩

theorem fieldsRel_public {ρ : Rho} {A B : Env} (hc : compatEnv ρ A B = true) (hA : envWF A = true) (hB : envWF B = true)
    {a b : String} (hr : ρ.rel a b = true) {sa : StructDef} (hs : A.struct? a = some sa) :
    FieldsRel ρ B (publicFields A a) (publicFields B b) := by
  obtain ⟨sb, hsb, hcom, hext⟩ := structSub_inv (compat_struct hc hr hs) hs
  refine ⟨publicFields_nodup hA a, publicFields_nodup hB b, ?_, ?_⟩
  · intro f hf
    rw [publicFields_eq hs] at hf
    obtain ⟨hfa, hfp⟩ := List.mem_filter.mp hf
    obtain ⟨g, hg, hsub⟩ := hcom f hfa
    refine ⟨g, ?_, hsub⟩
    rw [publicFields_eq hsb]
    refine List.mem_filter.mpr ⟨List.mem_of_find?_eq_some hg, ?_⟩
    have := (fieldSub_parts hsub).2.1
    simpa [isPublic, ← this] using hfp
  · intro g hg
    rw [publicFields_eq hsb] at hg
    obtain ⟨hga, hgp⟩ := List.mem_filter.mp hg
    rcases hext g hga with h1 | h2
    · left
      obtain ⟨f, hf⟩ := Option.isSome_iff_exists.mp h1
      obtain ⟨hfm, hfn⟩ := find_name_some hf
      refine ⟨f, ?_, hfn⟩
      rw [publicFields_eq hs]
      refine List.mem_filter.mpr ⟨hfm, ?_⟩
      -- f's partner in B is g itself (names are unique in B)
      obtain ⟨g', hg', hsub⟩ := hcom f hfm
      have hg'm := find_name_some hg'
      have hnd := struct_nodup (struct_wf hB hsb)
      have : g' = g := by
        have h1 := find_name_of_mem hnd hga
        rw [← hfn] at h1
        rw [h1] at hg'
        exact (Option.some.inj hg').symm
      subst this
      have := (fieldSub_parts hsub).2.1
      simpa [isPublic, this] using hgp
    · right; exact h2

end StoneVerif.Rt.Compat
