import StoneVerif.Lemmas.DeclPySecRoutes
namespace StoneVerif.DeclPy

/-! ### reflection section: helpers -/

theorem mem_dedup : ∀ {l : List Name} {x : Name}, x ∈ dedup l ↔ x ∈ l
  | [], x => by simp [dedup]
  | y :: ys, x => by
    simp only [dedup]
    split
    · rename_i h
      rw [mem_dedup]
      simp only [List.contains_eq_mem, decide_eq_true_eq] at h
      constructor
      · exact fun hx => List.mem_cons_of_mem _ hx
      · intro hx
        rcases List.mem_cons.mp hx with rfl | hx
        · exact h
        · exact hx
    · simp only [List.mem_cons, mem_dedup]

theorem mem_insertCaller {x y : Option Name} : ∀ {l : List (Option Name)}, y ∈ insertCaller x l ↔ y = x ∨ y ∈ l
  | [] => by simp [insertCaller]
  | z :: zs => by
    simp only [insertCaller]
    split
    · simp
    · simp only [List.mem_cons, mem_insertCaller (l := zs)]
      constructor
      · rintro (h | h | h)
        · exact Or.inr (Or.inl h)
        · exact Or.inl h
        · exact Or.inr (Or.inr h)
      · rintro (h | h | h)
        · exact Or.inr (Or.inl h)
        · exact Or.inl h
        · exact Or.inr (Or.inr h)

theorem mem_sortCallers {y : Option Name} : ∀ {l : List (Option Name)}, y ∈ sortCallers l ↔ y ∈ l
  | [] => by simp [sortCallers]
  | z :: zs => by
    have ih := mem_sortCallers (y := y) (l := zs)
    simp only [sortCallers, List.foldr_cons] at ih ⊢
    rw [mem_insertCaller, ih]
    simp

theorem ancestorCallers_succ {api : Api} : ∀ (k : Nat) (po : Option DataType) (x : Name),
    x ∈ ancestorCallers api k po → x ∈ ancestorCallers api (k + 1) po := by
  intro k
  induction k with
  | zero => intro po x h; simp [ancestorCallers] at h
  | succ k ih =>
    intro po x h
    cases po with
    | none => simp [ancestorCallers] at h
    | some p =>
      simp only [ancestorCallers, List.mem_append] at h ⊢
      rcases h with h | h
      · exact Or.inl h
      · exact Or.inr (ih _ _ h)

/-- a caller inherited from the ancestors of `d` is a caller of the parent's reflection block -/
theorem parent_isReflCaller {api : Api} {d P : DataType} (hpo : api.parentOf d = some P) {x : Name}
    (hx : x ∈ ancestorCallers api api.nTypes (api.parentOf d)) : IsReflCaller api P (some x) := by
  rw [hpo] at hx
  cases hn : api.nTypes with
  | zero => rw [hn] at hx; simp [ancestorCallers] at hx
  | succ k =>
    rw [hn] at hx
    simp only [ancestorCallers, List.mem_append] at hx
    refine Or.inr ⟨x, rfl, ?_⟩
    rcases hx with hx | hx
    · exact Or.inl hx
    · exact Or.inr (by rw [hn]; exact ancestorCallers_succ _ _ _ hx)

theorem qual_with_attr (cur rns nm : Name) (a : Name) :
    { qual cur rns nm with attr := some a } = qual cur rns nm (some a) := by
  unfold qual; split <;> rfl

theorem ready_cls {st : St} {cur n : Name} {c : ClsId} (h : st.global? cur n = some (.cls c)) :
    Ready st cur (here n) := ready_here_global h

theorem ready_cls_attr {st : St} {cur n a : Name} {c : ClsId} (h : st.global? cur n = some (.cls c))
    (ha : HasA st c a) : Ready st cur (here n (some a)) :=
  ⟨_, h, fun a' ha' => by simp only [here] at ha'; injection ha' with ha'; subst ha'; exact ⟨c, rfl, ha⟩⟩

theorem map_eq_flatMap_single {α β : Type} (f : α → β) : ∀ (l : List α), l.map f = l.flatMap (fun x => [f x])
  | [] => rfl
  | x :: xs => by simp [List.flatMap_cons, map_eq_flatMap_single f xs]

/-- a sequence of attribute assignments on one class object; the names an assignment evaluates may be attributes set
by the earlier ones -/
theorem seq_assigns {st : St} {cur t : Name} {c : ClsId} (hwf : StWF st) (hg : st.global? cur t = some (.cls c))
    (hkey : c ∈ clsKeys st) (l : List (Name × List Ref))
    (hready : ∀ pre x post, l = pre ++ x :: post → ∀ st', Le st st' → (∀ y ∈ pre, HasA st' c y.1) →
      ∀ r ∈ x.2, Ready st' cur r) :
    ∃ st', Steps st cur (l.map fun x => Stmt.assign t (some x.1) none x.2) st' ∧ ∀ y ∈ l, HasA st' c y.1 := by
  have hmap : l.map (fun x => Stmt.assign t (some x.1) none x.2)
      = l.flatMap (fun x => [Stmt.assign t (some x.1) none x.2]) := map_eq_flatMap_single _ l
  have hng : (l.flatMap (fun x => [Stmt.assign t (some x.1) none x.2])).flatMap Stmt.globals = [] := by
    apply flatMap_globals_of_noGlobal
    simp [List.all_flatMap, noGlobal]
  rw [hmap]
  refine steps_flatMap' (α := Name × List Ref) (fun x => [Stmt.assign t (some x.1) none x.2]) cur
    (fun st' => Le st st') (fun y st' => HasA st' c y.1) (fun hle h => h.trans hle) (fun hle h => hle.hasA h) l ?_
    (by rw [hng]; exact List.nodup_nil) st hwf (Le.refl st) (by rw [hng]; intro n hn; simp at hn)
  intro pre x post hsplit st' hwf' hle hpre _
  obtain ⟨st2, hs2, _, hc2, ha2⟩ := steps_assign_attr (cur := cur) (t := t) (a := x.1) (cp := none) (uses := x.2)
    hwf' (hready pre x post hsplit st' hle hpre) (by simp [hle.glob _ _ _ hg])
  refine ⟨st2, hs2, lookupAttr_direct _ _ _ ?_ (ha2 c (hle.glob _ _ _ hg))⟩
  rw [hc2]
  obtain ⟨new, hnew, _⟩ := hle.cls
  rw [hnew]
  simp only [List.map_append, List.mem_append]
  exact Or.inr hkey

end StoneVerif.DeclPy
