import StoneVerif.Lemmas.GraphComplete
/-! The aliases the filter keeps (`_alias_target_retained`). -/
namespace StoneVerif.Graph

variable {g : Graph} {ret : List Id}

/-- the shape of a successful check of a non-empty reference list -/
theorem targetRetained_cons {f : Nat} {r : Id} {rest : List Id} {b : Bool}
    (h : targetRetained g ret (f + 1) (r :: rest) = .ok b) :
    ∃ nd b', g.node? r = some nd ∧ targetRetained g ret f rest = .ok b' ∧
      ((nd.isAlias = true ∧ ∃ b1, targetRetained g ret f nd.target.refs = .ok b1 ∧ b = (b1 && b')) ∨
       (nd.isAlias = false ∧ nd.isType = true ∧ b = (ret.contains r && b'))) := by
  simp only [targetRetained] at h
  split at h
  · simp at h
  · rename_i nd hnd
    split at h
    · rename_i hal
      split at h
      · simp at h
      · rename_i b1 hb1
        split at h
        · simp at h
        · rename_i b' hb'
          cases h
          exact ⟨nd, b', hnd, hb', Or.inl ⟨hal, b1, hb1, rfl⟩⟩
    · rename_i hal
      split at h
      · rename_i hty
        split at h
        · simp at h
        · rename_i b' hb'
          cases h
          exact ⟨nd, b', hnd, hb', Or.inr ⟨by simpa using hal, hty, rfl⟩⟩
      · simp at h

/-- the verdict does not depend on the fuel, as long as the fuel suffices -/
theorem targetRetained_det {f1 f2 : Nat} {refs : List Id} {b1 b2 : Bool}
    (h1 : targetRetained g ret f1 refs = .ok b1) (h2 : targetRetained g ret f2 refs = .ok b2) : b1 = b2 := by
  induction f1 generalizing f2 refs b1 b2 with
  | zero =>
    cases refs with
    | nil =>
      cases f2 <;> simp only [targetRetained] at h1 h2 <;> cases h1 <;> cases h2 <;> rfl
    | cons r rest => simp [targetRetained] at h1
  | succ f1 ih =>
    cases refs with
    | nil =>
      cases f2 <;> simp only [targetRetained] at h1 h2 <;> cases h1 <;> cases h2 <;> rfl
    | cons r rest =>
      cases f2 with
      | zero => simp [targetRetained] at h2
      | succ f2 =>
        obtain ⟨nd1, c1, hn1, hr1, hk1⟩ := targetRetained_cons h1
        obtain ⟨nd2, c2, hn2, hr2, hk2⟩ := targetRetained_cons h2
        rw [hn1] at hn2; cases hn2
        have hc := ih hr1 hr2
        rcases hk1 with ⟨ha1, a1, hA1, rfl⟩ | ⟨ha1, _, rfl⟩
        · rcases hk2 with ⟨_, a2, hA2, rfl⟩ | ⟨ha2, _⟩
          · rw [ih hA1 hA2, hc]
          · rw [ha1] at ha2; cases ha2
        · rcases hk2 with ⟨ha2, _⟩ | ⟨_, _, rfl⟩
          · rw [ha1] at ha2; cases ha2
          · rw [hc]

/-- a positive verdict: every reference is a retained data type, or an alias with a positive verdict -/
theorem targetRetained_true {f : Nat} {refs : List Id} (h : targetRetained g ret f refs = .ok true) :
    ∀ r ∈ refs, ∃ nd, g.node? r = some nd ∧
      ((nd.isType = true ∧ nd.isAlias = false ∧ r ∈ ret) ∨
       (nd.isAlias = true ∧ ∃ f', targetRetained g ret f' nd.target.refs = .ok true)) := by
  induction f generalizing refs with
  | zero =>
    cases refs with
    | nil => intro r hr; cases hr
    | cons r rest => simp [targetRetained] at h
  | succ f ih =>
    cases refs with
    | nil => intro r hr; cases hr
    | cons r rest =>
      obtain ⟨nd, b', hn, hr', hk⟩ := targetRetained_cons h
      intro x hx
      rcases hk with ⟨hal, b1, hb1, hb⟩ | ⟨hal, hty, hb⟩
      · have hb1t : b1 = true ∧ b' = true := by
          revert hb; cases b1 <;> cases b' <;> simp
        rcases List.mem_cons.1 hx with rfl | hx
        · exact ⟨nd, hn, Or.inr ⟨hal, f, by rw [← hb1t.1]; exact hb1⟩⟩
        · exact ih (by rw [← hb1t.2]; exact hr') x hx
      · have hbt : ret.contains r = true ∧ b' = true := by
          revert hb; cases ret.contains r <;> cases b' <;> simp
        rcases List.mem_cons.1 hx with rfl | hx
        · exact ⟨nd, hn, Or.inl ⟨hty, hal, by simpa using hbt.1⟩⟩
        · exact ih (by rw [← hbt.2]; exact hr') x hx

/-- the verdict is positive on references inside a set whose data types are retained and whose aliases
keep their targets inside -/
theorem targetRetained_of_closed (P : Id → Prop)
    (hty : ∀ r nd, P r → g.node? r = some nd → nd.isType = true → r ∈ ret)
    (hal : ∀ r nd, P r → g.node? r = some nd → nd.isAlias = true → ∀ b ∈ nd.target.refs, P b)
    {f : Nat} {refs : List Id} {b : Bool} (h : targetRetained g ret f refs = .ok b) (hP : ∀ r ∈ refs, P r) :
    b = true := by
  induction f generalizing refs b with
  | zero =>
    cases refs with
    | nil => simp only [targetRetained] at h; cases h; rfl
    | cons r rest => simp [targetRetained] at h
  | succ f ih =>
    cases refs with
    | nil => simp only [targetRetained] at h; cases h; rfl
    | cons r rest =>
      obtain ⟨nd, b', hn, hr', hk⟩ := targetRetained_cons h
      have hb' := ih hr' (fun x hx => hP x (List.mem_cons_of_mem _ hx))
      have hPr := hP r (List.mem_cons_self ..)
      rcases hk with ⟨ha, b1, hb1, rfl⟩ | ⟨_, ht, rfl⟩
      · rw [ih hb1 (hal r nd hPr hn ha), hb']; rfl
      · have : ret.contains r = true := by simpa using hty r nd hPr hn ht
        rw [this, hb']; rfl

/-- what `filterAliases` keeps -/
theorem filterAliases_mem {fuel : Nat} {l out : List Id} (h : filterAliases g ret fuel l = .ok out) :
    (∀ a ∈ l, ∃ nd b, g.node? a = some nd ∧ targetRetained g ret fuel nd.target.refs = .ok b) ∧
    ∀ a, a ∈ out ↔ (a ∈ l ∧ ∃ nd, g.node? a = some nd ∧ targetRetained g ret fuel nd.target.refs = .ok true) := by
  induction l generalizing out with
  | nil =>
    simp only [filterAliases] at h
    cases h
    exact ⟨(fun a ha => by cases ha), (fun a => by simp)⟩
  | cons x rest ih =>
    simp only [filterAliases] at h
    split at h
    · simp at h
    · rename_i nd hnd
      split at h
      · rename_i b l' hb hl'
        cases h
        obtain ⟨i1, i2⟩ := ih hl'
        refine ⟨?_, ?_⟩
        · intro a ha
          rcases List.mem_cons.1 ha with rfl | ha
          · exact ⟨nd, b, hnd, hb⟩
          · exact i1 a ha
        · intro a
          cases b
          · simp only [Bool.false_eq_true, ↓reduceIte, i2 a, List.mem_cons]
            constructor
            · rintro ⟨h1, h2⟩; exact ⟨Or.inr h1, h2⟩
            · rintro ⟨rfl | h1, nd', hnd', ht⟩
              · rw [hnd] at hnd'; cases hnd'
                rw [hb] at ht; cases ht
              · exact ⟨h1, nd', hnd', ht⟩
          · simp only [↓reduceIte, List.mem_cons, i2 a]
            constructor
            · rintro (rfl | ⟨h1, h2⟩)
              · exact ⟨Or.inl rfl, nd, hnd, hb⟩
              · exact ⟨Or.inr h1, h2⟩
            · rintro ⟨rfl | h1, h2⟩
              · exact Or.inl rfl
              · exact Or.inr ⟨h1, h2⟩
      · simp at h
      · simp at h

theorem mem_allAliases {a : Id} : a ∈ g.allAliases ↔ ∃ nd, g.node? a = some nd ∧ nd.isAlias = true := by
  simp only [Graph.allAliases, List.mem_filter]
  constructor
  · rintro ⟨_, h⟩
    exact isAliasId_iff.1 h
  · rintro ⟨nd, hnd, hal⟩
    exact ⟨mem_ids_of_node hnd, isAliasId_iff.2 ⟨nd, hnd, hal⟩⟩

end StoneVerif.Graph
