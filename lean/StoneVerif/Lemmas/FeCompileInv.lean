import StoneVerif.Lemmas.FeCompileDenote
set_option linter.unusedSimpArgs false
/-!
Pass 3 of the compileCore model: everything it puts into its tables is the specification-level image of the
declaration registered under that key (`Inv`), whatever the order of population.
-/
namespace StoneVerif.FeCompile.L
open StoneVerif.FeCompile
open StoneVerif.FeParams (TyKind)

structure Inv (rx : String → Bool) (E : Env) (fs : List File) (st : St) : Prop where
  done : ∀ k c, (k, c) ∈ st.done → ∃ d, E.items.lookup k = some (.type d) ∧ denoteType rx fs k.1 d = some c
  aliases : ∀ k t, (k, t) ∈ st.aliases → ∃ r, E.items.lookup k = some (.alias r) ∧ denoteRef rx fs k.1 r = some t

theorem Inv.nrefs {rx E fs st} (h : Inv rx E fs st) (l : List Ty) : Inv rx E fs { st with nrefs := l } :=
  ⟨h.done, h.aliases⟩

theorem Inv.init {rx E fs} : Inv rx E fs {} := ⟨by simp, by simp⟩

theorem mapFields_optMapM {g : AField → Except Err CField} {h : AField → Option CField}
    (hg : ∀ f c, g f = .ok c → h f = some c) : ∀ {l cs}, mapFields g l = .ok cs → optMapM h l = some cs
  | [], cs, hm => by simp only [mapFields] at hm; cases hm; rfl
  | f :: l, cs, hm => by
    simp only [mapFields] at hm
    split at hm
    · cases hm
    · rename_i c hc
      split at hm
      · cases hm
      · rename_i cs' hcs
        cases hm
        simp [optMapM, hg f c hc, mapFields_optMapM hg hcs]

theorem structField_denote {rx E fs A ns f c} (hE : EnvOK E fs) (h : structField rx E A ns f = .ok c) :
    denoteField rx fs ns true f = some c := by
  unfold structField at h
  unfold denoteField
  split at h
  · cases h
  · rename_i r hr
    split at h
    · cases h
    · rename_i t ht
      split at h
      · cases h
      · split at h
        · cases h
        · cases h
          simp [resolve_denote hE ht]

theorem unionField_denote {rx E fs A ns f c} (hE : EnvOK E fs) (h : unionField rx E A ns f = .ok c) :
    denoteField rx fs ns false f = some c := by
  unfold unionField at h
  unfold denoteField
  split at h
  · cases h
  · split at h
    · rename_i hr
      cases h
      simp
    · rename_i r hr
      split at h
      · cases h
      · rename_i t ht
        split at h
        · cases h
        · cases h
          simp [resolve_denote hE ht]

theorem setAttributes_ok {fu st key c st'} (h : setAttributes fu st key c = .ok st') :
    st' = { st with done := (key, c) :: st.done } := by
  unfold setAttributes at h
  split at h
  · cases h
  · split at h
    · cases h
    · split at h
      · cases h
      · cases h; rfl

theorem structParent_ok {E t k} (h : structParent E t = .ok k) : t = .user k ∧ kindOf E k = some .struct := by
  unfold structParent at h
  split at h <;> try cases h
  split at h
  · rename_i hk; cases h; exact ⟨rfl, by simpa using hk⟩
  · cases h

theorem unionParent_ok {E t k c} (h : unionParent E t = .ok (k, c)) : t = .user k ∧ kindOf E k = some (.union c) := by
  unfold unionParent at h
  split at h <;> try cases h
  split at h
  · rename_i hk; cases h; exact ⟨rfl, hk⟩
  · cases h

theorem kindOf_some {E : Env} {k kd} (h : kindOf E k = some kd) : ∃ d, E.items.lookup k = some (.type d) ∧ d.kind = kd := by
  unfold kindOf at h
  split at h
  · rename_i d hd; cases h; exact ⟨d, hd, rfl⟩
  · cases h

theorem isOpen_of_kindOf {E fs} (hE : EnvOK E fs) {k c} (h : kindOf E k = some (.union c)) :
    isOpenUnion fs k = !c := by
  obtain ⟨d, hd, hk⟩ := kindOf_some h
  obtain ⟨d', hf, hd'⟩ := hE.findDef_of_lookup (ns := k.1) (n := k.2) hd (Or.inl ⟨d, rfl⟩)
  cases d' <;> simp [itemOf] at hd'
  subst hd'
  unfold isOpenUnion
  rw [hf]
  simp only [hk]
  cases c <;> decide

/-- the parent slot handed to `populateStep`: nothing, or what the `extends` reference denotes -/
def ParentDen (rx : String → Bool) (fs : List File) (ns : String) (d : TypeDecl) : Option Ty → Prop
  | none => d.extends = none
  | some t' => ∃ r, d.extends = some r ∧ denoteRef rx fs ns r = some t'

theorem structParentOpt_denote {rx E fs ns d pty parent}
    (hp : ParentDen rx fs ns d pty)
    (h : structParentOpt E pty = .ok parent) : denoteParent rx fs ns d = some parent := by
  unfold denoteParent
  cases pty with
  | none =>
    simp only [structParentOpt] at h
    cases h
    simp only [ParentDen] at hp
    rw [hp]
  | some t' =>
    simp only [structParentOpt] at h
    simp only [ParentDen] at hp
    obtain ⟨r, hr, hd⟩ := hp
    split at h
    · rename_i k hk
      cases h
      obtain ⟨rfl, _⟩ := structParent_ok hk
      simp [hr, hd]
    · cases h

theorem unionParentOpt_denote {rx E fs ns d pty parent} (hE : EnvOK E fs)
    (hp : ParentDen rx fs ns d pty)
    (h : unionParentOpt E pty = .ok parent) :
    denoteParent rx fs ns d = some (parent.map (·.1)) ∧
      inheritsOther fs (parent.map (·.1)) = parentIsOpen parent := by
  unfold denoteParent
  cases pty with
  | none =>
    simp only [unionParentOpt] at h
    cases h
    simp only [ParentDen] at hp
    rw [hp]
    simp [parentIsOpen, inheritsOther]
  | some t' =>
    simp only [unionParentOpt] at h
    simp only [ParentDen] at hp
    obtain ⟨r, hr, hd⟩ := hp
    split at h
    · rename_i p hk
      cases h
      obtain ⟨pk, pc⟩ := p
      obtain ⟨rfl, hko⟩ := unionParent_ok hk
      simp [hr, hd, parentIsOpen, inheritsOther, isOpen_of_kindOf hE hko]
    · cases h

/-- one population step keeps the invariant: the new entry is the image of the declaration -/
theorem populateStep_inv {rx E fs st1 key d pty st'} (hE : EnvOK E fs) (hI : Inv rx E fs st1)
    (hk : E.items.lookup key = some (.type d))
    (hp : ParentDen rx fs key.1 d pty)
    (h : populateStep rx E st1 key d pty = .ok st') : Inv rx E fs st' := by
  unfold populateStep at h
  split at h
  · -- struct
    rename_i hkind
    split at h
    · cases h
    · rename_i parent hpar
      split at h
      · cases h
      · rename_i fields hfields
        have hst := setAttributes_ok h
        subst hst
        refine ⟨?_, hI.aliases⟩
        intro k c hm
        simp only [List.mem_cons] at hm
        rcases hm with hm | hm
        · cases hm
          refine ⟨d, hk, ?_⟩
          have hf := mapFields_optMapM (h := denoteField rx fs key.1 true) (fun f c => structField_denote hE) hfields
          have hdp := structParentOpt_denote hp hpar
          unfold denoteType
          simp [hdp, hkind, hf]
        · exact hI.done k c hm
  · -- union
    rename_i closed hkind
    split at h
    · cases h
    · rename_i parent hpar
      split at h
      · cases h
      · rename_i fields hfields
        split at h
        · cases h
        · have hst := setAttributes_ok h
          subst hst
          refine ⟨?_, hI.aliases⟩
          intro k c hm
          simp only [List.mem_cons] at hm
          rcases hm with hm | hm
          · cases hm
            refine ⟨d, hk, ?_⟩
            have hf := mapFields_optMapM (h := denoteField rx fs key.1 false) (fun f c => unionField_denote hE) hfields
            obtain ⟨hdp, hopen⟩ := unionParentOpt_denote hE hp hpar
            have hkb : (TypeKind.union closed == TypeKind.struct) = false := by cases closed <;> rfl
            unfold denoteType
            simp only [hdp, hkind, hkb, hf]
            simp [hopen, unionCType]
          · exact hI.done k c hm

theorem populate_inv {rx E fs} (hE : EnvOK E fs) : ∀ (fuel : Nat) {prog st key d st'}, Inv rx E fs st →
    E.items.lookup key = some (.type d) → populate rx E fuel prog st key d = .ok st' → Inv rx E fs st'
  | 0, _, _, _, _, _, _, _, h => by simp [populate] at h
  | fuel + 1, prog, st, key, d, st', hI, hk, h => by
    simp only [populate] at h
    split at h
    · rename_i hext
      exact populateStep_inv hE hI hk (show ParentDen rx fs key.1 d none from hext) h
    · rename_i r hext
      split at h
      · cases h
      · rename_i t ht
        split at h
        · cases h
        · rename_i st1 hst1
          split at h
          · cases h
          · rename_i t' ht'
            have hI1 : Inv rx E fs st1 := by
              split at hst1
              · rename_i k
                split at hst1
                · cases hst1; exact hI
                · split at hst1
                  · cases hst1
                  · split at hst1
                    · rename_i d' hd'
                      exact populate_inv hE fuel hI hd' hst1
                    · cases hst1
              · cases hst1; exact hI
            refine populateStep_inv hE (hI1.nrefs _) hk ?_ h
            obtain ⟨t0, hd, ht0⟩ := resolveW_denote hE r ht
            simp only [Bool.false_eq_true, ↓reduceIte] at ht0
            subst ht0
            show ∃ r, _
            refine ⟨r, hext, ?_⟩
            rw [hd, wrapNull_ok ht']
            simp [nullableMeaning]

theorem setAlias_inv {rx E fs st ns name r st'} (hE : EnvOK E fs) (hI : Inv rx E fs st)
    (hk : E.items.lookup (ns, name) = some (.alias r)) (h : setAlias rx E st ns name r = .ok st') : Inv rx E fs st' := by
  unfold setAlias at h
  split at h
  · cases h
  · rename_i t ht
    split at h <;> try cases h
    refine ⟨hI.done, ?_⟩
    intro k t' hm
    simp only [List.mem_cons] at hm
    rcases hm with hm | hm
    · cases hm
      exact ⟨r, hk, resolve_denote hE ht⟩
    · exact hI.aliases k t' hm

theorem mem_typeDecls {d : TypeDecl} : ∀ {ds : List Decl}, d ∈ typeDecls ds ↔ Decl.type d ∈ ds
  | [] => by simp [typeDecls]
  | x :: ds => by
    cases x <;> simp [typeDecls, mem_typeDecls (ds := ds)]

theorem mem_aliasDecls {n : String} {r : TRef} : ∀ {ds : List Decl}, (n, r) ∈ aliasDecls ds ↔ Decl.alias n r ∈ ds
  | [] => by simp [aliasDecls]
  | x :: ds => by
    cases x <;> simp [aliasDecls, mem_aliasDecls (ds := ds)]

theorem mem_routeDecls {r : RouteDecl} : ∀ {ds : List Decl}, r ∈ routeDecls ds ↔ Decl.route r ∈ ds
  | [] => by simp [routeDecls]
  | x :: ds => by
    cases x <;> simp [routeDecls, mem_routeDecls (ds := ds)]

theorem EnvOK.lookup_type {E fs} (hE : EnvOK E fs) {ns d} (h : d ∈ typeDecls (declsOf fs ns)) :
    E.items.lookup (ns, d.name) = some (.type d) := by
  have := hE.lookup_decl (mem_typeDecls.mp h) (n := d.name) rfl
  simpa [itemOf] using this

theorem EnvOK.lookup_alias {E fs} (hE : EnvOK E fs) {ns n r} (h : (n, r) ∈ aliasDecls (declsOf fs ns)) :
    E.items.lookup (ns, n) = some (.alias r) := by
  have := hE.lookup_decl (mem_aliasDecls.mp h) (n := n) rfl
  simpa [itemOf] using this

theorem setAliases_inv {rx E fs ns} (hE : EnvOK E fs) : ∀ {as : List (String × TRef)} {st st'}, Inv rx E fs st →
    (∀ n r, (n, r) ∈ as → E.items.lookup (ns, n) = some (.alias r)) → setAliases rx E st ns as = .ok st' → Inv rx E fs st'
  | [], st, st', hI, _, h => by simp only [setAliases] at h; cases h; exact hI
  | (n, r) :: as, st, st', hI, hl, h => by
    simp only [setAliases] at h
    split at h
    · cases h
    · rename_i st1 h1
      exact setAliases_inv hE (setAlias_inv hE hI (hl n r List.mem_cons_self) h1)
        (fun n' r' hm => hl n' r' (List.mem_cons_of_mem _ hm)) h

theorem populateAll_inv {rx E fs ns} (hE : EnvOK E fs) : ∀ {ds : List TypeDecl} {st st'}, Inv rx E fs st →
    (∀ d, d ∈ ds → E.items.lookup (ns, d.name) = some (.type d)) → populateAll rx E st ns ds = .ok st' → Inv rx E fs st'
  | [], st, st', hI, _, h => by simp only [populateAll] at h; cases h; exact hI
  | d :: ds, st, st', hI, hl, h => by
    simp only [populateAll] at h
    split at h
    · exact populateAll_inv hE hI (fun d' hm => hl d' (List.mem_cons_of_mem _ hm)) h
    · split at h
      · cases h
      · rename_i st1 h1
        exact populateAll_inv hE (populate_inv hE _ hI (hl d List.mem_cons_self) h1)
          (fun d' hm => hl d' (List.mem_cons_of_mem _ hm)) h

theorem pass3Nss_inv {rx E fs} (hE : EnvOK E fs) : ∀ {nss : List String} {st st'}, Inv rx E fs st →
    pass3Nss rx E st nss = .ok st' → Inv rx E fs st'
  | [], st, st', hI, h => by simp only [pass3Nss] at h; cases h; exact hI
  | ns :: nss, st, st', hI, h => by
    simp only [pass3Nss] at h
    split at h
    · cases h
    · rename_i st1 h1
      split at h
      · cases h
      · rename_i st2 h2
        rw [hE.files] at h1 h2
        have hI1 := setAliases_inv hE hI (fun n r hm => hE.lookup_alias hm) h1
        have hI2 := populateAll_inv hE hI1 (fun d hm => hE.lookup_type hm) h2
        exact pass3Nss_inv hE hI2 h

theorem pass3_inv {rx E fs st} (hE : EnvOK E fs) (h : pass3 rx E = .ok st) : Inv rx E fs st := by
  unfold pass3 at h
  split at h
  · cases h
  · rename_i st0 h0
    split at h
    · cases h
    · cases h
      exact pass3Nss_inv hE Inv.init h0

end StoneVerif.FeCompile.L
