import StoneVerif.Lemmas.FeCompileLegalImports
set_option linter.unusedSimpArgs false
/-!
More of what the environment holds after registration: every bound name is the name of a definition, and the versions
under a route name are those of the route definitions; the specification-level views (`kindS`, `known`,
`deprecatedLegal`) read the same off the declarations.
-/
namespace StoneVerif.FeCompile.L
open StoneVerif.FeCompile
open StoneVerif.FeParams (TyKind)

structure RegInv2 (items : List (Key × Item)) (P : List (String × Decl)) : Prop where
  anyFound : ∀ ns n, (items.lookup (ns, n)).isSome ↔ ∃ d, (ns, d) ∈ P ∧ anyName d = some n
  routeVs : ∀ ns n vs, items.lookup (ns, n) = some (.routes vs) →
    ∀ v, v ∈ vs ↔ ∃ r, (ns, Decl.route r) ∈ P ∧ r.name = n ∧ r.version = v
  routeFound : ∀ ns r, (ns, Decl.route r) ∈ P → ∃ vs, items.lookup (ns, r.name) = some (.routes vs)
  nobuiltin : ∀ ns n, (items.lookup (ns, n)).isSome → TyKind.ofName? n = none
  annotFound : ∀ ns n k, (ns, Decl.annot n k) ∈ P → items.lookup (ns, n) = some (.annot k)
  annotMem : ∀ ns n k, items.lookup (ns, n) = some (.annot k) → (ns, Decl.annot n k) ∈ P

/-- the struct / union declaration an environment entry holds -/
def shapeOf : Item → Option TypeDecl
  | .type d => some d
  | _ => none

def declShape : Decl → Option TypeDecl
  | .type d => some d
  | _ => none

def annShape : Item → Option AnnotKind
  | .annot k => some k
  | _ => none

def annDeclShape : Decl → Option AnnotKind
  | .annot _ k => some k
  | _ => none

inductive Shape (items : List (Key × Item)) (ns : String) (d : Decl) : List (Key × Item) → Prop
  | skip : anyName d = none → Shape items ns d items
  | fresh (name : String) (i : Item) : anyName d = some name → items.lookup (ns, name) = none →
      TyKind.ofName? name = none →
      (∀ r, d = .route r → i = .routes [r.version]) → ((∀ r, d ≠ .route r) → ∀ vs, i ≠ .routes vs) →
      shapeOf i = declShape d → annShape i = annDeclShape d →
      Shape items ns d (((ns, name), i) :: items)
  | more (r : RouteDecl) (vs : List Int) : d = .route r → items.lookup (ns, r.name) = some (.routes vs) →
      ¬ r.version ∈ vs → Shape items ns d (((ns, r.name), .routes (r.version :: vs)) :: items)

theorem lookupSym_none_builtin {items : List (Key × Item)} {ns name} (h : lookupSym items ns name = none) :
    TyKind.ofName? name = none := by
  unfold lookupSym at h
  split at h
  · cases h
  · cases hk : TyKind.ofName? name with
    | none => rfl
    | some k => simp [hk] at h

theorem bindNew_shape {st ns name i c st'} {d : Decl} (h : bindNew st ns name i c = .ok st')
    (hn : anyName d = some name) (hr : ∀ r, d ≠ .route r) (hi : ∀ vs, i ≠ .routes vs) (hsh : shapeOf i = declShape d)
    (hsa : annShape i = annDeclShape d) :
    Shape st.items ns d st'.items := by
  unfold bindNew at h
  split at h
  · cases h
  · rename_i hl
    rw [(checkCanon_items h).1]
    exact .fresh name i hn (lookupSym_none hl) (lookupSym_none_builtin hl) (fun r hd => absurd hd (hr r)) (fun _ => hi) hsh hsa

theorem regDecl_shape {st ns d st'} (h : regDecl st ns d = .ok st') : Shape st.items ns d st'.items := by
  cases d with
  | type td => exact bindNew_shape h rfl (fun r hd => by cases hd) (fun vs hv => by cases hv) rfl rfl
  | «alias» n r => exact bindNew_shape h rfl (fun r hd => by cases hd) (fun vs hv => by cases hv) rfl rfl
  | annot n ak => exact bindNew_shape h rfl (fun r hd => by cases hd) (fun vs hv => by cases hv) rfl rfl
  | annotType n =>
    simp only [regDecl] at h
    split at h
    · cases h
    · rename_i hl
      split at h
      · cases h
      · rw [(checkCanon_items h).1]
        exact .fresh n .other rfl (lookupSym_none hl) (lookupSym_none_builtin hl) (fun r hd => by cases hd) (fun _ vs hv => by cases hv) rfl rfl
  | imp t =>
    simp only [regDecl] at h
    cases h
    exact .skip rfl
  | patch q =>
    simp only [regDecl] at h
    cases h
    exact .skip rfl
  | aliasAnnots n as =>
    simp only [regDecl] at h
    cases h
    exact .skip rfl
  | route r =>
    simp only [regDecl] at h
    split at h
    · rename_i vs hl
      split at h
      · cases h
      · rename_i hv
        rw [(checkCanon_items h).1]
        have hl' : st.items.lookup (ns, r.name) = some (.routes vs) := by
          unfold lookupSym at hl
          split at hl
          · rename_i i hi; simp at hl; rw [hi, hl]
          · cases hk : TyKind.ofName? r.name <;> simp [hk] at hl
        exact .more r vs rfl hl' (by simpa using hv)
    · cases h
    · rename_i hl
      rw [(checkCanon_items h).1]
      exact .fresh r.name (.routes [r.version]) rfl (lookupSym_none hl) (lookupSym_none_builtin hl) (fun r' hd => by cases hd; rfl)
        (fun hne => absurd rfl (hne r)) rfl rfl

theorem lookup_cons_ne {α β} [BEq α] [LawfulBEq α] {l : List (α × β)} {k k' : α} {v : β} (h : k' ≠ k) :
    ((k, v) :: l).lookup k' = l.lookup k' := by
  rw [List.lookup_cons]
  have : (k' == k) = false := by simpa using h
  rw [this]

theorem lookup_cons_self {α β} [BEq α] [LawfulBEq α] {l : List (α × β)} {k : α} {v : β} :
    ((k, v) :: l).lookup k = some v := by
  rw [List.lookup_cons]; simp

theorem RegInv2.step {items P ns d items'} (hI : RegInv2 items P) (hs : Shape items ns d items') :
    RegInv2 items' (P ++ [(ns, d)]) := by
  cases hs with
  | skip hn =>
    refine ⟨?_, ?_, ?_, hI.nobuiltin, ?_, ?_⟩
    rotate_left 3
    · intro ns' n k hm
      rw [List.mem_append] at hm
      rcases hm with hm | hm
      · exact hI.annotFound ns' n k hm
      · simp only [List.mem_singleton, Prod.mk.injEq] at hm
        obtain ⟨_, rfl⟩ := hm
        simp [anyName] at hn
    · intro ns' n k hl
      exact List.mem_append_left _ (hI.annotMem ns' n k hl)
    · intro ns' n
      rw [hI.anyFound]
      constructor
      · rintro ⟨d', hm, hd'⟩; exact ⟨d', List.mem_append_left _ hm, hd'⟩
      · rintro ⟨d', hm, hd'⟩
        rw [List.mem_append] at hm
        rcases hm with hm | hm
        · exact ⟨d', hm, hd'⟩
        · simp only [List.mem_singleton, Prod.mk.injEq] at hm
          obtain ⟨_, rfl⟩ := hm
          rw [hn] at hd'; cases hd'
    · intro ns' n vs hl v
      rw [hI.routeVs ns' n vs hl v]
      constructor
      · rintro ⟨r, hm, h1, h2⟩; exact ⟨r, List.mem_append_left _ hm, h1, h2⟩
      · rintro ⟨r, hm, h1, h2⟩
        rw [List.mem_append] at hm
        rcases hm with hm | hm
        · exact ⟨r, hm, h1, h2⟩
        · simp only [List.mem_singleton, Prod.mk.injEq] at hm
          obtain ⟨_, rfl⟩ := hm
          simp [anyName] at hn
    · intro ns' r hm
      rw [List.mem_append] at hm
      rcases hm with hm | hm
      · exact hI.routeFound ns' r hm
      · simp only [List.mem_singleton, Prod.mk.injEq] at hm
        obtain ⟨_, rfl⟩ := hm
        simp [anyName] at hn
  | fresh name i hn hl hnb hri hnr _ hsa =>
    have hnoP : ∀ d', (ns, d') ∈ P → anyName d' ≠ some name := by
      intro d' hm hd'
      have := (hI.anyFound ns name).mpr ⟨d', hm, hd'⟩
      rw [hl] at this; cases this
    refine ⟨?_, ?_, ?_, ?_, ?_, ?_⟩
    rotate_left 3
    · intro ns' n hs
      by_cases hk : (ns', n) = (ns, name)
      · cases hk; exact hnb
      · rw [lookup_cons_ne hk] at hs; exact hI.nobuiltin ns' n hs
    · intro ns' n k hm
      rw [List.mem_append] at hm
      rcases hm with hm | hm
      · have hk : (ns', n) ≠ (ns, name) := by
          intro he; cases he
          exact hnoP _ hm rfl
        rw [lookup_cons_ne hk]
        exact hI.annotFound ns' n k hm
      · simp only [List.mem_singleton, Prod.mk.injEq] at hm
        obtain ⟨rfl, rfl⟩ := hm
        simp only [anyName, Option.some.injEq] at hn
        subst hn
        rw [lookup_cons_self]
        simp only [annDeclShape] at hsa
        cases i <;> simp [annShape] at hsa
        rw [hsa]
    · intro ns' n k hlk
      by_cases hk : (ns', n) = (ns, name)
      · cases hk
        rw [lookup_cons_self] at hlk
        cases hlk
        simp only [annShape] at hsa
        cases d <;> simp [annDeclShape] at hsa
        rename_i n' k'
        subst hsa
        simp only [anyName, Option.some.injEq] at hn
        subst hn
        simp
      · rw [lookup_cons_ne hk] at hlk
        exact List.mem_append_left _ (hI.annotMem ns' n k hlk)
    · intro ns' n
      by_cases hk : (ns', n) = (ns, name)
      · cases hk
        rw [lookup_cons_self]
        simp only [Option.isSome_some, true_iff]
        exact ⟨d, by simp, hn⟩
      · rw [lookup_cons_ne hk, hI.anyFound]
        constructor
        · rintro ⟨d', hm, hd'⟩; exact ⟨d', List.mem_append_left _ hm, hd'⟩
        · rintro ⟨d', hm, hd'⟩
          rw [List.mem_append] at hm
          rcases hm with hm | hm
          · exact ⟨d', hm, hd'⟩
          · simp only [List.mem_singleton, Prod.mk.injEq] at hm
            obtain ⟨rfl, rfl⟩ := hm
            rw [hn] at hd'
            cases hd'
            exact absurd rfl hk
    · intro ns' n vs hlk v
      by_cases hk : (ns', n) = (ns, name)
      · cases hk
        rw [lookup_cons_self] at hlk
        cases hlk
        -- `i` is a route table: `d` is a route
        have hdr : ∃ r, d = .route r := by
          cases d with
          | route r => exact ⟨r, rfl⟩
          | type _ | «alias» _ _ | annot _ _ | annotType _ | imp _ | patch _ | aliasAnnots _ _ =>
            exact absurd rfl (hnr (fun r hd => by cases hd) vs)
        obtain ⟨r, rfl⟩ := hdr
        have hi := hri r rfl
        cases hi
        simp only [anyName, Option.some.injEq] at hn
        subst hn
        simp only [List.mem_singleton]
        constructor
        · rintro rfl; exact ⟨r, by simp, rfl, rfl⟩
        · rintro ⟨r', hm, h1, h2⟩
          rw [List.mem_append] at hm
          rcases hm with hm | hm
          · exact absurd (by simp [anyName, h1]) (hnoP _ hm)
          · simp only [List.mem_singleton, Prod.mk.injEq, Decl.route.injEq] at hm
            obtain ⟨_, rfl⟩ := hm
            exact h2.symm
      · rw [lookup_cons_ne hk] at hlk
        rw [hI.routeVs ns' n vs hlk v]
        constructor
        · rintro ⟨r, hm, h1, h2⟩; exact ⟨r, List.mem_append_left _ hm, h1, h2⟩
        · rintro ⟨r, hm, h1, h2⟩
          rw [List.mem_append] at hm
          rcases hm with hm | hm
          · exact ⟨r, hm, h1, h2⟩
          · simp only [List.mem_singleton, Prod.mk.injEq] at hm
            obtain ⟨rfl, rfl⟩ := hm
            simp only [anyName, Option.some.injEq] at hn
            subst hn h1
            exact absurd rfl hk
    · intro ns' r hm
      rw [List.mem_append] at hm
      rcases hm with hm | hm
      · obtain ⟨vs, hvs⟩ := hI.routeFound ns' r hm
        have hk : (ns', r.name) ≠ (ns, name) := by
          intro he; cases he; rw [hl] at hvs; cases hvs
        exact ⟨vs, by rw [lookup_cons_ne hk]; exact hvs⟩
      · simp only [List.mem_singleton, Prod.mk.injEq] at hm
        obtain ⟨rfl, rfl⟩ := hm
        simp only [anyName, Option.some.injEq] at hn
        subst hn
        exact ⟨[r.version], by rw [lookup_cons_self, hri r rfl]⟩
  | more r vs hd hl hv =>
    subst hd
    refine ⟨?_, ?_, ?_, ?_, ?_, ?_⟩
    rotate_left 3
    · intro ns' n hs
      by_cases hk : (ns', n) = (ns, r.name)
      · cases hk; exact hI.nobuiltin ns r.name (by rw [hl]; rfl)
      · rw [lookup_cons_ne hk] at hs; exact hI.nobuiltin ns' n hs
    · intro ns' n k hm
      rw [List.mem_append] at hm
      rcases hm with hm | hm
      · have hk : (ns', n) ≠ (ns, r.name) := by
          intro he; cases he
          have := hI.annotFound ns r.name k hm
          rw [hl] at this; cases this
        rw [lookup_cons_ne hk]
        exact hI.annotFound ns' n k hm
      · simp only [List.mem_singleton, Prod.mk.injEq] at hm
        obtain ⟨_, hd⟩ := hm
        cases hd
    · intro ns' n k hlk
      by_cases hk : (ns', n) = (ns, r.name)
      · cases hk
        rw [lookup_cons_self] at hlk
        cases hlk
      · rw [lookup_cons_ne hk] at hlk
        exact List.mem_append_left _ (hI.annotMem ns' n k hlk)
    · intro ns' n
      by_cases hk : (ns', n) = (ns, r.name)
      · cases hk
        rw [lookup_cons_self]
        simp only [Option.isSome_some, true_iff]
        exact ⟨.route r, by simp, rfl⟩
      · rw [lookup_cons_ne hk, hI.anyFound]
        constructor
        · rintro ⟨d', hm, hd'⟩; exact ⟨d', List.mem_append_left _ hm, hd'⟩
        · rintro ⟨d', hm, hd'⟩
          rw [List.mem_append] at hm
          rcases hm with hm | hm
          · exact ⟨d', hm, hd'⟩
          · simp only [List.mem_singleton, Prod.mk.injEq] at hm
            obtain ⟨rfl, rfl⟩ := hm
            simp only [anyName, Option.some.injEq] at hd'
            subst hd'
            exact absurd rfl hk
    · intro ns' n vs' hlk v
      by_cases hk : (ns', n) = (ns, r.name)
      · cases hk
        rw [lookup_cons_self] at hlk
        cases hlk
        simp only [List.mem_cons]
        rw [hI.routeVs ns r.name vs hl v]
        constructor
        · rintro (rfl | ⟨r', hm, h1, h2⟩)
          · exact ⟨r, by simp, rfl, rfl⟩
          · exact ⟨r', List.mem_append_left _ hm, h1, h2⟩
        · rintro ⟨r', hm, h1, h2⟩
          rw [List.mem_append] at hm
          rcases hm with hm | hm
          · exact Or.inr ⟨r', hm, h1, h2⟩
          · simp only [List.mem_singleton, Prod.mk.injEq, Decl.route.injEq] at hm
            obtain ⟨_, rfl⟩ := hm
            exact Or.inl h2.symm
      · rw [lookup_cons_ne hk] at hlk
        rw [hI.routeVs ns' n vs' hlk v]
        constructor
        · rintro ⟨r', hm, h1, h2⟩; exact ⟨r', List.mem_append_left _ hm, h1, h2⟩
        · rintro ⟨r', hm, h1, h2⟩
          rw [List.mem_append] at hm
          rcases hm with hm | hm
          · exact ⟨r', hm, h1, h2⟩
          · simp only [List.mem_singleton, Prod.mk.injEq, Decl.route.injEq] at hm
            obtain ⟨rfl, rfl⟩ := hm
            subst h1
            exact absurd rfl hk
    · intro ns' r' hm
      rw [List.mem_append] at hm
      rcases hm with hm | hm
      · obtain ⟨vs', hvs⟩ := hI.routeFound ns' r' hm
        by_cases hk : (ns', r'.name) = (ns, r.name)
        · rw [hk, lookup_cons_self]; exact ⟨_, rfl⟩
        · exact ⟨vs', by rw [lookup_cons_ne hk]; exact hvs⟩
      · simp only [List.mem_singleton, Prod.mk.injEq, Decl.route.injEq] at hm
        obtain ⟨rfl, rfl⟩ := hm
        exact ⟨_, lookup_cons_self⟩

theorem regDecls_inv2 {ns} : ∀ {ds : List Decl} {st st' P}, RegInv2 st.items P → regDecls st ns ds = .ok st' →
    RegInv2 st'.items (P ++ ds.map (fun d => (ns, d)))
  | [], st, st', P, hI, h => by simp only [regDecls] at h; cases h; simpa using hI
  | d :: ds, st, st', P, hI, h => by
    simp only [regDecls] at h
    split at h
    · rename_i st1 h1
      have := regDecls_inv2 (hI.step (regDecl_shape h1)) h
      simpa [List.append_assoc] using this
    · cases h

theorem regFiles_inv2 : ∀ {fs : List File} {st st' P}, RegInv2 st.items P → regFiles st fs = .ok st' →
    RegInv2 st'.items (P ++ pairs fs)
  | [], st, st', P, hI, h => by simp only [regFiles] at h; cases h; simpa [pairs] using hI
  | f :: fs, st, st', P, hI, h => by
    simp only [regFiles] at h
    split at h
    · rename_i st1 h1
      unfold regFile at h1
      have hI1 := regDecls_inv2 (P := P) (by exact hI) h1
      have := regFiles_inv2 hI1 h
      simpa [pairs, List.append_assoc] using this
    · cases h

theorem buildEnv_inv2 {fs E} (h : buildEnv fs = .ok E) : RegInv2 E.items (pairs fs) := by
  unfold buildEnv at h
  split at h
  · cases h
  · rename_i st hst
    split at h
    · cases h
    · cases h
      have := regFiles_inv2 (P := []) ⟨by simp, by simp, by simp, by simp, by simp, by simp⟩ hst
      simpa using this

/-! ## the environment, entry by entry, is the list of named definitions -/

def namedEntry : String × Decl → Option (Key × Option TypeDecl)
  | (ns, d) => (anyName d).map fun n => ((ns, n), declShape d)

def RegInv3 (items : List (Key × Item)) (P : List (String × Decl)) : Prop :=
  items.map (fun p => (p.1, shapeOf p.2)) = (P.filterMap namedEntry).reverse

theorem RegInv3.step {items P ns d items'} (hI : RegInv3 items P) (hs : Shape items ns d items') :
    RegInv3 items' (P ++ [(ns, d)]) := by
  unfold RegInv3 at hI ⊢
  cases hs with
  | skip hn => simp [List.filterMap_append, namedEntry, hn, hI]
  | fresh name i hn _ _ _ _ hsh _ =>
    simp [List.filterMap_append, namedEntry, hn, hI, hsh]
  | more r vs hd _ _ =>
    subst hd
    have h1 : shapeOf (Item.routes (r.version :: vs)) = none := rfl
    simp only [List.map_cons, h1, hI, List.filterMap_append, List.filterMap_cons, namedEntry, anyName, declShape,
      Option.map_some, List.filterMap_nil, List.reverse_append, List.reverse_cons, List.reverse_nil, List.nil_append,
      List.singleton_append]

theorem regDecls_inv3 {ns} : ∀ {ds : List Decl} {st st' P}, RegInv3 st.items P → regDecls st ns ds = .ok st' →
    RegInv3 st'.items (P ++ ds.map (fun d => (ns, d)))
  | [], st, st', P, hI, h => by simp only [regDecls] at h; cases h; simpa using hI
  | d :: ds, st, st', P, hI, h => by
    simp only [regDecls] at h
    split at h
    · rename_i st1 h1
      have := regDecls_inv3 (hI.step (regDecl_shape h1)) h
      simpa [List.append_assoc] using this
    · cases h

theorem regFiles_inv3 : ∀ {fs : List File} {st st' P}, RegInv3 st.items P → regFiles st fs = .ok st' →
    RegInv3 st'.items (P ++ pairs fs)
  | [], st, st', P, hI, h => by simp only [regFiles] at h; cases h; simpa [pairs] using hI
  | f :: fs, st, st', P, hI, h => by
    simp only [regFiles] at h
    split at h
    · rename_i st1 h1
      unfold regFile at h1
      have hI1 := regDecls_inv3 (P := P) (by exact hI) h1
      have := regFiles_inv3 hI1 h
      simpa [pairs, List.append_assoc] using this
    · cases h

theorem buildEnv_inv3 {fs E} (h : buildEnv fs = .ok E) : RegInv3 E.items (pairs fs) := by
  unfold buildEnv at h
  split at h
  · cases h
  · rename_i st hst
    split at h
    · cases h
    · cases h
      have := regFiles_inv3 (P := []) (by simp [RegInv3]) hst
      simpa using this

/-- everything the later passes use of the environment -/
structure EnvOK2 (E : Env) (fs : List File) : Prop where
  ok : EnvOK E fs
  inv2 : RegInv2 E.items (pairs fs)
  inv3 : RegInv3 E.items (pairs fs)

theorem buildEnv_ok2 {fs E} (h : buildEnv fs = .ok E) : EnvOK2 E fs := ⟨buildEnv_ok h, buildEnv_inv2 h, buildEnv_inv3 h⟩

theorem EnvOK.kindOf_eq {E fs} (hE : EnvOK E fs) (k : Key) : kindOf E k = kindS fs k := by
  unfold kindOf kindS
  cases hl : E.items.lookup k with
  | none => rw [hE.findDef_none (ns := k.1) (n := k.2) hl]
  | some i =>
    cases i with
    | type d =>
      obtain ⟨d', hf, hd'⟩ := hE.findDef_of_lookup (ns := k.1) (n := k.2) hl (Or.inl ⟨d, rfl⟩)
      cases d' <;> simp [itemOf] at hd'
      subst hd'
      rw [hf]
    | «alias» r =>
      obtain ⟨d', hf, hd'⟩ := hE.findDef_of_lookup (ns := k.1) (n := k.2) hl (Or.inr ⟨r, rfl⟩)
      cases d' <;> simp [itemOf] at hd'
      subst hd'
      rw [hf]
    | routes vs => rw [hE.findDef_other (ns := k.1) (n := k.2) hl (Or.inl ⟨vs, rfl⟩)]
    | other => rw [hE.findDef_other (ns := k.1) (n := k.2) hl (Or.inr rfl)]
    | annot ak => rw [hE.findDef_annot (ns := k.1) (n := k.2) hl]

theorem EnvOK2.known_eq {E fs} (hE : EnvOK2 E fs) (ns name : String) :
    (E.lookup ns name).isSome = known fs ns name := by
  unfold Env.lookup known
  rw [hE.ok.imported_iff]
  cases hi : imported fs ns name with
  | true => simp
  | false =>
    simp only [Bool.false_eq_true, ↓reduceIte, Bool.false_or]
    unfold lookupSym
    have hany := hE.inv2.anyFound ns name
    cases hl : E.items.lookup (ns, name) with
    | some i =>
      rw [hl] at hany
      obtain ⟨d, hm, hd⟩ := hany.mp rfl
      have : (declsOf fs ns).any (fun d => anyName d == some name) = true := by
        rw [List.any_eq_true]
        exact ⟨d, mem_declsOf.mpr hm, by simp [hd]⟩
      simp [this]
    | none =>
      rw [hl] at hany
      have : (declsOf fs ns).any (fun d => anyName d == some name) = false := by
        rw [Bool.eq_false_iff, ne_eq, List.any_eq_true]
        rintro ⟨d, hm, hd⟩
        have := hany.mpr ⟨d, mem_declsOf.mp hm, by simpa using hd⟩
        cases this
      simp [this]

theorem EnvOK2.deprecated_eq {E fs} (hE : EnvOK2 E fs) (ns : String) (dep : Option (Option (String × Int))) :
    isOk (routeDeprecated E ns dep) = deprecatedLegal fs ns dep := by
  unfold routeDeprecated deprecatedLegal
  split
  · rename_i name v
    unfold Env.lookup
    rw [hE.ok.imported_iff]
    cases hi : imported fs ns name with
    | true => simp [isOk]
    | false =>
      simp only [Bool.false_eq_true, ↓reduceIte, Bool.not_false, Bool.true_and]
      have hany : (routeDecls (declsOf fs ns)).any (fun r => r.name == name && r.version == v) = true ↔
          ∃ r, (ns, Decl.route r) ∈ pairs fs ∧ r.name = name ∧ r.version = v := by
        rw [List.any_eq_true]
        constructor
        · rintro ⟨r, hm, hp⟩
          simp only [Bool.and_eq_true, beq_iff_eq] at hp
          exact ⟨r, mem_declsOf.mp (mem_routeDecls.mp hm), hp.1, hp.2⟩
        · rintro ⟨r, hm, h1, h2⟩
          exact ⟨r, mem_routeDecls.mpr (mem_declsOf.mpr hm), by simp [h1, h2]⟩
      unfold lookupSym
      cases hl : E.items.lookup (ns, name) with
      | none =>
        have hno : (routeDecls (declsOf fs ns)).any (fun r => r.name == name && r.version == v) = false := by
          rw [Bool.eq_false_iff, ne_eq, hany]
          rintro ⟨r, hm, h1, _⟩
          obtain ⟨vs, hvs⟩ := hE.inv2.routeFound ns r hm
          rw [h1, hl] at hvs; cases hvs
        rw [hno]
        cases TyKind.ofName? name <;> simp [isOk]
      | some i =>
        cases i with
        | routes vs =>
          have hv := hE.inv2.routeVs ns name vs hl v
          simp only
          by_cases hc : v ∈ vs
          · have : vs.contains v = true := List.contains_iff_mem.mpr hc
            rw [this, (hany.mpr (hv.mp hc))]
            rfl
          · have : vs.contains v = false := by
              rw [Bool.eq_false_iff, ne_eq, List.contains_iff_mem]; exact hc
            have hno : (routeDecls (declsOf fs ns)).any (fun r => r.name == name && r.version == v) = false := by
              rw [Bool.eq_false_iff, ne_eq, hany]
              exact fun h => hc (hv.mpr h)
            rw [this, hno]
            rfl
        | type _ | «alias» _ | other | annot _ =>
          have hno : (routeDecls (declsOf fs ns)).any (fun r => r.name == name && r.version == v) = false := by
            rw [Bool.eq_false_iff, ne_eq, hany]
            rintro ⟨r, hm, h1, _⟩
            obtain ⟨vs, hvs⟩ := hE.inv2.routeFound ns r hm
            rw [h1, hl] at hvs; cases hvs
          rw [hno]
          rfl
  · rfl

end StoneVerif.FeCompile.L
