import StoneVerif.Model.Rt.Types
import StoneVerif.Model.Rt.Tables
import StoneVerif.Model.Rt.Validate
import StoneVerif.Model.Rt.Encode
import StoneVerif.Model.Rt.Decode
import StoneVerif.Model.Rt.Spec
import StoneVerif.Model.Rt.WF
import StoneVerif.Model.Rt.SpecC13
import StoneVerif.Model.Rt.Ir
/-!
Helper lemmas for C13 (caller permissions and redaction in the JSON runtime model).

Part 1: the per-caller class tables (`allFieldsAttrRev`, `tagmapAttrRev`, `permissionedTagmapsRev`)
in closed form.
Part 2: `assembleStruct` / `encodeSlots` key lemmas.
Part 3: redaction.
-/
namespace StoneVerif.Rt.PermL

/-! ### Part 1: tables -/

theorem mem_dedup (x : String) (xs : List String) : x ∈ dedup xs ↔ x ∈ xs := by
  induction xs with
  | nil => simp [dedup]
  | cons y ys ih =>
    unfold dedup
    by_cases h : ys.contains y = true
    · rw [if_pos h]
      simp only [ih, List.mem_cons]
      constructor
      · exact Or.inr
      · rintro (rfl | h')
        · simpa using h
        · exact h'
    · rw [if_neg h]
      simp [ih]

theorem contains_dedup (x : String) (xs : List String) : (dedup xs).contains x = xs.contains x := by
  rw [Bool.eq_iff_iff]
  simp [mem_dedup]

/-- A caller class is named by the chain `ls` iff some field of it is omitted for that class. -/
theorem mem_flatMap_ownCallers (p : String) (ls : List Level) :
    p ∈ ls.flatMap (·.ownCallers) ↔ ∃ f ∈ ls.flatMap (·.fields), f.omitted = some p := by
  simp only [List.mem_flatMap, Level.ownCallers, mem_dedup, List.mem_filterMap]
  constructor
  · rintro ⟨l, hl, f, hf, h⟩
    exact ⟨f, ⟨l, hl, hf⟩, h⟩
  · rintro ⟨f, ⟨l, hl, hf⟩, h⟩
    exact ⟨l, hl, f, hf, h⟩

theorem mem_flatMap_uownCallers (p : String) (ls : List ULevel) :
    p ∈ ls.flatMap (·.ownCallers) ↔ ∃ t ∈ ls.flatMap (·.tags), t.omitted = some p := by
  simp only [List.mem_flatMap, ULevel.ownCallers, mem_dedup, List.mem_filterMap]
  constructor
  · rintro ⟨l, hl, f, hf, h⟩
    exact ⟨f, ⟨l, hl, hf⟩, h⟩
  · rintro ⟨f, ⟨l, hl, hf⟩, h⟩
    exact ⟨l, hl, f, hf, h⟩

/-- the condition under which the attribute `_all<_X>_fields_` exists on the class with chain `ls` -/
def attrExists (X : Option String) (ls : List Level) : Bool :=
  (X.isNone && !ls.isEmpty) || callerIn X (dedup (ls.flatMap (·.ownCallers)))

theorem filter_omitted_eq_nil_of_not_callerIn (p : String) (ls : List Level)
    (h : callerIn (some p) (dedup (ls.flatMap (·.ownCallers))) = false) :
    (ls.reverse.flatMap (·.fields)).filter (·.omitted == some p) = [] := by
  rw [List.filter_eq_nil_iff]
  intro f hf hp
  have hp' : f.omitted = some p := by simpa using hp
  have : p ∈ ls.flatMap (·.ownCallers) := by
    rw [mem_flatMap_ownCallers]
    refine ⟨f, ?_, hp'⟩
    simp only [List.mem_flatMap, List.mem_reverse] at hf ⊢
    exact hf
  simp only [callerIn, contains_dedup] at h
  simp [this] at h

theorem callerIn_cons (X : Option String) (l : Level) (parents : List Level) :
    callerIn X (dedup ((l :: parents).flatMap (·.ownCallers))) =
      (callerIn X l.ownCallers || callerIn X (dedup (parents.flatMap (·.ownCallers)))) := by
  cases X with
  | none => simp [callerIn]
  | some p =>
    simp only [callerIn, contains_dedup, List.flatMap_cons]
    rw [Bool.eq_iff_iff]
    simp

/-- Closed form of the generated `_all<_X>_fields_` attribute: it exists iff `X` is the public table
(of a non-empty chain) or some class of the chain declares a field omitted for `X`, and then it holds
exactly the fields of the whole chain, root first, whose `omitted_caller` is `X`. -/
theorem allFieldsAttrRev_eq (X : Option String) (ls : List Level) :
    allFieldsAttrRev X ls =
      if attrExists X ls then some ((ls.reverse.flatMap (·.fields)).filter (·.omitted == X)) else none := by
  induction ls with
  | nil => cases X <;> simp [allFieldsAttrRev, attrExists, callerIn, dedup]
  | cons l parents ih =>
    unfold allFieldsAttrRev
    simp only [attrExists, callerIn_cons] at ih ⊢
    simp only [List.reverse_cons, List.flatMap_append, List.flatMap_cons, List.flatMap_nil,
      List.append_nil, List.filter_append, List.isEmpty_cons, Bool.not_false, Bool.and_true]
    cases X with
    | none =>
      simp only [Option.isNone_none, if_true, Bool.true_and, callerIn, Bool.or_false] at ih ⊢
      cases parents with
      | nil => simp
      | cons q qs =>
        simp only [List.isEmpty_cons, Bool.not_false, if_true] at ih ⊢
        rw [ih]; simp
    | some p =>
      simp only [Option.isNone_some, Bool.false_or, Bool.false_and] at ih ⊢
      by_cases hpar : callerIn (some p) (dedup (parents.flatMap (·.ownCallers))) = true
      · have hne : parents.isEmpty = false := by
          cases parents with
          | nil => simp [callerIn, dedup] at hpar
          | cons q qs => rfl
        simp only [hpar, Bool.or_true, if_true, hne, Bool.not_false, Bool.and_true] at ih ⊢
        rw [ih]; simp
      · have hpar' : callerIn (some p) (dedup (parents.flatMap (·.ownCallers))) = false := by
          simpa using hpar
        have hnil := filter_omitted_eq_nil_of_not_callerIn p parents hpar'
        simp only [hpar', Bool.or_false, Bool.and_false] at ih ⊢
        by_cases hown : callerIn (some p) l.ownCallers = true
        · simp [hown, hnil]
        · simp only [hown]
          simpa using ih

theorem allFieldsAttrRev_getD (X : Option String) (ls : List Level) :
    (allFieldsAttrRev X ls).getD [] = (ls.reverse.flatMap (·.fields)).filter (·.omitted == X) := by
  rw [allFieldsAttrRev_eq]
  by_cases h : attrExists X ls = true
  · simp [h]
  · simp only [h]
    cases X with
    | none =>
      cases ls with
      | nil => simp
      | cons l r => simp [attrExists] at h
    | some p =>
      simp only [attrExists, Option.isNone_some, Bool.false_and, Bool.false_or] at h
      have h' : callerIn (some p) (dedup (ls.flatMap (·.ownCallers))) = false := by simpa using h
      simp [filter_omitted_eq_nil_of_not_callerIn p ls h']

/-- `_all<_X>_fields_` read with `getattr(..., [])`: the fields of the chain whose omitted caller is `X`. -/
theorem allFieldsAttr_getD (s : StructDef) (X : Option String) :
    (s.allFieldsAttr X).getD [] = s.allAttrs.filter (·.omitted == X) := by
  simp [StructDef.allFieldsAttr, allFieldsAttrRev_getD, StructDef.allAttrs]

/-- The field table `encode_struct` / `decode_struct` assemble, in closed form (order included). -/
theorem fieldsFor_eq (s : StructDef) (perms : List String) :
    s.fieldsFor perms = s.allAttrs.filter (·.omitted == none) ++
      perms.flatMap fun p => s.allAttrs.filter (·.omitted == some p) := by
  simp only [StructDef.fieldsFor, allFieldsAttr_getD]

theorem mem_fieldsFor (s : StructDef) (perms : List String) (f : FieldDef) :
    f ∈ s.fieldsFor perms ↔ f ∈ s.fieldsSpec perms := by
  rw [fieldsFor_eq]
  simp only [StructDef.fieldsSpec, StructDef.allAttrs, List.mem_append, List.mem_filter, List.mem_flatMap]
  constructor
  · rintro (⟨hf, ho⟩ | ⟨p, hp, hf, ho⟩)
    · refine ⟨hf, ?_⟩
      have : f.omitted = none := by simpa using ho
      simp [this]
    · refine ⟨hf, ?_⟩
      have : f.omitted = some p := by simpa using ho
      simp [this, hp]
  · rintro ⟨hf, ho⟩
    cases h : f.omitted with
    | none => exact Or.inl ⟨hf, by simp⟩
    | some c =>
      rw [h] at ho
      exact Or.inr ⟨c, by simpa using ho, hf, by simp⟩

theorem length_filter_or_disjoint {α} (a b : α → Bool) (xs : List α)
    (hd : ∀ x ∈ xs, ¬ (a x = true ∧ b x = true)) :
    (xs.filter fun x => a x || b x).length = (xs.filter a).length + (xs.filter b).length := by
  induction xs with
  | nil => rfl
  | cons x xs ih =>
    have ih' := ih (fun y hy => hd y (List.mem_cons_of_mem _ hy))
    have hx := hd x List.mem_cons_self
    cases ha : a x <;> cases hb : b x <;> simp_all <;> omega

theorem length_flatMap_filter_omitted (xs : List FieldDef) (perms : List String) (hnd : nodupS perms = true) :
    (perms.flatMap fun p => xs.filter (·.omitted == some p)).length =
      (xs.filter fun f => match f.omitted with | none => false | some c => perms.contains c).length := by
  induction perms with
  | nil =>
    simp only [List.flatMap_nil, List.length_nil]
    symm
    rw [List.length_eq_zero_iff, List.filter_eq_nil_iff]
    intro f _
    cases f.omitted <;> simp
  | cons p ps ih =>
    simp only [nodupS, Bool.and_eq_true, Bool.not_eq_true'] at hnd
    have hp : ¬ p ∈ ps := by
      intro h
      have := hnd.1
      simp [h] at this
    rw [List.flatMap_cons, List.length_append, ih hnd.2]
    rw [← length_filter_or_disjoint]
    · congr 1
      apply List.filter_congr
      intro f _
      cases h : f.omitted with
      | none => simp
      | some c =>
        simp only [List.contains_cons]
        rw [Bool.eq_iff_iff]
        simp
    · intro f _ ⟨h1, h2⟩
      have h1' : f.omitted = some p := by simpa using h1
      rw [h1'] at h2
      simp only at h2
      exact hp (by simpa using h2)

theorem length_fieldsFor (s : StructDef) (perms : List String) (hnd : nodupS perms = true) :
    (s.fieldsFor perms).length = (s.fieldsSpec perms).length := by
  rw [fieldsFor_eq, List.length_append, length_flatMap_filter_omitted _ _ hnd,
    ← length_filter_or_disjoint]
  · simp only [StructDef.fieldsSpec, StructDef.allAttrs]
    congr 1
    apply List.filter_congr
    intro f _
    cases h : f.omitted <;> simp
  · intro f _ ⟨h1, h2⟩
    have h1' : f.omitted = none := by simpa using h1
    rw [h1'] at h2
    simp at h2

/-! #### unions -/

def tagAttrExists (X : Option String) (ls : List ULevel) : Bool :=
  (X.isNone && !ls.isEmpty) || callerIn X (dedup (ls.flatMap (·.ownCallers)))

theorem filter_tag_omitted_eq_nil_of_not_callerIn (p : String) (ls : List ULevel)
    (h : callerIn (some p) (dedup (ls.flatMap (·.ownCallers))) = false) :
    (ls.flatMap (·.tags)).filter (·.omitted == some p) = [] := by
  rw [List.filter_eq_nil_iff]
  intro f hf hp
  have hp' : f.omitted = some p := by simpa using hp
  have : p ∈ ls.flatMap (·.ownCallers) := by
    rw [mem_flatMap_uownCallers]
    exact ⟨f, hf, hp'⟩
  simp only [callerIn, contains_dedup] at h
  simp [this] at h

theorem ucallerIn_cons (X : Option String) (l : ULevel) (parents : List ULevel) :
    callerIn X (dedup ((l :: parents).flatMap (·.ownCallers))) =
      (callerIn X l.ownCallers || callerIn X (dedup (parents.flatMap (·.ownCallers)))) := by
  cases X with
  | none => simp [callerIn]
  | some p =>
    simp only [callerIn, contains_dedup, List.flatMap_cons]
    rw [Bool.eq_iff_iff]
    simp

/-- Closed form of the generated `_tagmap` / `_<X>_tagmap` attribute (chain LEAF FIRST): the tags of
the whole chain whose `omitted_caller` is `X`, the class's own tags first. -/
theorem tagmapAttrRev_eq (X : Option String) (ls : List ULevel) :
    tagmapAttrRev X ls =
      if tagAttrExists X ls then some ((ls.flatMap (·.tags)).filter (·.omitted == X)) else none := by
  induction ls with
  | nil => cases X <;> simp [tagmapAttrRev, tagAttrExists, callerIn, dedup]
  | cons l parents ih =>
    unfold tagmapAttrRev
    simp only [tagAttrExists, ucallerIn_cons] at ih ⊢
    simp only [List.flatMap_cons, List.filter_append, List.isEmpty_cons, Bool.not_false, Bool.and_true]
    cases X with
    | none =>
      simp only [Option.isNone_none, if_true, Bool.true_and, callerIn, Bool.or_false] at ih ⊢
      cases parents with
      | nil => simp
      | cons q qs =>
        simp only [List.isEmpty_cons, Bool.not_false, if_true] at ih ⊢
        rw [ih]; simp
    | some p =>
      simp only [Option.isNone_some, Bool.false_or, Bool.false_and] at ih ⊢
      by_cases hpar : callerIn (some p) (dedup (parents.flatMap (·.ownCallers))) = true
      · have hne : parents.isEmpty = false := by
          cases parents with
          | nil => simp [callerIn, dedup] at hpar
          | cons q qs => rfl
        simp only [hpar, Bool.or_true, if_true, hne, Bool.not_false, Bool.and_true] at ih ⊢
        rw [ih]; simp
      · have hpar' : callerIn (some p) (dedup (parents.flatMap (·.ownCallers))) = false := by
          simpa using hpar
        have hnil := filter_tag_omitted_eq_nil_of_not_callerIn p parents hpar'
        simp only [hpar', Bool.or_false, Bool.and_false] at ih ⊢
        by_cases hown : callerIn (some p) l.ownCallers = true
        · simp [hown, hnil]
        · simp only [hown]
          simpa using ih

theorem tagmapAttrRev_getD (X : Option String) (ls : List ULevel) :
    (tagmapAttrRev X ls).getD [] = (ls.flatMap (·.tags)).filter (·.omitted == X) := by
  rw [tagmapAttrRev_eq]
  by_cases h : tagAttrExists X ls = true
  · simp [h]
  · simp only [h]
    cases X with
    | none =>
      cases ls with
      | nil => simp
      | cons l r => simp [tagAttrExists] at h
    | some p =>
      simp only [tagAttrExists, Option.isNone_some, Bool.false_and, Bool.false_or] at h
      have h' : callerIn (some p) (dedup (ls.flatMap (·.ownCallers))) = false := by simpa using h
      simp [filter_tag_omitted_eq_nil_of_not_callerIn p ls h']

theorem findTag_isSome (name : String) (ts : List TagDef) :
    (findTag name ts).isSome = true ↔ ∃ t ∈ ts, t.name = name := by
  induction ts with
  | nil => simp [findTag]
  | cons t ts ih =>
    unfold findTag
    by_cases h : t.name = name
    · simp [h]
    · simp [h, ih]

theorem findTag_some_mem {name : String} {ts : List TagDef} {t : TagDef} (h : findTag name ts = some t) :
    t ∈ ts ∧ t.name = name := by
  induction ts with
  | nil => simp [findTag] at h
  | cons t' ts ih =>
    unfold findTag at h
    by_cases hn : t'.name = name
    · simp [hn] at h; subst h; exact ⟨List.mem_cons_self, hn⟩
    · simp [hn] at h
      exact ⟨List.mem_cons_of_mem _ (ih h).1, (ih h).2⟩

theorem option_bind_findTag_isSome (name : String) (o : Option (List TagDef)) :
    (o.bind (findTag name)).isSome = (findTag name (o.getD [])).isSome := by
  cases o <;> simp [findTag]

/-- `_is_tag_present`: some table of the caller lists the tag iff the specification shows a tag of
that name to the caller. -/
theorem isTagPresent_iff (u : UnionDef) (tag : String) (perms : List String) :
    u.isTagPresent tag perms = true ↔ ∃ t ∈ u.tagsSpec perms, t.name = tag := by
  simp only [UnionDef.isTagPresent, option_bind_findTag_isSome, UnionDef.tagmapAttr, tagmapAttrRev_getD,
    Bool.or_eq_true, List.any_eq_true, findTag_isSome, UnionDef.tagsSpec, List.mem_filter,
    List.mem_flatMap, List.mem_reverse]
  constructor
  · rintro (⟨t, ⟨hm, ho⟩, hn⟩ | ⟨p, hp, t, ⟨hm, ho⟩, hn⟩)
    · have : t.omitted = none := by simpa using ho
      exact ⟨t, ⟨hm, by simp [this]⟩, hn⟩
    · have : t.omitted = some p := by simpa using ho
      exact ⟨t, ⟨hm, by simp [this, hp]⟩, hn⟩
  · rintro ⟨t, ⟨hm, ho⟩, hn⟩
    cases h : t.omitted with
    | none => exact Or.inl ⟨t, ⟨hm, by simp [h]⟩, hn⟩
    | some c =>
      rw [h] at ho
      exact Or.inr ⟨c, by simpa using ho, t, ⟨hm, by simp [h]⟩, hn⟩

theorem mem_permissionedTagmapsRev (p : String) (ls : List ULevel) :
    p ∈ permissionedTagmapsRev ls ↔ p ∈ ls.flatMap (·.ownCallers) := by
  induction ls with
  | nil => simp [permissionedTagmapsRev]
  | cons l parents ih =>
    unfold permissionedTagmapsRev
    simp only
    by_cases h : (dedup (l.ownCallers ++ dedup (parents.flatMap (·.ownCallers)))).isEmpty = true
    · rw [if_pos h, ih]
      have hnil : dedup (l.ownCallers ++ dedup (parents.flatMap (·.ownCallers))) = [] := by
        simpa using h
      have hall : ∀ q, ¬ q ∈ l.ownCallers ++ dedup (parents.flatMap (·.ownCallers)) := by
        intro q hq
        have := (mem_dedup q _).2 hq
        rw [hnil] at this
        simp at this
      have h1 := hall p
      simp only [List.mem_append, mem_dedup, not_or] at h1
      simp [h1.1, h1.2]
    · rw [if_neg h]
      simp [mem_dedup]

/-- `Union.__init__` finds the validator of every tag declared along the chain, whatever caller class
it is omitted for. -/
theorem ctorValidator_isSome (u : UnionDef) (t : TagDef) (ht : t ∈ u.levels.flatMap (·.tags)) :
    (u.ctorValidator t.name).isSome = true := by
  simp only [UnionDef.ctorValidator, Option.isSome_map, findTag_isSome, UnionDef.tagmapAttr,
    tagmapAttrRev_getD, UnionDef.permissionedTagmaps]
  refine ⟨t, ?_, rfl⟩
  have ht' : t ∈ u.levels.reverse.flatMap (·.tags) := by
    simp only [List.mem_flatMap, List.mem_reverse] at ht ⊢
    exact ht
  rw [List.mem_append]
  cases h : t.omitted with
  | none => exact Or.inl (by simp [List.mem_filter, ht', h])
  | some p =>
    right
    rw [List.mem_flatMap]
    refine ⟨p, ?_, by simp [List.mem_filter, ht', h]⟩
    rw [mem_permissionedTagmapsRev, mem_flatMap_uownCallers]
    exact ⟨t, ht', h⟩

/-! #### unique names -/

theorem not_startsWith_tag_of_not_startsWith_dot (s : String) (h : s.startsWith "." = false) :
    s.startsWith ".tag" = false := by
  rw [String.startsWith_string_eq_false_iff] at *
  intro hp
  apply h
  refine List.IsPrefix.trans ?_ hp
  simp

theorem eq_of_name_eq_of_nodupS {α} (nm : α → String) (xs : List α) (hnd : nodupS (xs.map nm) = true)
    {f g : α} (hf : f ∈ xs) (hg : g ∈ xs) (h : nm f = nm g) : f = g := by
  induction xs with
  | nil => cases hf
  | cons x xs ih =>
    simp only [List.map_cons, nodupS, Bool.and_eq_true, Bool.not_eq_true'] at hnd
    have hx : ∀ y ∈ xs, nm y ≠ nm x := by
      intro y hy he
      have : (xs.map nm).contains (nm x) = true := by
        simp only [List.contains_iff_mem, List.mem_map]
        exact ⟨y, hy, he⟩
      rw [this] at hnd
      exact absurd hnd.1 (by simp)
    rcases List.mem_cons.1 hf with rfl | hf'
    · rcases List.mem_cons.1 hg with rfl | hg'
      · rfl
      · exact absurd h.symm (hx g hg')
    · rcases List.mem_cons.1 hg with rfl | hg'
      · exact absurd h (hx f hf')
      · exact ih hnd.2 hf' hg'

/-- A field omitted for a caller class the caller holds is in the caller's table. -/
theorem mem_fieldsFor_of_perm (s : StructDef) (perms : List String) (f : FieldDef) (c : String)
    (hf : f ∈ s.allAttrs) (ho : f.omitted = some c) (hc : c ∈ perms) : f ∈ s.fieldsFor perms := by
  rw [mem_fieldsFor]
  simp only [StructDef.fieldsSpec, List.mem_filter]
  exact ⟨hf, by simp [ho, hc]⟩

/-- Under unique field names, the name of a field omitted for a caller class the caller does not hold
is not the name of any field of the caller's table. -/
theorem name_not_in_fieldsFor (s : StructDef) (perms : List String) (f : FieldDef) (c : String)
    (hnd : nodupS (s.allAttrs.map (·.name)) = true)
    (hf : f ∈ s.allAttrs) (ho : f.omitted = some c) (hc : ¬ c ∈ perms) :
    ¬ f.name ∈ (s.fieldsFor perms).map (·.name) := by
  intro hm
  obtain ⟨g, hg, hn⟩ := List.mem_map.1 hm
  rw [mem_fieldsFor] at hg
  simp only [StructDef.fieldsSpec, List.mem_filter] at hg
  have hgf : g = f := eq_of_name_eq_of_nodupS (·.name) s.allAttrs hnd hg.1 hf hn
  have h2 := hg.2
  rw [hgf, ho] at h2
  exact hc (by simpa using h2)

/-- Under unique tag names, a tag omitted for a caller class the caller does not hold is not present. -/
theorem isTagPresent_false_of_omitted (u : UnionDef) (perms : List String) (t : TagDef) (c : String)
    (hnd : nodupS ((u.levels.flatMap (·.tags)).map (·.name)) = true)
    (ht : t ∈ u.levels.flatMap (·.tags)) (ho : t.omitted = some c) (hc : ¬ c ∈ perms) :
    u.isTagPresent t.name perms = false := by
  rw [Bool.eq_false_iff]
  intro h
  obtain ⟨g, hg, hn⟩ := (isTagPresent_iff u t.name perms).1 h
  simp only [UnionDef.tagsSpec, List.mem_filter] at hg
  have hgt : g = t := eq_of_name_eq_of_nodupS (·.name) _ hnd hg.1 ht hn
  have h2 := hg.2
  rw [hgt, ho] at h2
  exact hc (by simpa using h2)

theorem isTagPresent_of_perm (u : UnionDef) (perms : List String) (t : TagDef) (c : String)
    (ht : t ∈ u.levels.flatMap (·.tags)) (ho : t.omitted = some c) (hc : c ∈ perms) :
    u.isTagPresent t.name perms = true := by
  rw [isTagPresent_iff]
  refine ⟨t, ?_, rfl⟩
  simp only [UnionDef.tagsSpec, List.mem_filter]
  exact ⟨ht, by simp [ho, hc]⟩

/-! ### Part 2: keys of encoded structs, inversion of `encode` at user types -/

@[simp] theorem PTy.flags_struct (fl : Flags) (cls : String) : (PTy.struct fl cls).flags = fl := rfl
@[simp] theorem PTy.flags_tree (fl : Flags) (cls : String) : (PTy.tree fl cls).flags = fl := rfl
@[simp] theorem PTy.flags_union (fl : Flags) (cls : String) : (PTy.union fl cls).flags = fl := rfl

theorem assembleStruct_keys (fields : List FieldDef) (slots : List (String × PyVal)) (enc : List (String × R JVal))
    (kvs : List (String × JVal)) (h : assembleStruct fields slots enc = .ok kvs) :
    ∀ k ∈ kvs.map (·.1), k ∈ fields.map (·.name) := by
  induction fields generalizing kvs with
  | nil => simp [assembleStruct] at h; subst h; simp
  | cons f rest ih =>
    unfold assembleStruct at h
    split at h
    · simp [verr] at h
    · split at h
      · rename_i r _
        cases r with
        | error e => simp [bind, Except.bind] at h
        | ok j =>
          cases hm : assembleStruct rest slots enc with
          | error e => simp [hm, bind, Except.bind] at h
          | ok more =>
            simp [hm, bind, Except.bind, pure, Except.pure] at h
            subst h
            intro k hk
            simp only [List.map_cons, List.mem_cons] at hk ⊢
            rcases hk with rfl | hk
            · exact Or.inl rfl
            · exact Or.inr (ih more hm k hk)
      · intro k hk
        exact List.mem_cons_of_mem _ (ih kvs h k hk)


theorem assembleStruct_has_key (fields : List FieldDef) (slots : List (String × PyVal)) (enc : List (String × R JVal))
    (kvs : List (String × JVal)) (h : assembleStruct fields slots enc = .ok kvs)
    (f : FieldDef) (hf : f ∈ fields) (he : (lookupEnc f.name enc).isSome = true) :
    f.name ∈ kvs.map (·.1) := by
  induction fields generalizing kvs with
  | nil => cases hf
  | cons g rest ih =>
    unfold assembleStruct at h
    split at h
    · simp [verr] at h
    · split at h
      · rename_i r _
        cases r with
        | error e => simp [bind, Except.bind] at h
        | ok j =>
          cases hm : assembleStruct rest slots enc with
          | error e => simp [hm, bind, Except.bind] at h
          | ok more =>
            simp [hm, bind, Except.bind, pure, Except.pure] at h
            subst h
            simp only [List.map_cons, List.mem_cons]
            rcases List.mem_cons.1 hf with rfl | hf'
            · exact Or.inl rfl
            · exact Or.inr (ih more hm hf')
      · rename_i hnone
        rcases List.mem_cons.1 hf with rfl | hf'
        · rw [hnone] at he; simp at he
        · exact ih kvs h hf'

theorem lookupEnc_encodeSlots_isSome (E : Ext) (env : Env) (perms : List String) (redact : Bool)
    (fields : List FieldDef) (slots : List (String × PyVal)) (f : FieldDef) (hf : f ∈ fields)
    (x : PyVal) (hx : lookupSlot f.name slots = some x) (hnn : isNone x = false) :
    (lookupEnc f.name (encodeSlots E env perms redact fields slots)).isSome = true := by
  induction slots with
  | nil => simp [lookupSlot] at hx
  | cons kv rest ih =>
    obtain ⟨k, y⟩ := kv
    unfold lookupSlot at hx
    unfold encodeSlots
    by_cases hk : k = f.name
    · subst hk
      simp only [beq_self_eq_true, if_true, Option.some.injEq] at hx
      subst hx
      have hfind : (fields.find? (·.name == f.name)).isSome = true := by
        rw [List.find?_isSome]
        exact ⟨f, hf, by simp⟩
      cases hfd : fields.find? (·.name == f.name) with
      | none => rw [hfd] at hfind; simp at hfind
      | some g =>
        simp only [hnn]
        simp [lookupEnc]
    · have hk' : (k == f.name) = false := by simpa using hk
      simp only [hk'] at hx
      have := ih hx
      split
      · split
        · exact this
        · simp only [lookupEnc, hk']
          exact this
      · exact this

theorem valDataType_spec (u : UnionDef) (tag : String) (perms : List String) (ft : PTy)
    (h : u.valDataType tag perms = some ft) :
    ∃ t ∈ u.tagsSpec perms, t.name = tag ∧ t.ty = ft := by
  unfold UnionDef.valDataType at h
  split at h
  · rename_i t ht
    simp only [Option.some.injEq] at h
    obtain ⟨p, hp, hpt⟩ := List.exists_of_findSome?_eq_some ht
    have hget : findTag tag ((u.tagmapAttr (some p)).getD []) = some t := by
      cases hm : u.tagmapAttr (some p) with
      | none => simp [hm] at hpt
      | some m => simpa [hm] using hpt
    simp only [UnionDef.tagmapAttr, tagmapAttrRev_getD] at hget
    obtain ⟨hmem, hname⟩ := findTag_some_mem hget
    simp only [List.mem_filter, List.mem_flatMap, List.mem_reverse] at hmem
    have ho : t.omitted = some p := by simpa using hmem.2
    refine ⟨t, ?_, hname, h⟩
    simp only [UnionDef.tagsSpec, List.mem_filter, List.mem_flatMap]
    exact ⟨hmem.1, by simp [ho, hp]⟩
  · simp only [Option.map_eq_some_iff] at h
    obtain ⟨t, hpt, hty⟩ := h
    have hget : findTag tag ((u.tagmapAttr none).getD []) = some t := by
      cases hm : u.tagmapAttr none with
      | none => simp [hm] at hpt
      | some m => simpa [hm] using hpt
    simp only [UnionDef.tagmapAttr, tagmapAttrRev_getD] at hget
    obtain ⟨hmem, hname⟩ := findTag_some_mem hget
    simp only [List.mem_filter, List.mem_flatMap, List.mem_reverse] at hmem
    have ho : t.omitted = none := by simpa using hmem.2
    refine ⟨t, ?_, hname, hty⟩
    simp only [UnionDef.tagsSpec, List.mem_filter, List.mem_flatMap]
    exact ⟨hmem.1, by simp [ho]⟩

/-- strict `decode_struct`: a member whose key is neither a field of the caller's table nor starts
with ".tag" is refused -/
theorem finishStruct_unknown (E : Ext) (env : Env) (perms : List String) (cls : String) (s : StructDef)
    (kvs : List (String × JVal)) (children : List (String × R PyVal)) (hs : env.struct? cls = some s)
    (k : String) (x : JVal) (hk : (k, x) ∈ kvs)
    (hnot : ¬ k ∈ (s.fieldsFor perms).map (·.name)) (htag : k.startsWith ".tag" = false) :
    finishStruct E env perms true cls kvs children = .error (.verr "unknown field") := by
  unfold finishStruct
  simp only [hs, Bool.true_and]
  have hany : (kvs.any fun (k, _) => !((s.fieldsFor perms).map (·.name)).contains k && !k.startsWith ".tag") = true := by
    rw [List.any_eq_true]
    refine ⟨(k, x), hk, ?_⟩
    simp only [Bool.and_eq_true, Bool.not_eq_true', htag, and_true]
    simpa using hnot
  rw [if_pos hany]
  rfl

theorem decode_struct_obj_eq (E : Ext) (env : Env) (perms : List String) (strict : Bool) (fl : Flags) (cls : String)
    (kvs : List (String × JVal)) :
    decode E env perms strict (.struct fl cls) (.obj kvs) =
      finishStruct E env perms strict cls kvs
        (decodeMembers E env perms strict (memberTable env perms strict (.struct fl cls) kvs) kvs) := by
  unfold decode
  simp

theorem redactValue_obj_dict {E : Ext} {r : Redactor} {v : PyVal} {kvs : List (String × JVal)}
    (h : redactValue E r v = .ok (.obj kvs)) : ∃ d, v = .dict d := by
  unfold redactValue at h
  split at h
  · simp at h
  · exact ⟨_, rfl⟩
  · exfalso
    simp only [Except.ok.injEq] at h
    unfold redactApply at h
    repeat' split at h
    all_goals simp at h

/-- inversion of a successful `encode` at a plain struct validator -/
theorem encode_struct_inv {E : Ext} {env : Env} {perms : List String} {redact norm : Bool} {fl : Flags}
    {cls : String} {v : PyVal} {j : JVal}
    (h : encode E env perms redact norm (.struct fl cls) v = .ok j) :
    (redact = true ∧ ∃ r, redactValue E r v = .ok j) ∨
    (fl.nullable = true ∧ isNone v = true ∧ j = .null) ∨
    (∃ c slots s kvs, v = .struct c slots ∧ env.struct? cls = some s ∧
      assembleStruct (s.fieldsFor perms) slots (encodeSlots E env perms redact (s.fieldsFor perms) slots) = .ok kvs ∧
      j = .obj kvs) := by
  unfold encode at h
  dsimp only [PTy.flags_struct] at h
  split at h
  · rename_i r hr
    left
    cases redact
    · simp at hr
    · exact ⟨rfl, r, h⟩
  · by_cases hn : (fl.nullable && isNone v) = true
    · rw [if_pos hn] at h
      right; left
      simp only [Bool.and_eq_true] at hn
      simp only [Except.ok.injEq] at h
      exact ⟨hn.1, hn.2, h.symm⟩
    · rw [if_neg hn] at h
      split at h
      · simp at h
      · split at h
        · rename_i r hr
          left
          cases redact
          · simp at hr
          · exact ⟨rfl, r, h⟩
        · split at h
          · simp at h
          · split at h
            · split at h
              · rename_i c slots _ _ _ s hs
                right; right
                cases ha : assembleStruct (s.fieldsFor perms) slots
                    (encodeSlots E env perms redact (s.fieldsFor perms) slots) with
                | error e => simp [ha, Except.map] at h
                | ok kvs =>
                  simp only [ha, Except.map, Except.ok.injEq] at h
                  exact ⟨c, slots, s, kvs, rfl, hs, ha, h.symm⟩
              · simp [crash] at h
            · simp [crash] at h

theorem encode_tree_inv {E : Ext} {env : Env} {perms : List String} {redact norm : Bool} {fl : Flags}
    {cls : String} {v : PyVal} {j : JVal}
    (h : encode E env perms redact norm (.tree fl cls) v = .ok j) :
    (redact = true ∧ ∃ r, redactValue E r v = .ok j) ∨
    (fl.nullable = true ∧ isNone v = true ∧ j = .null) ∨
    (∃ c slots s tag sd kvs, v = .struct c slots ∧ env.struct? cls = some s ∧
      ([tag], c, false) ∈ s.subtypes.getD [] ∧ env.struct? c = some sd ∧
      assembleStruct (sd.fieldsFor perms) slots (encodeSlots E env perms redact (sd.fieldsFor perms) slots) = .ok kvs ∧
      j = .obj ((".tag", .str tag) :: kvs)) := by
  unfold encode at h
  dsimp only [PTy.flags_tree] at h
  split at h
  · rename_i r hr
    left
    cases redact
    · simp at hr
    · exact ⟨rfl, r, h⟩
  · by_cases hn : (fl.nullable && isNone v) = true
    · rw [if_pos hn] at h
      right; left
      simp only [Bool.and_eq_true] at hn
      simp only [Except.ok.injEq] at h
      exact ⟨hn.1, hn.2, h.symm⟩
    · rw [if_neg hn] at h
      split at h
      · simp at h
      · split at h
        · rename_i r hr
          left
          cases redact
          · simp at hr
          · exact ⟨rfl, r, h⟩
        · split at h
          · simp at h
          · split at h
            · split at h
              · split at h
                · simp [crash] at h
                · split at h
                  · split at h
                    · simp [crash] at h
                    · split at h
                      · rename_i c slots _ _ _ s hs _ sc isTree _ tag hfind hnt _ sd hsd
                        right; right
                        have hsc := List.find?_some hfind
                        have hmem := List.mem_of_find?_eq_some hfind
                        have hsc' : sc = c := by simpa using hsc
                        have hit : isTree = false := by simpa using hnt
                        subst hsc' hit
                        cases ha : assembleStruct (sd.fieldsFor perms) slots
                            (encodeSlots E env perms redact (sd.fieldsFor perms) slots) with
                        | error e => simp [ha, Except.map] at h
                        | ok kvs =>
                          simp only [ha, Except.map, Except.ok.injEq] at h
                          exact ⟨sc, slots, s, tag, sd, kvs, rfl, hs, hmem, hsd, ha, h.symm⟩
                      · simp [crash] at h
                  · simp [crash] at h
              · simp [crash] at h
            · simp [crash] at h


theorem encode_union_inv {E : Ext} {env : Env} {perms : List String} {redact norm : Bool} {fl : Flags}
    {cls : String} {v : PyVal} {j : JVal}
    (h : encode E env perms redact norm (.union fl cls) v = .ok j) :
    (redact = true ∧ ∃ r, redactValue E r v = .ok j) ∨
    (fl.nullable = true ∧ isNone v = true ∧ j = .null) ∨
    (∃ c tag payload u ft, v = .union c tag payload ∧ env.union? cls = some u ∧
      u.isTagPresent tag perms = true ∧ u.valDataType tag perms = some ft ∧
      (j = .obj [(".tag", .str tag)] ∨
       ∃ j', encode E env perms redact false ft payload = .ok j' ∧
         ((∃ fl' sc kvs, ft = .struct fl' sc ∧ j' = .obj kvs ∧ j = .obj ((".tag", .str tag) :: kvs)) ∨
          j = .obj [(".tag", .str tag), (tag, j')]))) := by
  unfold encode at h
  dsimp only [PTy.flags_union] at h
  split at h
  · rename_i r hr
    left
    cases redact
    · simp at hr
    · exact ⟨rfl, r, h⟩
  · by_cases hn : (fl.nullable && isNone v) = true
    · rw [if_pos hn] at h
      right; left
      simp only [Bool.and_eq_true] at hn
      simp only [Except.ok.injEq] at h
      exact ⟨hn.1, hn.2, h.symm⟩
    · rw [if_neg hn] at h
      split at h
      · simp at h
      · split at h
        · rename_i r hr
          left
          cases redact
          · simp at hr
          · exact ⟨rfl, r, h⟩
        · split at h
          · simp at h
          · split at h
            · split at h
              · split at h
                · simp [verr] at h
                · split at h
                  · simp [crash] at h
                  · rename_i c tag payload _ _ _ u hu hpres _ ft hft
                    right; right
                    have hpres' : u.isTagPresent tag perms = true := by simpa using hpres
                    refine ⟨c, tag, payload, u, ft, rfl, hu, hpres', hft, ?_⟩
                    by_cases hc : ((match (generalizing := false) ft with | .void _ => true | _ => false) ||
                        (ft.flags.nullable && isNone payload)) = true
                    · left
                      rw [if_pos] at h
                      · simp only [Except.ok.injEq] at h
                        exact h.symm
                      · exact hc
                    · right
                      rw [if_neg] at h
                      rotate_left
                      · exact hc
                      split at h
                      · simp at h
                      · rename_i j' hj'
                        refine ⟨j', hj', ?_⟩
                        split at h
                        · left
                          split at h
                          · rename_i fl' sc _ kvs
                            simp only [Except.ok.injEq] at h
                            exact ⟨fl', sc, kvs, rfl, rfl, h.symm⟩
                          · simp [crash] at h
                          · simp [crash] at h
                        · right
                          simp only [Except.ok.injEq] at h
                          exact h.symm
              · simp [crash] at h
            · simp [crash] at h


theorem validate_union (E : Ext) (env : Env) (fl : Flags) (cls : String) (v : PyVal) :
    validate E env (.union fl cls) v =
      if fl.nullable && isNone v then .ok .none
      else if unionTypeOk env cls v then .ok v else verr "expected union type" := by
  unfold validate
  cases v <;> rfl

theorem validateTypeOnly_union (env : Env) (fl : Flags) (cls : String) (v : PyVal) :
    validateTypeOnly env (.union fl cls) v =
      if fl.nullable && isNone v then .ok ()
      else if unionTypeOk env cls v then .ok () else verr "expected union type" := by
  unfold validateTypeOnly
  cases v <;> rfl

theorem encode_union_tag_absent (E : Ext) (env : Env) (perms : List String) (redact norm : Bool) (fl : Flags)
    (cls c tag : String) (payload : PyVal) (u : UnionDef)
    (hu : env.union? cls = some u) (hp : u.isTagPresent tag perms = false)
    (hnr : redact = false ∨ (fl.redactInner = none ∧ (fl.nullable = true → fl.redactOuter = none))) :
    ∃ hint, encode E env perms redact norm (.union fl cls) (.union c tag payload) = .error (.verr hint) := by
  have h1 : (if redact = true then (if fl.nullable = true then fl.redactOuter else fl.redactInner) else none) = none := by
    rcases hnr with h | ⟨hi, ho⟩
    · simp [h]
    · by_cases hn : fl.nullable = true
      · simp [hn, ho hn]
      · simp [hn, hi]
  have h2 : (if (redact && fl.nullable) = true then fl.redactInner else none) = none := by
    rcases hnr with h | ⟨hi, _⟩
    · simp [h]
    · simp [hi]
  unfold encode
  dsimp only [PTy.flags_union]
  rw [h1]
  dsimp only
  simp only [isNone, Bool.and_false, Bool.false_eq_true, if_false]
  have hv : (if fl.nullable = true then validate E env (.union fl cls) (.union c tag payload)
      else .ok (.union c tag payload)) = .ok (.union c tag payload) ∨
      ∃ hint, (if fl.nullable = true then validate E env (.union fl cls) (.union c tag payload)
      else .ok (.union c tag payload)) = .error (.verr hint) := by
    by_cases hn : fl.nullable = true
    · simp only [hn, if_true]
      rw [validate_union]
      simp only [isNone, Bool.and_false, Bool.false_eq_true, if_false]
      split
      · exact Or.inl rfl
      · exact Or.inr ⟨_, rfl⟩
    · simp [hn]
  rcases hv with hv | ⟨hint, hv⟩
  · rw [hv]
    dsimp only
    rw [h2]
    dsimp only
    simp only [PTy.withFlags, validateTypeOnly_union, isNone, Bool.and_false, Bool.false_eq_true, if_false]
    by_cases hvt : unionTypeOk env cls (.union c tag payload) = true
    · simp only [hvt, if_true, hu, hp]
      exact ⟨_, rfl⟩
    · simp only [hvt]
      exact ⟨_, rfl⟩
  · rw [hv]
    exact ⟨_, rfl⟩

/-! ### Part 3: redaction -/

theorem encode_redact_outer (E : Ext) (env : Env) (perms : List String) (norm : Bool) (t : PTy) (v : PyVal)
    (r : Redactor) (hr : t.outerRedactor = some r) :
    encode E env perms true norm t v = redactValue E r v := by
  unfold PTy.outerRedactor at hr
  unfold encode
  simp only [if_true, hr]

theorem encode_redact_inner (E : Ext) (env : Env) (perms : List String) (norm : Bool) (t : PTy) (v w : PyVal)
    (r : Redactor) (hn : t.flags.nullable = true) (ho : t.flags.redactOuter = none)
    (hi : t.flags.redactInner = some r) (hv : isNone v = false) (hval : validate E env t v = .ok w) :
    encode E env perms true norm t v = redactValue E r v := by
  unfold encode
  simp only [if_true, hn, ho, hv, Bool.and_false, Bool.false_eq_true, if_false, hval, Bool.and_self, hi]

/-- With redaction requested, a value at a type carrying a redactor never reaches the clear-text
branches of `encode`: the result is the redaction, `null` for None under a Nullable, or the error of
the Nullable validation. -/
theorem encode_redact_top (E : Ext) (env : Env) (perms : List String) (norm : Bool) (t : PTy) (v : PyVal)
    (r : Redactor) (hr : t.topRedactor = some r) :
    encode E env perms true norm t v = redactValue E r v ∨
    (isNone v = true ∧ encode E env perms true norm t v = .ok .null) ∨
    ∃ e, validate E env t v = .error e ∧ encode E env perms true norm t v = .error e := by
  unfold PTy.topRedactor at hr
  cases ho : t.outerRedactor with
  | some r' =>
    rw [ho] at hr
    cases hr
    exact Or.inl (encode_redact_outer E env perms norm t v _ ho)
  | none =>
    rw [ho] at hr
    simp only at hr
    by_cases hn : t.flags.nullable = true
    · simp only [hn, if_true] at hr
      have ho' : t.flags.redactOuter = none := by
        simpa [PTy.outerRedactor, hn] using ho
      by_cases hv : isNone v = true
      · right; left
        refine ⟨hv, ?_⟩
        unfold encode
        simp only [if_true, hn, ho', hv, Bool.and_self]
      · have hv' : isNone v = false := by simpa using hv
        cases hval : validate E env t v with
        | ok w => exact Or.inl (encode_redact_inner E env perms norm t v w r hn ho' hr hv' hval)
        | error e =>
          right; right
          refine ⟨e, rfl, ?_⟩
          unfold encode
          simp only [if_true, hn, ho', hv', Bool.and_false, Bool.false_eq_true, if_false, hval]
    · simp [hn] at hr

theorem redactApply_blot_none (E : Ext) (v : PyVal) : redactApply E (.blot none) v = blotMask := by
  simp [redactApply, redactMatches, blotMask]

theorem redactDict_ok_of_stringKeyed (E : Ext) (r : Redactor) (kvs : List (PyVal × PyVal))
    (h : stringKeyed (.dict kvs) = true) : ∃ out, redactDict E r kvs = .ok out := by
  induction kvs with
  | nil => exact ⟨[], rfl⟩
  | cons kv rest ih =>
    obtain ⟨k, x⟩ := kv
    simp only [stringKeyed, List.all_cons, Bool.and_eq_true] at h ih
    obtain ⟨out, hout⟩ := ih h.2
    cases k with
    | str s => exact ⟨(s, redactApply E r x) :: out, by simp [redactDict, hout, bind, Except.bind, pure, Except.pure]⟩
    | _ => simp at h

/-- every value of a redacted dictionary is the redaction of a value of the dictionary -/
theorem redactDict_values (E : Ext) (r : Redactor) (kvs : List (PyVal × PyVal)) (out : List (String × JVal))
    (h : redactDict E r kvs = .ok out) :
    out.length = kvs.length ∧ ∀ kj ∈ out, ∃ x, (PyVal.str kj.1, x) ∈ kvs ∧ kj.2 = redactApply E r x := by
  induction kvs generalizing out with
  | nil => simp [redactDict] at h; subst h; simp
  | cons kv rest ih =>
    obtain ⟨k, x⟩ := kv
    cases k with
    | str s =>
      simp only [redactDict] at h
      cases hr : redactDict E r rest with
      | error e => simp [hr, bind, Except.bind] at h
      | ok out' =>
        simp [hr, bind, Except.bind, pure, Except.pure] at h
        subst h
        obtain ⟨hl, hv⟩ := ih out' hr
        refine ⟨by simp [hl], ?_⟩
        intro kj hkj
        rcases List.mem_cons.1 hkj with rfl | hkj
        · exact ⟨x, List.mem_cons_self, rfl⟩
        · obtain ⟨y, hy, he⟩ := hv kj hkj
          exact ⟨y, List.mem_cons_of_mem _ hy, he⟩
    | _ => simp [redactDict, crash] at h

theorem redactValue_ok_of_stringKeyed (E : Ext) (r : Redactor) (v : PyVal) (h : stringKeyed v = true) :
    ∃ j, redactValue E r v = .ok j := by
  unfold redactValue
  split
  · exact ⟨_, rfl⟩
  · rename_i kvs
    obtain ⟨out, hout⟩ := redactDict_ok_of_stringKeyed E r kvs h
    exact ⟨.obj out, by simp [hout, Except.map]⟩
  · exact ⟨_, rfl⟩

theorem encodeList_redacted (E : Ext) (env : Env) (perms : List String) (t : PTy) (r : Redactor)
    (hr : t.outerRedactor = some r) (xs : List PyVal) :
    encodeList E env perms true t xs = xs.mapM (redactValue E r) := by
  induction xs with
  | nil => simp [encodeList, pure, Except.pure]
  | cons x xs ih =>
    unfold encodeList
    rw [List.mapM_cons, encode_redact_outer E env perms true t x r hr, ih]

theorem encodeDict_values_redacted (E : Ext) (env : Env) (perms : List String) (kt vt : PTy) (r : Redactor)
    (hr : vt.outerRedactor = some r) (kvs : List (PyVal × PyVal)) (out : List (String × JVal))
    (h : encodeDict E env perms true kt vt kvs = .ok out) :
    out.length = kvs.length ∧ ∀ kj ∈ out, ∃ kx ∈ kvs, redactValue E r kx.2 = .ok kj.2 := by
  induction kvs generalizing out with
  | nil => simp [encodeDict] at h; subst h; simp
  | cons kv rest ih =>
    obtain ⟨k, x⟩ := kv
    unfold encodeDict at h
    rw [encode_redact_outer E env perms true vt x r hr] at h
    cases hk : encode E env perms true true kt k with
    | error e => simp [hk, bind, Except.bind] at h
    | ok kj =>
      cases hx : redactValue E r x with
      | error e => simp [hk, hx, bind, Except.bind] at h
      | ok xj =>
        cases hrest : encodeDict E env perms true kt vt rest with
        | error e => simp [hk, hx, hrest, bind, Except.bind] at h
        | ok out' =>
          simp only [hk, hx, hrest, bind, Except.bind] at h
          obtain ⟨hl, hv⟩ := ih out' hrest
          cases kj with
          | str ks =>
            simp only [pure, Except.pure, Except.ok.injEq] at h
            subst h
            refine ⟨by simp [hl], ?_⟩
            intro p hp
            rcases List.mem_cons.1 hp with rfl | hp
            · exact ⟨(k, x), List.mem_cons_self, hx⟩
            · obtain ⟨kx, hkx, he⟩ := hv p hp
              exact ⟨kx, List.mem_cons_of_mem _ hkx, he⟩
          | _ => simp [crash] at h



theorem assembleStruct_entry (fields : List FieldDef) (slots : List (String × PyVal)) (enc : List (String × R JVal))
    (kvs : List (String × JVal)) (h : assembleStruct fields slots enc = .ok kvs)
    (k : String) (j : JVal) (hkj : (k, j) ∈ kvs) :
    ∃ f ∈ fields, f.name = k ∧ lookupEnc k enc = some (.ok j) := by
  induction fields generalizing kvs with
  | nil => simp [assembleStruct] at h; subst h; cases hkj
  | cons g rest ih =>
    unfold assembleStruct at h
    split at h
    · simp [verr] at h
    · split at h
      · rename_i r hr
        cases r with
        | error e => simp [bind, Except.bind] at h
        | ok j' =>
          cases hm : assembleStruct rest slots enc with
          | error e => simp [hm, bind, Except.bind] at h
          | ok more =>
            simp [hm, bind, Except.bind, pure, Except.pure] at h
            subst h
            rcases List.mem_cons.1 hkj with he | hkj'
            · cases he
              exact ⟨g, List.mem_cons_self, rfl, hr⟩
            · obtain ⟨f, hf, hn, hl⟩ := ih more hm hkj'
              exact ⟨f, List.mem_cons_of_mem _ hf, hn, hl⟩
      · obtain ⟨f, hf, hn, hl⟩ := ih kvs h hkj
        exact ⟨f, List.mem_cons_of_mem _ hf, hn, hl⟩

theorem lookupEnc_encodeSlots_inv (E : Ext) (env : Env) (perms : List String) (redact : Bool)
    (fields : List FieldDef) (slots : List (String × PyVal)) (k : String) (rj : R JVal)
    (h : lookupEnc k (encodeSlots E env perms redact fields slots) = some rj) :
    ∃ g x, fields.find? (·.name == k) = some g ∧ (k, x) ∈ slots ∧ isNone x = false ∧
      rj = encode E env perms redact false g.ty x := by
  induction slots with
  | nil => simp [encodeSlots, lookupEnc] at h
  | cons kv rest ih =>
    obtain ⟨k', y⟩ := kv
    have lift : (∃ g x, fields.find? (·.name == k) = some g ∧ (k, x) ∈ rest ∧ isNone x = false ∧
        rj = encode E env perms redact false g.ty x) →
        ∃ g x, fields.find? (·.name == k) = some g ∧ (k, x) ∈ (k', y) :: rest ∧ isNone x = false ∧
        rj = encode E env perms redact false g.ty x := by
      rintro ⟨g, x, h1, h2, h3, h4⟩
      exact ⟨g, x, h1, List.mem_cons_of_mem _ h2, h3, h4⟩
    unfold encodeSlots at h
    split at h
    · rename_i g hg
      by_cases hy : isNone y = true
      · rw [if_pos hy] at h
        exact lift (ih h)
      · rw [if_neg hy] at h
        unfold lookupEnc at h
        by_cases hk : k' = k
        · subst hk
          simp only [beq_self_eq_true, if_true, Option.some.injEq] at h
          exact ⟨g, y, hg, List.mem_cons_self, by simpa using hy, h.symm⟩
        · have hk' : (k' == k) = false := by simpa using hk
          simp only [hk'] at h
          exact lift (ih h)
    · exact lift (ih h)

/-- the JSON stored under a key whose field carries a redactor is the redaction of a slot value -/
theorem redacted_field_entry (E : Ext) (env : Env) (perms : List String)
    (fields : List FieldDef) (slots : List (String × PyVal)) (kvs : List (String × JVal))
    (h : assembleStruct fields slots (encodeSlots E env perms true fields slots) = .ok kvs)
    (k : String) (j : JVal) (hkj : (k, j) ∈ kvs) (r : Redactor)
    (hr : ∀ g ∈ fields, g.name = k → g.ty.topRedactor = some r) :
    ∃ x, (k, x) ∈ slots ∧ redactValue E r x = .ok j := by
  obtain ⟨f, _, _, hl⟩ := assembleStruct_entry _ _ _ _ h k j hkj
  obtain ⟨g, x, hg, hx, hnn, he⟩ := lookupEnc_encodeSlots_inv E env perms true fields slots k _ hl
  have hgm := List.mem_of_find?_eq_some hg
  have hgn : g.name = k := by simpa using List.find?_some hg
  refine ⟨x, hx, ?_⟩
  rcases encode_redact_top E env perms false g.ty x r (hr g hgm hgn) with h1 | ⟨h1, _⟩ | ⟨e, _, h1⟩
  · rw [← h1, ← he]
  · rw [hnn] at h1; cases h1
  · rw [← he] at h1; cases h1


/-! #### strict decoding of a tag the caller may not see -/


theorem decode_union_str_absent (E : Ext) (env : Env) (perms : List String) (fl : Flags) (cls tag : String)
    (u : UnionDef) (hu : env.union? cls = some u) (hp : u.isTagPresent tag perms = false) :
    decode E env perms true (.union fl cls) (.str tag) = .error (.verr "unknown tag") := by
  unfold decode
  simp [hu, hp, verr]

theorem decode_union_obj_absent (E : Ext) (env : Env) (perms : List String) (fl : Flags) (cls tag : String)
    (kvs : List (String × JVal))
    (u : UnionDef) (hu : env.union? cls = some u) (ht : jsonLookup ".tag" kvs = some (.str tag))
    (hp : u.isTagPresent tag perms = false) :
    decode E env perms true (.union fl cls) (.obj kvs) = .error (.verr "unknown tag") := by
  unfold decode
  simp [hu, hp, ht, verr]

/-! ### Part 4: where the generated validators carry the redactor of an alias -/


theorem withFlags_flags (fl : Flags) (t : PTy) : (t.withFlags fl).flags = fl := by
  cases t <;> rfl

theorem setRedact_outerRedactor (r : Redactor) (t : PTy) : (setRedact (some r) t).outerRedactor = some r := by
  unfold setRedact PTy.outerRedactor
  by_cases h : t.flags.nullable = true
  · simp [h, withFlags_flags]
  · simp [h, withFlags_flags]

theorem setRedact_nullable (r : Option Redactor) (t : PTy) : (setRedact r t).flags.nullable = t.flags.nullable := by
  unfold setRedact
  cases r with
  | none => rfl
  | some r =>
    by_cases h : t.flags.nullable = true
    · simp [h, withFlags_flags]
    · simp [h, withFlags_flags]

/-- validators the generator builds: a non-nullable validator object has no wrapper redactor -/
theorem validatorOf_redactOuter (t : IrTy) (T : PTy) (h : validatorOf t = some T)
    (hn : T.flags.nullable = false) : T.flags.redactOuter = none := by
  induction t generalizing T with
  | bool | str | bytes | ts | void | union => simp [validatorOf] at h; subst h; rfl
  | int cls mn mx =>
    simp only [validatorOf, Option.map_eq_some_iff] at h
    obtain ⟨p, _, hp⟩ := h; subst hp; rfl
  | float cls mn mx =>
    simp only [validatorOf, Option.map_eq_some_iff] at h
    obtain ⟨p, _, hp⟩ := h; subst hp; rfl
  | list t a b ih =>
    simp only [validatorOf, Option.map_eq_some_iff] at h
    obtain ⟨p, _, hp⟩ := h; subst hp; rfl
  | map k v ihk ihv =>
    simp only [validatorOf] at h
    split at h
    · simp at h; subst h; rfl
    · simp at h
  | struct cls sub =>
    simp only [validatorOf, Option.some.injEq] at h
    subst h
    cases sub <;> rfl
  | nullable t ih =>
    simp only [validatorOf] at h
    split at h
    · split at h
      · simp at h
      · split at h
        · simp at h
        · simp only [Option.some.injEq] at h
          subst h
          simp [withFlags_flags] at hn
    · simp at h
  | alias n r t ih =>
    simp only [validatorOf, Option.map_eq_some_iff] at h
    obtain ⟨T0, hT0, hT⟩ := h
    subst hT
    rw [setRedact_nullable] at hn
    have := ih T0 hT0 hn
    unfold setRedact
    cases r with
    | none => exact this
    | some r => simp [hn, withFlags_flags, this]




theorem validatorOf_alias_outer (n : String) (r : Redactor) (t : IrTy) (T : PTy)
    (h : validatorOf (.alias n (some r) t) = some T) : T.outerRedactor = some r := by
  simp only [validatorOf, Option.map_eq_some_iff] at h
  obtain ⟨T0, _, hT⟩ := h
  subst hT
  exact setRedact_outerRedactor r T0

theorem validatorOf_nullable_alias_top (n : String) (r : Redactor) (t : IrTy) (T : PTy)
    (h : validatorOf (.nullable (.alias n (some r) t)) = some T) :
    T.flags.nullable = true ∧ T.flags.redactOuter = none ∧ T.flags.redactInner = some r ∧ T.topRedactor = some r := by
  simp only [validatorOf] at h
  split at h
  · rename_i v hv
    have hvo : v.outerRedactor = some r := by
      simp only [Option.map_eq_some_iff] at hv
      obtain ⟨T0, _, hT⟩ := hv
      subst hT
      exact setRedact_outerRedactor r T0
    split at h
    · simp at h
    · rename_i hnn
      have hnn' : v.flags.nullable = false := by simpa using hnn
      have hro : v.flags.redactOuter = none :=
        validatorOf_redactOuter (.alias n (some r) t) v (by simpa [validatorOf] using hv) hnn'
      have hri : v.flags.redactInner = some r := by
        simpa [PTy.outerRedactor, hnn'] using hvo
      split at h
      · simp at h
      · simp only [Option.some.injEq] at h
        subst h
        simp [PTy.topRedactor, PTy.outerRedactor, withFlags_flags, hro, hri]
  · simp at h

theorem validatorOf_list_alias (n : String) (r : Redactor) (t : IrTy) (a b : Option Nat) (T : PTy)
    (h : validatorOf (.list (.alias n (some r) t) a b) = some T) :
    ∃ item, T = .list {} item a b ∧ item.outerRedactor = some r := by
  simp only [validatorOf, Option.map_eq_some_iff] at h
  obtain ⟨item, hitem, hT⟩ := h
  refine ⟨item, hT.symm, validatorOf_alias_outer n r t item ?_⟩
  simp only [validatorOf, Option.map_eq_some_iff]
  exact hitem

theorem validatorOf_map_alias (n : String) (r : Redactor) (k t : IrTy) (T : PTy)
    (h : validatorOf (.map k (.alias n (some r) t)) = some T) :
    ∃ kt vt, T = .map {} kt vt ∧ vt.outerRedactor = some r := by
  simp only [validatorOf] at h
  split at h
  · rename_i kt vt hk hv
    simp only [Option.some.injEq] at h
    refine ⟨kt, vt, h.symm, validatorOf_alias_outer n r t vt ?_⟩
    simpa [validatorOf] using hv
  · simp at h

end StoneVerif.Rt.PermL
