import StoneVerif.Model.Rt.Types
import StoneVerif.Model.Rt.Tables
import StoneVerif.Model.Rt.Validate
import StoneVerif.Model.Rt.Encode
import StoneVerif.Model.Rt.Decode
import StoneVerif.Model.Rt.Spec
import StoneVerif.Model.Rt.WF
/-!
Helper lemmas for C13 (caller permissions and redaction in the JSON runtime model).

Part 1: the per-caller class tables (`allFieldsAttrRev`, `tagmapAttrRev`, `permissionedTagmapsRev`)
in closed form.
Part 2: `assembleStruct` / `encodeSlots` key lemmas.
Part 3: redaction.
-/
namespace StoneVerif.Rt

/-! ### Part 1: tables -/

theorem mem_dedup (x : String) (xs : List String) : x ∈ dedup xs ↔ x ∈ xs := by
  induction xs with
  | nil => simp [dedup]
  | cons y ys ih =>
    unfold dedup
    by_cases h : ys.contains y = true
    · rw [if_pos h]
      simp only [ih, List.mem_cons]
      constructor
      · exact Or.inr
      · rintro (rfl | h')
        · simpa using h
        · exact h'
    · rw [if_neg h]
      simp [ih]

theorem contains_dedup (x : String) (xs : List String) : (dedup xs).contains x = xs.contains x := by
  rw [Bool.eq_iff_iff]
  simp [mem_dedup]

/-- A caller class is named by the chain `ls` iff some field of it is omitted for that class. -/
theorem mem_flatMap_ownCallers (p : String) (ls : List Level) :
    p ∈ ls.flatMap (·.ownCallers) ↔ ∃ f ∈ ls.flatMap (·.fields), f.omitted = some p := by
  simp only [List.mem_flatMap, Level.ownCallers, mem_dedup, List.mem_filterMap]
  constructor
  · rintro ⟨l, hl, f, hf, h⟩
    exact ⟨f, ⟨l, hl, hf⟩, h⟩
  · rintro ⟨f, ⟨l, hl, hf⟩, h⟩
    exact ⟨l, hl, f, hf, h⟩

theorem mem_flatMap_uownCallers (p : String) (ls : List ULevel) :
    p ∈ ls.flatMap (·.ownCallers) ↔ ∃ t ∈ ls.flatMap (·.tags), t.omitted = some p := by
  simp only [List.mem_flatMap, ULevel.ownCallers, mem_dedup, List.mem_filterMap]
  constructor
  · rintro ⟨l, hl, f, hf, h⟩
    exact ⟨f, ⟨l, hl, hf⟩, h⟩
  · rintro ⟨f, ⟨l, hl, hf⟩, h⟩
    exact ⟨l, hl, f, hf, h⟩

/-- the condition under which the attribute `_all<_X>_fields_` exists on the class with chain `ls` -/
def attrExists (X : Option String) (ls : List Level) : Bool :=
  (X.isNone && !ls.isEmpty) || callerIn X (dedup (ls.flatMap (·.ownCallers)))

theorem filter_omitted_eq_nil_of_not_callerIn (p : String) (ls : List Level)
    (h : callerIn (some p) (dedup (ls.flatMap (·.ownCallers))) = false) :
    (ls.reverse.flatMap (·.fields)).filter (·.omitted == some p) = [] := by
  rw [List.filter_eq_nil_iff]
  intro f hf hp
  have hp' : f.omitted = some p := by simpa using hp
  have : p ∈ ls.flatMap (·.ownCallers) := by
    rw [mem_flatMap_ownCallers]
    refine ⟨f, ?_, hp'⟩
    simp only [List.mem_flatMap, List.mem_reverse] at hf ⊢
    exact hf
  simp only [callerIn, contains_dedup] at h
  simp [this] at h

theorem callerIn_cons (X : Option String) (l : Level) (parents : List Level) :
    callerIn X (dedup ((l :: parents).flatMap (·.ownCallers))) =
      (callerIn X l.ownCallers || callerIn X (dedup (parents.flatMap (·.ownCallers)))) := by
  cases X with
  | none => simp [callerIn]
  | some p =>
    simp only [callerIn, contains_dedup, List.flatMap_cons]
    rw [Bool.eq_iff_iff]
    simp

/-- Closed form of the generated `_all<_X>_fields_` attribute: it exists iff `X` is the public table
(of a non-empty chain) or some class of the chain declares a field omitted for `X`, and then it holds
exactly the fields of the whole chain, root first, whose `omitted_caller` is `X`. -/
theorem allFieldsAttrRev_eq (X : Option String) (ls : List Level) :
    allFieldsAttrRev X ls =
      if attrExists X ls then some ((ls.reverse.flatMap (·.fields)).filter (·.omitted == X)) else none := by
  induction ls with
  | nil => cases X <;> simp [allFieldsAttrRev, attrExists, callerIn, dedup]
  | cons l parents ih =>
    unfold allFieldsAttrRev
    simp only [attrExists, callerIn_cons] at ih ⊢
    simp only [List.reverse_cons, List.flatMap_append, List.flatMap_cons, List.flatMap_nil,
      List.append_nil, List.filter_append, List.isEmpty_cons, Bool.not_false, Bool.and_true]
    cases X with
    | none =>
      simp only [Option.isNone_none, if_true, Bool.true_and, callerIn, Bool.or_false] at ih ⊢
      cases parents with
      | nil => simp
      | cons q qs =>
        simp only [List.isEmpty_cons, Bool.not_false, if_true] at ih ⊢
        rw [ih]; simp
    | some p =>
      simp only [Option.isNone_some, Bool.false_or, Bool.false_and] at ih ⊢
      by_cases hpar : callerIn (some p) (dedup (parents.flatMap (·.ownCallers))) = true
      · have hne : parents.isEmpty = false := by
          cases parents with
          | nil => simp [callerIn, dedup] at hpar
          | cons q qs => rfl
        simp only [hpar, Bool.or_true, if_true, hne, Bool.not_false, Bool.and_true] at ih ⊢
        rw [ih]; simp
      · have hpar' : callerIn (some p) (dedup (parents.flatMap (·.ownCallers))) = false := by
          simpa using hpar
        have hnil := filter_omitted_eq_nil_of_not_callerIn p parents hpar'
        simp only [hpar', Bool.or_false, Bool.and_false] at ih ⊢
        by_cases hown : callerIn (some p) l.ownCallers = true
        · simp [hown, hnil]
        · simp only [hown]
          simpa using ih

theorem allFieldsAttrRev_getD (X : Option String) (ls : List Level) :
    (allFieldsAttrRev X ls).getD [] = (ls.reverse.flatMap (·.fields)).filter (·.omitted == X) := by
  rw [allFieldsAttrRev_eq]
  by_cases h : attrExists X ls = true
  · simp [h]
  · simp only [h]
    cases X with
    | none =>
      cases ls with
      | nil => simp
      | cons l r => simp [attrExists] at h
    | some p =>
      simp only [attrExists, Option.isNone_some, Bool.false_and, Bool.false_or] at h
      have h' : callerIn (some p) (dedup (ls.flatMap (·.ownCallers))) = false := by simpa using h
      simp [filter_omitted_eq_nil_of_not_callerIn p ls h']

/-- `_all<_X>_fields_` read with `getattr(..., [])`: the fields of the chain whose omitted caller is `X`. -/
theorem allFieldsAttr_getD (s : StructDef) (X : Option String) :
    (s.allFieldsAttr X).getD [] = s.allAttrs.filter (·.omitted == X) := by
  simp [StructDef.allFieldsAttr, allFieldsAttrRev_getD, StructDef.allAttrs]

/-- The field table `encode_struct` / `decode_struct` assemble, in closed form (order included). -/
theorem fieldsFor_eq (s : StructDef) (perms : List String) :
    s.fieldsFor perms = s.allAttrs.filter (·.omitted == none) ++
      perms.flatMap fun p => s.allAttrs.filter (·.omitted == some p) := by
  simp only [StructDef.fieldsFor, allFieldsAttr_getD]

theorem mem_fieldsFor (s : StructDef) (perms : List String) (f : FieldDef) :
    f ∈ s.fieldsFor perms ↔ f ∈ s.fieldsSpec perms := by
  rw [fieldsFor_eq]
  simp only [StructDef.fieldsSpec, StructDef.allAttrs, List.mem_append, List.mem_filter, List.mem_flatMap]
  constructor
  · rintro (⟨hf, ho⟩ | ⟨p, hp, hf, ho⟩)
    · refine ⟨hf, ?_⟩
      have : f.omitted = none := by simpa using ho
      simp [this]
    · refine ⟨hf, ?_⟩
      have : f.omitted = some p := by simpa using ho
      simp [this, hp]
  · rintro ⟨hf, ho⟩
    cases h : f.omitted with
    | none => exact Or.inl ⟨hf, by simp⟩
    | some c =>
      rw [h] at ho
      exact Or.inr ⟨c, by simpa using ho, hf, by simp⟩

theorem length_filter_or_disjoint {α} (a b : α → Bool) (xs : List α)
    (hd : ∀ x ∈ xs, ¬ (a x = true ∧ b x = true)) :
    (xs.filter fun x => a x || b x).length = (xs.filter a).length + (xs.filter b).length := by
  induction xs with
  | nil => rfl
  | cons x xs ih =>
    have ih' := ih (fun y hy => hd y (List.mem_cons_of_mem _ hy))
    have hx := hd x List.mem_cons_self
    cases ha : a x <;> cases hb : b x <;> simp_all <;> omega

theorem length_flatMap_filter_omitted (xs : List FieldDef) (perms : List String) (hnd : nodupS perms = true) :
    (perms.flatMap fun p => xs.filter (·.omitted == some p)).length =
      (xs.filter fun f => match f.omitted with | none => false | some c => perms.contains c).length := by
  induction perms with
  | nil =>
    simp only [List.flatMap_nil, List.length_nil]
    symm
    rw [List.length_eq_zero_iff, List.filter_eq_nil_iff]
    intro f _
    cases f.omitted <;> simp
  | cons p ps ih =>
    simp only [nodupS, Bool.and_eq_true, Bool.not_eq_true'] at hnd
    have hp : ¬ p ∈ ps := by
      intro h
      have := hnd.1
      simp [h] at this
    rw [List.flatMap_cons, List.length_append, ih hnd.2]
    rw [← length_filter_or_disjoint]
    · congr 1
      apply List.filter_congr
      intro f _
      cases h : f.omitted with
      | none => simp
      | some c =>
        simp only [List.contains_cons]
        rw [Bool.eq_iff_iff]
        simp
    · intro f _ ⟨h1, h2⟩
      have h1' : f.omitted = some p := by simpa using h1
      rw [h1'] at h2
      simp only at h2
      exact hp (by simpa using h2)

theorem length_fieldsFor (s : StructDef) (perms : List String) (hnd : nodupS perms = true) :
    (s.fieldsFor perms).length = (s.fieldsSpec perms).length := by
  rw [fieldsFor_eq, List.length_append, length_flatMap_filter_omitted _ _ hnd,
    ← length_filter_or_disjoint]
  · simp only [StructDef.fieldsSpec, StructDef.allAttrs]
    congr 1
    apply List.filter_congr
    intro f _
    cases h : f.omitted <;> simp
  · intro f _ ⟨h1, h2⟩
    have h1' : f.omitted = none := by simpa using h1
    rw [h1'] at h2
    simp at h2

/-! #### unions -/

def tagAttrExists (X : Option String) (ls : List ULevel) : Bool :=
  (X.isNone && !ls.isEmpty) || callerIn X (dedup (ls.flatMap (·.ownCallers)))

theorem filter_tag_omitted_eq_nil_of_not_callerIn (p : String) (ls : List ULevel)
    (h : callerIn (some p) (dedup (ls.flatMap (·.ownCallers))) = false) :
    (ls.flatMap (·.tags)).filter (·.omitted == some p) = [] := by
  rw [List.filter_eq_nil_iff]
  intro f hf hp
  have hp' : f.omitted = some p := by simpa using hp
  have : p ∈ ls.flatMap (·.ownCallers) := by
    rw [mem_flatMap_uownCallers]
    exact ⟨f, hf, hp'⟩
  simp only [callerIn, contains_dedup] at h
  simp [this] at h

theorem ucallerIn_cons (X : Option String) (l : ULevel) (parents : List ULevel) :
    callerIn X (dedup ((l :: parents).flatMap (·.ownCallers))) =
      (callerIn X l.ownCallers || callerIn X (dedup (parents.flatMap (·.ownCallers)))) := by
  cases X with
  | none => simp [callerIn]
  | some p =>
    simp only [callerIn, contains_dedup, List.flatMap_cons]
    rw [Bool.eq_iff_iff]
    simp

/-- Closed form of the generated `_tagmap` / `_<X>_tagmap` attribute (chain LEAF FIRST): the tags of
the whole chain whose `omitted_caller` is `X`, the class's own tags first. -/
theorem tagmapAttrRev_eq (X : Option String) (ls : List ULevel) :
    tagmapAttrRev X ls =
      if tagAttrExists X ls then some ((ls.flatMap (·.tags)).filter (·.omitted == X)) else none := by
  induction ls with
  | nil => cases X <;> simp [tagmapAttrRev, tagAttrExists, callerIn, dedup]
  | cons l parents ih =>
    unfold tagmapAttrRev
    simp only [tagAttrExists, ucallerIn_cons] at ih ⊢
    simp only [List.flatMap_cons, List.filter_append, List.isEmpty_cons, Bool.not_false, Bool.and_true]
    cases X with
    | none =>
      simp only [Option.isNone_none, if_true, Bool.true_and, callerIn, Bool.or_false] at ih ⊢
      cases parents with
      | nil => simp
      | cons q qs =>
        simp only [List.isEmpty_cons, Bool.not_false, if_true] at ih ⊢
        rw [ih]; simp
    | some p =>
      simp only [Option.isNone_some, Bool.false_or, Bool.false_and] at ih ⊢
      by_cases hpar : callerIn (some p) (dedup (parents.flatMap (·.ownCallers))) = true
      · have hne : parents.isEmpty = false := by
          cases parents with
          | nil => simp [callerIn, dedup] at hpar
          | cons q qs => rfl
        simp only [hpar, Bool.or_true, if_true, hne, Bool.not_false, Bool.and_true] at ih ⊢
        rw [ih]; simp
      · have hpar' : callerIn (some p) (dedup (parents.flatMap (·.ownCallers))) = false := by
          simpa using hpar
        have hnil := filter_tag_omitted_eq_nil_of_not_callerIn p parents hpar'
        simp only [hpar', Bool.or_false, Bool.and_false] at ih ⊢
        by_cases hown : callerIn (some p) l.ownCallers = true
        · simp [hown, hnil]
        · simp only [hown]
          simpa using ih

theorem tagmapAttrRev_getD (X : Option String) (ls : List ULevel) :
    (tagmapAttrRev X ls).getD [] = (ls.flatMap (·.tags)).filter (·.omitted == X) := by
  rw [tagmapAttrRev_eq]
  by_cases h : tagAttrExists X ls = true
  · simp [h]
  · simp only [h]
    cases X with
    | none =>
      cases ls with
      | nil => simp
      | cons l r => simp [tagAttrExists] at h
    | some p =>
      simp only [tagAttrExists, Option.isNone_some, Bool.false_and, Bool.false_or] at h
      have h' : callerIn (some p) (dedup (ls.flatMap (·.ownCallers))) = false := by simpa using h
      simp [filter_tag_omitted_eq_nil_of_not_callerIn p ls h']

theorem findTag_isSome (name : String) (ts : List TagDef) :
    (findTag name ts).isSome = true ↔ ∃ t ∈ ts, t.name = name := by
  induction ts with
  | nil => simp [findTag]
  | cons t ts ih =>
    unfold findTag
    by_cases h : t.name = name
    · simp [h]
    · simp [h, ih]

theorem findTag_some_mem {name : String} {ts : List TagDef} {t : TagDef} (h : findTag name ts = some t) :
    t ∈ ts ∧ t.name = name := by
  induction ts with
  | nil => simp [findTag] at h
  | cons t' ts ih =>
    unfold findTag at h
    by_cases hn : t'.name = name
    · simp [hn] at h; subst h; exact ⟨List.mem_cons_self, hn⟩
    · simp [hn] at h
      exact ⟨List.mem_cons_of_mem _ (ih h).1, (ih h).2⟩

theorem option_bind_findTag_isSome (name : String) (o : Option (List TagDef)) :
    (o.bind (findTag name)).isSome = (findTag name (o.getD [])).isSome := by
  cases o <;> simp [findTag]

/-- `_is_tag_present`: some table of the caller lists the tag iff the specification shows a tag of
that name to the caller. -/
theorem isTagPresent_iff (u : UnionDef) (tag : String) (perms : List String) :
    u.isTagPresent tag perms = true ↔ ∃ t ∈ u.tagsSpec perms, t.name = tag := by
  simp only [UnionDef.isTagPresent, option_bind_findTag_isSome, UnionDef.tagmapAttr, tagmapAttrRev_getD,
    Bool.or_eq_true, List.any_eq_true, findTag_isSome, UnionDef.tagsSpec, List.mem_filter,
    List.mem_flatMap, List.mem_reverse]
  constructor
  · rintro (⟨t, ⟨hm, ho⟩, hn⟩ | ⟨p, hp, t, ⟨hm, ho⟩, hn⟩)
    · have : t.omitted = none := by simpa using ho
      exact ⟨t, ⟨hm, by simp [this]⟩, hn⟩
    · have : t.omitted = some p := by simpa using ho
      exact ⟨t, ⟨hm, by simp [this, hp]⟩, hn⟩
  · rintro ⟨t, ⟨hm, ho⟩, hn⟩
    cases h : t.omitted with
    | none => exact Or.inl ⟨t, ⟨hm, by simp [h]⟩, hn⟩
    | some c =>
      rw [h] at ho
      exact Or.inr ⟨c, by simpa using ho, t, ⟨hm, by simp [h]⟩, hn⟩

theorem mem_permissionedTagmapsRev (p : String) (ls : List ULevel) :
    p ∈ permissionedTagmapsRev ls ↔ p ∈ ls.flatMap (·.ownCallers) := by
  induction ls with
  | nil => simp [permissionedTagmapsRev]
  | cons l parents ih =>
    unfold permissionedTagmapsRev
    simp only
    by_cases h : (dedup (l.ownCallers ++ dedup (parents.flatMap (·.ownCallers)))).isEmpty = true
    · rw [if_pos h, ih]
      have hnil : dedup (l.ownCallers ++ dedup (parents.flatMap (·.ownCallers))) = [] := by
        simpa using h
      have hall : ∀ q, ¬ q ∈ l.ownCallers ++ dedup (parents.flatMap (·.ownCallers)) := by
        intro q hq
        have := (mem_dedup q _).2 hq
        rw [hnil] at this
        simp at this
      have h1 := hall p
      simp only [List.mem_append, mem_dedup, not_or] at h1
      simp [h1.1, h1.2]
    · rw [if_neg h]
      simp [mem_dedup]

/-- `Union.__init__` finds the validator of every tag declared along the chain, whatever caller class
it is omitted for. -/
theorem ctorValidator_isSome (u : UnionDef) (t : TagDef) (ht : t ∈ u.levels.flatMap (·.tags)) :
    (u.ctorValidator t.name).isSome = true := by
  simp only [UnionDef.ctorValidator, Option.isSome_map, findTag_isSome, UnionDef.tagmapAttr,
    tagmapAttrRev_getD, UnionDef.permissionedTagmaps]
  refine ⟨t, ?_, rfl⟩
  have ht' : t ∈ u.levels.reverse.flatMap (·.tags) := by
    simp only [List.mem_flatMap, List.mem_reverse] at ht ⊢
    exact ht
  rw [List.mem_append]
  cases h : t.omitted with
  | none => exact Or.inl (by simp [List.mem_filter, ht', h])
  | some p =>
    right
    rw [List.mem_flatMap]
    refine ⟨p, ?_, by simp [List.mem_filter, ht', h]⟩
    rw [mem_permissionedTagmapsRev, mem_flatMap_uownCallers]
    exact ⟨t, ht', h⟩

/-! #### unique names -/

theorem not_startsWith_tag_of_not_startsWith_dot (s : String) (h : s.startsWith "." = false) :
    s.startsWith ".tag" = false := by
  rw [String.startsWith_string_eq_false_iff] at *
  intro hp
  apply h
  refine List.IsPrefix.trans ?_ hp
  simp

theorem eq_of_name_eq_of_nodupS {α} (nm : α → String) (xs : List α) (hnd : nodupS (xs.map nm) = true)
    {f g : α} (hf : f ∈ xs) (hg : g ∈ xs) (h : nm f = nm g) : f = g := by
  induction xs with
  | nil => cases hf
  | cons x xs ih =>
    simp only [List.map_cons, nodupS, Bool.and_eq_true, Bool.not_eq_true'] at hnd
    have hx : ∀ y ∈ xs, nm y ≠ nm x := by
      intro y hy he
      have : (xs.map nm).contains (nm x) = true := by
        simp only [List.contains_iff_mem, List.mem_map]
        exact ⟨y, hy, he⟩
      rw [this] at hnd
      exact absurd hnd.1 (by simp)
    rcases List.mem_cons.1 hf with rfl | hf'
    · rcases List.mem_cons.1 hg with rfl | hg'
      · rfl
      · exact absurd h.symm (hx g hg')
    · rcases List.mem_cons.1 hg with rfl | hg'
      · exact absurd h (hx f hf')
      · exact ih hnd.2 hf' hg'

/-- A field omitted for a caller class the caller holds is in the caller's table. -/
theorem mem_fieldsFor_of_perm (s : StructDef) (perms : List String) (f : FieldDef) (c : String)
    (hf : f ∈ s.allAttrs) (ho : f.omitted = some c) (hc : c ∈ perms) : f ∈ s.fieldsFor perms := by
  rw [mem_fieldsFor]
  simp only [StructDef.fieldsSpec, List.mem_filter]
  exact ⟨hf, by simp [ho, hc]⟩

/-- Under unique field names, the name of a field omitted for a caller class the caller does not hold
is not the name of any field of the caller's table. -/
theorem name_not_in_fieldsFor (s : StructDef) (perms : List String) (f : FieldDef) (c : String)
    (hnd : nodupS (s.allAttrs.map (·.name)) = true)
    (hf : f ∈ s.allAttrs) (ho : f.omitted = some c) (hc : ¬ c ∈ perms) :
    ¬ f.name ∈ (s.fieldsFor perms).map (·.name) := by
  intro hm
  obtain ⟨g, hg, hn⟩ := List.mem_map.1 hm
  rw [mem_fieldsFor] at hg
  simp only [StructDef.fieldsSpec, List.mem_filter] at hg
  have hgf : g = f := eq_of_name_eq_of_nodupS (·.name) s.allAttrs hnd hg.1 hf hn
  have h2 := hg.2
  rw [hgf, ho] at h2
  exact hc (by simpa using h2)

/-- Under unique tag names, a tag omitted for a caller class the caller does not hold is not present. -/
theorem isTagPresent_false_of_omitted (u : UnionDef) (perms : List String) (t : TagDef) (c : String)
    (hnd : nodupS ((u.levels.flatMap (·.tags)).map (·.name)) = true)
    (ht : t ∈ u.levels.flatMap (·.tags)) (ho : t.omitted = some c) (hc : ¬ c ∈ perms) :
    u.isTagPresent t.name perms = false := by
  rw [Bool.eq_false_iff]
  intro h
  obtain ⟨g, hg, hn⟩ := (isTagPresent_iff u t.name perms).1 h
  simp only [UnionDef.tagsSpec, List.mem_filter] at hg
  have hgt : g = t := eq_of_name_eq_of_nodupS (·.name) _ hnd hg.1 ht hn
  have h2 := hg.2
  rw [hgt, ho] at h2
  exact hc (by simpa using h2)

theorem isTagPresent_of_perm (u : UnionDef) (perms : List String) (t : TagDef) (c : String)
    (ht : t ∈ u.levels.flatMap (·.tags)) (ho : t.omitted = some c) (hc : c ∈ perms) :
    u.isTagPresent t.name perms = true := by
  rw [isTagPresent_iff]
  refine ⟨t, ?_, rfl⟩
  simp only [UnionDef.tagsSpec, List.mem_filter]
  exact ⟨ht, by simp [ho, hc]⟩

end StoneVerif.Rt
