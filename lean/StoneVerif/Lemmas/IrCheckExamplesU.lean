import StoneVerif.Model.IrCheck
import StoneVerif.Lemmas.IrCheck
import StoneVerif.Lemmas.RtWire
import StoneVerif.Lemmas.IrCheckExamples
/-! C10: round trip of flat union examples (one tag; Void or scalar payload). -/
set_option linter.unusedSimpArgs false
set_option linter.unusedVariables false
namespace StoneVerif.IrCheck
open StoneVerif.Rt

/-! ### the class table of a union -/

theorem unionDefOfC_inv {cu : CUnion} {ud : UnionDef} (h : unionDefOfC cu = some ud) :
    ∃ levels, cu.chain.mapM (fun (x : String × List CTag) => match x with
        | (c, ts) => do
          let tds ← ts.mapM tagDefOfC
          pure ({ cls := c, tags := tds } : ULevel)) = some levels ∧
      ud = { cls := cu.cls, levels := levels, catchAll := cu.catchAll } := by
  simp only [unionDefOfC, Option.bind_eq_bind, Option.bind_eq_some_iff, Option.pure_def, Option.some.injEq] at h
  obtain ⟨levels, hl, hud⟩ := h
  exact ⟨levels, hl, hud.symm⟩

theorem uchain_mapM_flat :
    ∀ {chain : List (String × List CTag)} {levels : List ULevel},
      chain.mapM (fun (x : String × List CTag) => match x with
        | (c, ts) => do
          let tds ← ts.mapM tagDefOfC
          pure ({ cls := c, tags := tds } : ULevel)) = some levels →
      (chain.flatMap (·.2)).mapM tagDefOfC = some (levels.flatMap (·.tags)) ∧
      levels.map (·.cls) = chain.map (·.1) := by
  intro chain
  induction chain with
  | nil => intro levels h; simp at h; subst h; simp
  | cons x rest ih =>
    intro levels h
    obtain ⟨lv, lvs, hlv, hlvs, rfl⟩ := mapM_some_cons h
    obtain ⟨h1, h2⟩ := ih hlvs
    obtain ⟨c, ts⟩ := x
    cases hf : ts.mapM tagDefOfC with
    | none => simp [hf] at hlv
    | some tds =>
      simp [hf] at hlv
      subst hlv
      refine ⟨?_, by simp [h2]⟩
      simp only [List.flatMap_cons]
      exact mapM_append_some hf h1

theorem tagDefOfC_inv {t : CTag} {td : TagDef} (h : tagDefOfC t = some td) :
    ∃ vt, validatorOf t.ty = some vt ∧ td.name = t.name ∧ td.ty = vt ∧ td.omitted = t.omitted := by
  unfold tagDefOfC at h
  cases hvt : validatorOf t.ty with
  | none => simp [hvt] at h
  | some vt => simp [hvt] at h; subst h; exact ⟨vt, rfl, rfl, rfl, rfl⟩

theorem permissionedTagmapsRev_public :
    ∀ (ls : List ULevel), (∀ l ∈ ls, l.ownCallers = []) → permissionedTagmapsRev ls = [] := by
  intro ls
  induction ls with
  | nil => intro _; rfl
  | cons l parents ih =>
    intro h
    have hl : l.ownCallers = [] := h l (by simp)
    have hp : parents.flatMap (·.ownCallers) = [] :=
      List.flatMap_eq_nil_iff.mpr fun x hx => h x (List.mem_cons_of_mem _ hx)
    simp [permissionedTagmapsRev, hl, hp, dedup, ih (fun x hx => h x (List.mem_cons_of_mem _ hx))]

/-- the tables the decoder, the constructor and the wire form consult for a public tag of a union all of
whose tags are public and distinct: they all hold the one `TagDef` generated for the tag -/
theorem union_tables {cu : CUnion} {ud : UnionDef} (hud : unionDefOfC cu = some ud)
    (hpub : ∀ t ∈ cu.allTags, t.omitted = none) (hnd : (cu.allTags.map (·.name)).Nodup)
    {tag : String} {t : CTag} (ht : cu.allTags.find? (·.name == tag) = some t) :
    ∃ td vt, validatorOf t.ty = some vt ∧ td.ty = vt ∧ td.name = tag ∧
      ud.isTagPresent tag [] = true ∧ ud.valDataType tag [] = some vt ∧ ud.ctorValidator tag = some vt ∧
      findTag tag (ud.tagsSpec []) = some td ∧ ud.catchAll = cu.catchAll ∧ ud.cls = cu.cls ∧
      ud.levels.map (·.cls) = cu.chain.map (·.1) := by
  obtain ⟨levels, hlv, hudeq⟩ := unionDefOfC_inv hud
  obtain ⟨hflat, hcls⟩ := uchain_mapM_flat hlv
  obtain ⟨hnames, hright, hleft⟩ := mapM_some_spec (g := tagDefOfC) (·.name) (·.name)
    (fun a b h => by obtain ⟨_, _, hn, _⟩ := tagDefOfC_inv h; exact hn) hflat
  have hlevels : ud.levels = levels := by rw [hudeq]
  have htm : t ∈ cu.allTags := List.mem_of_find?_eq_some ht
  have htn : t.name = tag := by simpa using List.find?_some ht
  obtain ⟨td, htd, hg⟩ := hleft t htm
  obtain ⟨vt, hvt, hn, hty, hom⟩ := tagDefOfC_inv hg
  -- every generated tag is public
  have hpubd : ∀ d ∈ levels.flatMap (·.tags), d.omitted = none := by
    intro d hd
    obtain ⟨a, ha, hga⟩ := hright d hd
    obtain ⟨_, _, _, _, ho⟩ := tagDefOfC_inv hga
    rw [ho]; exact hpub a ha
  have hfilt : ∀ L : List TagDef, (∀ d ∈ L, d ∈ levels.flatMap (·.tags)) → L.filter (·.omitted == none) = L := by
    intro L hL
    apply List.filter_eq_self.mpr
    intro d hd
    simp [hpubd d (hL d hd)]
  have hne : levels.reverse ≠ [] := by
    intro h
    have : levels = [] := by simpa using h
    rw [this] at htd; simp at htd
  have hrevperm : (levels.reverse.flatMap (·.tags)).Perm (levels.flatMap (·.tags)) :=
    List.Perm.flatMap_right _ (List.reverse_perm levels)
  -- `_tagmap`
  have htagmap : ud.tagmapAttr none = some (levels.reverse.flatMap (·.tags)) := by
    unfold UnionDef.tagmapAttr
    rw [hlevels, tagmapAttrRev_none _ hne, hfilt _ (fun d hd => hrevperm.mem_iff.mp hd)]
  have hnd1 : ((levels.reverse.flatMap (·.tags)).map (·.name)).Nodup := by
    have : (levels.flatMap (·.tags)).map (·.name) = cu.allTags.map (·.name) := hnames
    exact ((hrevperm.map _).nodup_iff).mpr (this ▸ hnd)
  have hnd2 : ((levels.flatMap (·.tags)).map (·.name)).Nodup := by
    have : (levels.flatMap (·.tags)).map (·.name) = cu.allTags.map (·.name) := hnames
    exact this ▸ hnd
  have htdn : td.name = tag := by rw [hn, htn]
  have hfind1 : findTag tag (levels.reverse.flatMap (·.tags)) = some td := by
    rw [← htdn]; exact findTag_of_mem hnd1 (hrevperm.mem_iff.mpr htd)
  have hfind2 : findTag tag (ud.tagsSpec []) = some td := by
    rw [tagsSpec_nil, hlevels, hfilt _ (fun d hd => hd), ← htdn]
    exact findTag_of_mem hnd2 htd
  have hperm0 : ud.permissionedTagmaps = [] := by
    unfold UnionDef.permissionedTagmaps
    apply permissionedTagmapsRev_public
    intro l hl
    rw [hlevels] at hl
    have hl' : l ∈ levels := by simpa using hl
    unfold ULevel.ownCallers
    have : l.tags.filterMap (·.omitted) = [] := by
      apply List.filterMap_eq_nil_iff.mpr
      intro d hd
      exact hpubd d (List.mem_flatMap.mpr ⟨l, hl', hd⟩)
    rw [this]; rfl
  refine ⟨td, vt, hvt, hty, htdn, ?_, ?_, ?_, hfind2, by rw [hudeq], by rw [hudeq], by rw [hlevels, hcls]⟩
  · simp [UnionDef.isTagPresent, htagmap, hfind1]
  · simp [UnionDef.valDataType, htagmap, hfind1, hty]
  · simp [UnionDef.ctorValidator, htagmap, hperm0, hfind1, hty]

/-! ### decoding and encoding one tag -/

/-- validators of the scalar types -/
def isScalarP : PTy → Bool
  | .bool _ | .int .. | .float .. | .str .. => true
  | _ => false

theorem mkUnion_scalar (E : Ext) (env : Env) (cls : String) (ud : UnionDef) (tag : String) (ft : PTy) (x : PyVal)
    (henv : env.union? cls = some ud) (hctor : ud.ctorValidator tag = some ft) (hsp : isScalarP ft = true)
    (hval : validate E env ft x = .ok x) : mkUnion E env cls tag x = .ok (.union cls tag x) := by
  cases ft <;> simp [isScalarP] at hsp <;>
    simp [mkUnion, henv, hctor, hval, bind, Except.bind, pure, Except.pure]

theorem mkUnion_void (E : Ext) (env : Env) (cls : String) (ud : UnionDef) (tag : String)
    (henv : env.union? cls = some ud) (hctor : ud.ctorValidator tag = some (.void {})) :
    mkUnion E env cls tag .none = .ok (.union cls tag .none) := by
  simp [mkUnion, henv, hctor, PTy.flags]

/-- a tag with a scalar payload: `{".tag": tag, tag: j}` -/
theorem decode_union_value (E : Ext) (env : Env) (cls : String) (ud : UnionDef) (tag : String) (ft : PTy) (j : JVal)
    (henv : env.union? cls = some ud) (hpres : ud.isTagPresent tag [] = true)
    (hvdt : ud.valDataType tag [] = some ft) (hctor : ud.ctorValidator tag = some ft)
    (hca : ¬ some tag = ud.catchAll) (htne : tag ≠ ".tag") (hsp : isScalarP ft = true)
    (hdec : decode E env [] true (ft.withFlags {}) j = .ok (pyOfJson j))
    (hval : validate E env ft (pyOfJson j) = .ok (pyOfJson j)) :
    decode E env [] true (.union {} cls) (.obj [(".tag", .str tag), (tag, j)]) = .ok (.union cls tag (pyOfJson j)) := by
  have h1 : (".tag" == tag) = false := by simp; exact fun h => htne h.symm
  have h2 : (tag == ".tag") = false := by simp [htne]
  have hv : isVoidTy ft = false := by cases ft <;> simp [isScalarP, isVoidTy] at hsp ⊢
  have hp : isPlainStruct ft = false := by cases ft <;> simp [isScalarP, isPlainStruct] at hsp ⊢
  have hmk := mkUnion_scalar E env cls ud tag ft (pyOfJson j) henv hctor hsp hval
  unfold decode
  simp [PTy.flags, henv, jsonLookup, hpres, hca, hvdt, hv, hp, memberTable, decodeMembers, childLookup, h1, h2,
    hdec, hmk]

/-- a Void tag, or a nullable tag whose example is null: `{".tag": tag}` -/
theorem decode_union_tagonly (E : Ext) (env : Env) (cls : String) (ud : UnionDef) (tag : String) (ft : PTy)
    (henv : env.union? cls = some ud) (hpres : ud.isTagPresent tag [] = true)
    (hvdt : ud.valDataType tag [] = some ft) (hctor : ud.ctorValidator tag = some ft)
    (hca : ¬ some tag = ud.catchAll) (htne : tag ≠ ".tag")
    (hft : ft = .void {} ∨ (isScalarP ft = true ∧ ft.flags.nullable = true)) :
    decode E env [] true (.union {} cls) (.obj [(".tag", .str tag)]) = .ok (.union cls tag .none) := by
  have h1 : (".tag" == tag) = false := by simp; exact fun h => htne h.symm
  have h2 : (tag == ".tag") = false := by simp [htne]
  rcases hft with rfl | ⟨hsp, hnl⟩
  · have hmk := mkUnion_void E env cls ud tag henv hctor
    unfold decode
    simp [PTy.flags, henv, jsonLookup, hpres, hca, hvdt, isVoidTy, h1, h2, hmk]
  · have hv : isVoidTy ft = false := by cases ft <;> simp [isScalarP, isVoidTy] at hsp ⊢
    have hp : isPlainStruct ft = false := by cases ft <;> simp [isScalarP, isPlainStruct] at hsp ⊢
    have hmk := mkUnion_scalar E env cls ud tag ft .none henv hctor hsp (validate_nullable_none E env ft hnl)
    have hfl : (PTy.union ({} : Flags) cls).flags.nullable = false := rfl
    unfold decode
    simp [hfl, henv, jsonLookup, hpres, hca, hvdt, hv, hp, memberTable, decodeMembers, childLookup, h1, h2,
      hnl, hmk]

theorem wire_union_tagonly (E : Ext) (env : Env) (cls : String) (ud : UnionDef) (tag : String) (td : TagDef)
    (henv : env.union? cls = some ud) (hpt : findTag tag (ud.tagsSpec []) = some td) :
    wire E env (.union {} cls) (.union cls tag .none) = .obj [(".tag", .str tag)] := by
  unfold wire
  simp only [publicTag?, henv, hpt]
  cases td.ty <;> rfl

theorem wire_union_value (E : Ext) (env : Env) (cls : String) (ud : UnionDef) (tag : String) (td : TagDef) (x : PyVal) (j : JVal)
    (henv : env.union? cls = some ud) (hpt : findTag tag (ud.tagsSpec []) = some td)
    (hsp : isScalarP td.ty = true) (hx : x ≠ .none) (hw : wire E env td.ty x = j) :
    wire E env (.union {} cls) (.union cls tag x) = .obj [(".tag", .str tag), (tag, j)] := by
  rw [← hw]
  generalize htd : td.ty = ft at hsp
  unfold wire
  simp only [publicTag?, henv, hpt, htd]
  cases ft <;> simp [isScalarP] at hsp <;> cases x <;> simp [wire] at hx ⊢

/-! ### the theorem -/

theorem isScalarP_base {t0 : IrTy} {vt0 : PTy} (hb : baseScalar t0 = true) (hvt : validatorOf t0 = some vt0) (fl : Flags) :
    isScalarP (vt0.withFlags fl) = true := by
  cases t0 <;> simp [baseScalar] at hb <;> simp [validatorOf] at hvt
  · subst hvt; rfl
  · obtain ⟨a, b, _, rfl⟩ := hvt; rfl
  · obtain ⟨a, b, _, rfl⟩ := hvt; rfl
  · subst hvt; rfl

theorem unionExampleDoc_lit {cu : CUnion} {tag : String} {t : CTag} (ht : cu.allTags.find? (·.name == tag) = some t)
    (hns : ∀ c, unwrapNullable t.ty ≠ .struct c false) (l : Lit) :
    unionExampleDoc cu [(tag, .lit l)] = some (match jsonOfLit l with
      | .null => .obj [(".tag", .str tag)]
      | j => .obj [(".tag", .str tag), (tag, j)]) := by
  simp only [unionExampleDoc, ht, jsonOfEx]
  cases jsonOfLit l <;> rfl

theorem validB_union (E : Ext) (env : Env) (cls : String) (ud : UnionDef) (tag : String) (td : TagDef) (x : PyVal)
    (henv : env.union? cls = some ud) (hself : cls ∈ ud.ancestors) (hpt : findTag tag (ud.tagsSpec []) = some td)
    (hx : if isVoidT td.ty then isNoneV x = true else validB E env td.ty x = true) :
    validB E env (.union {} cls) (.union cls tag x) = true := by
  unfold validB
  simp only [PTy.flags, publicTag?, henv, hpt, Env.unionSubclass]
  cases hv : isVoidT td.ty <;> simp [hv] at hx <;> simp [hself, hv, hx]

theorem normalB_union (env : Env) (cls : String) (ud : UnionDef) (tag : String) (td : TagDef) (x : PyVal)
    (henv : env.union? cls = some ud) (hpt : findTag tag (ud.tagsSpec []) = some td)
    (hx : normalB env td.ty x = true) : normalB env (.union {} cls) (.union cls tag x) = true := by
  unfold normalB
  simp [publicTag?, henv, hpt, hx]

theorem normalB_none (env : Env) (t : PTy) : normalB env t .none = true := by
  cases t <;> simp [normalB]

theorem jsonCompatObjDecode_union (E : Ext) (env : Env) (cls : String) (j : JVal) :
    jsonCompatObjDecode E env [] true (.union {} cls) j = decode E env [] true (.union {} cls) j := by
  simp only [jsonCompatObjDecode, PTy.flags]
  cases decode E env [] true (.union {} cls) j <;> simp

/-
FULL STATEMENT: see `example_roundtrip` in IrCheckExamples.lean (every example of every struct and union).
MISSING here: tags whose type is a struct or a union (their example is a reference to a labelled example of that
type, flattened beside `.tag` for a struct), list / map / Timestamp / Bytes payloads, aliases, the catch-all tag
(the strict decoder refuses it: "unexpected use of the catch-all tag"), tags omitted for a caller class, literals of
an inexact kind, the pattern law `hpat`.
-/

/-- ROUND TRIP OF FLAT UNION EXAMPLES. For a union (any inheritance chain) all of whose tags are public and have
distinct names, in the environment that holds the class table python_types generates for it: an example
`tag = v` that `_add_example` accepts, for a tag that is not the catch-all and whose type is Void or a scalar
type (the literal then being of exactly the type's kind), gives the document `{".tag": tag}` (Void, or null for a
`T?`) or `{".tag": tag, tag: j}`; the strict decoder turns it into the instance of that tag; the instance is valid
and in stored form; and its wire form is the document itself. -/
theorem example_union_roundtrip_partial (E : Ext) (C : CExt) (us : List CUnion) (env : Env) (cu : CUnion) (ud : UnionDef)
    (tag : String) (v : ExVal) (t : CTag)
    (hud : unionDefOfC cu = some ud) (henv : env.union? cu.cls = some ud)
    (hpub : ∀ t ∈ cu.allTags, t.omitted = none) (hnd : (cu.allTags.map (·.name)).Nodup)
    (ht : cu.allTags.find? (·.name == tag) = some t)
    (hty : t.ty = .void ∨ scalarTy t.ty = true)
    (hca : some tag ≠ cu.catchAll) (htne : tag ≠ ".tag")
    (hexact : scalarTy t.ty = true → ∀ l, v = .lit l → exactKind t.ty l = true)
    (hadd : addUnionExample E C us cu [(tag, v)] = .ok ()) :
    ∃ kvs payload, unionExampleDoc cu [(tag, v)] = some (.obj kvs) ∧
      decode E env [] true (.union {} cu.cls) (.obj kvs) = .ok (.union cu.cls tag payload) ∧
      jsonCompatObjDecode E env [] true (.union {} cu.cls) (.obj kvs) = .ok (.union cu.cls tag payload) ∧
      wire E env (.union {} cu.cls) (.union cu.cls tag payload) = .obj kvs ∧
      normalB env (.union {} cu.cls) (.union cu.cls tag payload) = true ∧
      (cu.cls ∈ cu.chain.map (·.1) → validB E env (.union {} cu.cls) (.union cu.cls tag payload) = true) := by
  -- what `_add_example` checked
  have hchk : checkExample E C us t.ty v = .ok () := by
    simp only [addUnionExample, ht] at hadd
    cases hc : checkExample E C us t.ty v with
    | ok u => rfl
    | error e => cases e <;> simp [hc, invalid] at hadd
  obtain ⟨td, vt, hvt, htdty, htdn, hpres, hvdt, hctor, hpt, hcatch, hcls, hanc⟩ := union_tables hud hpub hnd ht
  have hca' : ¬ some tag = ud.catchAll := by rw [hcatch]; exact hca
  have hself : cu.cls ∈ cu.chain.map (·.1) → cu.cls ∈ ud.ancestors := by
    intro h; unfold UnionDef.ancestors; rw [hanc]; exact h
  rcases hty with hvoid | hsc
  · -- a Void tag
    rw [hvoid] at hchk hvt
    have hv : v = .lit .null := by
      simp only [checkExample] at hchk
      split at hchk
      · rfl
      · simp [invalid] at hchk
    subst hv
    simp [validatorOf] at hvt
    subst hvt
    have hdoc : unionExampleDoc cu [(tag, .lit .null)] = some (.obj [(".tag", .str tag)]) := by
      rw [unionExampleDoc_lit ht (by rw [hvoid]; simp [unwrapNullable])]; rfl
    have hdec := decode_union_tagonly E env cu.cls ud tag (.void {}) henv hpres hvdt hctor hca' htne (Or.inl rfl)
    refine ⟨_, .none, hdoc, hdec, by rw [jsonCompatObjDecode_union]; exact hdec,
      wire_union_tagonly E env cu.cls ud tag td henv hpt,
      normalB_union env cu.cls ud tag td .none henv hpt (normalB_none env _), ?_⟩
    intro hs
    exact validB_union E env cu.cls ud tag td .none henv (hself hs) hpt (by simp [htdty, isVoidT, isNoneV])
  · -- a scalar tag
    obtain ⟨l, rfl, hcl⟩ := scalar_example_lit hsc hchk
    have hk := hexact hsc l rfl
    obtain ⟨t0, vt0, fl, hb, hvt0, hvteq, hfln, hshape⟩ := validatorOf_scalar hsc hvt
    have hsp : isScalarP vt = true := by rw [hvteq]; exact isScalarP_base hb hvt0 fl
    have hnotvoid : isVoidT td.ty = false := by
      rw [htdty]; cases vt <;> simp [isScalarP, isVoidT] at hsp ⊢
    have hns : ∀ c, unwrapNullable t.ty ≠ .struct c false := by
      intro c
      rcases hshape with h | h <;> rw [h] <;> cases t0 <;> simp [baseScalar, unwrapNullable] at hb ⊢
    have hdoc0 := unionExampleDoc_lit ht hns l
    by_cases hn : l = .null
    · subst hn
      have hnull : vt.flags.nullable = true := by
        rw [hvteq, flags_withFlags, hfln]
        rcases hshape with h | h
        · rw [h] at hcl; cases t0 <;> simp [baseScalar, check] at hb hcl
        · rw [h]; rfl
      have hdec := decode_union_tagonly E env cu.cls ud tag vt henv hpres hvdt hctor hca' htne (Or.inr ⟨hsp, hnull⟩)
      refine ⟨_, .none, hdoc0, hdec, by rw [jsonCompatObjDecode_union]; exact hdec,
        wire_union_tagonly E env cu.cls ud tag td henv hpt,
        normalB_union env cu.cls ud tag td .none henv hpt (normalB_none env _), ?_⟩
      intro hs
      refine validB_union E env cu.cls ud tag td .none henv (hself hs) hpt ?_
      simp only [hnotvoid]
      rw [htdty]
      unfold validB
      simp [hnull, isNoneV]
    · have hcl' : check E C us t0 l = .ok () := by
        rcases hshape with h | h
        · rw [h] at hcl; exact hcl
        · rw [h] at hcl; cases l <;> simp [check] at hn hcl ⊢ <;> exact hcl
      have hk' : exactKind t0 l = true := by
        rcases hshape with h | h
        · rw [h] at hk; exact hk
        · rw [h] at hk; cases l <;> simp [exactKind] at hn hk ⊢ <;> exact hk
      have sc := base_step E C us env t0 vt0 l hb hvt0 hcl' hk'
      have sc1 := sc fl
      have sc0 := sc {}
      rw [← hvteq] at sc1
      have hw0 : vt.withFlags {} = vt0.withFlags {} := by rw [hvteq, withFlags_withFlags]
      have hdoc : unionExampleDoc cu [(tag, .lit l)] = some (.obj [(".tag", .str tag), (tag, jsonOfLit l)]) := by
        rw [hdoc0]; cases l <;> simp [jsonOfLit] at hn ⊢
      have hdec := decode_union_value E env cu.cls ud tag vt (jsonOfLit l) henv hpres hvdt hctor hca' htne hsp
        (by rw [hw0]; exact sc0.dec) sc1.val
      refine ⟨_, _, hdoc, hdec, by rw [jsonCompatObjDecode_union]; exact hdec,
        wire_union_value E env cu.cls ud tag td _ _ henv hpt (by rw [htdty]; exact hsp) sc1.nn (by rw [htdty]; exact sc1.wir),
        normalB_union env cu.cls ud tag td _ henv hpt (by rw [htdty]; exact sc1.nrm), ?_⟩
      intro hs
      refine validB_union E env cu.cls ud tag td _ henv (hself hs) hpt ?_
      simp only [hnotvoid]
      rw [htdty]; exact sc1.vld

/-! ### non-vacuity -/

/-- `union Color { red; green Int32; name String?; other* }` and `union Tint extends Color { pale Float64 }` -/
def rtTint : CUnion :=
  { cls := "ns.Tint",
    chain := [("ns.Color", [{ name := "red", ty := .void }, { name := "green", ty := .int "Int32" none none },
                            { name := "name", ty := .nullable (.str none none none) }, { name := "other", ty := .void }]),
              ("ns.Tint", [{ name := "pale", ty := .float "Float64" none none }])],
    catchAll := some "other" }

def rtUEnv : Env := { structs := [], unions := ((unionDefOfC rtTint).map fun ud => [ud]).getD [] }

example : (unionDefOfC rtTint).isSome = true ∧ rtUEnv.union? "ns.Tint" = unionDefOfC rtTint ∧
    addUnionExample rtE rtC [] rtTint [("green", .lit (.int 5))] = .ok () ∧
    addUnionExample rtE rtC [] rtTint [("red", .lit .null)] = .ok () ∧
    addUnionExample rtE rtC [] rtTint [("name", .lit .null)] = .ok () ∧
    addUnionExample rtE rtC [] rtTint [("pale", .lit (.flt 4609434218613702656))] = .ok () :=
  ⟨rfl, rfl, rfl, rfl, rfl, rfl⟩

/-- the conclusion on the inherited tag `green` (declared by the parent, decoded at the child) -/
example :
    unionExampleDoc rtTint [("green", .lit (.int 5))] = some (.obj [(".tag", .str "green"), ("green", .int 5)]) ∧
    decode rtE rtUEnv [] true (.union {} "ns.Tint") (.obj [(".tag", .str "green"), ("green", .int 5)]) =
      .ok (.union "ns.Tint" "green" (.int 5)) ∧
    wire rtE rtUEnv (.union {} "ns.Tint") (.union "ns.Tint" "green" (.int 5)) = .obj [(".tag", .str "green"), ("green", .int 5)] ∧
    unionExampleDoc rtTint [("name", .lit .null)] = some (.obj [(".tag", .str "name")]) ∧
    decode rtE rtUEnv [] true (.union {} "ns.Tint") (.obj [(".tag", .str "name")]) = .ok (.union "ns.Tint" "name" .none) ∧
    -- the catch-all is excluded for a reason: its own example does not decode strictly
    unionExampleDoc rtTint [("other", .lit .null)] = some (.obj [(".tag", .str "other")]) ∧
    decode rtE rtUEnv [] true (.union {} "ns.Tint") (.obj [(".tag", .str "other")]) =
      verr "unexpected use of the catch-all tag" :=
  ⟨rfl, rfl, rfl, rfl, rfl, rfl, rfl⟩

example : ∃ kvs payload, unionExampleDoc rtTint [("green", .lit (.int 5))] = some (.obj kvs) ∧
    decode rtE rtUEnv [] true (.union {} rtTint.cls) (.obj kvs) = .ok (.union rtTint.cls "green" payload) ∧
    jsonCompatObjDecode rtE rtUEnv [] true (.union {} rtTint.cls) (.obj kvs) = .ok (.union rtTint.cls "green" payload) ∧
    wire rtE rtUEnv (.union {} rtTint.cls) (.union rtTint.cls "green" payload) = .obj kvs ∧
    normalB rtUEnv (.union {} rtTint.cls) (.union rtTint.cls "green" payload) = true ∧
    (rtTint.cls ∈ rtTint.chain.map (·.1) → validB rtE rtUEnv (.union {} rtTint.cls) (.union rtTint.cls "green" payload) = true) :=
  example_union_roundtrip_partial rtE rtC [] rtUEnv rtTint ((unionDefOfC rtTint).getD default) "green" (.lit (.int 5))
    { name := "green", ty := .int "Int32" none none } rfl rfl (by decide) (by decide) rfl
    (Or.inr rfl) (by decide) (by decide) (by intro _ l h; cases h; rfl) rfl

end StoneVerif.IrCheck
