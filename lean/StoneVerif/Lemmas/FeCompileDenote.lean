import StoneVerif.Lemmas.FeCompileReg
set_option linter.unusedSimpArgs false
/-!
`_resolve_type` of the compileCore model against the specification-level reading of a reference: when the model resolves
a reference, the result is what the reference denotes (whatever aliases were set at that moment).
-/
namespace StoneVerif.FeCompile.L
open StoneVerif.FeCompile
open StoneVerif.FeParams (TyKind)

theorem wrapNull_ok {fu A b t0 t} (h : wrapNull fu A b t0 = .ok t) : t = if b then .nullable t0 else t0 := by
  unfold wrapNull at h
  cases b with
  | false => simp at h; simp [h]
  | true =>
    simp only [Bool.not_true, Bool.false_eq_true, ↓reduceIte] at h
    split at h <;> first | (cases h; done) | (cases h; simp)

theorem finish_ok {fu A wrap h t0 t} (hf : finish fu A wrap h t0 = .ok t) :
    t = if wrap then nullableMeaning h t0 else t0 := by
  unfold finish at hf
  cases wrap with
  | false => simp at hf; simp [hf]
  | true =>
    simp only [↓reduceIte] at hf
    rw [wrapNull_ok hf]
    simp [nullableMeaning]

theorem instBuiltin_ok {rx k tys lits kw t} (h : instBuiltin rx k tys lits kw = .ok t) :
    builtinMeaning rx k tys lits kw = some t := by
  unfold instBuiltin at h
  unfold builtinMeaning
  split at h
  · rename_i tv htv; cases h; rw [htv]
  · cases h
  · cases h

theorem lookupSym_cases {items : List (Key × Item)} {ns name e} (h : lookupSym items ns name = some e) :
    (∃ i, e = .item i ∧ items.lookup (ns, name) = some i) ∨
    (∃ k, e = .builtin k ∧ items.lookup (ns, name) = none ∧ TyKind.ofName? name = some k) := by
  unfold lookupSym at h
  split at h
  · rename_i i hi; cases h; exact Or.inl ⟨i, rfl, hi⟩
  · rename_i hi
    cases hk : TyKind.ofName? name with
    | none => simp [hk] at h
    | some k => simp [hk] at h; exact Or.inr ⟨k, h.symm, hi, rfl⟩

/-- what `env[name]` says about the meaning of `name` in namespace `ns` -/
theorem meaning_of_lookup {E fs} (hE : EnvOK E fs) {ns name e} (h : E.lookup ns name = some e) :
    (∀ k, e = .builtin k → meaningIn fs ns name = some (.builtin k)) ∧
    (∀ d, e = .item (.type d) → meaningIn fs ns name = some (.user (ns, name))) ∧
    (∀ r, e = .item (.alias r) → meaningIn fs ns name = some (.alias (ns, name))) := by
  unfold Env.lookup at h
  split at h
  · cases h
    refine ⟨?_, ?_, ?_⟩ <;> intro _ he <;> cases he
  · rcases lookupSym_cases h with ⟨i, rfl, hi⟩ | ⟨k, rfl, hi, hk⟩
    · refine ⟨?_, ?_, ?_⟩
      · intro _ he; cases he
      · intro d he; cases he
        obtain ⟨d', hf, hd'⟩ := hE.findDef_of_lookup hi (Or.inl ⟨d, rfl⟩)
        cases d' <;> simp [itemOf] at hd'
        subst hd'
        simp [meaningIn, hf]
      · intro r he; cases he
        obtain ⟨d', hf, hd'⟩ := hE.findDef_of_lookup hi (Or.inr ⟨r, rfl⟩)
        cases d' <;> simp [itemOf] at hd'
        subst hd'
        simp [meaningIn, hf]
    · refine ⟨?_, ?_, ?_⟩
      · intro k' he; cases he
        simp [meaningIn, hE.findDef_none hi, hk]
      · intro _ he; cases he
      · intro _ he; cases he

theorem lookup_ns {E : Env} {cur q target} (h : E.lookup cur q = some (.ns target)) :
    E.imports.contains (cur, q) = true ∧ target = q := by
  unfold Env.lookup at h
  split at h
  · rename_i hc; cases h; exact ⟨hc, rfl⟩
  · rcases lookupSym_cases h with ⟨i, he, _⟩ | ⟨k, he, _⟩ <;> cases he

theorem headMeaning_of_lookup {E fs} (hE : EnvOK E fs) {cur h ens e} (hl : headLookup E cur h = .ok (ens, e)) :
    (∀ k, e = .builtin k → headMeaning fs cur h = some (ens, .builtin k)) ∧
    (∀ d, e = .item (.type d) → headMeaning fs cur h = some (ens, .user (ens, h.name))) ∧
    (∀ r, e = .item (.alias r) → headMeaning fs cur h = some (ens, .alias (ens, h.name))) := by
  unfold headLookup at hl
  unfold headMeaning
  split at hl
  · rename_i q hq
    split at hl
    · cases hl
    · rename_i target ht
      obtain ⟨hc, rfl⟩ := lookup_ns ht
      rw [hE.imported_iff] at hc
      split at hl
      · cases hl
      · rename_i e' he'
        cases hl
        have := meaning_of_lookup hE he'
        simp only [hc, ↓reduceIte]
        refine ⟨fun k hk => ?_, fun d hd => ?_, fun r hr => ?_⟩
        · rw [this.1 k hk]; rfl
        · rw [this.2.1 d hd]; rfl
        · rw [this.2.2 r hr]; rfl
    · cases hl
  · rename_i hq
    split at hl
    · cases hl
    · rename_i e' he'
      cases hl
      have := meaning_of_lookup hE he'
      refine ⟨fun k hk => ?_, fun d hd => ?_, fun r hr => ?_⟩
      · rw [this.1 k hk]; rfl
      · rw [this.2.1 d hd]; rfl
      · rw [this.2.2 r hr]; rfl

theorem nonClass_ok {ens h hasArgs e t} (hn : nonClass ens h hasArgs e = .ok t) :
    hasArgs = false ∧ ((∃ d, e = .item (.type d) ∧ t = .user (ens, h.name)) ∨
                       (∃ r, e = .item (.alias r) ∧ t = .alias (ens, h.name))) := by
  unfold nonClass at hn
  split at hn <;> try cases hn
  · split at hn
    · cases hn
    · rename_i hh; cases hn; exact ⟨by simpa using hh, Or.inl ⟨_, rfl, rfl⟩⟩
  · split at hn
    · cases hn
    · rename_i hh; cases hn; exact ⟨by simpa using hh, Or.inr ⟨_, rfl, rfl⟩⟩

theorem head_leaf (h : RefHead) (l) : (TRef.leaf h l).head = h := rfl
theorem head_app1 (h : RefHead) (a) : (TRef.app1 h a).head = h := rfl
theorem head_app2 (h : RefHead) (a b) : (TRef.app2 h a b).head = h := rfl

/-- a resolved reference is the denoted type; `wrap = false` leaves the `?` of the head off -/
theorem resolveW_denote {rx E fs A} (hE : EnvOK E fs) : ∀ (r : TRef) {wrap cur t},
    resolveW rx E A wrap cur r = .ok t →
    ∃ t0, denoteRef rx fs cur r = some (nullableMeaning r.head t0) ∧ t = if wrap then nullableMeaning r.head t0 else t0
  | .leaf h lits, wrap, cur, t, hr => by
    simp only [resolveW] at hr
    split at hr
    · cases hr
    · rename_i ens k hl
      split at hr
      · cases hr
      · split at hr
        · cases hr
        · rename_i t0 hi
          have hm := (headMeaning_of_lookup hE hl).1 k rfl
          refine ⟨t0, ?_, finish_ok hr⟩
          simp [denoteRef, hm, instBuiltin_ok hi, head_leaf, head_app1, head_app2]
    · rename_i ens ent hnb hl
      split at hr
      · cases hr
      · rename_i t0 hn
        obtain ⟨_, ⟨d, rfl, rfl⟩ | ⟨r', rfl, rfl⟩⟩ := nonClass_ok hn
        · have hm := (headMeaning_of_lookup hE hl).2.1 d rfl
          exact ⟨_, by simp [denoteRef, hm, head_leaf, head_app1, head_app2], finish_ok hr⟩
        · have hm := (headMeaning_of_lookup hE hl).2.2 r' rfl
          exact ⟨_, by simp [denoteRef, hm, head_leaf, head_app1, head_app2], finish_ok hr⟩
  | .app1 h a, wrap, cur, t, hr => by
    simp only [resolveW] at hr
    split at hr
    · cases hr
    · rename_i ens k hl
      split at hr
      · cases hr
      · split at hr
        · cases hr
        · rename_i ta ha
          split at hr
          · cases hr
          · rename_i t0 hi
            have hm := (headMeaning_of_lookup hE hl).1 k rfl
            obtain ⟨ta0, hda, hta⟩ := resolveW_denote hE a ha
            simp only [↓reduceIte] at hta
            subst hta
            refine ⟨t0, ?_, finish_ok hr⟩
            simp [denoteRef, hm, hda, instBuiltin_ok hi, head_leaf, head_app1, head_app2]
    · rename_i ens ent hnb hl
      split at hr
      · cases hr
      · rename_i t0 hn
        have := (nonClass_ok hn).1
        cases this
  | .app2 h a b, wrap, cur, t, hr => by
    simp only [resolveW] at hr
    split at hr
    · cases hr
    · rename_i ens k hl
      split at hr
      · cases hr
      · split at hr
        · cases hr
        · rename_i ta ha
          split at hr
          · cases hr
          · rename_i tb hb
            split at hr
            · cases hr
            · rename_i t0 hi
              have hm := (headMeaning_of_lookup hE hl).1 k rfl
              obtain ⟨ta0, hda, hta⟩ := resolveW_denote hE a ha
              obtain ⟨tb0, hdb, htb⟩ := resolveW_denote hE b hb
              simp only [↓reduceIte] at hta htb
              subst hta htb
              refine ⟨t0, ?_, finish_ok hr⟩
              simp [denoteRef, hm, hda, hdb, instBuiltin_ok hi, head_leaf, head_app1, head_app2]
    · rename_i ens ent hnb hl
      split at hr
      · cases hr
      · rename_i t0 hn
        have := (nonClass_ok hn).1
        cases this

theorem resolve_denote {rx E fs A} (hE : EnvOK E fs) {r cur t} (h : resolve rx E A cur r = .ok t) :
    denoteRef rx fs cur r = some t := by
  obtain ⟨t0, hd, ht⟩ := resolveW_denote hE r h
  simp only [↓reduceIte] at ht
  rw [hd, ht]

end StoneVerif.FeCompile.L
