import StoneVerif.Lemmas.RtCompatFwd3
/-!
Helper lemmas for C07, part 9: the induction over the document — every document the newer spec's decoder accepts (in
either mode) is accepted by the older spec's lenient decoder, as the A-view of what the newer decoder built.
-/
namespace StoneVerif.Rt.Compat
open StoneVerif.Rt

/-- primitives: `make_stone_friendly` without validation does not look at the environment -/
theorem knownDoc_void (A : Env) (fl : Flags) (j : JVal) : knownDoc A (.void fl) j = isNullJ j := by
  unfold knownDoc; cases j <;> rfl

theorem knownDoc_list_arr (A : Env) (fl : Flags) (item : PTy) (a b : Option Nat) (xs : List JVal) :
    knownDoc A (.list fl item a b) (.arr xs) = knownList A item xs := by
  unfold knownDoc; rfl

theorem knownDoc_map_obj (A : Env) (fl : Flags) (kt vt : PTy) (kvs : List (String × JVal)) :
    knownDoc A (.map fl kt vt) (.obj kvs) = knownVals A vt kvs := by
  unfold knownDoc; rfl

theorem msf_sub (E : Ext) (A B : Env) {ρ : Rho} {tA tB : PTy} (h : tySub ρ tA tB = true) (hp : isPrimTy tB = true)
    (sA sB : Bool) (j : JVal) (w : PyVal) (hk : sA = true → knownDoc A tA j = true)
    (hd : makeStoneFriendly E B [] sB false tB j = .ok w) :
    makeStoneFriendly E A [] sA false tA j = .ok w := by
  cases tB <;> simp only [isPrimTy, Bool.false_eq_true] at hp <;> cases tA <;>
    simp only [tySub, Bool.false_eq_true, Bool.and_eq_true, beq_iff_eq] at h
  case ts.ts =>
    obtain ⟨_, rfl⟩ := h
    simpa [makeStoneFriendly] using hd
  case void.void =>
    simp only [makeStoneFriendly] at hd ⊢
    rw [knownDoc_void] at hk
    cases sA <;> cases sB <;> cases j <;> simp_all [verr, isNullJ]
  all_goals (simpa [makeStoneFriendly] using hd)

theorem view_list_list (ρ : Rho) (A : Env) (fl : Flags) (item : PTy) (a b : Option Nat) (xs : List PyVal) :
    view ρ A (.list fl item a b) (.list xs) = .list (viewList ρ A item xs) := by
  unfold view; rfl

theorem view_map_dict (ρ : Rho) (A : Env) (fl : Flags) (kt vt : PTy) (kvs : List (PyVal × PyVal)) :
    view ρ A (.map fl kt vt) (.dict kvs) = .dict (viewDict ρ A vt kvs) := by
  unfold view; rfl

mutual
/-- the simulation, for every document -/
theorem decode_sub (E : Ext) {ρ : Rho} {A B : Env} (cx : Ctx ρ A B) :
    ∀ (j : JVal) (tA tB : PTy) (sA sB : Bool) (w : PyVal), tySub ρ tA tB = true → tyWF A tA = true →
      (sA = true → knownDoc A tA j = true) →
      decode E B [] sB tB j = .ok w → decode E A [] sA tA j = .ok (view ρ A tA w)
  | j, tA, tB, sA, sB, w, h, hw, hk, hd => by
    have hn := tySub_nullable h
    by_cases hnull : (tB.flags.nullable && isNullJ j) = true
    · -- nullable, null
      have hj : j = .null := by cases j <;> simp_all [isNullJ]
      subst hj
      simp only [isNullJ, Bool.and_true] at hnull
      rw [decode_null_nullable E B sB tB hnull] at hd
      cases hd
      rw [decode_null_nullable E A sA tA (hn ▸ hnull), view_none]
    · simp only [Bool.not_eq_true] at hnull
      by_cases hp : isPrimTy tB = true
      · have hpa : isPrimTy tA = true := by rw [tySub_isPrim h]; exact hp
        rw [decode_prim E B sB hp, hnull] at hd
        rw [decode_prim E A sA hpa, hn, hnull]
        simp only [Bool.false_eq_true, if_false] at hd ⊢
        have := msf_sub E A B h hp sA sB j w hk hd
        rw [this, view_prim ρ A hpa]
      · cases tA <;> cases tB <;> simp only [tySub, Bool.false_eq_true, Bool.and_eq_true, beq_iff_eq] at h <;>
          simp only [isPrimTy, not_true_eq_false] at hp
        case list.list f ia a b g ib a' b' =>
          obtain ⟨⟨⟨_, hi⟩, rfl⟩, rfl⟩ := h
          have hwi : tyWF A ia = true := by simpa [tyWF] using hw
          cases j with
          | arr xs =>
            rw [decode_list_arr] at hd ⊢
            cases hl : decodeList E B [] sB ib xs with
            | error e => simp [hl, Except.map] at hd
            | ok ys =>
              simp only [hl, Except.map, Except.ok.injEq] at hd
              subst hd
              rw [knownDoc_list_arr] at hk
              rw [decodeList_sub E cx xs ia ib sA sB ys hi hwi hk hl, view_list_list]
              rfl
          | _ => unfold decode at hd; simp_all [PTy.flags, verr, isNullJ]
        case map.map f ka va g kb vb =>
          obtain ⟨⟨_, _⟩, hvt⟩ := h
          have hwv : tyWF A va = true := by
            simp only [tyWF, Bool.and_eq_true] at hw; exact hw.2
          cases j with
          | obj kvs =>
            rw [decode_map_obj] at hd ⊢
            cases hl : decodeMap E B [] sB vb kvs with
            | error e => simp [hl, Except.map] at hd
            | ok ys =>
              simp only [hl, Except.map, Except.ok.injEq] at hd
              subst hd
              rw [knownDoc_map_obj] at hk
              rw [decodeMap_sub E cx kvs va vb sA sB ys hvt hwv hk hl, view_map_dict]
              rfl
          | _ => unfold decode at hd; simp_all [PTy.flags, verr, isNullJ]
        case struct.struct f c g c' =>
          obtain ⟨hfl, hr⟩ := h
          obtain ⟨sa, hsa⟩ := tyWF_struct hw
          cases j with
          | null =>
            simp only [PTy.flags, isNullJ, Bool.and_true] at hnull hn
            rw [decode_struct_null, hnull] at hd
            rw [decode_struct_null, hn, hnull]
            simp only [Bool.false_eq_true, if_false] at hd ⊢
            have hhd : hasDefault A (.struct {} c) = hasDefault B (.struct {} c') :=
              hasDefault_sub cx (by simp [tySub, hr]) (by simpa [tyWF] using hw)
            rw [hhd]
            by_cases hdf : hasDefault B (.struct {} c') = true
            · simp only [hdf, if_true, Except.ok.injEq] at hd ⊢
              subst hd
              simp [view_struct_struct, viewSlots, orderSlots_nil]
            · simp [hdf, verr] at hd
          | obj kvs =>
            exact decode_struct_sub E cx hr hsa kvs sA sB w (members_sub E cx kvs sA sB) hk hd
          | _ => unfold decode at hd; simp_all [PTy.flags, verr, isNullJ]
        case tree.tree f c g c' =>
          obtain ⟨hfl, hr⟩ := h
          obtain ⟨sa, hsa⟩ := tyWF_tree hw
          have hta : sa.subtypes.isSome = true := by
            simp only [tyWF, hsa] at hw; exact hw
          cases j with
          | obj kvs =>
            exact decode_tree_sub E cx hr hsa hta kvs sA sB w (members_sub E cx kvs sA sB) hk hd
          | _ => unfold decode at hd; simp_all [PTy.flags, verr, isNullJ]
        case union.union f c g c' =>
          obtain ⟨hfl, hr⟩ := h
          obtain ⟨ua, hua⟩ := tyWF_union hw
          cases j with
          | obj kvs =>
            exact decode_union_sub E cx hr hua (.obj kvs) sA sB w (by simpa [PTy.flags] using hnull)
              (fun kvs' hk' => by cases hk'; exact members_sub E cx kvs sA sB) hk hd
          | str s =>
            exact decode_union_sub E cx hr hua (.str s) sA sB w (by simpa [PTy.flags] using hnull)
              (fun kvs' hk' => by cases hk') hk hd
          | null =>
            exact decode_union_sub E cx hr hua .null sA sB w (by simpa [PTy.flags] using hnull)
              (fun kvs' hk' => by cases hk') hk hd
          | bool b =>
            exact decode_union_sub E cx hr hua (.bool b) sA sB w (by simp [isNullJ]) (fun kvs' hk' => by cases hk') hk hd
          | int n =>
            exact decode_union_sub E cx hr hua (.int n) sA sB w (by simp [isNullJ]) (fun kvs' hk' => by cases hk') hk hd
          | flt x =>
            exact decode_union_sub E cx hr hua (.flt x) sA sB w (by simp [isNullJ]) (fun kvs' hk' => by cases hk') hk hd
          | arr xs =>
            exact decode_union_sub E cx hr hua (.arr xs) sA sB w (by simp [isNullJ]) (fun kvs' hk' => by cases hk') hk hd
theorem decodeList_sub (E : Ext) {ρ : Rho} {A B : Env} (cx : Ctx ρ A B) :
    ∀ (xs : List JVal) (tA tB : PTy) (sA sB : Bool) (ys : List PyVal), tySub ρ tA tB = true → tyWF A tA = true →
      (sA = true → knownList A tA xs = true) →
      decodeList E B [] sB tB xs = .ok ys → decodeList E A [] sA tA xs = .ok (viewList ρ A tA ys)
  | [], tA, tB, sA, sB, ys, _, _, _, hd => by
    simp only [decodeList, Except.ok.injEq] at hd
    subst hd
    simp [decodeList, viewList]
  | x :: xs, tA, tB, sA, sB, ys, h, hw, hk, hd => by
    have hk1 : sA = true → knownDoc A tA x = true := fun hs => by
      have := hk hs; simp only [knownList, Bool.and_eq_true] at this; exact this.1
    have hk2 : sA = true → knownList A tA xs = true := fun hs => by
      have := hk hs; simp only [knownList, Bool.and_eq_true] at this; exact this.2
    simp only [decodeList, bind, Except.bind] at hd
    cases h1 : decode E B [] sB tB x with
    | error e => simp [h1] at hd
    | ok y =>
      simp only [h1] at hd
      cases h2 : decodeList E B [] sB tB xs with
      | error e => simp [h2] at hd
      | ok ys' =>
        simp only [h2, pure, Except.pure, Except.ok.injEq] at hd
        subst hd
        simp only [decodeList, bind, Except.bind, decode_sub E cx x tA tB sA sB y h hw hk1 h1,
          decodeList_sub E cx xs tA tB sA sB ys' h hw hk2 h2, pure, Except.pure, viewList]
theorem decodeMap_sub (E : Ext) {ρ : Rho} {A B : Env} (cx : Ctx ρ A B) :
    ∀ (kvs : List (String × JVal)) (tA tB : PTy) (sA sB : Bool) (ys : List (PyVal × PyVal)), tySub ρ tA tB = true →
      tyWF A tA = true → (sA = true → knownVals A tA kvs = true) → decodeMap E B [] sB tB kvs = .ok ys →
      decodeMap E A [] sA tA kvs = .ok (viewDict ρ A tA ys)
  | [], tA, tB, sA, sB, ys, _, _, _, hd => by
    simp only [decodeMap, Except.ok.injEq] at hd
    subst hd
    simp [decodeMap, viewDict]
  | (k, x) :: rest, tA, tB, sA, sB, ys, h, hw, hk, hd => by
    have hk1 : sA = true → knownDoc A tA x = true := fun hs => by
      have := hk hs; simp only [knownVals, Bool.and_eq_true] at this; exact this.1
    have hk2 : sA = true → knownVals A tA rest = true := fun hs => by
      have := hk hs; simp only [knownVals, Bool.and_eq_true] at this; exact this.2
    simp only [decodeMap, bind, Except.bind] at hd
    cases h1 : decode E B [] sB tB x with
    | error e => simp [h1] at hd
    | ok y =>
      simp only [h1] at hd
      cases h2 : decodeMap E B [] sB tB rest with
      | error e => simp [h2] at hd
      | ok ys' =>
        simp only [h2, pure, Except.pure, Except.ok.injEq] at hd
        subst hd
        simp only [decodeMap, bind, Except.bind, decode_sub E cx x tA tB sA sB y h hw hk1 h1,
          decodeMap_sub E cx rest tA tB sA sB ys' h hw hk2 h2, pure, Except.pure, viewDict]
theorem members_sub (E : Ext) {ρ : Rho} {A B : Env} (cx : Ctx ρ A B) :
    ∀ (kvs : List (String × JVal)) (sA sB : Bool), MembersIH E ρ A B sA sB kvs
  | [], sA, sB => by
    intro tblA tblB k ftA ftB _ _ _ _ _
    simp [ChildRel, decodeMembers, childLookup]
  | (k0, x) :: rest, sA, sB => by
    intro tblA tblB k ftA ftB hkm hfa hfb hty hw
    have hkm2 : sA = true → knownMembers A tblA rest = true := fun hs => by
      have := hkm hs; simp only [knownMembers, Bool.and_eq_true] at this; exact this.2
    have ih := members_sub E cx rest sA sB tblA tblB k ftA ftB hkm2 hfa hfb hty hw
    unfold ChildRel at ih ⊢
    by_cases hk : k0 = k
    · subst hk
      simp only [decodeMembers, hfa, hfb, childLookup, beq_self_eq_true, if_true]
      cases hdx : decode E B [] sB ftB x with
      | error e => trivial
      | ok v =>
        simp only []
        have hkx : sA = true → knownDoc A ftA x = true := fun hs => by
          have := hkm hs
          simp only [knownMembers, hfa, Bool.and_eq_true] at this
          exact this.1
        rw [decode_sub E cx x ftA ftB sA sB v hty hw hkx hdx]
    · have hne : (k0 == k) = false := by simpa using hk
      have hA : childLookup k (decodeMembers E A [] sA tblA ((k0, x) :: rest)) =
          childLookup k (decodeMembers E A [] sA tblA rest) := by
        simp only [decodeMembers]
        split <;> simp [childLookup, hne]
      have hB : childLookup k (decodeMembers E B [] sB tblB ((k0, x) :: rest)) =
          childLookup k (decodeMembers E B [] sB tblB rest) := by
        simp only [decodeMembers]
        split <;> simp [childLookup, hne]
      rw [hA, hB]
      exact ih
end

end StoneVerif.Rt.Compat
