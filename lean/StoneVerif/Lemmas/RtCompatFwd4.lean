import StoneVerif.Lemmas.RtCompatFwd3
/-!
Helper lemmas for C07, part 9: the induction over the document — every document the newer spec's decoder accepts (in
either mode) is accepted by the older spec's lenient decoder, as the A-view of what the newer decoder built.
-/
namespace StoneVerif.Rt.Compat
open StoneVerif.Rt

/-- primitives: `make_stone_friendly` without validation does not look at the environment -/
theorem msf_sub (E : Ext) (A B : Env) {ρ : Rho} {tA tB : PTy} (h : tySub ρ tA tB = true) (hp : isPrimTy tB = true)
    (sB : Bool) (j : JVal) (w : PyVal) (hd : makeStoneFriendly E B [] sB false tB j = .ok w) :
    makeStoneFriendly E A [] false false tA j = .ok w := by
  cases tB <;> simp only [isPrimTy, Bool.false_eq_true] at hp <;> cases tA <;>
    simp only [tySub, Bool.false_eq_true, Bool.and_eq_true, beq_iff_eq] at h
  case ts.ts =>
    obtain ⟨_, rfl⟩ := h
    simpa [makeStoneFriendly] using hd
  case void.void =>
    simp only [makeStoneFriendly] at hd ⊢
    cases sB <;> cases j <;> simp_all [verr]
  all_goals (simpa [makeStoneFriendly] using hd)

theorem view_list_list (ρ : Rho) (A : Env) (fl : Flags) (item : PTy) (a b : Option Nat) (xs : List PyVal) :
    view ρ A (.list fl item a b) (.list xs) = .list (viewList ρ A item xs) := by
  unfold view; rfl

theorem view_map_dict (ρ : Rho) (A : Env) (fl : Flags) (kt vt : PTy) (kvs : List (PyVal × PyVal)) :
    view ρ A (.map fl kt vt) (.dict kvs) = .dict (viewDict ρ A vt kvs) := by
  unfold view; rfl

mutual
/-- the simulation, for every document -/
theorem decode_sub (E : Ext) {ρ : Rho} {A B : Env} (cx : Ctx ρ A B) :
    ∀ (j : JVal) (tA tB : PTy) (sB : Bool) (w : PyVal), tySub ρ tA tB = true → tyWF A tA = true →
      decode E B [] sB tB j = .ok w → decode E A [] false tA j = .ok (view ρ A tA w)
  | j, tA, tB, sB, w, h, hw, hd => by
    have hn := tySub_nullable h
    by_cases hnull : (tB.flags.nullable && isNullJ j) = true
    · -- nullable, null
      have hj : j = .null := by cases j <;> simp_all [isNullJ]
      subst hj
      simp only [isNullJ, Bool.and_true] at hnull
      rw [decode_null_nullable E B sB tB hnull] at hd
      cases hd
      rw [decode_null_nullable E A false tA (hn ▸ hnull), view_none]
    · simp only [Bool.not_eq_true] at hnull
      by_cases hp : isPrimTy tB = true
      · have hpa : isPrimTy tA = true := by rw [tySub_isPrim h]; exact hp
        rw [decode_prim E B sB hp, hnull] at hd
        rw [decode_prim E A false hpa, hn, hnull]
        simp only [Bool.false_eq_true, if_false] at hd ⊢
        have := msf_sub E A B h hp sB j w hd
        rw [this, view_prim ρ A hpa]
      · cases tA <;> cases tB <;> simp only [tySub, Bool.false_eq_true, Bool.and_eq_true, beq_iff_eq] at h <;>
          simp only [isPrimTy, not_true_eq_false] at hp
        case list.list f ia a b g ib a' b' =>
          obtain ⟨⟨⟨_, hi⟩, rfl⟩, rfl⟩ := h
          have hwi : tyWF A ia = true := by simpa [tyWF] using hw
          cases j with
          | arr xs =>
            rw [decode_list_arr] at hd ⊢
            cases hl : decodeList E B [] sB ib xs with
            | error e => simp [hl, Except.map] at hd
            | ok ys =>
              simp only [hl, Except.map, Except.ok.injEq] at hd
              subst hd
              rw [decodeList_sub E cx xs ia ib sB ys hi hwi hl, view_list_list]
              rfl
          | _ => unfold decode at hd; simp_all [PTy.flags, verr, isNullJ]
        case map.map f ka va g kb vb =>
          obtain ⟨⟨_, _⟩, hvt⟩ := h
          have hwv : tyWF A va = true := by
            simp only [tyWF, Bool.and_eq_true] at hw; exact hw.2
          cases j with
          | obj kvs =>
            rw [decode_map_obj] at hd ⊢
            cases hl : decodeMap E B [] sB vb kvs with
            | error e => simp [hl, Except.map] at hd
            | ok ys =>
              simp only [hl, Except.map, Except.ok.injEq] at hd
              subst hd
              rw [decodeMap_sub E cx kvs va vb sB ys hvt hwv hl, view_map_dict]
              rfl
          | _ => unfold decode at hd; simp_all [PTy.flags, verr, isNullJ]
        case struct.struct f c g c' =>
          obtain ⟨hfl, hr⟩ := h
          obtain ⟨sa, hsa⟩ := tyWF_struct hw
          cases j with
          | null =>
            simp only [PTy.flags, isNullJ, Bool.and_true] at hnull hn
            rw [decode_struct_null, hnull] at hd
            rw [decode_struct_null, hn, hnull]
            simp only [Bool.false_eq_true, if_false] at hd ⊢
            have hhd : hasDefault A (.struct {} c) = hasDefault B (.struct {} c') :=
              hasDefault_sub cx (by simp [tySub, hr]) (by simpa [tyWF] using hw)
            rw [hhd]
            by_cases hdf : hasDefault B (.struct {} c') = true
            · simp only [hdf, if_true, Except.ok.injEq] at hd ⊢
              subst hd
              simp [view_struct_struct, viewSlots, orderSlots_nil]
            · simp [hdf, verr] at hd
          | obj kvs =>
            exact decode_struct_sub E cx hr hsa kvs sB w (members_sub E cx kvs sB) hd
          | _ => unfold decode at hd; simp_all [PTy.flags, verr, isNullJ]
        case tree.tree f c g c' =>
          obtain ⟨hfl, hr⟩ := h
          obtain ⟨sa, hsa⟩ := tyWF_tree hw
          have hta : sa.subtypes.isSome = true := by
            simp only [tyWF, hsa] at hw; exact hw
          cases j with
          | obj kvs =>
            exact decode_tree_sub E cx hr hsa hta kvs sB w (members_sub E cx kvs sB) hd
          | _ => unfold decode at hd; simp_all [PTy.flags, verr, isNullJ]
        case union.union f c g c' =>
          obtain ⟨hfl, hr⟩ := h
          obtain ⟨ua, hua⟩ := tyWF_union hw
          cases j with
          | obj kvs =>
            exact decode_union_sub E cx hr hua (.obj kvs) sB w (by simpa [PTy.flags] using hnull)
              (fun kvs' hk => by cases hk; exact members_sub E cx kvs sB) hd
          | str s =>
            exact decode_union_sub E cx hr hua (.str s) sB w (by simpa [PTy.flags] using hnull)
              (fun kvs' hk => by cases hk) hd
          | null =>
            exact decode_union_sub E cx hr hua .null sB w (by simpa [PTy.flags] using hnull)
              (fun kvs' hk => by cases hk) hd
          | bool b =>
            exact decode_union_sub E cx hr hua (.bool b) sB w (by simp [isNullJ]) (fun kvs' hk => by cases hk) hd
          | int n =>
            exact decode_union_sub E cx hr hua (.int n) sB w (by simp [isNullJ]) (fun kvs' hk => by cases hk) hd
          | flt x =>
            exact decode_union_sub E cx hr hua (.flt x) sB w (by simp [isNullJ]) (fun kvs' hk => by cases hk) hd
          | arr xs =>
            exact decode_union_sub E cx hr hua (.arr xs) sB w (by simp [isNullJ]) (fun kvs' hk => by cases hk) hd
theorem decodeList_sub (E : Ext) {ρ : Rho} {A B : Env} (cx : Ctx ρ A B) :
    ∀ (xs : List JVal) (tA tB : PTy) (sB : Bool) (ys : List PyVal), tySub ρ tA tB = true → tyWF A tA = true →
      decodeList E B [] sB tB xs = .ok ys → decodeList E A [] false tA xs = .ok (viewList ρ A tA ys)
  | [], tA, tB, sB, ys, _, _, hd => by
    simp only [decodeList, Except.ok.injEq] at hd
    subst hd
    simp [decodeList, viewList]
  | x :: xs, tA, tB, sB, ys, h, hw, hd => by
    simp only [decodeList, bind, Except.bind] at hd
    cases h1 : decode E B [] sB tB x with
    | error e => simp [h1] at hd
    | ok y =>
      simp only [h1] at hd
      cases h2 : decodeList E B [] sB tB xs with
      | error e => simp [h2] at hd
      | ok ys' =>
        simp only [h2, pure, Except.pure, Except.ok.injEq] at hd
        subst hd
        simp only [decodeList, bind, Except.bind, decode_sub E cx x tA tB sB y h hw h1,
          decodeList_sub E cx xs tA tB sB ys' h hw h2, pure, Except.pure, viewList]
theorem decodeMap_sub (E : Ext) {ρ : Rho} {A B : Env} (cx : Ctx ρ A B) :
    ∀ (kvs : List (String × JVal)) (tA tB : PTy) (sB : Bool) (ys : List (PyVal × PyVal)), tySub ρ tA tB = true →
      tyWF A tA = true → decodeMap E B [] sB tB kvs = .ok ys →
      decodeMap E A [] false tA kvs = .ok (viewDict ρ A tA ys)
  | [], tA, tB, sB, ys, _, _, hd => by
    simp only [decodeMap, Except.ok.injEq] at hd
    subst hd
    simp [decodeMap, viewDict]
  | (k, x) :: rest, tA, tB, sB, ys, h, hw, hd => by
    simp only [decodeMap, bind, Except.bind] at hd
    cases h1 : decode E B [] sB tB x with
    | error e => simp [h1] at hd
    | ok y =>
      simp only [h1] at hd
      cases h2 : decodeMap E B [] sB tB rest with
      | error e => simp [h2] at hd
      | ok ys' =>
        simp only [h2, pure, Except.pure, Except.ok.injEq] at hd
        subst hd
        simp only [decodeMap, bind, Except.bind, decode_sub E cx x tA tB sB y h hw h1,
          decodeMap_sub E cx rest tA tB sB ys' h hw h2, pure, Except.pure, viewDict]
theorem members_sub (E : Ext) {ρ : Rho} {A B : Env} (cx : Ctx ρ A B) :
    ∀ (kvs : List (String × JVal)) (sB : Bool), MembersIH E ρ A B sB kvs
  | [], sB => by
    intro tblA tblB k ftA ftB _ _ _ _
    simp [ChildRel, decodeMembers, childLookup]
  | (k0, x) :: rest, sB => by
    intro tblA tblB k ftA ftB hfa hfb hty hw
    have ih := members_sub E cx rest sB tblA tblB k ftA ftB hfa hfb hty hw
    unfold ChildRel at ih ⊢
    by_cases hk : k0 = k
    · subst hk
      simp only [decodeMembers, hfa, hfb, childLookup, beq_self_eq_true, if_true]
      cases hdx : decode E B [] sB ftB x with
      | error e => trivial
      | ok v =>
        simp only []
        rw [decode_sub E cx x ftA ftB sB v hty hw hdx]
    · have hne : (k0 == k) = false := by simpa using hk
      have hA : childLookup k (decodeMembers E A [] false tblA ((k0, x) :: rest)) =
          childLookup k (decodeMembers E A [] false tblA rest) := by
        simp only [decodeMembers]
        split <;> simp [childLookup, hne]
      have hB : childLookup k (decodeMembers E B [] sB tblB ((k0, x) :: rest)) =
          childLookup k (decodeMembers E B [] sB tblB rest) := by
        simp only [decodeMembers]
        split <;> simp [childLookup, hne]
      rw [hA, hB]
      exact ih
end

end StoneVerif.Rt.Compat
