import StoneVerif.Lemmas.GraphSeeds
/-! The reference closure is closed / least; the code-following filter against it. -/
namespace StoneVerif.Graph

/-- a set of ids closed under the dependency relation -/
def Closed (g : Graph) (T : Id → Prop) : Prop := ∀ t u, T t → Edge g t u → T u

theorem closure_contains_seeds' (g : Graph) (S : List Id) : ∀ s ∈ S, s ∈ closure g S := by
  intro s hs
  exact subset_iter _ _ s (mem_addAll.2 (Or.inr hs))

theorem closure_least' (g : Graph) (S : List Id) (T : Id → Prop) (hS : ∀ s ∈ S, T s) (hT : Closed g T) :
    ∀ x ∈ closure g S, T x := by
  apply iter_subset T
  · intro a ha b hb
    exact hT a b ha ((edge_iff_mem_succ g a b).2 hb)
  · intro x hx
    rcases mem_addAll.1 hx with h | h
    · simp at h
    · exact hS x h

theorem succ_mem_ids {g : Graph} (hwf : g.refsOk = true) {a b : Id} (hb : b ∈ succ g a) : b ∈ g.ids := by
  simp only [succ] at hb
  split at hb
  · rename_i n hn
    simp only [Graph.refsOk, Bool.and_eq_true, List.all_eq_true] at hwf
    have := (hwf.1 n (node?_mem hn).1).2 b hb
    simpa using this
  · simp at hb

theorem closure_closed' (g : Graph) (hwf : g.refsOk = true) (S : List Id) (hS : ∀ s ∈ S, s ∈ g.ids) :
    Closed g (· ∈ closure g S) := by
  intro t u ht he
  have hst : Stable (succ g) (closure g S) := by
    apply iter_stable g.ids
    · intro a _ b hb
      exact succ_mem_ids hwf hb
    · intro x hx
      rcases mem_addAll.1 hx with h | h
      · simp at h
      · exact hS x h
    · exact nodup_addAll List.nodup_nil
    · simp [Graph.ids]
  exact hst t ht u ((edge_iff_mem_succ g t u).1 he)

/-! ## the seeds are ids of the dump -/

theorem mem_ids_of_node {g : Graph} {a : Id} {n : Node} (h : g.node? a = some n) : a ∈ g.ids := by
  obtain ⟨h1, h2⟩ := node?_mem h
  simp only [Graph.ids, List.mem_map]
  exact ⟨n, h1, h2⟩

theorem typeByName_ids {g : Graph} {ns t : String} {b : Id} (h : b ∈ (g.typeByName ns t).toList) : b ∈ g.ids := by
  cases h1 : g.typeByName ns t with
  | none => simp [h1] at h
  | some x =>
    simp only [h1, Option.toList_some, List.mem_singleton] at h
    subst h
    obtain ⟨n, hn, _⟩ := typeByName_some h1
    exact mem_ids_of_node hn

theorem routeByName_ids {g : Graph} {ns t : String} {v : Nat} {b : Id} (h : b ∈ (g.routeByName ns t v).toList) :
    b ∈ g.ids := by
  cases h1 : g.routeByName ns t v with
  | none => simp [h1] at h
  | some x =>
    simp only [h1, Option.toList_some, List.mem_singleton] at h
    subst h
    obtain ⟨n, hn, _⟩ := routeByName_some h1
    exact mem_ids_of_node hn

theorem typeOrAlias_ids {g : Graph} {ns t : String} {b : Id}
    (h : b ∈ ((g.typeByName ns t).orElse fun _ => g.aliasByName ns t).toList) : b ∈ g.ids := by
  cases h1 : g.typeByName ns t with
  | some x =>
    simp only [h1, Option.orElse_some, Option.toList_some, List.mem_singleton] at h
    subst h
    obtain ⟨n, hn, _⟩ := typeByName_some h1
    exact mem_ids_of_node hn
  | none =>
    simp only [h1, Option.orElse_none] at h
    cases h2 : g.aliasByName ns t with
    | none => simp [h2] at h
    | some x =>
      simp only [h2, Option.toList_some, List.mem_singleton] at h
      subst h
      obtain ⟨n, hn, _⟩ := aliasByName_some h2
      exact mem_ids_of_node hn

theorem routeTargets_ids {g : Graph} {ns rp : String} {b : Id} (h : b ∈ routeTargets g ns rp) : b ∈ g.ids := by
  simp only [routeTargets] at h
  split at h
  · exact routeByName_ids h
  · simp at h

theorem refTargets_ids {g : Graph} {ns : String} {r : DocRef} {b : Id} (h : b ∈ refTargets g ns r) : b ∈ g.ids := by
  simp only [refTargets] at h
  split at h
  · split at h
    · exact typeByName_ids h
    · exact typeByName_ids h
    · simp at h
  · split at h
    · split at h
      · exact typeOrAlias_ids h
      · exact typeOrAlias_ids h
      · simp at h
    · split at h
      · split at h
        · exact routeTargets_ids h
        · exact routeTargets_ids h
      · simp at h

theorem docTargets_ids {g : Graph} {ns : String} {refs : List DocRef} {b : Id} (h : b ∈ docTargets g ns refs) :
    b ∈ g.ids := by
  simp only [docTargets, List.mem_flatMap] at h
  obtain ⟨r, _, hb⟩ := h
  exact refTargets_ids hb

theorem wlRouteIds_route {g : Graph} (hwf : g.refsOk = true) {ns : String} {reprs : List String} {r : Id}
    (h : r ∈ wlRouteIds g ns reprs) : ∃ nd, g.node? r = some nd ∧ nd.isRoute = true ∧ nd.ns = ns := by
  simp only [wlRouteIds] at h
  split at h
  · split at h
    · rename_i n hn
      exact refsOk_routes hwf hn h
    · simp at h
  · simp only [List.mem_flatMap] at h
    obtain ⟨rp, _, h⟩ := h
    split at h
    · rename_i name v _
      cases h1 : g.routeByName ns name v with
      | none => simp [h1] at h
      | some x =>
        simp only [h1, Option.toList_some, List.mem_singleton] at h
        subst h
        obtain ⟨n, hn, hk, hns, _⟩ := routeByName_some h1
        exact ⟨n, hn, hk, hns⟩
    · simp at h

theorem seeds_mem_ids {g : Graph} (hwf : g.refsOk = true) (wl : Whitelist) : ∀ s ∈ seeds g wl, s ∈ g.ids := by
  intro s hs
  have hns : ∀ ns, s ∈ nsDocSeeds g ns → s ∈ g.ids := by
    intro ns h
    simp only [nsDocSeeds] at h
    split at h
    · exact docTargets_ids h
    · simp at h
  simp only [seeds, List.mem_append, List.mem_flatMap] at hs
  rcases hs with ⟨p, _, h | h⟩ | ⟨p, _, h | h⟩
  · exact hns _ h
  · obtain ⟨nd, hnd, _⟩ := wlRouteIds_route hwf h
    exact mem_ids_of_node hnd
  · exact hns _ h
  · obtain ⟨t, _, h⟩ := h
    exact typeByName_ids h

/-! ## the filter, unpacked -/

/-- the starting points handed to the walk: the data types, then the routes the starting docs refer to -/
def startOf (rs ds : Seeds) : List Id := rs.types ++ ds.types ++ (rs.docRoutes ++ ds.docRoutes)

theorem mem_startOf {rs ds : Seeds} {b : Id} : b ∈ startOf rs ds ↔ b ∈ rs.all ∨ b ∈ ds.all := by
  simp only [startOf, Seeds.all, List.mem_append]
  constructor
  · rintro ((h | h) | (h | h))
    · exact Or.inl (Or.inl h)
    · exact Or.inr (Or.inl h)
    · exact Or.inl (Or.inr h)
    · exact Or.inr (Or.inr h)
  · rintro ((h | h) | (h | h))
    · exact Or.inl (Or.inl h)
    · exact Or.inr (Or.inl h)
    · exact Or.inl (Or.inr h)
    · exact Or.inr (Or.inr h)

theorem whitelistFilter_ok {g : Graph} {wl : Whitelist} {r : Filtered} (h : whitelistFilter g wl = .ok r) :
    ∃ canon rs ds st,
      canonicalRoutes g wl.routes = .ok canon ∧ routeWhitelistSeeds g canon = .ok rs ∧
      datatypeWhitelistSeeds g wl.datatypes = .ok ds ∧
      dfs g (g.dfsFuel (startOf rs ds).length) ((startOf rs ds).map .node) {} = .ok st ∧
      r.types = st.types ∧ r.routes = addAll [] (rs.ids ++ st.routes) ∧
      filterAliases g st.types (g.dfsFuel 0) g.allAliases = .ok r.aliases ∧
      r.seen = st.seen ∧ r.start = startOf rs ds := by
  simp only [whitelistFilter] at h
  split at h
  · simp at h
  · rename_i canon hc
    split at h
    · simp at h
    · rename_i rs hr
      split at h
      · simp at h
      · rename_i ds hd
        split at h
        · simp at h
        · rename_i st hst
          split at h
          · simp at h
          · rename_i als hals
            cases h
            exact ⟨canon, rs, ds, st, hc, hr, hd, hst, rfl, rfl, hals, rfl, rfl⟩

/-- what a doc refers to lies in every set that contains its targets -/
theorem docStart_closed {g : Graph} {T : Id → Prop} {ns : String} {refs : List DocRef}
    (hdoc : ∀ b ∈ docTargets g ns refs, T b) {b : Id} (hb : b ∈ docStart g ns refs) : T b :=
  hdoc b (mem_docStart.1 hb)

theorem node_docTargets_closed {g : Graph} {T : Id → Prop} (hT : Closed g T) {a : Id} {n : Node}
    (hn : g.node? a = some n) (ha : T a) : ∀ b ∈ docTargets g n.ns (docsOf g a), T b := by
  intro b hb
  simp only [docsOf, hn, docTargets, List.mem_flatMap] at hb
  obtain ⟨r, hr, hb⟩ := hb
  exact hT _ _ ha (.docRef hn hr hb)

/-- every starting point of the walk lies in every closed set that contains the seeds -/
theorem start_sound {g : Graph} (hwf : g.refsOk = true) (hda : docsAgree g = true) {wl : Whitelist}
    {T : Id → Prop} (hT : Closed g T) (hseeds : ∀ s ∈ seeds g wl, T s)
    {canon} {rs ds : Seeds}
    (hc : canonicalRoutes g wl.routes = .ok canon) (hr : routeWhitelistSeeds g canon = .ok rs)
    (hd : datatypeWhitelistSeeds g wl.datatypes = .ok ds) :
    (∀ b ∈ startOf rs ds, T b) ∧ (∀ r ∈ rs.ids, T r) := by
  obtain ⟨i1, i2, i3⟩ := routeWhitelistSeeds_spec hwf hda hc hr
  obtain ⟨d1, d2⟩ := datatypeWhitelistSeeds_spec hda hd
  have hwlr : ∀ p ∈ wl.routes, ∀ r ∈ wlRouteIds g p.1 p.2, T r := by
    intro p hp r hr'
    apply hseeds
    simp only [seeds, List.mem_append, List.mem_flatMap]
    exact Or.inl ⟨p, hp, Or.inr hr'⟩
  have hnsr : ∀ p ∈ wl.routes, ∀ b ∈ nsStart g p.1, T b := by
    intro p hp b hb
    simp only [nsStart] at hb
    split at hb
    · rename_i n hn
      refine docStart_closed ?_ hb
      intro c hc'
      apply hseeds
      simp only [seeds, List.mem_append, List.mem_flatMap]
      exact Or.inl ⟨p, hp, Or.inl (by simpa [nsDocSeeds, hn] using hc')⟩
    · simp at hb
  have hnsd : ∀ p ∈ wl.datatypes, ∀ b ∈ nsStart g p.1, T b := by
    intro p hp b hb
    simp only [nsStart] at hb
    split at hb
    · rename_i n hn
      refine docStart_closed ?_ hb
      intro c hc'
      apply hseeds
      simp only [seeds, List.mem_append, List.mem_flatMap]
      exact Or.inr ⟨p, hp, Or.inl (by simpa [nsDocSeeds, hn] using hc')⟩
    · simp at hb
  refine ⟨?_, ?_⟩
  · intro b hb
    rcases mem_startOf.1 hb with hb | hb
    · obtain ⟨p, hp, h | ⟨r, hr', h⟩⟩ := (i3 b).1 hb
      · exact hnsr p hp b h
      · have hTr := hwlr p hp r hr'
        obtain ⟨nd, hnd, hk, hns⟩ := wlRouteIds_route hwf hr'
        rcases h with h | h
        · exact io_closed hT hTr (isRouteId_iff.2 ⟨nd, hnd, hk⟩) h
        · refine docStart_closed ?_ h
          have := node_docTargets_closed hT hnd hTr
          rwa [hns] at this
    · obtain ⟨p, hp, h | h⟩ := (d2 b).1 hb
      · exact hnsd p hp b h
      · apply hseeds
        simp only [seeds, List.mem_append, List.mem_flatMap]
        exact Or.inr ⟨p, hp, Or.inr (by simpa [List.mem_flatMap] using h)⟩
  · intro r hr'
    rw [i1] at hr'
    simp only [List.mem_flatMap] at hr'
    obtain ⟨p, hp, h⟩ := hr'
    exact hwlr p hp r h

/-- SOUNDNESS / MINIMALITY: whatever the filter retains lies in every closed set that contains the seeds -/
theorem filter_sound {g : Graph} (hwf : g.refsOk = true) (hda : docsAgree g = true) {wl : Whitelist}
    {r : Filtered} (h : whitelistFilter g wl = .ok r) {T : Id → Prop} (hT : Closed g T)
    (hseeds : ∀ s ∈ seeds g wl, T s) :
    (∀ t ∈ r.types, T t) ∧ (∀ rt ∈ r.routes, T rt) := by
  obtain ⟨canon, rs, ds, st, hc, hr, hd, hst, e1, e2, _, _, _⟩ := whitelistFilter_ok h
  obtain ⟨s1, s2⟩ := start_sound hwf hda hT hseeds hc hr hd
  have := dfs_sound hwf hda hT hst
    (by
      intro it hit
      simp only [List.mem_map] at hit
      obtain ⟨b, hb, rfl⟩ := hit
      exact s1 b hb)
    (by intro t ht; cases ht)
    (by intro t ht; cases ht)
  refine ⟨?_, ?_⟩
  · rw [e1]; exact this.1
  · rw [e2]
    intro rt hrt
    rcases mem_addAll.1 hrt with h | h
    · simp at h
    · rcases List.mem_append.1 h with h | h
      · exact s2 rt h
      · exact this.2 rt h

end StoneVerif.Graph
