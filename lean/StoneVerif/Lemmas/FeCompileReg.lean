import StoneVerif.Model.FeCompile
/-!
Registration (pass 1) and imports (pass 2) of the compileCore model: what the environment holds afterwards.

* `reg_lookup`: every struct / union / alias declaration is found under its own (namespace, name);
* `reg_mem`: everything found under a (namespace, name) as a type / alias is a declaration of that namespace;
* `imports_iff`: the import table is exactly the `import` lines; `nss_eq`: the namespaces in order of first mention.
-/
namespace StoneVerif.FeCompile.L
open StoneVerif.FeCompile
open StoneVerif.FeParams (TyKind)

def itemOf : Decl → Option Item
  | .type d => some (.type d)
  | .alias _ r => some (.alias r)
  | _ => none

/-- all (namespace, declaration) pairs of a set of files -/
def pairs (fs : List File) : List (String × Decl) := fs.flatMap fun f => f.decls.map fun d => (f.ns, d)

theorem mem_declsOf {fs : List File} {ns : String} {d : Decl} : d ∈ declsOf fs ns ↔ (ns, d) ∈ pairs fs := by
  simp only [declsOf, pairs, List.mem_flatMap, List.mem_filter, List.mem_map, beq_iff_eq]
  constructor
  · rintro ⟨f, ⟨hf, hn⟩, hd⟩
    exact ⟨f, hf, d, hd, by rw [hn]⟩
  · rintro ⟨f, hf, d', hd, he⟩
    cases he
    exact ⟨f, ⟨hf, rfl⟩, hd⟩

structure RegInv (items : List (Key × Item)) (P : List (String × Decl)) : Prop where
  found : ∀ ns d n, (ns, d) ∈ P → declName d = some n → items.lookup (ns, n) = itemOf d
  typeMem : ∀ k d, (k, Item.type d) ∈ items → (k.1, Decl.type d) ∈ P ∧ d.name = k.2
  aliasMem : ∀ k r, (k, Item.alias r) ∈ items → (k.1, Decl.alias k.2 r) ∈ P

theorem checkCanon_items {st c name ns dup st'} (h : checkCanon st c name ns dup = .ok st') :
    st'.items = st.items ∧ st'.nss = st.nss := by
  unfold checkCanon at h
  simp only at h
  split at h
  · cases h; exact ⟨rfl, rfl⟩
  · split at h
    · cases h; exact ⟨rfl, rfl⟩
    · cases h

theorem lookupSym_none {items : List (Key × Item)} {ns name} (h : lookupSym items ns name = none) :
    items.lookup (ns, name) = none := by
  unfold lookupSym at h
  split at h
  · cases h
  · assumption

theorem itemOf_some_of_name {d : Decl} {n} (h : declName d = some n) : ∃ i, itemOf d = some i ∧ (∀ vs, i ≠ .routes vs) ∧ i ≠ .other := by
  cases d <;> simp [declName] at h <;> simp [itemOf]

/-- pushing a binding under a key that no type / alias declaration is found under keeps the invariant -/
theorem RegInv.push {items P} (hI : RegInv items P) (ns name : String) (i : Item) (d : Decl)
    (hfree : ∀ d' , (ns, d') ∈ P → declName d' = some name → False)
    (hnew : ∀ n, declName d = some n → n = name ∧ itemOf d = some i)
    (hty : ∀ td, i = .type td → d = .type td ∧ td.name = name)
    (hal : ∀ r, i = .alias r → d = .alias name r) :
    RegInv (((ns, name), i) :: items) (P ++ [(ns, d)]) := by
  refine ⟨?_, ?_, ?_⟩
  · intro ns' d' n hm hn
    rw [List.mem_append] at hm
    rw [List.lookup_cons]
    rcases hm with hm | hm
    · have hne : ((ns', n) == (ns, name)) = false := by
        rw [beq_eq_false_iff_ne]
        intro he
        cases he
        exact hfree d' hm hn
      rw [hne]
      exact hI.found ns' d' n hm hn
    · simp only [List.mem_singleton, Prod.mk.injEq] at hm
      obtain ⟨rfl, rfl⟩ := hm
      obtain ⟨rfl, hi⟩ := hnew n hn
      simp [hi]
  · intro k td hm
    rw [List.mem_cons] at hm
    rcases hm with hm | hm
    · cases hm
      obtain ⟨rfl, hn⟩ := hty td rfl
      exact ⟨by simp, hn⟩
    · have := hI.typeMem k td hm
      exact ⟨List.mem_append_left _ this.1, this.2⟩
  · intro k r hm
    rw [List.mem_cons] at hm
    rcases hm with hm | hm
    · cases hm
      have := hal r rfl
      subst this
      simp
    · exact List.mem_append_left _ (hI.aliasMem k r hm)

theorem RegInv.skip {items P} (hI : RegInv items P) (ns : String) (d : Decl) (hd : declName d = none) :
    RegInv items (P ++ [(ns, d)]) := by
  refine ⟨?_, ?_, ?_⟩
  · intro ns' d' n hm hn
    rw [List.mem_append] at hm
    rcases hm with hm | hm
    · exact hI.found ns' d' n hm hn
    · simp only [List.mem_singleton, Prod.mk.injEq] at hm
      obtain ⟨rfl, rfl⟩ := hm
      rw [hd] at hn; cases hn
  · intro k td hm
    have := hI.typeMem k td hm
    exact ⟨List.mem_append_left _ this.1, this.2⟩
  · intro k r hm
    exact List.mem_append_left _ (hI.aliasMem k r hm)

theorem RegInv.free_of_none {items P} (hI : RegInv items P) {ns name : String}
    (h : items.lookup (ns, name) = none) : ∀ d', (ns, d') ∈ P → declName d' = some name → False := by
  intro d' hm hn
  have := hI.found ns d' name hm hn
  obtain ⟨i, hi, _⟩ := itemOf_some_of_name hn
  rw [h, hi] at this
  cases this

theorem RegInv.free_of_routes {items P} (hI : RegInv items P) {ns name : String} {vs}
    (h : items.lookup (ns, name) = some (.routes vs)) : ∀ d', (ns, d') ∈ P → declName d' = some name → False := by
  intro d' hm hn
  have := hI.found ns d' name hm hn
  obtain ⟨i, hi, hr, _⟩ := itemOf_some_of_name hn
  rw [h, hi] at this
  cases this
  exact hr vs rfl

theorem bindNew_inv {st ns name i c st' P} (d : Decl) (hI : RegInv st.items P) (h : bindNew st ns name i c = .ok st')
    (hnew : ∀ n, declName d = some n → n = name ∧ itemOf d = some i)
    (hty : ∀ td, i = .type td → d = .type td ∧ td.name = name)
    (hal : ∀ r, i = .alias r → d = .alias name r) :
    RegInv st'.items (P ++ [(ns, d)]) ∧ st'.nss = st.nss := by
  unfold bindNew at h
  split at h
  · cases h
  · rename_i hl
    have := checkCanon_items h
    rw [this.1, this.2]
    exact ⟨hI.push ns name i d (hI.free_of_none (lookupSym_none hl)) hnew hty hal, rfl⟩

theorem regDecl_inv {st ns d st' P} (hI : RegInv st.items P) (h : regDecl st ns d = .ok st') :
    RegInv st'.items (P ++ [(ns, d)]) ∧ st'.nss = st.nss := by
  cases d with
  | type td =>
    refine bindNew_inv (.type td) hI h ?_ ?_ ?_
    · intro n hn; simp [declName] at hn; subst hn; simp [itemOf]
    · intro td' he; cases he; simp
    · intro r he; cases he
  | «alias» name r =>
    refine bindNew_inv (.alias name r) hI h ?_ ?_ ?_
    · intro n hn; simp [declName] at hn; subst hn; simp [itemOf]
    · intro td' he; cases he
    · intro r' he; cases he; rfl
  | annot name ak =>
    refine bindNew_inv (.annot name ak) hI h ?_ ?_ ?_
    · intro n hn; simp [declName] at hn
    · intro td' he; cases he
    · intro r' he; cases he
  | annotType name =>
    simp only [regDecl] at h
    split at h
    · cases h
    · rename_i hl
      split at h
      · cases h
      · have := checkCanon_items h
        rw [this.1, this.2]
        refine ⟨hI.push ns name .other (.annotType name) (hI.free_of_none (lookupSym_none hl)) ?_ ?_ ?_, rfl⟩
        · intro n hn; simp [declName] at hn
        · intro td' he; cases he
        · intro r' he; cases he
  | imp t =>
    simp only [regDecl] at h
    cases h
    exact ⟨hI.skip ns _ rfl, rfl⟩
  | patch q =>
    simp only [regDecl] at h
    cases h
    exact ⟨hI.skip ns _ rfl, rfl⟩
  | aliasAnnots n as =>
    simp only [regDecl] at h
    cases h
    exact ⟨hI.skip ns _ rfl, rfl⟩
  | route r =>
    simp only [regDecl] at h
    split at h
    · rename_i vs hl
      split at h
      · cases h
      · have := checkCanon_items h
        rw [this.1, this.2]
        have hl' : st.items.lookup (ns, r.name) = some (.routes vs) := by
          unfold lookupSym at hl
          split at hl
          · rename_i i hi; simp at hl; rw [hi, hl]
          · cases hk : TyKind.ofName? r.name <;> simp [hk] at hl
        refine ⟨hI.push ns r.name _ (.route r) (hI.free_of_routes hl') ?_ ?_ ?_, rfl⟩
        · intro n hn; simp [declName] at hn
        · intro td' he; cases he
        · intro r' he; cases he
    · cases h
    · rename_i hl
      have := checkCanon_items h
      rw [this.1, this.2]
      refine ⟨hI.push ns r.name _ (.route r) (hI.free_of_none (lookupSym_none hl)) ?_ ?_ ?_, rfl⟩
      · intro n hn; simp [declName] at hn
      · intro td' he; cases he
      · intro r' he; cases he

theorem regDecls_inv {ns} : ∀ {ds : List Decl} {st st' P}, RegInv st.items P → regDecls st ns ds = .ok st' →
    RegInv st'.items (P ++ ds.map (fun d => (ns, d))) ∧ st'.nss = st.nss
  | [], st, st', P, hI, h => by
    simp only [regDecls] at h; cases h; simpa using hI
  | d :: ds, st, st', P, hI, h => by
    simp only [regDecls] at h
    split at h
    · rename_i st1 h1
      obtain ⟨hI1, hn1⟩ := regDecl_inv hI h1
      obtain ⟨hI2, hn2⟩ := regDecls_inv hI1 h
      refine ⟨?_, by rw [hn2, hn1]⟩
      simpa [List.append_assoc] using hI2
    · cases h

/-- `nsNames` step -/
def pushNs (acc : List String) (n : String) : List String := if acc.contains n then acc else acc ++ [n]

theorem regFiles_inv : ∀ {fs : List File} {st st' P}, RegInv st.items P → regFiles st fs = .ok st' →
    RegInv st'.items (P ++ pairs fs) ∧ st'.nss = nsNames fs st.nss
  | [], st, st', P, hI, h => by
    simp only [regFiles] at h; cases h
    simpa [pairs, nsNames] using hI
  | f :: fs, st, st', P, hI, h => by
    simp only [regFiles] at h
    split at h
    · rename_i st1 h1
      unfold regFile at h1
      obtain ⟨hI1, hn1⟩ := regDecls_inv (P := P) (by exact hI) h1
      obtain ⟨hI2, hn2⟩ := regFiles_inv hI1 h
      refine ⟨?_, ?_⟩
      · simpa [pairs, List.append_assoc] using hI2
      · rw [hn2, hn1]; simp [nsNames]
    · cases h

theorem RegInv.nil : RegInv [] [] := ⟨by simp, by simp, by simp⟩

/-! ## imports -/

theorem addImport_eq {nss I ns t I'} (h : addImport nss I ns t = .ok I') : I' = (ns, t) :: I := by
  unfold addImport at h
  split at h
  · cases h
  · split at h
    · cases h
    · split at h <;> first | cases h; rfl | cases h

theorem addImportsDecls_mem {nss ns} : ∀ {ds : List Decl} {I I'}, addImportsDecls nss I ns ds = .ok I' →
    ∀ p, p ∈ I' ↔ p ∈ I ∨ ∃ t, p = (ns, t) ∧ Decl.imp t ∈ ds
  | [], I, I', h, p => by simp only [addImportsDecls] at h; cases h; simp
  | d :: ds, I, I', h, p => by
    cases d with
    | imp t =>
      simp only [addImportsDecls] at h
      split at h
      · rename_i I1 h1
        have := addImport_eq h1
        subst this
        rw [addImportsDecls_mem h p]
        simp only [List.mem_cons]
        constructor
        · rintro ((rfl | hp) | ⟨t', rfl, ht'⟩)
          · exact Or.inr ⟨t, rfl, Or.inl rfl⟩
          · exact Or.inl hp
          · exact Or.inr ⟨t', rfl, Or.inr ht'⟩
        · rintro (hp | ⟨t', rfl, (ht' | ht')⟩)
          · exact Or.inl (Or.inr hp)
          · cases ht'; exact Or.inl (Or.inl rfl)
          · exact Or.inr ⟨t', rfl, ht'⟩
      · cases h
    | type _ | «alias» _ _ | route _ | annot _ _ | annotType _ | patch _ | aliasAnnots _ _ =>
      simp only [addImportsDecls] at h
      rw [addImportsDecls_mem h p]
      simp

theorem addImportsFiles_mem {nss} : ∀ {fs : List File} {I I'}, addImportsFiles nss I fs = .ok I' →
    ∀ p, p ∈ I' ↔ p ∈ I ∨ ∃ t, p.2 = t ∧ (p.1, Decl.imp t) ∈ pairs fs
  | [], I, I', h, p => by simp only [addImportsFiles] at h; cases h; simp [pairs]
  | f :: fs, I, I', h, p => by
    simp only [addImportsFiles] at h
    split at h
    · rename_i I1 h1
      rw [addImportsFiles_mem h p, addImportsDecls_mem h1 p]
      simp only [pairs, List.flatMap_cons, List.mem_append, List.mem_map, exists_eq_left']
      constructor
      · rintro ((hp | ⟨t, rfl, ht⟩) | hp)
        · exact Or.inl hp
        · exact Or.inr (Or.inl ⟨.imp t, ht, rfl⟩)
        · exact Or.inr (Or.inr hp)
      · rintro (hp | ⟨d, hd, he⟩ | hp)
        · exact Or.inl (Or.inl hp)
        · obtain ⟨a, b⟩ := p
          simp only [Prod.mk.injEq] at he
          obtain ⟨rfl, rfl⟩ := he
          exact Or.inl (Or.inr ⟨b, rfl, hd⟩)
        · exact Or.inr hp
    · cases h

/-! ## the built environment -/

structure EnvOK (E : Env) (fs : List File) : Prop where
  files : E.files = fs
  nss : E.nss = nsNames fs []
  reg : RegInv E.items (pairs fs)
  imports : ∀ ns t, E.imports.contains (ns, t) = true ↔ (ns, Decl.imp t) ∈ pairs fs

theorem buildEnv_ok {fs E} (h : buildEnv fs = .ok E) : EnvOK E fs := by
  unfold buildEnv at h
  split at h
  · cases h
  · rename_i st hst
    split at h
    · cases h
    · rename_i I hI
      cases h
      obtain ⟨hr, hn⟩ := regFiles_inv (P := []) RegInv.nil hst
      refine ⟨rfl, hn, by simpa using hr, ?_⟩
      intro ns t
      simp only [List.contains_iff_mem]
      rw [addImportsFiles_mem hI (ns, t)]
      simp

/-- a struct / union / alias declaration is found under its own name -/
theorem EnvOK.lookup_decl {E fs} (h : EnvOK E fs) {ns d n} (hd : d ∈ declsOf fs ns) (hn : declName d = some n) :
    E.items.lookup (ns, n) = itemOf d :=
  h.reg.found ns d n (mem_declsOf.mp hd) hn

theorem mem_of_lookup {α β} [BEq α] [LawfulBEq α] {l : List (α × β)} {k : α} {v : β} (h : l.lookup k = some v) :
    (k, v) ∈ l := by
  induction l with
  | nil => simp at h
  | cons p l ih =>
    obtain ⟨a, b⟩ := p
    rw [List.lookup_cons] at h
    split at h
    · rename_i he
      cases h
      rw [beq_iff_eq] at he
      subst he
      exact List.mem_cons_self
    · exact List.mem_cons_of_mem _ (ih h)

theorem EnvOK.type_decl {E fs} (h : EnvOK E fs) {k d} (hl : E.items.lookup k = some (.type d)) :
    Decl.type d ∈ declsOf fs k.1 ∧ d.name = k.2 := by
  have := h.reg.typeMem k d (mem_of_lookup hl)
  exact ⟨mem_declsOf.mpr this.1, this.2⟩

theorem EnvOK.alias_decl {E fs} (h : EnvOK E fs) {k r} (hl : E.items.lookup k = some (.alias r)) :
    Decl.alias k.2 r ∈ declsOf fs k.1 :=
  mem_declsOf.mpr (h.reg.aliasMem k r (mem_of_lookup hl))

/-- the definition called `n` in `ns` (specification level) is what the environment holds -/
theorem EnvOK.findDef_of_lookup {E fs} (h : EnvOK E fs) {ns n : String} {i : Item}
    (hl : E.items.lookup (ns, n) = some i) (hi : (∃ d, i = .type d) ∨ (∃ r, i = .alias r)) :
    ∃ d, findDef fs ns n = some d ∧ itemOf d = some i := by
  have hex : ∃ d, d ∈ declsOf fs ns ∧ declName d = some n := by
    rcases hi with ⟨d, rfl⟩ | ⟨r, rfl⟩
    · have := h.type_decl hl
      exact ⟨.type d, this.1, by simp [declName, this.2]⟩
    · exact ⟨.alias n r, h.alias_decl hl, rfl⟩
  obtain ⟨d0, hd0, hn0⟩ := hex
  unfold findDef specDecls
  cases hf : (declsOf fs ns).find? (fun d => declName d == some n) with
  | none =>
    rw [List.find?_eq_none] at hf
    have := hf d0 hd0
    simp [hn0] at this
  | some d =>
    have hm := List.mem_of_find?_eq_some hf
    have hp := List.find?_some hf
    simp only [beq_iff_eq] at hp
    refine ⟨d, rfl, ?_⟩
    rw [← h.lookup_decl hm hp, hl]

theorem EnvOK.findDef_none {E fs} (h : EnvOK E fs) {ns n : String}
    (hl : E.items.lookup (ns, n) = none) : findDef fs ns n = none := by
  unfold findDef specDecls
  cases hf : (declsOf fs ns).find? (fun d => declName d == some n) with
  | none => rfl
  | some d =>
    have hm := List.mem_of_find?_eq_some hf
    have hp := List.find?_some hf
    simp only [beq_iff_eq] at hp
    have := h.lookup_decl hm hp
    obtain ⟨i, hi, _⟩ := itemOf_some_of_name hp
    rw [hl, hi] at this
    cases this

theorem EnvOK.findDef_other {E fs} (h : EnvOK E fs) {ns n : String} {i : Item}
    (hl : E.items.lookup (ns, n) = some i) (hi : (∃ vs, i = .routes vs) ∨ i = .other) : findDef fs ns n = none := by
  unfold findDef specDecls
  cases hf : (declsOf fs ns).find? (fun d => declName d == some n) with
  | none => rfl
  | some d =>
    have hm := List.mem_of_find?_eq_some hf
    have hp := List.find?_some hf
    simp only [beq_iff_eq] at hp
    have := h.lookup_decl hm hp
    obtain ⟨i', hi', hr, ho⟩ := itemOf_some_of_name hp
    rw [hl, hi'] at this
    cases this
    rcases hi with ⟨vs, rfl⟩ | rfl
    · exact absurd rfl (hr vs)
    · exact absurd rfl ho

theorem EnvOK.findDef_annot {E fs} (h : EnvOK E fs) {ns n : String} {k : AnnotKind}
    (hl : E.items.lookup (ns, n) = some (.annot k)) : findDef fs ns n = none := by
  unfold findDef specDecls
  cases hf : (declsOf fs ns).find? (fun d => declName d == some n) with
  | none => rfl
  | some d =>
    have hm := List.mem_of_find?_eq_some hf
    have hp := List.find?_some hf
    simp only [beq_iff_eq] at hp
    have := h.lookup_decl hm hp
    rw [hl] at this
    cases d <;> simp [declName] at hp <;> simp [itemOf] at this

theorem EnvOK.imported_iff {E fs} (h : EnvOK E fs) (ns q : String) :
    E.imports.contains (ns, q) = imported fs ns q := by
  rw [Bool.eq_iff_iff, h.imports]
  unfold imported specDecls
  rw [List.contains_iff_mem, mem_declsOf]

end StoneVerif.FeCompile.L
