import StoneVerif.Model.Wrap
/-! `textwrap.fill` keeps every word, in order (helper lemmas for Props/C18.lean). -/
namespace StoneVerif.Wrap

def AllWs (x : Str) : Prop := ∀ c ∈ x, isPySpace c = true

/-! ### words -/

theorem splitBy_ne_nil (p : Char → Bool) (s : Str) : splitBy p s ≠ [] := by
  induction s with
  | nil => simp [splitBy]
  | cons x xs ih =>
    simp only [splitBy]; split
    · simp
    · split <;> simp

theorem splitBy_append_ws (p : Char → Bool) (a b : Str) (c : Char) (hc : p c = true) :
    splitBy p (a ++ c :: b) = splitBy p a ++ splitBy p b := by
  induction a with
  | nil => simp [splitBy, hc]
  | cons x xs ih =>
    simp only [List.cons_append, splitBy]
    split
    · simp [ih]
    · rw [ih]
      cases h : splitBy p xs with
      | nil => exact absurd h (splitBy_ne_nil p xs)
      | cons w ws => simp

theorem words_append_ws (a b : Str) (c : Char) (hc : isPySpace c = true) :
    words (a ++ c :: b) = words a ++ words b := by
  simp [words, splitBy_append_ws _ a b c hc]

theorem words_ws_cons (c : Char) (b : Str) (hc : isPySpace c = true) : words (c :: b) = words b := by
  simp [words, splitBy, hc]

theorem words_nil : words [] = [] := by simp [words, splitBy]

theorem words_allWs_append (x b : Str) (h : AllWs x) : words (x ++ b) = words b := by
  induction x with
  | nil => rfl
  | cons c cs ih =>
    simp only [List.cons_append]
    rw [words_ws_cons _ _ (h c (by simp))]
    exact ih (fun d hd => h d (by simp [hd]))

theorem words_allWs (x : Str) (h : AllWs x) : words x = [] := by
  have := words_allWs_append x [] h
  simpa [words_nil] using this

theorem words_append_headWs (a b : Str) (c : Char) (t : Str) (hb : b = c :: t) (hc : isPySpace c = true) :
    words (a ++ b) = words a ++ words b := by
  subst hb
  rw [words_append_ws a t c hc, words_ws_cons c t hc]

/-! ### chunk lists -/

/-- a non-empty all-whitespace chunk -/
def Ws1 (x : Str) : Prop := x ≠ [] ∧ AllWs x

/-- of two neighbouring chunks one is whitespace -/
def Good : List Str → Prop
  | [] => True
  | [_] => True
  | x :: y :: r => (Ws1 x ∨ Ws1 y) ∧ Good (y :: r)

def F (cs : List Str) : List Str := cs.flatMap words

theorem Good_tail (x : Str) (r : List Str) (h : Good (x :: r)) : Good r := by
  cases r with
  | nil => trivial
  | cons y r' => exact h.2

theorem Good_append (a b : List Str) (h : Good (a ++ b)) : Good a ∧ Good b := by
  induction a with
  | nil => exact ⟨trivial, h⟩
  | cons x xs ih =>
    have ht := Good_tail x (xs ++ b) h
    have := ih ht
    refine ⟨?_, this.2⟩
    cases xs with
    | nil => trivial
    | cons y ys => exact ⟨h.1, this.1⟩

theorem words_flatten (cs : List Str) (h : Good cs) : words cs.flatten = F cs := by
  induction cs with
  | nil => simp [F, words_nil]
  | cons x rest ih =>
    have ihr := ih (Good_tail x rest h)
    cases rest with
    | nil => simp [F]
    | cons y r =>
      simp only [List.flatten_cons, F, List.flatMap_cons] at ihr ⊢
      rcases h.1 with hx | hy
      · rw [words_allWs_append x _ hx.2, words_allWs x hx.2, ihr]; simp
      · obtain ⟨hne, hws⟩ := hy
        cases y with
        | nil => exact absurd rfl hne
        | cons c t =>
          rw [words_append_headWs x ((c :: t) ++ r.flatten) c (t ++ r.flatten) (by simp) (hws c (by simp)), ihr]

theorem isBlank_allWs (c : Str) (h : isBlank c = true) : AllWs c := by
  intro d hd
  simp [isBlank] at h
  exact h d hd

/-! ### one line -/

theorem takeFit_append (w : Int) (n : Nat) (l : List Str) : (takeFit w n l).1 ++ (takeFit w n l).2 = l := by
  induction l generalizing n with
  | nil => simp [takeFit]
  | cons c cs ih =>
    simp only [takeFit]; split
    · simp [ih]
    · simp

theorem F_append (a b : List Str) : F (a ++ b) = F a ++ F b := by simp [F]

theorem dropLeading_spec (started : Bool) (l : List Str) (h : Good l) :
    Good (dropLeading started l) ∧ F (dropLeading started l) = F l := by
  cases l with
  | nil => exact ⟨trivial, rfl⟩
  | cons c cs =>
    simp only [dropLeading]
    split
    · next hb =>
      simp at hb
      refine ⟨Good_tail c cs h, ?_⟩
      simp [F, words_allWs c (isBlank_allWs c hb.1)]
    · exact ⟨h, rfl⟩

theorem longWord_append (w : Int) (cur rest : List Str) :
    (longWord w cur rest).1 ++ (longWord w cur rest).2 = cur ++ rest := by
  unfold longWord
  split
  · split
    · split
      · next h => subst h; simp
      · rfl
    · rfl
  · rfl

theorem dropTrailing_spec (cur : List Str) (h : Good cur) :
    Good (dropTrailing cur) ∧ F (dropTrailing cur) = F cur := by
  unfold dropTrailing
  split
  · next l hl =>
    split
    · next hb =>
      have e : cur = cur.dropLast ++ [l] := by
        obtain ⟨ys, hys⟩ := List.getLast?_eq_some_iff.1 hl
        rw [hys]; simp
      have hg := Good_append cur.dropLast [l] (e ▸ h)
      refine ⟨hg.1, ?_⟩
      conv => rhs; rw [e]
      rw [F_append]
      simp [F, words_allWs l (isBlank_allWs l hb)]
    · exact ⟨h, rfl⟩
  · exact ⟨h, rfl⟩

theorem lineStep_spec (w : Int) (started : Bool) (l : List Str) (h : Good l) :
    Good (lineStep w started l).1 ∧ Good (lineStep w started l).2 ∧
      F (lineStep w started l).1 ++ F (lineStep w started l).2 = F l := by
  have hdef : lineStep w started l =
      (dropTrailing (longWord w (takeFit w 0 (dropLeading started l)).1 (takeFit w 0 (dropLeading started l)).2).1,
        (longWord w (takeFit w 0 (dropLeading started l)).1 (takeFit w 0 (dropLeading started l)).2).2) := rfl
  rw [hdef]
  have h1 := dropLeading_spec started l h
  generalize dropLeading started l = l1 at *
  have h2 := takeFit_append w 0 l1
  have h3 := longWord_append w (takeFit w 0 l1).1 (takeFit w 0 l1).2
  generalize longWord w (takeFit w 0 l1).1 (takeFit w 0 l1).2 = r2 at *
  have e : r2.1 ++ r2.2 = l1 := by rw [h3, h2]
  have hg := Good_append r2.1 r2.2 (e ▸ h1.1)
  have h4 := dropTrailing_spec r2.1 hg.1
  refine ⟨h4.1, hg.2, ?_⟩
  show F (dropTrailing r2.1) ++ F r2.2 = F l
  rw [h4.2, ← F_append, e, h1.2]

end StoneVerif.Wrap

namespace StoneVerif.Wrap

/-! ### the outer loop -/

theorem wrapLoop_spec (w : Int) (ini sub : Str) (n : Nat) : ∀ (started : Bool) (l : List Str), l.length ≤ n → Good l →
    (∀ ln ∈ wrapLoop w ini sub started l, Good ln.2) ∧
      (wrapLoop w ini sub started l).flatMap (fun ln => F ln.2) = F l := by
  induction n with
  | zero =>
    intro started l hl _
    have : l = [] := by cases l with | nil => rfl | cons _ _ => simp at hl
    subst this
    rw [wrapLoop]; simp [F]
  | succ n ih =>
    intro started l hl hg
    cases l with
    | nil => rw [wrapLoop]; simp [F]
    | cons c cs =>
      rw [wrapLoop]
      have hs := lineStep_spec (w - ((if started = true then sub else ini).length : Int)) started (c :: cs) hg
      have hlt := lineStep_length (w - ((if started = true then sub else ini).length : Int)) started c cs
      generalize lineStep (w - ((if started = true then sub else ini).length : Int)) started (c :: cs) = r at *
      have hlen : r.2.length ≤ n := by simp at hl hlt; omega
      split
      · have := ih true r.2 hlen hs.2.1
        constructor
        · intro ln hln
          simp at hln
          rcases hln with rfl | hln
          · exact hs.1
          · exact this.1 ln hln
        · simp only [List.flatMap_cons, this.2]
          exact hs.2.2
      · next hne =>
        have hr1 : r.1 = [] := by simpa using hne
        have := ih started r.2 hlen hs.2.1
        refine ⟨this.1, ?_⟩
        rw [this.2, ← hs.2.2, hr1]; simp [F]

/-- every produced line carries `subsequent_indent`, except the first, which carries `initial_indent` -/
theorem wrapLoop_indents (w : Int) (ini sub : Str) (n : Nat) : ∀ (started : Bool) (l : List Str), l.length ≤ n →
    (started = true → ∀ ln ∈ wrapLoop w ini sub started l, ln.1 = sub) ∧
    (started = false → ∀ hd tl, wrapLoop w ini sub started l = hd :: tl → hd.1 = ini ∧ ∀ ln ∈ tl, ln.1 = sub) := by
  induction n with
  | zero =>
    intro started l hl
    have : l = [] := by cases l with | nil => rfl | cons _ _ => simp at hl
    subst this
    rw [wrapLoop]; simp
  | succ n ih =>
    intro started l hl
    cases l with
    | nil => rw [wrapLoop]; simp
    | cons c cs =>
      rw [wrapLoop]
      have hlt := lineStep_length (w - ((if started = true then sub else ini).length : Int)) started c cs
      generalize lineStep (w - ((if started = true then sub else ini).length : Int)) started (c :: cs) = r at *
      have hlen : r.2.length ≤ n := by simp at hl hlt; omega
      split
      · have := (ih true r.2 hlen).1 rfl
        constructor
        · intro hst ln hln
          simp at hln
          rcases hln with rfl | hln
          · simp [hst]
          · exact this ln hln
        · intro hst hd tl e
          simp at e
          obtain ⟨rfl, rfl⟩ := e
          exact ⟨by simp [hst], this⟩
      · exact ih started r.2 hlen

/-! ### chunk splitting -/

theorem isTwSpace_isPySpace (c : Char) (h : isTwSpace c = true) : isPySpace c = true := by
  simp only [isTwSpace, isPySpace, Bool.or_eq_true, Bool.and_eq_true, decide_eq_true_eq, beq_iff_eq] at *
  omega

def Homog (b : Bool) (x : Str) : Prop := x ≠ [] ∧ ∀ c ∈ x, isTwSpace c = b

def AltFrom : Bool → List Str → Prop
  | _, [] => True
  | b, x :: r => Homog b x ∧ AltFrom (!b) r

theorem chunks_alt (cs : Str) : ∀ c, AltFrom (isTwSpace c) (chunks (c :: cs)) := by
  induction cs with
  | nil => intro c; simp [chunks, AltFrom, Homog]
  | cons d ds ih =>
    intro c
    have hd := ih d
    rw [chunks]
    generalize chunks (d :: ds) = L at *
    match L, hd with
    | [], _ => simp [AltFrom, Homog]
    | [] :: rest, hd => exact absurd rfl hd.1.1
    | (e :: w) :: rest, hd =>
      have he : isTwSpace e = isTwSpace d := hd.1.2 e (by simp)
      simp only []
      split
      · next heq =>
        refine ⟨⟨by simp, ?_⟩, ?_⟩
        · intro x hx
          simp at hx
          rcases hx with rfl | rfl | hx
          · rfl
          · exact heq.symm
          · rw [hd.1.2 x (by simp [hx]), heq, he]
        · rw [heq, he]; exact hd.2
      · next hne =>
        refine ⟨⟨by simp, by simp⟩, ?_⟩
        have : (!isTwSpace c) = isTwSpace d := by
          rw [← he]; cases h1 : isTwSpace c <;> cases h2 : isTwSpace e <;> simp_all
        rw [this]; exact hd

theorem altFrom_good (b : Bool) (l : List Str) (h : AltFrom b l) : Good l := by
  induction l generalizing b with
  | nil => trivial
  | cons x r ih =>
    cases r with
    | nil => trivial
    | cons y r' =>
      refine ⟨?_, ih (!b) h.2⟩
      have hx := h.1
      have hy := h.2.1
      cases b with
      | true => exact Or.inl ⟨hx.1, fun c hc => isTwSpace_isPySpace c (hx.2 c hc)⟩
      | false => exact Or.inr ⟨hy.1, fun c hc => isTwSpace_isPySpace c (by simpa using hy.2 c hc)⟩

theorem chunks_good (s : Str) : Good (chunks s) := by
  cases s with
  | nil => simp [chunks, Good]
  | cons c cs => exact altFrom_good _ _ (chunks_alt cs c)

theorem chunks_flatten (s : Str) : (chunks s).flatten = s := by
  induction s with
  | nil => simp [chunks]
  | cons c cs ih =>
    rw [chunks]
    generalize chunks cs = L at *
    match L with
    | [] => simp at ih; simp [ih]
    | [] :: rest => simp at ih ⊢; exact ih
    | (e :: w) :: rest =>
      simp only []
      split <;> (simp at ih ⊢; exact ih)

/-! ### whitespace munging -/

theorem splitBy_map (p : Char → Bool) (f : Char → Char) (h1 : ∀ c, p (f c) = p c) (h2 : ∀ c, p c = false → f c = c)
    (l : Str) : splitBy p (l.map f) = splitBy p l := by
  induction l with
  | nil => rfl
  | cons c cs ih =>
    simp only [List.map_cons, splitBy, h1, ih]
    split
    · rfl
    · next hc => simp at hc; rw [h2 c hc]

theorem words_map_trSpace (l : Str) : words (l.map trSpace) = words l := by
  unfold words
  rw [splitBy_map]
  · intro c
    unfold trSpace
    split
    · next h => rw [isTwSpace_isPySpace c h]; rfl
    · rfl
  · intro c hc
    unfold trSpace
    split
    · next h => rw [isTwSpace_isPySpace c h] at hc; cases hc
    · rfl

theorem splitBy_replicate_ws (p : Char → Bool) (c : Char) (hc : p c = true) (n : Nat) (rest : Str) :
    splitBy p (List.replicate n c ++ rest) = List.replicate n [] ++ splitBy p rest := by
  induction n with
  | zero => simp
  | succ n ih => simp [List.replicate_succ, splitBy, hc, ih]

/-- expanding tabs changes neither the first piece nor the non-empty pieces -/
theorem splitBy_expandTabs (s : Str) : ∀ col,
    (splitBy isPySpace (expandTabs 8 col s)).head? = (splitBy isPySpace s).head? ∧
    (splitBy isPySpace (expandTabs 8 col s)).filter (· ≠ []) = (splitBy isPySpace s).filter (· ≠ []) := by
  induction s with
  | nil => intro col; simp [expandTabs]
  | cons c cs ih =>
    intro col
    rw [expandTabs]
    by_cases ht : c = '\t'
    · subst ht
      simp only [if_true, show (8 : Nat) > 0 by omega]
      have hpos : 8 - col % 8 = (8 - col % 8 - 1) + 1 := by omega
      have hsp : isPySpace ' ' = true := by decide
      have htab : isPySpace '\t' = true := by decide
      rw [splitBy_replicate_ws _ _ hsp]
      have := ih (col + (8 - col % 8))
      constructor
      · rw [hpos, List.replicate_succ]; simp [splitBy, htab]
      · rw [List.filter_append]
        simp only [splitBy, htab, if_true]
        simpa using this.2
    · simp only [ht, if_false]
      have key : ∀ E : Str, (splitBy isPySpace E).head? = (splitBy isPySpace cs).head? →
          (splitBy isPySpace E).filter (· ≠ []) = (splitBy isPySpace cs).filter (· ≠ []) →
          (splitBy isPySpace (c :: E)).head? = (splitBy isPySpace (c :: cs)).head? ∧
          (splitBy isPySpace (c :: E)).filter (· ≠ []) = (splitBy isPySpace (c :: cs)).filter (· ≠ []) := by
        intro E h1 h2
        simp only [splitBy]
        split
        · simpa using h2
        · cases hE : splitBy isPySpace E with
          | nil => exact absurd hE (splitBy_ne_nil _ _)
          | cons a as =>
            cases hC : splitBy isPySpace cs with
            | nil => exact absurd hC (splitBy_ne_nil _ _)
            | cons b bs =>
              rw [hE, hC] at h1 h2
              simp at h1
              subst h1
              simp only [List.head?_cons, true_and]
              by_cases ha : a = []
              · simp [ha] at h2 ⊢; exact h2
              · simp [ha] at h2 ⊢; exact h2
      split
      · exact key _ (ih 0).1 (ih 0).2
      · exact key _ (ih (col + 1)).1 (ih (col + 1)).2

theorem flatMap_congr' {α β : Type} (l : List α) (f g : α → List β) (h : ∀ x ∈ l, f x = g x) :
    l.flatMap f = l.flatMap g := by
  induction l with
  | nil => rfl
  | cons a as ih =>
    simp only [List.flatMap_cons]
    rw [h a (by simp), ih (fun x hx => h x (by simp [hx]))]

theorem words_munge (s : Str) : words (munge s) = words s := by
  unfold munge
  rw [words_map_trSpace]
  exact (splitBy_expandTabs s 0).2

end StoneVerif.Wrap
