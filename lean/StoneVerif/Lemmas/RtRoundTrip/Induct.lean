import StoneVerif.Lemmas.RtRoundTrip.Tables
/-!
C04 helper lemmas, part 3: the bundle of hypotheses under which the round trip holds (`Good`) and an
induction principle over good values.  This is the only place where the nested mutual recursion over
`PyVal` is unfolded; everything else works with membership-quantified induction hypotheses.
-/
namespace StoneVerif.Rt.RoundTrip
open StoneVerif.Rt

/-- the hypotheses of the round-trip theorems on one (type, value) pair -/
structure Good (E : Ext) (env : Env) (t : PTy) (v : PyVal) : Prop where
  twf : tyWF env t = true
  valid : validB E env t v = true
  normal : normalB env t v = true
  wf : valWF E env t v = true
  unamb : ambiguousEmpty env t v = false

/-- leaves of a value tree -/
def isLeaf : PyVal → Bool
  | .list _ | .tuple _ | .dict _ | .struct .. | .union .. => false
  | _ => true

section
variable {E : Ext} {env : Env} (hwf : envWF env = true) (P : PTy → PyVal → Prop)
  (hleaf : ∀ t v, Good E env t v → isLeaf v = true → P t v)
  (hlist : ∀ fl item mn mx xs, Good E env (.list fl item mn mx) (.list xs) →
    (∀ x ∈ xs, Good E env item x ∧ P item x) → P (.list fl item mn mx) (.list xs))
  (hmap : ∀ fl kt vt kvs, Good E env (.map fl kt vt) (.dict kvs) →
    (∀ kx ∈ kvs, (∃ s, kx.1 = .str s) ∧ Good E env kt kx.1 ∧ Good E env vt kx.2 ∧ P vt kx.2) →
    P (.map fl kt vt) (.dict kvs))
  (hstruct : ∀ fl cls slots, Good E env (.struct fl cls) (.struct cls slots) →
    (∀ k x f, (k, x) ∈ slots → (publicFields env cls).find? (·.name == k) = some f → Good E env f.ty x ∧ P f.ty x) →
    P (.struct fl cls) (.struct cls slots))
  (htree : ∀ fl cls c slots, Good E env (.tree fl cls) (.struct c slots) →
    (∀ k x f, (k, x) ∈ slots → (publicFields env c).find? (·.name == k) = some f → Good E env f.ty x ∧ P f.ty x) →
    P (.tree fl cls) (.struct c slots))
  (hunion : ∀ fl cls c tag payload td, Good E env (.union fl cls) (.union c tag payload) →
    publicTag? env cls tag = some td → Good E env td.ty payload → P td.ty payload →
    P (.union fl cls) (.union c tag payload))

include hwf hleaf hlist hmap hstruct htree hunion

set_option linter.unusedSectionVars false in
mutual
theorem good_induct (t : PTy) (v : PyVal) (h : Good E env t v) : P t v := by
  have h0 := h.twf; have h1 := h.valid; have h2 := h.normal; have h3 := h.wf; have h4 := h.unamb
  match v with
  | .none => exact hleaf _ _ h rfl
  | .bool _ => exact hleaf _ _ h rfl
  | .int _ => exact hleaf _ _ h rfl
  | .flt _ => exact hleaf _ _ h rfl
  | .str _ => exact hleaf _ _ h rfl
  | .bytes _ => exact hleaf _ _ h rfl
  | .ts _ _ => exact hleaf _ _ h rfl
  | .other _ => exact hleaf _ _ h rfl
  | .tuple xs =>
    exfalso
    cases t <;> simp [validB, validPrim, normalB, isNoneV] at h1 h2
  | .list xs =>
    cases t with
    | list fl item mn mx =>
      simp only [validB] at h1
      simp only [normalB] at h2
      simp only [valWF] at h3
      simp only [ambiguousEmpty] at h4
      simp only [tyWF] at h0
      simp [isNoneV] at h1
      exact hlist fl item mn mx xs h (good_induct_list item xs h0 h1.2 h2 h3 h4)
    | _ => exfalso; simp [validB, validPrim, isNoneV] at h1
  | .dict kvs =>
    cases t with
    | map fl kt vt =>
      simp only [validB] at h1
      simp only [normalB] at h2
      simp only [valWF, Bool.and_eq_true] at h3
      simp only [ambiguousEmpty] at h4
      simp only [tyWF, Bool.and_eq_true] at h0
      simp [isNoneV] at h1
      exact hmap fl kt vt kvs h (good_induct_dict kt vt kvs h0.1 h0.2 h1 h2 h3.2 h4)
    | _ => exfalso; simp [validB, validPrim, isNoneV] at h1
  | .struct c slots =>
    cases t with
    | struct fl cls =>
      simp only [valWF, Bool.and_eq_true, beq_iff_eq] at h3
      obtain ⟨⟨hc, _⟩, h3⟩ := h3
      subst hc
      simp only [validB] at h1
      simp only [normalB] at h2
      simp only [ambiguousEmpty] at h4
      simp [isNoneV] at h1
      exact hstruct fl c slots h
        (good_induct_slots (publicFields env c) slots (fun f hf => ((publicFields_facts hwf c).2 f hf).2.1) h1.2 h2 h3 h4)
    | tree fl cls =>
      simp only [valWF, Bool.and_eq_true] at h3
      simp only [validB] at h1
      simp only [normalB] at h2
      simp only [ambiguousEmpty] at h4
      simp [isNoneV] at h1
      exact htree fl cls c slots h
        (good_induct_slots (publicFields env c) slots (fun f hf => ((publicFields_facts hwf c).2 f hf).2.1) h1.2 h2 h3.2 h4)
    | _ => exfalso; simp [validB, validPrim, isNoneV] at h1
  | .union c tag payload =>
    cases t with
    | union fl cls =>
      simp only [validB] at h1
      simp only [normalB] at h2
      simp only [valWF, Bool.and_eq_true] at h3
      simp only [ambiguousEmpty] at h4
      simp [isNoneV] at h1
      cases htd : publicTag? env cls tag with
      | none => rw [htd] at h1; simp at h1
      | some td =>
        simp only [htd] at h1 h2 h3 h4
        simp only [Bool.or_eq_false_iff] at h4
        have htw := (publicTag_facts hwf htd).2.2
        have g : Good E env td.ty payload := by
          refine ⟨htw, ?_, h2, h3.2, h4.2⟩
          have h1 := h1.2
          by_cases hv : isVoidT td.ty = true
          · rw [if_pos hv] at h1
            cases payload <;> simp at h1
            cases htt : td.ty <;> simp [htt, isVoidT] at hv
            rw [htt] at htw
            simp [tyWF] at htw
            simp [validB, validPrim, PTy.flags, htw, isNoneV]
          · rw [if_neg hv] at h1; exact h1
        exact hunion fl cls c tag payload td h htd g (good_induct td.ty payload g)
    | _ => exfalso; simp [validB, validPrim, isNoneV] at h1
termination_by structural v
theorem good_induct_list (t : PTy) (xs : List PyVal) (h0 : tyWF env t = true) (h1 : validList E env t xs = true)
    (h2 : normalList env t xs = true) (h3 : valWFList E env t xs = true) (h4 : ambList env t xs = false) :
    ∀ x ∈ xs, Good E env t x ∧ P t x := by
  match xs with
  | [] => intro x hx; cases hx
  | y :: ys =>
    simp only [validList, Bool.and_eq_true] at h1
    simp only [normalList, Bool.and_eq_true] at h2
    simp only [valWFList, Bool.and_eq_true] at h3
    simp only [ambList, Bool.or_eq_false_iff] at h4
    intro x hx
    rcases List.mem_cons.1 hx with e | hx
    · have g : Good E env t y := ⟨h0, h1.1, h2.1, h3.1, h4.1⟩
      rw [e]
      exact ⟨g, good_induct t y g⟩
    · exact good_induct_list t ys h0 h1.2 h2.2 h3.2 h4.2 x hx
termination_by structural xs
theorem good_induct_dict (kt vt : PTy) (kvs : List (PyVal × PyVal))
    (hk : (match kt with | .str fl _ _ _ => !fl.nullable | _ => false) = true) (h0 : tyWF env vt = true)
    (h1 : validDict E env kt vt kvs = true) (h2 : normalDict env kt vt kvs = true)
    (h3 : valWFDict E env vt kvs = true) (h4 : ambDict env vt kvs = false) :
    ∀ kx ∈ kvs, (∃ s, kx.1 = .str s) ∧ Good E env kt kx.1 ∧ Good E env vt kx.2 ∧ P vt kx.2 := by
  match kvs with
  | [] => intro x hx; cases hx
  | (k, y) :: ys =>
    simp only [validDict, Bool.and_eq_true] at h1
    simp only [normalDict, Bool.and_eq_true] at h2
    simp only [valWFDict, Bool.and_eq_true] at h3
    simp only [ambDict, Bool.or_eq_false_iff] at h4
    intro x hx
    rcases List.mem_cons.1 hx with e | hx
    · have g : Good E env vt y := ⟨h0, h1.1.2, h2.1.2, h3.1, h4.1⟩
      rw [e]
      have hkv := h1.1.1
      have hks : ∃ s, k = .str s := by
        cases kt <;> simp at hk
        cases k <;> simp [validB, validPrim, isNoneV, PTy.flags, hk] at hkv
        exact ⟨_, rfl⟩
      refine ⟨hks, ?_, g, good_induct vt y g⟩
      obtain ⟨s, rfl⟩ := hks
      cases kt <;> simp at hk
      exact ⟨by simp [tyWF], hkv, by simp [normalB], by simp [valWF], by simp [ambiguousEmpty]⟩
    · exact good_induct_dict kt vt ys hk h0 h1.2 h2.2 h3.2 h4.2 x hx
termination_by structural kvs
theorem good_induct_slots (fields : List FieldDef) (slots : List (String × PyVal))
    (h0 : ∀ f ∈ fields, tyWF env f.ty = true)
    (h1 : validSlots E env fields slots = true) (h2 : normalSlots env fields slots = true)
    (h3 : valWFSlots E env fields slots = true) (h4 : ambSlots env fields slots = false) :
    ∀ k x f, (k, x) ∈ slots → fields.find? (·.name == k) = some f → Good E env f.ty x ∧ P f.ty x := by
  match slots with
  | [] => intro k x f hx; cases hx
  | (k', y) :: ys =>
    simp only [validSlots, Bool.and_eq_true] at h1
    simp only [normalSlots, Bool.and_eq_true] at h2
    simp only [valWFSlots, Bool.and_eq_true] at h3
    simp only [ambSlots, Bool.or_eq_false_iff] at h4
    intro k x f hx hf
    rcases List.mem_cons.1 hx with e | hx
    · have e1 : k = k' := congrArg Prod.fst e
      have e2 : x = y := congrArg Prod.snd e
      rw [e1] at hf
      rw [hf] at h1 h2 h3 h4
      have g : Good E env f.ty y := ⟨h0 f (List.mem_of_find?_eq_some hf), h1.1, h2.1, h3.1, h4.1⟩
      rw [e2]
      exact ⟨g, good_induct f.ty y g⟩
    · exact good_induct_slots fields ys h0 h1.2 h2.2 h3.2 h4.2 k x f hx hf
termination_by structural slots
end
end

end StoneVerif.Rt.RoundTrip
