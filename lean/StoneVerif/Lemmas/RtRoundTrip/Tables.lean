import StoneVerif.Lemmas.RtRoundTrip.Basic
/-!
C04 helper lemmas, part 2: the class tables of the generated code coincide (for a caller without
permissions) with the specification-level tables, under `envWF`.
-/
namespace StoneVerif.Rt.RoundTrip
open StoneVerif.Rt

theorem allFieldsAttrRev_none (ls : List Level) (h : ls ≠ []) :
    allFieldsAttrRev none ls = some ((ls.reverse.flatMap (·.fields)).filter (·.omitted == none)) := by
  induction ls with
  | nil => exact absurd rfl h
  | cons l parents ih =>
    unfold allFieldsAttrRev
    by_cases hp : parents = []
    · subst hp; simp
    · simp [hp, ih hp, List.flatMap_append]

theorem fieldsSpec_nil (s : StructDef) :
    s.fieldsSpec [] = (s.levels.flatMap (·.fields)).filter (·.omitted == none) := by
  unfold StructDef.fieldsSpec
  apply List.filter_congr
  intro f _
  cases f.omitted <;> simp

theorem allFieldsAttr_none (s : StructDef) (h : s.levels ≠ []) :
    s.allFieldsAttr none = some (s.fieldsSpec []) := by
  unfold StructDef.allFieldsAttr
  rw [allFieldsAttrRev_none _ (by simpa using h), fieldsSpec_nil]
  simp

theorem fieldsFor_nil (s : StructDef) (h : s.levels ≠ []) : s.fieldsFor [] = s.fieldsSpec [] := by
  unfold StructDef.fieldsFor
  simp [allFieldsAttr_none s h]

theorem tagmapAttrRev_none (ls : List ULevel) (h : ls ≠ []) :
    tagmapAttrRev none ls = some (ls.flatMap fun l => l.tags.filter (·.omitted == none)) := by
  induction ls with
  | nil => exact absurd rfl h
  | cons l parents ih =>
    unfold tagmapAttrRev
    by_cases hp : parents = []
    · subst hp; simp
    · simp [hp, ih hp]

theorem tagsSpec_nil (u : UnionDef) :
    u.tagsSpec [] = (u.levels.flatMap (·.tags)).filter (·.omitted == none) := by
  unfold UnionDef.tagsSpec
  apply List.filter_congr
  intro f _
  cases f.omitted <;> simp

theorem findTag_some {n : String} {l : List TagDef} {t : TagDef} (h : findTag n l = some t) :
    t ∈ l ∧ t.name = n := by
  induction l with
  | nil => simp [findTag] at h
  | cons a as ih =>
    simp only [findTag] at h
    split at h
    · rename_i hn; cases h; exact ⟨List.mem_cons_self, by simpa using hn⟩
    · exact ⟨List.mem_cons_of_mem _ (ih h).1, (ih h).2⟩

theorem findTag_none {n : String} {l : List TagDef} (h : findTag n l = none) : ∀ t ∈ l, t.name ≠ n := by
  induction l with
  | nil => intro t ht; cases ht
  | cons a as ih =>
    simp only [findTag] at h
    split at h
    · cases h
    · rename_i hn
      intro t ht
      rcases List.mem_cons.1 ht with rfl | ht
      · simpa using hn
      · exact ih h t ht

theorem findTag_of_mem {l : List TagDef} (hnd : (l.map (·.name)).Nodup) {t : TagDef} (ht : t ∈ l) :
    findTag t.name l = some t := by
  induction l with
  | nil => cases ht
  | cons a as ih =>
    simp only [List.map_cons, List.nodup_cons] at hnd
    simp only [findTag]
    rcases List.mem_cons.1 ht with rfl | ht
    · simp
    · have : a.name ≠ t.name := by
        intro e; exact hnd.1 (e ▸ List.mem_map_of_mem ht)
      simp [this, ih hnd.2 ht]

theorem findTag_congr {l₁ l₂ : List TagDef} (hnd : (l₁.map (·.name)).Nodup) (hm : ∀ t, t ∈ l₂ ↔ t ∈ l₁)
    (n : String) : findTag n l₂ = findTag n l₁ := by
  cases h : findTag n l₂ with
  | some t =>
    have := findTag_some h
    rw [← this.2, findTag_of_mem hnd ((hm t).1 this.1)]
  | none =>
    cases h' : findTag n l₁ with
    | none => rfl
    | some t =>
      have := findTag_some h'
      exact absurd this.2 (findTag_none h t ((hm t).2 this.1))

/-- what `wf` says about a union, unpacked -/
theorem union_wf_parts {env : Env} {u : UnionDef} (h : u.wf env = true) :
    u.levels ≠ [] ∧ ((u.levels.flatMap (·.tags)).map (·.name)).Nodup ∧
    (∀ t ∈ u.levels.flatMap (·.tags), t.name.startsWith "." = false ∧ tyWF env t.ty = true) ∧
    u.ancestors.contains u.cls = true := by
  simp only [UnionDef.wf, Bool.and_eq_true, List.all_eq_true] at h
  obtain ⟨⟨⟨⟨h1, h2⟩, h3⟩, _⟩, _⟩ := h
  have hne : u.levels ≠ [] := by
    intro e; rw [e] at h1; simp at h1
  refine ⟨hne, (nodupS_iff _).1 h2, ?_, ?_⟩
  · intro t ht
    have := h3 t ht
    simp only [Bool.not_eq_true'] at this
    exact ⟨this.1.1, this.2⟩
  · cases hl : u.levels.getLast? with
    | none => rw [hl] at h1; simp at h1
    | some l =>
      rw [hl] at h1
      simp only [UnionDef.ancestors, List.contains_eq_mem, List.mem_map, decide_eq_true_eq]
      exact ⟨l, List.mem_of_getLast? hl, by simpa using h1⟩

theorem tagmap_findTag {env : Env} {u : UnionDef} (h : u.wf env = true) (n : String) :
    (u.tagmapAttr none).bind (findTag n) = findTag n (u.tagsSpec []) := by
  obtain ⟨hne, hnd, _, _⟩ := union_wf_parts h
  unfold UnionDef.tagmapAttr
  rw [tagmapAttrRev_none _ (by simpa using hne)]
  simp only [Option.bind_some]
  apply findTag_congr
  · rw [tagsSpec_nil]
    exact hnd.sublist (List.Sublist.map _ List.filter_sublist)
  · intro t
    rw [tagsSpec_nil]
    simp only [List.mem_flatMap, List.mem_reverse, List.mem_filter]
    constructor
    · rintro ⟨l, hl, ht, hp⟩; exact ⟨⟨l, hl, ht⟩, hp⟩
    · rintro ⟨⟨l, hl, ht⟩, hp⟩; exact ⟨l, hl, ht, hp⟩

theorem isTagPresent_nil {env : Env} {u : UnionDef} (h : u.wf env = true) (n : String) :
    u.isTagPresent n [] = (findTag n (u.tagsSpec [])).isSome := by
  unfold UnionDef.isTagPresent
  simp [tagmap_findTag h]

theorem valDataType_nil {env : Env} {u : UnionDef} (h : u.wf env = true) (n : String) :
    u.valDataType n [] = (findTag n (u.tagsSpec [])).map (·.ty) := by
  unfold UnionDef.valDataType
  simp [tagmap_findTag h]

theorem findTag_append (n : String) (a b : List TagDef) :
    findTag n (a ++ b) = (findTag n a).or (findTag n b) := by
  induction a with
  | nil => simp [findTag]
  | cons x xs ih =>
    simp only [List.cons_append, findTag]
    split <;> simp [ih]

theorem ctorValidator_of_public {env : Env} {u : UnionDef} (h : u.wf env = true) {n : String} {td : TagDef}
    (ht : findTag n (u.tagsSpec []) = some td) : u.ctorValidator n = some td.ty := by
  have h2 : findTag n ((u.tagmapAttr none).getD []) = some td := by
    have := tagmap_findTag h n
    rw [ht] at this
    cases hm : u.tagmapAttr none with
    | none => rw [hm] at this; simp at this
    | some m => rw [hm] at this; simpa using this
  unfold UnionDef.ctorValidator
  simp only []
  rw [findTag_append, h2]
  rfl

/-! ### structs -/

theorem inj_of_nodup_map {α β} (g : α → β) {l : List α} (h : (l.map g).Nodup) {a b : α}
    (ha : a ∈ l) (hb : b ∈ l) (e : g a = g b) : a = b := by
  induction l with
  | nil => cases ha
  | cons x xs ih =>
    simp only [List.map_cons, List.nodup_cons] at h
    rcases List.mem_cons.1 ha with ea | ha' <;> rcases List.mem_cons.1 hb with eb | hb'
    · rw [ea, eb]
    · subst ea; exact absurd (e ▸ List.mem_map_of_mem hb') h.1
    · subst eb; exact absurd (e ▸ List.mem_map_of_mem ha') h.1
    · exact ih h.2 ha' hb'

/-- what `wf` says about a struct, unpacked -/
theorem struct_wf_parts {env : Env} {s : StructDef} (h : s.wf env = true) :
    s.levels ≠ [] ∧ (s.allAttrs.map (·.name)).Nodup ∧
    (∀ f ∈ s.allAttrs, f.name.startsWith "." = false ∧ tyWF env f.ty = true ∧ isVoidT f.ty = false) ∧
    s.ancestors.contains s.cls = true ∧
    (∀ subs, s.subtypes = some subs → ∀ e₁ ∈ subs, ∀ e₂ ∈ subs, e₁.1 = e₂.1 → e₁ = e₂) := by
  simp only [StructDef.wf, Bool.and_eq_true, List.all_eq_true] at h
  obtain ⟨⟨⟨⟨⟨h1, h2⟩, h3⟩, h4⟩, _⟩, h6⟩ := h
  have hne : s.levels ≠ [] := by
    intro e; rw [e] at h1; simp at h1
  refine ⟨hne, (nodupS_iff _).1 h2, ?_, ?_, ?_⟩
  · intro f hf
    have a := h3 f hf
    have b := h4 f hf
    simp only [Bool.not_eq_true'] at a b
    refine ⟨a.1, b.1, ?_⟩
    cases hft : f.ty <;> simp_all [isVoidT]
  · cases hl : s.levels.getLast? with
    | none => rw [hl] at h1; simp at h1
    | some l =>
      rw [hl] at h1
      simp only [StructDef.ancestors, List.contains_eq_mem, List.mem_map, decide_eq_true_eq]
      exact ⟨l, List.mem_of_getLast? hl, by simpa using h1⟩
  · intro subs hs e₁ he₁ e₂ he₂ e
    rw [hs] at h6
    simp only [Bool.and_eq_true] at h6
    have hnd := (nodupS_iff _).1 h6.2
    exact inj_of_nodup_map _ hnd he₁ he₂ (by rw [e])

theorem publicFields_eq {env : Env} {c : String} {s : StructDef} (h : env.struct? c = some s) :
    publicFields env c = s.fieldsSpec [] := by
  unfold publicFields; rw [h]

theorem fieldsSpec_sublist (s : StructDef) (perms : List String) : (s.fieldsSpec perms).Sublist s.allAttrs :=
  List.filter_sublist

theorem publicFields_facts {env : Env} (hwf : envWF env = true) (c : String) :
    ((publicFields env c).map (·.name)).Nodup ∧
    (∀ f ∈ publicFields env c, f.name.startsWith "." = false ∧ tyWF env f.ty = true ∧ isVoidT f.ty = false) := by
  unfold publicFields
  cases h : env.struct? c with
  | none => simp
  | some s =>
    obtain ⟨_, hnd, hall, _, _⟩ := struct_wf_parts (struct_wf hwf h)
    exact ⟨hnd.sublist ((fieldsSpec_sublist s []).map _), fun f hf => hall f ((fieldsSpec_sublist s []).subset hf)⟩

theorem publicTag_facts {env : Env} (hwf : envWF env = true) {cls tag : String} {td : TagDef}
    (h : publicTag? env cls tag = some td) :
    td.name = tag ∧ tag.startsWith "." = false ∧ tyWF env td.ty = true := by
  unfold publicTag? at h
  cases hu : env.union? cls with
  | none => rw [hu] at h; cases h
  | some u =>
    rw [hu] at h
    obtain ⟨_, _, hall, _⟩ := union_wf_parts (union_wf hwf hu)
    have := findTag_some h
    have hm : td ∈ u.levels.flatMap (·.tags) := by
      have := this.1; unfold UnionDef.tagsSpec at this; exact (List.mem_filter.1 this).1
    exact ⟨this.2, this.2 ▸ (hall td hm).1, (hall td hm).2⟩

end StoneVerif.Rt.RoundTrip
