import StoneVerif.Lemmas.RtRoundTrip.Slots
/-!
C04 helper lemmas, part 5: the canonical (decoded) form of a good value passes `validate` unchanged —
what `Attribute.__set__`, `Union.__init__` and the entry point check on the decoder's result.
-/
namespace StoneVerif.Rt.RoundTrip
open StoneVerif.Rt

/-- The laws of the external calls that the round trip relies on. -/
structure ExtLaws (E : Ext) (env : Env) : Prop where
  /-- `base64.b64decode(base64.b64encode(b)) == b` -/
  b64 : ∀ h, E.b64dec (E.b64enc h) = some (some h)
  /-- `x < x` is false for every float -/
  flt_irrefl : ∀ x, E.fltLt x x = false
  /-- every declared field default equals itself (`==` is reflexive on None, booleans, integers, strings,
  non-NaN floats and void union members — all a default can be) -/
  dflt_refl : ∀ s ∈ env.structs, ∀ f ∈ s.allAttrs, ∀ d, f.dflt = some d → shallowEq E env d d = true

theorem canon_isNone {E : Ext} {env : Env} {t : PTy} {v : PyVal} (h : Good E env t v) :
    isNoneV (canon env t v) = isNoneV v := by
  have h1 := h.valid; have h2 := h.normal
  cases v <;> cases t <;> simp [validB, validPrim, normalB, isNoneV, PTy.flags, canon] at h1 h2 ⊢
  rename_i c tag p fl cls
  cases hp : publicTag? env cls tag with
  | none => simp [hp] at h1
  | some td => simp

theorem validate_canon_leaf {E : Ext} {env : Env} (t : PTy) (v : PyVal) (h : Good E env t v)
    (hl : isLeaf v = true) : validate E env t (canon env t v) = .ok (canon env t v) := by
  have h0 := h.twf; have h1 := h.valid; have h2 := h.normal
  cases v <;> simp [isLeaf] at hl <;> cases t <;>
    simp [validB, validPrim, normalB, isNoneV, PTy.flags, tyWF, inRange] at h0 h1 h2 ⊢ <;>
    simp [validate, canon, PTy.flags, intOf, fltOf, *]
  · rename_i x fl cls lo hi
    cases lo <;> cases hi <;> simp_all
  · rename_i s fl mn mx pat
    cases pat with
    | none => simp_all
    | some p =>
      simp_all
      intro hp hm
      rcases h1.2 with e | e
      · exact absurd e hp
      · rw [e] at hm; cases hm

theorem canonList_length (env : Env) (t : PTy) (xs : List PyVal) : (canonList env t xs).length = xs.length := by
  induction xs with
  | nil => rfl
  | cons x xs ih => simp [canonList, ih]

theorem validateList_canon {E : Ext} {env : Env} (t : PTy) (xs : List PyVal)
    (h : ∀ x ∈ xs, validate E env t (canon env t x) = .ok (canon env t x)) :
    validateList E env t (canonList env t xs) = .ok (canonList env t xs) := by
  induction xs with
  | nil => rfl
  | cons x xs ih =>
    simp only [canonList, validateList]
    rw [h x List.mem_cons_self, ih fun y hy => h y (List.mem_cons_of_mem _ hy)]
    rfl

theorem validateDict_canon {E : Ext} {env : Env} (kt vt : PTy) (kvs : List (PyVal × PyVal))
    (h : ∀ kx ∈ kvs, (∃ s, kx.1 = .str s) ∧ validate E env kt kx.1 = .ok kx.1 ∧
      validate E env vt (canon env vt kx.2) = .ok (canon env vt kx.2)) :
    validateDict E env kt vt (canonDict env vt kvs) = .ok (canonDict env vt kvs) := by
  induction kvs with
  | nil => rfl
  | cons a as ih =>
    obtain ⟨k, x⟩ := a
    obtain ⟨⟨s, hs⟩, hk, hx⟩ := h (k, x) List.mem_cons_self
    simp only at hs hk hx
    subst hs
    simp only [canonDict, validateDict]
    rw [hk, hx, ih fun y hy => h y (List.mem_cons_of_mem _ hy)]
    rfl

theorem attrHas_eq (f : FieldDef) (slots : List (String × PyVal)) :
    attrHas f slots = ((lookupSlot f.name slots).isSome || (f.attrNullable || f.dflt.isSome)) := by
  unfold attrHas attrGet
  cases lookupSlot f.name slots <;> cases f.attrNullable <;> simp

/-- the decoded instance answers `hasattr` for every field for which the original did -/
theorem attrHas_fill {env : Env} {fields : List FieldDef} (hndf : (fields.map (·.name)).Nodup)
    {slots : List (String × PyVal)} (hnds : (slots.map (·.1)).Nodup) {f : FieldDef} (hf : f ∈ fields)
    (hhas : attrHas f slots = true)
    (hnone : lookupSlot f.name slots = some .none → hasDefault env f.ty = true) :
    attrHas f (fillSlots env fields (canonSlots env fields slots)) = true := by
  rw [attrHas_eq] at hhas ⊢
  rw [lookupSlot_fillSlots hndf _ hf]
  unfold fillOne
  rw [lookupSlot_canonSlots env fields hnds, slotImage, find_field_of_mem hndf hf]
  cases hl : lookupSlot f.name slots with
  | none =>
    rw [hl] at hhas
    simp only [Option.isSome_none, Bool.false_or] at hhas
    simp only [Option.bind_some, Option.bind_none]
    split <;> simp [hhas]
  | some x =>
    simp only [Option.bind_some]
    by_cases hx : isNoneV x = true
    · rw [if_pos hx]
      cases x <;> simp [isNoneV] at hx
      have := hnone hl
      simp only [this, Bool.true_and]
      cases f.attrNullable <;> simp
    · rw [if_neg hx]; simp

/-! ### the chain clause of `envRT` -/

theorem mem_of_isPrefixOf {α} [BEq α] [LawfulBEq α] {l₁ l₂ : List α} (h : isPrefixOf l₁ l₂ = true) :
    ∀ x ∈ l₁, x ∈ l₂ := by
  induction l₁ generalizing l₂ with
  | nil => intro x hx; cases hx
  | cons a as ih =>
    cases l₂ with
    | nil => simp [isPrefixOf] at h
    | cons b bs =>
      simp only [isPrefixOf, Bool.and_eq_true, beq_iff_eq] at h
      intro x hx
      rcases List.mem_cons.1 hx with rfl | hx
      · rw [h.1]; exact List.mem_cons_self
      · exact List.mem_cons_of_mem _ (ih h.2 x hx)

theorem envRT_struct {env : Env} (h : envRT env = true) {c : String} {s : StructDef} (hs : env.struct? c = some s) :
    (∀ f ∈ s.allAttrs, fieldRT env f = true) ∧ chainRT env s = true := by
  simp only [envRT, List.all_eq_true, Bool.and_eq_true] at h
  exact h s (struct?_some hs).1

/-- a public field of a registered ancestor is a public field of the subclass, with the same optionality -/
theorem ancestor_field {env : Env} (hrt : envRT env = true) {c cls : String} {d a : StructDef}
    (hd : env.struct? c = some d) (ha : env.struct? cls = some a) (hsub : d.ancestors.contains cls = true)
    {f : FieldDef} (hf : f ∈ a.fieldsSpec []) :
    ∃ f' ∈ d.fieldsSpec [], f'.name = f.name ∧
      (f'.attrNullable || f'.dflt.isSome) = (f.attrNullable || f.dflt.isSome) := by
  have hc := (envRT_struct hrt hd).2
  simp only [chainRT, List.all_eq_true] at hc
  simp only [StructDef.ancestors, List.contains_eq_mem, List.mem_map, decide_eq_true_eq] at hsub
  obtain ⟨l, hl, e⟩ := hsub
  have := hc l hl
  rw [e, ha] at this
  rw [fieldsSpec_nil] at hf ⊢
  obtain ⟨hfa, hfo⟩ := List.mem_filter.1 hf
  have hm : (f.name, f.attrNullable || f.dflt.isSome, f.omitted) ∈ optSig a.allAttrs :=
    List.mem_map.2 ⟨f, hfa, rfl⟩
  obtain ⟨f', hf', e'⟩ := List.mem_map.1 (mem_of_isPrefixOf this _ hm)
  simp only [Prod.mk.injEq] at e'
  refine ⟨f', List.mem_filter.2 ⟨hf', ?_⟩, e'.1, e'.2.1⟩
  rw [e'.2.2]; exact hfo

end StoneVerif.Rt.RoundTrip

namespace StoneVerif.Rt.RoundTrip
open StoneVerif.Rt

theorem hasDefault_of_valid_none {E : Ext} {env : Env} {t : PTy} (h : validB E env t .none = true) :
    hasDefault env t = true := by
  unfold hasDefault
  by_cases hn : t.flags.nullable = true
  · simp [hn]
  · cases t <;> simp_all [validB, validPrim, isNoneV, PTy.flags]

theorem structSubclass_self {env : Env} (hwf : envWF env = true) {c : String} {s : StructDef}
    (h : env.struct? c = some s) : env.structSubclass c c = true := by
  unfold Env.structSubclass
  rw [h]
  have := (struct_wf_parts (struct_wf hwf h)).2.2.2.1
  rw [(struct?_some h).2] at this
  exact this

theorem unionSubclass_self {env : Env} (hwf : envWF env = true) {c : String} {u : UnionDef}
    (h : env.union? c = some u) : env.unionSubclass c c = true := by
  unfold Env.unionSubclass
  rw [h]
  have := (union_wf_parts (union_wf hwf h)).2.2.2
  rw [(union?_some h).2] at this
  exact this

/-- what goodness of a struct instance at its declared class gives -/
theorem good_struct_inv {E : Ext} {env : Env} {fl : Flags} {cls : String} {slots : List (String × PyVal)}
    (h : Good E env (.struct fl cls) (.struct cls slots)) :
    ∃ s, env.struct? cls = some s ∧ (∀ f ∈ publicFields env cls, attrHas f slots = true) ∧
      (slots.map (·.1)).Nodup := by
  have h0 := h.twf; have h1 := h.valid; have h3 := h.wf
  simp only [tyWF] at h0
  simp only [validB] at h1
  simp [isNoneV] at h1
  simp only [valWF, Bool.and_eq_true] at h3
  cases hs : env.struct? cls with
  | none => rw [hs] at h0; cases h0
  | some s => exact ⟨s, rfl, h1.1.2, (nodupS_iff _).1 h3.1.2⟩

theorem good_tree_inv {E : Ext} {env : Env} {fl : Flags} {cls c : String} {slots : List (String × PyVal)}
    (h : Good E env (.tree fl cls) (.struct c slots)) :
    ∃ s d tag, env.struct? cls = some s ∧ env.struct? c = some d ∧ d.ancestors.contains cls = true ∧
      leafTag? env cls c = some tag ∧ (∀ f ∈ publicFields env c, attrHas f slots = true) ∧
      (slots.map (·.1)).Nodup := by
  have h0 := h.twf; have h1 := h.valid; have h3 := h.wf
  simp only [tyWF] at h0
  simp only [validB] at h1
  simp [isNoneV] at h1
  simp only [valWF, Bool.and_eq_true] at h3
  obtain ⟨⟨⟨hl, hsub⟩, hall⟩, _⟩ := h1
  cases hs : env.struct? cls with
  | none => rw [hs] at h0; cases h0
  | some s =>
    unfold Env.structSubclass at hsub
    cases hd : env.struct? c with
    | none => rw [hd] at hsub; cases hsub
    | some d =>
      rw [hd] at hsub
      cases ht : leafTag? env cls c with
      | none => rw [ht] at hl; cases hl
      | some tag => exact ⟨s, d, tag, rfl, rfl, hsub, rfl, hall, (nodupS_iff _).1 h3.1⟩

/-- the public fields all answer `hasattr` on the decoded instance -/
theorem attrHas_canon_all {E : Ext} {env : Env} (hwf : envWF env = true) {c : String}
    {slots : List (String × PyVal)} (hnds : (slots.map (·.1)).Nodup)
    (hall : ∀ f ∈ publicFields env c, attrHas f slots = true)
    (ih : ∀ k x f, (k, x) ∈ slots → (publicFields env c).find? (·.name == k) = some f → Good E env f.ty x) :
    ∀ f ∈ publicFields env c,
      attrHas f (fillSlots env (publicFields env c) (canonSlots env (publicFields env c) slots)) = true := by
  intro f hf
  have hndf := (publicFields_facts hwf c).1
  apply attrHas_fill hndf hnds hf (hall f hf)
  intro hl
  have g := ih f.name .none f (mem_of_lookupSlot hl) (find_field_of_mem hndf hf)
  exact hasDefault_of_valid_none g.valid

theorem validate_struct_canon {E : Ext} {env : Env} (hwf : envWF env = true) {fl : Flags} {cls : String}
    {s : StructDef} (hs : env.struct? cls = some s) (slots' : List (String × PyVal))
    (hall : ∀ f ∈ publicFields env cls, attrHas f slots' = true) :
    validate E env (.struct fl cls) (.struct cls slots') = .ok (.struct cls slots') := by
  have hne := (struct_wf_parts (struct_wf hwf hs)).1
  unfold validate
  simp only [structTypeOk, structSubclass_self hwf hs, structFieldsOk, hs, allFieldsAttr_none s hne,
    Option.getD_some, Bool.and_false, Bool.false_eq_true, if_false, Bool.not_true]
  rw [publicFields_eq hs] at hall
  rw [if_neg]
  simpa [List.all_eq_true] using hall

theorem validate_canon {E : Ext} {env : Env} (hwf : envWF env = true) (hrt : envRT env = true) (t : PTy) (v : PyVal)
    (h : Good E env t v) : validate E env t (canon env t v) = .ok (canon env t v) := by
  refine good_induct hwf (fun t v => validate E env t (canon env t v) = .ok (canon env t v))
    validate_canon_leaf ?_ ?_ ?_ ?_ ?_ t v h
  · -- lists
    intro fl item mn mx xs g ih
    have h1 := g.valid
    simp only [validB] at h1
    simp [isNoneV] at h1
    unfold validate
    simp only [canon, Bool.and_false, Bool.false_eq_true, if_false, canonList_length, h1.1.1, h1.1.2,
      Bool.not_true]
    rw [validateList_canon item xs fun x hx => (ih x hx).2]
    rfl
  · -- maps
    intro fl kt vt kvs g ih
    unfold validate
    simp only [canon, Bool.and_false, Bool.false_eq_true, if_false]
    rw [validateDict_canon kt vt kvs]
    · rfl
    · intro kx hkx
      obtain ⟨⟨s, hs⟩, gk, gx, hx⟩ := ih kx hkx
      refine ⟨⟨s, hs⟩, ?_, hx⟩
      have := validate_canon_leaf kt kx.1 gk (by rw [hs]; rfl)
      rw [hs] at this ⊢
      simpa [canon] using this
  · -- structs
    intro fl cls slots g ih
    obtain ⟨s, hs, hall, hnds⟩ := good_struct_inv g
    simp only [canon]
    exact validate_struct_canon hwf hs _
      (attrHas_canon_all hwf hnds hall fun k x f hm hf => (ih k x f hm hf).1)
  · -- enumerated subtypes
    intro fl cls c slots g ih
    obtain ⟨s, d, tag, hs, hd, hsub, _, hall, hnds⟩ := good_tree_inv g
    have hne := (struct_wf_parts (struct_wf hwf hs)).1
    have hcan := attrHas_canon_all hwf hnds hall fun k x f hm hf => (ih k x f hm hf).1
    simp only [canon]
    unfold validate
    simp only [structTypeOk, Env.structSubclass, hd, hsub, structFieldsOk, hs, allFieldsAttr_none s hne,
      Option.getD_some, Bool.and_false, Bool.false_eq_true, if_false, Bool.not_true]
    rw [if_neg]
    simp only [Bool.not_eq_true, Bool.not_eq_false', List.all_eq_true]
    intro f hf
    obtain ⟨f', hf', e1, e2⟩ := ancestor_field hrt hd hs hsub hf
    rw [← publicFields_eq hd] at hf'
    have := hcan f' hf'
    rw [attrHas_eq] at this ⊢
    rw [← e1, ← e2]; exact this
  · -- unions
    intro fl cls c tag payload td g htd _ _
    have h0 := g.twf
    simp only [tyWF] at h0
    cases hu : env.union? cls with
    | none => rw [hu] at h0; cases h0
    | some u =>
      simp only [canon, htd]
      unfold validate
      simp [unionTypeOk, unionSubclass_self hwf hu]

end StoneVerif.Rt.RoundTrip
