import StoneVerif.Lemmas.RtRoundTrip.Eq
import StoneVerif.Lemmas.RtRoundTrip.DecodeMain
/-!
C04 helper lemmas, part 10: the decoded form serialises to the same JSON again, and the entry point
`json_compat_obj_decode`.
-/
namespace StoneVerif.Rt.RoundTrip
open StoneVerif.Rt

theorem wire_canon_leaf {E : Ext} {env : Env} (t : PTy) (v : PyVal) (h : Good E env t v)
    (hl : isLeaf v = true) : wire E env t (canon env t v) = wire E env t v := by
  have h1 := h.valid; have h2 := h.normal
  cases v <;> simp [isLeaf] at hl <;> cases t <;>
    simp [validB, validPrim, normalB, isNoneV, PTy.flags] at h1 h2 ⊢ <;>
    simp [wire, canon]

theorem wireList_canon {E : Ext} {env : Env} (t : PTy) (xs : List PyVal)
    (h : ∀ x ∈ xs, wire E env t (canon env t x) = wire E env t x) :
    wireList E env t (canonList env t xs) = wireList E env t xs := by
  induction xs with
  | nil => simp [canonList]
  | cons x xs ih =>
    simp only [canonList, wireList]
    rw [h x List.mem_cons_self, ih fun y hy => h y (List.mem_cons_of_mem _ hy)]

theorem wireDict_canon {E : Ext} {env : Env} (vt : PTy) (kvs : List (PyVal × PyVal))
    (h : ∀ kx ∈ kvs, (∃ s, kx.1 = .str s) ∧ wire E env vt (canon env vt kx.2) = wire E env vt kx.2) :
    wireDict E env vt (canonDict env vt kvs) = wireDict E env vt kvs := by
  induction kvs with
  | nil => simp [canonDict]
  | cons a as ih =>
    obtain ⟨k, x⟩ := a
    obtain ⟨⟨s, hs⟩, hx⟩ := h (k, x) List.mem_cons_self
    simp only at hs hx
    subst hs
    simp only [canonDict, wireDict]
    rw [hx, ih fun y hy => h y (List.mem_cons_of_mem _ hy)]

theorem pick_congr (fields : List FieldDef) (enc₁ enc₂ : List (String × JVal))
    (h : ∀ f ∈ fields, lookupW f.name enc₁ = lookupW f.name enc₂) : pick fields enc₁ = pick fields enc₂ := by
  unfold pick
  induction fields with
  | nil => rfl
  | cons f fs ih =>
    simp only [List.filterMap_cons]
    rw [h f List.mem_cons_self, ih fun g hg => h g (List.mem_cons_of_mem _ hg)]

/-- the serialised members of the decoded instance are those of the original -/
theorem pick_wire_canon {E : Ext} {env : Env} (hwf : envWF env = true) (hrt : envRT env = true)
    {c : String} {d : StructDef} (hd : env.struct? c = some d)
    {slots : List (String × PyVal)} (hnds : (slots.map (·.1)).Nodup)
    (hall : ∀ f ∈ publicFields env c, attrHas f slots = true)
    (ih : ∀ k x f, (k, x) ∈ slots → (publicFields env c).find? (·.name == k) = some f →
      Good E env f.ty x ∧ wire E env f.ty (canon env f.ty x) = wire E env f.ty x) :
    pick (publicFields env c) (wireSlots E env (publicFields env c)
        (fillSlots env (publicFields env c) (canonSlots env (publicFields env c) slots))) =
      pick (publicFields env c) (wireSlots E env (publicFields env c) slots) := by
  obtain ⟨hndf, hfacts⟩ := publicFields_facts hwf c
  have hfrt : ∀ f ∈ publicFields env c, fieldRT env f = true := by
    intro f hf
    have : f ∈ d.fieldsSpec [] := by rw [← publicFields_eq hd]; exact hf
    exact (envRT_struct hrt hd).1 f ((fieldsSpec_sublist d []).subset this)
  generalize hfd : publicFields env c = fields at *
  apply pick_congr
  intro f hf
  have hfind := find_field_of_mem hndf hf
  rw [lookupW_wireSlots E env fields (fillSlots_nodup hndf _), lookupW_wireSlots E env fields hnds]
  simp only [slotImage, hfind, Option.bind_some]
  rw [lookupSlot_fillSlots hndf _ hf]
  unfold fillOne
  rw [lookupSlot_canonSlots env fields hnds, slotImage, hfind]
  simp only [Option.bind_some]
  have hdef : (∀ x, lookupSlot f.name slots = some x → isNoneV x = true) →
      (hasDefault env f.ty && !f.attrNullable) = true → getDefault f.ty = .none := by
    intro hn hdd
    refine fill_default_none (E := E) (hfrt f hf) (hfacts f hf).2.2 (hall f hf) ?_ hn hdd
    intro x hl
    exact (ih f.name x f (mem_of_lookupSlot hl) hfind).1.valid
  cases hl : lookupSlot f.name slots with
  | none =>
    simp only [Option.bind_none]
    by_cases hdd : (hasDefault env f.ty && !f.attrNullable) = true
    · have := hdef (fun y hy => by rw [hl] at hy; cases hy) hdd
      simp [hdd, this, isNoneV]
    · simp [hdd]
  | some x =>
    simp only [Option.bind_some]
    by_cases hx : isNoneV x = true
    · simp only [hx, if_true]
      by_cases hdd : (hasDefault env f.ty && !f.attrNullable) = true
      · have := hdef (fun y hy => by rw [hl] at hy; cases hy; exact hx) hdd
        simp [hdd, this, isNoneV]
      · simp [hdd]
    · obtain ⟨g, he⟩ := ih f.name x f (mem_of_lookupSlot hl) hfind
      have hcn : isNoneV (canon env f.ty x) = false := by rw [canon_isNone g]; simpa using hx
      simp [hx, hcn, he]

theorem wire_canon {E : Ext} {env : Env} (hwf : envWF env = true) (hrt : envRT env = true)
    (t : PTy) (v : PyVal) (h : Good E env t v) : wire E env t (canon env t v) = wire E env t v := by
  refine good_induct hwf (fun t v => wire E env t (canon env t v) = wire E env t v)
    wire_canon_leaf ?_ ?_ ?_ ?_ ?_ t v h
  · intro fl item mn mx xs _ ih
    simp only [canon, wire]
    rw [wireList_canon item xs fun x hx => (ih x hx).2]
  · intro fl kt vt kvs _ ih
    simp only [canon, wire]
    rw [wireDict_canon vt kvs fun kx hkx => ⟨(ih kx hkx).1, (ih kx hkx).2.2.2⟩]
  · intro fl cls slots g ih
    obtain ⟨s, hs, hall, hnds⟩ := good_struct_inv g
    simp only [canon, wire]
    rw [pick_wire_canon hwf hrt hs hnds hall ih]
  · intro fl cls c slots g ih
    obtain ⟨s, d, tag, _, hd, _, hleaf, hall, hnds⟩ := good_tree_inv g
    simp only [canon, wire, hleaf]
    rw [pick_wire_canon hwf hrt hd hnds hall ih]
  · intro fl cls c tag payload td g htd gp ihp
    simp only [canon, htd]
    rw [wire_union E env htd, wire_union E env htd, canon_isNone gp, ihp]

/-- `json_compat_obj_decode` on the wire form of a good value -/
theorem jsonCompatObjDecode_wire_canon {E : Ext} {env : Env} (hwf : envWF env = true) (hrt : envRT env = true)
    (laws : ExtLaws E env) (strict : Bool) (t : PTy) (v : PyVal) (h : Good E env t v) :
    jsonCompatObjDecode E env [] strict t (wire E env t v) = .ok (canon env t v) := by
  have hdec := decode_wire_canon hwf hrt laws strict t v h
  have hval := validate_canon hwf hrt t v h
  unfold jsonCompatObjDecode
  by_cases hn : t.flags.nullable = true
  · simp [hn, hdec, hval]
  · have hn : t.flags.nullable = false := by simpa using hn
    have h0 := h.twf; have h1 := h.valid; have h2 := h.normal; have h3 := h.wf
    cases t <;> simp only [PTy.flags] at hn <;>
      simp only [hdec, hval]
    all_goals
      cases v <;>
        simp [validB, validPrim, normalB, isNoneV, PTy.flags, tyWF, inRange, hn] at h0 h1 h2 ⊢ <;>
        simp [wire, canon, makeStoneFriendly, pyOfJson, validate, PTy.withFlags, PTy.flags, intOf, fltOf,
          laws.b64, *]
    · rename_i fl cls lo hi _ x
      cases lo <;> cases hi <;> simp_all
    · rename_i fl mn mx pat _ s
      cases pat with
      | none => simp
      | some p =>
        simp only at h1 ⊢
        have : ¬ (¬p = "" ∧ E.patMatch p s = false) := by
          intro hc
          have := h1.2
          simp only [Bool.or_eq_true, beq_iff_eq] at this
          rcases this with e | e
          · exact hc.1 e
          · rw [hc.2] at e; cases e
        rw [if_neg this]
    · simp [valWF] at h3
      rw [h3]

end StoneVerif.Rt.RoundTrip

namespace StoneVerif.Rt.RoundTrip
open StoneVerif.Rt

theorem dflt_refl_of_B {E : Ext} {env : Env} (h : dfltsReflB E env = true) :
    ∀ s ∈ env.structs, ∀ f ∈ s.allAttrs, ∀ d, f.dflt = some d → shallowEq E env d d = true := by
  intro s hs f hf d hd
  simp only [dfltsReflB, List.all_eq_true] at h
  have := h s hs f hf
  rw [hd] at this
  exact this

end StoneVerif.Rt.RoundTrip
