import StoneVerif.Lemmas.RtRoundTrip.Induct
/-!
C04 helper lemmas, part 4: slot lists with unique names — what `canonSlots`, `wireSlots`, `fillSlots`,
`pick` hold for a given name.
-/
namespace StoneVerif.Rt.RoundTrip
open StoneVerif.Rt

theorem lookupSlot_none_of_not_mem {k : String} {slots : List (String × PyVal)}
    (h : k ∉ slots.map (·.1)) : lookupSlot k slots = none := by
  induction slots with
  | nil => rfl
  | cons a as ih =>
    obtain ⟨k', x⟩ := a
    simp only [List.map_cons, List.mem_cons, not_or] at h
    simp only [lookupSlot]
    rw [if_neg (by simpa using fun e => h.1 e.symm)]
    exact ih h.2

theorem lookupSlot_of_mem {k : String} {x : PyVal} {slots : List (String × PyVal)}
    (hnd : (slots.map (·.1)).Nodup) (h : (k, x) ∈ slots) : lookupSlot k slots = some x := by
  induction slots with
  | nil => cases h
  | cons a as ih =>
    obtain ⟨k', y⟩ := a
    simp only [List.map_cons, List.nodup_cons] at hnd
    simp only [lookupSlot]
    rcases List.mem_cons.1 h with e | h
    · cases e; simp
    · have : k' ≠ k := by
        intro e; subst e; exact hnd.1 (List.mem_map_of_mem (f := (·.1)) h)
      rw [if_neg (by simpa using this)]
      exact ih hnd.2 h

theorem mem_of_lookupSlot {k : String} {x : PyVal} {slots : List (String × PyVal)}
    (h : lookupSlot k slots = some x) : (k, x) ∈ slots := by
  induction slots with
  | nil => simp [lookupSlot] at h
  | cons a as ih =>
    obtain ⟨k', y⟩ := a
    simp only [lookupSlot] at h
    split at h
    · rename_i e; cases h; simp at e; subst e; exact List.mem_cons_self
    · exact List.mem_cons_of_mem _ (ih h)

theorem find_field_of_mem {fields : List FieldDef} (hnd : (fields.map (·.name)).Nodup) {f : FieldDef}
    (hf : f ∈ fields) : fields.find? (·.name == f.name) = some f := by
  induction fields with
  | nil => cases hf
  | cons a as ih =>
    simp only [List.map_cons, List.nodup_cons] at hnd
    rcases List.mem_cons.1 hf with rfl | hf
    · simp
    · have : a.name ≠ f.name := by
        intro e; exact hnd.1 (e ▸ List.mem_map_of_mem hf)
      rw [List.find?_cons_of_neg (by simpa using this)]
      exact ih hnd.2 hf

theorem find_field_some {fields : List FieldDef} {k : String} {f : FieldDef}
    (h : fields.find? (·.name == k) = some f) : f ∈ fields ∧ f.name = k :=
  ⟨List.mem_of_find?_eq_some h, by simpa using List.find?_some h⟩

theorem find_field_none {fields : List FieldDef} {k : String}
    (h : fields.find? (·.name == k) = none) : k ∉ fields.map (·.name) := by
  intro hk
  obtain ⟨f, hf, e⟩ := List.mem_map.1 hk
  have := List.find?_eq_none.1 h f hf
  simp [e] at this

/-- the decoded / serialised form of one slot -/
def slotImage {β} (g : FieldDef → PyVal → β) (fields : List FieldDef) (slots : List (String × PyVal)) (k : String) :
    Option β :=
  (fields.find? (·.name == k)).bind fun f =>
    (lookupSlot k slots).bind fun x => if isNoneV x then none else some (g f x)

theorem lookupSlot_canonSlots (env : Env) (fields : List FieldDef) {slots : List (String × PyVal)}
    (hnd : (slots.map (·.1)).Nodup) (k : String) :
    lookupSlot k (canonSlots env fields slots) = slotImage (fun f x => canon env f.ty x) fields slots k := by
  induction slots with
  | nil => simp [canonSlots, lookupSlot, slotImage]
  | cons a as ih =>
    obtain ⟨k', x⟩ := a
    simp only [List.map_cons, List.nodup_cons] at hnd
    have ih := ih hnd.2
    by_cases e : k' = k
    · subst e
      have hr : lookupSlot k' as = none := lookupSlot_none_of_not_mem hnd.1
      simp only [slotImage, hr, Option.bind_none, Option.bind_fun_none] at ih
      cases hf : fields.find? (·.name == k') with
      | none => simp [canonSlots, hf, ih, slotImage]
      | some f => cases x <;> simp [canonSlots, hf, ih, slotImage, lookupSlot, isNoneV]
    · have hne : (k' == k) = false := by simpa using e
      have : slotImage (fun f x => canon env f.ty x) fields ((k', x) :: as) k
          = slotImage (fun f x => canon env f.ty x) fields as k := by
        simp [slotImage, lookupSlot, hne]
      rw [this, ← ih]
      cases hf : fields.find? (·.name == k') with
      | none => simp only [canonSlots, hf]
      | some f => cases x <;> simp [canonSlots, hf, lookupSlot, hne]

theorem lookupW_wireSlots (E : Ext) (env : Env) (fields : List FieldDef) {slots : List (String × PyVal)}
    (hnd : (slots.map (·.1)).Nodup) (k : String) :
    lookupW k (wireSlots E env fields slots) = slotImage (fun f x => wire E env f.ty x) fields slots k := by
  induction slots with
  | nil => simp [wireSlots, lookupW, slotImage, lookupSlot]
  | cons a as ih =>
    obtain ⟨k', x⟩ := a
    simp only [List.map_cons, List.nodup_cons] at hnd
    have ih := ih hnd.2
    by_cases e : k' = k
    · subst e
      have hr : lookupSlot k' as = none := lookupSlot_none_of_not_mem hnd.1
      simp only [slotImage, hr, Option.bind_none, Option.bind_fun_none] at ih
      cases hf : fields.find? (·.name == k') with
      | none => simp [wireSlots, hf, ih, slotImage]
      | some f => cases x <;> simp [wireSlots, hf, ih, slotImage, lookupSlot, lookupW, isNoneV]
    · have hne : (k' == k) = false := by simpa using e
      have : slotImage (fun f x => wire E env f.ty x) fields ((k', x) :: as) k
          = slotImage (fun f x => wire E env f.ty x) fields as k := by
        simp [slotImage, lookupSlot, hne]
      rw [this, ← ih]
      cases hf : fields.find? (·.name == k') with
      | none => simp only [wireSlots, hf]
      | some f => cases x <;> simp [wireSlots, hf, lookupW, hne]

/-! ### `fillSlots` -/

/-- what `fillSlots` stores for one field -/
def fillOne (env : Env) (rs : List (String × PyVal)) (f : FieldDef) : Option (String × PyVal) :=
  match lookupSlot f.name rs with
  | some y => some (f.name, y)
  | none => if hasDefault env f.ty && !f.attrNullable then some (f.name, getDefault f.ty) else none

theorem fillSlots_eq (env : Env) (fields : List FieldDef) (rs : List (String × PyVal)) :
    fillSlots env fields rs = fields.filterMap (fillOne env rs) := rfl

theorem fillOne_fst {env : Env} {rs : List (String × PyVal)} {f : FieldDef} {p : String × PyVal}
    (h : fillOne env rs f = some p) : p.1 = f.name := by
  unfold fillOne at h
  split at h
  · cases h; rfl
  · split at h
    · cases h; rfl
    · cases h

theorem fillSlots_keys_sublist (env : Env) (fields : List FieldDef) (rs : List (String × PyVal)) :
    ((fillSlots env fields rs).map (·.1)).Sublist (fields.map (·.name)) := by
  rw [fillSlots_eq]
  induction fields with
  | nil => simp
  | cons f fs ih =>
    simp only [List.filterMap_cons]
    cases h : fillOne env rs f with
    | none => simpa using ih.trans (List.sublist_cons_self _ _)
    | some p =>
      simp only [List.map_cons]
      rw [fillOne_fst h]
      exact ih.cons_cons _

theorem fillSlots_nodup {env : Env} {fields : List FieldDef} (hnd : (fields.map (·.name)).Nodup)
    (rs : List (String × PyVal)) : ((fillSlots env fields rs).map (·.1)).Nodup :=
  hnd.sublist (fillSlots_keys_sublist env fields rs)

theorem lookupSlot_fillSlots {env : Env} {fields : List FieldDef} (hnd : (fields.map (·.name)).Nodup)
    (rs : List (String × PyVal)) {f : FieldDef} (hf : f ∈ fields) :
    lookupSlot f.name (fillSlots env fields rs) = (fillOne env rs f).map (·.2) := by
  rw [fillSlots_eq]
  induction fields with
  | nil => cases hf
  | cons a as ih =>
    simp only [List.map_cons, List.nodup_cons] at hnd
    simp only [List.filterMap_cons]
    rcases List.mem_cons.1 hf with rfl | hf
    · cases h : fillOne env rs f with
      | none =>
        simp only [Option.map_none]
        apply lookupSlot_none_of_not_mem
        intro hm
        exact hnd.1 ((fillSlots_keys_sublist env as rs).subset hm)
      | some p =>
        have := fillOne_fst h
        obtain ⟨k, y⟩ := p
        simp only at this; subst this
        simp [lookupSlot]
    · have hne : a.name ≠ f.name := by
        intro e; exact hnd.1 (e ▸ List.mem_map_of_mem hf)
      cases h : fillOne env rs a with
      | none => exact ih hnd.2 hf
      | some p =>
        have := fillOne_fst h
        obtain ⟨k, y⟩ := p
        simp only at this; subst this
        simp only [lookupSlot]
        rw [if_neg (by simpa using hne)]
        exact ih hnd.2 hf

theorem lookupSlot_fillSlots_none {env : Env} {fields : List FieldDef} (rs : List (String × PyVal)) {k : String}
    (hk : k ∉ fields.map (·.name)) : lookupSlot k (fillSlots env fields rs) = none :=
  lookupSlot_none_of_not_mem fun hm => hk ((fillSlots_keys_sublist env fields rs).subset hm)

/-! ### `pick` -/

theorem pick_keys (fields : List FieldDef) (enc : List (String × JVal)) :
    ∀ kx ∈ pick fields enc, kx.1 ∈ fields.map (·.name) := by
  intro kx h
  unfold pick at h
  obtain ⟨f, hf, e⟩ := List.mem_filterMap.1 h
  cases hl : lookupW f.name enc with
  | none => rw [hl] at e; cases e
  | some j => rw [hl] at e; cases e; exact List.mem_map_of_mem hf

theorem lookupW_pick_none {fields : List FieldDef} (enc : List (String × JVal)) {k : String}
    (hk : k ∉ fields.map (·.name)) : lookupW k (pick fields enc) = none := by
  have := pick_keys fields enc
  generalize pick fields enc = l at this
  induction l with
  | nil => rfl
  | cons a as ih =>
    obtain ⟨k', j⟩ := a
    simp only [lookupW]
    have h1 := this (k', j) List.mem_cons_self
    rw [if_neg (by simpa using fun e : k' = k => hk (e ▸ h1))]
    exact ih fun kx h => this kx (List.mem_cons_of_mem _ h)

theorem pick_cons (a : FieldDef) (as : List FieldDef) (enc : List (String × JVal)) :
    pick (a :: as) enc = (match lookupW a.name enc with | some j => [(a.name, j)] | none => []) ++ pick as enc := by
  unfold pick
  simp only [List.filterMap_cons]
  cases lookupW a.name enc <;> rfl

theorem lookupW_pick {fields : List FieldDef} (hnd : (fields.map (·.name)).Nodup) (enc : List (String × JVal))
    {f : FieldDef} (hf : f ∈ fields) : lookupW f.name (pick fields enc) = lookupW f.name enc := by
  induction fields with
  | nil => cases hf
  | cons a as ih =>
    simp only [List.map_cons, List.nodup_cons] at hnd
    rw [pick_cons]
    rcases List.mem_cons.1 hf with rfl | hf
    · cases h : lookupW f.name enc with
      | none => simpa using lookupW_pick_none enc hnd.1
      | some j => simp [lookupW]
    · have hne : a.name ≠ f.name := by
        intro e; exact hnd.1 (e ▸ List.mem_map_of_mem hf)
      cases h : lookupW a.name enc with
      | none => simpa using ih hnd.2 hf
      | some j =>
        simp only [List.singleton_append, lookupW]
        rw [if_neg (by simpa using hne)]
        exact ih hnd.2 hf

end StoneVerif.Rt.RoundTrip
