import StoneVerif.Model.Rt.RoundTripSpec
/-!
C04 helper lemmas, part 1: lists with unique names, the class tables under `envWF`, the `Good`
bundle of hypotheses and an induction principle over good values (the only place where the nested
mutual recursion over `PyVal` is unfolded).
-/
namespace StoneVerif.Rt.RoundTrip
open StoneVerif.Rt

/-! ### `nodupS`, string facts -/

theorem nodupS_iff (l : List String) : nodupS l = true ↔ l.Nodup := by
  induction l with
  | nil => simp [nodupS]
  | cons x xs ih => simp [nodupS, ih, List.nodup_cons]

theorem ne_tag_of_not_dot {s : String} (h : s.startsWith "." = false) : s ≠ ".tag" := by
  intro h2; subst h2; simp at h

theorem tag_startsWith_tag : (".tag" : String).startsWith ".tag" = true := by simp

/-! ### `Except` -/

@[simp] theorem R_bind_ok {α β} (a : α) (f : α → R β) : ((Except.ok a : R α) >>= f) = f a := rfl
@[simp] theorem R_bind_error {α β} (e : Err) (f : α → R β) : ((Except.error e : R α) >>= f) = .error e := rfl
@[simp] theorem R_pure {α} (a : α) : (pure a : R α) = .ok a := rfl
@[simp] theorem R_map_ok {α β} (a : α) (f : α → β) : (f <$> (Except.ok a : R α)) = .ok (f a) := rfl
@[simp] theorem R_map_ok' {α β} (a : α) (f : α → β) : Except.map f (Except.ok a : R α) = .ok (f a) := rfl

/-! ### environment lookups -/

theorem struct?_some {env : Env} {c : String} {s : StructDef} (h : env.struct? c = some s) :
    s ∈ env.structs ∧ s.cls = c := by
  unfold Env.struct? at h
  exact ⟨List.mem_of_find?_eq_some h, by simpa using List.find?_some h⟩

theorem union?_some {env : Env} {c : String} {u : UnionDef} (h : env.union? c = some u) :
    u ∈ env.unions ∧ u.cls = c := by
  unfold Env.union? at h
  exact ⟨List.mem_of_find?_eq_some h, by simpa using List.find?_some h⟩

theorem struct_wf {env : Env} (hwf : envWF env = true) {c : String} {s : StructDef}
    (h : env.struct? c = some s) : s.wf env = true := by
  simp only [envWF, Bool.and_eq_true, List.all_eq_true] at hwf
  exact hwf.1.2 s (struct?_some h).1

theorem union_wf {env : Env} (hwf : envWF env = true) {c : String} {u : UnionDef}
    (h : env.union? c = some u) : u.wf env = true := by
  simp only [envWF, Bool.and_eq_true, List.all_eq_true] at hwf
  exact hwf.2 u (union?_some h).1

end StoneVerif.Rt.RoundTrip
