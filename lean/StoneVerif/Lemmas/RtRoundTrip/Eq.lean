import StoneVerif.Lemmas.RtRoundTrip.Fields
/-!
C04 helper lemmas, part 9: a good value is `==` to its canonical (decoded) form.
-/
namespace StoneVerif.Rt.RoundTrip
open StoneVerif.Rt

theorem pyEq_canon_leaf {E : Ext} {env : Env} (laws : ExtLaws E env) (t : PTy) (v : PyVal)
    (h : Good E env t v) (hl : isLeaf v = true) : pyEq E env v (canon env t v) = true := by
  have h1 := h.valid; have h2 := h.normal
  cases v <;> simp [isLeaf] at hl <;> cases t <;>
    simp [validB, validPrim, normalB, isNoneV, PTy.flags, inRange] at h1 h2 ⊢ <;>
    simp [pyEq, numEq, intOf, canon, laws.flt_irrefl, *]

theorem pyEqList_canon {E : Ext} {env : Env} (t : PTy) (xs : List PyVal)
    (h : ∀ x ∈ xs, pyEq E env x (canon env t x) = true) : pyEqList E env xs (canonList env t xs) = true := by
  induction xs with
  | nil => simp [pyEqList, canonList]
  | cons x xs ih =>
    simp only [canonList, pyEqList, Bool.and_eq_true]
    exact ⟨h x List.mem_cons_self, ih fun y hy => h y (List.mem_cons_of_mem _ hy)⟩

/-! ### dicts -/

theorem canonDict_length (env : Env) (vt : PTy) (kvs : List (PyVal × PyVal))
    (h : ∀ kx ∈ kvs, ∃ s, kx.1 = .str s) : (canonDict env vt kvs).length = kvs.length := by
  induction kvs with
  | nil => rfl
  | cons a as ih =>
    obtain ⟨k, x⟩ := a
    obtain ⟨s, hs⟩ := h (k, x) List.mem_cons_self
    simp only at hs; subst hs
    simp [canonDict, ih fun y hy => h y (List.mem_cons_of_mem _ hy)]

theorem mem_dictKeys {s : String} {x : PyVal} {kvs : List (PyVal × PyVal)} (h : (.str s, x) ∈ kvs) :
    s ∈ dictKeys kvs := by
  unfold dictKeys
  exact List.mem_filterMap.2 ⟨(.str s, x), h, rfl⟩

theorem dictLookup_canonDict {E : Ext} {env : Env} (vt : PTy) {kvs : List (PyVal × PyVal)}
    (hk : ∀ kx ∈ kvs, ∃ s, kx.1 = .str s) (hnd : (dictKeys kvs).Nodup) {s : String} {x : PyVal}
    (hm : (.str s, x) ∈ kvs) :
    dictLookup E env (.str s) (canonDict env vt kvs) = some (canon env vt x) := by
  induction kvs with
  | nil => cases hm
  | cons a as ih =>
    obtain ⟨k', x'⟩ := a
    obtain ⟨s', hs'⟩ := hk (k', x') List.mem_cons_self
    simp only at hs'; subst hs'
    have hnd' : s' ∉ dictKeys as ∧ (dictKeys as).Nodup := by
      have : dictKeys ((PyVal.str s', x') :: as) = s' :: dictKeys as := by simp [dictKeys]
      rw [this] at hnd; exact List.nodup_cons.1 hnd
    have hse : shallowEq E env (.str s) (.str s') = (s == s') := by simp [shallowEq]
    simp only [canonDict, dictLookup, hse]
    rcases List.mem_cons.1 hm with e | hm2
    · cases e; simp
    · have : s ≠ s' := by
        intro e; rw [e] at hm2; exact hnd'.1 (mem_dictKeys hm2)
      rw [if_neg (by simpa using this)]
      exact ih (fun y hy => hk y (List.mem_cons_of_mem _ hy)) hnd'.2 hm2

theorem pyEqDict_of {E : Ext} {env : Env} (vt : PTy) (ys : List (PyVal × PyVal)) (rest : List (PyVal × PyVal))
    (h : ∀ kx ∈ rest, dictLookup E env kx.1 ys = some (canon env vt kx.2) ∧
      pyEq E env kx.2 (canon env vt kx.2) = true) : pyEqDict E env rest ys = true := by
  induction rest with
  | nil => simp [pyEqDict]
  | cons a as ih =>
    obtain ⟨k, x⟩ := a
    have := h (k, x) List.mem_cons_self
    simp only [pyEqDict, this.1, this.2, Bool.true_and]
    exact ih fun y hy => h y (List.mem_cons_of_mem _ hy)

/-! ### structs -/

theorem all_contains_self (l : List String) : l.all l.contains = true := by
  simp [List.all_eq_true]

/-- under validity, a member that is absent from the document and that `decode_struct_fields` fills in has a
nullable validator -/
theorem fill_default_nullable {E : Ext} {env : Env} {slots : List (String × PyVal)}
    {f : FieldDef} (hfrt : fieldRT env f = true) (hvoid : isVoidT f.ty = false)
    (hhas : attrHas f slots = true)
    (hvalid : ∀ x, lookupSlot f.name slots = some x → validB E env f.ty x = true)
    (hnone : ∀ x, lookupSlot f.name slots = some x → isNoneV x = true)
    (hd : (hasDefault env f.ty && !f.attrNullable) = true) : f.ty.flags.nullable = true := by
  simp only [Bool.and_eq_true, Bool.not_eq_true'] at hd
  cases hl : lookupSlot f.name slots with
  | some x =>
    have hx := hnone x hl
    cases x <;> simp [isNoneV] at hx
    have := hvalid _ hl
    unfold validB at this
    by_cases hn : f.ty.flags.nullable = true
    · exact hn
    · have hn : f.ty.flags.nullable = false := by simpa using hn
      exfalso
      cases htt : f.ty <;> simp [htt, isVoidT, validPrim, PTy.flags, isNoneV] at this hn hvoid
      all_goals simp [hn] at this
  | none =>
    rw [attrHas_eq, hl, hd.2] at hhas
    simp only [Option.isSome_none, Bool.false_or] at hhas
    cases hdf : f.dflt with
    | none => rw [hdf] at hhas; cases hhas
    | some d => exact ((fieldRT_parts hfrt).2.2 d hdf hd.1).1

/-- ... so what is filled in is `None` -/
theorem fill_default_none {E : Ext} {env : Env} {slots : List (String × PyVal)}
    {f : FieldDef} (hfrt : fieldRT env f = true) (hvoid : isVoidT f.ty = false)
    (hhas : attrHas f slots = true)
    (hvalid : ∀ x, lookupSlot f.name slots = some x → validB E env f.ty x = true)
    (hnone : ∀ x, lookupSlot f.name slots = some x → isNoneV x = true)
    (hd : (hasDefault env f.ty && !f.attrNullable) = true) : getDefault f.ty = .none :=
  getDefault_none_of_nullable (fill_default_nullable hfrt hvoid hhas hvalid hnone hd)

end StoneVerif.Rt.RoundTrip

namespace StoneVerif.Rt.RoundTrip
open StoneVerif.Rt

theorem attrGet_fill {env : Env} {fields : List FieldDef} (hndf : (fields.map (·.name)).Nodup)
    (rs : List (String × PyVal)) {f : FieldDef} (hf : f ∈ fields) :
    attrGet f (fillSlots env fields rs) =
      match lookupSlot f.name rs with
      | some y => some y
      | none =>
        if (hasDefault env f.ty && !f.attrNullable) = true then some (getDefault f.ty)
        else if f.attrNullable = true then some .none else f.dflt := by
  unfold attrGet
  rw [lookupSlot_fillSlots hndf rs hf]
  unfold fillOne
  cases lookupSlot f.name rs with
  | some y => rfl
  | none =>
    by_cases hd : (hasDefault env f.ty && !f.attrNullable) = true
    · simp [hd]
    · simp [hd]

theorem pyEqSlots_of {E : Ext} {env : Env} (names : List String) (fs2 : List FieldDef)
    (s2 : List (String × PyVal)) (rest : List (String × PyVal))
    (h : ∀ kx ∈ rest, names.contains kx.1 = true →
      ∃ y, effective fs2 s2 kx.1 = some y ∧ pyEq E env kx.2 y = true) :
    pyEqSlots E env names fs2 s2 rest = true := by
  induction rest with
  | nil => simp [pyEqSlots]
  | cons a as ih =>
    obtain ⟨k, x⟩ := a
    simp only [pyEqSlots, Bool.and_eq_true]
    refine ⟨?_, ih fun y hy => h y (List.mem_cons_of_mem _ hy)⟩
    by_cases hc : names.contains k = true
    · obtain ⟨y, hy, he⟩ := h (k, x) List.mem_cons_self hc
      simp only at hy he
      rw [hc, hy]; simp [he]
    · have hc : names.contains k = false := by simpa using hc
      rw [hc]; rfl

/-- `Struct.__eq__` between an instance and its decoded form (both of class `c`) -/
theorem pyEq_struct_canon {E : Ext} {env : Env} (hwf : envWF env = true) (hrt : envRT env = true)
    (laws : ExtLaws E env) {c : String} {d : StructDef} (hd : env.struct? c = some d)
    {slots : List (String × PyVal)} (hnds : (slots.map (·.1)).Nodup)
    (hall : ∀ f ∈ publicFields env c, attrHas f slots = true)
    (ih : ∀ k x f, (k, x) ∈ slots → (publicFields env c).find? (·.name == k) = some f →
      Good E env f.ty x ∧ pyEq E env x (canon env f.ty x) = true) :
    pyEq E env (.struct c slots)
      (.struct c (fillSlots env (publicFields env c) (canonSlots env (publicFields env c) slots))) = true := by
  obtain ⟨hndf, hfacts⟩ := publicFields_facts hwf c
  have hne := (struct_wf_parts (struct_wf hwf hd)).1
  have hanc := (struct_wf_parts (struct_wf hwf hd)).2.2.2.1
  rw [(struct?_some hd).2] at hanc
  have hfs : (d.allFieldsAttr none).getD [] = publicFields env c := by
    rw [allFieldsAttr_none d hne, publicFields_eq hd]; rfl
  have hfrt : ∀ f ∈ publicFields env c, fieldRT env f = true ∧ f ∈ d.allAttrs := by
    intro f hf
    have : f ∈ d.fieldsSpec [] := by rw [← publicFields_eq hd]; exact hf
    have hm := (fieldsSpec_sublist d []).subset this
    exact ⟨(envRT_struct hrt hd).1 f hm, hm⟩
  generalize hfd : publicFields env c = fields at *
  -- what the original holds for a field, and what that says about the filled-in default
  have hdef : ∀ f ∈ fields, (∀ x, lookupSlot f.name slots = some x → isNoneV x = true) →
      (hasDefault env f.ty && !f.attrNullable) = true → getDefault f.ty = .none := by
    intro f hf hn hdd
    refine fill_default_none (E := E) (hfrt f hf).1 (hfacts f hf).2.2 (hall f hf) ?_ hn hdd
    intro x hl
    exact (ih f.name x f (mem_of_lookupSlot hl) (find_field_of_mem hndf hf)).1.valid
  unfold pyEq
  simp only [hd, hfs, all_contains_self, Bool.and_self, hanc, Bool.or_self, Bool.true_and, Bool.and_eq_true]
  constructor
  · -- the slots that are set on the left
    apply pyEqSlots_of
    intro kx hkx hc
    obtain ⟨k, x⟩ := kx
    simp only [List.contains_eq_mem, List.mem_map, decide_eq_true_eq] at hc
    obtain ⟨f, hf, hfn⟩ := hc
    subst hfn
    have hfind := find_field_of_mem hndf hf
    have hl := lookupSlot_of_mem hnds hkx
    obtain ⟨g, he⟩ := ih f.name x f hkx hfind
    simp only [effective, hfind, Option.bind_some]
    rw [attrGet_fill hndf _ hf, lookupSlot_canonSlots env fields hnds, slotImage, hfind, hl]
    simp only [Option.bind_some]
    by_cases hx : isNoneV x = true
    · rw [if_pos hx]
      cases x <;> simp [isNoneV] at hx
      simp only []
      have hhd : hasDefault env f.ty = true := hasDefault_of_valid_none g.valid
      by_cases ha : f.attrNullable = true
      · exact ⟨.none, by simp [hhd, ha], by simp [pyEq]⟩
      · have ha : f.attrNullable = false := by simpa using ha
        have hdd : (hasDefault env f.ty && !f.attrNullable) = true := by simp [hhd, ha]
        have := hdef f hf (fun y hy => by rw [hl] at hy; cases hy; rfl) hdd
        exact ⟨.none, by simp [hdd, this], by simp [pyEq]⟩
    · rw [if_neg hx]
      exact ⟨_, rfl, he⟩
  · -- the fields that are not set on the left
    rw [List.all_eq_true]
    intro f hf
    cases hl : lookupSlot f.name slots with
    | some x => simp
    | none =>
      have hfind := find_field_of_mem hndf hf
      simp only [Option.isSome_none, Bool.false_or, effective, hfind, Option.bind_some]
      rw [attrGet_fill hndf _ hf, lookupSlot_canonSlots env fields hnds, slotImage, hfind, hl]
      simp only [Option.bind_none, Option.bind_some]
      have hhas := hall f hf
      rw [attrHas_eq, hl] at hhas
      simp only [Option.isSome_none, Bool.false_or] at hhas
      unfold attrGet
      simp only [lookupSlot]
      by_cases ha : f.attrNullable = true
      · simp [ha, shallowEq]
      · have ha : f.attrNullable = false := by simpa using ha
        simp only [ha, Bool.false_or] at hhas
        cases hdf : f.dflt with
        | none => rw [hdf] at hhas; cases hhas
        | some dv =>
          simp only [ha, Bool.false_eq_true, if_false, Bool.not_false, Bool.and_true]
          by_cases hhd : hasDefault env f.ty = true
          · have hdn := ((fieldRT_parts (hfrt f hf).1).2.2 dv hdf hhd).2
            cases dv <;> simp [isNoneV] at hdn
            have := hdef f hf (fun y hy => by rw [hl] at hy; cases hy) (by simp [hhd, ha])
            simp [hhd, this, shallowEq]
          · have hhd : hasDefault env f.ty = false := by simpa using hhd
            simp only [hhd, Bool.false_eq_true, if_false]
            exact laws.dflt_refl d (struct?_some hd).1 f (hfrt f hf).2 dv hdf

end StoneVerif.Rt.RoundTrip

namespace StoneVerif.Rt.RoundTrip
open StoneVerif.Rt

theorem pyEq_canon {E : Ext} {env : Env} (hwf : envWF env = true) (hrt : envRT env = true)
    (laws : ExtLaws E env) (t : PTy) (v : PyVal) (h : Good E env t v) :
    pyEq E env v (canon env t v) = true := by
  refine good_induct hwf (fun t v => pyEq E env v (canon env t v) = true)
    (pyEq_canon_leaf laws) ?_ ?_ ?_ ?_ ?_ t v h
  · intro fl item mn mx xs _ ih
    simp only [canon, pyEq]
    exact pyEqList_canon item xs fun x hx => (ih x hx).2
  · intro fl kt vt kvs g ih
    have h3 := g.wf
    simp only [valWF, Bool.and_eq_true] at h3
    have hk : ∀ kx ∈ kvs, ∃ s, kx.1 = .str s := fun kx hkx => (ih kx hkx).1
    simp only [canon, pyEq, canonDict_length env vt kvs hk, beq_self_eq_true, Bool.true_and]
    apply pyEqDict_of vt
    intro kx hkx
    obtain ⟨⟨s, hs⟩, _, _, he⟩ := ih kx hkx
    refine ⟨?_, he⟩
    obtain ⟨k, x⟩ := kx
    simp only at hs; subst hs
    exact dictLookup_canonDict vt hk ((nodupS_iff _).1 h3.1) hkx
  · intro fl cls slots g ih
    obtain ⟨s, hs, hall, hnds⟩ := good_struct_inv g
    simp only [canon]
    exact pyEq_struct_canon hwf hrt laws hs hnds hall ih
  · intro fl cls c slots g ih
    obtain ⟨s, d, tag, _, hd, _, _, hall, hnds⟩ := good_tree_inv g
    simp only [canon]
    exact pyEq_struct_canon hwf hrt laws hd hnds hall ih
  · intro fl cls c tag payload td g htd _ ihp
    have h1 := g.valid
    simp only [validB] at h1
    simp [isNoneV] at h1
    simp only [canon, htd, pyEq, h1.1, Bool.or_true, beq_self_eq_true, Bool.true_and, ihp]

end StoneVerif.Rt.RoundTrip
