import StoneVerif.Lemmas.RtRoundTrip.Valid
/-!
C04 helper lemmas, part 6: `decode_struct_fields` on the wire form of an instance (`finishFields`,
`finishStruct`, `decodeMembers`), given that every member decodes to its canonical form.
-/
namespace StoneVerif.Rt.RoundTrip
open StoneVerif.Rt

theorem jsonLookup_eq_lookupW (k : String) (kvs : List (String × JVal)) : jsonLookup k kvs = lookupW k kvs := by
  induction kvs with
  | nil => rfl
  | cons a as ih => obtain ⟨k', x⟩ := a; simp only [jsonLookup, lookupW, ih]

theorem childLookup_decodeMembers (E : Ext) (env : Env) (perms : List String) (strict : Bool)
    (tbl : List (String × PTy)) (kvs : List (String × JVal)) (k : String) :
    childLookup k (decodeMembers E env perms strict tbl kvs) =
      (tbl.find? (·.1 == k)).bind fun p => (lookupW k kvs).map fun j => decode E env perms strict p.2 j := by
  induction kvs with
  | nil => simp [decodeMembers, childLookup, lookupW]
  | cons a as ih =>
    obtain ⟨k', x⟩ := a
    by_cases e : k' = k
    · subst e
      cases hf : tbl.find? (·.1 == k') with
      | none => simp only [decodeMembers, hf, ih, Option.bind_none]
      | some p => obtain ⟨n, ft⟩ := p; simp [decodeMembers, hf, childLookup, lookupW]
    · have hne : (k' == k) = false := by simpa using e
      cases hf : tbl.find? (·.1 == k') with
      | none => simp only [decodeMembers, hf, ih, lookupW, hne]; rfl
      | some p => obtain ⟨n, ft⟩ := p; simp [decodeMembers, hf, childLookup, lookupW, hne, ih]

/-- what `Attribute.__set__` checks -/
def AttrOK (E : Ext) (env : Env) (f : FieldDef) (y : PyVal) : Prop :=
  if f.attrUserDefined then validateTypeOnly env f.ty y = .ok () else validate E env f.ty y = .ok y

theorem validateTypeOnly_of_validate {E : Ext} {env : Env} {t : PTy} {y y' : PyVal}
    (hu : userTy t = true) (h : validate E env t y = .ok y') : validateTypeOnly env t y = .ok () := by
  cases t <;> simp [userTy] at hu <;> cases y <;>
    simp [validate, validateTypeOnly, PTy.flags, structTypeOk, unionTypeOk] at h ⊢
  all_goals first
    | (simp [verr] at h; done)
    | (intro hn; simp [hn, verr] at h; done)
    | (split at h <;> simp_all [verr]; done)
    | (rename_i c1 c2 _ _; by_cases hc : env.unionSubclass c1 c2 = true <;> simp_all [verr]; done)

theorem fieldRT_parts {env : Env} {f : FieldDef} (h : fieldRT env f = true) :
    (f.attrNullable = true → f.ty.flags.nullable = true) ∧ (f.attrUserDefined = true → userTy f.ty = true) ∧
    (∀ d, f.dflt = some d → hasDefault env f.ty = true → f.ty.flags.nullable = true ∧ isNoneV d = true) := by
  simp only [fieldRT, Bool.and_eq_true, Bool.or_eq_true, Bool.not_eq_true'] at h
  refine ⟨fun h1 => ?_, fun h1 => ?_, fun d hd hh => ?_⟩
  · rcases h.1.1 with h2 | h2
    · rw [h1] at h2; cases h2
    · exact h2
  · rcases h.1.2 with h2 | h2
    · rw [h1] at h2; cases h2
    · exact h2
  · have := h.2
    rw [hd] at this
    simp only [Bool.or_eq_true, Bool.not_eq_true', Bool.and_eq_true] at this
    rcases this with h2 | h2
    · rw [hh] at h2; cases h2
    · exact h2

theorem attrOK_of_validate {E : Ext} {env : Env} {f : FieldDef} (hf : fieldRT env f = true) {y : PyVal}
    (h : validate E env f.ty y = .ok y) : AttrOK E env f y := by
  unfold AttrOK
  split
  · rename_i hu; exact validateTypeOnly_of_validate ((fieldRT_parts hf).2.1 hu) h
  · exact h

theorem setSlot_absent {k : String} {y : PyVal} {acc : List (String × PyVal)} (h : k ∉ acc.map (·.1)) :
    setSlot k y acc = acc ++ [(k, y)] := by
  induction acc with
  | nil => rfl
  | cons a as ih =>
    obtain ⟨k', w⟩ := a
    simp only [List.map_cons, List.mem_cons, not_or] at h
    simp only [setSlot]
    rw [if_neg (by simpa using fun e : k' = k => h.1 e.symm), ih h.2]
    rfl

theorem delSlot_absent {k : String} {acc : List (String × PyVal)} (h : k ∉ acc.map (·.1)) :
    delSlot k acc = acc := by
  induction acc with
  | nil => rfl
  | cons a as ih =>
    obtain ⟨k', w⟩ := a
    simp only [List.map_cons, List.mem_cons, not_or] at h
    simp only [delSlot]
    rw [if_neg (by simpa using fun e : k' = k => h.1 e.symm), ih h.2]

theorem attrSet_eq (E : Ext) (env : Env) (f : FieldDef) (acc : List (String × PyVal)) (y : PyVal) :
    attrSet E env f acc y =
      if (f.attrNullable && isNoneV y) = true then .ok (delSlot f.name acc)
      else if f.attrUserDefined = true then (validateTypeOnly env f.ty y >>= fun _ => pure (setSlot f.name y acc))
      else (validate E env f.ty y >>= fun x' => pure (setSlot f.name x' acc)) := by
  unfold attrSet; cases y <;> rfl

theorem attrSet_ok {E : Ext} {env : Env} {f : FieldDef} {y : PyVal} {acc : List (String × PyVal)}
    (hn : isNoneV y = false ∨ f.attrNullable = false) (hok : AttrOK E env f y) :
    attrSet E env f acc y = .ok (setSlot f.name y acc) := by
  have key : (f.attrNullable && isNoneV y) = false := by rcases hn with hn | hn <;> simp [hn]
  rw [attrSet_eq, key]
  unfold AttrOK at hok
  simp only [Bool.false_eq_true, if_false]
  by_cases hu : f.attrUserDefined = true
  · rw [if_pos hu] at hok ⊢; rw [hok]; rfl
  · rw [if_neg hu] at hok ⊢; rw [hok]; rfl

theorem attrSet_none {E : Ext} {env : Env} {f : FieldDef} {y : PyVal} {acc : List (String × PyVal)}
    (hn : isNoneV y = true) (ha : f.attrNullable = true) :
    attrSet E env f acc y = .ok (delSlot f.name acc) := by
  rw [attrSet_eq]; simp [hn, ha]

theorem fillSlots_cons (env : Env) (f : FieldDef) (rest : List FieldDef) (rs : List (String × PyVal)) :
    fillSlots env (f :: rest) rs = (fillOne env rs f).toList ++ fillSlots env rest rs := by
  rw [fillSlots_eq, fillSlots_eq, List.filterMap_cons]
  cases fillOne env rs f <;> rfl

/-- the loop of `decode_struct_fields` -/
theorem finishFields_fill (E : Ext) (env : Env) (children : List (String × R PyVal)) (rs : List (String × PyVal)) :
    ∀ (rest : List FieldDef) (acc : List (String × PyVal)),
      (rest.map (·.name)).Nodup → (∀ f ∈ rest, f.name ∉ acc.map (·.1)) →
      (∀ f ∈ rest, childLookup f.name children = (lookupSlot f.name rs).map .ok) →
      (∀ f ∈ rest, ∀ y, lookupSlot f.name rs = some y → isNoneV y = false ∧ AttrOK E env f y) →
      (∀ f ∈ rest, hasDefault env f.ty = true →
        (f.attrNullable = true → isNoneV (getDefault f.ty) = true) ∧
        (f.attrNullable = false → AttrOK E env f (getDefault f.ty))) →
      finishFields E env rest children acc = .ok (acc ++ fillSlots env rest rs) := by
  intro rest
  induction rest with
  | nil => intro acc _ _ _ _ _; simp [finishFields, fillSlots]
  | cons f rest ih =>
    intro acc hnd hacc hch hset hdef
    simp only [List.map_cons, List.nodup_cons] at hnd
    have hfacc := hacc f List.mem_cons_self
    -- the accumulator after this field, in every branch, is `acc ++ (fillOne env rs f).toList`
    have step : ∀ acc', acc' = acc ++ (fillOne env rs f).toList →
        finishFields E env rest children acc' = .ok (acc ++ fillSlots env (f :: rest) rs) := by
      intro acc' e
      rw [fillSlots_cons, ← List.append_assoc, ← e]
      apply ih acc' hnd.2
      · intro g hg hm
        rw [e, List.map_append, List.mem_append] at hm
        rcases hm with hm | hm
        · exact hacc g (List.mem_cons_of_mem _ hg) hm
        · cases ho : fillOne env rs f with
          | none => rw [ho] at hm; simp at hm
          | some p =>
            rw [ho] at hm
            simp only [Option.toList_some, List.map_cons, List.map_nil, List.mem_singleton] at hm
            rw [fillOne_fst ho] at hm
            exact hnd.1 (hm ▸ List.mem_map_of_mem hg)
      · exact fun g hg => hch g (List.mem_cons_of_mem _ hg)
      · exact fun g hg => hset g (List.mem_cons_of_mem _ hg)
      · exact fun g hg => hdef g (List.mem_cons_of_mem _ hg)
    unfold finishFields
    rw [hch f List.mem_cons_self]
    cases hl : lookupSlot f.name rs with
    | some y =>
      obtain ⟨hy, hok⟩ := hset f List.mem_cons_self y hl
      simp only [Option.map_some, R_bind_ok]
      rw [attrSet_ok (Or.inl hy) hok, R_bind_ok]
      apply step
      simp [fillOne, hl, setSlot_absent hfacc]
    | none =>
      simp only [Option.map_none]
      by_cases hd : hasDefault env f.ty = true
      · rw [if_pos hd]
        obtain ⟨h1, h2⟩ := hdef f List.mem_cons_self hd
        by_cases ha : f.attrNullable = true
        · rw [attrSet_none (h1 ha) ha, R_bind_ok]
          apply step
          simp [fillOne, hl, hd, ha, delSlot_absent hfacc]
        · have ha : f.attrNullable = false := by simpa using ha
          rw [attrSet_ok (Or.inr ha) (h2 ha), R_bind_ok]
          apply step
          simp [fillOne, hl, hd, ha, setSlot_absent hfacc]
      · rw [if_neg hd]
        apply step
        have hd : hasDefault env f.ty = false := by simpa using hd
        simp [fillOne, hl, hd]

end StoneVerif.Rt.RoundTrip

namespace StoneVerif.Rt.RoundTrip
open StoneVerif.Rt

theorem validate_tree_own {E : Ext} {env : Env} (hwf : envWF env = true) {fl : Flags} {cls : String}
    {s : StructDef} (hs : env.struct? cls = some s) (slots' : List (String × PyVal))
    (hall : ∀ f ∈ publicFields env cls, attrHas f slots' = true) :
    validate E env (.tree fl cls) (.struct cls slots') = .ok (.struct cls slots') := by
  have hne := (struct_wf_parts (struct_wf hwf hs)).1
  unfold validate
  simp only [structTypeOk, structSubclass_self hwf hs, structFieldsOk, hs, allFieldsAttr_none s hne,
    Option.getD_some, Bool.and_false, Bool.false_eq_true, if_false, Bool.not_true]
  rw [publicFields_eq hs] at hall
  rw [if_neg]
  simpa [List.all_eq_true] using hall

/-- the value `get_default()` returns passes the validator that `has_default()` -/
theorem validate_getDefault {E : Ext} {env : Env} (hwf : envWF env = true) (t : PTy)
    (hd : hasDefault env t = true) : validate E env t (getDefault t) = .ok (getDefault t) := by
  by_cases hn : t.flags.nullable = true
  · unfold getDefault validate; simp [hn]
  · have hn : t.flags.nullable = false := by simpa using hn
    have hall : ∀ cls s, env.struct? cls = some s →
        ((s.levels.flatMap (·.fields)).all fun f => f.attrNullable || f.dflt.isSome) = true →
        ∀ f ∈ publicFields env cls, attrHas f [] = true := by
      intro cls s hs h f hf
      rw [publicFields_eq hs] at hf
      have := List.all_eq_true.1 h f ((fieldsSpec_sublist s []).subset hf)
      rw [attrHas_eq]; simpa [lookupSlot] using this
    cases t with
    | void fl =>
      simp only [PTy.flags] at hn
      simp [validate, getDefault, PTy.flags, hn]
    | struct fl cls =>
      simp only [PTy.flags] at hn
      simp only [hasDefault, PTy.flags, hn, Bool.false_or] at hd
      simp only [getDefault, PTy.flags, hn]
      cases hs : env.struct? cls with
      | none => simp [hs] at hd
      | some s =>
        rw [hs] at hd
        exact validate_struct_canon hwf hs [] (hall cls s hs hd)
    | tree fl cls =>
      simp only [PTy.flags] at hn
      -- `StructTree.has_default()` is `False`: only the nullable wrapper gives a tree-typed field a default
      simp [hasDefault, PTy.flags, hn] at hd
    | _ => simp [hasDefault, PTy.flags] at hn hd; simp [hn] at hd

theorem getDefault_none_of_nullable {t : PTy} (h : t.flags.nullable = true) : getDefault t = .none := by
  unfold getDefault; simp [h]

/-- `decode_struct` on the wire members of a good instance: `kvs` holds the serialised fields, possibly
after a `.tag` member. -/
theorem finishStruct_canon {E : Ext} {env : Env} (hwf : envWF env = true) (hrt : envRT env = true)
    (strict : Bool) {cls : String} {s : StructDef} (hs : env.struct? cls = some s)
    {slots : List (String × PyVal)} (hnds : (slots.map (·.1)).Nodup)
    (hall : ∀ f ∈ publicFields env cls, attrHas f slots = true)
    (ih : ∀ k x f, (k, x) ∈ slots → (publicFields env cls).find? (·.name == k) = some f →
      Good E env f.ty x ∧ decode E env [] strict f.ty (wire E env f.ty x) = .ok (canon env f.ty x))
    (pre : List (String × JVal)) (hpre : ∀ kx ∈ pre, kx.1 = ".tag")
    (fields : List FieldDef) (hfe : fields = publicFields env cls)
    (kvs : List (String × JVal)) (hkvs : kvs = pre ++ pick fields (wireSlots E env fields slots)) :
    finishStruct E env [] strict cls kvs
        (decodeMembers E env [] strict (fields.map fun f => (f.name, f.ty)) kvs)
      = .ok (.struct cls (fillSlots env fields (canonSlots env fields slots))) := by
  subst hfe
  generalize hfd : publicFields env cls = fields at *
  obtain ⟨hndf, hfacts⟩ := publicFields_facts hwf cls
  have hne := (struct_wf_parts (struct_wf hwf hs)).1
  rw [hfd] at hndf hfacts
  have hff : s.fieldsFor [] = fields := by rw [fieldsFor_nil s hne, ← hfd]; exact (publicFields_eq hs).symm
  have hfrt : ∀ f ∈ fields, fieldRT env f = true := by
    intro f hf
    have : f ∈ s.fieldsSpec [] := by rw [← publicFields_eq hs, hfd]; exact hf
    exact (envRT_struct hrt hs).1 f ((fieldsSpec_sublist s []).subset this)
  -- lookups in the document
  have hlook : ∀ f ∈ fields, lookupW f.name kvs =
      slotImage (fun f x => wire E env f.ty x) fields slots f.name := by
    intro f hf
    have hne' : f.name ≠ ".tag" := ne_tag_of_not_dot (hfacts f hf).1
    have : lookupW f.name kvs = lookupW f.name (pick fields (wireSlots E env fields slots)) := by
      rw [hkvs]
      clear ih hall hkvs
      induction pre with
      | nil => rfl
      | cons a as iha =>
        obtain ⟨k', j⟩ := a
        have := hpre (k', j) List.mem_cons_self
        simp only at this; subst this
        simp only [List.cons_append, lookupW]
        rw [if_neg (by simpa using fun e : ".tag" = f.name => hne' e.symm)]
        exact iha fun kx h => hpre kx (List.mem_cons_of_mem _ h)
    rw [this, lookupW_pick hndf _ hf, lookupW_wireSlots E env fields hnds]
  unfold finishStruct
  simp only [hs, hff]
  -- strict-mode key check
  have hstrict : (strict && kvs.any fun (k, _) => !(fields.map (·.name)).contains k && !k.startsWith ".tag") = false := by
    cases strict
    · rfl
    · simp only [Bool.true_and, List.any_eq_false, Bool.and_eq_true, Bool.not_eq_true', not_and, Bool.not_eq_false]
      intro kx hkx hnot
      rw [hkvs] at hkx
      rcases List.mem_append.1 hkx with h | h
      · rw [hpre kx h]; exact tag_startsWith_tag
      · have := pick_keys _ _ kx h
        simp only [List.contains_eq_mem, decide_eq_false_iff_not] at hnot
        exact absurd this hnot
  rw [hstrict]
  simp only [Bool.false_eq_true, if_false]
  have hfin := finishFields_fill E env
    (decodeMembers E env [] strict (fields.map fun f => (f.name, f.ty)) kvs)
    (canonSlots env fields slots) fields [] hndf (fun _ _ h => by cases h) ?_ ?_ ?_
  · rw [hfin]
    simp only [List.nil_append]
    have := attrHas_canon_all hwf hnds (by rw [hfd]; exact hall)
      fun k x f hm hf => (ih k x f hm (by rw [← hfd]; exact hf)).1
    rw [hfd] at this
    rw [if_pos (by simpa [List.all_eq_true] using this)]
  · -- members
    intro f hf
    rw [childLookup_decodeMembers, List.find?_map]
    have : (fields.find? ((fun p : String × PTy => p.1 == f.name) ∘ fun f => (f.name, f.ty)))
        = fields.find? (·.name == f.name) := rfl
    rw [this, find_field_of_mem hndf hf, hlook f hf, lookupSlot_canonSlots env fields hnds]
    simp only [Option.map_some, Option.bind_some, slotImage, find_field_of_mem hndf hf]
    cases hl : lookupSlot f.name slots with
    | none => rfl
    | some x =>
      simp only [Option.bind_some]
      by_cases hx : isNoneV x = true
      · simp [hx]
      · simp only [hx, if_false, Option.map_some, Bool.false_eq_true]
        rw [(ih f.name x f (mem_of_lookupSlot hl) (find_field_of_mem hndf hf)).2]
  · -- assigned members pass `Attribute.__set__`
    intro f hf y hy
    rw [lookupSlot_canonSlots env fields hnds, slotImage, find_field_of_mem hndf hf] at hy
    cases hl : lookupSlot f.name slots with
    | none => rw [hl] at hy; cases hy
    | some x =>
      rw [hl] at hy
      simp only [Option.bind_some] at hy
      by_cases hx : isNoneV x = true
      · rw [if_pos hx] at hy; cases hy
      · rw [if_neg hx] at hy
        cases hy
        have g := (ih f.name x f (mem_of_lookupSlot hl) (find_field_of_mem hndf hf)).1
        refine ⟨by rw [canon_isNone g]; simpa using hx, ?_⟩
        exact attrOK_of_validate (hfrt f hf) (validate_canon hwf hrt _ _ g)
  · -- defaults
    intro f hf hd
    refine ⟨fun ha => ?_, fun _ => attrOK_of_validate (hfrt f hf) (validate_getDefault hwf _ hd)⟩
    rw [getDefault_none_of_nullable ((fieldRT_parts (hfrt f hf)).1 ha)]; rfl

end StoneVerif.Rt.RoundTrip
