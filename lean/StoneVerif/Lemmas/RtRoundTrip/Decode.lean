import StoneVerif.Lemmas.RtRoundTrip.Fields
/-!
C04 helper lemmas, part 7: decoding the wire form of a good value yields its canonical form.
-/
namespace StoneVerif.Rt.RoundTrip
open StoneVerif.Rt

theorem decode_wire_leaf {E : Ext} {env : Env} (laws : ExtLaws E env) (strict : Bool) (t : PTy) (v : PyVal)
    (h : Good E env t v) (hl : isLeaf v = true) :
    decode E env [] strict t (wire E env t v) = .ok (canon env t v) := by
  have h0 := h.twf; have h1 := h.valid; have h2 := h.normal; have h3 := h.wf
  cases v <;> simp [isLeaf] at hl <;> cases t <;>
    simp [validB, validPrim, normalB, isNoneV, PTy.flags, tyWF] at h0 h1 h2 ⊢ <;>
    rw [decode.eq_def] <;>
    simp [wire, canon, PTy.flags, makeStoneFriendly, pyOfJson, laws.b64, *]
  simp [valWF] at h3
  rw [h3]

/-! ### lists and maps -/

theorem decodeList_canon {E : Ext} {env : Env} (strict : Bool) (t : PTy) (xs : List PyVal)
    (h : ∀ x ∈ xs, decode E env [] strict t (wire E env t x) = .ok (canon env t x)) :
    decodeList E env [] strict t (wireList E env t xs) = .ok (canonList env t xs) := by
  induction xs with
  | nil => rfl
  | cons x xs ih =>
    simp only [wireList, canonList, decodeList]
    rw [h x List.mem_cons_self, ih fun y hy => h y (List.mem_cons_of_mem _ hy)]
    rfl

theorem decodeMap_canon {E : Ext} {env : Env} (strict : Bool) (vt : PTy) (kvs : List (PyVal × PyVal))
    (h : ∀ kx ∈ kvs, (∃ s, kx.1 = .str s) ∧
      decode E env [] strict vt (wire E env vt kx.2) = .ok (canon env vt kx.2)) :
    decodeMap E env [] strict vt (wireDict E env vt kvs) = .ok (canonDict env vt kvs) := by
  induction kvs with
  | nil => rfl
  | cons a as ih =>
    obtain ⟨k, x⟩ := a
    obtain ⟨⟨s, hs⟩, hx⟩ := h (k, x) List.mem_cons_self
    simp only at hs hx
    subst hs
    simp only [wireDict, canonDict, decodeMap]
    rw [hx, ih fun y hy => h y (List.mem_cons_of_mem _ hy)]
    rfl

/-! ### null -/

def isNullJ : JVal → Bool
  | .null => true
  | _ => false

theorem good_at_struct_inv {E : Ext} {env : Env} {fl : Flags} {sc : String} {p : PyVal}
    (g : Good E env (.struct fl sc) p) (hp : isNoneV p = false) : ∃ slots, p = .struct sc slots := by
  have h1 := g.valid; have h3 := g.wf
  cases p <;> simp [validB, isNoneV] at h1 hp
  simp only [valWF, Bool.and_eq_true, beq_iff_eq] at h3
  rw [h3.1.1]
  exact ⟨_, rfl⟩

/-- the wire form of a union value, by the kind of its member -/
theorem wire_union (E : Ext) (env : Env) {fl : Flags} {cls c tag : String} {payload : PyVal} {td : TagDef}
    (htd : publicTag? env cls tag = some td) :
    wire E env (.union fl cls) (.union c tag payload) =
      if (isVoidT td.ty || isNoneV payload) = true then .obj [(".tag", .str tag)]
      else if isPlainStruct td.ty = true then
        (match wire E env td.ty payload with
         | .obj kvs => .obj ((".tag", .str tag) :: kvs)
         | _ => .null)
      else .obj [(".tag", .str tag), (tag, wire E env td.ty payload)] := by
  simp only [wire, htd]
  cases td.ty <;> cases payload <;> simp [isVoidT, isNoneV, isPlainStruct] <;> rfl

theorem wire_isNull {E : Ext} {env : Env} (hwf : envWF env = true) (t : PTy) (v : PyVal) (h : Good E env t v) :
    isNullJ (wire E env t v) = isNoneV v := by
  refine good_induct hwf (fun t v => isNullJ (wire E env t v) = isNoneV v) ?_ ?_ ?_ ?_ ?_ ?_ t v h
  · intro t v g hl
    have h1 := g.valid; have h2 := g.normal
    cases v <;> simp [isLeaf] at hl <;> cases t <;>
      simp [validB, validPrim, normalB, isNoneV, PTy.flags, wire, isNullJ] at h1 h2 ⊢
  · intro fl item mn mx xs _ _; simp [wire, isNullJ, isNoneV]
  · intro fl kt vt kvs _ _; simp [wire, isNullJ, isNoneV]
  · intro fl cls slots _ _; simp [wire, isNullJ, isNoneV]
  · intro fl cls c slots g _
    obtain ⟨s, d, tag, _, _, _, hl, _, _⟩ := good_tree_inv g
    simp [wire, hl, isNullJ, isNoneV]
  · intro fl cls c tag payload td g htd gp ihp
    rw [wire_union E env htd]
    by_cases h1 : (isVoidT td.ty || isNoneV payload) = true
    · rw [if_pos h1]; rfl
    · rw [if_neg h1]
      simp only [Bool.or_eq_true, not_or, Bool.not_eq_true] at h1
      by_cases h2 : isPlainStruct td.ty = true
      · rw [if_pos h2]
        cases htt : td.ty <;> simp [htt, isPlainStruct] at h2
        rw [htt] at gp
        obtain ⟨slots, rfl⟩ := good_at_struct_inv gp h1.2
        simp [wire, isNullJ, isNoneV]
      · rw [if_neg h2]; rfl

end StoneVerif.Rt.RoundTrip
