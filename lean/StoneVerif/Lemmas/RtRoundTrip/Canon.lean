import StoneVerif.Lemmas.RtRoundTrip.Eq
/-!
C04 helper lemmas, part 11: the decoded form of a good value is again valid and in stored-normal form
(so that the encoder theorem of C05 applies to it: "encoding that result yields the same JSON again").
-/
namespace StoneVerif.Rt.RoundTrip
open StoneVerif.Rt

theorem validList_canon {E : Ext} {env : Env} (t : PTy) (xs : List PyVal)
    (h : ∀ x ∈ xs, validB E env t (canon env t x) = true) : validList E env t (canonList env t xs) = true := by
  induction xs with
  | nil => simp [canonList, validList]
  | cons x xs ih =>
    simp only [canonList, validList, Bool.and_eq_true]
    exact ⟨h x List.mem_cons_self, ih fun y hy => h y (List.mem_cons_of_mem _ hy)⟩

theorem normalList_canon {env : Env} (t : PTy) (xs : List PyVal)
    (h : ∀ x ∈ xs, normalB env t (canon env t x) = true) : normalList env t (canonList env t xs) = true := by
  induction xs with
  | nil => simp [canonList, normalList]
  | cons x xs ih =>
    simp only [canonList, normalList, Bool.and_eq_true]
    exact ⟨h x List.mem_cons_self, ih fun y hy => h y (List.mem_cons_of_mem _ hy)⟩

theorem validDict_canon {E : Ext} {env : Env} (kt vt : PTy) (kvs : List (PyVal × PyVal))
    (h : ∀ kx ∈ kvs, (∃ s, kx.1 = .str s) ∧ validB E env kt kx.1 = true ∧
      validB E env vt (canon env vt kx.2) = true) :
    validDict E env kt vt (canonDict env vt kvs) = true := by
  induction kvs with
  | nil => simp [canonDict, validDict]
  | cons a as ih =>
    obtain ⟨k, x⟩ := a
    obtain ⟨⟨s, hs⟩, hk, hx⟩ := h (k, x) List.mem_cons_self
    simp only at hs hk hx
    subst hs
    simp only [canonDict, validDict, Bool.and_eq_true]
    exact ⟨⟨hk, hx⟩, ih fun y hy => h y (List.mem_cons_of_mem _ hy)⟩

theorem normalDict_canon {env : Env} (kt vt : PTy) (kvs : List (PyVal × PyVal))
    (h : ∀ kx ∈ kvs, (∃ s, kx.1 = .str s) ∧ normalB env kt kx.1 = true ∧
      normalB env vt (canon env vt kx.2) = true) :
    normalDict env kt vt (canonDict env vt kvs) = true := by
  induction kvs with
  | nil => simp [canonDict, normalDict]
  | cons a as ih =>
    obtain ⟨k, x⟩ := a
    obtain ⟨⟨s, hs⟩, hk, hx⟩ := h (k, x) List.mem_cons_self
    simp only at hs hk hx
    subst hs
    simp only [canonDict, normalDict, Bool.and_eq_true]
    exact ⟨⟨hk, hx⟩, ih fun y hy => h y (List.mem_cons_of_mem _ hy)⟩

theorem validSlots_of {E : Ext} {env : Env} (fields : List FieldDef) (S : List (String × PyVal))
    (h : ∀ ky ∈ S, ∀ f, fields.find? (·.name == ky.1) = some f → validB E env f.ty ky.2 = true) :
    validSlots E env fields S = true := by
  induction S with
  | nil => simp [validSlots]
  | cons a as ih =>
    obtain ⟨k, y⟩ := a
    simp only [validSlots, Bool.and_eq_true]
    refine ⟨?_, ih fun ky hky => h ky (List.mem_cons_of_mem _ hky)⟩
    cases hf : fields.find? (·.name == k) with
    | none => rfl
    | some f => exact h (k, y) List.mem_cons_self f hf

theorem normalSlots_of {env : Env} (fields : List FieldDef) (S : List (String × PyVal))
    (h : ∀ ky ∈ S, ∀ f, fields.find? (·.name == ky.1) = some f → normalB env f.ty ky.2 = true) :
    normalSlots env fields S = true := by
  induction S with
  | nil => simp [normalSlots]
  | cons a as ih =>
    obtain ⟨k, y⟩ := a
    simp only [normalSlots, Bool.and_eq_true]
    refine ⟨?_, ih fun ky hky => h ky (List.mem_cons_of_mem _ hky)⟩
    cases hf : fields.find? (·.name == k) with
    | none => rfl
    | some f => exact h (k, y) List.mem_cons_self f hf

/-- every slot of the decoded instance is the decoded form of a slot of the original, or `None` -/
theorem mem_fill_canon {E : Ext} {env : Env} (hwf : envWF env = true) (hrt : envRT env = true)
    {c : String} {d : StructDef} (hd : env.struct? c = some d)
    {slots : List (String × PyVal)} (hnds : (slots.map (·.1)).Nodup)
    (hall : ∀ f ∈ publicFields env c, attrHas f slots = true)
    (hgood : ∀ k x f, (k, x) ∈ slots → (publicFields env c).find? (·.name == k) = some f → Good E env f.ty x)
    {k : String} {y : PyVal}
    (hm : (k, y) ∈ fillSlots env (publicFields env c) (canonSlots env (publicFields env c) slots))
    {f : FieldDef} (hf : (publicFields env c).find? (·.name == k) = some f) :
    (∃ x, (k, x) ∈ slots ∧ isNoneV x = false ∧ y = canon env f.ty x) ∨
      (y = .none ∧ f.ty.flags.nullable = true) := by
  obtain ⟨hndf, hfacts⟩ := publicFields_facts hwf c
  have hfrt : ∀ f ∈ publicFields env c, fieldRT env f = true := by
    intro f hf
    have : f ∈ d.fieldsSpec [] := by rw [← publicFields_eq hd]; exact hf
    exact (envRT_struct hrt hd).1 f ((fieldsSpec_sublist d []).subset this)
  generalize hfd : publicFields env c = fields at *
  rw [fillSlots_eq] at hm
  obtain ⟨f', hf', hone⟩ := List.mem_filterMap.1 hm
  have hk : f'.name = k := by have := fillOne_fst hone; simpa using this.symm
  have hff : f' = f := by
    have := find_field_of_mem hndf hf'
    rw [hk, hf] at this; cases this; rfl
  subst hff
  subst hk
  unfold fillOne at hone
  rw [lookupSlot_canonSlots env fields hnds, slotImage, hf] at hone
  simp only [Option.bind_some] at hone
  have hdef : (∀ x, lookupSlot f'.name slots = some x → isNoneV x = true) →
      (hasDefault env f'.ty && !f'.attrNullable) = true →
      getDefault f'.ty = .none ∧ f'.ty.flags.nullable = true := by
    intro hn hdd
    have h1 := fill_default_nullable (E := E) (hfrt f' hf') (hfacts f' hf').2.2 (hall f' hf')
      (fun x hl => (hgood f'.name x f' (mem_of_lookupSlot hl) hf).valid) hn hdd
    exact ⟨getDefault_none_of_nullable h1, h1⟩
  cases hl : lookupSlot f'.name slots with
  | none =>
    rw [hl] at hone
    simp only [Option.bind_none] at hone
    by_cases hdd : (hasDefault env f'.ty && !f'.attrNullable) = true
    · rw [if_pos hdd] at hone
      cases hone
      exact Or.inr (hdef (fun x hx => by rw [hl] at hx; cases hx) hdd)
    · rw [if_neg hdd] at hone; cases hone
  | some x =>
    rw [hl] at hone
    simp only [Option.bind_some] at hone
    by_cases hx : isNoneV x = true
    · rw [if_pos hx] at hone
      simp only at hone
      by_cases hdd : (hasDefault env f'.ty && !f'.attrNullable) = true
      · rw [if_pos hdd] at hone
        cases hone
        exact Or.inr (hdef (fun z hz => by rw [hl] at hz; cases hz; exact hx) hdd)
      · rw [if_neg hdd] at hone; cases hone
    · rw [if_neg hx] at hone
      cases hone
      exact Or.inl ⟨x, mem_of_lookupSlot hl, by simpa using hx, rfl⟩

end StoneVerif.Rt.RoundTrip

namespace StoneVerif.Rt.RoundTrip
open StoneVerif.Rt

theorem valid_none_of_nullable {E : Ext} {env : Env} {t : PTy} (h : t.flags.nullable = true) :
    validB E env t .none = true := by
  unfold validB; simp [h, isNoneV]

theorem normal_none (env : Env) (t : PTy) : normalB env t .none = true := by
  cases t <;> simp [normalB]

theorem canon_leaf_valid {E : Ext} {env : Env} (t : PTy) (v : PyVal) (h : Good E env t v)
    (hl : isLeaf v = true) :
    validB E env t (canon env t v) = true ∧ normalB env t (canon env t v) = true := by
  have h1 := h.valid; have h2 := h.normal
  cases v <;> simp [isLeaf] at hl <;> cases t <;>
    simp [validB, validPrim, normalB, isNoneV, PTy.flags] at h1 h2 ⊢ <;>
    simp [canon, validB, normalB, isNoneV, PTy.flags, *]

/-- the decoded form of a good value is valid and in stored-normal form -/
theorem canon_valid {E : Ext} {env : Env} (hwf : envWF env = true) (hrt : envRT env = true)
    (t : PTy) (v : PyVal) (h : Good E env t v) :
    validB E env t (canon env t v) = true ∧ normalB env t (canon env t v) = true := by
  refine good_induct hwf
    (fun t v => validB E env t (canon env t v) = true ∧ normalB env t (canon env t v) = true)
    canon_leaf_valid ?_ ?_ ?_ ?_ ?_ t v h
  · intro fl item mn mx xs g ih
    have h1 := g.valid
    simp only [validB] at h1
    simp [isNoneV] at h1
    constructor
    · unfold validB
      simp only [canon, isNoneV, Bool.and_false, Bool.false_eq_true, if_false, canonList_length, h1.1.1, h1.1.2,
        Bool.true_and]
      exact validList_canon item xs fun x hx => (ih x hx).2.1
    · simp only [canon, normalB]
      exact normalList_canon item xs fun x hx => (ih x hx).2.2
  · intro fl kt vt kvs g ih
    constructor
    · unfold validB
      simp only [canon, isNoneV, Bool.and_false, Bool.false_eq_true, if_false]
      exact validDict_canon kt vt kvs fun kx hkx =>
        ⟨(ih kx hkx).1, (ih kx hkx).2.1.valid, (ih kx hkx).2.2.2.1⟩
    · simp only [canon, normalB]
      exact normalDict_canon kt vt kvs fun kx hkx =>
        ⟨(ih kx hkx).1, (ih kx hkx).2.1.normal, (ih kx hkx).2.2.2.2⟩
  · intro fl cls slots g ih
    obtain ⟨s, hs, hall, hnds⟩ := good_struct_inv g
    have hgood := fun k x f hm hf => (ih k x f hm hf).1
    have hcan := attrHas_canon_all hwf hnds hall hgood
    have hmem := fun k y (hm : (k, y) ∈ fillSlots env (publicFields env cls)
        (canonSlots env (publicFields env cls) slots)) f hf =>
      mem_fill_canon hwf hrt hs hnds hall hgood hm (f := f) hf
    constructor
    · unfold validB
      simp only [canon, isNoneV, Bool.and_false, Bool.false_eq_true, if_false, structSubclass_self hwf hs,
        Bool.true_and, Bool.and_eq_true, List.all_eq_true]
      refine ⟨hcan, validSlots_of _ _ ?_⟩
      intro ky hky f hf
      rcases hmem ky.1 ky.2 hky f hf with ⟨x, hx, _, e⟩ | ⟨e, hn⟩
      · rw [e]; exact (ih ky.1 x f hx hf).2.1
      · rw [e]; exact valid_none_of_nullable hn
    · simp only [canon, normalB]
      refine normalSlots_of _ _ ?_
      intro ky hky f hf
      rcases hmem ky.1 ky.2 hky f hf with ⟨x, hx, _, e⟩ | ⟨e, _⟩
      · rw [e]; exact (ih ky.1 x f hx hf).2.2
      · rw [e]; exact normal_none env _
  · intro fl cls c slots g ih
    obtain ⟨s, d, tag, hs, hd, hsub, hleaf, hall, hnds⟩ := good_tree_inv g
    have hgood := fun k x f hm hf => (ih k x f hm hf).1
    have hcan := attrHas_canon_all hwf hnds hall hgood
    have hmem := fun k y (hm : (k, y) ∈ fillSlots env (publicFields env c)
        (canonSlots env (publicFields env c) slots)) f hf =>
      mem_fill_canon hwf hrt hd hnds hall hgood hm (f := f) hf
    constructor
    · unfold validB
      simp only [canon, isNoneV, Bool.and_false, Bool.false_eq_true, if_false, hleaf, Option.isSome_some,
        Env.structSubclass, hd, hsub, Bool.true_and, Bool.and_eq_true, List.all_eq_true]
      refine ⟨hcan, validSlots_of _ _ ?_⟩
      intro ky hky f hf
      rcases hmem ky.1 ky.2 hky f hf with ⟨x, hx, _, e⟩ | ⟨e, hn⟩
      · rw [e]; exact (ih ky.1 x f hx hf).2.1
      · rw [e]; exact valid_none_of_nullable hn
    · simp only [canon, normalB]
      refine normalSlots_of _ _ ?_
      intro ky hky f hf
      rcases hmem ky.1 ky.2 hky f hf with ⟨x, hx, _, e⟩ | ⟨e, _⟩
      · rw [e]; exact (ih ky.1 x f hx hf).2.2
      · rw [e]; exact normal_none env _
  · intro fl cls c tag payload td g htd gp ihp
    have h0 := g.twf; have h1 := g.valid
    simp only [tyWF] at h0
    simp only [validB] at h1
    simp [isNoneV, htd] at h1
    cases hu : env.union? cls with
    | none => rw [hu] at h0; cases h0
    | some u =>
      constructor
      · unfold validB
        simp only [canon, htd, isNoneV, Bool.and_false, Bool.false_eq_true, if_false, unionSubclass_self hwf hu,
          Bool.true_and]
        by_cases hv : isVoidT td.ty = true
        · have := h1.2
          rw [if_pos hv] at this ⊢
          have hpn : isNoneV payload = true := by cases payload <;> simp at this; rfl
          have := canon_isNone gp
          rw [hpn] at this
          cases hc : canon env td.ty payload <;> simp [hc, isNoneV] at this
          rfl
        · rw [if_neg hv]; exact ihp.1
      · simp only [canon, htd, normalB]
        exact ihp.2

end StoneVerif.Rt.RoundTrip
