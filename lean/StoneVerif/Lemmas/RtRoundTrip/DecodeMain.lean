import StoneVerif.Lemmas.RtRoundTrip.Decode
/-!
C04 helper lemmas, part 8: `decode (wire v) = canon v` for every good value (the main induction).
-/
namespace StoneVerif.Rt.RoundTrip
open StoneVerif.Rt

theorem withFlags_flags (fl : Flags) (t : PTy) : (t.withFlags fl).flags = fl := by cases t <;> rfl
theorem withFlags_withFlags (a b : Flags) (t : PTy) : (t.withFlags a).withFlags b = t.withFlags b := by
  cases t <;> rfl

/-- a non-null document is decoded the same way with and without the `Nullable` wrapper -/
theorem decode_withFlags (E : Ext) (env : Env) (perms : List String) (strict : Bool) (t : PTy) (j : JVal)
    (hj : isNullJ j = false) :
    decode E env perms strict (t.withFlags {}) j = decode E env perms strict t j := by
  rw [decode.eq_def, decode.eq_def]
  cases j <;> simp [isNullJ] at hj <;> cases t <;>
    simp [PTy.withFlags, PTy.flags, makeStoneFriendly, memberTable, memberTable.memberTableStruct]

theorem mkUnion_ok {E : Ext} {env : Env} {cls tag : String} {u : UnionDef} {t : PTy} {x : PyVal}
    (hu : env.union? cls = some u) (hc : u.ctorValidator tag = some t)
    (hv : validate E env t x = .ok x) (hvoid : isVoidT t = true → isNoneV x = true) :
    mkUnion E env cls tag x = .ok (.union cls tag x) := by
  unfold mkUnion
  simp only [hu, hc]
  by_cases hn : t.flags.nullable = true
  · simp only [hn, Bool.not_true, Bool.false_and, Bool.false_eq_true, if_false]
    rw [hv]; rfl
  · have hn : t.flags.nullable = false := by simpa using hn
    cases t <;> simp only [hn, Bool.not_false, Bool.true_and, if_true, if_false, Bool.false_eq_true] <;>
      try (rw [hv]; rfl)
    · have := hvoid rfl
      cases x <;> simp [isNoneV] at this
      rfl
    all_goals
      rw [validateTypeOnly_of_validate (by rfl) hv]; rfl

theorem finishStruct_tag_prefix (E : Ext) (env : Env) (perms : List String) (strict : Bool) (cls : String)
    (j : JVal) (kvs : List (String × JVal)) (children : List (String × R PyVal)) :
    finishStruct E env perms strict cls ((".tag", j) :: kvs) children =
      finishStruct E env perms strict cls kvs children := by
  unfold finishStruct
  cases env.struct? cls with
  | none => rfl
  | some s => simp only [List.any_cons, tag_startsWith_tag, Bool.not_true, Bool.and_false, Bool.false_or]

theorem decodeMembers_tag_prefix (E : Ext) (env : Env) (perms : List String) (strict : Bool)
    (tbl : List (String × PTy)) (h : ∀ p ∈ tbl, p.1 ≠ ".tag") (j : JVal) (kvs : List (String × JVal)) :
    decodeMembers E env perms strict tbl ((".tag", j) :: kvs) = decodeMembers E env perms strict tbl kvs := by
  have : tbl.find? (·.1 == ".tag") = none := by
    apply List.find?_eq_none.2
    intro p hp; simpa using h p hp
  simp only [decodeMembers, this]

/-- the member table of an ordinary struct -/
def structTbl (env : Env) (cls : String) : List (String × PTy) :=
  (publicFields env cls).map fun f => (f.name, f.ty)

theorem structTbl_no_tag {env : Env} (hwf : envWF env = true) (cls : String) :
    ∀ p ∈ structTbl env cls, p.1 ≠ ".tag" := by
  intro p hp
  obtain ⟨f, hf, rfl⟩ := List.mem_map.1 hp
  exact ne_tag_of_not_dot ((publicFields_facts hwf cls).2 f hf).1

theorem memberTable_struct {env : Env} (hwf : envWF env = true) (strict : Bool) (fl : Flags) {cls : String}
    {s : StructDef} (hs : env.struct? cls = some s) (kvs : List (String × JVal)) :
    memberTable env [] strict (.struct fl cls) kvs = structTbl env cls := by
  have hne := (struct_wf_parts (struct_wf hwf hs)).1
  simp only [memberTable, hs, structTbl, publicFields_eq hs, fieldsFor_nil s hne]

/-- decoding the wire form of an instance at its declared (ordinary struct) class -/
theorem decode_struct_obj {E : Ext} {env : Env} (hwf : envWF env = true) (hrt : envRT env = true)
    (strict : Bool) {fl : Flags} {cls : String} {slots : List (String × PyVal)}
    (g : Good E env (.struct fl cls) (.struct cls slots))
    (ih : ∀ k x f, (k, x) ∈ slots → (publicFields env cls).find? (·.name == k) = some f →
      Good E env f.ty x ∧ decode E env [] strict f.ty (wire E env f.ty x) = .ok (canon env f.ty x)) :
    decode E env [] strict (.struct fl cls) (wire E env (.struct fl cls) (.struct cls slots)) =
      .ok (canon env (.struct fl cls) (.struct cls slots)) := by
  obtain ⟨s, hs, hall, hnds⟩ := good_struct_inv g
  rw [decode.eq_def]
  simp only [wire, canon, Bool.and_false, Bool.false_eq_true, if_false]
  rw [memberTable_struct hwf strict fl hs]
  exact finishStruct_canon hwf hrt strict hs hnds hall ih [] (fun _ h => by cases h) _ rfl _ rfl

/-! ### enumerated subtypes -/

theorem leafTag_mem {env : Env} {cls c tag : String} {s : StructDef} (hs : env.struct? cls = some s)
    (h : leafTag? env cls c = some tag) : ([tag], c, false) ∈ s.subtypes.getD [] := by
  unfold leafTag? at h
  rw [hs] at h
  simp only at h
  cases hf : (s.subtypes.getD []).find? (fun (x : List String × String × Bool) => x.2.1 == c) with
  | none =>
    have : (s.subtypes.getD []).find? (fun (x : List String × String × Bool) =>
        match x with | (_, sc, _) => sc == c) = none := hf
    rw [this] at h; cases h
  | some e =>
    have hf' : (s.subtypes.getD []).find? (fun (x : List String × String × Bool) =>
        match x with | (_, sc, _) => sc == c) = some e := hf
    rw [hf'] at h
    obtain ⟨tags, c', isTree⟩ := e
    have hc : c' = c := by simpa using List.find?_some hf
    have hm := List.mem_of_find?_eq_some hf
    cases tags with
    | nil => simp at h
    | cons t1 rest =>
      cases rest with
      | cons _ _ => simp at h
      | nil =>
        cases isTree with
        | true => simp at h
        | false =>
          simp only [Option.some.injEq] at h
          rw [← h, ← hc]; exact hm

theorem subtype_find {env : Env} (hwf : envWF env = true) {cls c tag : String} {s : StructDef}
    (hs : env.struct? cls = some s) (h : leafTag? env cls c = some tag) :
    (s.subtypes.getD []).find? (fun (x : List String × String × Bool) =>
      match x with | (tags, _, _) => tags == [tag]) = some ([tag], c, false) := by
  have hm := leafTag_mem hs h
  cases hsub : s.subtypes with
  | none => rw [hsub] at hm; simp at hm
  | some subs =>
    rw [hsub] at hm
    simp only [Option.getD_some] at hm ⊢
    have huniq := (struct_wf_parts (struct_wf hwf hs)).2.2.2.2 subs hsub
    cases hf : subs.find? (fun (x : List String × String × Bool) =>
        match x with | (tags, _, _) => tags == [tag]) with
    | none =>
      have := List.find?_eq_none.1 hf _ hm
      simp at this
    | some e =>
      have h1 := List.find?_some hf
      have h2 := List.mem_of_find?_eq_some hf
      obtain ⟨tags, c', isTree⟩ := e
      simp only [beq_iff_eq] at h1
      rw [huniq _ h2 _ hm h1]

theorem memberTable_tree {env : Env} (hwf : envWF env = true) (strict : Bool) (fl : Flags) {cls c tag : String}
    {s d : StructDef} (hs : env.struct? cls = some s) (hd : env.struct? c = some d)
    (h : leafTag? env cls c = some tag) (rest : List (String × JVal)) :
    memberTable env [] strict (.tree fl cls) ((".tag", .str tag) :: rest) = structTbl env c := by
  have hne := (struct_wf_parts (struct_wf hwf hd)).1
  simp only [memberTable, jsonLookup, beq_self_eq_true, if_true, hs, subtype_find hwf hs h, hd, structTbl,
    publicFields_eq hd, fieldsFor_nil d hne, Bool.false_eq_true, if_false]

theorem decode_tree_obj {E : Ext} {env : Env} (hwf : envWF env = true) (hrt : envRT env = true)
    (strict : Bool) {fl : Flags} {cls c : String} {slots : List (String × PyVal)}
    (g : Good E env (.tree fl cls) (.struct c slots))
    (ih : ∀ k x f, (k, x) ∈ slots → (publicFields env c).find? (·.name == k) = some f →
      Good E env f.ty x ∧ decode E env [] strict f.ty (wire E env f.ty x) = .ok (canon env f.ty x)) :
    decode E env [] strict (.tree fl cls) (wire E env (.tree fl cls) (.struct c slots)) =
      .ok (canon env (.tree fl cls) (.struct c slots)) := by
  obtain ⟨s, d, tag, hs, hd, hsub, hleaf, hall, hnds⟩ := good_tree_inv g
  rw [decode.eq_def]
  simp only [wire, hleaf, canon, Bool.and_false, Bool.false_eq_true, if_false, jsonLookup, beq_self_eq_true,
    if_true, hs, subtype_find hwf hs hleaf]
  rw [memberTable_tree hwf strict fl hs hd hleaf]
  exact finishStruct_canon hwf hrt strict hd hnds hall ih [(".tag", .str tag)]
    (fun kx h => by simp at h; rw [h]) _ rfl _ rfl

/-! ### unions -/

theorem isVoidTy_eq (t : PTy) : isVoidTy t = isVoidT t := by cases t <;> rfl

theorem nothingSet_false {fields : List FieldDef} {slots : List (String × PyVal)}
    (h : nothingSet fields slots = false) :
    ∃ k x f, (k, x) ∈ slots ∧ fields.find? (·.name == k) = some f ∧ isNoneV x = false := by
  unfold nothingSet at h
  have : ¬ (slots.all fun kx => (fields.find? (·.name == kx.1)).isNone || isNoneV kx.2) = true := by
    rw [h]; simp
  rw [List.all_eq_true] at this
  have : ∃ kx ∈ slots, ¬ ((fields.find? (·.name == kx.1)).isNone || isNoneV kx.2) = true :=
    Classical.not_forall_not.1 fun hh => this fun kx hkx => Classical.not_not.1 fun hn => hh kx ⟨hkx, hn⟩
  obtain ⟨⟨k, x⟩, hm, hn⟩ := this
  simp only [Bool.or_eq_true, not_or, Bool.not_eq_true] at hn
  cases hf : fields.find? (·.name == k) with
  | none => rw [hf] at hn; simp at hn
  | some f => exact ⟨k, x, f, hm, hf, hn.2⟩

theorem pick_ne_nil {E : Ext} {env : Env} {fields : List FieldDef} (hndf : (fields.map (·.name)).Nodup)
    {slots : List (String × PyVal)} (hnds : (slots.map (·.1)).Nodup)
    (h : nothingSet fields slots = false) : pick fields (wireSlots E env fields slots) ≠ [] := by
  obtain ⟨k, x, f, hm, hf, hx⟩ := nothingSet_false h
  obtain ⟨hfm, hfn⟩ := find_field_some hf
  intro e
  have h1 := lookupW_pick hndf (wireSlots E env fields slots) hfm
  rw [e, lookupW_wireSlots E env fields hnds, slotImage, hfn, hf, lookupSlot_of_mem hnds hm] at h1
  simp [hx, lookupW] at h1

theorem memberTableStruct_struct {env : Env} (hwf : envWF env = true) (fl : Flags) {cls : String}
    {s : StructDef} (hs : env.struct? cls = some s) :
    memberTable.memberTableStruct env [] (.struct fl cls) = structTbl env cls := by
  have hne := (struct_wf_parts (struct_wf hwf hs)).1
  simp only [memberTable.memberTableStruct, hs, structTbl, publicFields_eq hs, fieldsFor_nil s hne]

theorem decode_union_obj {E : Ext} {env : Env} (hwf : envWF env = true) (hrt : envRT env = true)
    (strict : Bool) {fl : Flags} {cls c tag : String} {payload : PyVal} {td : TagDef}
    (g : Good E env (.union fl cls) (.union c tag payload)) (htd : publicTag? env cls tag = some td)
    (gp : Good E env td.ty payload)
    (ihp : decode E env [] strict td.ty (wire E env td.ty payload) = .ok (canon env td.ty payload)) :
    decode E env [] strict (.union fl cls) (wire E env (.union fl cls) (.union c tag payload)) =
      .ok (canon env (.union fl cls) (.union c tag payload)) := by
  have htagne : tag ≠ ".tag" := ne_tag_of_not_dot (publicTag_facts hwf htd).2.1
  have htagne1 : (".tag" == tag) = false := by simpa using fun e : ".tag" = tag => htagne e.symm
  have htagne2 : (tag == ".tag") = false := by simpa using htagne
  have h1 := g.valid; have h3 := g.wf; have h4 := g.unamb
  simp only [validB] at h1
  simp [isNoneV, htd] at h1
  simp only [valWF, htd, Bool.and_eq_true] at h3
  simp only [ambiguousEmpty, htd, Bool.or_eq_false_iff] at h4
  unfold publicTag? at htd
  cases hu : env.union? cls with
  | none => rw [hu] at htd; cases htd
  | some u =>
  simp only [hu] at htd h3
  simp only [Bool.not_eq_true', beq_eq_false_iff_ne, ne_eq] at h3
  have uwf := union_wf hwf hu
  have hpres : u.isTagPresent tag [] = true := by rw [isTagPresent_nil uwf, htd]; rfl
  have hvdt : u.valDataType tag [] = some td.ty := by rw [valDataType_nil uwf, htd]; rfl
  have hctor := ctorValidator_of_public uwf htd
  have hca : (some tag == u.catchAll) = false := by
    simp only [beq_eq_false_iff_ne, ne_eq]; exact fun e => h3.1 e.symm
  have hvoid : isVoidT td.ty = true → isNoneV payload = true := by
    intro hv; have := h1.2; rw [if_pos hv] at this
    cases payload <;> simp at this; rfl
  have hmk : mkUnion E env cls tag (canon env td.ty payload) = .ok (.union cls tag (canon env td.ty payload)) :=
    mkUnion_ok hu hctor (validate_canon hwf hrt _ _ gp) (fun hv => by rw [canon_isNone gp]; exact hvoid hv)
  have hpt : publicTag? env cls tag = some td := by unfold publicTag?; rw [hu]; exact htd
  simp only [canon, hpt]
  rw [wire_union E env hpt]
  by_cases hA : (isVoidT td.ty || isNoneV payload) = true
  · -- the bare tag
    rw [if_pos hA]
    have hpn : isNoneV payload = true := by
      cases hv : isVoidT td.ty
      · simpa [hv] using hA
      · exact hvoid hv
    cases payload <;> simp [isNoneV] at hpn
    have hcn : canon env td.ty .none = .none := by simp [canon]
    rw [hcn] at hmk ⊢
    rw [decode.eq_def]
    simp only [Bool.and_false, Bool.false_eq_true, if_false, hu, jsonLookup, beq_self_eq_true, if_true, hpres,
      Bool.not_true, hca, hvdt, isVoidTy_eq]
    by_cases hv : isVoidT td.ty = true
    · simp [hv, htagne1, hmk]
    · have hv : isVoidT td.ty = false := by simpa using hv
      have hnl : td.ty.flags.nullable = true := by
        have := h1.2; rw [hv] at this
        simp only [Bool.false_eq_true, if_false] at this
        unfold validB at this
        by_cases hn : td.ty.flags.nullable = true
        · exact hn
        · have hn : td.ty.flags.nullable = false := by simpa using hn
          exfalso
          cases htt : td.ty <;> simp [htt, isVoidT, validPrim, PTy.flags, isNoneV] at this hn hv
          all_goals simp [hn] at this
      by_cases hps : isPlainStruct td.ty = true
      · simp [hv, hps, hnl, hmk]
      · have hps : isPlainStruct td.ty = false := by simpa using hps
        simp [hv, hps, hnl, hmk, memberTable, hu, hpres, hvdt, decodeMembers, htagne2, htagne1, childLookup, jsonLookup]
  · rw [if_neg hA]
    simp only [Bool.or_eq_true, not_or, Bool.not_eq_true] at hA
    obtain ⟨hv, hpn⟩ := hA
    by_cases hps : isPlainStruct td.ty = true
    · -- a struct member, flattened next to the tag
      rw [if_pos hps]
      cases htt : td.ty <;> simp [htt, isPlainStruct] at hps
      rename_i fl2 sc
      rw [htt] at gp ihp hmk hvdt h4
      obtain ⟨slots, rfl⟩ := good_at_struct_inv gp hpn
      obtain ⟨s, hs, hall, hnds⟩ := good_struct_inv gp
      have hndf := (publicFields_facts hwf sc).1
      simp only [wire] at ihp ⊢
      rw [decode.eq_def] at ihp
      simp only [Bool.and_false, Bool.false_eq_true, if_false, memberTable_struct hwf strict fl2 hs] at ihp
      have hlen : (fl2.nullable && ((".tag", JVal.str tag) ::
          pick (publicFields env sc) (wireSlots E env (publicFields env sc) slots)).length == 1) = false := by
        cases hn : fl2.nullable
        · rfl
        · have := h4.1
          simp only [hn, Bool.true_and] at this
          have hne := pick_ne_nil (E := E) (env := env) hndf hnds this
          cases hpk : pick (publicFields env sc) (wireSlots E env (publicFields env sc) slots) with
          | nil => exact absurd hpk hne
          | cons a as => simp
      rw [decode.eq_def]
      simp only [Bool.and_false, Bool.false_eq_true, if_false, hu, jsonLookup, beq_self_eq_true, if_true, hpres,
        Bool.not_true, hca, hvdt, isVoidTy, isPlainStruct, PTy.flags, hlen, memberTable,
        memberTableStruct_struct hwf fl2 hs]
      rw [decodeMembers_tag_prefix _ _ _ _ _ (structTbl_no_tag hwf sc), finishStruct_tag_prefix, ihp]
      exact hmk
    · -- any other member: under its own key
      rw [if_neg hps]
      have hps : isPlainStruct td.ty = false := by simpa using hps
      have hnn : isNullJ (wire E env td.ty payload) = false := by rw [wire_isNull hwf _ _ gp]; exact hpn
      rw [decode.eq_def]
      simp only [Bool.and_false, Bool.false_eq_true, if_false, hu, jsonLookup, beq_self_eq_true, if_true, hpres,
        Bool.not_true, hca, hvdt, isVoidTy_eq, hv, hps, memberTable, decodeMembers, List.find?, htagne2, htagne1,
        childLookup, decode_withFlags E env [] strict td.ty _ hnn, ihp]
      simp [hmk]

theorem decode_wire_canon {E : Ext} {env : Env} (hwf : envWF env = true) (hrt : envRT env = true)
    (laws : ExtLaws E env) (strict : Bool) (t : PTy) (v : PyVal) (h : Good E env t v) :
    decode E env [] strict t (wire E env t v) = .ok (canon env t v) := by
  refine good_induct hwf (fun t v => decode E env [] strict t (wire E env t v) = .ok (canon env t v))
    (decode_wire_leaf laws strict) ?_ ?_ ?_ ?_ ?_ t v h
  · -- lists
    intro fl item mn mx xs g ih
    rw [decode.eq_def]
    simp only [wire, canon, Bool.and_false, Bool.false_eq_true, if_false]
    rw [decodeList_canon strict item xs fun x hx => (ih x hx).2]
    rfl
  · -- maps
    intro fl kt vt kvs g ih
    rw [decode.eq_def]
    simp only [wire, canon, Bool.and_false, Bool.false_eq_true, if_false]
    rw [decodeMap_canon strict vt kvs fun kx hkx => ⟨(ih kx hkx).1, (ih kx hkx).2.2.2⟩]
    rfl
  · -- structs
    intro fl cls slots g ih
    exact decode_struct_obj hwf hrt strict g ih
  · -- enumerated subtypes
    intro fl cls c slots g ih
    exact decode_tree_obj hwf hrt strict g ih
  · -- unions
    intro fl cls c tag payload td g htd gp ihp
    exact decode_union_obj hwf hrt strict g htd gp ihp

end StoneVerif.Rt.RoundTrip
