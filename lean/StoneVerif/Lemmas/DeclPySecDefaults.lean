import StoneVerif.Lemmas.DeclPySecAlias
namespace StoneVerif.DeclPy

/-! ### defaults and routes -/

/-- run a list of attribute assignments on one class, each ready in every later state -/
theorem steps_attr_assigns {st : St} {cur t : Name} (hwf : StWF st) (hg : (st.global? cur t).isSome = true) :
    ∀ (l : List (Name × List Ref)), (∀ x ∈ l, ∀ r ∈ x.2, Ready st cur r) →
      ∃ st', Steps st cur (l.map fun x => Stmt.assign t (some x.1) none x.2) st' ∧ st'.globals = st.globals
  | [], _ => ⟨st, Steps.nil hwf, rfl⟩
  | x :: rest, h => by
    obtain ⟨st1, hs1, hg1, _, _⟩ := steps_assign_attr (cur := cur) (t := t) (a := x.1) (cp := none) (uses := x.2)
      hwf (h x List.mem_cons_self) hg
    have hg' : (st1.global? cur t).isSome = true := by rw [global?_congr hg1]; exact hg
    obtain ⟨st2, hs2, hg2⟩ := steps_attr_assigns hs1.wf hg' rest
      (fun y hy r hr => (h y (List.mem_cons_of_mem _ hy) r hr).mono hs1.le)
    exact ⟨st2, hs1.cons hs2, hg2.trans hg1⟩

theorem typeWF_dflt {api : Api} {ns : Namespace} {pre : List DataType} {d : DataType}
    (h : typeWF api ns pre d = true) {f : Field} (hf : f ∈ d.fields) {t : Ty} {tag : Name}
    (hd : f.dflt = some (.tag t tag)) :
    tagOKTy api (api.nAliases + 1) t tag = true ∧ tyOK api ns t = true
      ∧ aliasEndsInUser api (api.nAliases + 1) t = true := by
  unfold typeWF at h
  simp only [Bool.and_eq_true] at h
  obtain ⟨⟨⟨_, h4⟩, _⟩, _⟩ := h
  have := List.all_eq_true.mp h4 f hf
  simp only [hd, Bool.and_eq_true] at this
  exact ⟨this.1.1, this.1.2, this.2⟩

theorem local_aliases_exist {api : Api} (hapi : apiWF api = true) {ns : Namespace} (hns : ns ∈ api.namespaces)
    {t : Ty} (h : tyOK api ns t = true) : ∀ n ∈ t.localAliases ns.name, ∃ a ∈ ns.aliases, a.name = n := by
  intro n hn
  simp only [Ty.localAliases, List.mem_filterMap] at hn
  obtain ⟨⟨isUser, rns, rn⟩, hmem, hsome⟩ := hn
  simp only [tyOK, List.all_eq_true] at h
  have := h _ hmem
  by_cases hu : isUser = true
  · simp [hu] at hsome
  · have hu' : isUser = false := by simpa using hu
    subst hu'
    simp only [Bool.not_false, Bool.true_and] at hsome
    by_cases hr : (rns == ns.name) = true
    · simp only [hr, if_true] at hsome
      injection hsome with hsome; subst hsome
      simp only [Bool.false_eq_true, if_false, Bool.and_eq_true] at this
      obtain ⟨a, ha⟩ := isSome_get this.1
      have hr' : rns = ns.name := by simpa using hr
      subst hr'
      exact ⟨a, (findAlias_local hapi hns ha).1, (findAlias_local hapi hns ha).2⟩
    · simp [hr] at hsome

/-- field defaults -/
theorem sec_defaults {api : Api} (hapi : apiWF api = true) {ns : Namespace} (hns : ns ∈ api.namespaces) (st : St)
    (hwf : StWF st) (hctx : Ctx api st ns) (hcls : ∀ d ∈ ns.types, ClassOK api st ns d)
    (hals : ∀ a ∈ ns.aliases, AliasOK api st ns a) :
    ∃ st', Steps st (modName ns) (defaultSection ns) st' := by
  have hng : (defaultSection ns).flatMap Stmt.globals = [] := globals_defaultSection ns
  have h := steps_flatMap' (α := DataType) (fun d => if d.isStruct then defaultStmts ns.name d else [])
    (modName ns)
    (fun st => Ctx api st ns ∧ (∀ d ∈ ns.types, ClassOK api st ns d) ∧ (∀ a ∈ ns.aliases, AliasOK api st ns a))
    (fun _ _ => True)
    (fun hle h => ⟨h.1.mono hle, fun d hd => (h.2.1 d hd).mono hle, fun a ha => (h.2.2 a ha).mono hle⟩)
    (fun _ _ => trivial) ns.types ?_ (by rw [show (ns.types.flatMap _) = defaultSection ns from rfl, hng]; exact List.nodup_nil)
    st hwf ⟨hctx, hcls, hals⟩ (by rw [show (ns.types.flatMap _) = defaultSection ns from rfl, hng]; intro n hn; simp at hn)
  · obtain ⟨st', hs, _⟩ := h
    exact ⟨st', hs⟩
  intro pre d post hsplit st hwf ⟨hctx, hcls, hals⟩ _ _
  by_cases hs : d.isStruct = true
  · simp only [hs, if_true]
    have htw := typeWF_at hapi hns hsplit
    have hd : d ∈ ns.types := by rw [hsplit]; simp
    have hok := hcls d hd
    -- the statements as a list of attribute assignments on the class
    have hform : defaultStmts ns.name d = (d.fields.filterMap fun f => match f.dflt with
        | none => none
        | some .lit => some (fmtVar f.name ++ ".default", [here (fmtClass d.name) (some (fmtVar f.name))])
        | some (.tag t tag) => some (fmtVar f.name ++ ".default",
            here (fmtClass d.name) (some (fmtVar f.name)) :: tagRef ns.name t tag)).map
          (fun x => Stmt.assign (fmtClass d.name) (some x.1) none x.2) := by
      simp only [defaultStmts, List.map_filterMap]
      congr 1
      funext f
      cases f.dflt with
      | none => rfl
      | some v => cases v <;> rfl
    rw [hform]
    suffices hall : ∀ x ∈ (d.fields.filterMap fun f => match f.dflt with
        | none => none
        | some .lit => some (fmtVar f.name ++ ".default", [here (fmtClass d.name) (some (fmtVar f.name))])
        | some (.tag t tag) => some (fmtVar f.name ++ ".default",
            here (fmtClass d.name) (some (fmtVar f.name)) :: tagRef ns.name t tag)),
        ∀ r ∈ x.2, Ready st (modName ns) r by
      obtain ⟨st', hs', _⟩ := steps_attr_assigns (cur := modName ns) (t := fmtClass d.name) hwf
        (by simp [hok.glob]) _ hall
      exact ⟨st', hs', trivial⟩
    intro x hx r hr
    simp only [List.mem_filterMap] at hx
    obtain ⟨f, hf, hx⟩ := hx
    have hfield : Ready st (modName ns) (here (fmtClass d.name) (some (fmtVar f.name))) :=
      ⟨_, hok.glob, fun a ha => by
        simp only [here] at ha; injection ha with ha; subst ha
        exact ⟨_, rfl, hok.fieldAttrs hs f hf⟩⟩
    cases hd' : f.dflt with
    | none => simp [hd'] at hx
    | some v =>
      cases v with
      | lit =>
        simp only [hd'] at hx; injection hx with hx; subst hx
        simp only [List.mem_singleton] at hr; subst hr; exact hfield
      | tag t tag =>
        simp only [hd'] at hx; injection hx with hx; subst hx
        simp only [List.mem_cons] at hr
        rcases hr with rfl | hr
        · exact hfield
        · obtain ⟨htag, htok, hends⟩ := typeWF_dflt htw hf hd'
          have key : ∀ ns' n', (t = .user ns' n' ∨ t = .alias ns' n') →
              Ready st (modName ns) (qual ns.name ns' (fmtClass n') (some (fmtVar tag))) := by
            intro ns' n' ht
            obtain ⟨c, hres, htags⟩ := alias_target hapi hns hctx hcls ns.aliases (fun a ha => ha) hals htok
              (local_aliases_exist hapi hns htok) (Nat.le_refl _) hends ht (some (fmtVar tag))
            exact ⟨.cls c, hres, fun a ha => by
              rw [qual_attr] at ha; injection ha with ha; subst ha
              exact ⟨c, rfl, htags _ tag htag⟩⟩
          cases t with
          | user ns' n' => simp only [tagRef, List.mem_singleton] at hr; subst hr; exact key ns' n' (Or.inl rfl)
          | alias ns' n' => simp only [tagRef, List.mem_singleton] at hr; subst hr; exact key ns' n' (Or.inr rfl)
          | prim => simp [tagRef] at hr
          | void => simp [tagRef] at hr
          | list t => simp [tagRef] at hr
          | map k v => simp [tagRef] at hr
          | nullable t => simp [tagRef] at hr
  · simp only [hs, Bool.false_eq_true, if_false]
    exact ⟨st, Steps.nil hwf, trivial⟩

end StoneVerif.DeclPy
