import StoneVerif.Model.Manifest
import StoneVerif.Lemmas.Path
/-! Manifest run vs real run (helper lemmas for Props/C18.lean). -/
namespace StoneVerif.Manifest
open StoneVerif.Path

/-! ### accepted paths decompose as root ++ relative components -/

theorem joinSep_ne_dot (a : Str) (rest : List Str) (ha : Proper a) : joinSep [sep] (a :: rest) ≠ dot := by
  cases rest with
  | nil => simpa [joinSep] using ha.2.1
  | cons b r =>
    intro e
    simp only [joinSep] at e
    have : (a ++ [sep] ++ joinSep [sep] (b :: r)).length = 1 := by rw [e]; rfl
    have ha1 : a.length ≥ 1 := by
      cases a with
      | nil => exact absurd rfl ha.1
      | cons _ _ => simp
    simp at this; omega

theorem accepted_comps (cwd root p r : Str) (hcwd : isAbs cwd = true)
    (h : relativeOutputPath cwd root p = .ok r) :
    absComps cwd root <+: absComps cwd p ∧ absComps cwd p = absComps cwd root ++ compsOfRel r := by
  rw [relativeOutputPath_spec cwd root p hcwd] at h
  by_cases hpre : absComps cwd root <+: absComps cwd p
  · simp only [hpre, if_true] at h
    have hr : r = relOf (absComps cwd root) (absComps cwd p) := by cases h; rfl
    refine ⟨hpre, ?_⟩
    obtain ⟨t, ht⟩ := hpre
    have hPp := absComps_proper cwd p hcwd
    rw [← ht] at hr hPp ⊢
    simp only [relOf, List.drop_left] at hr
    cases t with
    | nil => subst hr; simp [compsOfRel]
    | cons a rest =>
      have hprop : ∀ w ∈ a :: rest, Proper w := fun w hw => hPp w (by simp at hw ⊢; right; exact hw)
      simp only [] at hr
      subst hr
      have hne := joinSep_ne_dot a rest (hprop a (by simp))
      simp only [compsOfRel, hne, if_false]
      rw [splitOn_joinSep sep (a :: rest) (by simp) (fun w hw => (hprop w hw).2.2.2)]
  · simp [hpre] at h

/-! ### refusal happens before any effect -/

theorem writeFile_ok (fs fs' : FS) (k : List Str) (ap : Bool) (c : Str) (h : writeFile fs k ap c = .ok fs') :
    fs' = { fs with files := upsert fs.files k ap c } := by
  unfold writeFile at h
  by_cases h1 : isDir fs k = true
  · simp [h1] at h
  · by_cases h2 : (!isDir fs k.dropLast) = true
    · simp [h1, h2] at h
    · simp [h1, h2] at h; exact h.symm

theorem writeFile_err (fs : FS) (k : List Str) (ap : Bool) (c : Str) (e : RunErr) (h : writeFile fs k ap c = .error e) :
    e = .io := by
  unfold writeFile at h
  by_cases h1 : isDir fs k = true
  · simp [h1] at h; exact h.symm
  · by_cases h2 : (!isDir fs k.dropLast) = true
    · simp [h1, h2] at h; exact h.symm
    · simp [h1, h2] at h

theorem commit_refused (m : Bool) (cfg : Cfg) (st st' : RunState) (p : Str) (mk ap : Bool) (c : Str)
    (h : commit m cfg st p mk ap c = (st', some .refused)) : st' = st := by
  unfold commit at h
  split at h
  · simp at h; exact h.symm
  · cases m with
    | true => simp at h
    | false =>
      simp only [Bool.false_eq_true, if_false] at h
      split at h
      · next e he =>
        have := writeFile_err _ _ _ _ _ he
        subst this
        simp at h
      · simp at h

/-! ### manifest mode never touches a file -/

theorem commit_manifest_files (cfg : Cfg) (st : RunState) (p : Str) (mk ap : Bool) (c : Str) :
    (commit true cfg st p mk ap c).1.fs = st.fs := by
  unfold commit; split <;> simp

theorem mkdirs_files (fs : FS) (c : List Str) : (mkdirs fs c).files = fs.files := rfl

theorem step_manifest_files (cfg : Cfg) (st : RunState) (op : Op) :
    (step true cfg st op).1.fs.files = st.fs.files := by
  cases op <;> simp [step, commit_manifest_files, mkdirs_files]

theorem run_manifest_files (cfg : Cfg) (ops : List Op) : ∀ st, (run true cfg st ops).1.fs.files = st.fs.files := by
  induction ops with
  | nil => intro st; rfl
  | cons op ops ih =>
    intro st
    simp only [run]
    have := step_manifest_files cfg st op
    split
    · next st' heq => rw [ih st']; rw [heq] at this; exact this
    · next st' e heq => rw [heq] at this; exact this

/-! ### both modes validate the same way and log the same names -/

def DirsInclude (D : List (List Str)) (fs : FS) : Prop := ∀ d ∈ D, d ∈ fs.dirs

theorem mkdirs_mono (fs : FS) (c d : List Str) (h : d ∈ fs.dirs) : d ∈ (mkdirs fs c).dirs := by
  simp [mkdirs, h]

theorem writeFile_dirs (fs fs' : FS) (k : List Str) (ap : Bool) (c : Str) (h : writeFile fs k ap c = .ok fs') :
    fs'.dirs = fs.dirs := by
  rw [writeFile_ok fs fs' k ap c h]

theorem commit_pair (cfg : Cfg) (D : List (List Str)) (stR stM stR' : RunState) (p : Str) (mk ap : Bool) (c : Str)
    (hlog : stR.log = stM.log) (hR : DirsInclude D stR.fs) (hM : DirsInclude D stM.fs)
    (h : commit false cfg stR p mk ap c = (stR', none)) :
    ∃ stM', commit true cfg stM p mk ap c = (stM', none) ∧ stR'.log = stM'.log ∧
      DirsInclude D stR'.fs ∧ DirsInclude D stM'.fs := by
  unfold commit at h ⊢
  cases hv : relativeOutputPath cfg.cwd cfg.root p with
  | error e => rw [hv] at h; simp at h
  | ok r =>
    rw [hv] at h
    simp only [Bool.false_eq_true, if_false] at h
    simp only [if_true]
    refine ⟨_, rfl, ?_, ?_, hM⟩
    · split at h
      · simp at h
      · simp at h; rw [← h]; simp [hlog]
    · split at h
      · simp at h
      · next fs2 he =>
        simp at h
        rw [← h]
        intro d hd
        simp only
        rw [writeFile_dirs _ _ _ _ _ he]
        cases mk with
        | true => exact mkdirs_mono _ _ _ (hR d hd)
        | false => exact hR d hd

/-- every `copy_to_path` destination is a directory that exists before the run (the way the built-in
backends call it: `obj_c_types` into `Resources/` after creating it, `swift_types` into the target folder) -/
def CopyIntoExisting (cfg : Cfg) (D : List (List Str)) (ops : List Op) : Prop :=
  ∀ srcName content dst, Op.copy srcName content dst ∈ ops → absComps cfg.cwd dst ≠ [] ∧ absComps cfg.cwd dst ∈ D

theorem isDir_of_include (D : List (List Str)) (fs : FS) (h : DirsInclude D fs) (c : List Str) (hc : c ∈ D) :
    isDir fs c = true := by
  simp [isDir, h c hc]

theorem step_pair (cfg : Cfg) (D : List (List Str)) (stR stM stR' : RunState) (op : Op)
    (hcopy : CopyIntoExisting cfg D [op])
    (hlog : stR.log = stM.log) (hR : DirsInclude D stR.fs) (hM : DirsInclude D stM.fs)
    (h : step false cfg stR op = (stR', none)) :
    ∃ stM', step true cfg stM op = (stM', none) ∧ stR'.log = stM'.log ∧
      DirsInclude D stR'.fs ∧ DirsInclude D stM'.fs := by
  cases op with
  | out rel ap c => exact commit_pair cfg D stR stM stR' _ _ _ _ hlog hR hM h
  | copy srcName c dst =>
    have hd := (hcopy srcName c dst (by simp)).2
    simp only [step, isDir_of_include D _ hR _ hd, isDir_of_include D _ hM _ hd, if_true] at h ⊢
    exact commit_pair cfg D stR stM stR' _ _ _ _ hlog hR hM h
  | swiftWrite c f =>
    simp only [step] at h ⊢
    exact commit_pair cfg D { stR with fs := mkdirs stR.fs (absComps cfg.cwd cfg.root) }
      { stM with fs := mkdirs stM.fs (absComps cfg.cwd cfg.root) } stR' _ _ _ _ hlog
      (fun d hd => mkdirs_mono _ _ _ (hR d hd)) (fun d hd => mkdirs_mono _ _ _ (hM d hd)) h

theorem run_pair (cfg : Cfg) (D : List (List Str)) (ops : List Op) : ∀ (stR stM stR' : RunState),
    CopyIntoExisting cfg D ops → stR.log = stM.log → DirsInclude D stR.fs → DirsInclude D stM.fs →
    run false cfg stR ops = (stR', none) →
    ∃ stM', run true cfg stM ops = (stM', none) ∧ stR'.log = stM'.log := by
  induction ops with
  | nil =>
    intro stR stM stR' _ hlog _ _ h
    simp [run] at h
    exact ⟨stM, rfl, by rw [← h]; exact hlog⟩
  | cons op ops ih =>
    intro stR stM stR' hcopy hlog hR hM h
    simp only [run] at h ⊢
    cases hs : step false cfg stR op with
    | mk st1 e1 =>
      rw [hs] at h
      cases e1 with
      | some e => simp at h
      | none =>
        simp only [] at h
        obtain ⟨stM1, hm1, hl1, hR1, hM1⟩ := step_pair cfg D stR stM st1 op
          (fun s c d hmem => hcopy s c d (by simp at hmem; simp [hmem])) hlog hR hM hs
        rw [hm1]
        simp only []
        exact ih st1 stM1 stR' (fun s c d hmem => hcopy s c d (by simp [hmem])) hl1 hR1 hM1 h

/-! ### the real run writes exactly the files it logs -/

def keys (fs : FS) : List (List Str) := fs.files.map (·.1)

theorem mem_keys_upsert (files : List (List Str × Str)) (k k' : List Str) (ap : Bool) (c : Str) :
    k' ∈ (upsert files k ap c).map (·.1) ↔ k' ∈ files.map (·.1) ∨ k' = k := by
  induction files with
  | nil => simp [upsert]
  | cons kv rest ih =>
    obtain ⟨k0, v0⟩ := kv
    simp only [upsert]
    split
    · next h =>
      subst h
      simp only [List.map_cons, List.mem_cons]
      constructor
      · intro h; rcases h with h | h
        · exact Or.inr h
        · exact Or.inl (Or.inr h)
      · intro h; rcases h with (h | h) | h
        · exact Or.inl h
        · exact Or.inr h
        · exact Or.inl h
    · simp only [List.map_cons, List.mem_cons, ih]
      constructor
      · intro h; rcases h with h | h | h
        · exact Or.inl (Or.inl h)
        · exact Or.inl (Or.inr h)
        · exact Or.inr h
      · intro h; rcases h with (h | h) | h
        · exact Or.inl h
        · exact Or.inr (Or.inl h)
        · exact Or.inr (Or.inr h)

/-- what the real run has written so far, relative to the files present at the start -/
def LogMatches (cfg : Cfg) (K0 : List (List Str)) (st : RunState) : Prop :=
  (∀ r ∈ st.log, absComps cfg.cwd cfg.root ++ compsOfRel r ∈ keys st.fs) ∧
  (∀ k ∈ keys st.fs, k ∈ K0 ∨ ∃ r ∈ st.log, k = absComps cfg.cwd cfg.root ++ compsOfRel r)

theorem commit_real_inv (cfg : Cfg) (hcwd : isAbs cfg.cwd = true) (K0 : List (List Str)) (st st' : RunState)
    (p : Str) (mk ap : Bool) (c : Str) (hinv : LogMatches cfg K0 st)
    (h : commit false cfg st p mk ap c = (st', none)) : LogMatches cfg K0 st' := by
  unfold commit at h
  cases hv : relativeOutputPath cfg.cwd cfg.root p with
  | error e => rw [hv] at h; simp at h
  | ok r =>
    rw [hv] at h
    simp only [Bool.false_eq_true, if_false] at h
    have hc := (accepted_comps cfg.cwd cfg.root p r hcwd hv).2
    have hfiles : (if mk = true then mkdirs st.fs (absComps cfg.cwd p).dropLast else st.fs).files = st.fs.files := by
      cases mk <;> simp [mkdirs_files]
    generalize (if mk = true then mkdirs st.fs (absComps cfg.cwd p).dropLast else st.fs) = fs1 at *
    split at h
    · simp at h
    · next fs2 he =>
      simp at h
      rw [← h]
      have e2 := writeFile_ok _ _ _ _ _ he
      subst e2
      have hk : ∀ k', k' ∈ keys { fs1 with files := upsert fs1.files (absComps cfg.cwd p) ap c }
          ↔ k' ∈ keys st.fs ∨ k' = absComps cfg.cwd p := by
        intro k'
        simp only [keys, hfiles]
        exact mem_keys_upsert _ _ _ _ _
      constructor
      · intro r' hr'
        simp at hr'
        show _ ∈ keys { fs1 with files := upsert fs1.files (absComps cfg.cwd p) ap c }
        rw [hk]
        rcases hr' with hr' | rfl
        · exact Or.inl (hinv.1 r' hr')
        · exact Or.inr hc.symm
      · intro k' hk'
        have hk'' : k' ∈ keys { fs1 with files := upsert fs1.files (absComps cfg.cwd p) ap c } := hk'
        rw [hk] at hk''
        rcases hk'' with hk'' | rfl
        · rcases hinv.2 k' hk'' with h0 | ⟨r', hr', e⟩
          · exact Or.inl h0
          · exact Or.inr ⟨r', by simp [hr'], e⟩
        · exact Or.inr ⟨r, by simp, hc⟩

theorem step_real_inv (cfg : Cfg) (hcwd : isAbs cfg.cwd = true) (K0 : List (List Str)) (st st' : RunState)
    (op : Op) (hinv : LogMatches cfg K0 st) (h : step false cfg st op = (st', none)) : LogMatches cfg K0 st' := by
  cases op with
  | out rel ap c => exact commit_real_inv cfg hcwd K0 st st' _ _ _ _ hinv h
  | copy srcName c dst => exact commit_real_inv cfg hcwd K0 st st' _ _ _ _ hinv h
  | swiftWrite c f =>
    simp only [step] at h
    exact commit_real_inv cfg hcwd K0 _ st' _ _ _ _ (by exact hinv) h

theorem run_real_inv (cfg : Cfg) (hcwd : isAbs cfg.cwd = true) (K0 : List (List Str)) (ops : List Op) :
    ∀ (st st' : RunState), LogMatches cfg K0 st → run false cfg st ops = (st', none) → LogMatches cfg K0 st' := by
  induction ops with
  | nil => intro st st' hinv h; simp [run] at h; rw [← h]; exact hinv
  | cons op ops ih =>
    intro st st' hinv h
    simp only [run] at h
    cases hs : step false cfg st op with
    | mk st1 e1 =>
      rw [hs] at h
      cases e1 with
      | some e => simp at h
      | none => exact ih st1 st' (step_real_inv cfg hcwd K0 st st1 op hinv hs) h

/-! ### `sorted(set(...))` -/

theorem mem_insertSorted (x y : Str) (l : List Str) : y ∈ insertSorted x l ↔ y = x ∨ y ∈ l := by
  induction l with
  | nil => simp [insertSorted]
  | cons z zs ih =>
    simp only [insertSorted]
    split
    · next h => subst h; simp
    · split
      · simp
      · simp [ih]; constructor <;> (intro h; rcases h with h | h | h <;> simp [h])

theorem mem_sortDedup (y : Str) (l : List Str) : y ∈ sortDedup l ↔ y ∈ l := by
  induction l with
  | nil => simp [sortDedup]
  | cons x xs ih =>
    have : sortDedup (x :: xs) = insertSorted x (sortDedup xs) := rfl
    rw [this, mem_insertSorted, ih]; simp

end StoneVerif.Manifest
