import StoneVerif.Lemmas.DeclPyReflStructB
namespace StoneVerif.DeclPy

/-- part B: the tables of one caller -/
theorem sCallerBody_ok {api : Api} (hapi : apiWF api = true) {ns : Namespace} (hns : ns ∈ api.namespaces) {st : St}
    (hwf : StWF st) (hctx : Ctx api st ns) (hcls : ∀ d ∈ ns.types, ClassOK api st ns d)
    {pre post : List DataType} {d : DataType} (hsplit : ns.types = pre ++ d :: post)
    (hprer : ∀ y ∈ pre, ReflOK api st ns y) (hs : d.isStruct = true)
    (hA : ∀ f ∈ d.fields, HasA st (clsId ns.name d.name) (fmtVar f.name ++ ".validator"))
    {oc : Option Name} (hoc : oc ∈ sCallers api d) :
    ∃ st', Steps st (modName ns) (sCallerBody api ns.name d oc) st'
      ∧ HasA st' (clsId ns.name d.name) ("_all" ++ callerPrefix oc ++ "_field_names_")
      ∧ HasA st' (clsId ns.name d.name) ("_all" ++ callerPrefix oc ++ "_fields_")
      ∧ (isTreeMember api d = true → (oc = none ∨ ∃ x, oc = some x ∧ x ∈ d.ownCallers) →
          HasA st' (clsId ns.name d.name) (callerPrefix oc ++ "_field_names_")) := by
  have hd : d ∈ ns.types := by rw [hsplit]; simp
  have hok := hcls d hd
  have hcA := hok.clsAt
  -- readiness of the recurring references in any later state
  have rC : ∀ st', Le st st' → Ready st' (modName ns) (here (fmtClass d.name)) :=
    fun st' hle => ready_cls (hle.glob _ _ _ hok.glob)
  have rAttr : ∀ st', Le st st' → ∀ a, HasA st' (clsId ns.name d.name) a →
      Ready st' (modName ns) (here (fmtClass d.name) (some a)) :=
    fun st' hle a ha => ready_cls_attr (hle.glob _ _ _ hok.glob) ha
  have rFields : ∀ st', Le st st' → ∀ r ∈ sFieldRefs d oc, Ready st' (modName ns) r := by
    intro st' hle r hr
    obtain ⟨f, hf, rfl⟩ := List.mem_map.mp hr
    exact rAttr st' hle _ (hle.hasA (hA f (List.mem_filter.mp hf).1))
  -- `caller_in_parent`
  have hcipP : cipB api d oc = true →
      (∀ r ∈ pref ns.name d ("_all" ++ callerPrefix oc ++ "_field_names_"), Ready st (modName ns) r)
      ∧ (∀ r ∈ pref ns.name d ("_all" ++ callerPrefix oc ++ "_fields_"), Ready st (modName ns) r) := by
    intro hcip
    simp only [cipB, Bool.and_eq_true, Bool.or_eq_true] at hcip
    refine pref_ready hapi hns hctx hcls hsplit hprer hs hcip.1 ?_
    cases oc with
    | none => exact Or.inl rfl
    | some x =>
      simp only [Option.isNone_some, Bool.false_eq_true, false_or, List.contains_eq_mem,
        decide_eq_true_eq] at hcip
      exact Or.inr ⟨x, rfl, hcip.2⟩
  simp only [sCallerBody]
  by_cases htree : isTreeMember api d = true
  · simp only [htree, if_true]
    -- the own names table: assigned, or inherited from the root of the tree
    have step1 : ∃ st1, Steps st (modName ns)
        (if ownB d oc = true then
          [Stmt.assign (fmtClass d.name) (some (callerPrefix oc ++ "_field_names_")) none [here (fmtClass d.name)]]
         else []) st1 ∧ HasA st1 (clsId ns.name d.name) (callerPrefix oc ++ "_field_names_") := by
      by_cases hown : ownB d oc = true
      · rw [if_pos hown]
        exact assign_on_class hwf hcA (fun r hr => by
          simp only [List.mem_singleton] at hr; subst hr; exact rC st (Le.refl _))
      · rw [if_neg hown]
        refine ⟨st, Steps.nil hwf, ?_⟩
        cases oc with
        | none => simp [ownB] at hown
        | some x =>
          simp only [ownB, Option.isNone_some, Bool.false_or, List.contains_eq_mem, decide_eq_true_eq] at hown
          rcases mem_sCallers.mp hoc with h | ⟨x', hx', hmem⟩
          · exact absurd h (by simp)
          · injection hx' with hx'; subst hx'
            rcases hmem with h | h
            · exact absurd h hown
            · exact names_inherited hapi hns hwf hctx hcls hsplit hprer hs htree h
    obtain ⟨st1, hs1, hn1⟩ := step1
    -- `_all…_field_names_`
    have step2 : ∃ st2, Steps st1 (modName ns)
        (if cipB api d oc = true then
          [Stmt.assign (fmtClass d.name) (some ("_all" ++ callerPrefix oc ++ "_field_names_")) none
            (here (fmtClass d.name) :: pref ns.name d ("_all" ++ callerPrefix oc ++ "_field_names_")
              ++ [here (fmtClass d.name) (some (callerPrefix oc ++ "_field_names_"))])]
         else [Stmt.assign (fmtClass d.name) (some ("_all" ++ callerPrefix oc ++ "_field_names_")) none
            [here (fmtClass d.name), here (fmtClass d.name) (some (callerPrefix oc ++ "_field_names_"))]]) st2
        ∧ HasA st2 (clsId ns.name d.name) ("_all" ++ callerPrefix oc ++ "_field_names_") := by
      by_cases hcip : cipB api d oc = true
      · rw [if_pos hcip]
        refine assign_on_class hs1.wf (hcA.mono hs1.le) (fun r hr => ?_)
        simp only [List.cons_append, List.mem_cons, List.mem_append, List.mem_singleton, List.mem_nil_iff,
          or_false] at hr
        rcases hr with rfl | hr | rfl
        · exact rC st1 hs1.le
        · exact ((hcipP hcip).1 r hr).mono hs1.le
        · exact rAttr st1 hs1.le _ hn1
      · rw [if_neg hcip]
        refine assign_on_class hs1.wf (hcA.mono hs1.le) (fun r hr => ?_)
        simp only [List.mem_cons, List.mem_nil_iff, or_false] at hr
        rcases hr with rfl | rfl
        · exact rC st1 hs1.le
        · exact rAttr st1 hs1.le _ hn1
    obtain ⟨st2, hs2, hn2⟩ := step2
    have hle2 := hs1.le.trans hs2.le
    -- `_…_fields_`
    obtain ⟨st3, hs3, hn3⟩ := assign_on_class (a := callerPrefix oc ++ "_fields_")
      (uses := here (fmtClass d.name) :: sFieldRefs d oc) hs2.wf (hcA.mono hle2)
      (fun r hr => by
        rcases List.mem_cons.mp hr with rfl | hr
        · exact rC st2 hle2
        · exact rFields st2 hle2 r hr)
    have hle3 := hle2.trans hs3.le
    -- `_all…_fields_`
    have step4 : ∃ st4, Steps st3 (modName ns)
        (if cipB api d oc = true then
          [Stmt.assign (fmtClass d.name) (some ("_all" ++ callerPrefix oc ++ "_fields_")) none
            (here (fmtClass d.name) :: pref ns.name d ("_all" ++ callerPrefix oc ++ "_fields_")
              ++ [here (fmtClass d.name) (some (callerPrefix oc ++ "_fields_"))])]
         else [Stmt.assign (fmtClass d.name) (some ("_all" ++ callerPrefix oc ++ "_fields_")) none
            [here (fmtClass d.name), here (fmtClass d.name) (some (callerPrefix oc ++ "_fields_"))]]) st4
        ∧ HasA st4 (clsId ns.name d.name) ("_all" ++ callerPrefix oc ++ "_fields_") := by
      by_cases hcip : cipB api d oc = true
      · rw [if_pos hcip]
        refine assign_on_class hs3.wf (hcA.mono hle3) (fun r hr => ?_)
        simp only [List.cons_append, List.mem_cons, List.mem_append, List.mem_singleton, List.mem_nil_iff,
          or_false] at hr
        rcases hr with rfl | hr | rfl
        · exact rC st3 hle3
        · exact ((hcipP hcip).2 r hr).mono hle3
        · exact rAttr st3 hle3 _ hn3
      · rw [if_neg hcip]
        refine assign_on_class hs3.wf (hcA.mono hle3) (fun r hr => ?_)
        simp only [List.mem_cons, List.mem_nil_iff, or_false] at hr
        rcases hr with rfl | rfl
        · exact rC st3 hle3
        · exact rAttr st3 hle3 _ hn3
    obtain ⟨st4, hs4, hn4⟩ := step4
    refine ⟨st4, ((hs1.append hs2).append hs3).append hs4, (hs3.le.trans hs4.le).hasA hn2, hn4, fun _ _ => ?_⟩
    exact (hs2.le.trans (hs3.le.trans hs4.le)).hasA hn1
  · simp only [htree, Bool.false_eq_true, if_false]
    obtain ⟨st1, hs1, hn1⟩ := assign_on_class (a := "_all" ++ callerPrefix oc ++ "_field_names_")
      (uses := here (fmtClass d.name) :: (if cipB api d oc = true
          then pref ns.name d ("_all" ++ callerPrefix oc ++ "_field_names_") else [])) hwf hcA
      (fun r hr => by
        rcases List.mem_cons.mp hr with rfl | hr
        · exact rC st (Le.refl _)
        · by_cases hcip : cipB api d oc = true
          · rw [if_pos hcip] at hr; exact (hcipP hcip).1 r hr
          · rw [if_neg hcip] at hr; simp at hr)
    obtain ⟨st2, hs2, hn2⟩ := assign_on_class (a := "_all" ++ callerPrefix oc ++ "_fields_")
      (uses := here (fmtClass d.name) :: (if cipB api d oc = true
          then pref ns.name d ("_all" ++ callerPrefix oc ++ "_fields_") else [])
        ++ sFieldRefs d oc) hs1.wf (hcA.mono hs1.le)
      (fun r hr => by
        simp only [List.cons_append, List.mem_cons, List.mem_append] at hr
        rcases hr with rfl | hr | hr
        · exact rC st1 hs1.le
        · by_cases hcip : cipB api d oc = true
          · rw [if_pos hcip] at hr; exact ((hcipP hcip).2 r hr).mono hs1.le
          · rw [if_neg hcip] at hr; simp at hr
        · exact rFields st1 hs1.le r hr)
    exact ⟨st2, hs1.cons hs2, hs2.le.hasA hn1, hn2, fun h => by simp at h⟩

end StoneVerif.DeclPy
