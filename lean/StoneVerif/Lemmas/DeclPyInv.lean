import StoneVerif.Lemmas.DeclPyImport
/-!
Invariants of the import-safety proof (C09): what a loaded namespace module guarantees to the modules that import
it (`Loaded`), the context in which a module body runs (`Ctx`), the list combinator used for every section of the
body, and the facts extracted from `apiWF`.
-/
namespace StoneVerif.DeclPy

def modName (ns : Namespace) : Name := fmtNamespace ns.name

/-- the class object generated for type `tname` of namespace `nsname` -/
def clsId (nsname tname : Name) : ClsId := (fmtNamespace nsname, fmtClass tname)

def parentId (d : DataType) : Option ClsId := d.parent.map fun p => clsId p.1 p.2

/-- `'_tagmap' if is_public else '_{}_tagmap'.format(omitted_caller)` -/
def tagmapName : Option Name → String
  | none => "_tagmap"
  | some x => "_" ++ x ++ "_tagmap"

/-- the callers the reflection block of `d` writes tables for: the public one, own omitted callers, omitted
callers of the ancestors -/
def IsReflCaller (api : Api) (d : DataType) (oc : Option Name) : Prop :=
  oc = none ∨ ∃ x, oc = some x ∧ (x ∈ d.ownCallers ∨ x ∈ ancestorCallers api api.nTypes (api.parentOf d))

/-- after the class section: the class object, its validator, its place in the class table, the attributes other
statements read from it -/
structure ClassOK (api : Api) (st : St) (ns : Namespace) (d : DataType) : Prop where
  glob : st.global? (modName ns) (fmtClass d.name) = some (.cls (clsId ns.name d.name))
  validator : (st.global? (modName ns) (fmtClass d.name ++ "_validator")).isSome = true
  entry : (clsId ns.name d.name, parentId d) ∈ st.classes
  /-- `Cls.<field>` of own fields -/
  fieldAttrs : d.isStruct = true → ∀ f ∈ d.fields, HasA st (clsId ns.name d.name) (fmtVar f.name)
  /-- `Cls.<tag>` of own and inherited void tags -/
  tags : d.isStruct = false → ∀ n, ∀ f ∈ chainFields api n d, f.ty.isVoid = true →
    HasA st (clsId ns.name d.name) (fmtVar f.name)

/-- after the reflection section -/
structure ReflOK (api : Api) (st : St) (ns : Namespace) (d : DataType) : Prop where
  structAll : d.isStruct = true → ∀ oc, IsReflCaller api d oc →
    HasA st (clsId ns.name d.name) ("_all" ++ callerPrefix oc ++ "_field_names_")
    ∧ HasA st (clsId ns.name d.name) ("_all" ++ callerPrefix oc ++ "_fields_")
  /-- a root of a subtype tree: `Cls._<caller>_field_names_` (its leaves read it through inheritance) -/
  treeNames : d.isStruct = true → d.hasSubtypes = true → ∀ oc, (oc = none ∨ ∃ x, oc = some x ∧ x ∈ d.ownCallers) →
    HasA st (clsId ns.name d.name) (callerPrefix oc ++ "_field_names_")
  unionMaps : d.isStruct = false → ∀ oc, IsReflCaller api d oc → HasA st (clsId ns.name d.name) (tagmapName oc)

/-- after the alias section -/
structure AliasOK (api : Api) (st : St) (ns : Namespace) (a : Alias) : Prop where
  validator : (st.global? (modName ns) (fmtClass a.name ++ "_validator")).isSome = true
  /-- an alias that ends in a struct or union is bound to that class; void tags of the union are reachable -/
  cls : aliasEndsInUser api api.nAliases a.ty = true →
    ∃ c, st.global? (modName ns) (fmtClass a.name) = some (.cls c)
      ∧ ∀ k' tag, tagOKTy api k' a.ty tag = true → HasA st c (fmtVar tag)

/-- everything an importing module may rely on -/
structure Loaded (api : Api) (st : St) (ns : Namespace) : Prop where
  started : modName ns ∈ st.started
  cls : ∀ d ∈ ns.types, ClassOK api st ns d
  refl : ∀ d ∈ ns.types, ReflOK api st ns d
  als : ∀ a ∈ ns.aliases, AliasOK api st ns a

theorem ClassOK.mono {api : Api} {st st' : St} {ns : Namespace} {d : DataType} (h : Le st st')
    (c : ClassOK api st ns d) : ClassOK api st' ns d :=
  ⟨h.glob _ _ _ c.glob, by
    cases hv : st.global? (modName ns) (fmtClass d.name ++ "_validator") with
    | none => have := c.validator; simp [hv] at this
    | some v => simp [h.glob _ _ _ hv],
   h.mem_classes c.entry, fun hs f hf => h.hasA (c.fieldAttrs hs f hf), fun hs n f hf hv => h.hasA (c.tags hs n f hf hv)⟩

theorem ReflOK.mono {api : Api} {st st' : St} {ns : Namespace} {d : DataType} (h : Le st st')
    (c : ReflOK api st ns d) : ReflOK api st' ns d :=
  ⟨fun hs oc ho => ⟨h.hasA (c.structAll hs oc ho).1, h.hasA (c.structAll hs oc ho).2⟩,
   fun hs ht oc ho => h.hasA (c.treeNames hs ht oc ho), fun hs oc ho => h.hasA (c.unionMaps hs oc ho)⟩

theorem AliasOK.mono {api : Api} {st st' : St} {ns : Namespace} {a : Alias} (h : Le st st')
    (c : AliasOK api st ns a) : AliasOK api st' ns a :=
  ⟨by
    cases hv : st.global? (modName ns) (fmtClass a.name ++ "_validator") with
    | none => have := c.validator; simp [hv] at this
    | some v => simp [h.glob _ _ _ hv],
   fun hk => by
    obtain ⟨c', hc, ht⟩ := c.cls hk
    exact ⟨c', h.glob _ _ _ hc, fun k' tag hk' => h.hasA (ht k' tag hk')⟩⟩

theorem Loaded.mono {api : Api} {st st' : St} {ns : Namespace} (h : Le st st') (l : Loaded api st ns) :
    Loaded api st' ns :=
  ⟨h.started _ l.started, fun d hd => (l.cls d hd).mono h, fun d hd => (l.refl d hd).mono h,
   fun a ha => (l.als a ha).mono h⟩

/-- the state in which the body of module `ns` runs: its imports are loaded and bound -/
structure Ctx (api : Api) (st : St) (ns : Namespace) : Prop where
  started : modName ns ∈ st.started
  imports : ∀ m ∈ ns.imports, ∃ nsm ∈ api.namespaces, nsm.name = m ∧ Loaded api st nsm
    ∧ st.global? (modName ns) (fmtNamespace m) = some (.modu (fmtNamespace m))

theorem Ctx.mono {api : Api} {st st' : St} {ns : Namespace} (h : Le st st') (c : Ctx api st ns) : Ctx api st' ns :=
  ⟨h.started _ c.started, fun m hm => by
    obtain ⟨nsm, h1, h2, h3, h4⟩ := c.imports m hm
    exact ⟨nsm, h1, h2, h3.mono h, h.glob _ _ _ h4⟩⟩

/-! ## One combinator for every section -/

/-- Run `xs.flatMap f` item by item: each item may rely on a monotone fact `P` of the start state and on what the
earlier items established (`Q`), and must establish `Q` for itself. The module-level names the items bind are
pairwise different and unbound at the start. -/
theorem steps_flatMap {α : Type} (f : α → List Stmt) (cur : Name) (P : St → Prop) (Q : α → St → Prop)
    (hP : ∀ {st st'}, Le st st' → P st → P st') (hQ : ∀ {x st st'}, Le st st' → Q x st → Q x st')
    (xs : List α)
    (step : ∀ pre x post, xs = pre ++ x :: post → ∀ st, StWF st → P st → (∀ y ∈ pre, Q y st) →
        (∀ n ∈ (f x).flatMap Stmt.globals, st.global? cur n = none) → ∃ st', Steps st cur (f x) st' ∧ Q x st')
    (hnd : (xs.flatMap fun x => (f x).flatMap Stmt.globals).Nodup) :
    ∀ st, StWF st → P st → (∀ n ∈ xs.flatMap (fun x => (f x).flatMap Stmt.globals), st.global? cur n = none) →
      ∃ st', Steps st cur (xs.flatMap f) st' ∧ ∀ y ∈ xs, Q y st' := by
  suffices H : ∀ (suffix pre : List α), xs = pre ++ suffix →
      (suffix.flatMap fun x => (f x).flatMap Stmt.globals).Nodup → ∀ st, StWF st → P st → (∀ y ∈ pre, Q y st) →
      (∀ n ∈ suffix.flatMap (fun x => (f x).flatMap Stmt.globals), st.global? cur n = none) →
      ∃ st', Steps st cur (suffix.flatMap f) st' ∧ ∀ y ∈ pre ++ suffix, Q y st' by
    intro st hwf hp hfr
    have := H xs [] rfl hnd st hwf hp (fun y hy => by simp at hy) hfr
    simpa using this
  intro suffix
  induction suffix with
  | nil =>
    intro pre _ _ st hwf _ hq _
    exact ⟨st, Steps.nil hwf, by simpa using hq⟩
  | cons x rest ih =>
    intro pre hxs hnd st hwf hp hq hfr
    simp only [List.flatMap_cons, List.nodup_append] at hnd
    obtain ⟨hnd1, hnd2, hdisj⟩ := hnd
    obtain ⟨st1, hs1, hq1⟩ := step pre x rest hxs st hwf hp hq
      (fun n hn => hfr n (by simp only [List.flatMap_cons, List.mem_append]; exact Or.inl hn))
    have hfr' : ∀ n ∈ rest.flatMap (fun x => (f x).flatMap Stmt.globals), st1.global? cur n = none := by
      intro n hn
      rw [hs1.frame cur n (fun _ hmem => hdisj n hmem n hn rfl)]
      exact hfr n (by simp only [List.flatMap_cons, List.mem_append]; exact Or.inr hn)
    obtain ⟨st2, hs2, hq2⟩ := ih (pre ++ [x]) (by simp [hxs]) hnd2 st1 hs1.wf (hP hs1.le hp)
      (fun y hy => by
        rcases List.mem_append.mp hy with hy | hy
        · exact hQ hs1.le (hq y hy)
        · simp only [List.mem_singleton] at hy; subst hy; exact hq1) hfr'
    refine ⟨st2, ?_, fun y hy => hq2 y (by simpa using hy)⟩
    simp only [List.flatMap_cons]
    exact hs1.append hs2

/-- the same with the bound names written as those of the whole section -/
theorem steps_flatMap' {α : Type} (f : α → List Stmt) (cur : Name) (P : St → Prop) (Q : α → St → Prop)
    (hP : ∀ {st st'}, Le st st' → P st → P st') (hQ : ∀ {x st st'}, Le st st' → Q x st → Q x st')
    (xs : List α)
    (step : ∀ pre x post, xs = pre ++ x :: post → ∀ st, StWF st → P st → (∀ y ∈ pre, Q y st) →
        (∀ n ∈ (f x).flatMap Stmt.globals, st.global? cur n = none) → ∃ st', Steps st cur (f x) st' ∧ Q x st')
    (hnd : ((xs.flatMap f).flatMap Stmt.globals).Nodup) (st : St) (hwf : StWF st) (hp : P st)
    (hfresh : ∀ n ∈ (xs.flatMap f).flatMap Stmt.globals, st.global? cur n = none) :
    ∃ st', Steps st cur (xs.flatMap f) st' ∧ ∀ y ∈ xs, Q y st' := by
  rw [List.flatMap_assoc] at hnd hfresh
  exact steps_flatMap f cur P Q hP hQ xs step hnd st hwf hp hfresh

/-! ## Facts extracted from `apiWF` -/

theorem aliasEndsInUser_succ {api : Api} : ∀ (k : Nat) (t : Ty), aliasEndsInUser api k t = true →
    aliasEndsInUser api (k + 1) t = true := by
  intro k
  induction k with
  | zero => intro t h; cases t <;> simp_all [aliasEndsInUser]
  | succ k ih =>
    intro t h
    cases t with
    | alias ns nm =>
      simp only [aliasEndsInUser] at h ⊢
      cases hf : api.findAlias ns nm with
      | none => simp [hf] at h
      | some a => simp only [hf] at h ⊢; exact ih _ h
    | user ns nm => simp [aliasEndsInUser]
    | prim => simp [aliasEndsInUser] at h
    | void => simp [aliasEndsInUser] at h
    | list t => simp [aliasEndsInUser] at h
    | map a b => simp [aliasEndsInUser] at h
    | nullable t => simp [aliasEndsInUser] at h

theorem aliasEndsInUser_le {api : Api} {k k' : Nat} (hk : k ≤ k') {t : Ty} (h : aliasEndsInUser api k t = true) :
    aliasEndsInUser api k' t = true := by
  induction hk with
  | refl => exact h
  | step _ ih => exact aliasEndsInUser_succ _ _ ih


theorem allWithEarlier_split {α : Type} (p : List α → α → Bool) :
    ∀ (l earlier : List α), allWithEarlier p earlier l = true →
      ∀ pre x post, l = pre ++ x :: post → p (earlier ++ pre) x = true
  | [], _, _, pre, x, post, h => by simp at h
  | y :: ys, earlier, hall, pre, x, post, h => by
    simp only [allWithEarlier, Bool.and_eq_true] at hall
    cases pre with
    | nil =>
      simp only [List.nil_append] at h
      injection h with h1 h2; subst h1
      simpa using hall.1
    | cons z pre' =>
      simp only [List.cons_append] at h
      injection h with h1 h2; subst h1
      have := allWithEarlier_split p ys (earlier ++ [y]) hall.2 pre' x post h2
      simpa [List.append_assoc] using this

theorem nodup_of_nodupB' : ∀ {l : List Name}, nodupB l = true → l.Nodup
  | [], _ => List.nodup_nil
  | x :: xs, h => by
    simp only [nodupB, Bool.and_eq_true, Bool.not_eq_true', List.contains_eq_mem, decide_eq_false_iff_not] at h
    exact List.nodup_cons.mpr ⟨h.1, nodup_of_nodupB' h.2⟩

theorem nodup_map_inj {α β : Type} (f : α → β) : ∀ {l : List α}, (l.map f).Nodup → ∀ {a b : α}, a ∈ l → b ∈ l →
    f a = f b → a = b
  | [], _, _, _, ha, _, _ => by simp at ha
  | x :: xs, hnd, a, b, ha, hb, hab => by
    simp only [List.map_cons, List.nodup_cons, List.mem_map, not_exists, not_and] at hnd
    simp only [List.mem_cons] at ha hb
    rcases ha with rfl | ha <;> rcases hb with rfl | hb
    · rfl
    · exact absurd hab.symm (hnd.1 b hb)
    · exact absurd hab (hnd.1 a ha)
    · exact nodup_map_inj f hnd.2 ha hb hab

theorem nsWF_of_apiWF {api : Api} (h : apiWF api = true) {ns : Namespace} (hns : ns ∈ api.namespaces) :
    nsWF api ns = true := by
  simp only [apiWF, Bool.and_eq_true, List.all_eq_true] at h
  exact h.1.1 ns hns

theorem nodup_names_of_apiWF {api : Api} (h : apiWF api = true) :
    (api.namespaces.map (·.name)).Nodup ∧ (api.namespaces.map modName).Nodup := by
  simp only [apiWF, Bool.and_eq_true] at h
  exact ⟨nodup_of_nodupB' h.1.2, nodup_of_nodupB' h.2⟩

theorem ns_eq_of_name {api : Api} (h : apiWF api = true) {a b : Namespace} (ha : a ∈ api.namespaces)
    (hb : b ∈ api.namespaces) (hn : a.name = b.name) : a = b := by
  have hnd := (nodup_names_of_apiWF h).1
  exact nodup_map_inj _ hnd ha hb hn

theorem findNs_self {api : Api} (h : apiWF api = true) {ns : Namespace} (hns : ns ∈ api.namespaces) :
    api.findNs ns.name = some ns := by
  unfold Api.findNs
  cases hf : api.namespaces.find? (fun x => x.name == ns.name) with
  | none =>
    have := List.find?_eq_none.mp hf ns hns
    simp at this
  | some ns' =>
    have h1 := List.mem_of_find?_eq_some hf
    have h2 := List.find?_some hf
    simp only [beq_iff_eq] at h2
    rw [ns_eq_of_name h h1 hns h2]

end StoneVerif.DeclPy
