import StoneVerif.Model.Graph
import StoneVerif.Lemmas.GraphClosure
/-! Lemmas about the code-following whitelist filter (`expand`, `dfs`, the seed functions). -/
namespace StoneVerif.Graph

/-! ## lookups -/

theorem node?_mem {g : Graph} {a : Id} {n : Node} (h : g.node? a = some n) : n ∈ g.nodes ∧ n.id = a := by
  simp only [Graph.node?] at h
  exact ⟨List.mem_of_find?_eq_some h, by simpa using List.find?_some h⟩

theorem typeByName_some {g : Graph} {ns name : String} {t : Id} (h : g.typeByName ns name = some t) :
    ∃ n, g.node? t = some n ∧ n.isType = true ∧ n.ns = ns := by
  simp only [Graph.typeByName] at h
  split at h
  · rename_i n hn
    split at h
    · rename_i hc
      simp only [Bool.and_eq_true, beq_iff_eq] at hc
      have : n.id = t := by simpa using h
      have hid := (node?_mem hn).2
      refine ⟨n, ?_, hc.1.1, hc.1.2⟩
      rw [← this, hid]; exact hn
    · simp at h
  · simp at h

theorem aliasByName_some {g : Graph} {ns name : String} {t : Id} (h : g.aliasByName ns name = some t) :
    ∃ n, g.node? t = some n ∧ n.isAlias = true ∧ n.ns = ns := by
  simp only [Graph.aliasByName] at h
  split at h
  · rename_i n hn
    split at h
    · rename_i hc
      simp only [Bool.and_eq_true, beq_iff_eq] at hc
      have : n.id = t := by simpa using h
      have hid := (node?_mem hn).2
      refine ⟨n, ?_, hc.1.1, hc.1.2⟩
      rw [← this, hid]; exact hn
    · simp at h
  · simp at h

theorem routeByName_some {g : Graph} {ns name : String} {v : Nat} {t : Id}
    (h : g.routeByName ns name v = some t) :
    ∃ n, g.node? t = some n ∧ n.isRoute = true ∧ n.ns = ns ∧ n.name = name ∧ n.version = v ∧
      t = routeId ns name v := by
  simp only [Graph.routeByName] at h
  split at h
  · rename_i n hn
    split at h
    · rename_i hc
      simp only [Bool.and_eq_true, beq_iff_eq] at hc
      have : n.id = t := by simpa using h
      have hid := (node?_mem hn).2
      refine ⟨n, ?_, hc.1.1.1, hc.1.1.2, hc.1.2, hc.2, ?_⟩
      · rw [← this, hid]; exact hn
      · rw [← this, hid]
    · simp at h
  · simp at h

theorem isRouteId_iff {g : Graph} {a : Id} : g.isRouteId a = true ↔ ∃ n, g.node? a = some n ∧ n.isRoute = true := by
  simp only [Graph.isRouteId]
  split <;> simp_all

theorem isTypeId_iff {g : Graph} {a : Id} : g.isTypeId a = true ↔ ∃ n, g.node? a = some n ∧ n.isType = true := by
  simp only [Graph.isTypeId]
  split <;> simp_all

theorem isAliasId_iff {g : Graph} {a : Id} : g.isAliasId a = true ↔ ∃ n, g.node? a = some n ∧ n.isAlias = true := by
  simp only [Graph.isAliasId]
  split <;> simp_all

theorem kind_cases (n : Node) :
    (n.isType = true ∧ n.isAlias = false ∧ n.isRoute = false) ∨
    (n.isType = false ∧ n.isAlias = true ∧ n.isRoute = false ∧ n.kind = .alias) ∨
    (n.isType = false ∧ n.isAlias = false ∧ n.isRoute = true ∧ n.kind = .route) := by
  simp only [Node.isType, Node.isAlias, Node.isRoute]
  cases n.kind <;> simp

/-! ## doc references -/

theorem parsesTo_iff {g : Graph} {ctx : String} {refs : List DocRef} {want : List Id × List Id} :
    parsesTo g ctx refs want = true ↔ parseDocs g ctx refs = .ok want := by
  simp only [parsesTo]
  split
  · rename_i p hp
    simp [hp]
  · rename_i e he
    simp [he]

theorem mem_specDocs_types {g : Graph} {ns : String} {refs : List DocRef} {b : Id} :
    b ∈ (specDocs g ns refs).1 ↔ b ∈ docTargets g ns refs ∧ g.isRouteId b = false := by
  simp [specDocs]

theorem mem_specDocs_routes {g : Graph} {ns : String} {refs : List DocRef} {b : Id} :
    b ∈ (specDocs g ns refs).2 ↔ b ∈ docTargets g ns refs ∧ g.isRouteId b = true := by
  simp [specDocs]

theorem mem_docTargets_split {g : Graph} {ns : String} {refs : List DocRef} {b : Id}
    (h : b ∈ docTargets g ns refs) : b ∈ (specDocs g ns refs).1 ∨ b ∈ (specDocs g ns refs).2 := by
  cases hb : g.isRouteId b
  · exact Or.inl (mem_specDocs_types.2 ⟨h, hb⟩)
  · exact Or.inr (mem_specDocs_routes.2 ⟨h, hb⟩)

/-- the io types of a route id -/
def ioOf (g : Graph) (r : Id) : List Id :=
  match g.node? r with
  | some n => n.arg.refs ++ n.result.refs ++ n.error.refs
  | none => []

theorem routeIo_ok {g : Graph} {r : Id} {io : List Id} (h : routeIo g r = .ok io) :
    g.isRouteId r = true ∧ io = ioOf g r := by
  simp only [routeIo] at h
  split at h
  · rename_i n hn
    split at h
    · rename_i hr
      have : n.arg.refs ++ n.result.refs ++ n.error.refs = io := by simpa using h
      exact ⟨isRouteId_iff.2 ⟨n, hn, hr⟩, by simp [ioOf, hn, this]⟩
    · simp at h
  · simp at h

theorem routesIo_ok {g : Graph} {rts : List Id} {io : List Id} (h : routesIo g rts = .ok io) :
    (∀ r ∈ rts, g.isRouteId r = true) ∧ ∀ b, b ∈ io ↔ ∃ r ∈ rts, b ∈ ioOf g r := by
  induction rts generalizing io with
  | nil =>
    simp only [routesIo] at h
    have : io = [] := by simpa using h.symm
    simp [this]
  | cons r rs ih =>
    simp only [routesIo] at h
    split at h
    · rename_i a b' ha hb
      have hio : a ++ b' = io := by simpa using h
      obtain ⟨hr, ha'⟩ := routeIo_ok ha
      obtain ⟨h1, h2⟩ := ih hb
      subst hio
      refine ⟨?_, ?_⟩
      · intro x hx
        rcases List.mem_cons.1 hx with rfl | hx
        · exact hr
        · exact h1 x hx
      · intro b
        simp only [List.mem_append, h2, ha']
        constructor
        · rintro (h | ⟨x, hx, hb⟩)
          · exact ⟨r, List.mem_cons_self .., h⟩
          · exact ⟨x, List.mem_cons_of_mem _ hx, hb⟩
        · rintro ⟨x, hx, hb⟩
          rcases List.mem_cons.1 hx with rfl | hx
          · exact Or.inl hb
          · exact Or.inr ⟨x, hx, hb⟩
    · simp at h
    · simp at h

/-! ## `all_fields` -/

/-- `o` is `a` or one of its ancestors -/
inductive Anc (g : Graph) : Id → Id → Prop where
  | refl (a) : Anc g a a
  | step {a p o n} : g.node? a = some n → n.parent = some p → Anc g p o → Anc g a o

theorem filterFields_mem {g : Graph} {p : Field → Bool} {fuel : Nat} {id : Id} {l : List (Id × Field)}
    (h : filterFields g p fuel id = .ok l) {o : Id} {f : Field} (hm : (o, f) ∈ l) :
    Anc g id o ∧ ∃ no, g.node? o = some no ∧ f ∈ no.fields := by
  induction fuel generalizing id l with
  | zero => simp [filterFields] at h
  | succ fuel ih =>
    simp only [filterFields] at h
    split at h
    · simp at h
    · rename_i nd hnd
      split at h
      · rename_i q hq
        split at h
        · simp at h
        · rename_i up hup
          have hl : up ++ (nd.fields.filter p).map (fun f => (id, f)) = l := by simpa using h
          subst hl
          rcases List.mem_append.1 hm with hm | hm
          · obtain ⟨ha, hno⟩ := ih hup hm
            exact ⟨.step hnd hq ha, hno⟩
          · simp only [List.mem_map, List.mem_filter] at hm
            obtain ⟨f', ⟨hf', _⟩, heq⟩ := hm
            have ho : id = o := by simpa using congrArg Prod.fst heq
            have hf : f' = f := by simpa using congrArg Prod.snd heq
            subst ho hf
            exact ⟨.refl _, nd, hnd, hf'⟩
      · have hl : (nd.fields.filter p).map (fun f => (id, f)) = l := by simpa using h
        subst hl
        simp only [List.mem_map, List.mem_filter] at hm
        obtain ⟨f', ⟨hf', _⟩, heq⟩ := hm
        have ho : id = o := by simpa using congrArg Prod.fst heq
        have hf : f' = f := by simpa using congrArg Prod.snd heq
        subst ho hf
        exact ⟨.refl _, nd, hnd, hf'⟩

theorem filterFields_own {g : Graph} {p : Field → Bool} {fuel : Nat} {id : Id} {l : List (Id × Field)}
    (h : filterFields g p fuel id = .ok l) {nd : Node} (hnd : g.node? id = some nd) {f : Field}
    (hf : f ∈ nd.fields) (hp : p f = true) : (id, f) ∈ l := by
  cases fuel with
  | zero => simp [filterFields] at h
  | succ fuel =>
    simp only [filterFields, hnd] at h
    split at h
    · split at h
      · simp at h
      · rename_i up _
        have hl : up ++ (nd.fields.filter p).map (fun f => (id, f)) = l := by simpa using h
        subst hl
        apply List.mem_append_right
        simp only [List.mem_map, List.mem_filter]
        exact ⟨f, ⟨hf, hp⟩, rfl⟩
    · have hl : (nd.fields.filter p).map (fun f => (id, f)) = l := by simpa using h
      subst hl
      simp only [List.mem_map, List.mem_filter]
      exact ⟨f, ⟨hf, hp⟩, rfl⟩

theorem allFields_mem {g : Graph} {id : Id} {fs : List (Id × Field)} (h : allFields g id = .ok fs)
    {o : Id} {f : Field} (hm : (o, f) ∈ fs) : Anc g id o ∧ ∃ no, g.node? o = some no ∧ f ∈ no.fields := by
  simp only [allFields] at h
  split at h
  · simp at h
  · rename_i nd hnd
    split at h
    · split at h
      · rename_i r o' hr ho
        have : r ++ o' = fs := by simpa using h
        subst this
        rcases List.mem_append.1 hm with hm | hm
        · exact filterFields_mem hr hm
        · exact filterFields_mem ho hm
      · simp at h
      · simp at h
    · exact filterFields_mem h hm
    · simp at h

theorem allFields_own {g : Graph} {id : Id} {fs : List (Id × Field)} (h : allFields g id = .ok fs)
    {nd : Node} (hnd : g.node? id = some nd) {f : Field} (hf : f ∈ nd.fields) : (id, f) ∈ fs := by
  simp only [allFields, hnd] at h
  split at h
  · split at h
    · rename_i r o' hr ho
      have : r ++ o' = fs := by simpa using h
      subst this
      cases hp : f.isOptional
      · exact List.mem_append_left _ (filterFields_own hr hnd hf (by simp [hp]))
      · exact List.mem_append_right _ (filterFields_own ho hnd hf hp)
    · simp at h
    · simp at h
  · exact filterFields_own h hnd hf rfl
  · simp at h

/-! ## edges -/

/-- `succ` computes exactly the edge relation -/
theorem edge_iff_mem_succ (g : Graph) (a b : Id) : Edge g a b ↔ b ∈ succ g a := by
  constructor
  · intro h
    cases h with
    | fieldType hn ht hf hb =>
      rename_i n f
      simp only [succ, hn, Node.succ]
      simp only [Node.isType, Bool.or_eq_true, beq_iff_eq] at ht
      rcases ht with ht | ht <;> simp only [ht, List.mem_append, List.mem_flatMap] <;>
        exact Or.inl (Or.inl (Or.inl (by first | exact Or.inl (Or.inl ⟨f, hf, hb⟩) | exact ⟨f, hf, hb⟩)))
    | parent hn ht hp =>
      rename_i n
      simp only [succ, hn, Node.succ]
      simp only [Node.isType, Bool.or_eq_true, beq_iff_eq] at ht
      rcases ht with ht | ht <;> simp [ht, hp]
    | subtype hn hk hb => simp [succ, hn, Node.succ, hk, hb]
    | tagDefault hn hk hf hb =>
      rename_i n f
      simp only [succ, hn, Node.succ, hk, List.mem_append, List.mem_flatMap]
      exact Or.inl (Or.inl (Or.inr ⟨f, hf, by simp [hb]⟩))
    | aliasTarget hn hk hb => simp [succ, hn, Node.succ, hk, hb]
    | routeArg hn hk hb => simp [succ, hn, Node.succ, hk, hb]
    | routeResult hn hk hb => simp [succ, hn, Node.succ, hk, hb]
    | routeError hn hk hb => simp [succ, hn, Node.succ, hk, hb]
    | docRef hn hr hb =>
      rename_i n r
      simp only [succ, hn, Node.succ, List.mem_append, docTargets, List.mem_flatMap]
      exact Or.inr ⟨r, hr, hb⟩
    | fieldDocRef hn ht hf hr hb =>
      rename_i n f r
      simp only [succ, hn, Node.succ]
      simp only [Node.isType, Bool.or_eq_true, beq_iff_eq] at ht
      rcases ht with ht | ht <;> simp only [ht, List.mem_append, List.mem_flatMap, docTargets] <;>
        exact Or.inl (Or.inr ⟨f, hf, r, hr, hb⟩)
  · intro h
    simp only [succ] at h
    split at h
    · rename_i n hn
      simp only [Node.succ, List.mem_append] at h
      rcases h with h | h
      · split at h
        · rename_i hk
          have ht : n.isType = true := by simp [Node.isType, hk]
          simp only [List.mem_append, List.mem_flatMap] at h
          rcases h with (((⟨f, hf, hb⟩ | hp) | hs) | ⟨f, hf, hb⟩) | ⟨f, hf, hb⟩
          · exact .fieldType hn ht hf hb
          · exact .parent hn ht (by simpa [Option.mem_toList] using hp)
          · exact .subtype hn hk hs
          · exact .tagDefault hn hk hf (by simpa [Option.mem_toList] using hb)
          · simp only [docTargets, List.mem_flatMap] at hb
            obtain ⟨r, hr, hb⟩ := hb
            exact .fieldDocRef hn ht hf hr hb
        · rename_i hk
          have ht : n.isType = true := by simp [Node.isType, hk]
          simp only [List.mem_append, List.mem_flatMap] at h
          rcases h with (⟨f, hf, hb⟩ | hp) | ⟨f, hf, hb⟩
          · exact .fieldType hn ht hf hb
          · exact .parent hn ht (by simpa [Option.mem_toList] using hp)
          · simp only [docTargets, List.mem_flatMap] at hb
            obtain ⟨r, hr, hb⟩ := hb
            exact .fieldDocRef hn ht hf hr hb
        · rename_i hk
          exact .aliasTarget hn hk h
        · rename_i hk
          simp only [List.mem_append] at h
          rcases h with (h | h) | h
          · exact .routeArg hn hk h
          · exact .routeResult hn hk h
          · exact .routeError hn hk h
      · simp only [docTargets, List.mem_flatMap] at h
        obtain ⟨r, hr, hb⟩ := h
        exact .docRef hn hr hb
    · simp at h


end StoneVerif.Graph

namespace StoneVerif.Graph

/-! ## well-formedness and side conditions, unpacked -/

theorem refsOk_node {g : Graph} (hwf : g.refsOk = true) {a : Id} {n : Node} (hn : g.node? a = some n) :
    n.idOk = true ∧ n.kindOk = true := by
  simp only [Graph.refsOk, Bool.and_eq_true, List.all_eq_true] at hwf
  have := hwf.1 n (node?_mem hn).1
  exact ⟨this.1.1, this.1.2⟩

theorem isType_of_parent {g : Graph} (hwf : g.refsOk = true) {a p : Id} {n : Node} (hn : g.node? a = some n)
    (hp : n.parent = some p) : n.isType = true := by
  have := (refsOk_node hwf hn).2
  simp only [Node.kindOk, Bool.or_eq_true, Bool.and_eq_true] at this
  rcases this with h | h
  · exact h
  · simp [hp] at h

theorem isType_of_field {g : Graph} (hwf : g.refsOk = true) {a : Id} {n : Node} (hn : g.node? a = some n)
    {f : Field} (hf : f ∈ n.fields) : n.isType = true := by
  have := (refsOk_node hwf hn).2
  simp only [Node.kindOk, Bool.or_eq_true, Bool.and_eq_true] at this
  rcases this with h | h
  · exact h
  · have : n.fields = [] := by simpa using h.2
    simp [this] at hf

theorem docsAgree_node {g : Graph} (hda : docsAgree g = true) {a : Id} {n : Node} (hn : g.node? a = some n) :
    parseDocs g n.ns n.docRefs = .ok (specDocs g n.ns n.docRefs) := by
  simp only [docsAgree, Bool.and_eq_true, List.all_eq_true] at hda
  exact parsesTo_iff.1 (hda.1 n (node?_mem hn).1).1

theorem docsAgree_fields {g : Graph} (hda : docsAgree g = true) {a : Id} {n : Node} (hn : g.node? a = some n)
    {f : Field} (hf : f ∈ n.fields) :
    parseDocs g n.ns f.docRefs = .ok (specDocs g n.ns f.docRefs) := by
  simp only [docsAgree, Bool.and_eq_true, List.all_eq_true] at hda
  exact parsesTo_iff.1 ((hda.1 n (node?_mem hn).1).2 f hf)

theorem ns?_name {g : Graph} {ns : String} {n : Namespace} (h : g.ns? ns = some n) : n ∈ g.namespaces ∧ n.name = ns := by
  simp only [Graph.ns?] at h
  exact ⟨List.mem_of_find?_eq_some h, by simpa using List.find?_some h⟩

theorem docsAgree_ns {g : Graph} (hda : docsAgree g = true) {ns : String} {n : Namespace} (hn : g.ns? ns = some n) :
    parseDocs g ns n.docRefs = .ok (specDocs g ns n.docRefs) := by
  simp only [docsAgree, Bool.and_eq_true, List.all_eq_true] at hda
  have := parsesTo_iff.1 (hda.2 n (ns?_name hn).1)
  rwa [(ns?_name hn).2] at this

/-! ## one invocation of the walk -/

/-- what is known about a pending argument: its node (the owner of a field) lies in `T`, and a
field's doc read in the context it travels with yields what its references denote -/
def ItemOk (g : Graph) (T : Id → Prop) : Item → Prop
  | .node i => T i
  | .field o f ctx => T o ∧ ∃ no, g.node? o = some no ∧ f ∈ no.fields ∧
      parseDocs g ctx f.docRefs = .ok (specDocs g no.ns f.docRefs)

theorem anc_closed {g : Graph} (hwf : g.refsOk = true) {T : Id → Prop} (hT : ∀ a b, T a → Edge g a b → T b)
    {a o : Id} (h : Anc g a o) (ha : T a) : T o := by
  induction h with
  | refl => exact ha
  | step hn hp _ ih => exact ih (hT _ _ ha (.parent hn (isType_of_parent hwf hn hp) hp))

/-- the types of the signature of a route lie in every closed set that contains the route -/
theorem io_closed {g : Graph} {T : Id → Prop} (hT : ∀ a b, T a → Edge g a b → T b) {r b : Id}
    (hr : T r) (hroute : g.isRouteId r = true) (hb : b ∈ ioOf g r) : T b := by
  obtain ⟨n, hn, hk⟩ := isRouteId_iff.1 hroute
  have hk' : n.kind = .route := by
    rcases kind_cases n with h | h | h
    · simp [hk] at h
    · simp [hk] at h
    · exact h.2.2.2
  simp only [ioOf, hn, List.mem_append] at hb
  rcases hb with (hb | hb) | hb
  · exact hT _ _ hr (.routeArg hn hk' hb)
  · exact hT _ _ hr (.routeResult hn hk' hb)
  · exact hT _ _ hr (.routeError hn hk' hb)

/-- what a doc of the node `a` (read in its namespace) refers to lies in every closed set that contains `a` -/
theorem node_doc_closed {g : Graph} {T : Id → Prop} (hT : ∀ a b, T a → Edge g a b → T b) {a : Id} {nd : Node}
    (hnd : g.node? a = some nd) (ha : T a) {b : Id}
    (hb : b ∈ (specDocs g nd.ns nd.docRefs).1 ∨ b ∈ (specDocs g nd.ns nd.docRefs).2) : T b := by
  have h1 : b ∈ docTargets g nd.ns nd.docRefs := by
    rcases hb with hb | hb
    · exact (mem_specDocs_types.1 hb).1
    · exact (mem_specDocs_routes.1 hb).1
  simp only [docTargets, List.mem_flatMap] at h1
  obtain ⟨dr, hdr, hb⟩ := h1
  exact hT _ _ ha (.docRef hnd hdr hb)

/-- soundness of one invocation: its calls stay inside any closed set that contains the argument -/
theorem expand_sound {g : Graph} (hwf : g.refsOk = true) (hda : docsAgree g = true) {T : Id → Prop}
    (hT : ∀ a b, T a → Edge g a b → T b) {it : Item} {kids : List Item}
    (hit : ItemOk g T it) (he : expand g it = .ok kids) :
    ∀ k ∈ kids, ItemOk g T k := by
  cases it with
  | node id =>
    simp only [ItemOk] at hit
    simp only [expand] at he
    split at he
    · simp at he
    · rename_i nd hnd
      have hdocs := docsAgree_node hda hnd
      rw [hdocs] at he
      simp only at he
      have hdoc := fun b hb => node_doc_closed hT hnd hit (b := b) hb
      split at he
      · -- a route that a doc refers to
        rename_i hk
        simp only [Except.ok.injEq] at he
        subst he
        intro k hk'
        simp only [List.mem_map, List.mem_append] at hk'
        obtain ⟨b, hb, rfl⟩ := hk'
        simp only [ItemOk]
        rcases hb with (((hb | hb) | hb) | hb) | hb
        · exact hT _ _ hit (.routeArg hnd hk hb)
        · exact hT _ _ hit (.routeResult hnd hk hb)
        · exact hT _ _ hit (.routeError hnd hk hb)
        · exact hdoc b (Or.inl hb)
        · exact hdoc b (Or.inr hb)
      · -- alias
        rename_i hk
        simp only [Except.ok.injEq] at he
        subst he
        intro k hk'
        simp only [List.mem_map, List.mem_append] at hk'
        obtain ⟨b, hb, rfl⟩ := hk'
        simp only [ItemOk]
        rcases hb with (hb | hb) | hb
        · exact hT _ _ hit (.aliasTarget hnd hk hb)
        · exact hdoc b (Or.inl hb)
        · exact hdoc b (Or.inr hb)
      · -- struct / union
        rename_i hnr hna
        have htype : nd.isType = true := by
          rcases kind_cases nd with h | h | h
          · exact h.1
          · exact absurd h.2.2.2 hna
          · exact absurd h.2.2.2 hnr
        simp only [Except.ok.injEq] at he
        subst he
        intro k hk'
        rcases List.mem_append.1 hk' with hk' | hk'
        · simp only [List.mem_map] at hk'
          obtain ⟨f, hf, rfl⟩ := hk'
          exact ⟨hit, nd, hnd, hf, docsAgree_fields hda hnd hf⟩
        · simp only [List.mem_map, List.mem_append] at hk'
          obtain ⟨b, hb, rfl⟩ := hk'
          simp only [ItemOk]
          rcases hb with ((hb | hb) | hb) | hb
          · exact hT _ _ hit (.parent hnd htype (by simpa [Option.mem_toList] using hb))
          · exact hdoc b (Or.inl hb)
          · exact hdoc b (Or.inr hb)
          · split at hb
            · rename_i hs
              exact hT _ _ hit (.subtype hnd (by simpa using hs) hb)
            · simp at hb
  | field o f ctx =>
    simp only [ItemOk] at hit
    obtain ⟨hTo, no, hno, hf, hparse⟩ := hit
    have htype := isType_of_field hwf hno hf
    simp only [expand, hparse, Except.ok.injEq] at he
    subst he
    intro k hk'
    simp only [List.mem_map, List.mem_append] at hk'
    obtain ⟨b, hb, rfl⟩ := hk'
    simp only [ItemOk]
    have hdoc : b ∈ docTargets g no.ns f.docRefs → T b := by
      intro h1
      simp only [docTargets, List.mem_flatMap] at h1
      obtain ⟨dr, hdr, hb⟩ := h1
      exact hT _ _ hTo (.fieldDocRef hno htype hf hdr hb)
    rcases hb with (hb | hb) | hb
    · exact hT _ _ hTo (.fieldType hno htype hf hb)
    · exact hdoc (mem_specDocs_types.1 hb).1
    · exact hdoc (mem_specDocs_routes.1 hb).1

end StoneVerif.Graph
