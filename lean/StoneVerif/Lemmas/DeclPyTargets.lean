import StoneVerif.Lemmas.DeclPySecClass
namespace StoneVerif.DeclPy

/-! ### aliases -/

theorem aliasWF_at {api : Api} (hapi : apiWF api = true) {ns : Namespace} (hns : ns ∈ api.namespaces)
    {pre post : List Alias} {a : Alias} (h : ns.aliases = pre ++ a :: post) :
    tyOK api ns a.ty = true ∧ ∀ n ∈ a.ty.localAliases ns.name, ∃ a' ∈ pre, a'.name = n := by
  have hw := nsWF_of_apiWF hapi hns
  simp only [nsWF, Bool.and_eq_true] at hw
  have := allWithEarlier_split (aliasWF api ns) ns.aliases [] hw.1.1.1.1.2 pre a post h
  simp only [List.nil_append, aliasWF, Bool.and_eq_true] at this
  refine ⟨this.1, fun n hn => ?_⟩
  have h3 := List.all_eq_true.mp this.2 n hn
  simp only [List.any_eq_true, beq_iff_eq] at h3
  exact h3

theorem nodup_flatMap_head {α : Type} (f : α → Name) (g : α → List Name) :
    ∀ {l : List α}, (l.flatMap fun x => f x :: g x).Nodup → (l.map f).Nodup
  | [], _ => List.nodup_nil
  | x :: xs, h => by
    simp only [List.flatMap_cons, List.cons_append, List.nodup_cons, List.mem_append, List.mem_flatMap,
      List.mem_cons, not_or, not_exists, not_and, List.nodup_append] at h
    simp only [List.map_cons, List.nodup_cons, List.mem_map, not_exists, not_and]
    refine ⟨fun y hy heq => (h.1.2 y hy).1 heq.symm, nodup_flatMap_head f g h.2.2.1⟩

/-- different aliases of a namespace have different names -/
theorem aliases_name_inj {api : Api} (hapi : apiWF api = true) {ns : Namespace} (hns : ns ∈ api.namespaces)
    {a b : Alias} (ha : a ∈ ns.aliases) (hb : b ∈ ns.aliases) (h : a.name = b.name) : a = b := by
  have hnd := bindNames_nodup hapi hns
  simp only [bindNames, List.nodup_append] at hnd
  have := nodup_flatMap_head _ _ hnd.1.1.2.1
  exact nodup_map_inj (fun a : Alias => fmtClass a.name ++ "_validator") this ha hb (by simp only [h])


/-- `ClassOK` of a type found under a visible namespace name, and how module `ns` reaches its class -/
theorem type_target {api : Api} (hapi : apiWF api = true) {ns : Namespace} (hns : ns ∈ api.namespaces) {st : St}
    (hctx : Ctx api st ns) (hcls : ∀ d ∈ ns.types, ClassOK api st ns d) {ns' n' : Name} {d' : DataType}
    (hf : api.findType ns' n' = some d') (hvis : ns' = ns.name ∨ ns' ∈ ns.imports) (attr : Option Name) :
    Resolves st (modName ns) (qual ns.name ns' (fmtClass n') attr).mod (qual ns.name ns' (fmtClass n') attr).name
        (.cls (clsId ns' n'))
      ∧ (d'.isStruct = false → ∀ n, ∀ f ∈ chainFields api n d', f.ty.isVoid = true →
          HasA st (clsId ns' n') (fmtVar f.name)) := by
  obtain ⟨nsP, hnsP, hname, hmem, hPn⟩ := findType_spec hf
  have himp : ns' ≠ ns.name → ns' ∈ ns.imports := fun h => by rcases hvis with h' | h'; exact absurd h' h; exact h'
  have hok : ClassOK api st nsP d' := by
    by_cases h : ns' = ns.name
    · have := ns_eq_of_name hapi hnsP hns (hname.trans h); subst this; exact hcls d' hmem
    · exact (hctx.foreign hapi (himp h) hnsP hname).1.cls d' hmem
  refine ⟨resolves_parent hapi hctx hnsP hname hPn hok himp attr, fun hs n f hf hv => ?_⟩
  have := hok.tags hs n f hf hv
  rwa [hname, hPn] at this

theorem tyOK_user {api : Api} {ns : Namespace} {ns' n' : Name} (h : tyOK api ns (.user ns' n') = true) :
    (∃ d', api.findType ns' n' = some d') ∧ (ns' = ns.name ∨ ns' ∈ ns.imports) := by
  simp only [tyOK, Ty.mentions, List.all_cons, List.all_nil, Bool.and_true, if_true, Bool.and_eq_true,
    Bool.or_eq_true, beq_iff_eq, List.contains_eq_mem, decide_eq_true_eq] at h
  exact ⟨isSome_get h.1, h.2⟩

theorem tyOK_alias {api : Api} {ns : Namespace} {ns' n' : Name} (h : tyOK api ns (.alias ns' n') = true) :
    (∃ a', api.findAlias ns' n' = some a') ∧ (ns' = ns.name ∨ ns' ∈ ns.imports) := by
  simp only [tyOK, Ty.mentions, List.all_cons, List.all_nil, Bool.and_true, Bool.false_eq_true, if_false,
    Bool.and_eq_true, Bool.or_eq_true, beq_iff_eq, List.contains_eq_mem, decide_eq_true_eq] at h
  exact ⟨isSome_get h.1, h.2⟩

/-- the class a type expression of shape `T` / `AliasName` (ending in a struct or union) denotes, as module `ns`
reaches it, with the void tags reachable on it -/
theorem alias_target {api : Api} (hapi : apiWF api = true) {ns : Namespace} (hns : ns ∈ api.namespaces) {st : St}
    (hctx : Ctx api st ns) (hcls : ∀ d ∈ ns.types, ClassOK api st ns d)
    (avail : List Alias) (hsub : ∀ a ∈ avail, a ∈ ns.aliases) (havail : ∀ a ∈ avail, AliasOK api st ns a)
    {t : Ty} (htok : tyOK api ns t = true) (hal : ∀ n ∈ t.localAliases ns.name, ∃ a' ∈ avail, a'.name = n)
    {k : Nat} (hk : k ≤ api.nAliases + 1) (hends : aliasEndsInUser api k t = true) {ns' n' : Name}
    (ht : t = .user ns' n' ∨ t = .alias ns' n') (attr : Option Name) :
    ∃ c, Resolves st (modName ns) (qual ns.name ns' (fmtClass n') attr).mod
          (qual ns.name ns' (fmtClass n') attr).name (.cls c)
      ∧ ∀ k' tag, tagOKTy api k' t tag = true → HasA st c (fmtVar tag) := by
  rcases ht with rfl | rfl
  · obtain ⟨⟨d', hf⟩, hvis⟩ := tyOK_user htok
    obtain ⟨hres, htags⟩ := type_target hapi hns hctx hcls hf hvis attr
    refine ⟨clsId ns' n', hres, fun k' tag hk' => ?_⟩
    simp only [tagOKTy, hf, Bool.and_eq_true, Bool.not_eq_true', List.any_eq_true, beq_iff_eq] at hk'
    obtain ⟨hs, f, hfm, hname, hvoid⟩ := hk'
    rw [← hname]
    exact htags hs _ f hfm hvoid
  · obtain ⟨⟨a', hf⟩, hvis⟩ := tyOK_alias htok
    cases k with
    | zero => simp [aliasEndsInUser] at hends
    | succ k =>
      simp only [aliasEndsInUser, hf] at hends
      have hends' : aliasEndsInUser api api.nAliases a'.ty = true := aliasEndsInUser_le (by omega) hends
      obtain ⟨nsP, hnsP, hname, hmem, hPn⟩ := findAlias_spec hf
      have himp : ns' ≠ ns.name → ns' ∈ ns.imports := fun h => by
        rcases hvis with h' | h'; exact absurd h' h; exact h'
      have hok : AliasOK api st nsP a' := by
        by_cases h : ns' = ns.name
        · have := ns_eq_of_name hapi hnsP hns (hname.trans h); subst this
          subst h
          obtain ⟨a'', hin, hn⟩ := hal n' (by simp [Ty.localAliases, Ty.mentions])
          have : a'' = a' := aliases_name_inj hapi hns (hsub a'' hin) hmem (hn.trans hPn.symm)
          exact this ▸ havail a'' hin
        · exact (hctx.foreign hapi (himp h) hnsP hname).1.als a' hmem
      obtain ⟨c, hg, htags⟩ := hok.cls hends'
      rw [hPn] at hg
      refine ⟨c, resolves_qual hapi hctx (fun hloc => ?_) (fun hloc => ⟨himp hloc, nsP, hnsP, hname, hg⟩),
        fun k' tag hk' => ?_⟩
      · have : modName nsP = modName ns := by simp [modName, hname, hloc]
        rw [← this]; exact hg
      · cases k' with
        | zero => simp [tagOKTy] at hk'
        | succ k' =>
          simp only [tagOKTy, hf] at hk'
          exact htags k' tag hk'

end StoneVerif.DeclPy
