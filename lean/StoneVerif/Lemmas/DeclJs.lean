import StoneVerif.Model.DeclJs
/-! Helper lemmas for C16 (Model/DeclJs.lean): `seqE`, the reference lists of the type mappers, membership in the
outputs of the generators. -/
namespace StoneVerif.DeclJs

/-! ## seqE -/

theorem seqE_ok {ε α : Type} : ∀ {l : List (Except ε α)} {ds : List α}, seqE l = .ok ds → l = ds.map .ok
  | [], ds, h => by simp [seqE] at h; subst h; rfl
  | .error e :: rest, ds, h => by simp [seqE] at h
  | .ok a :: rest, ds, h => by
    simp only [seqE] at h
    cases hr : seqE rest with
    | error e => rw [hr] at h; simp at h
    | ok as =>
      rw [hr] at h
      simp at h
      subst h
      simp [seqE_ok hr]

theorem mem_of_seqE {ε α : Type} {l : List (Except ε α)} {ds : List α} (h : seqE l = .ok ds) (d : α) :
    d ∈ ds ↔ Except.ok d ∈ l := by
  rw [seqE_ok h]
  simp

theorem no_error_of_seqE {ε α : Type} {l : List (Except ε α)} {ds : List α} (h : seqE l = .ok ds) (e : ε) :
    Except.error e ∉ l := by
  rw [seqE_ok h]
  simp

/-! ## mappers -/

theorem refs_mkUnion (rs : List Ref) : (mkUnion rs).refs = rs := by
  unfold mkUnion
  split <;> simp [TExpr.refs]

theorem refs_bare (s : String) : (bare s).refs = [⟨none, s⟩] := rfl

/-- every name the JSDoc base table (or its default) can yield is a builtin or `Timestamp` -/
theorem jsBase_resolves (key : String) : jsBase key ∈ jsBuiltins ∨ jsBase key = "Timestamp" := by
  unfold jsBase tblGet
  cases h : Tables.jsBaseTypeTable.lookup key with
  | none => left; decide
  | some v =>
    have hm : (key, v) ∈ Tables.jsBaseTypeTable := by
      have := List.lookup_eq_some_iff.mp h
      obtain ⟨l1, l2, h1, _⟩ := this
      rw [h1]; simp
    have hall : ∀ p ∈ Tables.jsBaseTypeTable, p.2 ∈ jsBuiltins ∨ p.2 = "Timestamp" := by decide
    simpa using hall _ hm

theorem tsdBase_resolves (key : String) : tsdBase key ∈ tsBuiltins ∨ tsdBase key = "Timestamp" := by
  unfold tsdBase tblGet
  cases h : Tables.tsdBaseTypeTable.lookup key with
  | none => left; decide
  | some v =>
    have hm : (key, v) ∈ Tables.tsdBaseTypeTable := by
      have := List.lookup_eq_some_iff.mp h
      obtain ⟨l1, l2, h1, _⟩ := this
      rw [h1]; simp
    have hall : ∀ p ∈ Tables.tsdBaseTypeTable, p.2 ∈ tsBuiltins ∨ p.2 = "Timestamp" := by decide
    simpa using hall _ hm

theorem tsdMapKey_builtin : tsdMapKey ∈ tsBuiltins := by decide


theorem jsName_ns (q : QName) : (jsName q).ns = none := rfl

/-- `js_helpers.fmt_type` only mentions builtins, `Timestamp` and the JSDoc names of structs / unions it may print -/
theorem js_refs (api : Api) : ∀ (t : IrTy), ∀ r ∈ (jsFmtType api t).refs,
    r.ns = none ∧ (r.name ∈ jsBuiltins ∨ r.name = "Timestamp" ∨ ∃ q, URef.ty q ∈ printed api t ∧ r = jsName q)
  | .prim p, r, h => by
    simp [jsFmtType, refs_bare] at h; subst h
    exact ⟨rfl, by rcases jsBase_resolves p.key with h | h <;> simp [h]⟩
  | .map _ _, r, h => by
    simp [jsFmtType, refs_bare] at h; subst h
    exact ⟨rfl, by rcases jsBase_resolves "Map" with h | h <;> simp [h]⟩
  | .nullable _, r, h => by
    simp [jsFmtType, refs_bare] at h; subst h
    exact ⟨rfl, by rcases jsBase_resolves "Nullable" with h | h <;> simp [h]⟩
  | .alias _ _, r, h => by
    simp [jsFmtType, refs_bare] at h; subst h
    exact ⟨rfl, by rcases jsBase_resolves "Alias" with h | h <;> simp [h]⟩
  | .union q, r, h => by
    simp [jsFmtType, TExpr.refs] at h; subst h
    exact ⟨rfl, Or.inr (Or.inr ⟨q, by simp [printed], rfl⟩)⟩
  | .list t, r, h => by
    simp only [jsFmtType, TExpr.refs, List.mem_cons] at h
    rcases h with h | h
    · subst h
      exact ⟨rfl, by rcases jsBase_resolves "List" with h | h <;> simp [h]⟩
    · simpa [printed] using js_refs api t r h
  | .struct q, r, h => by
    simp only [jsFmtType] at h
    split at h
    · rename_i he
      rw [refs_mkUnion] at h
      simp only [List.mem_append, List.mem_map] at h
      rcases h with ⟨c, hc, rfl⟩ | h
      · refine ⟨rfl, Or.inr (Or.inr ⟨c, ?_, rfl⟩)⟩
        simp only [printed, structPolys, he, if_true, List.mem_cons, List.mem_flatMap]
        right; right; exact ⟨c, hc, by simp⟩
      · split at h
        · simp at h; subst h
          exact ⟨rfl, Or.inr (Or.inr ⟨q, by simp [printed], rfl⟩)⟩
        · simp at h
    · simp [TExpr.refs] at h; subst h
      exact ⟨rfl, Or.inr (Or.inr ⟨q, by simp [printed], rfl⟩)⟩

/-- what tsd_helpers prints for a printable user type -/
def tsdOut (inside : Option String) : URef → Ref
  | .ty q => tsdName inside q
  | .al q => tsdName inside q
  | .poly q => tsdRefName inside q

/-- `tsd_helpers.fmt_type` / `fmt_type_name` only mention builtins, `Timestamp` and names of printable user types -/
theorem tsd_refs (api : Api) (inside : Option String) : ∀ (t : IrTy) (poly : Bool),
    ∀ r ∈ (tsdFmt api inside poly t).refs,
      (r.ns = none ∧ (r.name ∈ tsBuiltins ∨ r.name = "Timestamp")) ∨ ∃ u ∈ printed api t, r = tsdOut inside u
  | .prim p, poly, r, h => by
    simp [tsdFmt, refs_bare] at h; subst h
    exact Or.inl ⟨rfl, tsdBase_resolves p.key⟩
  | .nullable _, poly, r, h => by
    simp [tsdFmt, refs_bare] at h; subst h
    exact Or.inl ⟨rfl, tsdBase_resolves "Nullable"⟩
  | .union q, poly, r, h => by
    simp [tsdFmt, TExpr.refs] at h; subst h
    exact Or.inr ⟨.ty q, by simp [printed], rfl⟩
  | .alias q _, poly, r, h => by
    simp [tsdFmt, TExpr.refs] at h; subst h
    exact Or.inr ⟨.al q, by simp [printed], rfl⟩
  | .list t, poly, r, h => by
    simp only [tsdFmt, TExpr.refs, List.mem_cons] at h
    rcases h with h | h
    · subst h; exact Or.inl ⟨rfl, tsdBase_resolves "List"⟩
    · simpa [printed] using tsd_refs api inside t true r h
  | .map k v, poly, r, h => by
    simp only [tsdFmt, TExpr.refs, List.mem_cons] at h
    rcases h with h | h
    · subst h; exact Or.inl ⟨rfl, Or.inl tsdMapKey_builtin⟩
    · rcases tsd_refs api inside v false r h with h | ⟨u, hu, rfl⟩
      · exact Or.inl h
      · exact Or.inr ⟨u, by simp [printed, hu], rfl⟩
  | .struct q, poly, r, h => by
    simp only [tsdFmt] at h
    split at h
    · rename_i he
      have he' : hasEnum api q = true := by simp at he; exact he.2
      rw [refs_mkUnion] at h
      simp only [List.mem_append, List.mem_map] at h
      rcases h with ⟨c, hc, rfl⟩ | h
      · refine Or.inr ⟨.poly c, ?_, rfl⟩
        simp only [printed, structPolys, he', if_true, List.mem_cons, List.mem_flatMap]
        right; right; exact ⟨c, hc, by simp⟩
      · split at h
        · simp at h; subst h
          exact Or.inr ⟨.poly q, by simp [printed, structPolys, he'], rfl⟩
        · simp at h
    · simp [TExpr.refs] at h; subst h
      exact Or.inr ⟨.ty q, by simp [printed], rfl⟩

theorem printed_sub_userTypes (api : Api) : ∀ (t : IrTy), ∀ u ∈ printed api t, u ∈ userTypes api t
  | .prim _, u, h => by simp [printed] at h
  | .list t, u, h => by simpa [userTypes] using printed_sub_userTypes api t u (by simpa [printed] using h)
  | .nullable t, u, h => by simpa [userTypes] using printed_sub_userTypes api t u (by simpa [printed] using h)
  | .map k v, u, h => by
    simp only [printed, List.mem_append] at h
    simp only [userTypes, List.mem_append]
    exact h.imp (printed_sub_userTypes api k u) (printed_sub_userTypes api v u)
  | .struct q, u, h => by simpa [userTypes, printed] using h
  | .union q, u, h => by simpa [userTypes, printed] using h
  | .alias q t, u, h => by
    simp [printed] at h; subst h; simp [userTypes]

theorem printed_unwrapNullable (api : Api) (t : IrTy) : printed api (unwrapNullable t).1 = printed api t := by
  cases t <;> simp [unwrapNullable, printed]

/-- looking through aliases and nullables only reaches user types that were reachable before -/
theorem printed_unwrapAll_sub (api : Api) : ∀ (t : IrTy), ∀ u ∈ printed api (unwrapAll t).1, u ∈ userTypes api t
  | .prim p, u, h => by simp [unwrapAll, printed] at h
  | .list t, u, h => by
    exact printed_sub_userTypes api (.list t) u (by simpa [unwrapAll] using h)
  | .map k v, u, h => by
    exact printed_sub_userTypes api (.map k v) u (by simpa [unwrapAll] using h)
  | .struct q, u, h => by
    exact printed_sub_userTypes api (.struct q) u (by simpa [unwrapAll] using h)
  | .union q, u, h => by
    exact printed_sub_userTypes api (.union q) u (by simpa [unwrapAll] using h)
  | .nullable t, u, h => by
    simpa [userTypes] using printed_unwrapAll_sub api t u (by simpa [unwrapAll] using h)
  | .alias q t, u, h => by
    have := printed_unwrapAll_sub api t u (by simpa [unwrapAll] using h)
    simp [userTypes, this]


/-! ## well-formedness, unpacked -/

structure NsFacts (api : Api) (n : NamespaceD) : Prop where
  homeData : ∀ d ∈ n.dataTypes, d.q.ns = n.name
  homeAlias : ∀ a ∈ n.aliases, a.q.ns = n.name
  nodup : (n.dataTypes.map (·.q.name) ++ n.aliases.map (·.q.name)).Nodup
  exprs : ∀ t ∈ typeExprsOf n, (∀ u ∈ userTypes api t, urefOk api u = true)
            ∧ (∀ u ∈ printed api t, visible n u.q.ns = true)
  structParent : ∀ s ∈ n.structs, ∀ p, s.parent = some p → p ∈ api.dataQNames ∧ visible n p.ns = true
  unionParent : ∀ u ∈ n.unions, ∀ p, u.parent = some p → p ∈ api.dataQNames ∧ visible n p.ns = true
  attrs : ∀ r ∈ n.routes, ∀ f ∈ api.routeSchema, (r.attrs.lookup f).isSome = true

theorem nsFacts {api : Api} {n : NamespaceD} (h : nsWF api n = true) : NsFacts api n := by
  simp only [nsWF, Bool.and_eq_true, List.all_eq_true, decide_eq_true_eq] at h
  obtain ⟨⟨⟨⟨⟨⟨h1, h2⟩, h3⟩, h4⟩, h5⟩, h6⟩, h7⟩ := h
  refine ⟨h1, h2, h3, fun t ht => ?_, fun s hs p hp => ?_, fun u hu p hp => ?_, h7⟩
  · exact h4 t ht
  · have := h5 s hs
    rw [hp] at this
    simpa using this
  · have := h6 u hu
    rw [hp] at this
    simpa using this

theorem wf_ns {api : Api} (h : apiWF api = true) {n : NamespaceD} (hn : n ∈ api.namespaces) : NsFacts api n := by
  simp only [apiWF, Bool.and_eq_true, List.all_eq_true] at h
  exact nsFacts (h.2 n hn)

theorem wf_nodup {api : Api} (h : apiWF api = true) : (api.namespaces.map (·.name)).Nodup := by
  simp only [apiWF, Bool.and_eq_true, decide_eq_true_eq] at h
  exact h.1

theorem visible_iff {n : NamespaceD} {m : String} : visible n m = true ↔ m = n.name ∨ m ∈ n.imports := by
  simp [visible]

theorem findStruct_some {api : Api} {q : QName} {s : StructD} (h : findStruct api q = some s) :
    s ∈ api.structs ∧ s.q = q := by
  unfold findStruct at h
  exact ⟨List.mem_of_find?_eq_some h, by simpa using List.find?_some h⟩

theorem mem_structs {api : Api} {s : StructD} (h : s ∈ api.structs) :
    ∃ n ∈ api.namespaces, DataType.struct s ∈ n.dataTypes := by
  simp only [Api.structs, List.mem_flatMap, NamespaceD.structs, List.mem_filterMap] at h
  obtain ⟨n, hn, d, hd, hs⟩ := h
  refine ⟨n, hn, ?_⟩
  cases d with
  | struct s' => simp at hs; subst hs; exact hd
  | union u => simp at hs

theorem mem_ns_structs {n : NamespaceD} {s : StructD} : s ∈ n.structs ↔ DataType.struct s ∈ n.dataTypes := by
  simp only [NamespaceD.structs, List.mem_filterMap]
  constructor
  · rintro ⟨d, hd, hs⟩
    cases d with
    | struct s' => simp at hs; subst hs; exact hd
    | union u => simp at hs
  · intro h; exact ⟨_, h, rfl⟩

theorem mem_ns_unions {n : NamespaceD} {u : UnionD} : u ∈ n.unions ↔ DataType.union u ∈ n.dataTypes := by
  simp only [NamespaceD.unions, List.mem_filterMap]
  constructor
  · rintro ⟨d, hd, hs⟩
    cases d with
    | union u' => simp at hs; subst hs; exact hd
    | struct s => simp at hs
  · intro h; exact ⟨_, h, rfl⟩


/-! ## tsd_types: membership in the output -/

theorem tsdTypes_ok {opts : Opts} {api : Api} {out : TypesOut} (h : tsdTypes opts api = .ok out) :
    seqE (tsdTypesE opts api) = .ok out.decls ∧ out.imports = tsdTypesImports opts api := by
  unfold tsdTypes at h
  cases hs : seqE (tsdTypesE opts api) with
  | error e => rw [hs] at h; simp at h
  | ok ds => rw [hs] at h; simp at h; subst h; exact ⟨rfl, rfl⟩

theorem fileOf_single {opts : Opts} {f : String} (h : opts.filename = some f) (ns : String) : fileOf opts ns = f := by
  simp [fileOf, h]

theorem mem_E_of_ns {opts : Opts} {api : Api} {n : NamespaceD} (hn : n ∈ api.namespaces) (ht : hasTypes n = true)
    {e : Except String Decl} (he : e ∈ tsdNamespaceE opts api n) : e ∈ tsdTypesE opts api := by
  unfold tsdTypesE
  cases hf : opts.filename with
  | some f =>
    simp only
    have : ¬ (api.namespaces.all (fun n => !hasTypes n)) = true := by
      intro hall
      have := List.all_eq_true.mp hall n hn
      simp [ht] at this
    simp only [this, if_false, Bool.false_eq_true]
    exact List.mem_append_right _ (List.mem_flatMap.mpr ⟨n, hn, he⟩)
  | none =>
    simp only
    refine List.mem_flatMap.mpr ⟨n, hn, ?_⟩
    simp only [ht, Bool.not_true, Bool.false_eq_true, if_false]
    exact List.mem_append_right _ he

theorem mem_E_of_head {opts : Opts} {api : Api} {n : NamespaceD} (hn : n ∈ api.namespaces) (ht : hasTypes n = true)
    {d : Decl} (hd : d ∈ tsdFileHead opts (fileOf opts n.name)) : Except.ok d ∈ tsdTypesE opts api := by
  unfold tsdTypesE
  cases hf : opts.filename with
  | some f =>
    simp only
    have : ¬ (api.namespaces.all (fun n => !hasTypes n)) = true := by
      intro hall
      have := List.all_eq_true.mp hall n hn
      simp [ht] at this
    simp only [this, if_false, Bool.false_eq_true]
    rw [fileOf_single hf] at hd
    exact List.mem_append_left _ (List.mem_map.mpr ⟨d, hd, rfl⟩)
  | none =>
    simp only
    refine List.mem_flatMap.mpr ⟨n, hn, ?_⟩
    simp only [ht, Bool.not_true, Bool.false_eq_true, if_false]
    exact List.mem_append_left _ (List.mem_map.mpr ⟨d, hd, rfl⟩)

/-- where an element of the output comes from: the head of a file or the body of a namespace with types -/
theorem E_cases {opts : Opts} {api : Api} {e : Except String Decl} (he : e ∈ tsdTypesE opts api) :
    ∃ n ∈ api.namespaces, hasTypes n = true ∧
      ((∃ d ∈ tsdFileHead opts (fileOf opts n.name), e = .ok d) ∨ e ∈ tsdNamespaceE opts api n) := by
  unfold tsdTypesE at he
  cases hf : opts.filename with
  | some f =>
    rw [hf] at he
    simp only at he
    split at he
    · simp at he
    · rename_i hall
      have hex : ∃ n0 ∈ api.namespaces, hasTypes n0 = true := by
        apply Classical.byContradiction
        intro hno
        apply hall
        apply List.all_eq_true.mpr
        intro x hx
        cases hx' : hasTypes x with
        | false => rfl
        | true => exact absurd ⟨x, hx, hx'⟩ hno
      obtain ⟨n0, hn0, ht0'⟩ := hex
      rcases List.mem_append.mp he with h | h
      · obtain ⟨d, hd, rfl⟩ := List.mem_map.mp h
        exact ⟨n0, hn0, ht0', Or.inl ⟨d, by rw [fileOf_single hf]; exact hd, rfl⟩⟩
      · obtain ⟨n, hn, hin⟩ := List.mem_flatMap.mp h
        have ht : hasTypes n = true := by
          by_cases ht : hasTypes n = true
          · exact ht
          · simp [tsdNamespaceE, ht] at hin
        exact ⟨n, hn, ht, Or.inr hin⟩
  | none =>
    rw [hf] at he
    simp only at he
    obtain ⟨n, hn, hin⟩ := List.mem_flatMap.mp he
    by_cases ht : hasTypes n = true
    · simp only [ht, Bool.not_true, Bool.false_eq_true, if_false] at hin
      rcases List.mem_append.mp hin with h | h
      · obtain ⟨d, hd, rfl⟩ := List.mem_map.mp h
        exact ⟨n, hn, ht, Or.inl ⟨d, hd, rfl⟩⟩
      · exact ⟨n, hn, ht, Or.inr h⟩
    · simp [ht] at hin

/-- the four kinds of elements of a namespace body -/
theorem nsE_cases {opts : Opts} {api : Api} {n : NamespaceD} {e : Except String Decl}
    (he : e ∈ tsdNamespaceE opts api n) :
    (∃ s, DataType.struct s ∈ n.dataTypes ∧ e ∈ tsdStructDecls api (fileOf opts n.name) s)
    ∨ (∃ u, DataType.union u ∈ n.dataTypes ∧ ∃ d ∈ tsdUnionDecls api (fileOf opts n.name) u, e = .ok d)
    ∨ (∃ a ∈ n.aliases, e = .ok (tsdAliasDecl api (fileOf opts n.name) a))
    ∨ (opts.filename = none ∧ e = .ok (tsdTimestamp (fileOf opts n.name) (some n.name))) := by
  unfold tsdNamespaceE at he
  split at he
  · simp at he
  · simp only [List.mem_append, List.mem_flatMap, List.mem_map] at he
    rcases he with (⟨dt, hdt, h⟩ | ⟨a, ha, rfl⟩) | h
    · cases dt with
      | struct s => exact Or.inl ⟨s, hdt, h⟩
      | union u =>
        simp only [tsdDataE, List.mem_map] at h
        obtain ⟨d, hd, rfl⟩ := h
        exact Or.inr (Or.inl ⟨u, hdt, d, hd, rfl⟩)
    · exact Or.inr (Or.inr (Or.inl ⟨a, ha, rfl⟩))
    · split at h
      · rename_i hnone
        simp at h
        exact Or.inr (Or.inr (Or.inr ⟨by simpa using hnone, h⟩))
      · simp at h

theorem mem_nsE_struct {opts : Opts} {api : Api} {n : NamespaceD} (ht : hasTypes n = true) {s : StructD}
    (hs : DataType.struct s ∈ n.dataTypes) {e : Except String Decl}
    (he : e ∈ tsdStructDecls api (fileOf opts n.name) s) : e ∈ tsdNamespaceE opts api n := by
  unfold tsdNamespaceE
  simp only [ht, Bool.not_true, Bool.false_eq_true, if_false]
  exact List.mem_append_left _ (List.mem_append_left _ (List.mem_flatMap.mpr ⟨_, hs, he⟩))

theorem mem_nsE_union {opts : Opts} {api : Api} {n : NamespaceD} (ht : hasTypes n = true) {u : UnionD}
    (hu : DataType.union u ∈ n.dataTypes) {d : Decl}
    (hd : d ∈ tsdUnionDecls api (fileOf opts n.name) u) : Except.ok d ∈ tsdNamespaceE opts api n := by
  unfold tsdNamespaceE
  simp only [ht, Bool.not_true, Bool.false_eq_true, if_false]
  exact List.mem_append_left _ (List.mem_append_left _
    (List.mem_flatMap.mpr ⟨_, hu, List.mem_map.mpr ⟨d, hd, rfl⟩⟩))

theorem mem_nsE_alias {opts : Opts} {api : Api} {n : NamespaceD} (ht : hasTypes n = true) {a : AliasD}
    (ha : a ∈ n.aliases) : Except.ok (tsdAliasDecl api (fileOf opts n.name) a) ∈ tsdNamespaceE opts api n := by
  unfold tsdNamespaceE
  simp only [ht, Bool.not_true, Bool.false_eq_true, if_false]
  exact List.mem_append_left _ (List.mem_append_right _ (List.mem_map.mpr ⟨a, ha, rfl⟩))

theorem hasTypes_of_data {n : NamespaceD} {d : DataType} (h : d ∈ n.dataTypes) : hasTypes n = true := by
  unfold hasTypes
  cases hd : n.dataTypes with
  | nil => rw [hd] at h; simp at h
  | cons _ _ => simp

theorem hasTypes_of_alias {n : NamespaceD} {a : AliasD} (h : a ∈ n.aliases) : hasTypes n = true := by
  unfold hasTypes
  cases hd : n.aliases with
  | nil => rw [hd] at h; simp at h
  | cons _ _ => simp


/-! ## tsd_types: every printable user type is declared -/

def outName : URef → String
  | .ty q => q.name
  | .al q => q.name
  | .poly q => q.name ++ Tables.tsdReferenceStrings.headD "Reference"

theorem tsdName_name (inside : Option String) (q : QName) : (tsdName inside q).name = q.name := by
  unfold tsdName; split <;> rfl

theorem tsdName_same (q : QName) : tsdName (some q.ns) q = ⟨none, q.name⟩ := by
  simp [tsdName]

theorem tsdName_other {inside : Option String} {q : QName} (h : some q.ns ≠ inside) :
    tsdName inside q = ⟨some q.ns, q.name⟩ := by
  simp [tsdName, h]

theorem tsdOut_name (inside : Option String) (u : URef) : (tsdOut inside u).name = outName u := by
  cases u <;> simp [tsdOut, outName, tsdName_name, tsdRefName]

theorem tsdOut_ns_same (u : URef) : (tsdOut (some u.q.ns) u).ns = none := by
  cases u <;> simp [tsdOut, URef.q, tsdName_same, tsdRefName]

theorem tsdOut_ns_other {inside : Option String} {u : URef} (h : some u.q.ns ≠ inside) :
    (tsdOut inside u).ns = some u.q.ns := by
  cases u <;> simp only [URef.q] at h <;> simp [tsdOut, URef.q, tsdName_other h, tsdRefName]

theorem struct_iface_mem (api : Api) (file : String) (s : StructD) :
    ∃ d, Except.ok d ∈ tsdStructDecls api file s ∧ d.file = file ∧ d.scope = some s.q.ns ∧ d.name = s.q.name := by
  simp only [tsdStructDecls]
  exact ⟨_, List.mem_cons_self, rfl, rfl, rfl⟩

theorem union_alias_mem (api : Api) (file : String) (u : UnionD) :
    ∃ d ∈ tsdUnionDecls api file u, d.file = file ∧ d.scope = some u.q.ns ∧ d.name = u.q.name := by
  simp only [tsdUnionDecls]
  exact ⟨_, List.mem_append_right _ (List.mem_singleton.mpr rfl), rfl, rfl, rfl⟩

theorem tagMember_of_inTree {api : Api} {s : StructD} (h : inTree api s = true) : tagMember api s ≠ .ok none := by
  unfold tagMember
  unfold inTree at h
  by_cases hs : s.subtypes.isEmpty = true
  · simp only [hs, Bool.not_true, Bool.false_eq_true, if_false]
    simp only [hs, Bool.not_true, Bool.false_or] at h
    cases hp : s.parent with
    | none => rw [hp] at h; simp at h
    | some p =>
      rw [hp] at h
      simp only [Bool.and_eq_true] at h
      simp only [h.1, if_true]
      cases ht : tagIn api p s.q with
      | none => rw [ht] at h; simp at h
      | some tag => simp
  · simp only [hs, Bool.not_false, if_true]
    split <;> simp

structure Ctx (opts : Opts) (api : Api) (out : TypesOut) : Prop where
  wf : apiWF api = true
  hseq : seqE (tsdTypesE opts api) = .ok out.decls
  himp : out.imports = tsdTypesImports opts api

theorem Ctx.mem {opts : Opts} {api : Api} {out : TypesOut} (c : Ctx opts api out) {d : Decl}
    (h : Except.ok d ∈ tsdTypesE opts api) : d ∈ out.decls := (mem_of_seqE c.hseq d).mpr h

theorem mem_dataQNames {api : Api} {q : QName} (h : q ∈ api.dataQNames) :
    ∃ n ∈ api.namespaces, ∃ d ∈ n.dataTypes, d.q = q := by
  simpa [Api.dataQNames, List.mem_flatMap, List.mem_map] using h

theorem mem_aliasQNames {api : Api} {q : QName} (h : q ∈ api.aliasQNames) :
    ∃ n ∈ api.namespaces, ∃ a ∈ n.aliases, a.q = q := by
  simpa [Api.aliasQNames, List.mem_flatMap, List.mem_map] using h

theorem declared_struct {opts : Opts} {api : Api} {out : TypesOut} (c : Ctx opts api out) {n : NamespaceD}
    (hn : n ∈ api.namespaces) {s : StructD} (hs : DataType.struct s ∈ n.dataTypes) :
    declaredAt out.decls (fileOf opts n.name) (some n.name) s.q.name := by
  obtain ⟨d, hd, h1, h2, h3⟩ := struct_iface_mem api (fileOf opts n.name) s
  have hh : s.q.ns = n.name := (wf_ns c.wf hn).homeData _ hs
  have ht := hasTypes_of_data hs
  exact ⟨d, c.mem (mem_E_of_ns hn ht (mem_nsE_struct ht hs hd)), h1, by rw [h2, hh], h3⟩

theorem declared_union {opts : Opts} {api : Api} {out : TypesOut} (c : Ctx opts api out) {n : NamespaceD}
    (hn : n ∈ api.namespaces) {u : UnionD} (hu : DataType.union u ∈ n.dataTypes) :
    declaredAt out.decls (fileOf opts n.name) (some n.name) u.q.name := by
  obtain ⟨d, hd, h1, h2, h3⟩ := union_alias_mem api (fileOf opts n.name) u
  have hh : u.q.ns = n.name := (wf_ns c.wf hn).homeData _ hu
  have ht := hasTypes_of_data hu
  exact ⟨d, c.mem (mem_E_of_ns hn ht (mem_nsE_union ht hu hd)), h1, by rw [h2, hh], h3⟩

theorem declared_alias {opts : Opts} {api : Api} {out : TypesOut} (c : Ctx opts api out) {n : NamespaceD}
    (hn : n ∈ api.namespaces) {a : AliasD} (ha : a ∈ n.aliases) :
    declaredAt out.decls (fileOf opts n.name) (some n.name) a.q.name := by
  have hh : a.q.ns = n.name := (wf_ns c.wf hn).homeAlias _ ha
  have ht := hasTypes_of_alias ha
  exact ⟨_, c.mem (mem_E_of_ns hn ht (mem_nsE_alias ht ha)), rfl, by simp [tsdAliasDecl, hh], rfl⟩

/-- the `...Reference` interface of a tree member is in the output -/
theorem declared_reference {opts : Opts} {api : Api} {out : TypesOut} (c : Ctx opts api out) {n : NamespaceD}
    (hn : n ∈ api.namespaces) {s : StructD} (hs : DataType.struct s ∈ n.dataTypes) (ht : inTree api s = true) :
    declaredAt out.decls (fileOf opts n.name) (some n.name) (outName (.poly s.q)) := by
  have hh : s.q.ns = n.name := (wf_ns c.wf hn).homeData _ hs
  have hty := hasTypes_of_data hs
  cases htm : tagMember api s with
  | error e =>
    exfalso
    have : Except.error e ∈ tsdStructDecls api (fileOf opts n.name) s := by
      simp only [tsdStructDecls, htm]; simp
    exact no_error_of_seqE c.hseq e (mem_E_of_ns hn hty (mem_nsE_struct hty hs this))
  | ok o =>
    cases o with
    | none => exact absurd htm (tagMember_of_inTree ht)
    | some tag =>
      have : ∃ d, Except.ok d ∈ tsdStructDecls api (fileOf opts n.name) s ∧ d.file = fileOf opts n.name
          ∧ d.scope = some s.q.ns ∧ d.name = (tsdRefName (some s.q.ns) s.q).name := by
        simp only [tsdStructDecls, htm]
        exact ⟨_, List.mem_cons_of_mem _ (List.mem_singleton.mpr rfl), rfl, rfl, rfl⟩
      obtain ⟨d, hd, h1, h2, h3⟩ := this
      refine ⟨d, c.mem (mem_E_of_ns hn hty (mem_nsE_struct hty hs hd)), h1, by rw [h2, hh], ?_⟩
      rw [h3]; simp [outName, tsdRefName, tsdName_name]

theorem declared_uref {opts : Opts} {api : Api} {out : TypesOut} (c : Ctx opts api out) (u : URef)
    (hok : urefOk api u = true) : declaredAt out.decls (fileOf opts u.q.ns) (some u.q.ns) (outName u) := by
  cases u with
  | ty q =>
    simp only [urefOk, decide_eq_true_eq] at hok
    obtain ⟨n, hn, d, hd, rfl⟩ := mem_dataQNames hok
    have hh : d.q.ns = n.name := (wf_ns c.wf hn).homeData _ hd
    simp only [URef.q, outName, hh]
    cases d with
    | struct s => exact declared_struct c hn hd
    | union u => exact declared_union c hn hd
  | al q =>
    simp only [urefOk, decide_eq_true_eq] at hok
    obtain ⟨n, hn, a, ha, rfl⟩ := mem_aliasQNames hok
    have hh : a.q.ns = n.name := (wf_ns c.wf hn).homeAlias _ ha
    simp only [URef.q, outName, hh]
    exact declared_alias c hn ha
  | poly q =>
    simp only [urefOk, treeMember] at hok
    cases hf : findStruct api q with
    | none => rw [hf] at hok; simp at hok
    | some s =>
      rw [hf] at hok
      obtain ⟨hs, rfl⟩ := findStruct_some hf
      obtain ⟨n, hn, hd⟩ := mem_structs hs
      have hh : s.q.ns = n.name := (wf_ns c.wf hn).homeData _ hd
      simp only [URef.q, hh]
      exact declared_reference c hn hd hok


/-! ## tsd_types: resolution -/

/-- the declaration sits in the body of namespace `n` -/
structure InNs (opts : Opts) (n : NamespaceD) (d : Decl) : Prop where
  file : d.file = fileOf opts n.name
  scope : d.scope = some n.name

theorem mem_nsE_timestamp {opts : Opts} {api : Api} {n : NamespaceD} (ht : hasTypes n = true)
    (hf : opts.filename = none) :
    Except.ok (tsdTimestamp (fileOf opts n.name) (some n.name)) ∈ tsdNamespaceE opts api n := by
  unfold tsdNamespaceE
  simp only [ht, Bool.not_true, Bool.false_eq_true, if_false]
  exact List.mem_append_right _ (by simp [hf])

theorem resolve_builtin {out : TypesOut} {d : Decl} {r : Ref} (h1 : r.ns = none) (h2 : r.name ∈ tsBuiltins) :
    resolvesTs out d r := by
  unfold resolvesTs; rw [h1]; exact Or.inl h2

theorem resolve_uref {opts : Opts} {api : Api} {out : TypesOut} (c : Ctx opts api out) {n : NamespaceD}
    (hn : n ∈ api.namespaces) (ht : hasTypes n = true) {d : Decl} (hd : InNs opts n d) (u : URef)
    (hok : urefOk api u = true) (hv : visible n u.q.ns = true) : resolvesTs out d (tsdOut (some n.name) u) := by
  have hdecl := declared_uref c u hok
  by_cases hsame : u.q.ns = n.name
  · have hns : (tsdOut (some n.name) u).ns = none := by rw [← hsame]; exact tsdOut_ns_same u
    unfold resolvesTs; rw [hns]
    refine Or.inr (Or.inr (Or.inl ?_))
    rw [hd.file, hd.scope, tsdOut_name, ← hsame]; exact hdecl
  · have hns : (tsdOut (some n.name) u).ns = some u.q.ns := tsdOut_ns_other (by simpa using hsame)
    unfold resolvesTs; rw [hns]
    cases hf : opts.filename with
    | some f =>
      refine Or.inl ?_
      rw [hd.file, fileOf_single hf, tsdOut_name]
      rw [fileOf_single hf] at hdecl; exact hdecl
    | none =>
      refine Or.inr ⟨?_, _, by rw [tsdOut_name]; exact hdecl⟩
      rw [c.himp, hd.file]
      unfold tsdTypesImports
      rw [hf]
      refine List.mem_flatMap.mpr ⟨n, hn, ?_⟩
      simp only [ht, Bool.not_true, Bool.false_eq_true, if_false]
      refine List.mem_map.mpr ⟨u.q.ns, ?_, rfl⟩
      rcases visible_iff.mp hv with h | h
      · exact absurd h hsame
      · exact h

theorem resolve_timestamp {opts : Opts} {api : Api} {out : TypesOut} (c : Ctx opts api out) {n : NamespaceD}
    (hn : n ∈ api.namespaces) (ht : hasTypes n = true) {d : Decl} (hd : InNs opts n d) :
    resolvesTs out d ⟨none, "Timestamp"⟩ := by
  unfold resolvesTs
  cases hf : opts.filename with
  | some f =>
    refine Or.inr (Or.inr (Or.inr ⟨tsdTimestamp (fileOf opts n.name) none, ?_, ?_, rfl, rfl⟩))
    · apply c.mem
      apply mem_E_of_head hn ht
      unfold tsdFileHead
      exact List.mem_append_right _ (by simp [hf])
    · rw [hd.file]; rfl
  | none =>
    refine Or.inr (Or.inr (Or.inl ⟨tsdTimestamp (fileOf opts n.name) (some n.name), ?_, ?_, ?_, rfl⟩))
    · exact c.mem (mem_E_of_ns hn ht (mem_nsE_timestamp ht hf))
    · rw [hd.file]; rfl
    · rw [hd.scope]; rfl

theorem resolve_fmt {opts : Opts} {api : Api} {out : TypesOut} (c : Ctx opts api out) {n : NamespaceD}
    (hn : n ∈ api.namespaces) (ht : hasTypes n = true) {d : Decl} (hd : InNs opts n d) (t : IrTy) (poly : Bool)
    (hp : ∀ u ∈ printed api t, urefOk api u = true ∧ visible n u.q.ns = true) :
    ∀ r ∈ (tsdFmt api (some n.name) poly t).refs, resolvesTs out d r := by
  intro r hr
  rcases tsd_refs api (some n.name) t poly r hr with ⟨h1, h2 | h2⟩ | ⟨u, hu, rfl⟩
  · exact resolve_builtin h1 h2
  · have : r = ⟨none, "Timestamp"⟩ := by
      cases r; simp at h1 h2; simp [h1, h2]
    rw [this]; exact resolve_timestamp c hn ht hd
  · exact resolve_uref c hn ht hd u (hp u hu).1 (hp u hu).2

theorem printed_ok {api : Api} {n : NamespaceD} (nf : NsFacts api n) {t : IrTy} (ht : t ∈ typeExprsOf n) :
    ∀ u ∈ printed api t, urefOk api u = true ∧ visible n u.q.ns = true := fun u hu =>
  ⟨(nf.exprs t ht).1 u (printed_sub_userTypes api t u hu), (nf.exprs t ht).2 u hu⟩


/-! ## tsd_types: every reference of every declaration resolves -/

theorem tagMember_lits {api : Api} {s : StructD} {tag : Member} (h : tagMember api s = .ok (some tag)) :
    tag.ty.refs = [] := by
  simp only [tagMember] at h
  split at h
  · split at h
    · simp at h; subst h; rfl
    · simp at h
  · split at h
    · split at h
      · split at h
        · simp at h; subst h; rfl
        · simp at h
      · simp at h
    · simp at h

theorem mem_typeExprs_field {n : NamespaceD} {s : StructD} (hs : DataType.struct s ∈ n.dataTypes) {f : FieldD}
    (hf : f ∈ s.fields) : f.ty ∈ typeExprsOf n := by
  unfold typeExprsOf
  refine List.mem_append_left _ (List.mem_append_left _ (List.mem_append_left _ ?_))
  exact List.mem_flatMap.mpr ⟨s, mem_ns_structs.mpr hs, List.mem_map.mpr ⟨f, hf, rfl⟩⟩

theorem mem_typeExprs_tag {n : NamespaceD} {u : UnionD} (hu : DataType.union u ∈ n.dataTypes) {t : TagD}
    (ht : t ∈ u.tags) : t.ty ∈ typeExprsOf n := by
  unfold typeExprsOf
  refine List.mem_append_left _ (List.mem_append_left _ (List.mem_append_right _ ?_))
  exact List.mem_flatMap.mpr ⟨u, mem_ns_unions.mpr hu, List.mem_map.mpr ⟨t, ht, rfl⟩⟩

theorem mem_typeExprs_alias {n : NamespaceD} {a : AliasD} (ha : a ∈ n.aliases) : a.target ∈ typeExprsOf n := by
  unfold typeExprsOf
  exact List.mem_append_left _ (List.mem_append_right _ (List.mem_map.mpr ⟨a, ha, rfl⟩))

theorem mem_typeExprs_route {n : NamespaceD} {r : RouteD} (hr : r ∈ n.routes) :
    r.arg ∈ typeExprsOf n ∧ r.result ∈ typeExprsOf n ∧ r.error ∈ typeExprsOf n := by
  unfold typeExprsOf
  refine ⟨?_, ?_, ?_⟩ <;> exact List.mem_append_right _ (List.mem_flatMap.mpr ⟨r, hr, by simp⟩)

theorem resolve_self_data {opts : Opts} {api : Api} {out : TypesOut} (c : Ctx opts api out) {n : NamespaceD}
    (hn : n ∈ api.namespaces) {dt : DataType} (hdt : dt ∈ n.dataTypes) {d : Decl} (hd : InNs opts n d) :
    resolvesTs out d (tsdName (some n.name) dt.q) := by
  have ht := hasTypes_of_data hdt
  have hh : dt.q.ns = n.name := (wf_ns c.wf hn).homeData _ hdt
  have := resolve_uref c hn ht hd (.ty dt.q)
    (by simp only [urefOk, decide_eq_true_eq, Api.dataQNames, List.mem_flatMap, List.mem_map]
        exact ⟨n, hn, dt, hdt, rfl⟩)
    (by simp [visible, URef.q, hh])
  simpa [tsdOut] using this

theorem resolve_parent {opts : Opts} {api : Api} {out : TypesOut} (c : Ctx opts api out) {n : NamespaceD}
    (hn : n ∈ api.namespaces) (ht : hasTypes n = true) {d : Decl} (hd : InNs opts n d) {p : QName}
    (hp : p ∈ api.dataQNames ∧ visible n p.ns = true) : resolvesTs out d (tsdName (some n.name) p) := by
  have := resolve_uref c hn ht hd (.ty p) (by simp [urefOk, hp.1]) (by simpa [URef.q] using hp.2)
  simpa [tsdOut] using this

/-- every reference of every declaration of a tsd_types output resolves (both file layouts) -/
theorem tsd_types_resolves {opts : Opts} {api : Api} {out : TypesOut} (c : Ctx opts api out) :
    ∀ d ∈ out.decls, ∀ r ∈ d.refs, resolvesTs out d r := by
  intro d hd r hr
  have hE : Except.ok d ∈ tsdTypesE opts api := (mem_of_seqE c.hseq d).mp hd
  obtain ⟨n, hn, ht, hcase⟩ := E_cases hE
  have nf := wf_ns c.wf hn
  rcases hcase with ⟨d', hd', hEq⟩ | hbody
  · -- head of a file
    simp at hEq; subst hEq
    unfold tsdFileHead at hd'
    rcases List.mem_append.mp hd' with h | h
    · split at h
      · simp at h
      · rename_i hex
        have hum : declaredAt out.decls (fileOf opts n.name) none "UserMessage" := by
          refine ⟨(tsdHeader (fileOf opts n.name))[1]!, ?_, rfl, rfl, rfl⟩
          apply c.mem
          apply mem_E_of_head hn ht
          unfold tsdFileHead
          exact List.mem_append_left _ (by simp [hex, tsdHeader])
        simp only [tsdHeader, List.mem_cons, List.mem_nil_iff, or_false] at h
        rcases h with rfl | rfl
        · simp [Decl.refs, TExpr.refs, bare] at hr
          rcases hr with rfl | rfl | rfl
          · exact resolve_builtin rfl (by decide)
          · unfold resolvesTs; exact Or.inr (Or.inl (by simp))
          · unfold resolvesTs; exact Or.inr (Or.inr (Or.inl hum))
        · simp [Decl.refs, TExpr.refs, bare] at hr
          subst hr
          exact resolve_builtin rfl (by decide)
    · split at h
      · simp at h; subst h
        simp [Decl.refs, tsdTimestamp, TExpr.refs, bare] at hr
        subst hr
        exact resolve_builtin rfl (by decide)
      · simp at h
  · rcases nsE_cases hbody with ⟨s, hs, he⟩ | ⟨u, hu, d', hd', hEq⟩ | ⟨a, ha, hEq⟩ | ⟨hf, hEq⟩
    · -- struct
      have hh : s.q.ns = n.name := nf.homeData _ hs
      simp only [tsdStructDecls, List.mem_cons] at he
      rcases he with he | he
      · simp at he; subst he
        simp only [Decl.refs, List.mem_append, List.mem_flatMap, List.mem_map] at hr
        rcases hr with (hr | ⟨m, ⟨f, hf, rfl⟩, hr⟩) | hr
        · cases hp : s.parent with
          | none => rw [hp] at hr; simp at hr
          | some p =>
            rw [hp] at hr; simp at hr; subst hr
            rw [hh]
            exact resolve_parent c hn ht ⟨rfl, by simp [hh]⟩ (nf.structParent s (mem_ns_structs.mpr hs) p hp)
        · rw [hh] at hr
          refine resolve_fmt c hn ht ⟨rfl, by simp [hh]⟩ _ true ?_ r hr
          rw [printed_unwrapNullable]
          exact printed_ok nf (mem_typeExprs_field hs hf)
        · simp at hr
      · cases htm : tagMember api s with
        | error e => rw [htm] at he; simp at he
        | ok o =>
          cases o with
          | none => rw [htm] at he; simp at he
          | some tag =>
            rw [htm] at he; simp at he; subst he
            simp only [Decl.refs, List.mem_append, List.mem_flatMap, List.mem_cons, List.mem_nil_iff,
              or_false] at hr
            rcases hr with hr | ⟨m, rfl, hr⟩
            · subst hr
              rw [hh]
              exact resolve_self_data c hn hs ⟨rfl, by simp [hh]⟩
            · simp [tagMember_lits htm] at hr
    · -- union
      simp at hEq; subst hEq
      have hh : u.q.ns = n.name := nf.homeData _ hu
      simp only [tsdUnionDecls, List.mem_append, List.mem_map, List.mem_singleton] at hd'
      rcases hd' with ⟨t, ht', rfl⟩ | rfl
      · have hall : ∀ (d : Decl), InNs opts n d → ∀ r ∈ (tsdFmt api (some n.name) true t.ty).refs,
            resolvesTs out d r := fun d hin =>
          resolve_fmt c hn ht hin _ true (printed_ok nf (mem_typeExprs_tag hu ht'))
        simp only [Decl.refs, List.mem_append, List.mem_flatMap, List.mem_cons] at hr
        rcases hr with (hr | ⟨m, hm, hr⟩) | hr
        · split at hr
          · rw [hh] at hr; exact hall _ ⟨rfl, by simp [hh]⟩ r hr
          · simp at hr
        · rcases hm with rfl | hm
          · simp [TExpr.refs] at hr
          · split at hm
            · simp at hm; subst hm
              rw [hh] at hr; exact hall _ ⟨rfl, by simp [hh]⟩ r hr
            · simp at hm
        · simp at hr
      · by_cases hE : ((Option.map (tsdName (some u.q.ns)) u.parent).toList ++
            List.map (fun t => ({ ns := none, name := variantName u t } : Ref)) u.tags).isEmpty = true
        · -- a union without parent and tags: `never`
          simp only [Decl.refs, hE, if_true, TExpr.refs, bare, List.mem_append] at hr
          rcases hr with (hr | hr) | hr
          · simp at hr
          · simp at hr
          · simp at hr; subst hr
            exact resolve_builtin rfl (by decide)
        simp only [Decl.refs, hE, Bool.false_eq_true, if_false, TExpr.refs, List.mem_append, List.mem_map] at hr
        rcases hr with (hr | hr) | hr | ⟨t, ht', rfl⟩
        · simp at hr
        · simp at hr
        · cases hp : u.parent with
          | none => rw [hp] at hr; simp at hr
          | some p =>
            rw [hp] at hr; simp at hr; subst hr
            rw [hh]
            exact resolve_parent c hn ht ⟨rfl, by simp [hh]⟩ (nf.unionParent u (mem_ns_unions.mpr hu) p hp)
        · have hv : ∃ dv ∈ tsdUnionDecls api (fileOf opts n.name) u, dv.file = fileOf opts n.name
              ∧ dv.scope = some u.q.ns ∧ dv.name = variantName u t := by
            simp only [tsdUnionDecls, List.mem_append, List.mem_map]
            exact ⟨_, Or.inl ⟨t, ht', rfl⟩, rfl, rfl, rfl⟩
          obtain ⟨dv, hdv, h1, h2, h3⟩ := hv
          unfold resolvesTs
          exact Or.inr (Or.inr (Or.inl ⟨dv, c.mem (mem_E_of_ns hn ht (mem_nsE_union ht hu hdv)), h1, h2, h3⟩))
    · -- alias
      simp at hEq; subst hEq
      have hh : a.q.ns = n.name := nf.homeAlias _ ha
      have hin : InNs opts n (tsdAliasDecl api (fileOf opts n.name) a) := ⟨rfl, by simp [tsdAliasDecl, hh]⟩
      simp only [Decl.refs, tsdAliasDecl, List.mem_append] at hr
      rcases hr with (hr | hr) | hr
      · simp at hr
      · simp at hr
      · rw [hh] at hr
        exact resolve_fmt c hn ht hin _ false (printed_ok nf (mem_typeExprs_alias ha)) r hr
    · simp at hEq; subst hEq
      simp [Decl.refs, tsdTimestamp, TExpr.refs, bare] at hr
      subst hr
      exact resolve_builtin rfl (by decide)


/-! ## js_types -/

theorem chainFields_mem (api : Api) : ∀ (fuel : Nat) (s : StructD) (f : FieldD), f ∈ chainFields api fuel s →
    f ∈ s.fields ∨ ∃ s' ∈ api.structs, f ∈ s'.fields
  | 0, s, f, h => Or.inl (by simpa [chainFields] using h)
  | k + 1, s, f, h => by
    simp only [chainFields] at h
    split at h
    · exact Or.inl h
    · split at h
      · rename_i p ps hps
        rcases List.mem_append.mp h with h | h
        · rcases chainFields_mem api k ps f h with h' | h'
          · exact Or.inr ⟨ps, (findStruct_some hps).1, h'⟩
          · exact Or.inr h'
        · exact Or.inl h
      · exact Or.inl h

theorem mem_unions {api : Api} {u : UnionD} (h : u ∈ api.unions) :
    ∃ n ∈ api.namespaces, DataType.union u ∈ n.dataTypes := by
  simp only [Api.unions, List.mem_flatMap] at h
  obtain ⟨n, hn, hu⟩ := h
  exact ⟨n, hn, mem_ns_unions.mp hu⟩

theorem findUnion_some {api : Api} {q : QName} {u : UnionD} (h : findUnion api q = some u) :
    u ∈ api.unions ∧ u.q = q := by
  unfold findUnion at h
  exact ⟨List.mem_of_find?_eq_some h, by simpa using List.find?_some h⟩

theorem unionAllTags_mem (api : Api) : ∀ (fuel : Nat) (u : UnionD) (t : TagD), t ∈ unionAllTags api fuel u →
    t ∈ u.tags ∨ ∃ u' ∈ api.unions, t ∈ u'.tags
  | 0, u, t, h => Or.inl (by simpa [unionAllTags] using h)
  | k + 1, u, t, h => by
    simp only [unionAllTags] at h
    split at h
    · exact Or.inl h
    · split at h
      · rename_i p pu hpu
        rcases List.mem_append.mp h with h | h
        · rcases unionAllTags_mem api k pu t h with h' | h'
          · exact Or.inr ⟨pu, (findUnion_some hpu).1, h'⟩
          · exact Or.inr h'
        · exact Or.inl h
      · exact Or.inl h

/-- a type expression written somewhere in the API only reaches registered user types -/
theorem userTypes_ok_field {api : Api} (wf : apiWF api = true) {s : StructD} (hs : s ∈ api.structs) {f : FieldD}
    (hf : f ∈ s.fields) : ∀ u ∈ userTypes api f.ty, urefOk api u = true := by
  obtain ⟨n, hn, hd⟩ := mem_structs hs
  exact ((wf_ns wf hn).exprs _ (mem_typeExprs_field hd hf)).1

theorem userTypes_ok_tag {api : Api} (wf : apiWF api = true) {u : UnionD} (hu : u ∈ api.unions) {t : TagD}
    (ht : t ∈ u.tags) : ∀ x ∈ userTypes api t.ty, urefOk api x = true := by
  obtain ⟨n, hn, hd⟩ := mem_unions hu
  exact ((wf_ns wf hn).exprs _ (mem_typeExprs_tag hd ht)).1

theorem jsTypesE_data {opts : Opts} {api : Api} {n : NamespaceD} (hn : n ∈ api.namespaces) {dt : DataType}
    (hdt : dt ∈ n.dataTypes) :
    (match dt with
     | .struct s => jsStructDecl api opts.out s
     | .union u => jsUnionDecl api opts.out u) ∈ jsTypesE opts api := by
  unfold jsTypesE
  refine List.mem_append_right _ (List.mem_flatMap.mpr ⟨n, hn, List.mem_map.mpr ⟨dt, hdt, ?_⟩⟩)
  cases dt <;> rfl

theorem jsStructDecl_name {api : Api} {file : String} {s : StructD} {d : Decl}
    (h : jsStructDecl api file s = .ok d) : d.name = (jsName s.q).name := by
  unfold jsStructDecl at h
  split at h
  · simp at h
  · simp at h; subst h; rfl

theorem jsUnionDecl_name {api : Api} {file : String} {u : UnionD} {d : Decl}
    (h : jsUnionDecl api file u = .ok d) : d.name = (jsName u.q).name := by
  simp only [jsUnionDecl, Except.ok.injEq] at h
  subst h; rfl

/-- every registered struct / union has a typedef in a complete js_types output -/
theorem js_declared {opts : Opts} {api : Api} {ds : List Decl} (h : jsTypes opts api = .ok ds) {q : QName}
    (hq : q ∈ api.dataQNames) : ∃ d ∈ ds, d.name = (jsName q).name := by
  obtain ⟨n, hn, dt, hdt, rfl⟩ := mem_dataQNames hq
  have hm := jsTypesE_data (opts := opts) hn hdt
  cases dt with
  | struct s =>
    simp only at hm
    cases hd : jsStructDecl api opts.out s with
    | error e => rw [hd] at hm; exact absurd hm (no_error_of_seqE h e)
    | ok d => rw [hd] at hm; exact ⟨d, (mem_of_seqE h d).mpr hm, jsStructDecl_name hd⟩
  | union u =>
    simp only at hm
    cases hd : jsUnionDecl api opts.out u with
    | error e => rw [hd] at hm; exact absurd hm (no_error_of_seqE h e)
    | ok d => rw [hd] at hm; exact ⟨d, (mem_of_seqE h d).mpr hm, jsUnionDecl_name hd⟩

theorem js_header_declared {opts : Opts} {api : Api} {ds : List Decl} (h : jsTypes opts api = .ok ds) :
    (∃ d ∈ ds, d.name = "Timestamp") ∧ (∃ d ∈ ds, d.name = "UserMessage") := by
  have hm : ∀ d ∈ jsHeader opts.out, d ∈ ds := fun d hd =>
    (mem_of_seqE h d).mpr (List.mem_append_left _ (List.mem_map.mpr ⟨d, hd, rfl⟩))
  exact ⟨⟨_, hm (jsHeader opts.out)[2]! (by simp [jsHeader]), rfl⟩, ⟨_, hm (jsHeader opts.out)[1]! (by simp [jsHeader]), rfl⟩⟩

/-- a JSDoc type expression whose printable user types are registered resolves in a complete js_types output -/
theorem js_resolve_fmt {opts : Opts} {api : Api} {ds : List Decl} (h : jsTypes opts api = .ok ds) (t : IrTy)
    (hp : ∀ u ∈ printed api t, urefOk api u = true) (tp : List String) :
    ∀ r ∈ (jsFmtType api t).refs, resolvesJs ds tp r := by
  intro r hr
  obtain ⟨h1, h2 | h2 | ⟨q, hq, rfl⟩⟩ := js_refs api t r hr
  · exact ⟨h1, Or.inl h2⟩
  · obtain ⟨d, hd, hn⟩ := (js_header_declared h).1
    exact ⟨h1, Or.inr (Or.inr ⟨d, hd, by rw [hn, h2]⟩)⟩
  · have := hp _ hq
    simp only [urefOk, decide_eq_true_eq] at this
    obtain ⟨d, hd, hn⟩ := js_declared h this
    exact ⟨h1, Or.inr (Or.inr ⟨d, hd, hn⟩)⟩

/-- every reference of every typedef of a js_types output resolves -/
theorem js_types_resolves {opts : Opts} {api : Api} {ds : List Decl} (wf : apiWF api = true)
    (h : jsTypes opts api = .ok ds) : ∀ d ∈ ds, ∀ r ∈ d.refs, resolvesJs ds d.tparams r := by
  intro d hd r hr
  have hE : Except.ok d ∈ jsTypesE opts api := (mem_of_seqE h d).mp hd
  unfold jsTypesE at hE
  rcases List.mem_append.mp hE with hE | hE
  · obtain ⟨d', hd', hEq⟩ := List.mem_map.mp hE
    simp at hEq; subst hEq
    simp only [jsHeader, List.mem_cons, List.mem_nil_iff, or_false] at hd'
    rcases hd' with rfl | rfl | rfl
    · simp [Decl.refs, TExpr.refs, bare] at hr
      rcases hr with rfl | rfl | rfl | rfl
      · exact ⟨rfl, Or.inl (by decide)⟩
      · exact ⟨rfl, Or.inr (Or.inl (by simp))⟩
      · obtain ⟨d, hd, hn⟩ := (js_header_declared h).2
        exact ⟨rfl, Or.inr (Or.inr ⟨d, hd, hn⟩)⟩
      · exact ⟨rfl, Or.inl (by decide)⟩
    · simp [Decl.refs, TExpr.refs, bare] at hr
      rcases hr with rfl | rfl
      · exact ⟨rfl, Or.inl (by decide)⟩
      · exact ⟨rfl, Or.inl (by decide)⟩
    · simp [Decl.refs, TExpr.refs, bare] at hr
      subst hr
      exact ⟨rfl, Or.inl (by decide)⟩
  · obtain ⟨n, hn, hE⟩ := List.mem_flatMap.mp hE
    obtain ⟨dt, hdt, hEq⟩ := List.mem_map.mp hE
    cases dt with
    | struct s =>
      simp only at hEq
      unfold jsStructDecl at hEq
      split at hEq
      · simp at hEq
      · rename_i tag htag
        simp at hEq; subst hEq
        simp only [Decl.refs, List.mem_append, List.mem_flatMap, List.mem_map, Option.mem_toList] at hr
        rcases hr with (hr | ⟨m, hm, hr⟩) | hr
        · simp at hr
        · rcases hm with hm | ⟨f, hf, rfl⟩
          · cases tag with
            | none => simp at hm
            | some tg =>
              simp at hm; subst hm
              have : tagMember api s = .ok (some tg) := htag
              simp [tagMember_lits this] at hr
          · refine js_resolve_fmt h _ ?_ _ r hr
            intro u hu
            have hu' := printed_unwrapAll_sub api f.ty u hu
            have hfc : f ∈ chainFields api (api.structs.length + 1) s := by
              simp only [structAllFields, List.mem_append, List.mem_filter] at hf
              rcases hf with hf | hf <;> exact hf.1
            have hs : s ∈ api.structs :=
              List.mem_flatMap.mpr ⟨n, hn, mem_ns_structs.mpr hdt⟩
            rcases chainFields_mem api _ s f hfc with h' | ⟨s', hs', h'⟩
            · exact userTypes_ok_field wf hs h' u hu'
            · exact userTypes_ok_field wf hs' h' u hu'
        · simp [TExpr.refs, bare] at hr
          subst hr
          exact ⟨rfl, Or.inl (by decide)⟩
    | union u =>
      simp only [jsUnionDecl, Except.ok.injEq] at hEq
      subst hEq
      simp only [Decl.refs, List.mem_append, List.mem_flatMap, List.mem_filterMap] at hr
      rcases hr with (hr | ⟨m, hm, hr⟩) | hr
      · simp at hr
      · rcases hm with ⟨t, ht, hm⟩ | hm
        · split at hm
          · simp at hm
          · simp at hm; subst hm
            refine js_resolve_fmt h _ ?_ _ r hr
            intro x hx
            have hx' := printed_unwrapAll_sub api t.ty x hx
            have hu : u ∈ api.unions := List.mem_flatMap.mpr ⟨n, hn, mem_ns_unions.mpr hdt⟩
            rcases unionAllTags_mem api _ u t ht with h' | ⟨u', hu', h'⟩
            · exact userTypes_ok_tag wf hu h' x hx'
            · exact userTypes_ok_tag wf hu' h' x hx'
        · -- the `.tag` property (absent for a union without tags) mentions no name
          split at hm
          · simp at hm
          · simp at hm; subst hm; simp [TExpr.refs] at hr
      · simp [TExpr.refs, bare] at hr
        subst hr
        exact ⟨rfl, Or.inl (by decide)⟩


/-! ## tsd_types: the names declared in a namespace body are `tsdNames` -/

def okName : Except String Decl → Option String
  | .ok d => some d.name
  | .error _ => none

theorem inTree_of_tagMember {api : Api} {s : StructD} {tag : Member} (h : tagMember api s = .ok (some tag)) :
    inTree api s = true := by
  simp only [tagMember] at h
  unfold inTree
  split at h
  · rename_i hs; simp [hs]
  · rename_i hs
    split at h
    · rename_i p hp
      split at h
      · rename_i he
        split at h
        · rename_i tg htg
          simp [hp, he, htg]
        · simp at h
      · simp at h
    · simp at h

theorem structDecls_names (api : Api) (file : String) (s : StructD) (h : ∀ e, tagMember api s ≠ .error e) :
    (tsdStructDecls api file s).filterMap okName
      = s.q.name :: (if inTree api s then [(tsdRefName (some s.q.ns) s.q).name] else []) := by
  cases htm : tagMember api s with
  | error e => exact absurd htm (h e)
  | ok o =>
    cases o with
    | none =>
      have : inTree api s = false := by
        cases hi : inTree api s with
        | false => rfl
        | true => exact absurd htm (tagMember_of_inTree hi)
      simp [tsdStructDecls, htm, okName, this]
    | some tag =>
      simp [tsdStructDecls, htm, okName, inTree_of_tagMember htm]

theorem unionDecls_names (api : Api) (file : String) (u : UnionD) :
    ((tsdUnionDecls api file u).map Except.ok).filterMap okName = u.tags.map (variantName u) ++ [u.q.name] := by
  simp [tsdUnionDecls, List.filterMap_map, List.filterMap_append, Function.comp_def, okName]

theorem dataDecls_names (opts : Opts) (api : Api) (n : NamespaceD) : ∀ (l : List DataType),
    (∀ s, DataType.struct s ∈ l → ∀ e, tagMember api s ≠ .error e) →
    (l.flatMap (tsdDataE api (fileOf opts n.name))).filterMap okName = l.flatMap (tsdDataNames api)
  | [], _ => rfl
  | dt :: rest, h => by
    simp only [List.flatMap_cons, List.filterMap_append]
    rw [dataDecls_names opts api n rest (fun s hs => h s (List.mem_cons_of_mem _ hs))]
    cases dt with
    | struct s => simp only [tsdDataE, tsdDataNames]; rw [structDecls_names api _ s (h s List.mem_cons_self)]
    | union u => simp only [tsdDataE, tsdDataNames]; rw [unionDecls_names]

theorem nsE_names {opts : Opts} {api : Api} {n : NamespaceD} (ht : hasTypes n = true)
    (hok : ∀ s, DataType.struct s ∈ n.dataTypes → ∀ e, tagMember api s ≠ .error e) :
    (tsdNamespaceE opts api n).filterMap okName = tsdNames opts api n := by
  unfold tsdNamespaceE tsdNames
  simp only [ht, Bool.not_true, Bool.false_eq_true, if_false, List.filterMap_append]
  rw [dataDecls_names opts api n n.dataTypes hok]
  congr 1
  · congr 1
    simp [List.filterMap_map, Function.comp_def, okName, tsdAliasDecl]
  · split <;> simp [okName, tsdTimestamp]

theorem nsE_scope {opts : Opts} {api : Api} {n : NamespaceD} (nf : NsFacts api n) {d : Decl}
    (h : Except.ok d ∈ tsdNamespaceE opts api n) : d.scope = some n.name ∧ d.file = fileOf opts n.name := by
  rcases nsE_cases h with ⟨s, hs, he⟩ | ⟨u, hu, d', hd', hEq⟩ | ⟨a, ha, hEq⟩ | ⟨hf, hEq⟩
  · have hh : s.q.ns = n.name := nf.homeData _ hs
    simp only [tsdStructDecls, List.mem_cons] at he
    rcases he with he | he
    · simp at he; subst he; exact ⟨by simp [hh], rfl⟩
    · split at he
      · simp at he
      · simp at he
      · simp at he; subst he; exact ⟨by simp [hh], rfl⟩
  · simp at hEq; subst hEq
    have hh : u.q.ns = n.name := nf.homeData _ hu
    simp only [tsdUnionDecls, List.mem_append, List.mem_map, List.mem_singleton] at hd'
    rcases hd' with ⟨t, _, rfl⟩ | rfl <;> exact ⟨by simp [hh], rfl⟩
  · simp at hEq; subst hEq
    exact ⟨by simp [tsdAliasDecl, nf.homeAlias _ ha], rfl⟩
  · simp at hEq; subst hEq; exact ⟨rfl, rfl⟩


/-! ## tsd_types: exactly once -/

theorem sum_zero {α : Type} (l : List α) (h : α → Nat) (hz : ∀ b ∈ l, h b = 0) : (l.map h).sum = 0 := by
  induction l with
  | nil => rfl
  | cons x xs ih =>
    simp only [List.map_cons, List.sum_cons]
    rw [hz x List.mem_cons_self, ih (fun b hb => hz b (List.mem_cons_of_mem _ hb))]

theorem sum_single {α : Type} (key : α → String) (h : α → Nat) : ∀ (l : List α), (l.map key).Nodup → ∀ a ∈ l,
    (∀ b ∈ l, key b ≠ key a → h b = 0) → (l.map h).sum = h a
  | [], _, a, ha, _ => by simp at ha
  | x :: xs, hnd, a, ha, hz => by
    simp only [List.map_cons, List.nodup_cons, List.mem_map, not_exists, not_and] at hnd
    simp only [List.map_cons, List.sum_cons]
    rcases List.mem_cons.mp ha with rfl | ha'
    · rw [sum_zero xs h (fun b hb => hz b (List.mem_cons_of_mem _ hb) (fun he => hnd.1 b hb he))]
      simp
    · have hx : key x ≠ key a := fun he => hnd.1 a ha' he.symm
      rw [hz x List.mem_cons_self hx, sum_single key h xs hnd.2 a ha' (fun b hb => hz b (List.mem_cons_of_mem _ hb))]
      simp

/-- the declaration is named `x` and sits in namespace `ns` -/
def hit (ns x : String) (d : Decl) : Bool := decide (d.scope = some ns ∧ d.name = x)

def hitE (ns x : String) : Except String Decl → Bool
  | .ok d => hit ns x d
  | .error _ => false

def isName (x : String) (e : Except String Decl) : Bool := okName e == some x

theorem isName_error (x e : String) : isName x (.error e) = false := rfl
theorem isName_ok (x : String) (d : Decl) : isName x (.ok d) = (d.name == x) := by
  simp [isName, okName]

theorem countP_okName (x : String) : ∀ (l : List (Except String Decl)),
    l.countP (isName x) = (l.filterMap okName).count x
  | [] => rfl
  | .error e :: rest => by
    rw [List.countP_cons, isName_error, countP_okName x rest]
    have : List.filterMap okName (Except.error e :: rest) = List.filterMap okName rest := by
      rw [List.filterMap_cons]; rfl
    rw [this]; simp
  | .ok d :: rest => by
    rw [List.countP_cons, isName_ok, countP_okName x rest]
    have : List.filterMap okName (Except.ok d :: rest) = d.name :: List.filterMap okName rest := by
      rw [List.filterMap_cons]; rfl
    rw [this, List.count_cons]

theorem count_body {opts : Opts} {api : Api} {n : NamespaceD} (nf : NsFacts api n) (ht : hasTypes n = true)
    (hok : ∀ s, DataType.struct s ∈ n.dataTypes → ∀ e, tagMember api s ≠ .error e)
    (hinj : (tsdNames opts api n).Nodup) {x : String} (hx : x ∈ tsdNames opts api n) :
    (tsdNamespaceE opts api n).countP (hitE n.name x) = 1 := by
  have hcongr : (tsdNamespaceE opts api n).countP (hitE n.name x)
      = (tsdNamespaceE opts api n).countP (isName x) := by
    apply List.countP_congr
    intro e he
    cases e with
    | error _ => simp [hitE, isName_error]
    | ok d =>
      have := (nsE_scope nf he).1
      simp [hitE, hit, isName_ok, this]
  rw [hcongr, countP_okName, nsE_names ht hok, List.Nodup.count hinj]
  simp [hx]

theorem count_other_body {opts : Opts} {api : Api} {n b : NamespaceD} (nfb : NsFacts api b)
    (hne : b.name ≠ n.name) (x : String) : (tsdNamespaceE opts api b).countP (hitE n.name x) = 0 := by
  apply List.countP_eq_zero.mpr
  intro e he
  cases e with
  | error _ => simp [hitE]
  | ok d =>
    have := (nsE_scope nfb he).1
    simp [hitE, hit, this, hne]

theorem count_head (opts : Opts) (file ns x : String) :
    ((tsdFileHead opts file).map Except.ok).countP (hitE ns x) = 0 := by
  apply List.countP_eq_zero.mpr
  intro e he
  obtain ⟨d, hd, rfl⟩ := List.mem_map.mp he
  have : d.scope = none := by
    unfold tsdFileHead at hd
    rcases List.mem_append.mp hd with h | h
    · split at h
      · simp at h
      · simp only [tsdHeader, List.mem_cons, List.mem_nil_iff, or_false] at h
        rcases h with rfl | rfl <;> rfl
    · split at h
      · simp at h; subst h; rfl
      · simp at h
  simp [hitE, hit, this]

/-- every name tsd_types generates for a namespace (`tsdNames`: its structs, unions, aliases, their `...Reference`
and variant interfaces) is declared exactly once in that namespace, in the whole output -/
theorem tsd_count_one {opts : Opts} {api : Api} {out : TypesOut} (c : Ctx opts api out)
    (hinj : tsdNamesInjective opts api) {n : NamespaceD} (hn : n ∈ api.namespaces) (ht : hasTypes n = true)
    {x : String} (hx : x ∈ tsdNames opts api n) : out.decls.countP (hit n.name x) = 1 := by
  have hE : out.decls.countP (hit n.name x) = (tsdTypesE opts api).countP (hitE n.name x) := by
    rw [seqE_ok c.hseq, List.countP_map]
    rfl
  rw [hE]
  have nf := wf_ns c.wf hn
  have hok : ∀ s, DataType.struct s ∈ n.dataTypes → ∀ e, tagMember api s ≠ .error e := by
    intro s hs e htm
    have : Except.error e ∈ tsdStructDecls api (fileOf opts n.name) s := by
      simp only [tsdStructDecls, htm]; simp
    exact no_error_of_seqE c.hseq e (mem_E_of_ns hn ht (mem_nsE_struct ht hs this))
  have hbody := count_body nf ht hok (hinj n hn) hx
  have hnd := wf_nodup c.wf
  unfold tsdTypesE
  cases hf : opts.filename with
  | some f =>
    simp only
    have : ¬ (api.namespaces.all (fun n => !hasTypes n)) = true := by
      intro hall
      have := List.all_eq_true.mp hall n hn
      simp [ht] at this
    simp only [this, if_false, Bool.false_eq_true, List.countP_append, count_head, Nat.zero_add,
      List.countP_flatMap]
    rw [sum_single (·.name) _ api.namespaces hnd n hn]
    · exact hbody
    · intro b hb hne
      exact count_other_body (wf_ns c.wf hb) hne x
  | none =>
    simp only [List.countP_flatMap]
    rw [sum_single (·.name) _ api.namespaces hnd n hn]
    · simp only [Function.comp, ht, Bool.not_true, Bool.false_eq_true, if_false, List.countP_append, count_head,
        Nat.zero_add]
      exact hbody
    · intro b hb hne
      simp only [Function.comp]
      split
      · rfl
      · simp only [List.countP_append, count_head, Nat.zero_add]
        exact count_other_body (wf_ns c.wf hb) hne x

theorem mem_tsdNames_data {opts : Opts} {api : Api} {n : NamespaceD} {dt : DataType} (h : dt ∈ n.dataTypes) :
    dt.q.name ∈ tsdNames opts api n := by
  unfold tsdNames
  refine List.mem_append_left _ (List.mem_append_left _ (List.mem_flatMap.mpr ⟨dt, h, ?_⟩))
  cases dt <;> simp [tsdDataNames, DataType.q]

theorem mem_tsdNames_alias {opts : Opts} {api : Api} {n : NamespaceD} {a : AliasD} (h : a ∈ n.aliases) :
    a.q.name ∈ tsdNames opts api n := by
  unfold tsdNames
  exact List.mem_append_left _ (List.mem_append_right _ (List.mem_map.mpr ⟨a, h, rfl⟩))


/-! ## js_types: the names of the typedefs are `jsNamesList` -/

theorem filterMap_eq_map_of {α β : Type} (h : α → Option β) (f : α → β) : ∀ (l : List α),
    (∀ a ∈ l, h a = some (f a)) → l.filterMap h = l.map f
  | [], _ => rfl
  | x :: xs, hx => by
    rw [List.filterMap_cons, hx x List.mem_cons_self, List.map_cons,
      filterMap_eq_map_of h f xs (fun a ha => hx a (List.mem_cons_of_mem _ ha))]

theorem filterMap_flatMap_of {α β γ : Type} (h : β → Option γ) (G : α → List β) (F : α → List γ) : ∀ (l : List α),
    (∀ a ∈ l, (G a).filterMap h = F a) → (l.flatMap G).filterMap h = l.flatMap F
  | [], _ => rfl
  | x :: xs, hx => by
    rw [List.flatMap_cons, List.filterMap_append, hx x List.mem_cons_self, List.flatMap_cons,
      filterMap_flatMap_of h G F xs (fun a ha => hx a (List.mem_cons_of_mem _ ha))]

theorem filterMap_okName_map_ok (ds : List Decl) : (ds.map Except.ok).filterMap okName = ds.map (·.name) := by
  rw [List.filterMap_map]
  exact filterMap_eq_map_of _ _ ds (fun _ _ => rfl)

def jsDataE (opts : Opts) (api : Api) : DataType → Except String Decl
  | .struct s => jsStructDecl api opts.out s
  | .union u => jsUnionDecl api opts.out u

theorem jsTypesE_eq (opts : Opts) (api : Api) :
    jsTypesE opts api = (jsHeader opts.out).map .ok ++ api.namespaces.flatMap fun n => n.dataTypes.map (jsDataE opts api) := by
  unfold jsTypesE
  congr 1

theorem js_names_eq {opts : Opts} {api : Api} {ds : List Decl} (h : jsTypes opts api = .ok ds) :
    ds.map (·.name) = jsNamesList api := by
  have hE := seqE_ok h
  rw [← filterMap_okName_map_ok, ← hE, jsTypesE_eq, List.filterMap_append, filterMap_okName_map_ok]
  unfold jsNamesList
  congr 1
  apply filterMap_flatMap_of
  intro n hn
  rw [List.filterMap_map]
  apply filterMap_eq_map_of
  intro dt hdt
  have hm : jsDataE opts api dt ∈ jsTypesE opts api := by
    rw [jsTypesE_eq]
    exact List.mem_append_right _ (List.mem_flatMap.mpr ⟨n, hn, List.mem_map.mpr ⟨dt, hdt, rfl⟩⟩)
  simp only [Function.comp]
  cases hd : jsDataE opts api dt with
  | error e => rw [hd] at hm; exact absurd hm (no_error_of_seqE h e)
  | ok d =>
    simp only [okName]
    cases dt with
    | struct s => exact congrArg some (jsStructDecl_name hd)
    | union u => exact congrArg some (jsUnionDecl_name hd)

end StoneVerif.DeclJs
