import StoneVerif.Lemmas.GraphFinal
/-! Completeness of the walk: what it marks (plus the routes it knows of) is closed under the
dependency relation, under the side conditions that name the edges the code does not follow. -/
namespace StoneVerif.Graph

/-! ## the shape of one invocation -/

theorem expand_node_type {g : Graph} (hda : docsAgree g = true) {a : Id} {nd : Node} (hnd : g.node? a = some nd)
    (ht : nd.isType = true) {kids : List Item} (he : expand g (.node a) = .ok kids) :
    kids = nd.fields.map (fun f => Item.field a f nd.ns)
      ++ (nd.parent.toList ++ (specDocs g nd.ns nd.docRefs).1 ++ (specDocs g nd.ns nd.docRefs).2
          ++ (if nd.kind == .struct then nd.subtypes else [])).map .node := by
  have hdocs := docsAgree_node hda hnd
  simp only [expand, hnd, hdocs] at he
  rcases kind_cases nd with h | h | h
  · split at he
    · rename_i hk; simp [Node.isRoute, hk] at h
    · rename_i hk; simp [Node.isAlias, hk] at h
    · simp only [Except.ok.injEq] at he
      exact he.symm
  · simp [ht] at h
  · simp [ht] at h

theorem expand_node_alias {g : Graph} (hda : docsAgree g = true) {a : Id} {nd : Node} (hnd : g.node? a = some nd)
    (hk : nd.kind = .alias) {kids : List Item} (he : expand g (.node a) = .ok kids) :
    kids = (nd.target.refs ++ (specDocs g nd.ns nd.docRefs).1 ++ (specDocs g nd.ns nd.docRefs).2).map .node := by
  have hdocs := docsAgree_node hda hnd
  simp only [expand, hnd, hk, hdocs, Except.ok.injEq] at he
  exact he.symm

theorem expand_node_route {g : Graph} (hda : docsAgree g = true) {a : Id} {nd : Node} (hnd : g.node? a = some nd)
    (hk : nd.kind = .route) {kids : List Item} (he : expand g (.node a) = .ok kids) :
    kids = (nd.arg.refs ++ nd.result.refs ++ nd.error.refs ++ (specDocs g nd.ns nd.docRefs).1
      ++ (specDocs g nd.ns nd.docRefs).2).map .node := by
  have hdocs := docsAgree_node hda hnd
  simp only [expand, hnd, hk, hdocs, Except.ok.injEq] at he
  exact he.symm

theorem expand_node_some {g : Graph} {a : Id} {kids : List Item}
    (he : expand g (.node a) = .ok kids) : ∃ nd, g.node? a = some nd := by
  simp only [expand] at he
  split at he
  · simp at he
  · rename_i nd hnd
    exact ⟨nd, hnd⟩

theorem expand_field_eq {g : Graph} {o : Id} {f : Field} {ctx ns : String}
    (hparse : parseDocs g ctx f.docRefs = .ok (specDocs g ns f.docRefs)) {kids : List Item}
    (he : expand g (.field o f ctx) = .ok kids) :
    kids = (f.ty.refs ++ (specDocs g ns f.docRefs).1 ++ (specDocs g ns f.docRefs).2).map .node := by
  simp only [expand, hparse, Except.ok.injEq] at he
  exact he.symm

/-! ## what a finished walk knows -/

theorem covered_nil {seen : List Item} {k : Item} : Covered seen [] k ↔ k ∈ seen := by
  simp [Covered]

theorem key_node {it : Item} {a : Id} (h : it.key = .node a) : it = .node a := by
  cases it with
  | node i => simpa [Item.key] using h
  | field o f ctx => simp [Item.key] at h

theorem key_field {it : Item} {o : Id} {f : Field} (h : it.key = .field o f "") : ∃ ctx, it = .field o f ctx := by
  cases it with
  | node i => simp [Item.key] at h
  | field o' f' ctx =>
    simp only [Item.key, Item.field.injEq] at h
    exact ⟨ctx, by rw [h.1, h.2.1]⟩

/-- a marked node: its invocation succeeded and everything it called is marked -/
theorem seen_node {g : Graph} {stack0 : List Item} {st : St} (hinv : Inv g stack0 [] st) {a : Id}
    (ha : Item.node a ∈ st.seen) :
    ∃ kids, expand g (.node a) = .ok kids ∧ (∀ c ∈ kids, c.key ∈ st.seen) := by
  obtain ⟨it, kids, h1, _, h3, h4⟩ := hinv.done _ ha
  rw [key_node h1] at h3
  exact ⟨kids, h3, fun c hc => covered_nil.1 (h4 c hc)⟩

/-- a marked node `b` among the calls `l.map .node` of a finished invocation -/
theorem kid_seen {st : St} {kids : List Item} (hk : ∀ c ∈ kids, c.key ∈ st.seen) {b : Id}
    (hb : Item.node b ∈ kids) : Item.node b ∈ st.seen := by
  simpa [Item.key] using hk (.node b) hb

/-- a marked field: the references of its type and what its doc refers to are marked -/
theorem seen_field {g : Graph} {stack0 : List Item} {st : St} (hinv : Inv g stack0 [] st) {o : Id} {f : Field}
    (hf : Item.field o f "" ∈ st.seen) :
    ∃ no, g.node? o = some no ∧ f ∈ no.fields ∧ (∀ b ∈ f.ty.refs, Item.node b ∈ st.seen) ∧
      (∀ b ∈ docTargets g no.ns f.docRefs, Item.node b ∈ st.seen) := by
  obtain ⟨it, kids, h1, h2, h3, h4⟩ := hinv.done _ hf
  obtain ⟨ctx, rfl⟩ := key_field h1
  simp only [ItemOk] at h2
  obtain ⟨_, no, hno, hfm, hparse⟩ := h2
  have hk := expand_field_eq hparse h3
  subst hk
  have hk : ∀ c ∈ (f.ty.refs ++ (specDocs g no.ns f.docRefs).1 ++ (specDocs g no.ns f.docRefs).2).map Item.node,
      c.key ∈ st.seen := fun c hc => covered_nil.1 (h4 c hc)
  refine ⟨no, hno, hfm, ?_, ?_⟩
  · intro b hb
    exact kid_seen hk (by simp only [List.mem_map, List.mem_append]; exact ⟨b, Or.inl (Or.inl hb), rfl⟩)
  · intro b hb
    rcases mem_docTargets_split hb with h | h
    · exact kid_seen hk (by simp only [List.mem_map, List.mem_append]; exact ⟨b, Or.inl (Or.inr h), rfl⟩)
    · exact kid_seen hk (by simp only [List.mem_map, List.mem_append]; exact ⟨b, Or.inr h, rfl⟩)

/-! ## closedness -/

/-- what the finished walk accounts for: marked nodes, and the whitelisted routes -/
def Known (g : Graph) (wl : Whitelist) (st : St) (i : Id) : Prop :=
  Item.node i ∈ st.seen ∨ i ∈ wlAllRouteIds g wl

theorem unwrapsTo_closed {g : Graph} {T : Id → Prop}
    (halias : ∀ a n b, T a → g.node? a = some n → n.isAlias = true → b ∈ n.target.refs → T b)
    {fuel : Nat} {e : TyExpr} {u : Id} (h : unwrapsTo g fuel e = some u) (he : ∀ b ∈ e.refs, T b) : T u := by
  induction fuel generalizing e with
  | zero => simp [unwrapsTo] at h
  | succ fuel ih =>
    cases e with
    | prim => simp [unwrapsTo] at h
    | list t => simp [unwrapsTo] at h
    | map k v => simp [unwrapsTo] at h
    | nullable t =>
      simp only [unwrapsTo] at h
      exact ih h (by simpa [TyExpr.refs] using he)
    | ref a =>
      simp only [unwrapsTo] at h
      have hTa : T a := he a (by simp [TyExpr.refs])
      split at h
      · rename_i nd hnd
        split at h
        · rename_i hal
          exact ih h (fun b hb => halias a nd b hTa hnd hal hb)
        · split at h
          · have : a = u := by simpa using h
            subst this; exact hTa
          · simp at h
      · simp at h

structure FilterRun (g : Graph) (wl : Whitelist) (st : St) (start wlRoutes : List Id) : Prop where
  inv : Inv g (start.map .node) [] st
  wlr : wlRoutes = wlAllRouteIds g wl
  /-- the starting points, at specification level -/
  startNs : ∀ p ∈ wl.routes ++ wl.datatypes, ∀ b ∈ nsStart g p.1, b ∈ start
  nsOk : ∀ p ∈ wl.routes ++ wl.datatypes, ∃ n, g.ns? p.1 = some n
  startWl : ∀ p ∈ wl.routes, ∀ r ∈ wlRouteIds g p.1 p.2, ∀ b, (b ∈ ioOf g r ∨ b ∈ docStart g p.1 (docsOf g r)) → b ∈ start
  startTy : ∀ p ∈ wl.datatypes, ∀ b ∈ p.2.flatMap (fun t => (g.typeByName p.1 t).toList), b ∈ start

theorem filterRun_of_ok {g : Graph} (hwf : g.refsOk = true) (hda : docsAgree g = true) {wl : Whitelist}
    {r : Filtered} (h : whitelistFilter g wl = .ok r) :
    ∃ st wlRoutes, FilterRun g wl st r.start wlRoutes ∧ r.types = st.types ∧
      r.routes = addAll [] (wlRoutes ++ st.routes) ∧ r.seen = st.seen ∧
      filterAliases g st.types (g.dfsFuel 0) g.allAliases = .ok r.aliases := by
  obtain ⟨canon, rs, ds, st, hc, hr, hd, hst, e1, e2, e3, e4, e5⟩ := whitelistFilter_ok h
  obtain ⟨i1, i2, i3⟩ := routeWhitelistSeeds_spec hwf hda hc hr
  obtain ⟨d1, d2⟩ := datatypeWhitelistSeeds_spec hda hd
  have hinv0 : Inv g ((startOf rs ds).map .node) ((startOf rs ds).map .node) {} := by
    refine ⟨?_, ?_, ?_, ?_, ?_⟩
    · intro it hit
      simp only [List.mem_map] at hit
      obtain ⟨b, _, rfl⟩ := hit
      trivial
    · intro k hk; cases hk
    · intro i; simp
    · intro i; simp
    · intro it hit
      refine Or.inr ?_
      simp only [List.mem_map] at hit ⊢
      obtain ⟨b, hb, rfl⟩ := hit
      exact ⟨.node b, ⟨b, hb, rfl⟩, rfl⟩
  have hinv := inv_final hwf hda hst hinv0
  refine ⟨st, rs.ids, ⟨?_, ?_, ?_, ?_, ?_, ?_⟩, e1, e2, e4, e3⟩
  · rw [e5]; exact hinv
  · rw [i1]; rfl
  · intro p hp b hb
    rw [e5]
    rcases List.mem_append.1 hp with hp | hp
    · exact mem_startOf.2 (Or.inl ((i3 b).2 ⟨p, hp, Or.inl hb⟩))
    · exact mem_startOf.2 (Or.inr ((d2 b).2 ⟨p, hp, Or.inl hb⟩))
  · intro p hp
    rcases List.mem_append.1 hp with hp | hp
    · exact i2 p hp
    · exact d1 p hp
  · intro p hp r hr b hb
    rw [e5]
    exact mem_startOf.2 (Or.inl ((i3 b).2 ⟨p, hp, Or.inr ⟨r, hr, hb⟩⟩))
  · intro p hp b hb
    rw [e5]
    exact mem_startOf.2 (Or.inr ((d2 b).2 ⟨p, hp, Or.inr hb⟩))

theorem start_seen {g : Graph} {wl : Whitelist} {st : St} {start wlRoutes : List Id}
    (hrun : FilterRun g wl st start wlRoutes) {b : Id} (hb : b ∈ start) : Item.node b ∈ st.seen := by
  have := covered_nil.1 (hrun.inv.init (.node b) (List.mem_map_of_mem hb))
  simpa [Item.key] using this

/-- a whitelisted route is a route node -/
theorem wl_route_kind {g : Graph} (hwf : g.refsOk = true) {wl : Whitelist} {a : Id}
    (ha : a ∈ wlAllRouteIds g wl) : ∃ p ∈ wl.routes, a ∈ wlRouteIds g p.1 p.2 ∧
      ∃ nd, g.node? a = some nd ∧ nd.kind = .route ∧ nd.ns = p.1 := by
  simp only [wlAllRouteIds, List.mem_flatMap] at ha
  obtain ⟨p, hp, hr⟩ := ha
  obtain ⟨nd, hnd, hk, hns⟩ := wlRouteIds_route hwf hr
  have hkind : nd.kind = .route := by
    rcases kind_cases nd with h | h | h
    · simp [hk] at h
    · simp [hk] at h
    · exact h.2.2.2
  exact ⟨p, hp, hr, nd, hnd, hkind, hns⟩

/-- a marked alias: its target is marked -/
theorem known_alias {g : Graph} (hwf : g.refsOk = true) (hda : docsAgree g = true) {wl : Whitelist} {st : St}
    {start wlRoutes : List Id} (hrun : FilterRun g wl st start wlRoutes) :
    ∀ a n b, Known g wl st a → g.node? a = some n → n.isAlias = true → b ∈ n.target.refs → Known g wl st b := by
  intro a n b ha hn hal hb
  rcases ha with ha | ha
  · obtain ⟨kids, he, hk⟩ := seen_node hrun.inv ha
    have hkind : n.kind = .alias := by
      rcases kind_cases n with h | h | h
      · simp [hal] at h
      · exact h.2.2.2
      · simp [hal] at h
    have hkids := expand_node_alias hda hn hkind he
    subst hkids
    exact Or.inl (kid_seen hk (by simp only [List.mem_map, List.mem_append]; exact ⟨b, Or.inl (Or.inl hb), rfl⟩))
  · obtain ⟨p, _, _, nd, hnd, hkr, _⟩ := wl_route_kind hwf ha
    rw [hn] at hnd
    cases hnd
    simp [Node.isAlias, hkr] at hal

/-- what the doc of a marked node refers to is marked -/
theorem known_docs_seen {g : Graph} (hda : docsAgree g = true) {wl : Whitelist} {st : St}
    {start wlRoutes : List Id} (hrun : FilterRun g wl st start wlRoutes) :
    ∀ a n, Item.node a ∈ st.seen → g.node? a = some n →
      ∀ b ∈ docTargets g n.ns n.docRefs, Item.node b ∈ st.seen := by
  intro a n ha hn b hb
  obtain ⟨kids, he, hk⟩ := seen_node hrun.inv ha
  have hsplit := mem_docTargets_split hb
  rcases kind_cases n with h | h | h
  · have hkids := expand_node_type hda hn h.1 he
    subst hkids
    apply kid_seen hk
    apply List.mem_append_right
    simp only [List.mem_map, List.mem_append]
    rcases hsplit with hb | hb
    · exact ⟨b, Or.inl (Or.inl (Or.inr hb)), rfl⟩
    · exact ⟨b, Or.inl (Or.inr hb), rfl⟩
  · have hkids := expand_node_alias hda hn h.2.2.2 he
    subst hkids
    apply kid_seen hk
    simp only [List.mem_map, List.mem_append]
    rcases hsplit with hb | hb
    · exact ⟨b, Or.inl (Or.inr hb), rfl⟩
    · exact ⟨b, Or.inr hb, rfl⟩
  · have hkids := expand_node_route hda hn h.2.2.2 he
    subst hkids
    apply kid_seen hk
    simp only [List.mem_map, List.mem_append]
    rcases hsplit with hb | hb
    · exact ⟨b, Or.inl (Or.inr hb), rfl⟩
    · exact ⟨b, Or.inr hb, rfl⟩

/-- a marked data type: its fields are marked -/
theorem known_field {g : Graph} (hda : docsAgree g = true) {wl : Whitelist} {st : St}
    {start wlRoutes : List Id} (hrun : FilterRun g wl st start wlRoutes) :
    ∀ a n f, Item.node a ∈ st.seen → g.node? a = some n → n.isType = true → f ∈ n.fields →
      (∀ b ∈ f.ty.refs, Item.node b ∈ st.seen) ∧
      (∀ b ∈ docTargets g n.ns f.docRefs, Item.node b ∈ st.seen) := by
  intro a n f ha hn ht hf
  obtain ⟨kids, he, hk⟩ := seen_node hrun.inv ha
  have hkids := expand_node_type hda hn ht he
  subst hkids
  have := hk (.field a f n.ns) (List.mem_append_left _ (List.mem_map.2 ⟨f, hf, rfl⟩))
  simp only [Item.key] at this
  obtain ⟨no, hno, _, h1, h2⟩ := seen_field hrun.inv this
  rw [hn] at hno; cases hno
  exact ⟨h1, h2⟩

/-- the signature of a route the walk accounts for is marked -/
theorem known_route_io {g : Graph} (hwf : g.refsOk = true) (hda : docsAgree g = true) {wl : Whitelist} {st : St}
    {start wlRoutes : List Id} (hrun : FilterRun g wl st start wlRoutes) {a : Id} {nd : Node}
    (ha : Known g wl st a) (hnd : g.node? a = some nd) (hk : nd.kind = .route) :
    ∀ c ∈ ioOf g a, Item.node c ∈ st.seen := by
  intro c hc
  rcases ha with ha | ha
  · obtain ⟨kids, he, hks⟩ := seen_node hrun.inv ha
    have hkids := expand_node_route hda hnd hk he
    subst hkids
    apply kid_seen hks
    simp only [ioOf, hnd] at hc
    simp only [List.mem_map]
    exact ⟨c, List.mem_append_left _ (List.mem_append_left _ hc), rfl⟩
  · obtain ⟨p, hp, hr, _⟩ := wl_route_kind hwf ha
    exact start_seen hrun (hrun.startWl p hp a hr c (Or.inl hc))

/-- the references an item *holds* (no docs, no tag defaults): what a backend dereferences -/
inductive HardEdge (g : Graph) : Id → Id → Prop where
  | fieldType {a b n f} : g.node? a = some n → n.isType = true → f ∈ n.fields → b ∈ f.ty.refs → HardEdge g a b
  | parent {a b n} : g.node? a = some n → n.isType = true → n.parent = some b → HardEdge g a b
  | subtype {a b n} : g.node? a = some n → n.kind = .struct → b ∈ n.subtypes → HardEdge g a b
  | aliasTarget {a b n} : g.node? a = some n → n.kind = .alias → b ∈ n.target.refs → HardEdge g a b
  | routeArg {a b n} : g.node? a = some n → n.kind = .route → b ∈ n.arg.refs → HardEdge g a b
  | routeResult {a b n} : g.node? a = some n → n.kind = .route → b ∈ n.result.refs → HardEdge g a b
  | routeError {a b n} : g.node? a = some n → n.kind = .route → b ∈ n.error.refs → HardEdge g a b

/-- a whitelisted route is no data type and no alias -/
theorem wl_not_type {g : Graph} (hwf : g.refsOk = true) {wl : Whitelist} {a : Id} {n : Node}
    (ha : a ∈ wlAllRouteIds g wl) (hn : g.node? a = some n) : n.kind = .route := by
  obtain ⟨_, _, _, nd, hnd, hkr, _⟩ := wl_route_kind hwf ha
  rw [hn] at hnd; cases hnd; exact hkr

/-- what the walk accounts for is closed under held references: the target is a marked node -/
theorem known_closed_hard {g : Graph} (hwf : g.refsOk = true) (hda : docsAgree g = true)
    {wl : Whitelist} {st : St} {start wlRoutes : List Id}
    (hrun : FilterRun g wl st start wlRoutes) {a b : Id} (ha : Known g wl st a) (he : HardEdge g a b) :
    Item.node b ∈ st.seen := by
  have hinv := hrun.inv
  -- a route: whitelisted or marked, its signature is marked
  have hroute : ∀ n, g.node? a = some n → n.kind = .route → b ∈ ioOf g a → Item.node b ∈ st.seen :=
    fun n hn hk hb => known_route_io hwf hda hrun ha hn hk b hb
  cases he with
  | routeArg hn hkr hb => exact hroute _ hn hkr (by simp [ioOf, hn, hb])
  | routeResult hn hkr hb => exact hroute _ hn hkr (by simp [ioOf, hn, hb])
  | routeError hn hkr hb => exact hroute _ hn hkr (by simp [ioOf, hn, hb])
  | fieldType hn ht hf hb =>
    rcases ha with ha | ha
    · exact (known_field hda hrun a _ _ ha hn ht hf).1 b hb
    · have := wl_not_type hwf ha hn
      simp [Node.isType, this] at ht
  | parent hn ht hp =>
    rcases ha with ha | ha
    · obtain ⟨kids, hex, hk⟩ := seen_node hinv ha
      have hkids := expand_node_type hda hn ht hex
      subst hkids
      apply kid_seen hk
      apply List.mem_append_right
      simp only [List.mem_map, List.mem_append]
      exact ⟨b, Or.inl (Or.inl (Or.inl (by simp [hp]))), rfl⟩
    · have := wl_not_type hwf ha hn
      simp [Node.isType, this] at ht
  | subtype hn hks hb =>
    rename_i n
    rcases ha with ha | ha
    · have ht : n.isType = true := by simp [Node.isType, hks]
      obtain ⟨kids, hex, hk⟩ := seen_node hinv ha
      have hkids := expand_node_type hda hn ht hex
      subst hkids
      apply kid_seen hk
      apply List.mem_append_right
      simp only [List.mem_map, List.mem_append]
      exact ⟨b, Or.inr (by simp [hks, hb]), rfl⟩
    · have := wl_not_type hwf ha hn
      simp [this] at hks
  | aliasTarget hn hka hb =>
    rcases ha with ha | ha
    · obtain ⟨kids, hex, hk⟩ := seen_node hinv ha
      have hkids := expand_node_alias hda hn hka hex
      subst hkids
      apply kid_seen hk
      simp only [List.mem_map, List.mem_append]
      exact ⟨b, Or.inl (Or.inl hb), rfl⟩
    · have := wl_not_type hwf ha hn
      simp [this] at hka

/-- COMPLETENESS: what the finished walk accounts for is closed under the dependency relation -/
theorem known_closed {g : Graph} (hwf : g.refsOk = true) (hda : docsAgree g = true) (htd : tagDefaultsOk g = true)
    {wl : Whitelist} {st : St} {start wlRoutes : List Id}
    (hrun : FilterRun g wl st start wlRoutes) : Closed g (Known g wl st) := by
  intro a b ha he
  cases he with
  | fieldType hn ht hf hb => exact Or.inl (known_closed_hard hwf hda hrun ha (.fieldType hn ht hf hb))
  | parent hn ht hp => exact Or.inl (known_closed_hard hwf hda hrun ha (.parent hn ht hp))
  | subtype hn hk hb => exact Or.inl (known_closed_hard hwf hda hrun ha (.subtype hn hk hb))
  | aliasTarget hn hk hb => exact Or.inl (known_closed_hard hwf hda hrun ha (.aliasTarget hn hk hb))
  | routeArg hn hk hb => exact Or.inl (known_closed_hard hwf hda hrun ha (.routeArg hn hk hb))
  | routeResult hn hk hb => exact Or.inl (known_closed_hard hwf hda hrun ha (.routeResult hn hk hb))
  | routeError hn hk hb => exact Or.inl (known_closed_hard hwf hda hrun ha (.routeError hn hk hb))
  | tagDefault hn hks hf hb =>
    rename_i n f
    have ht : n.isType = true := by simp [Node.isType, hks]
    simp only [tagDefaultsOk, List.all_eq_true] at htd
    have h1 := htd n (node?_mem hn).1 f hf
    simp only [hb, beq_iff_eq] at h1
    exact unwrapsTo_closed (known_alias hwf hda hrun) h1
      (fun c hc => Or.inl (known_closed_hard hwf hda hrun ha (.fieldType hn ht hf hc)))
  | docRef hn hr' hb =>
    rename_i n r
    have hbt : b ∈ docTargets g n.ns n.docRefs := by
      simp only [docTargets, List.mem_flatMap]; exact ⟨r, hr', hb⟩
    rcases ha with ha | ha
    · exact Or.inl (known_docs_seen hda hrun a n ha hn b hbt)
    · -- a whitelisted route: what its doc refers to is a starting point
      obtain ⟨p, hp, hr, nd', hnd', _, hns⟩ := wl_route_kind hwf ha
      rw [hn] at hnd'; cases hnd'
      left
      apply start_seen hrun
      apply hrun.startWl p hp a hr b
      exact Or.inr (mem_docStart.2 (by simpa [docsOf, hn, hns] using hbt))
  | fieldDocRef hn ht hf hr' hb =>
    rename_i n f r
    rcases ha with ha | ha
    · exact Or.inl ((known_field hda hrun a n f ha hn ht hf).2 b
        (by simp only [docTargets, List.mem_flatMap]; exact ⟨r, hr', hb⟩))
    · have := wl_not_type hwf ha hn
      simp [Node.isType, this] at ht

/-- the specification level seeds are accounted for -/
theorem seeds_known {g : Graph} {wl : Whitelist} {st : St} {start wlRoutes : List Id}
    (hrun : FilterRun g wl st start wlRoutes) : ∀ s ∈ seeds g wl, Known g wl st s := by
  intro s hs
  have hns : ∀ p ∈ wl.routes ++ wl.datatypes, s ∈ nsDocSeeds g p.1 → Known g wl st s := by
    intro p hp h
    obtain ⟨n, hn⟩ := hrun.nsOk p hp
    left
    apply start_seen hrun
    apply hrun.startNs p hp
    simp only [nsStart, hn]
    exact mem_docStart.2 (by simpa [nsDocSeeds, hn] using h)
  simp only [seeds, List.mem_append, List.mem_flatMap] at hs
  rcases hs with ⟨p, hp, h | h⟩ | ⟨p, hp, h | h⟩
  · exact hns p (List.mem_append_left _ hp) h
  · refine Or.inr ?_
    simp only [wlAllRouteIds, List.mem_flatMap]
    exact ⟨p, hp, h⟩
  · exact hns p (List.mem_append_right _ hp) h
  · left
    apply start_seen hrun
    exact hrun.startTy p hp s (by simpa [List.mem_flatMap] using h)

end StoneVerif.Graph
