import StoneVerif.Lemmas.GraphFinal
/-! Completeness of the walk: what it marks (plus the routes it knows of) is closed under the
dependency relation, under the side conditions that name the edges the code does not follow. -/
namespace StoneVerif.Graph

/-! ## the shape of one invocation -/

theorem expand_node_type {g : Graph} (hda : docsAgree g = true) {a : Id} {nd : Node} (hnd : g.node? a = some nd)
    (ht : nd.isType = true) {kids : List Item} {rts : List Id} (he : expand g (.node a) = .ok (kids, rts)) :
    ∃ fs io, allFields g a = .ok fs ∧ routesIo g (specDocs g nd.ns nd.docRefs).2 = .ok io ∧
      kids = fs.map (fun of => Item.field of.1 of.2 nd.ns)
        ++ (nd.parent.toList ++ (specDocs g nd.ns nd.docRefs).1 ++ io
            ++ (if nd.kind == .struct then nd.subtypes else [])).map .node ∧
      rts = (specDocs g nd.ns nd.docRefs).2 := by
  have hdocs := docsAgree_node hda hnd
  simp only [expand, hnd] at he
  rcases kind_cases nd with h | h | h
  · split at he
    · rename_i hk; simp [Node.isRoute, hk] at h
    · rename_i hk; simp [Node.isAlias, hk] at h
    · split at he
      · simp at he
      · rename_i fs hfs
        rw [hdocs] at he
        simp only at he
        split at he
        · simp at he
        · rename_i io hio
          simp only [Except.ok.injEq, Prod.mk.injEq] at he
          exact ⟨fs, io, hfs, hio, he.1.symm, he.2.symm⟩
  · simp [ht] at h
  · simp [ht] at h

theorem expand_node_alias {g : Graph} (hda : docsAgree g = true) {a : Id} {nd : Node} (hnd : g.node? a = some nd)
    (hk : nd.kind = .alias) {kids : List Item} {rts : List Id} (he : expand g (.node a) = .ok (kids, rts)) :
    ∃ io, routesIo g (specDocs g nd.ns nd.docRefs).2 = .ok io ∧
      kids = (nd.target.refs ++ (specDocs g nd.ns nd.docRefs).1 ++ io).map .node ∧
      rts = (specDocs g nd.ns nd.docRefs).2 := by
  have hdocs := docsAgree_node hda hnd
  simp only [expand, hnd, hk, hdocs] at he
  split at he
  · simp at he
  · rename_i io hio
    simp only [Except.ok.injEq, Prod.mk.injEq] at he
    exact ⟨io, hio, he.1.symm, he.2.symm⟩

theorem expand_node_kind {g : Graph} {a : Id} {kids : List Item} {rts : List Id}
    (he : expand g (.node a) = .ok (kids, rts)) : ∃ nd, g.node? a = some nd ∧ nd.isRoute = false := by
  simp only [expand] at he
  split at he
  · simp at he
  · rename_i nd hnd
    refine ⟨nd, hnd, ?_⟩
    rcases kind_cases nd with h | h | h
    · exact h.2.2
    · exact h.2.2.1
    · simp [h.2.2.2] at he

theorem expand_field_eq {g : Graph} {o : Id} {f : Field} {ctx ns : String}
    (hparse : parseDocs g ctx f.docRefs = .ok (specDocs g ns f.docRefs)) {kids : List Item} {rts : List Id}
    (he : expand g (.field o f ctx) = .ok (kids, rts)) :
    ∃ io, routesIo g (specDocs g ns f.docRefs).2 = .ok io ∧
      kids = (f.ty.refs ++ (specDocs g ns f.docRefs).1 ++ io).map .node ∧
      rts = (specDocs g ns f.docRefs).2 := by
  simp only [expand, hparse] at he
  split at he
  · simp at he
  · rename_i io hio
    simp only [Except.ok.injEq, Prod.mk.injEq] at he
    exact ⟨io, hio, he.1.symm, he.2.symm⟩

/-! ## what a finished walk knows -/

theorem covered_nil {seen : List Item} {k : Item} : Covered seen [] k ↔ k ∈ seen := by
  simp [Covered]

theorem key_node {it : Item} {a : Id} (h : it.key = .node a) : it = .node a := by
  cases it with
  | node i => simpa [Item.key] using h
  | field o f ctx => simp [Item.key] at h

theorem key_field {it : Item} {o : Id} {f : Field} (h : it.key = .field o f "") : ∃ ctx, it = .field o f ctx := by
  cases it with
  | node i => simp [Item.key] at h
  | field o' f' ctx =>
    simp only [Item.key, Item.field.injEq] at h
    exact ⟨ctx, by rw [h.1, h.2.1]⟩

/-- a marked node: its invocation succeeded, everything it called is marked, its routes are kept -/
theorem seen_node {g : Graph} {stack0 : List Item} {st : St} (hinv : Inv g stack0 [] st) {a : Id}
    (ha : Item.node a ∈ st.seen) :
    ∃ kids rts, expand g (.node a) = .ok (kids, rts) ∧ (∀ c ∈ kids, c.key ∈ st.seen) ∧ (∀ r ∈ rts, r ∈ st.routes) := by
  obtain ⟨it, kids, rts, h1, _, h3, h4, h5⟩ := hinv.done _ ha
  rw [key_node h1] at h3
  exact ⟨kids, rts, h3, fun c hc => covered_nil.1 (h4 c hc), h5⟩

/-- a marked field: the references of its type are marked; what its doc mentions is marked or kept -/
theorem seen_field {g : Graph} {stack0 : List Item} {st : St} (hinv : Inv g stack0 [] st) {o : Id} {f : Field}
    (hf : Item.field o f "" ∈ st.seen) :
    ∃ no, g.node? o = some no ∧ f ∈ no.fields ∧ (∀ b ∈ f.ty.refs, Item.node b ∈ st.seen) ∧
      (∀ b ∈ docTargets g no.ns f.docRefs, Item.node b ∈ st.seen ∨ b ∈ st.routes) := by
  obtain ⟨it, kids, rts, h1, h2, h3, h4, h5⟩ := hinv.done _ hf
  obtain ⟨ctx, rfl⟩ := key_field h1
  simp only [ItemOk] at h2
  obtain ⟨_, no, hno, hfm, hparse⟩ := h2
  obtain ⟨io, _, hk, hr⟩ := expand_field_eq hparse h3
  subst hk hr
  refine ⟨no, hno, hfm, ?_, ?_⟩
  · intro b hb
    have := covered_nil.1 (h4 (.node b) (by simp only [List.mem_map, List.mem_append]; exact ⟨b, Or.inl (Or.inl hb), rfl⟩))
    simpa [Item.key] using this
  · intro b hb
    rcases mem_docTargets_split hb with h | h
    · left
      have := covered_nil.1 (h4 (.node b) (by simp only [List.mem_map, List.mem_append]; exact ⟨b, Or.inl (Or.inr h), rfl⟩))
      simpa [Item.key] using this
    · exact Or.inr (h5 b h)

/-! ## closedness -/

/-- routes mentioned by the docs of the whitelisted routes and of the namespaces the whitelist names -/
def seedDocRoutes (g : Graph) (wl : Whitelist) : List Id :=
  wl.routes.flatMap (fun p => (nsDocSeeds g p.1).filter g.isRouteId
      ++ (wlRouteIds g p.1 p.2).flatMap (fun r => (specDocs g p.1 (docsOf g r)).2))
  ++ wl.datatypes.flatMap (fun p => (nsDocSeeds g p.1).filter g.isRouteId)

/-- what the finished walk accounts for: marked nodes, and the routes it knows of -/
def Known (g : Graph) (wl : Whitelist) (st : St) (i : Id) : Prop :=
  Item.node i ∈ st.seen ∨ i ∈ wlAllRouteIds g wl ∨ i ∈ st.routes ∨ i ∈ seedDocRoutes g wl

theorem unwrapsTo_closed {g : Graph} {T : Id → Prop}
    (halias : ∀ a n b, T a → g.node? a = some n → n.isAlias = true → b ∈ n.target.refs → T b)
    {fuel : Nat} {e : TyExpr} {u : Id} (h : unwrapsTo g fuel e = some u) (he : ∀ b ∈ e.refs, T b) : T u := by
  induction fuel generalizing e with
  | zero => simp [unwrapsTo] at h
  | succ fuel ih =>
    cases e with
    | prim => simp [unwrapsTo] at h
    | list t => simp [unwrapsTo] at h
    | map k v => simp [unwrapsTo] at h
    | nullable t =>
      simp only [unwrapsTo] at h
      exact ih h (by simpa [TyExpr.refs] using he)
    | ref a =>
      simp only [unwrapsTo] at h
      have hTa : T a := he a (by simp [TyExpr.refs])
      split at h
      · rename_i nd hnd
        split at h
        · rename_i hal
          exact ih h (fun b hb => halias a nd b hTa hnd hal hb)
        · split at h
          · have : a = u := by simpa using h
            subst this; exact hTa
          · simp at h
      · simp at h

structure FilterRun (g : Graph) (wl : Whitelist) (st : St) (start wlRoutes : List Id) : Prop where
  inv : Inv g (start.map .node) [] st
  wlr : wlRoutes = wlAllRouteIds g wl
  routesDoc : ∀ r ∈ st.routes, r ∈ docRoutes g
  /-- the starting points, at specification level -/
  startNs : ∀ p ∈ wl.routes ++ wl.datatypes, ∀ b ∈ nsStart g p.1, b ∈ start
  nsOk : ∀ p ∈ wl.routes ++ wl.datatypes, ∃ n, g.ns? p.1 = some n
  startWl : ∀ p ∈ wl.routes, ∀ r ∈ wlRouteIds g p.1 p.2, ∀ b, (b ∈ ioOf g r ∨ b ∈ docStart g p.1 (docsOf g r)) → b ∈ start
  startTy : ∀ p ∈ wl.datatypes, ∀ b ∈ p.2.flatMap (fun t => (g.typeByName p.1 t).toList), b ∈ start

theorem filterRun_of_ok {g : Graph} (hwf : g.refsOk = true) (hda : docsAgree g = true) {wl : Whitelist}
    {r : Filtered} (h : whitelistFilter g wl = .ok r) :
    ∃ st wlRoutes, FilterRun g wl st r.start wlRoutes ∧ r.types = st.types ∧
      r.routes = addAll [] (wlRoutes ++ st.routes) ∧ r.seen = st.seen ∧
      filterAliases g st.types (g.dfsFuel 0) g.allAliases = .ok r.aliases := by
  obtain ⟨canon, rts, wlRoutes, dts, st, hc, hr, hd, hst, e1, e2, e3, e4, e5⟩ := whitelistFilter_ok h
  obtain ⟨i1, i2, i3⟩ := routeWhitelistSeeds_spec hwf hda hc hr
  obtain ⟨d1, d2⟩ := datatypeWhitelistSeeds_spec hda hd
  have hinv0 : Inv g ((rts ++ dts).map .node) ((rts ++ dts).map .node) {} := by
    refine ⟨?_, ?_, ?_, ?_, ?_⟩
    · intro it hit
      simp only [List.mem_map] at hit
      obtain ⟨b, _, rfl⟩ := hit
      trivial
    · intro k hk; cases hk
    · intro r hr; cases hr
    · intro i; simp
    · intro it hit
      refine Or.inr ?_
      simp only [List.mem_map] at hit ⊢
      obtain ⟨b, hb, rfl⟩ := hit
      exact ⟨.node b, ⟨b, hb, rfl⟩, rfl⟩
  have hinv := inv_final hwf hda hst hinv0
  have hsound := dfs_sound hwf hda (T := fun _ => True) (fun _ _ _ _ => trivial) hst
    (by
      intro it hit
      simp only [List.mem_map] at hit
      obtain ⟨b, _, rfl⟩ := hit
      trivial)
    (by intro t ht; cases ht) (by intro t ht; cases ht)
  refine ⟨st, wlRoutes, ⟨?_, ?_, ?_, ?_, ?_, ?_, ?_⟩, e1, e2, e4, e3⟩
  · rw [e5]; exact hinv
  · rw [i1]; rfl
  · intro r hr; exact (hsound.2 r hr).2
  · intro p hp b hb
    rw [e5]
    rcases List.mem_append.1 hp with hp | hp
    · exact List.mem_append_left _ ((i3 b).2 ⟨p, hp, Or.inl hb⟩)
    · exact List.mem_append_right _ ((d2 b).2 ⟨p, hp, Or.inl hb⟩)
  · intro p hp
    rcases List.mem_append.1 hp with hp | hp
    · exact i2 p hp
    · exact d1 p hp
  · intro p hp r hr b hb
    rw [e5]
    exact List.mem_append_left _ ((i3 b).2 ⟨p, hp, Or.inr ⟨r, hr, hb⟩⟩)
  · intro p hp b hb
    rw [e5]
    exact List.mem_append_right _ ((d2 b).2 ⟨p, hp, Or.inr hb⟩)

theorem start_seen {g : Graph} {wl : Whitelist} {st : St} {start wlRoutes : List Id}
    (hrun : FilterRun g wl st start wlRoutes) {b : Id} (hb : b ∈ start) : Item.node b ∈ st.seen := by
  have := covered_nil.1 (hrun.inv.init (.node b) (List.mem_map_of_mem hb))
  simpa [Item.key] using this

/-- every route the walk knows of is a route node -/
theorem known_route_kind {g : Graph} (hwf : g.refsOk = true) {wl : Whitelist} {st : St} {start wlRoutes : List Id}
    (hrun : FilterRun g wl st start wlRoutes) {a : Id}
    (ha : a ∈ wlAllRouteIds g wl ∨ a ∈ st.routes ∨ a ∈ seedDocRoutes g wl) : g.isRouteId a = true := by
  rcases ha with ha | ha | ha
  · simp only [wlAllRouteIds, List.mem_flatMap] at ha
    obtain ⟨p, _, hr⟩ := ha
    obtain ⟨nd, hnd, hk, _⟩ := wlRouteIds_route hwf hr
    exact isRouteId_iff.2 ⟨nd, hnd, hk⟩
  · have := hrun.routesDoc a ha
    simp only [docRoutes, List.mem_filter] at this
    exact this.2
  · simp only [seedDocRoutes, List.mem_append, List.mem_flatMap, List.mem_filter] at ha
    rcases ha with ⟨p, _, h | ⟨r, _, h⟩⟩ | ⟨p, _, h⟩
    · exact h.2
    · exact (mem_specDocs_routes.1 h).2
    · exact h.2

theorem seedDocRoutes_docRoutes {g : Graph} (hwf : g.refsOk = true) {wl : Whitelist} {a : Id}
    (ha : a ∈ seedDocRoutes g wl) : a ∈ docRoutes g := by
  have hns : ∀ ns, a ∈ (nsDocSeeds g ns).filter g.isRouteId → a ∈ docRoutes g := by
    intro ns h
    simp only [List.mem_filter, nsDocSeeds] at h
    obtain ⟨h1, h2⟩ := h
    split at h1
    · rename_i n hn
      simp only [docRoutes, List.mem_filter, List.mem_append, List.mem_flatMap]
      refine ⟨Or.inr ⟨n, (ns?_name hn).1, ?_⟩, h2⟩
      rw [(ns?_name hn).2]; exact h1
    · simp at h1
  simp only [seedDocRoutes, List.mem_append, List.mem_flatMap] at ha
  rcases ha with ⟨p, _, h | ⟨r, hr, h⟩⟩ | ⟨p, _, h⟩
  · exact hns _ h
  · obtain ⟨nd, hnd, _, hnsd⟩ := wlRouteIds_route hwf hr
    have : a ∈ (specDocs g nd.ns nd.docRefs).2 := by simpa [docsOf, hnd, hnsd] using h
    exact mem_docRoutes_node hnd this
  · exact hns _ h

/-- a marked alias: its target is marked -/
theorem known_alias {g : Graph} (hwf : g.refsOk = true) (hda : docsAgree g = true) {wl : Whitelist} {st : St}
    {start wlRoutes : List Id} (hrun : FilterRun g wl st start wlRoutes) :
    ∀ a n b, Known g wl st a → g.node? a = some n → n.isAlias = true → b ∈ n.target.refs → Known g wl st b := by
  intro a n b ha hn hal hb
  rcases ha with ha | ha
  · obtain ⟨kids, rts, he, hk, _⟩ := seen_node hrun.inv ha
    have hkind : n.kind = .alias := by
      rcases kind_cases n with h | h | h
      · simp [hal] at h
      · exact h.2.2.2
      · simp [hal] at h
    obtain ⟨io, _, hkids, _⟩ := expand_node_alias hda hn hkind he
    subst hkids
    have := hk (.node b) (by simp only [List.mem_map, List.mem_append]; exact ⟨b, Or.inl (Or.inl hb), rfl⟩)
    exact Or.inl (by simpa [Item.key] using this)
  · obtain ⟨n', hn', hr⟩ := isRouteId_iff.1 (known_route_kind hwf hrun ha)
    rw [hn] at hn'
    cases hn'
    rcases kind_cases n with h | h | h <;> simp [hal, hr] at h

/-- doc references of a marked node -/
theorem known_docs_seen {g : Graph} (hda : docsAgree g = true) {wl : Whitelist} {st : St}
    {start wlRoutes : List Id} (hrun : FilterRun g wl st start wlRoutes) :
    ∀ a n, Item.node a ∈ st.seen → g.node? a = some n →
      ∀ b ∈ docTargets g n.ns n.docRefs, Known g wl st b := by
  intro a n ha hn b hb
  obtain ⟨kids, rts, he, hk, hr⟩ := seen_node hrun.inv ha
  obtain ⟨n', hn', hnr⟩ := expand_node_kind he
  rw [hn] at hn'; cases hn'
  rcases kind_cases n with h | h | h
  · obtain ⟨fs, io, _, _, hkids, hrts⟩ := expand_node_type hda hn h.1 he
    subst hkids hrts
    rcases mem_docTargets_split hb with hb | hb
    · have := hk (.node b) (by
        apply List.mem_append_right
        simp only [List.mem_map, List.mem_append]
        exact ⟨b, Or.inl (Or.inl (Or.inr hb)), rfl⟩)
      exact Or.inl (by simpa [Item.key] using this)
    · exact Or.inr (Or.inr (Or.inl (hr b hb)))
  · obtain ⟨io, _, hkids, hrts⟩ := expand_node_alias hda hn h.2.2.2 he
    subst hkids hrts
    rcases mem_docTargets_split hb with hb | hb
    · have := hk (.node b) (by simp only [List.mem_map, List.mem_append]; exact ⟨b, Or.inl (Or.inr hb), rfl⟩)
      exact Or.inl (by simpa [Item.key] using this)
    · exact Or.inr (Or.inr (Or.inl (hr b hb)))
  · simp [hnr] at h

/-- a marked data type: its fields are marked -/
theorem known_field {g : Graph} (hda : docsAgree g = true) {wl : Whitelist} {st : St}
    {start wlRoutes : List Id} (hrun : FilterRun g wl st start wlRoutes) :
    ∀ a n f, Item.node a ∈ st.seen → g.node? a = some n → n.isType = true → f ∈ n.fields →
      (∀ b ∈ f.ty.refs, Item.node b ∈ st.seen) ∧
      (∀ b ∈ docTargets g n.ns f.docRefs, Item.node b ∈ st.seen ∨ b ∈ st.routes) := by
  intro a n f ha hn ht hf
  obtain ⟨kids, rts, he, hk, _⟩ := seen_node hrun.inv ha
  obtain ⟨fs, io, hfs, _, hkids, _⟩ := expand_node_type hda hn ht he
  subst hkids
  have hmem := allFields_own hfs hn hf
  have := hk (.field a f n.ns) (List.mem_append_left _ (List.mem_map.2 ⟨(a, f), hmem, rfl⟩))
  simp only [Item.key] at this
  obtain ⟨no, hno, _, h1, h2⟩ := seen_field hrun.inv this
  rw [hn] at hno; cases hno
  exact ⟨h1, h2⟩

/-- the io types of a route the walk knows of are marked -/
theorem known_route_io {g : Graph} {wl : Whitelist} {st : St}
    {start wlRoutes : List Id} (hrun : FilterRun g wl st start wlRoutes) {a : Id}
    (ha : a ∈ wlAllRouteIds g wl ∨ a ∈ st.routes ∨ a ∈ seedDocRoutes g wl) :
    ∀ c ∈ ioOf g a, Item.node c ∈ st.seen := by
  intro c hc
  rcases ha with ha | ha | ha
  · simp only [wlAllRouteIds, List.mem_flatMap] at ha
    obtain ⟨p, hp, hr⟩ := ha
    exact start_seen hrun (hrun.startWl p hp a hr c (Or.inl hc))
  · exact covered_nil.1 (hrun.inv.rio a ha c hc)
  · simp only [seedDocRoutes, List.mem_append, List.mem_flatMap] at ha
    have hns : ∀ p ∈ wl.routes ++ wl.datatypes, a ∈ (nsDocSeeds g p.1).filter g.isRouteId →
        Item.node c ∈ st.seen := by
      intro p hp h
      obtain ⟨n, hn⟩ := hrun.nsOk p hp
      apply start_seen hrun
      apply hrun.startNs p hp
      simp only [nsStart, hn, docStart, List.mem_append, List.mem_flatMap]
      refine Or.inr ⟨a, ?_, hc⟩
      simp only [List.mem_filter, nsDocSeeds, hn] at h
      exact mem_specDocs_routes.2 h
    rcases ha with ⟨p, hp, h | ⟨r, hr, h⟩⟩ | ⟨p, hp, h⟩
    · exact hns p (List.mem_append_left _ hp) h
    · apply start_seen hrun
      apply hrun.startWl p hp r hr c
      refine Or.inr ?_
      simp only [docStart, List.mem_append, List.mem_flatMap]
      exact Or.inr ⟨a, h, hc⟩
    · exact hns p (List.mem_append_right _ hp) h

/-- the references an item *holds* (no docs, no tag defaults): what a backend dereferences -/
inductive HardEdge (g : Graph) : Id → Id → Prop where
  | fieldType {a b n f} : g.node? a = some n → n.isType = true → f ∈ n.fields → b ∈ f.ty.refs → HardEdge g a b
  | parent {a b n} : g.node? a = some n → n.isType = true → n.parent = some b → HardEdge g a b
  | subtype {a b n} : g.node? a = some n → n.kind = .struct → b ∈ n.subtypes → HardEdge g a b
  | aliasTarget {a b n} : g.node? a = some n → n.kind = .alias → b ∈ n.target.refs → HardEdge g a b
  | routeArg {a b n} : g.node? a = some n → n.kind = .route → b ∈ n.arg.refs → HardEdge g a b
  | routeResult {a b n} : g.node? a = some n → n.kind = .route → b ∈ n.result.refs → HardEdge g a b
  | routeError {a b n} : g.node? a = some n → n.kind = .route → b ∈ n.error.refs → HardEdge g a b

/-- what the walk accounts for is closed under held references: the target is a marked node -/
theorem known_closed_hard {g : Graph} (hwf : g.refsOk = true) (hda : docsAgree g = true)
    {wl : Whitelist} {st : St} {start wlRoutes : List Id}
    (hrun : FilterRun g wl st start wlRoutes) {a b : Id} (ha : Known g wl st a) (he : HardEdge g a b) :
    Item.node b ∈ st.seen := by
  have hinv := hrun.inv
  rcases ha with ha | ha
  · obtain ⟨kids, rts, hex, hk, hr⟩ := seen_node hinv ha
    obtain ⟨nd, hnd, hnr⟩ := expand_node_kind hex
    have hnotroute : nd.kind ≠ .route := by
      intro hk'; simp [Node.isRoute, hk'] at hnr
    cases he with
    | fieldType hn ht hf hb =>
      rw [hnd] at hn; cases hn
      exact (known_field hda hrun a nd _ ha hnd ht hf).1 b hb
    | parent hn ht hp =>
      rw [hnd] at hn; cases hn
      obtain ⟨fs, io, _, _, hkids, _⟩ := expand_node_type hda hnd ht hex
      subst hkids
      have := hk (.node b) (by
        apply List.mem_append_right
        simp only [List.mem_map, List.mem_append]
        exact ⟨b, Or.inl (Or.inl (Or.inl (by simp [hp]))), rfl⟩)
      simpa [Item.key] using this
    | subtype hn hks hb =>
      rw [hnd] at hn; cases hn
      have ht : nd.isType = true := by simp [Node.isType, hks]
      obtain ⟨fs, io, _, _, hkids, _⟩ := expand_node_type hda hnd ht hex
      subst hkids
      have := hk (.node b) (by
        apply List.mem_append_right
        simp only [List.mem_map, List.mem_append]
        exact ⟨b, Or.inr (by simp [hks, hb]), rfl⟩)
      simpa [Item.key] using this
    | aliasTarget hn hka hb =>
      rw [hnd] at hn; cases hn
      obtain ⟨io, _, hkids, _⟩ := expand_node_alias hda hnd hka hex
      subst hkids
      have := hk (.node b) (by simp only [List.mem_map, List.mem_append]; exact ⟨b, Or.inl (Or.inl hb), rfl⟩)
      simpa [Item.key] using this
    | routeArg hn hkr _ => rw [hnd] at hn; cases hn; exact absurd hkr hnotroute
    | routeResult hn hkr _ => rw [hnd] at hn; cases hn; exact absurd hkr hnotroute
    | routeError hn hkr _ => rw [hnd] at hn; cases hn; exact absurd hkr hnotroute
  · obtain ⟨nd, hnd, hkr⟩ := isRouteId_iff.1 (known_route_kind hwf hrun ha)
    have hkind : nd.kind = .route := by
      rcases kind_cases nd with h | h | h
      · simp [hkr] at h
      · simp [hkr] at h
      · exact h.2.2.2
    have hnt : nd.isType = false := by simp [Node.isType, hkind]
    have hio := known_route_io hrun ha
    cases he with
    | fieldType hn ht _ _ => rw [hnd] at hn; cases hn; simp [hnt] at ht
    | parent hn ht _ => rw [hnd] at hn; cases hn; simp [hnt] at ht
    | subtype hn hks _ => rw [hnd] at hn; cases hn; simp [hkind] at hks
    | aliasTarget hn hka _ => rw [hnd] at hn; cases hn; simp [hkind] at hka
    | routeArg hn _ hb =>
      rw [hnd] at hn; cases hn
      exact hio b (by simp [ioOf, hnd, hb])
    | routeResult hn _ hb =>
      rw [hnd] at hn; cases hn
      exact hio b (by simp [ioOf, hnd, hb])
    | routeError hn _ hb =>
      rw [hnd] at hn; cases hn
      exact hio b (by simp [ioOf, hnd, hb])

/-- COMPLETENESS: what the finished walk accounts for is closed under the dependency relation -/
theorem known_closed {g : Graph} (hwf : g.refsOk = true) (hda : docsAgree g = true) (htd : tagDefaultsOk g = true)
    {wl : Whitelist} (hrd : routeDocsClosed g wl = true) {st : St} {start wlRoutes : List Id}
    (hrun : FilterRun g wl st start wlRoutes) : Closed g (Known g wl st) := by
  intro a b ha he
  cases he with
  | fieldType hn ht hf hb => exact Or.inl (known_closed_hard hwf hda hrun ha (.fieldType hn ht hf hb))
  | parent hn ht hp => exact Or.inl (known_closed_hard hwf hda hrun ha (.parent hn ht hp))
  | subtype hn hk hb => exact Or.inl (known_closed_hard hwf hda hrun ha (.subtype hn hk hb))
  | aliasTarget hn hk hb => exact Or.inl (known_closed_hard hwf hda hrun ha (.aliasTarget hn hk hb))
  | routeArg hn hk hb => exact Or.inl (known_closed_hard hwf hda hrun ha (.routeArg hn hk hb))
  | routeResult hn hk hb => exact Or.inl (known_closed_hard hwf hda hrun ha (.routeResult hn hk hb))
  | routeError hn hk hb => exact Or.inl (known_closed_hard hwf hda hrun ha (.routeError hn hk hb))
  | tagDefault hn hks hf hb =>
    rename_i n f
    have ht : n.isType = true := by simp [Node.isType, hks]
    simp only [tagDefaultsOk, List.all_eq_true] at htd
    have h1 := htd n (node?_mem hn).1 f hf
    simp only [hb, beq_iff_eq] at h1
    exact unwrapsTo_closed (known_alias hwf hda hrun) h1
      (fun c hc => Or.inl (known_closed_hard hwf hda hrun ha (.fieldType hn ht hf hc)))
  | docRef hn hr' hb =>
    rename_i n r
    have hbt : b ∈ docTargets g n.ns n.docRefs := by
      simp only [docTargets, List.mem_flatMap]; exact ⟨r, hr', hb⟩
    rcases ha with ha | ha
    · exact known_docs_seen hda hrun a n ha hn b hbt
    · -- a route the walk knows of: its doc mentions nothing, unless it is whitelisted
      by_cases hw : a ∈ wlAllRouteIds g wl
      · simp only [wlAllRouteIds, List.mem_flatMap] at hw
        obtain ⟨p, hp, hr⟩ := hw
        obtain ⟨nd', hnd', _, hns⟩ := wlRouteIds_route hwf hr
        rw [hn] at hnd'; cases hnd'
        rcases mem_docTargets_split hbt with h | h
        · left
          apply start_seen hrun
          apply hrun.startWl p hp a hr b
          refine Or.inr ?_
          simp only [docStart, List.mem_append]
          exact Or.inl (by simpa [docsOf, hn, hns] using h)
        · refine Or.inr (Or.inr (Or.inr ?_))
          simp only [seedDocRoutes, List.mem_append, List.mem_flatMap]
          exact Or.inl ⟨p, hp, Or.inr ⟨a, hr, by simpa [docsOf, hn, hns] using h⟩⟩
      · exfalso
        have hdr : a ∈ docRoutes g := by
          rcases ha with ha | ha | ha
          · exact absurd ha hw
          · exact hrun.routesDoc a ha
          · exact seedDocRoutes_docRoutes hwf ha
        simp only [routeDocsClosed, List.all_eq_true] at hrd
        have := hrd a hdr
        simp only [Bool.or_eq_true, hn] at this
        rcases this with h | h
        · exact hw (by simpa using h)
        · have : docTargets g n.ns n.docRefs = [] := by simpa using h
          rw [this] at hbt; cases hbt
  | fieldDocRef hn ht hf hr' hb =>
    rename_i n f r
    rcases ha with ha | ha
    · rcases (known_field hda hrun a n f ha hn ht hf).2 b
        (by simp only [docTargets, List.mem_flatMap]; exact ⟨r, hr', hb⟩) with h | h
      · exact Or.inl h
      · exact Or.inr (Or.inr (Or.inl h))
    · obtain ⟨nd, hnd, hkr⟩ := isRouteId_iff.1 (known_route_kind hwf hrun ha)
      rw [hn] at hnd; cases hnd
      rcases kind_cases n with h | h | h <;> simp [ht, hkr] at h

/-- the specification level seeds are accounted for -/
theorem seeds_known {g : Graph} {wl : Whitelist} {st : St} {start wlRoutes : List Id}
    (hrun : FilterRun g wl st start wlRoutes) : ∀ s ∈ seeds g wl, Known g wl st s := by
  intro s hs
  have hns : ∀ p ∈ wl.routes ++ wl.datatypes, s ∈ nsDocSeeds g p.1 → Known g wl st s := by
    intro p hp h
    obtain ⟨n, hn⟩ := hrun.nsOk p hp
    cases hr : g.isRouteId s
    · left
      apply start_seen hrun
      apply hrun.startNs p hp
      simp only [nsStart, hn, docStart, List.mem_append]
      refine Or.inl (mem_specDocs_types.2 ⟨?_, hr⟩)
      simpa [nsDocSeeds, hn] using h
    · refine Or.inr (Or.inr (Or.inr ?_))
      simp only [seedDocRoutes, List.mem_append, List.mem_flatMap, List.mem_filter]
      rcases List.mem_append.1 hp with hp | hp
      · exact Or.inl ⟨p, hp, Or.inl ⟨h, hr⟩⟩
      · exact Or.inr ⟨p, hp, h, hr⟩
  simp only [seeds, List.mem_append, List.mem_flatMap] at hs
  rcases hs with ⟨p, hp, h | h⟩ | ⟨p, hp, h | h⟩
  · exact hns p (List.mem_append_left _ hp) h
  · refine Or.inr (Or.inl ?_)
    simp only [wlAllRouteIds, List.mem_flatMap]
    exact ⟨p, hp, h⟩
  · exact hns p (List.mem_append_right _ hp) h
  · left
    apply start_seen hrun
    exact hrun.startTy p hp s (by simpa [List.mem_flatMap] using h)

end StoneVerif.Graph
