import StoneVerif.Lemmas.FeCompileReg
import StoneVerif.Lemmas.FeNames
set_option linter.unusedSimpArgs false
/-!
Pass 1 of the compileCore model is the registration pass of C01's name model (`FeNames.register`) on the projection
`toNames`: the same symbols are bound and the same canonical keys are taken, so it succeeds on the same inputs --
those whose names obey `FeNames.NoClash`.
-/
namespace StoneVerif.FeCompile.L
open StoneVerif.FeCompile
open StoneVerif.FeParams (TyKind)

def eraseItem : Item → FeNames.EnvEntry
  | .routes vs => .routes vs
  | _ => .user

structure Sim (st : RegSt) (st' : FeNames.State) : Prop where
  canon : st'.canon = st.canon
  env : ∀ ns name : String, st'.env.lookup (ns.toList, name.toList) = (st.items.lookup (ns, name)).map eraseItem
  nobuiltin : ∀ (ns name : String) i, st.items.lookup (ns, name) = some i → TyKind.ofName? name = none

theorem builtin_contains (name : String) :
    FeNames.builtinTypes.contains name.toList = (TyKind.ofName? name).isSome := by
  have ht : Tables.feBuiltinTypes = TyKind.all.map (·.pyName) := by decide
  rw [Bool.eq_iff_iff, List.contains_iff_mem]
  unfold FeNames.builtinTypes TyKind.ofName?
  rw [ht, List.find?_isSome]
  simp only [List.map_map, List.mem_map, Function.comp, beq_iff_eq]
  constructor
  · rintro ⟨k, hk, he⟩
    exact ⟨k, hk, String.toList_inj.mp he⟩
  · rintro ⟨k, hk, he⟩
    exact ⟨k, hk, by rw [he]⟩

theorem builtinAnnot_contains (name : String) :
    FeNames.builtinAnnotations.contains name.toList = Tables.feBuiltinAnnotations.contains name := by
  rw [Bool.eq_iff_iff, List.contains_iff_mem, List.contains_iff_mem]
  unfold FeNames.builtinAnnotations
  simp only [List.mem_map]
  constructor
  · rintro ⟨s, hs, he⟩
    rw [← String.toList_inj.mp he]; exact hs
  · intro h; exact ⟨name, h, rfl⟩

def Agree {α β} (P : α → β → Prop) (a : Except Err α) (b : Except FeNames.Err β) : Prop :=
  match a, b with
  | .ok x, .ok y => P x y
  | .error _, .error _ => True
  | _, _ => False

theorem key_pair_ne {ns name ns' name' : String} (h : (ns', name') ≠ (ns, name)) :
    ((ns'.toList, name'.toList) == (ns.toList, name.toList)) = false := by
  rw [beq_eq_false_iff_ne]
  intro he
  apply h
  simp only [Prod.mk.injEq] at he ⊢
  exact ⟨String.toList_inj.mp he.1, String.toList_inj.mp he.2⟩

/-- binding the same symbol on both sides keeps the simulation -/
theorem Sim.push {st st'} (hS : Sim st st') (ns name : String) (i : Item) (e : FeNames.EnvEntry) (he : eraseItem i = e)
    (hnb : TyKind.ofName? name = none) :
    Sim { st with items := ((ns, name), i) :: st.items } { st' with env := ((ns.toList, name.toList), e) :: st'.env } := by
  refine ⟨hS.canon, ?_, ?_⟩
  · intro ns' name'
    simp only [List.lookup_cons]
    by_cases hk : (ns', name') = (ns, name)
    · cases hk
      simp [he]
    · have h1 : ((ns', name') == (ns, name)) = false := by simpa using hk
      rw [key_pair_ne hk, h1]
      exact hS.env ns' name'
  · intro ns' name' i' hl
    simp only [List.lookup_cons] at hl
    by_cases hk : (ns', name') = (ns, name)
    · cases hk; exact hnb
    · have h1 : ((ns', name') == (ns, name)) = false := by simpa using hk
      rw [h1] at hl
      exact hS.nobuiltin ns' name' i' hl

theorem checkCanon_sim {st st'} (hS : Sim st st') (c : FeNames.Cls) (name ns : String) (dup : Bool) :
    Agree Sim (checkCanon st c name ns dup) (FeNames.checkCanon st' c name.toList ns.toList dup) := by
  unfold checkCanon FeNames.checkCanon
  simp only [hS.canon]
  cases hl : st.canon.lookup (FeNames.key name.toList ns.toList) with
  | none =>
    simp only [Agree]
    exact ⟨by simp [hS.canon], hS.env, hS.nobuiltin⟩
  | some stored =>
    simp only
    by_cases hc : (c == stored && dup) = true
    · simp only [hc, ↓reduceIte, Agree]; exact hS
    · simp [hc, Agree]

theorem lookupSym_sim {st st'} (hS : Sim st st') (ns name : String) :
    (lookupSym st.items ns name).isSome =
      (FeNames.builtinTypes.contains name.toList || (st'.env.lookup (ns.toList, name.toList)).isSome) := by
  unfold lookupSym
  rw [hS.env, builtin_contains]
  cases st.items.lookup (ns, name) <;> simp

theorem lookupSym_none_sim {st st'} (hS : Sim st st') {ns name : String} (h : lookupSym st.items ns name = none) :
    FeNames.builtinTypes.contains name.toList = false ∧ st'.env.lookup (ns.toList, name.toList) = none ∧
      TyKind.ofName? name = none := by
  have := lookupSym_sim hS ns name
  rw [h] at this
  simp only [Option.isSome_none, Bool.false_eq, Bool.or_eq_false_iff, Option.isSome_eq_false_iff,
    Option.isNone_iff_eq_none] at this
  refine ⟨this.1, this.2, ?_⟩
  have hb := this.1
  rw [builtin_contains] at hb
  cases hk : TyKind.ofName? name with
  | none => rfl
  | some k => simp [hk] at hb

theorem lookupSym_some_sim {st st'} (hS : Sim st st') {ns name : String} {e} (h : lookupSym st.items ns name = some e) :
    FeNames.builtinTypes.contains name.toList = true ∨
      (∃ i, st.items.lookup (ns, name) = some i ∧ st'.env.lookup (ns.toList, name.toList) = some (eraseItem i)) := by
  cases hb : FeNames.builtinTypes.contains name.toList with
  | true => exact Or.inl rfl
  | false =>
    right
    rw [builtin_contains] at hb
    unfold lookupSym at h
    cases hi : st.items.lookup (ns, name) with
    | some i => exact ⟨i, rfl, by rw [hS.env, hi]; rfl⟩
    | none =>
      rw [hi] at h
      simp only at h
      cases hk : TyKind.ofName? name with
      | none => simp [hk] at h
      | some k => simp [hk] at hb

/-- struct / union / alias / annotation definitions: bind a fresh symbol, take the canonical key -/
theorem bindNew_sim {st st' ns name i} (k : FeNames.ItemKind) (hk : k = .type ∨ k = .alias ∨ k = .annotation)
    (hS : Sim st st') (hi : eraseItem i = .user) :
    Agree Sim (bindNew st ns name i k.cls) (FeNames.addItem st' ns.toList ⟨k, name.toList⟩) := by
  unfold bindNew
  cases hl : lookupSym st.items ns name with
  | some e =>
    simp only
    rcases lookupSym_some_sim hS hl with hb | ⟨i', _, he⟩
    · rcases hk with rfl | rfl | rfl <;> simp only [FeNames.addItem, hb, ↓reduceIte, Agree]
    · rcases hk with rfl | rfl | rfl <;>
        (simp only [FeNames.addItem, he]; split <;> simp [Agree])
  | none =>
    obtain ⟨hb, he, hnb⟩ := lookupSym_none_sim hS hl
    simp only
    have hsim := fun c => checkCanon_sim (hS.push ns name i .user hi hnb) c name ns false
    rcases hk with rfl | rfl | rfl <;>
      (simp only [FeNames.addItem, hb, he, Bool.false_eq_true, ↓reduceIte]; exact hsim _)

theorem regDecl_sim {st st' ns d x} (hS : Sim st st') (hx : declItem d = some x) :
    Agree Sim (regDecl st ns d) (FeNames.addItem st' ns.toList x) := by
  cases d with
  | imp t => simp [declItem] at hx
  | patch q => simp [declItem] at hx
  | aliasAnnots n as => simp [declItem] at hx
  | type td =>
    simp only [declItem, Option.some.injEq] at hx
    subst hx
    exact bindNew_sim .type (Or.inl rfl) hS rfl
  | «alias» n r =>
    simp only [declItem, Option.some.injEq] at hx
    subst hx
    exact bindNew_sim .alias (Or.inr (Or.inl rfl)) hS rfl
  | annot n ak =>
    simp only [declItem, Option.some.injEq] at hx
    subst hx
    exact bindNew_sim .annotation (Or.inr (Or.inr rfl)) hS rfl
  | annotType n =>
    simp only [declItem, Option.some.injEq] at hx
    subst hx
    simp only [regDecl]
    cases hl : lookupSym st.items ns n with
    | some e =>
      simp only
      rcases lookupSym_some_sim hS hl with hb | ⟨i', _, he⟩
      · simp only [FeNames.addItem, hb, ↓reduceIte, Agree]
      · simp only [FeNames.addItem, he]; split <;> simp [Agree]
    | none =>
      obtain ⟨hb, he, hnb⟩ := lookupSym_none_sim hS hl
      simp only [FeNames.addItem, hb, he, Bool.false_eq_true, ↓reduceIte, builtinAnnot_contains]
      by_cases ha : n ∈ Tables.feBuiltinAnnotations
      · simp [ha, Agree]
      · simp [ha]
        exact checkCanon_sim (hS.push ns n .other .user rfl hnb) .annotationType n ns false
  | route r =>
    simp only [declItem, Option.some.injEq] at hx
    subst hx
    simp only [regDecl]
    cases hl : lookupSym st.items ns r.name with
    | some e =>
      rcases lookupSym_some_sim hS hl with hb | ⟨i', hi', he⟩
      · -- a built-in name: nothing is bound under it
        have hnone : st.items.lookup (ns, r.name) = none := by
          cases hi : st.items.lookup (ns, r.name) with
          | none => rfl
          | some i =>
            have := hS.nobuiltin ns r.name i hi
            rw [builtin_contains, this] at hb
            cases hb
        have hex : ∃ k, e = .builtin k := by
          unfold lookupSym at hl
          rw [hnone] at hl
          cases hk : TyKind.ofName? r.name with
          | none => simp [hk] at hl
          | some k => simp [hk] at hl; exact ⟨k, hl.symm⟩
        obtain ⟨k, rfl⟩ := hex
        simp only [FeNames.addItem, hb, ↓reduceIte, Agree]
      · have hnb := hS.nobuiltin ns r.name i' hi'
        have hb : FeNames.builtinTypes.contains r.name.toList = false := by rw [builtin_contains, hnb]; rfl
        have hee : e = .item i' := by
          unfold lookupSym at hl
          rw [hi'] at hl
          simpa using hl.symm
        subst hee
        cases i' with
        | routes vs =>
          simp only [FeNames.addItem, hb, he, eraseItem, Bool.false_eq_true, ↓reduceIte]
          by_cases hv : r.version ∈ vs
          · simp [hv, Agree]
          · simp [hv]
            exact checkCanon_sim (hS.push ns r.name (.routes (r.version :: vs)) (.routes (r.version :: vs)) rfl hnb)
              .route r.name ns true
        | type _ => simp only [FeNames.addItem, hb, he, eraseItem, Bool.false_eq_true, ↓reduceIte, Agree]
        | «alias» _ => simp only [FeNames.addItem, hb, he, eraseItem, Bool.false_eq_true, ↓reduceIte, Agree]
        | other => simp only [FeNames.addItem, hb, he, eraseItem, Bool.false_eq_true, ↓reduceIte, Agree]
        | annot _ => simp only [FeNames.addItem, hb, he, eraseItem, Bool.false_eq_true, ↓reduceIte, Agree]
    | none =>
      obtain ⟨hb, he, hnb⟩ := lookupSym_none_sim hS hl
      simp only [FeNames.addItem, hb, he, Bool.false_eq_true, ↓reduceIte]
      exact checkCanon_sim (hS.push ns r.name (.routes [r.version]) (.routes [r.version]) rfl hnb) .route r.name ns true

theorem regDecls_sim {ns} : ∀ {ds : List Decl} {st st'}, Sim st st' →
    Agree Sim (regDecls st ns ds) (FeNames.addItems st' ns.toList (ds.filterMap declItem))
  | [], st, st', hS => by simpa [regDecls, FeNames.addItems, Agree] using hS
  | d :: ds, st, st', hS => by
    cases hx : declItem d with
    | none =>
      cases d <;> simp [declItem] at hx <;>
        (simp only [regDecls, regDecl, List.filterMap_cons, declItem]; exact regDecls_sim hS)
    | some x =>
      have h1 := regDecl_sim (ns := ns) hS hx
      simp only [regDecls, List.filterMap_cons, hx, FeNames.addItems]
      cases hr : regDecl st ns d with
      | error e =>
        rw [hr] at h1
        cases ha : FeNames.addItem st' ns.toList x with
        | error e' => simp [Agree]
        | ok b => rw [ha] at h1; simp [Agree] at h1
      | ok a =>
        rw [hr] at h1
        cases ha : FeNames.addItem st' ns.toList x with
        | error e' => rw [ha] at h1; simp [Agree] at h1
        | ok b =>
          rw [ha] at h1
          simp only [Agree] at h1
          exact regDecls_sim h1

theorem regFiles_sim : ∀ {fs : List File} {st st'}, Sim st st' →
    Agree Sim (regFiles st fs) (FeNames.registerFrom st' (toNames fs))
  | [], st, st', hS => by simpa [regFiles, toNames, FeNames.registerFrom, Agree] using hS
  | f :: fs, st, st', hS => by
    simp only [regFiles, toNames, List.map_cons, FeNames.registerFrom]
    have hS1 : Sim { st with nss := if st.nss.contains f.ns then st.nss else st.nss ++ [f.ns],
                             canon := (FeNames.key f.ns.toList f.ns.toList, .ns) :: st.canon }
        { st' with canon := (FeNames.key f.ns.toList f.ns.toList, .ns) :: st'.canon } :=
      ⟨by simp [hS.canon], hS.env, hS.nobuiltin⟩
    have h1 := regDecls_sim (ns := f.ns) (ds := f.decls) hS1
    unfold regFile FeNames.addFile
    simp only
    cases hr : regDecls _ f.ns f.decls with
    | error e =>
      rw [hr] at h1
      cases ha : FeNames.addItems _ f.ns.toList (f.decls.filterMap declItem) with
      | error e' => simp [Agree]
      | ok b => rw [ha] at h1; simp [Agree] at h1
    | ok a =>
      rw [hr] at h1
      cases ha : FeNames.addItems _ f.ns.toList (f.decls.filterMap declItem) with
      | error e' => rw [ha] at h1; simp [Agree] at h1
      | ok b =>
        rw [ha] at h1
        simp only [Agree] at h1
        exact regFiles_sim h1

/-- pass 1 succeeds exactly when C01's registration model does -/
theorem regFiles_isOk (fs : List File) : isOk (regFiles {} fs) = FeNames.isOk (FeNames.register (toNames fs)) := by
  have h := regFiles_sim (fs := fs) (st := {}) (st' := {}) ⟨rfl, by intro _ _; rfl, by intro _ _ _ h; simp at h⟩
  unfold FeNames.register
  cases hr : regFiles {} fs <;> cases ha : FeNames.registerFrom {} (toNames fs) <;>
    simp [hr, ha, Agree, isOk, FeNames.isOk] at h ⊢

theorem nsLexical_iff (fs : List File) : nsLexical fs = true ↔ FeNames.NsLexical (toNames fs) := by
  unfold nsLexical FeNames.NsLexical FeNames.namespaces toNames
  simp only [List.all_eq_true, Bool.not_eq_eq_eq_not, Bool.not_true, List.map_map, List.mem_map, Function.comp,
    forall_exists_index, and_imp, forall_apply_eq_imp_iff₂]
  constructor
  · intro h f hf hm
    have := h f hf
    rw [List.contains_iff_mem.mpr hm] at this
    cases this
  · intro h f hf
    cases hc : f.ns.toList.contains '/' with
    | false => rfl
    | true => exact absurd (List.contains_iff_mem.mp hc) (h f hf)

/-- **names.** pass 1 accepts exactly the inputs whose names obey the rules -/
theorem regFiles_ok_iff (fs : List File) (hl : nsLexical fs = true) : isOk (regFiles {} fs) = namesLegal fs := by
  rw [regFiles_isOk, Bool.eq_iff_iff, FeNames.register_ok_iff_noclash _ ((nsLexical_iff fs).mp hl)]
  unfold namesLegal
  simp

end StoneVerif.FeCompile.L
