import StoneVerif.Lemmas.RtCompatRefl
/-!
Helper lemmas for C07, part 19: the listed edits yield `structSub` / `unionSub` / `compatEnv`.

* class level (any correspondence `ρ`): a pair of structs whose newer attribute table contains the older one plus optional /
  defaulted fields; a pair of unions whose newer tag table contains the older one (open union), or retypes Void tags; a
  pair of enumerated roots whose newer subtype table contains the older one (catch-all root);
* environment level: `addFieldEnv` — inserting one optional / defaulted field into the level of class `cls` in every chain
  that contains it (the class itself and all its descendants, wherever they are used) — gives `compatEnv` with the identity
  correspondence.
-/
namespace StoneVerif.Rt.Compat
open StoneVerif.Rt

/-! ### class level -/

/-- ADD OPTIONAL / DEFAULTED FIELDS: every attribute of A is an attribute of B (unchanged), every other attribute of B is
optional or has a default; subtype tables untouched. -/
theorem edit_add_optional_field {ρ : Rho} {A B : Env} {a b : String} {sa sb : StructDef}
    (hsa : A.struct? a = some sa) (hsb : B.struct? b = some sb)
    (hnd : nodupS (sb.allAttrs.map (·.name)) = true)
    (hkeep : ∀ f ∈ sa.allAttrs, f ∈ sb.allAttrs)
    (hnew : ∀ g ∈ sb.allAttrs, g ∈ sa.allAttrs ∨ newFieldOk B g = true)
    (hty : ∀ f ∈ sa.allAttrs, tySub ρ f.ty f.ty = true)
    (hsub : sa.subtypes = none ∧ sb.subtypes = none) :
    structSub ρ A B a b = true := by
  unfold structSub
  simp only [hsa, hsb, hsub.1, hsub.2, Bool.and_true, Bool.and_eq_true, List.all_eq_true]
  refine ⟨?_, ?_⟩
  · intro f hf
    rw [find_name_of_mem hnd (hkeep f hf)]
    simp [fieldSub, hty f hf]
  · intro g hg
    rw [Bool.or_eq_true]
    rcases hnew g hg with h | h
    · left
      cases hq : sa.allAttrs.find? (·.name == g.name) with
      | some _ => rfl
      | none =>
        have := List.find?_eq_none.mp hq g h
        simp at this
    · exact .inr h

/-- ADD A TAG TO AN OPEN UNION: every tag of A is a tag of B (unchanged); A has a catch-all, B the same. -/
theorem edit_add_tag_open {ρ : Rho} {A B : Env} {a b : String} {ua ub : UnionDef}
    (hua : A.union? a = some ua) (hub : B.union? b = some ub)
    (hnd : nodupS ((UnionDef.allTags ub).map (·.name)) = true)
    (hca : ua.catchAll = ub.catchAll) (hopen : ua.catchAll.isSome = true)
    (hkeep : ∀ t ∈ UnionDef.allTags ua, t ∈ UnionDef.allTags ub)
    (hty : ∀ t ∈ UnionDef.allTags ua, tySub ρ t.ty t.ty = true) :
    unionSub ρ A B a b = true := by
  unfold unionSub
  simp only [hua, hub, Bool.and_eq_true, beq_iff_eq, List.all_eq_true, Bool.or_eq_true]
  refine ⟨⟨hca, ?_⟩, .inl hopen⟩
  intro t ht
  rw [findTag_self hnd (hkeep t ht)]
  simp [hty t ht]

/-- GIVE A VOID TAG A TYPE: same tag names; every tag of A keeps its type, or is Void in A (and not the catch-all). -/
theorem edit_void_to_typed {ρ : Rho} {A B : Env} {a b : String} {ua ub : UnionDef}
    (hua : A.union? a = some ua) (hub : B.union? b = some ub)
    (hca : ua.catchAll = ub.catchAll)
    (hpair : ∀ t ∈ UnionDef.allTags ua, ∃ t', findTag t.name (UnionDef.allTags ub) = some t' ∧ t.omitted = t'.omitted ∧
      (tySub ρ t.ty t'.ty = true ∨ (isVoidT t.ty = true ∧ ua.catchAll ≠ some t.name)))
    (hnames : ∀ t' ∈ UnionDef.allTags ub, (findTag t'.name (UnionDef.allTags ua)).isSome = true) :
    unionSub ρ A B a b = true := by
  unfold unionSub
  simp only [hua, hub, Bool.and_eq_true, beq_iff_eq, List.all_eq_true, Bool.or_eq_true]
  refine ⟨⟨hca, ?_⟩, .inr hnames⟩
  intro t ht
  obtain ⟨t', hf, hom, hty⟩ := hpair t ht
  simp only [hf, Bool.and_eq_true, beq_iff_eq, Bool.or_eq_true, Bool.not_eq_true', beq_eq_false_iff_ne]
  exact ⟨hom, hty⟩

/-- ADD A SUBTYPE UNDER A CATCH-ALL ROOT: same attributes; every subtype entry of A is an entry of B under the same tag
(classes related); the root is a catch-all on both sides. -/
theorem edit_add_subtype_catch_all {ρ : Rho} {A B : Env} {a b : String} {sa sb : StructDef} {xa xb : List SubEntry}
    (hsa : A.struct? a = some sa) (hsb : B.struct? b = some sb)
    (hnd : nodupS (sb.allAttrs.map (·.name)) = true)
    (hattrs : sa.allAttrs = sb.allAttrs) (hty : ∀ f ∈ sa.allAttrs, tySub ρ f.ty f.ty = true)
    (hxa : sa.subtypes = some xa) (hxb : sb.subtypes = some xb)
    (hca : sa.catchAll = true) (hcb : sb.catchAll = true)
    (hkeep : ∀ e ∈ xa, ∃ e', findSub e.1 xb = some e' ∧ ρ.rel e.2.1 e'.2.1 = true ∧ e.2.2 = e'.2.2) :
    structSub ρ A B a b = true := by
  unfold structSub
  simp only [hsa, hsb, hxa, hxb, hca, hcb, Bool.and_eq_true, List.all_eq_true, Bool.true_or, and_true, beq_self_eq_true,
    true_and]
  refine ⟨⟨?_, ?_⟩, ?_⟩
  · intro f hf
    rw [find_name_of_mem hnd (hattrs ▸ hf)]
    simp [fieldSub, hty f hf]
  · intro g hg
    rw [Bool.or_eq_true]
    left
    rw [hattrs]
    rw [find_name_of_mem hnd hg]; rfl
  · intro e he
    obtain ⟨e', hf, hr, htr⟩ := hkeep e he
    simp [hf, hr, htr]

/-! ### environment level: one field added, seen through inheritance -/

/-- insert field `g` at position `pos` of the level of class `cls`, in one chain -/
def insertField (g : FieldDef) (cls : String) (pos : Nat) (s : StructDef) : StructDef :=
  { s with levels := s.levels.map fun l => if l.cls == cls then { l with fields := l.fields.insertIdx pos g } else l }

/-- ... in every chain of the environment: the class itself and all its descendants -/
def addFieldEnv (A : Env) (g : FieldDef) (cls : String) (pos : Nat) : Env :=
  { A with structs := A.structs.map (insertField g cls pos) }

theorem insertField_cls (g : FieldDef) (cls : String) (pos : Nat) (s : StructDef) : (insertField g cls pos s).cls = s.cls := rfl

theorem addFieldEnv_struct? (A : Env) (g : FieldDef) (cls : String) (pos : Nat) (c : String) :
    (addFieldEnv A g cls pos).struct? c = (A.struct? c).map (insertField g cls pos) := by
  simp only [Env.struct?, addFieldEnv]
  induction A.structs with
  | nil => rfl
  | cons s rest ih =>
    simp only [List.map_cons, List.find?_cons, insertField_cls]
    split
    · rfl
    · exact ih

theorem addFieldEnv_union? (A : Env) (g : FieldDef) (cls : String) (pos : Nat) (c : String) :
    (addFieldEnv A g cls pos).union? c = A.union? c := rfl

theorem mem_insertIdx_self_or {α} (x y : α) : ∀ (l : List α) (n : Nat), y ∈ l.insertIdx n x → y = x ∨ y ∈ l
  | l, 0, h => by simpa [List.insertIdx] using h
  | [], n + 1, h => by simp [List.insertIdx] at h
  | a :: l, n + 1, h => by
    simp only [List.insertIdx_succ_cons, List.mem_cons] at h
    rcases h with h | h
    · exact .inr (by simp [h])
    · rcases mem_insertIdx_self_or x y l n h with h' | h'
      · exact .inl h'
      · exact .inr (List.mem_cons_of_mem _ h')

theorem mem_insertIdx_of_mem {α} (x y : α) : ∀ (l : List α) (n : Nat), y ∈ l → y ∈ l.insertIdx n x
  | l, 0, h => by simp [List.insertIdx, h]
  | [], n + 1, h => by cases h
  | a :: l, n + 1, h => by
    simp only [List.insertIdx_succ_cons, List.mem_cons]
    rcases List.mem_cons.mp h with h | h
    · exact .inl h
    · exact .inr (mem_insertIdx_of_mem x y l n h)

theorem insertField_attrs_keep (g : FieldDef) (cls : String) (pos : Nat) (s : StructDef) :
    ∀ f ∈ s.allAttrs, f ∈ (insertField g cls pos s).allAttrs := by
  intro f hf
  simp only [StructDef.allAttrs, insertField, List.mem_flatMap, List.mem_map] at hf ⊢
  obtain ⟨l, hl, hfl⟩ := hf
  refine ⟨_, ⟨l, hl, rfl⟩, ?_⟩
  split
  · exact mem_insertIdx_of_mem g f l.fields pos hfl
  · exact hfl

theorem insertField_attrs_new (g : FieldDef) (cls : String) (pos : Nat) (s : StructDef) :
    ∀ h ∈ (insertField g cls pos s).allAttrs, h ∈ s.allAttrs ∨ h = g := by
  intro h hh
  simp only [StructDef.allAttrs, insertField, List.mem_flatMap, List.mem_map] at hh ⊢
  obtain ⟨l', ⟨l, hl, rfl⟩, hfl⟩ := hh
  split at hfl
  · rcases mem_insertIdx_self_or g h l.fields pos hfl with h1 | h1
    · exact .inr h1
    · exact .inl ⟨l, hl, h1⟩
  · exact .inl ⟨l, hl, hfl⟩

/-- ADD AN OPTIONAL / DEFAULTED FIELD, environment level.  `B` = `A` with `g` inserted into the level of `cls` in every chain
(so the field also appears in every subclass, in every struct used as union member / list element / map value ...).  If `B`
is again well formed (the name is new along every chain) and `g` is optional or defaulted, `A` is an older version of `B`
at every type. -/
theorem edit_add_field_env {A : Env} (hA : envWF A = true) (g : FieldDef) (cls : String) (pos : Nat)
    (hB : envWF (addFieldEnv A g cls pos) = true) (hg : newFieldOk (addFieldEnv A g cls pos) g = true) :
    compatEnv (Rho.idOf A) A (addFieldEnv A g cls pos) = true := by
  have href := compatEnv_refl hA
  simp only [compatEnv, Bool.and_eq_true, idOf_wf, List.all_eq_true, true_and] at href ⊢
  intro p hp
  have hd := idOf_diag hp
  obtain ⟨a, b⟩ := p
  simp only at hd
  subst hd
  have hpa := href (a, a) hp
  simp only [pairOk, Bool.and_eq_true, Bool.or_eq_true] at hpa ⊢
  refine ⟨⟨hpa.1.1, ?_⟩, ?_⟩
  · cases hsa : A.struct? a with
    | none => simp
    | some sa =>
      right
      have hsb : (addFieldEnv A g cls pos).struct? a = some (insertField g cls pos sa) := by
        rw [addFieldEnv_struct?, hsa]; rfl
      have hwa := struct_wf hA hsa
      have hrefl := structSub_refl hA hsa
      -- the subtype clause is the one of reflexivity (the tables are untouched)
      unfold structSub at hrefl ⊢
      simp only [hsa, hsb, Bool.and_eq_true, List.all_eq_true] at hrefl ⊢
      have hndB := struct_nodup (struct_wf hB hsb)
      refine ⟨⟨?_, ?_⟩, hrefl.2⟩
      · intro f hf
        rw [find_name_of_mem hndB (insertField_attrs_keep g cls pos sa f hf)]
        have hty : tyWF A f.ty = true := by
          have := hwa
          simp only [StructDef.wf, Bool.and_eq_true, List.all_eq_true] at this
          exact (this.1.1.2 f hf).1
        simp [fieldSub, tySub_refl f.ty hty]
      · intro h hh
        rw [Bool.or_eq_true]
        rcases insertField_attrs_new g cls pos sa h hh with h1 | h1
        · left
          cases hq : sa.allAttrs.find? (·.name == h.name) with
          | some _ => rfl
          | none =>
            have := List.find?_eq_none.mp hq h h1
            simp at this
        · right; rw [h1]; exact hg
  · cases hua : A.union? a with
    | none => simp
    | some ua =>
      right
      have := unionSub_refl hA hua
      unfold unionSub at this ⊢
      rw [addFieldEnv_union?]
      exact this

end StoneVerif.Rt.Compat
