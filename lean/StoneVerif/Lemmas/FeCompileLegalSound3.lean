import StoneVerif.Lemmas.FeCompileLegalSound2
set_option linter.unusedSimpArgs false
/-!
Accepted input obeys the rules, concluded: enumerated subtypes read backwards, and the clauses of `LegalCore` put together.
-/
namespace StoneVerif.FeCompile.L
open StoneVerif.FeCompile
open StoneVerif.FeParams (TyKind TyVal)

theorem optMapM_length {α β} {g : α → Option β} : ∀ {l : List α} {l'}, optMapM g l = some l' → l'.length = l.length
  | [], l', h => by simp only [optMapM] at h; cases h; rfl
  | x :: l, l', h => by
    simp only [optMapM] at h
    split at h
    · rename_i y ys _ hys
      cases h
      simp [optMapM_length hys]
    · cases h

theorem denoteType_field {rx fs ns d c f} (h : denoteType rx fs ns d = some c) (hf : f ∈ d.fields) :
    ∃ cf, cf ∈ c.fields ∧ denoteField rx fs ns (d.kind == .struct) f = some cf := by
  unfold denoteType at h
  split at h
  · rename_i parent fields _ hfs
    obtain ⟨cf, hcf, hd⟩ := optMapM_mem' hfs f hf
    split at h
    · cases h; exact ⟨cf, hcf, hd⟩
    · cases h
      refine ⟨cf, ?_, hd⟩
      simp only
      split
      · exact List.mem_append_left _ hcf
      · exact hcf
  · cases h

/-- the static tests of pass 3, the legality of every `?`, the tests of passes 4 and 5: the type obeys its rules -/
theorem typeLegal_of_parts {rx fs ns d c} (hs : TypeStat rx fs ns d c) (hden : denoteType rx fs ns d = some c)
    (hnull : ∀ f, f ∈ c.fields → tyNullLegal (aliasS rx fs) (fuelA fs) f.ty = true)
    (hdef : d.kind = .struct → ∀ f, f ∈ c.fields →
      isOk (defaultLegal (fuelA fs) (aliasS rx fs) (fun k => isUnionKind (kindS fs k)) f) = true)
    (henum : enumLegal rx fs ns d c = true) : typeLegal rx fs ns d = true := by
  obtain ⟨anc, hanc, hany⟩ := hs.anc
  unfold typeLegal
  cases hk : d.kind with
  | struct =>
    have hmem : d.fields.all (structMemberLegal rx fs ns) = true := by
      simp only [List.all_eq_true]
      intro f hf
      have hm := hs.members f hf
      simp only [hk, beq_self_eq_true, MemberStat, ↓reduceIte] at hm
      obtain ⟨r, t, h1, h2, h3, h4, h5⟩ := hm
      obtain ⟨cf, hcf, hdf⟩ := denoteType_field hden hf
      have hty : cf.ty = t := by
        unfold denoteField at hdf
        simp only [h1, h3, Option.map_some, Option.some.injEq] at hdf
        rw [← hdf]
      have hn := hnull cf hcf
      rw [hty] at hn
      unfold structMemberLegal refLegal
      simp [h1, h2, h3, hn, h4, h5]
    have hdef' : (c.fields.all fun f =>
        isOk (defaultLegal (fuelA fs) (aliasS rx fs) (fun k => isUnionKind (kindS fs k)) f)) = true := by
      simp only [List.all_eq_true]; exact hdef hk
    simp only [hs.ext, hmem, hden, hs.nodup, hanc, hany, hdef', henum, Bool.not_false, Bool.and_self]
  | union closed =>
    have hmem : d.fields.all (unionMemberLegal rx fs ns) = true := by
      simp only [List.all_eq_true]
      intro f hf
      have hm := hs.members f hf
      have hkb : (TypeKind.union closed == TypeKind.struct) = false := by cases closed <;> rfl
      simp only [hk, hkb, MemberStat, Bool.false_eq_true, ↓reduceIte] at hm
      obtain ⟨hname, hty⟩ := hm
      unfold unionMemberLegal
      have hne : (f.name != "other") = true := by simpa using hname
      rcases hty with hty | ⟨r, t, h1, h2, h3, h4⟩
      · simp [hne, hty]
      · obtain ⟨cf, hcf, hdf⟩ := denoteType_field hden hf
        have hty : cf.ty = t := by
          unfold denoteField at hdf
          simp only [h1, h3, Option.map_some, Option.some.injEq] at hdf
          rw [← hdf]
        have hn := hnull cf hcf
        rw [hty] at hn
        unfold refLegal
        simp [hne, h1, h2, h3, hn, h4]
    simp only [hs.ext, hmem, hden, hs.nodup, hanc, hany, henum, Bool.not_false, Bool.and_self]

/-! ## enumerated subtypes, read backwards -/

theorem Final.subtypes_sup {rx E fs st} (hE : EnvOK2 E fs) (hF : Final rx E fs st) (self k : Key)
    (h : k ∈ subtypesS rx fs self) : k ∈ subtypesOf st self := by
  unfold subtypesS at h
  simp only [List.mem_filterMap] at h
  obtain ⟨⟨ns', dd⟩, hm, hk⟩ := h
  cases dd with
  | type d' =>
    simp only at hk
    split at hk
    · rename_i hpar
      cases hk
      have hdecl : Decl.type d' ∈ declsOf fs ns' := mem_declsOf.mpr (by rw [← allPairs_eq]; exact hm)
      have hns : ns' ∈ E.nss := by rw [hE.ok.nss]; exact ns_of_decl hdecl
      obtain ⟨c', hl, hden⟩ := hF.lookupDecl hE hns (mem_typeDecls.mpr hdecl)
      have hp := denoteType_parent hden
      simp only [beq_iff_eq] at hpar
      rw [hpar] at hp
      simp only [Option.some.injEq] at hp
      unfold subtypesOf
      simp only [List.mem_map, List.mem_filter, beq_iff_eq]
      exact ⟨((ns', d'.name), c'), ⟨mem_of_lookup hl, hp.symm⟩, rfl⟩
    · cases hk
  | «alias» _ _ | route _ | imp _ | annot _ _ | annotType _ | patch _ | aliasAnnots _ _ => simp at hk

theorem subtypeFields_sound {rx E fs st ns} (hE : EnvOK2 E fs) (hlook : lookOf st.aliases = aliasS rx fs) :
    ∀ {subs : List (String × TRef)} {fields}, subtypeFields rx E st ns subs = .ok fields →
      ∀ p, p ∈ subs → subtypeRefLegal rx fs ns p = true
  | [], _, _, p, hp => by simp at hp
  | (tag, r) :: subs, fields, h, p, hp => by
    simp only [subtypeFields] at h
    split at h
    · cases h
    · rename_i hknown
      split at h
      · cases h
      · rename_i t ht
        split at h
        · rename_i k
          split at h
          · rename_i hkind
            split at h
            · cases h
            · rename_i fs' hfs
              simp only [List.mem_cons] at hp
              rcases hp with rfl | hp
              · obtain ⟨hleg, hd⟩ := refLegal_of_resolve hE hlook ht
                have hkn : known fs ns r.head.name = true := by
                  rw [← hE.known_eq]
                  cases hl : E.lookup ns r.head.name with
                  | none => simp [hl] at hknown
                  | some e => rfl
                unfold subtypeRefLegal
                simp only [hkn, hleg, hd, Bool.true_and]
                rw [← hE.ok.kindOf_eq]
                exact hkind
              · exact subtypeFields_sound hE hlook hfs p hp
          · cases h
        · cases h

theorem enumFirst_facts {rx E st ns} : ∀ {ds : List TypeDecl} {en en'}, enumFirst rx E st ns en ds = .ok en' →
    ∀ d, d ∈ ds → ∀ subs ca, enumOf d = some (subs, ca) → ∃ c fields, st.done.lookup (ns, d.name) = some c ∧
      subtypeFields rx E st ns subs = .ok fields ∧ setEnumerated st (ns, d.name) c fields = .ok ()
  | [], _, _, _, d, hd, _, _, _ => by simp at hd
  | d0 :: ds, en, en', h, d, hd, subs, ca, he => by
    simp only [enumFirst] at h
    simp only [List.mem_cons] at hd
    split at h
    · rename_i subs0 ca0 he0
      split at h
      · cases h
      · rename_i c hc
        split at h
        · cases h
        · rename_i fields hfields
          split at h
          · cases h
          · rename_i hset
            rcases hd with rfl | hd
            · rw [he0] at he
              cases he
              exact ⟨c, fields, hc, hfields, hset⟩
            · exact enumFirst_facts h d hd subs ca he
    · rename_i he0
      rcases hd with rfl | hd
      · rw [he0] at he; cases he
      · exact enumFirst_facts h d hd subs ca he

theorem enumSecond_facts {st ns en} : ∀ {ds : List TypeDecl}, enumSecond st ns en ds = .ok () →
    ∀ d, d ∈ ds → hasEnum en (ns, d.name) = true → d.kind = .struct → ∀ fs' ca, en.lookup (ns, d.name) = some (fs', ca) →
      (fs'.any fun p => !hasEnum en p.2 && !(subtypesOf st p.2).isEmpty) = false
  | [], _, d, hd, _, _, _, _, _ => by simp at hd
  | d0 :: ds, h, d, hd, hen, hk, fs', ca, hl => by
    simp only [enumSecond] at h
    simp only [List.mem_cons] at hd
    rcases hd with rfl | hd
    · simp only [hen, hk, beq_self_eq_true, Bool.and_self, ↓reduceIte, hl] at h
      cases hany : (fs'.any fun p => !hasEnum en p.2 && !(subtypesOf st p.2).isEmpty) with
      | false => rfl
      | true => simp [hany] at h
    · have htail : enumSecond st ns en ds = .ok () := by
        by_cases hc : (hasEnum en (ns, d0.name) && d0.kind == .struct) = true
        · simp only [hc, ↓reduceIte] at h
          cases hlk : en.lookup (ns, d0.name) with
          | none => simpa [hlk] using h
          | some v =>
            obtain ⟨fs0, ca0⟩ := v
            simp only [hlk] at h
            cases ha : (fs0.any fun p => !hasEnum en p.2 && !(subtypesOf st p.2).isEmpty) with
            | true => simp [ha] at h
            | false => simpa [ha] using h
        · simpa [hc] using h
      exact enumSecond_facts htail d hd hen hk fs' ca hl

/-- per namespace: the table before and after its first loop, both loops accepted -/
theorem pass5_facts {rx E fs st} (hE : EnvOK2 E fs) : ∀ {nss : List String} {en en'}, EnInv rx E fs en →
    pass5Nss rx E st en nss = .ok en' → ∀ ns, ns ∈ nss → ∃ en0 en1, EnInv rx E fs en1 ∧
      enumFirst rx E st ns en0 (typeDecls (declsOf fs ns)) = .ok en1 ∧
      enumSecond st ns en1 (typeDecls (declsOf fs ns)) = .ok () ∧
      (∀ d, d ∈ typeDecls (declsOf fs ns) → hasSub d = true → (en1.lookup (ns, d.name)).isSome)
  | [], _, _, _, _, ns, hns => by simp at hns
  | ns0 :: nss, en, en', hEn, h, ns, hns => by
    simp only [pass5Nss, hE.ok.files] at h
    split at h
    · cases h
    · rename_i en1 h1
      split at h
      · cases h
      · rename_i h2
        obtain ⟨hEn1, _, hcomp⟩ := enumFirst_inv hE.ok (fun d hm => hE.ok.lookup_type hm) hEn h1
        simp only [List.mem_cons] at hns
        rcases hns with rfl | hns
        · exact ⟨en, en1, hEn1, h1, h2, hcomp⟩
        · exact pass5_facts hE hEn1 h ns hns

theorem enumLegal_of_facts {rx E fs st ns d c en1} (hE : EnvOK2 E fs) (hF : Final rx E fs st)
    (hd : d ∈ typeDecls (declsOf fs ns)) (hl : st.done.lookup (ns, d.name) = some c)
    (hEn1 : EnInv rx E fs en1)
    (hfirst : ∀ subs ca, enumOf d = some (subs, ca) → ∃ c' fields, st.done.lookup (ns, d.name) = some c' ∧
      subtypeFields rx E st ns subs = .ok fields ∧ setEnumerated st (ns, d.name) c' fields = .ok ())
    (hsecond : hasEnum en1 (ns, d.name) = true → d.kind = .struct → ∀ fs' ca, en1.lookup (ns, d.name) = some (fs', ca) →
      (fs'.any fun p => !hasEnum en1 p.2 && !(subtypesOf st p.2).isEmpty) = false)
    (hcomp : hasSub d = true → (en1.lookup (ns, d.name)).isSome) : enumLegal rx fs ns d c = true := by
  unfold enumLegal
  cases he : enumOf d with
  | none => rfl
  | some p =>
    obtain ⟨subs, ca⟩ := p
    simp only
    obtain ⟨c', fields, hl', hsf, hset⟩ := hfirst subs ca he
    rw [hl] at hl'
    cases hl'
    have hlook := hF.lookEq hE
    have hopt := subtypeFields_denote hE.ok hsf
    have hall : subs.all (subtypeRefLegal rx fs ns) = true := by
      rw [List.all_eq_true]; exact subtypeFields_sound hE hlook hsf
    have hcheck : enumCheck (fun k => (typeS rx fs k).bind (·.parent)) (subtypesS rx fs (ns, d.name)) (ns, d.name) c fields = .ok () := by
      unfold setEnumerated at hset
      rw [hF.parentEq hE] at hset
      exact enumCheck_mono (hF.subtypes_sup hE (ns, d.name)) hset
    have hne : fields.isEmpty = false := by
      rw [enumCheck_ok_iff] at hcheck
      obtain ⟨_, _, _, h3, _⟩ := hcheck
      exact h3
    -- the second loop saw this struct
    have hkind : d.kind = .struct := by
      unfold enumOf at he
      split at he
      · assumption
      · cases he
    obtain ⟨v, hv⟩ := Option.isSome_iff_exists.mp (hcomp (by simp [hasSub, he]))
    obtain ⟨d', subs', hd', hen', hopt'⟩ := hEn1 _ _ (mem_of_lookup hv)
    rw [hE.ok.lookup_type hd] at hd'
    cases hd'
    rw [he] at hen'
    simp only [Option.some.injEq, Prod.mk.injEq] at hen'
    obtain ⟨rfl, hca⟩ := hen'
    simp only at hopt'
    rw [hopt] at hopt'
    simp only [Option.some.injEq] at hopt'
    have hv' : en1.lookup (ns, d.name) = some (fields, v.2) := by rw [hv, hopt']
    have hhas : hasEnum en1 (ns, d.name) = true := by unfold hasEnum; rw [hv']; simp [hne]
    have hany := hsecond hhas hkind fields v.2 hv'
    have hfields : fields.all (fun p => hasEnumS fs p.2 || (subtypesS rx fs p.2).isEmpty) = true := by
      rw [List.all_eq_true]
      intro p hp
      rw [Bool.eq_false_iff, ne_eq, List.any_eq_true] at hany
      by_cases hh : hasEnum en1 p.2 = true
      · -- the table holds an entry for `p.2`: it declares enumerated subtypes
        obtain ⟨fs'', ca'', hlk⟩ := hasEnum_lookup hh
        obtain ⟨d'', subs'', hd'', hen'', hopt''⟩ := hEn1 _ _ (mem_of_lookup hlk)
        obtain ⟨dd, hf, hdd⟩ := hE.ok.findDef_of_lookup (ns := p.2.1) (n := p.2.2) hd'' (Or.inl ⟨d'', rfl⟩)
        cases dd <;> simp [itemOf] at hdd
        subst hdd
        have hnonempty : subs''.isEmpty = false := by
          have hlen := optMapM_length hopt''
          simp only at hlen
          unfold hasEnum at hh
          rw [hlk] at hh
          simp only [Bool.not_eq_eq_eq_not, Bool.not_true] at hh
          cases subs'' with
          | nil => simp at hlen; rw [hlen] at hh; simp at hh
          | cons _ _ => rfl
        have : hasEnumS fs p.2 = true := by
          unfold hasEnumS
          rw [hf]
          simp [hen'', hnonempty]
        simp [this]
      · have hemp : (subtypesOf st p.2).isEmpty = true := by
          cases hem : (subtypesOf st p.2).isEmpty with
          | true => rfl
          | false =>
            exfalso
            exact hany ⟨p, hp, by simp [hh, hem]⟩
        have : (subtypesS rx fs p.2).isEmpty = true := isEmpty_of_sub (hF.subtypes_sup hE p.2) hemp
        simp [this]
    simp only [hall, hopt, hcheck, isOk, hfields, Bool.and_self]

end StoneVerif.FeCompile.L
