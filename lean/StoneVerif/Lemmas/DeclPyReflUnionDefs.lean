import StoneVerif.Lemmas.DeclPyReflStruct
namespace StoneVerif.DeclPy

/-! ### the parts of a union's reflection block -/

def uTagVals (cur : Name) (d : DataType) : List Stmt :=
  d.fields.flatMap fun f =>
    [Stmt.assign (fmtClass d.name) (some ("_" ++ fmtVar f.name ++ "_validator")) none
      (here (fmtClass d.name) :: tyRefs cur f.ty)]
    ++ (if f.redact then [Stmt.assign (fmtClass d.name) (some ("_" ++ fmtVar f.name ++ "_validator" ++ "._redact")) none
      [here (fmtClass d.name) (some ("_" ++ fmtVar f.name ++ "_validator"))]] else [])

def uPerm (api : Api) (d : DataType) : List Stmt :=
  if (dedup (d.ownCallers ++ sParentCallers api d)).isEmpty then []
  else [Stmt.assign (fmtClass d.name) (some "_permissioned_tagmaps") none [here (fmtClass d.name)]]

def uCallerBody (api : Api) (cur : Name) (d : DataType) (oc : Option Name) : List Stmt :=
  [Stmt.assign (fmtClass d.name) (some (tagmapName oc)) none
    (here (fmtClass d.name) :: (d.fields.filter (·.caller == oc)).map
      fun f => here (fmtClass d.name) (some ("_" ++ fmtVar f.name ++ "_validator")))]
  ++ (if cipB api d oc then match baseRef cur d with
        | some p => [Stmt.expr [here (fmtClass d.name) (some (tagmapName oc)), { p with attr := some (tagmapName oc) }]]
        | none => []
      else [])

def uSymbols (d : DataType) : List Stmt :=
  (d.fields.filter (·.ty.isVoid)).map fun f =>
    Stmt.assign (fmtClass d.name) (some (fmtFunc f.name)) none
      [here (fmtClass d.name), here (fmtClass d.name) (some "_tagmap")]

theorem unionRefl_eq (api : Api) (cur : Name) (d : DataType) :
    unionReflStmts api cur d
      = uTagVals cur d ++ uPerm api d ++ (sCallers api d).flatMap (uCallerBody api cur d) ++ uSymbols d := rfl

end StoneVerif.DeclPy
