import StoneVerif.Lemmas.FeCompileInv
set_option linter.unusedSimpArgs false
/-!
The explicit fuel of `populate` (the depth-first population of parents): number of type declarations + 1 is enough.
Every recursive call puts a registered type key that is not yet in progress into `prog`, so the number of registered
type keys outside `prog` decreases.
-/
namespace StoneVerif.FeCompile.L
open StoneVerif.FeCompile
open StoneVerif.FeParams (TyKind)

theorem wrapNull_fuel {fu A b t} : wrapNull fu A b t ≠ .error .outOfFuel := by
  unfold wrapNull
  split
  · simp
  · have hu : ∀ (f : Nat) (t : Ty), unwrapAliases A f t ≠ .error .outOfFuel := by
      intro f
      induction f with
      | zero => intro t; cases t <;> simp [unwrapAliases]
      | succ f ih =>
        intro t
        cases t <;> simp [unwrapAliases]
        split
        · simp
        · exact ih _
    split
    · rename_i e he
      intro h
      cases h
      exact hu _ _ he
    all_goals simp

theorem finish_fuel {fu A w h t} : finish fu A w h t ≠ .error .outOfFuel := by
  unfold finish
  split
  · exact wrapNull_fuel
  · simp

theorem instBuiltin_fuel {rx k tys lits kw} : instBuiltin rx k tys lits kw ≠ .error .outOfFuel := by
  unfold instBuiltin
  split <;> simp

theorem nonClass_fuel {ens h b e} : nonClass ens h b e ≠ .error .outOfFuel := by
  unfold nonClass
  split <;> (try split) <;> simp

theorem headLookup_fuel {E cur h} : headLookup E cur h ≠ .error .outOfFuel := by
  unfold headLookup
  split
  · split
    · simp
    · split <;> simp
    · simp
  · split <;> simp

theorem resolveW_fuel {rx E A} : ∀ (r : TRef) {wrap cur}, resolveW rx E A wrap cur r ≠ .error .outOfFuel
  | .leaf h lits, wrap, cur => by
    simp only [resolveW]
    split
    · rename_i e he; intro hh; cases hh; exact headLookup_fuel he
    · split
      · simp
      · split
        · rename_i e he; intro hh; cases hh; exact instBuiltin_fuel he
        · exact finish_fuel
    · split
      · rename_i e he; intro hh; cases hh; exact nonClass_fuel he
      · exact finish_fuel
  | .app1 h a, wrap, cur => by
    simp only [resolveW]
    split
    · rename_i e he; intro hh; cases hh; exact headLookup_fuel he
    · split
      · simp
      · split
        · rename_i e he; intro hh; cases hh; exact resolveW_fuel a he
        · split
          · rename_i e he; intro hh; cases hh; exact instBuiltin_fuel he
          · exact finish_fuel
    · split
      · rename_i e he; intro hh; cases hh; exact nonClass_fuel he
      · exact finish_fuel
  | .app2 h a b, wrap, cur => by
    simp only [resolveW]
    split
    · rename_i e he; intro hh; cases hh; exact headLookup_fuel he
    · split
      · simp
      · split
        · rename_i e he; intro hh; cases hh; exact resolveW_fuel a he
        · split
          · rename_i e he; intro hh; cases hh; exact resolveW_fuel b he
          · split
            · rename_i e he; intro hh; cases hh; exact instBuiltin_fuel he
            · exact finish_fuel
    · split
      · rename_i e he; intro hh; cases hh; exact nonClass_fuel he
      · exact finish_fuel

theorem mapFields_fuel {g : AField → Except Err CField} (hg : ∀ f, g f ≠ .error .outOfFuel) :
    ∀ l, mapFields g l ≠ .error .outOfFuel
  | [] => by simp [mapFields]
  | f :: l => by
    simp only [mapFields]
    split
    · rename_i e he; intro hh; cases hh; exact hg f he
    · split
      · rename_i e he; intro hh; cases hh; exact mapFields_fuel hg l he
      · simp

theorem structField_fuel {rx E A ns f} : structField rx E A ns f ≠ .error .outOfFuel := by
  unfold structField
  split
  · simp
  · split
    · rename_i e he; intro hh; cases hh; exact resolveW_fuel _ he
    · split
      · simp
      · split <;> simp

theorem unionField_fuel {rx E A ns f} : unionField rx E A ns f ≠ .error .outOfFuel := by
  unfold unionField
  split
  · simp
  · split
    · simp
    · split
      · rename_i e he; intro hh; cases hh; exact resolveW_fuel _ he
      · split <;> simp

theorem setAttributes_fuel {fu st key c} : setAttributes fu st key c ≠ .error .outOfFuel := by
  have ha : ∀ (done : Key → Option CType) (f : Nat) (p : Option Key), ancestorNames done f p ≠ .error .outOfFuel := by
    intro done f
    induction f with
    | zero => intro p; cases p <;> simp [ancestorNames]
    | succ f ih =>
      intro p
      cases p with
      | none => simp [ancestorNames]
      | some k =>
        simp only [ancestorNames]
        split
        · simp
        · split
          · rename_i e he; intro hh; cases hh; exact ih _ he
          · simp
  unfold setAttributes
  split
  · simp
  · split
    · rename_i e he; intro hh; cases hh; exact ha _ _ _ he
    · split <;> simp

theorem populateStep_fuel {rx E st key d pty} : populateStep rx E st key d pty ≠ .error .outOfFuel := by
  unfold populateStep
  split
  · split
    · rename_i e he
      intro hh; cases hh
      unfold structParentOpt at he
      split at he
      · cases he
      · split at he
        · cases he
        · rename_i e' he'
          cases he
          unfold structParent at he'
          split at he' <;> try cases he'
          split at he' <;> cases he'
    · split
      · rename_i e he; intro hh; cases hh; exact mapFields_fuel (fun f => structField_fuel) _ he
      · exact setAttributes_fuel
  · split
    · rename_i e he
      intro hh; cases hh
      unfold unionParentOpt at he
      split at he
      · cases he
      · split at he
        · cases he
        · rename_i e' he'
          cases he
          unfold unionParent at he'
          split at he' <;> try cases he'
          split at he' <;> cases he'
    · split
      · rename_i e he; intro hh; cases hh; exact mapFields_fuel (fun f => unionField_fuel) _ he
      · split
        · simp
        · exact setAttributes_fuel

/-- the (namespace, name) of every type declaration -/
def typeKeys (fs : List File) : List Key := fs.flatMap fun f => (typeDecls f.decls).map fun d => (f.ns, d.name)

/-- registered type keys that are not in progress -/
def slack (fs : List File) (prog : List Key) : Nat := ((typeKeys fs).filter (fun k => !prog.contains k)).length

theorem mem_typeKeys {fs : List File} {k : Key} {d : TypeDecl} (h : Decl.type d ∈ declsOf fs k.1) (hn : d.name = k.2) :
    k ∈ typeKeys fs := by
  simp only [declsOf, List.mem_flatMap, List.mem_filter, beq_iff_eq] at h
  obtain ⟨f, ⟨hf, hns⟩, hd⟩ := h
  simp only [typeKeys, List.mem_flatMap, List.mem_map]
  exact ⟨f, hf, d, mem_typeDecls.mpr hd, by rw [hns, hn]⟩

theorem filter_length_lt {α} (p q : α → Bool) (hpq : ∀ x, q x = true → p x = true) :
    ∀ (l : List α) (a : α), a ∈ l → p a = true → q a = false → (l.filter q).length < (l.filter p).length
  | [], a, h, _, _ => by simp at h
  | x :: l, a, h, hp, hq => by
    have hle : ∀ (l : List α), (l.filter q).length ≤ (l.filter p).length := by
      intro l
      induction l with
      | nil => simp
      | cons y l ih =>
        simp only [List.filter_cons]
        cases hqy : q y with
        | true => simp [hpq y hqy]; exact ih
        | false =>
          cases hpy : p y with
          | true => simp; omega
          | false => simpa using ih
    simp only [List.mem_cons] at h
    simp only [List.filter_cons]
    rcases h with rfl | h
    · simp [hp, hq]
      have := hle l; omega
    · have ih := filter_length_lt p q hpq l a h hp hq
      cases hqx : q x with
      | true => simp [hpq x hqx]; exact ih
      | false =>
        cases hpx : p x with
        | true => simp; omega
        | false => simpa using ih

theorem slack_cons_lt {fs prog k} (hk : k ∈ typeKeys fs) (hp : prog.contains k = false) :
    slack fs (k :: prog) < slack fs prog := by
  unfold slack
  have hmem : ∀ x, prog.contains x = false → ¬ x ∈ prog := by
    intro x hx hm
    rw [List.contains_iff_mem.mpr hm] at hx
    cases hx
  refine filter_length_lt _ _ ?_ _ k hk (by simp [hmem k hp]) (by simp)
  intro x hx
  simp only [List.contains_cons, Bool.not_or, Bool.and_eq_true, Bool.not_eq_eq_eq_not, Bool.not_true] at hx
  simp [hmem x hx.2]

/-- with more fuel than registered type keys outside `prog`, `populate` does not run out of it -/
theorem populate_fuel {rx E fs} (hE : EnvOK E fs) : ∀ (fuel : Nat) {prog st key d}, slack fs prog < fuel →
    populate rx E fuel prog st key d ≠ .error .outOfFuel
  | 0, _, _, _, _, h => by omega
  | fuel + 1, prog, st, key, d, hs => by
    simp only [populate]
    split
    · exact populateStep_fuel
    · split
      · rename_i e he; intro hh; cases hh; exact resolveW_fuel _ he
      · rename_i t _
        split
        · rename_i e he
          intro hh; cases hh
          split at he
          · rename_i k
            split at he
            · cases he
            · split at he
              · cases he
              · rename_i hnp
                split at he
                · rename_i d' hd'
                  have hk := hE.type_decl hd'
                  have hlt := slack_cons_lt (prog := prog) (mem_typeKeys hk.1 hk.2) (by simpa using hnp)
                  exact populate_fuel hE fuel (by omega) he
                · cases he
          · cases he
        · split
          · rename_i e he; intro hh; cases hh; exact wrapNull_fuel he
          · exact populateStep_fuel

theorem typeDecls_append (a b : List Decl) : typeDecls (a ++ b) = typeDecls a ++ typeDecls b := by
  induction a with
  | nil => rfl
  | cons x a ih => cases x <;> simp [typeDecls, ih]

theorem typeKeys_length (fs : List File) : (typeKeys fs).length = (allTypeDecls fs).length := by
  unfold typeKeys allTypeDecls
  induction fs with
  | nil => rfl
  | cons f fs ih =>
    simp only [List.flatMap_cons, List.length_append, List.length_map, typeDecls_append]
    omega

/-- **fuel = number of type declarations + 1 suffices** for every call the passes make -/
theorem populate_fuel_sufficient {rx E fs} (hE : EnvOK E fs) (st : St) (key : Key) (d : TypeDecl) :
    populate rx E (populateFuel E) [key] st key d ≠ .error .outOfFuel := by
  apply populate_fuel hE
  unfold populateFuel slack
  rw [hE.files, ← typeKeys_length]
  have := List.length_filter_le (fun k => !([key].contains k)) (typeKeys fs)
  omega

end StoneVerif.FeCompile.L
