import StoneVerif.Lemmas.FeCompileAnnot
set_option linter.unusedSimpArgs false
/-!
The route-attribute stage tests exactly the rules for `stone_cfg` and route attributes: the compiled aliases and
types it looks things up with are the specification-level maps.  Whatever the value test `vc` is, `compileFull`
accepts exactly the `LegalFull` sets of files.
-/
namespace StoneVerif.FeCompile.L
open StoneVerif.FeCompile

/-- **route attributes.** the stage accepts exactly what obeys the rules -/
theorem routeAttrs_ok_iff {rx vc E fs api} (hE : EnvOK E fs) (h : compileCore rx fs = .ok api) :
    isOk (checkRouteAttrs vc fs api) = routeAttrsLegal rx vc fs := by
  have hd := compile_denote h
  unfold checkRouteAttrs checkRouteAttrsG routeAttrsLegal
  rw [alias?_eq hE hd, type?_eq hE hd]
  cases validateCfg fs with
  | error e => simp [isOk]
  | ok u =>
    cases u
    simp only [isOk, Bool.true_and]
    cases schemaFields (typeS rx fs) (fuelT fs) fs with
    | error e => rfl
    | ok schema => exact firstErr_isOk _ _

theorem compileFull_parts {rx vc fs api} (h : compileFull rx vc fs = .ok api) :
    compile rx fs = .ok api ∧ checkRouteAttrs vc (mergeFiles fs) api = .ok () := by
  unfold compileFull at h
  split at h
  · cases h
  · rename_i api' hc
    split at h
    · cases h
    · rename_i hr
      cases h
      exact ⟨hc, hr⟩

/-- what `compileFull` accepts, `compile` accepts with the same result: the theorems about the result carry over -/
theorem compileFull_compile {rx vc fs api} (h : compileFull rx vc fs = .ok api) : compile rx fs = .ok api :=
  (compileFull_parts h).1

/-- **accepted = legal**, patches, applied annotations and route attributes included -/
theorem compileFull_ok_iff_legalFull (rx : String → Bool) (vc : ValCk) (fs : List File) (hl : nsLexical fs = true) :
    (∃ api, compileFull rx vc fs = .ok api) ↔ LegalFull rx vc fs = true := by
  unfold LegalFull
  rw [Bool.and_eq_true]
  constructor
  · rintro ⟨api, h⟩
    obtain ⟨hc, hr⟩ := compileFull_parts h
    obtain ⟨hcore, _, E', _, _, hE', _⟩ := compile_parts hc
    refine ⟨(compile_ok_iff_legal_full rx fs hl).mp ⟨api, hc⟩, ?_⟩
    rw [← routeAttrs_ok_iff (buildEnv_ok2 hE').ok hcore, hr]; rfl
  · rintro ⟨hL, hr⟩
    obtain ⟨api, hc⟩ := (compile_ok_iff_legal_full rx fs hl).mpr hL
    obtain ⟨hcore, _, E', _, _, hE', _⟩ := compile_parts hc
    have hra := routeAttrs_ok_iff (vc := vc) (buildEnv_ok2 hE').ok hcore
    rw [hr] at hra
    refine ⟨api, ?_⟩
    unfold compileFull
    simp only [hc]
    cases hca : checkRouteAttrs vc (mergeFiles fs) api with
    | error e => rw [hca] at hra; cases hra
    | ok u => cases u; rfl

end StoneVerif.FeCompile.L
