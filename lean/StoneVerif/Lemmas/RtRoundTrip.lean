import StoneVerif.Lemmas.RtRoundTrip.Basic
import StoneVerif.Lemmas.RtRoundTrip.Tables
import StoneVerif.Lemmas.RtRoundTrip.Induct
import StoneVerif.Lemmas.RtRoundTrip.Slots
import StoneVerif.Lemmas.RtRoundTrip.Valid
import StoneVerif.Lemmas.RtRoundTrip.Fields
import StoneVerif.Lemmas.RtRoundTrip.Decode
import StoneVerif.Lemmas.RtRoundTrip.DecodeMain
import StoneVerif.Lemmas.RtRoundTrip.Eq
import StoneVerif.Lemmas.RtRoundTrip.Stable
import StoneVerif.Lemmas.RtRoundTrip.Canon
/-!
C04 helper lemmas (round trip `decode ∘ wire`), split over `Lemmas/RtRoundTrip/*.lean`:
`Basic` (strings, Except, env lookups), `Tables` (class tables under `envWF`), `Induct` (the `Good` bundle
and the induction principle over good values), `Slots` (slot lists), `Valid` (`ExtLaws`; the canonical form
passes `validate`), `Fields` (`decode_struct_fields`), `Decode`/`DecodeMain` (`decode (wire v) = canon v`),
`Eq` (`v == canon v`), `Stable` (`wire (canon v) = wire v`, the entry point), `Canon` (`canon v` is valid and normal).
-/
