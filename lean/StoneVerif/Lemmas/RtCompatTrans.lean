import StoneVerif.Lemmas.RtCompatRefl
/-!
Helper lemmas for C07, part 18: `subB` composes — if A is an older version of B (under ρ₁) and B an older version of C
(under ρ₂) then A is an older version of C under the composed correspondence: any number of compatible edits is one
compatible change.
-/
namespace StoneVerif.Rt.Compat
open StoneVerif.Rt

/-! ### the composed correspondence -/

theorem Rho.rel_of_toB {ρ : Rho} {a b : String} (h : ρ.toB a = some b) : ρ.rel a b = true := by
  unfold Rho.toB at h
  cases hf : ρ.find? (fun p => p.1 == a) with
  | none => simp [hf] at h
  | some p =>
    simp only [hf, Option.map_some, Option.some.injEq] at h
    have hp := List.mem_of_find?_eq_some hf
    have hp1 : p.1 = a := by simpa using List.find?_some hf
    apply Rho.rel_iff.mpr
    rw [← h, ← hp1]; exact hp

theorem Rho.mem_comp {ρ₁ ρ₂ : Rho} {a c : String} :
    (a, c) ∈ ρ₁.comp ρ₂ ↔ ∃ b, (a, b) ∈ ρ₁ ∧ ρ₂.toB b = some c := by
  simp only [Rho.comp, List.mem_filterMap, Option.map_eq_some_iff, Prod.mk.injEq]
  constructor
  · rintro ⟨⟨a', b⟩, hm, c', hc, rfl, rfl⟩
    exact ⟨b, hm, hc⟩
  · rintro ⟨b, hm, hc⟩
    exact ⟨(a, b), hm, c, hc, rfl, rfl⟩

theorem Rho.rel_comp {ρ₁ ρ₂ : Rho} (h₂ : ρ₂.wf = true) {a b c : String} (h1 : ρ₁.rel a b = true) (h2 : ρ₂.rel b c = true) :
    (ρ₁.comp ρ₂).rel a c = true :=
  Rho.rel_iff.mpr (Rho.mem_comp.mpr ⟨b, Rho.rel_iff.mp h1, Rho.toB_of_rel h₂ h2⟩)

theorem Rho.comp_wf {ρ₁ ρ₂ : Rho} (h₁ : ρ₁.wf = true) (h₂ : ρ₂.wf = true) : (ρ₁.comp ρ₂).wf = true := by
  simp only [Rho.wf, List.all_eq_true]
  intro p hp q hq
  obtain ⟨a, c⟩ := p
  obtain ⟨a', c'⟩ := q
  obtain ⟨b, hab, hbc⟩ := Rho.mem_comp.mp hp
  obtain ⟨b', hab', hbc'⟩ := Rho.mem_comp.mp hq
  have hbc2 := Rho.rel_iff.mp (Rho.rel_of_toB hbc)
  have hbc2' := Rho.rel_iff.mp (Rho.rel_of_toB hbc')
  have e1 := Rho.wf_iff h₁ hab hab'
  have e2 := Rho.wf_iff h₂ hbc2 hbc2'
  simp only at e1 e2
  have : a = a' ↔ c = c' := e1.trans e2
  by_cases h : a = a'
  · simp [h, this.mp h]
  · have h' : ¬ c = c' := fun hc => h (this.mpr hc)
    have e3 : (a == a') = false := by simpa using h
    have e4 : (c == c') = false := by simpa using h'
    show ((a == a') == (c == c')) = true
    rw [e3, e4]; rfl

theorem tySub_trans {ρ₁ ρ₂ : Rho} (h₂ : ρ₂.wf = true) : ∀ (tA tB tC : PTy), tySub ρ₁ tA tB = true → tySub ρ₂ tB tC = true →
    tySub (ρ₁.comp ρ₂) tA tC = true := by
  intro tA
  induction tA with
  | list fl item a b ih =>
    intro tB tC h1 h2
    cases tB <;> simp only [tySub, Bool.false_eq_true, Bool.and_eq_true, beq_iff_eq] at h1
    cases tC <;> simp only [tySub, Bool.false_eq_true, Bool.and_eq_true, beq_iff_eq] at h2
    simp only [tySub, Bool.and_eq_true, beq_iff_eq]
    exact ⟨⟨⟨h1.1.1.1.trans h2.1.1.1, ih _ _ h1.1.1.2 h2.1.1.2⟩, h1.1.2.trans h2.1.2⟩, h1.2.trans h2.2⟩
  | map fl k v ihk ihv =>
    intro tB tC h1 h2
    cases tB <;> simp only [tySub, Bool.false_eq_true, Bool.and_eq_true, beq_iff_eq] at h1
    cases tC <;> simp only [tySub, Bool.false_eq_true, Bool.and_eq_true, beq_iff_eq] at h2
    simp only [tySub, Bool.and_eq_true, beq_iff_eq]
    exact ⟨⟨h1.1.1.trans h2.1.1, ihk _ _ h1.1.2 h2.1.2⟩, ihv _ _ h1.2 h2.2⟩
  | struct fl c =>
    intro tB tC h1 h2
    cases tB <;> simp only [tySub, Bool.false_eq_true, Bool.and_eq_true, beq_iff_eq] at h1
    cases tC <;> simp only [tySub, Bool.false_eq_true, Bool.and_eq_true, beq_iff_eq] at h2
    simp only [tySub, Bool.and_eq_true, beq_iff_eq]
    exact ⟨h1.1.trans h2.1, Rho.rel_comp h₂ h1.2 h2.2⟩
  | tree fl c =>
    intro tB tC h1 h2
    cases tB <;> simp only [tySub, Bool.false_eq_true, Bool.and_eq_true, beq_iff_eq] at h1
    cases tC <;> simp only [tySub, Bool.false_eq_true, Bool.and_eq_true, beq_iff_eq] at h2
    simp only [tySub, Bool.and_eq_true, beq_iff_eq]
    exact ⟨h1.1.trans h2.1, Rho.rel_comp h₂ h1.2 h2.2⟩
  | union fl c =>
    intro tB tC h1 h2
    cases tB <;> simp only [tySub, Bool.false_eq_true, Bool.and_eq_true, beq_iff_eq] at h1
    cases tC <;> simp only [tySub, Bool.false_eq_true, Bool.and_eq_true, beq_iff_eq] at h2
    simp only [tySub, Bool.and_eq_true, beq_iff_eq]
    exact ⟨h1.1.trans h2.1, Rho.rel_comp h₂ h1.2 h2.2⟩
  | _ =>
    intro tB tC h1 h2
    cases tB <;> simp only [tySub, Bool.false_eq_true, Bool.and_eq_true, beq_iff_eq] at h1 <;>
      cases tC <;> simp only [tySub, Bool.false_eq_true, Bool.and_eq_true, beq_iff_eq] at h2 <;>
      simp_all [tySub]

theorem fieldSub_trans {ρ₁ ρ₂ : Rho} (h₂ : ρ₂.wf = true) {f g h : FieldDef} (h1 : fieldSub ρ₁ f g = true)
    (h2 : fieldSub ρ₂ g h = true) : fieldSub (ρ₁.comp ρ₂) f h = true := by
  have n1 := fieldSub_name h1
  have n2 := fieldSub_name h2
  obtain ⟨a1, a2, a3, a4, a5⟩ := fieldSub_parts h1
  obtain ⟨b1, b2, b3, b4, b5⟩ := fieldSub_parts h2
  simp only [fieldSub, Bool.and_eq_true, beq_iff_eq]
  exact ⟨⟨⟨⟨⟨n1.trans n2, tySub_trans h₂ _ _ _ a1 b1⟩, a2.trans b2⟩, a3.trans b3⟩, a4.trans b4⟩, a5.trans b5⟩

/-! ### classes -/

theorem findSub_some2 {tags : List String} {xs : List SubEntry} {e : SubEntry} (h : findSub tags xs = some e) :
    e ∈ xs ∧ e.1 = tags := by
  unfold findSub at h
  exact ⟨List.mem_of_find?_eq_some h, by simpa using List.find?_some h⟩

/-- the hypotheses about the middle and the last environment -/
structure Ctx2 (ρ₂ : Rho) (B C : Env) : Prop where
  compat : compatEnv ρ₂ B C = true
  wfB : envWF B = true
  wfC : envWF C = true

theorem newFieldOk_sub {ρ₂ : Rho} {B C : Env} (cx : Ctx2 ρ₂ B C) {g h : FieldDef} (hsub : fieldSub ρ₂ g h = true)
    (hw : tyWF B g.ty = true) (hg : newFieldOk B g = true) : newFieldOk C h = true := by
  obtain ⟨hty, _, hnul, _, hd⟩ := fieldSub_parts hsub
  have hn := tySub_nullable hty
  have hhd : hasDefault B g.ty = hasDefault C h.ty := by
    -- `hasDefault_sub` needs only `compatEnv` and the two `envWF`
    cases hq : g.ty <;> cases hq' : h.ty <;> simp only [hq, hq', tySub, Bool.false_eq_true, Bool.and_eq_true, beq_iff_eq] at hty
    case struct.struct fl c gl c' =>
      obtain ⟨sb, hsb⟩ := tyWF_struct (hq ▸ hw)
      obtain ⟨sc, hsc, hcom, hext⟩ := structSub_inv (compat_struct cx.compat hty.2 hsb) hsb
      rw [hasDefault_all fl c hsb, hasDefault_all gl c' hsc, hty.1]
      congr 1
      have hnd := struct_nodup (struct_wf cx.wfC hsc)
      rw [Bool.eq_iff_iff, List.all_eq_true, List.all_eq_true]
      constructor
      · intro hall x hx
        rcases hext x hx with h1 | h2
        · obtain ⟨f, hf⟩ := Option.isSome_iff_exists.mp h1
          obtain ⟨hfm, hfn⟩ := find_name_some hf
          obtain ⟨x', hx', hs'⟩ := hcom f hfm
          have h1' := find_name_of_mem hnd hx
          rw [← hfn, hx'] at h1'
          cases h1'
          have hp := fieldSub_parts hs'
          have := hall f hfm
          simp only [optionalAttr] at this ⊢
          rw [← hp.2.2.1, ← hp.2.2.2.2]; exact this
        · exact newFieldOk_optional h2
      · intro hall f hf
        obtain ⟨x, hx, hs'⟩ := hcom f hf
        have hp := fieldSub_parts hs'
        have := hall x (List.mem_of_find?_eq_some hx)
        simp only [optionalAttr] at this ⊢
        rw [hp.2.2.1, hp.2.2.2.2]; exact this
    all_goals (simp [hasDefault, PTy.flags, hty])
  simp only [newFieldOk, Bool.or_eq_true, Bool.and_eq_true, Bool.not_eq_true'] at hg ⊢
  rw [← hnul, ← hn, ← hd, ← hhd]
  exact hg

theorem structSub_trans {ρ₁ ρ₂ : Rho} {A B C : Env} (h₂ : ρ₂.wf = true) (cx : Ctx2 ρ₂ B C) {a b c : String}
    (h1 : structSub ρ₁ A B a b = true) (h2 : structSub ρ₂ B C b c = true) {sa : StructDef} (hsa : A.struct? a = some sa) :
    structSub (ρ₁.comp ρ₂) A C a c = true := by
  obtain ⟨sb, hsb, hcom1, hext1⟩ := structSub_inv h1 hsa
  obtain ⟨sc, hsc, hcom2, hext2⟩ := structSub_inv h2 hsb
  have hndC := struct_nodup (struct_wf cx.wfC hsc)
  have hwB := struct_wf cx.wfB hsb
  -- the raw subtype clauses
  have hs1 := h1
  have hs2 := h2
  unfold structSub at hs1 hs2
  simp only [hsa, hsb, hsc, Bool.and_eq_true] at hs1 hs2
  unfold structSub
  simp only [hsa, hsc, Bool.and_eq_true, List.all_eq_true]
  refine ⟨⟨?_, ?_⟩, ?_⟩
  · intro f hf
    obtain ⟨g, hg, hsub1⟩ := hcom1 f hf
    obtain ⟨h, hh, hsub2⟩ := hcom2 g (List.mem_of_find?_eq_some hg)
    rw [← fieldSub_name hsub1] at hh
    rw [hh]
    exact fieldSub_trans h₂ hsub1 hsub2
  · intro h hh
    rw [Bool.or_eq_true]
    rcases hext2 h hh with hb | hnew
    · obtain ⟨g, hg⟩ := Option.isSome_iff_exists.mp hb
      obtain ⟨hgm, hgn⟩ := find_name_some hg
      rcases hext1 g hgm with ha | hnewg
      · left; rw [← hgn]; exact ha
      · right
        obtain ⟨h', hh', hsub2⟩ := hcom2 g hgm
        have : h' = h := by
          have h1' := find_name_of_mem hndC hh
          rw [← hgn, hh'] at h1'
          exact Option.some.inj h1'
        subst this
        have hwg : tyWF B g.ty = true := by
          have := hwB
          simp only [StructDef.wf, Bool.and_eq_true, List.all_eq_true] at this
          exact (this.1.1.2 g hgm).1
        exact newFieldOk_sub cx hsub2 hwg hnewg
    · exact .inr hnew
  · cases hxa : sa.subtypes with
    | none =>
      cases hxb : sb.subtypes with
      | some xb => simp [hxa, hxb] at hs1
      | none =>
        cases hxc : sc.subtypes with
        | some xc => simp [hxb, hxc] at hs2
        | none => rfl
    | some xa =>
      cases hxb : sb.subtypes with
      | none => simp [hxa, hxb] at hs1
      | some xb =>
        cases hxc : sc.subtypes with
        | none => simp [hxb, hxc] at hs2
        | some xc =>
          have k1 := hs1.2
          have k2 := hs2.2
          simp only [hxa, hxb, Bool.and_eq_true, beq_iff_eq, List.all_eq_true, Bool.or_eq_true] at k1
          simp only [hxb, hxc, Bool.and_eq_true, beq_iff_eq, List.all_eq_true, Bool.or_eq_true] at k2
          simp only [Bool.and_eq_true, beq_iff_eq, List.all_eq_true, Bool.or_eq_true]
          refine ⟨⟨k1.1.1.trans k2.1.1, ?_⟩, ?_⟩
          · intro e he
            have := k1.1.2 e he
            cases hf1 : findSub e.1 xb with
            | none => simp [hf1] at this
            | some e' =>
              simp only [hf1, Bool.and_eq_true, beq_iff_eq] at this
              obtain ⟨hm', ht'⟩ := findSub_some2 hf1
              have := k2.1.2 e' hm'
              cases hf2 : findSub e'.1 xc with
              | none => simp [hf2] at this
              | some e'' =>
                rename_i h12
                simp only [hf2, Bool.and_eq_true, beq_iff_eq] at this
                rw [ht'] at hf2
                simp only [hf2, Bool.and_eq_true, beq_iff_eq]
                exact ⟨Rho.rel_comp h₂ h12.1 this.1, h12.2.trans this.2⟩
          · by_cases hca : sa.catchAll = true
            · exact .inl hca
            · right
              intro e'' he''
              have hcb : ¬ sb.catchAll = true := by rw [← k1.1.1]; exact hca
              rcases k2.2 with h | h
              · exact absurd h hcb
              · have := h e'' he''
                obtain ⟨e', hf'⟩ := Option.isSome_iff_exists.mp this
                obtain ⟨hm', ht'⟩ := findSub_some2 hf'
                rcases k1.2 with h' | h'
                · exact absurd h' hca
                · have := h' e' hm'
                  rw [ht'] at this
                  exact this

theorem unionSub_trans {ρ₁ ρ₂ : Rho} {A B C : Env} (h₂ : ρ₂.wf = true) {a b c : String}
    (h1 : unionSub ρ₁ A B a b = true) (h2 : unionSub ρ₂ B C b c = true) {ua : UnionDef} (hua : A.union? a = some ua) :
    unionSub (ρ₁.comp ρ₂) A C a c = true := by
  obtain ⟨ub, hub, hca1, hk1, hf1⟩ := unionSub_inv h1 hua
  obtain ⟨uc, huc, hca2, hk2, hf2⟩ := unionSub_inv h2 hub
  unfold unionSub
  simp only [hua, huc, Bool.and_eq_true, beq_iff_eq, List.all_eq_true, Bool.or_eq_true]
  refine ⟨⟨hca1.trans hca2, ?_⟩, ?_⟩
  · intro t ht
    obtain ⟨t', ht', hom1, hty1⟩ := hk1 t ht
    obtain ⟨hm', hn'⟩ := findTag_some_mem ht'
    obtain ⟨t'', ht'', hom2, hty2⟩ := hk2 t' hm'
    rw [hn'] at ht''
    simp only [ht'', Bool.and_eq_true, beq_iff_eq, Bool.or_eq_true, Bool.not_eq_true', beq_eq_false_iff_ne]
    refine ⟨hom1.trans hom2, ?_⟩
    rcases hty1 with hs1 | ⟨hv1, hc1⟩
    · rcases hty2 with hs2 | ⟨hv2, hc2⟩
      · exact .inl (tySub_trans h₂ _ _ _ hs1 hs2)
      · right
        refine ⟨by rw [tySub_isVoid hs1]; exact hv2, ?_⟩
        rw [hca1, ← hn']; exact hc2
    · exact .inr ⟨hv1, hc1⟩
  · by_cases hca : ua.catchAll.isSome = true
    · exact .inl hca
    · right
      intro t'' ht''
      rcases hf2 with h | h
      · rw [← hca1] at h; exact absurd h hca
      · have := h t'' ht''
        obtain ⟨t', hft'⟩ := Option.isSome_iff_exists.mp this
        obtain ⟨hm', hn'⟩ := findTag_some_mem hft'
        rcases hf1 with h' | h'
        · exact absurd h' hca
        · have := h' t' hm'
          rw [hn'] at this
          exact this

theorem compatEnv_trans {ρ₁ ρ₂ : Rho} {A B C : Env} (h1 : compatEnv ρ₁ A B = true) (cx : Ctx2 ρ₂ B C) :
    compatEnv (ρ₁.comp ρ₂) A C = true := by
  have hw1 := compatEnv_wf h1
  have hw2 := compatEnv_wf cx.compat
  simp only [compatEnv, Bool.and_eq_true, Rho.comp_wf hw1 hw2, List.all_eq_true, true_and]
  intro p hp
  obtain ⟨a, c⟩ := p
  obtain ⟨b, hab, hbc⟩ := Rho.mem_comp.mp hp
  have hr1 := Rho.rel_iff.mpr hab
  have hr2 := Rho.rel_of_toB hbc
  have hp1 := compat_pair h1 hr1
  have hp2 := compat_pair cx.compat hr2
  simp only [pairOk, Bool.and_eq_true, Bool.or_eq_true] at hp1 hp2 ⊢
  refine ⟨⟨hp1.1.1, ?_⟩, ?_⟩
  · cases hsa : A.struct? a with
    | none => simp
    | some sa =>
      right
      have s1 := compat_struct h1 hr1 hsa
      obtain ⟨sb, hsb, _⟩ := structSub_inv s1 hsa
      have s2 := compat_struct cx.compat hr2 hsb
      exact structSub_trans hw2 cx s1 s2 hsa
  · cases hua : A.union? a with
    | none => simp
    | some ua =>
      right
      have u1 := compat_union h1 hr1 hua
      obtain ⟨ub, hub, _⟩ := unionSub_inv u1 hua
      have u2 := compat_union cx.compat hr2 hub
      exact unionSub_trans hw2 u1 u2 hua

end StoneVerif.Rt.Compat
