import StoneVerif.Model.Emit
import StoneVerif.Lemmas.Fmt
/-! The emit machine produces exactly the pieces of the reference pretty-printer (helper lemmas). -/
namespace StoneVerif.Emit
open StoneVerif.Fmt

/-- how a reference piece is stored in the real output buffer -/
def enc (tabs : Bool) (p : Piece) : Str := encodeSeg (pieceSeg tabs p)

/-- the state after a successful run: buffer extended by the pieces, indentation restored,
placeholders registered -/
def res (tabs : Bool) (st : St) (ps : List Piece) (P : List Str) (N : List (Str × Str)) : St :=
  { out := st.out ++ ps.map (enc tabs), ind := st.ind, pos := st.pos ++ P, named := N ++ st.named }

def Spec (tabs : Bool) (r : Except Err St) (st : St) (ps : List Piece) (P : List Str) (N : List (Str × Str))
    (ok : Bool) : Prop :=
  (ok = true → r = .ok (res tabs st ps P N)) ∧ (ok = false → ∃ e, r = .error e)

theorem res_nil (tabs : Bool) (st : St) : res tabs st [] [] [] = st := by
  cases st; simp [res]

theorem res_res (tabs : Bool) (st : St) (ps qs P P' N N') :
    res tabs (res tabs st ps P N) qs P' N' = res tabs st (ps ++ qs) (P ++ P') (N' ++ N) := by
  simp [res, List.append_assoc]

theorem Spec.congr {tabs r st ps P N ok} (h : Spec tabs r st ps P N ok) {ps' P' N' ok'}
    (e1 : ps = ps') (e2 : P = P') (e3 : N = N') (e4 : ok = ok') : Spec tabs r st ps' P' N' ok' := by
  subst e1 e2 e3 e4; exact h

theorem Spec.pure (tabs : Bool) (st : St) : Spec tabs (.ok st) st [] [] [] true := by
  constructor
  · intro _; rw [res_nil]
  · intro h; cases h

theorem Spec.bind {tabs r st ps P N ok₁} (h : Spec tabs r st ps P N ok₁) {f : St → Except Err St} {qs P' N' ok₂}
    (hf : Spec tabs (f (res tabs st ps P N)) (res tabs st ps P N) qs P' N' ok₂) :
    Spec tabs (r >>= f) st (ps ++ qs) (P ++ P') (N' ++ N) (ok₁ && ok₂) := by
  constructor
  · intro hok
    simp at hok
    rw [h.1 hok.1]
    show f _ = _
    rw [hf.1 hok.2, res_res]
  · intro hok
    cases h1 : ok₁ with
    | false =>
      obtain ⟨e, he⟩ := h.2 h1
      exact ⟨e, by rw [he]; rfl⟩
    | true =>
      rw [h.1 h1]
      have h2 : ok₂ = false := by simpa [h1] using hok
      obtain ⟨e, he⟩ := hf.2 h2
      exact ⟨e, he⟩

theorem Spec.error (tabs : Bool) (e : Err) (st ps P N) : Spec tabs (.error e) st ps P N false := by
  constructor
  · intro h; cases h
  · intro _; exact ⟨e, rfl⟩

/-! ### single emits -/

theorem emitRaw_spec (tabs : Bool) (st : St) (s : Str) :
    Spec tabs (emitRaw st s) st [.raw s] [] [] (pieceOk (.raw s)) := by
  unfold emitRaw
  by_cases h : s ≠ [] ∧ s.getLast? ≠ some '\n'
  · rw [if_pos h]
    have : pieceOk (.raw s) = false := by simp [pieceOk, h.1, h.2]
    rw [this]; exact Spec.error _ _ _ _ _ _
  · rw [if_neg h]
    have : pieceOk (.raw s) = true := by
      simp [pieceOk]
      by_cases hs : s = []
      · exact Or.inl hs
      · right; simp [hs] at h; exact h
    rw [this]
    constructor
    · intro _; simp [res, enc, pieceSeg, encodeSeg]
    · intro h; cases h

theorem getLast?_append_singleton (l : Str) (c : Char) : (l ++ [c]).getLast? = some c := by simp

theorem emit_spec (tabs : Bool) (st : St) (s : Str) :
    Spec tabs (emit tabs st s) st [.line st.ind s] [] [] (pieceOk (.line st.ind s)) := by
  unfold emit
  by_cases h : '\n' ∈ s
  · simp only [h, if_true]
    have : pieceOk (.line st.ind s) = false := by simp [pieceOk, h]
    rw [this]; exact Spec.error _ _ _ _ _ _
  · simp only [h, if_false]
    have hok : pieceOk (.line st.ind s) = true := by simp [pieceOk, h]
    rw [hok]
    by_cases hs : s = []
    · subst hs
      simp only [ne_eq, not_true_eq_false, if_false]
      have := emitRaw_spec tabs st ['\n']
      refine ⟨fun _ => ?_, fun h => by cases h⟩
      rw [this.1 (by simp [pieceOk])]
      simp [res, enc, pieceSeg, encodeSeg]
    · simp only [ne_eq, hs, not_false_eq_true, if_true]
      have := emitRaw_spec tabs st (makeIndent tabs st.ind ++ s ++ ['\n'])
      refine ⟨fun _ => ?_, fun h => by cases h⟩
      rw [this.1 (by simp [pieceOk])]
      simp [res, enc, pieceSeg, encodeSeg, hs]

/-! ### lists of lines -/

theorem emitListCompact_spec (tabs : Bool) (sep tail : Str) (items : List Str) (hne : items ≠ []) (st : St) :
    Spec tabs (emitListCompact tabs sep tail st items) st
      (items.dropLast.map (fun i => Piece.line st.ind (i ++ sep)) ++ [Piece.line st.ind (items.getLast?.getD [] ++ tail)])
      [] []
      ((items.dropLast.map (fun i => Piece.line st.ind (i ++ sep)) ++
          [Piece.line st.ind (items.getLast?.getD [] ++ tail)]).all pieceOk) := by
  induction items generalizing st with
  | nil => exact absurd rfl hne
  | cons a rest ih =>
    cases rest with
    | nil =>
      simp only [emitListCompact, List.dropLast_singleton, List.map_nil, List.nil_append]
      exact (emit_spec tabs st (a ++ tail)).congr rfl rfl rfl (by simp)
    | cons b r =>
      simp only [emitListCompact]
      have h1 := emit_spec tabs st (a ++ sep)
      have h2 := ih (by simp) (res tabs st [.line st.ind (a ++ sep)] [] [])
      have := h1.bind (f := fun st => emitListCompact tabs sep tail st (b :: r)) h2
      refine this.congr ?_ rfl rfl ?_
      · simp [res]
      · simp [res, List.all_append]

theorem emitListLoose_spec (tabs : Bool) (sep : Str) (skip : Bool) (items : List Str) (hne : items ≠ []) (st : St) :
    Spec tabs (emitListLoose tabs sep skip st items) st
      (items.dropLast.map (fun i => Piece.line st.ind (i ++ sep)) ++
        [Piece.line st.ind (items.getLast?.getD [] ++ (if skip then [] else sep))])
      [] []
      ((items.dropLast.map (fun i => Piece.line st.ind (i ++ sep)) ++
          [Piece.line st.ind (items.getLast?.getD [] ++ (if skip then [] else sep))]).all pieceOk) := by
  induction items generalizing st with
  | nil => exact absurd rfl hne
  | cons a rest ih =>
    cases rest with
    | nil =>
      simp only [emitListLoose, List.dropLast_singleton, List.map_nil, List.nil_append]
      cases skip
      · exact (emit_spec tabs st (a ++ sep)).congr rfl rfl rfl (by simp)
      · exact (emit_spec tabs st a).congr (by simp) rfl rfl (by simp)
    | cons b r =>
      simp only [emitListLoose]
      have h1 := emit_spec tabs st (a ++ sep)
      have h2 := ih (by simp) (res tabs st [.line st.ind (a ++ sep)] [] [])
      have := h1.bind (f := fun st => emitListLoose tabs sep skip st (b :: r)) h2
      refine this.congr ?_ rfl rfl ?_
      · simp [res]
      · simp [res, List.all_append]

/-! ### indentation contexts -/

def dentOk : Option Int → Bool
  | some d => 0 ≤ d
  | none => true

theorem withIndent_spec (tabs : Bool) (st : St) (dent : Option Int) (body : St → Except Err St) {ps P N ok}
    (h : Spec tabs (body { st with ind := st.ind + dentOf tabs dent }) { st with ind := st.ind + dentOf tabs dent } ps P N ok) :
    Spec tabs (withIndent tabs st dent body) st ps P N (dentOk dent && ok) := by
  have key : ∀ n, Spec tabs (body { st with ind := st.ind + n }) { st with ind := st.ind + n } ps P N ok →
      Spec tabs ((fun (a : St) => { a with ind := a.ind - n }) <$> body { st with ind := st.ind + n }) st ps P N ok := by
    intro n hb
    constructor
    · intro hok
      rw [hb.1 hok]
      show Except.ok _ = _
      simp [res]
    · intro hok
      obtain ⟨e, he⟩ := hb.2 hok
      exact ⟨e, by rw [he]; rfl⟩
  unfold withIndent
  cases dent with
  | none => simpa [dentOk, dentOf] using key _ h
  | some d =>
    by_cases hd : d < 0
    · simp only [hd, if_true]
      have : dentOk (some d) = false := by simp [dentOk]; omega
      rw [this]; exact Spec.error _ _ _ _ _ _
    · simp only [hd, if_false]
      have : dentOk (some d) = true := by simp [dentOk]; omega
      rw [this]
      simpa [dentOf] using key _ h

end StoneVerif.Emit

namespace StoneVerif.Emit
open StoneVerif.Fmt

theorem Spec.ite_pure {tabs : Bool} {st : St} (c : Prop) [Decidable c] (r : Except Err St) {ps ok}
    (h : Spec tabs r st ps [] [] ok) :
    Spec tabs (if c then r else Pure.pure st) st (if c then ps else []) [] [] (if c then ok else true) := by
  by_cases hc : c
  · simpa [hc] using h
  · rw [if_neg hc, if_neg hc, if_neg hc]; exact Spec.pure tabs st

theorem toNat_len (a b : Nat) : ((a : Int) + (b : Int)).toNat = a + b := by omega

theorem footer_spec (tabs : Bool) (st2 : St) (d1 after : Str) :
    Spec tabs (if d1 ≠ [] ∨ after ≠ [] then emit tabs st2 (d1 ++ after)
            else if d1 ≠ [] then emit tabs st2 d1 else Pure.pure st2) st2
          (if d1 ≠ [] ∨ after ≠ [] then [Piece.line st2.ind (d1 ++ after)] else []) [] []
          (if d1 ≠ [] ∨ after ≠ [] then pieceOk (Piece.line st2.ind (d1 ++ after)) else true) := by
  by_cases hc : d1 ≠ [] ∨ after ≠ []
  · rw [if_pos hc, if_pos hc, if_pos hc]; exact emit_spec tabs st2 _
  · have hd1 : ¬ d1 ≠ [] := fun h => hc (Or.inl h)
    rw [if_neg hc, if_neg hc, if_neg hc, if_neg hd1]; exact Spec.pure tabs st2

theorem mlist_spec (tabs : Bool) (st : St) (items : List Str) (before after d0 d1 : Str) (compact : Bool)
    (sep : Str) (skip : Bool) :
    Spec tabs (mlist tabs st items before after d0 d1 compact sep skip) st
      (mlistPieces tabs st.ind items before after d0 d1 compact sep skip) [] []
      ((mlistPieces tabs st.ind items before after d0 d1 compact sep skip).all pieceOk) := by
  match items with
  | [] =>
    simp only [mlist, mlistPieces]
    exact (emit_spec tabs st _).congr rfl rfl rfl (by simp)
  | [x] =>
    simp only [mlist, mlistPieces]
    exact (emit_spec tabs st _).congr rfl rfl rfl (by simp)
  | x :: y :: r =>
    cases compact with
    | true =>
      simp only [mlist, mlistPieces, if_true]
      have h1 := emit_spec tabs st (before ++ d0 ++ x ++ sep)
      by_cases hc : before ≠ [] ∨ d0 ≠ []
      · simp only [hc, if_true]
        have hb := emitListCompact_spec tabs sep (d1 ++ after) (y :: r) (by simp)
          { (res tabs st [Piece.line st.ind (before ++ d0 ++ x ++ sep)] [] []) with
            ind := (res tabs st [Piece.line st.ind (before ++ d0 ++ x ++ sep)] [] []).ind +
              dentOf tabs (some ((before.length + d0.length : Nat) : Int)) }
        have h2 := withIndent_spec tabs (res tabs st [Piece.line st.ind (before ++ d0 ++ x ++ sep)] [] [])
          (some ((before.length + d0.length : Nat) : Int))
          (fun st => emitListCompact tabs sep (d1 ++ after) st (y :: r)) hb
        have := h1.bind (f := fun st => withIndent tabs st (some ((before.length + d0.length : Nat) : Int))
          (fun st => emitListCompact tabs sep (d1 ++ after) st (y :: r))) h2
        refine this.congr ?_ rfl rfl ?_
        · simp [res, dentOf, Nat.add_assoc, List.append_assoc, toNat_len]
        · have hnn : (0 : Int) ≤ ↑before.length + ↑d0.length := by omega
          simp [res, dentOf, dentOk, Nat.add_assoc, List.append_assoc, List.all_append, toNat_len, hnn]
      · simp only [hc, if_false]
        have hb := emitListCompact_spec tabs sep (d1 ++ after) (y :: r) (by simp)
          (res tabs st [Piece.line st.ind (before ++ d0 ++ x ++ sep)] [] [])
        have := h1.bind (f := fun st => emitListCompact tabs sep (d1 ++ after) st (y :: r)) hb
        have hb0 : before = [] := by
          cases before with
          | nil => rfl
          | cons _ _ => exact absurd (Or.inl (by simp)) hc
        have hd0 : d0 = [] := by
          cases d0 with
          | nil => rfl
          | cons _ _ => exact absurd (Or.inr (by simp)) hc
        subst hb0 hd0
        refine this.congr ?_ rfl rfl ?_
        · simp [res, List.append_assoc]
        · simp [res, List.append_assoc, List.all_append]
    | false =>
      simp only [mlist, mlistPieces, Bool.false_eq_true, if_false]
      have hcond : (before ≠ [] ∨ d0 ≠ []) ↔ before ++ d0 ≠ [] := by
        simp [List.append_eq_nil_iff]; constructor
        · intro h hb; rcases h with h | h; exact absurd hb h; exact h
        · intro h; by_cases hb : before = []; exact Or.inr (h hb); exact Or.inl hb
      have hcond2 : (d1 ≠ [] ∨ after ≠ []) ↔ d1 ++ after ≠ [] := by
        simp [List.append_eq_nil_iff]; constructor
        · intro h hb; rcases h with h | h; exact absurd hb h; exact h
        · intro h; by_cases hb : d1 = []; exact Or.inr (h hb); exact Or.inl hb
      have h2 := fun st1 => withIndent_spec tabs st1 none (fun st => emitListLoose tabs sep skip st (x :: y :: r))
        (emitListLoose_spec tabs sep skip (x :: y :: r) (by simp) { st1 with ind := st1.ind + dentOf tabs none })
      have hbody := fun st1 => (h2 st1).bind (f := fun st2 => if d1 ≠ [] ∨ after ≠ [] then emit tabs st2 (d1 ++ after)
            else if d1 ≠ [] then emit tabs st2 d1 else Pure.pure st2) (footer_spec tabs _ d1 after)
      by_cases hc : before ≠ [] ∨ d0 ≠ []
      · rw [if_pos hc]
        have := (emit_spec tabs st (before ++ d0)).bind
          (f := fun st => withIndent tabs st none (fun st => emitListLoose tabs sep skip st (x :: y :: r)) >>=
            fun st2 => if d1 ≠ [] ∨ after ≠ [] then emit tabs st2 (d1 ++ after)
              else if d1 ≠ [] then emit tabs st2 d1 else Pure.pure st2) (hbody _)
        have c1 := hcond.1 hc
        refine this.congr ?_ rfl rfl ?_
        · by_cases c2 : d1 ++ after = [] <;> simp [c1, c2, hcond2, dentOf, res]
        · by_cases c2 : d1 ++ after = [] <;>
            simp [c1, c2, hcond2, dentOf, dentOk, res, List.all_append, Bool.and_assoc]
      · rw [if_neg hc]
        have := hbody st
        have c1 : ¬ before ++ d0 ≠ [] := fun h => hc (hcond.2 h)
        simp only [pure_bind]
        refine this.congr ?_ rfl rfl ?_
        · by_cases c2 : d1 ++ after = [] <;> simp [c1, c2, hcond2, dentOf, res]
        · by_cases c2 : d1 ++ after = [] <;>
            simp [c1, c2, hcond2, dentOf, dentOk, res, List.all_append, Bool.and_assoc]

end StoneVerif.Emit

namespace StoneVerif.Emit
open StoneVerif.Fmt

/-- the header lines of `block`, reference side -/
def headerPieces (ind : Nat) (before : Str) (d0 : Option Str) (allman : Bool) : List Piece :=
  if before ≠ [] ∧ allman = false then
    [Piece.line ind (match d0 with | some d => before ++ ' ' :: d | none => before)]
  else
    (if before ≠ [] then [Piece.line ind before] else []) ++
      (match d0 with | some d => [Piece.line ind d] | none => [])

theorem blockHeader_spec (tabs : Bool) (st : St) (before : Str) (d0 : Option Str) (allman : Bool) :
    Spec tabs (blockHeader tabs st before d0 allman) st (headerPieces st.ind before d0 allman) [] []
      ((headerPieces st.ind before d0 allman).all pieceOk) := by
  unfold blockHeader headerPieces
  by_cases hc : before ≠ [] ∧ allman = false
  · rw [if_pos hc, if_pos hc]
    cases d0 with
    | none => exact (emit_spec tabs st _).congr rfl rfl rfl (by simp)
    | some d => exact (emit_spec tabs st _).congr rfl rfl rfl (by simp)
  · rw [if_neg hc, if_neg hc]
    have hh := Spec.ite_pure (tabs := tabs) (st := st) (before ≠ []) (emit tabs st before) (emit_spec tabs st before)
    cases d0 with
    | none =>
      have := hh.bind (f := fun st => Pure.pure st) (Spec.pure tabs _)
      refine this.congr ?_ rfl rfl ?_
      · simp
      · by_cases hb : before = [] <;> simp [hb]
    | some d =>
      have := hh.bind (f := fun st => emit tabs st d) (emit_spec tabs _ d)
      refine this.congr ?_ rfl rfl ?_
      · simp [res]
      · by_cases hb : before = [] <;> simp [hb, res, List.all_append]

theorem blockFooter_spec (tabs : Bool) (st : St) (after : Str) (d1 : Option Str) :
    Spec tabs (blockFooter tabs st after d1) st
      [Piece.line st.ind (match d1 with | some d => d ++ after | none => after)] [] []
      (pieceOk (Piece.line st.ind (match d1 with | some d => d ++ after | none => after))) := by
  unfold blockFooter
  cases d1 with
  | none => exact emit_spec tabs st _
  | some d => exact emit_spec tabs st _

theorem run_indent_eq (tabs : Bool) (st : St) (dent : Option Int) (body : List Op) :
    run tabs st (.indent dent body) = withIndent tabs st dent (fun st => runList tabs st body) := by
  simp [run]

theorem run_block_eq (tabs : Bool) (st : St) (before after : Str) (d0 d1 : Option Str) (dent : Option Int)
    (allman : Bool) (body : List Op) :
    run tabs st (.block before after d0 d1 dent allman body) =
      (blockHeader tabs st before d0 allman >>= fun st =>
        withIndent tabs st dent (fun st => runList tabs st body) >>= fun st => blockFooter tabs st after d1) := by
  simp [run]

theorem fill_ok (width : Int) (a b s : Str) (h : 0 < width) : ∃ t, Wrap.fill width a b s = .ok t := by
  have : ¬ width ≤ 0 := by omega
  simp [Wrap.fill, Wrap.wrap, this, Except.map]

theorem fill_err (width : Int) (a b s : Str) (h : ¬ 0 < width) : Wrap.fill width a b s = .error () := by
  have : width ≤ 0 := by omega
  simp [Wrap.fill, Wrap.wrap, this, Except.map]

def opOk (tabs : Bool) (ind : Nat) (op : Op) : Bool := ctxOk op && (pieces tabs ind op).all pieceOk
def opsOk (tabs : Bool) (ind : Nat) (ops : List Op) : Bool := ctxOkList ops && (piecesList tabs ind ops).all pieceOk

theorem bool_shuffle (a b c d : Bool) : ((a && c) && (b && d)) = ((a && b) && (c && d)) := by
  cases a <;> cases b <;> cases c <;> cases d <;> rfl

mutual
/-- one operation: the machine appends exactly the reference pieces, registers the placeholders,
restores the indentation; it fails exactly when the reference rejects the operation -/
theorem run_spec (tabs : Bool) : ∀ (op : Op) (st : St),
    Spec tabs (run tabs st op) st (pieces tabs st.ind op) (posOf op) (namedOf op) (opOk tabs st.ind op)
  | .emit s, st => by
    simp only [run, pieces, posOf, namedOf, opOk, ctxOk]
    exact (emit_spec tabs st s).congr rfl rfl rfl (by simp)
  | .emitRaw s, st => by
    simp only [run, pieces, posOf, namedOf, opOk, ctxOk]
    exact (emitRaw_spec tabs st s).congr rfl rfl rfl (by simp)
  | .placeholder name, st => by
    simp only [run, pieces, posOf, namedOf, opOk, ctxOk]
    by_cases hv : validName name = true
    · rw [if_pos hv]
      constructor
      · intro _; simp [res, enc, pieceSeg, encodeSeg]
      · intro h; simp [pieceOk, hv] at h
    · rw [if_neg hv]
      have : (true && [Piece.field name].all pieceOk) = false := by simp [pieceOk, hv]
      rw [this]; exact Spec.error _ _ _ _ _ _
  | .addPos s, st => by
    simp only [run, pieces, posOf, namedOf, opOk, ctxOk]
    constructor
    · intro _; simp [res]
    · intro h; simp at h
  | .addNamed k v, st => by
    simp only [run, pieces, posOf, namedOf, opOk, ctxOk]
    constructor
    · intro _; simp [res]
    · intro h; simp at h
  | .wrapped s pre ini sub width, st => by
    simp only [run, pieces, posOf, namedOf, opOk, ctxOk, emitWrapped]
    by_cases hw : 0 < width
    · obtain ⟨t, ht⟩ := fill_ok width (makeIndent tabs st.ind ++ pre ++ ini) (makeIndent tabs st.ind ++ pre ++ sub) s hw
      simp only [ht]
      exact (emitRaw_spec tabs st (t ++ ['\n'])).congr rfl rfl rfl (by simp [hw])
    · have ht := fill_err width (makeIndent tabs st.ind ++ pre ++ ini) (makeIndent tabs st.ind ++ pre ++ sub) s hw
      simp only [ht]
      have : (decide (0 < width) && ([] : List Piece).all pieceOk) = false := by simp [hw]
      rw [this]; exact Spec.error _ _ _ _ _ _
  | .indent dent body, st => by
    rw [run_indent_eq]
    have hb := runList_spec tabs body { st with ind := st.ind + dentOf tabs dent }
    have := withIndent_spec tabs st dent (fun st => runList tabs st body) hb
    refine this.congr ?_ ?_ ?_ ?_
    · simp [pieces]
    · simp [posOf]
    · simp [namedOf]
    · simp only [opOk, opsOk, ctxOk, pieces, dentOk, Bool.and_assoc]
      cases dent <;> simp
  | .block before after d0 d1 dent allman body, st => by
    rw [run_block_eq]
    have hh := blockHeader_spec tabs st before d0 allman
    have hb := fun st1 : St => withIndent_spec tabs st1 dent (fun st => runList tabs st body)
      (runList_spec tabs body { st1 with ind := st1.ind + dentOf tabs dent })
    have hbf := fun st1 : St => (hb st1).bind (f := fun st => blockFooter tabs st after d1) (blockFooter_spec tabs _ after d1)
    have := hh.bind (f := fun st => withIndent tabs st dent (fun st => runList tabs st body) >>=
      fun st => blockFooter tabs st after d1) (hbf _)
    refine this.congr ?_ ?_ ?_ ?_
    · simp only [pieces, headerPieces, res, List.append_assoc]; rfl
    · simp [posOf]
    · simp [namedOf]
    · simp only [opOk, opsOk, ctxOk, pieces, headerPieces, dentOk, res, List.all_append]
      cases dent <;> simp only [Bool.true_and, List.all_cons, List.all_nil, Bool.and_true] <;> ac_rfl
  | .mlist items before after d0 d1 compact sep skip, st => by
    simp only [run, pieces, posOf, namedOf, opOk, ctxOk]
    exact (mlist_spec tabs st items before after d0 d1 compact sep skip).congr rfl rfl rfl (by simp)

theorem runList_spec (tabs : Bool) : ∀ (ops : List Op) (st : St),
    Spec tabs (runList tabs st ops) st (piecesList tabs st.ind ops) (posOfList ops) (namedOfList ops)
      (opsOk tabs st.ind ops)
  | [], st => by
    simp only [runList, piecesList, posOfList, namedOfList, opsOk, ctxOkList]
    exact (Spec.pure tabs st).congr rfl rfl rfl (by simp)
  | op :: ops, st => by
    simp only [runList, piecesList, posOfList, namedOfList, opsOk, ctxOkList]
    have h1 := run_spec tabs op st
    have h2 := runList_spec tabs ops (res tabs st (pieces tabs st.ind op) (posOf op) (namedOf op))
    have := h1.bind (f := fun st => runList tabs st ops) h2
    refine this.congr rfl rfl rfl ?_
    simp only [opOk, opsOk, res, List.all_append]
    exact bool_shuffle _ _ _ _
end

end StoneVerif.Emit
