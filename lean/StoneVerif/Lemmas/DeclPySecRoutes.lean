import StoneVerif.Lemmas.DeclPySecDefaults
namespace StoneVerif.DeclPy

/-- a printed tag reference `[ns.]Class.tag` (field defaults, union-tag route attributes) is ready -/
theorem tagRef_ready {api : Api} (hapi : apiWF api = true) {ns : Namespace} (hns : ns ∈ api.namespaces) {st : St}
    (hctx : Ctx api st ns) (hcls : ∀ d ∈ ns.types, ClassOK api st ns d)
    (hals : ∀ a ∈ ns.aliases, AliasOK api st ns a) {t : Ty} {tag : Name}
    (htag : tagOKTy api (api.nAliases + 1) t tag = true) (htok : tyOK api ns t = true)
    (hends : aliasEndsInUser api (api.nAliases + 1) t = true) :
    ∀ r ∈ tagRef ns.name t tag, Ready st (modName ns) r := by
  have key : ∀ ns' n', (t = .user ns' n' ∨ t = .alias ns' n') →
      Ready st (modName ns) (qual ns.name ns' (fmtClass n') (some (fmtVar tag))) := by
    intro ns' n' ht
    obtain ⟨c, hres, htags⟩ := alias_target hapi hns hctx hcls ns.aliases (fun a ha => ha) hals htok
      (local_aliases_exist hapi hns htok) (Nat.le_refl _) hends ht (some (fmtVar tag))
    exact ⟨.cls c, hres, fun a ha => by
      rw [qual_attr] at ha; injection ha with ha; subst ha
      exact ⟨c, rfl, htags _ tag htag⟩⟩
  intro r hr
  cases t with
  | user ns' n' => simp only [tagRef, List.mem_singleton] at hr; subst hr; exact key ns' n' (Or.inl rfl)
  | alias ns' n' => simp only [tagRef, List.mem_singleton] at hr; subst hr; exact key ns' n' (Or.inr rfl)
  | prim => simp [tagRef] at hr
  | void => simp [tagRef] at hr
  | list t => simp [tagRef] at hr
  | map k v => simp [tagRef] at hr
  | nullable t => simp [tagRef] at hr

/-- without union-tag attributes a route's attribute dictionary evaluates no generated name -/
theorem attrRefs_noTag (cur : Name) : ∀ (l : List (Name × AttrKind)),
    (l.all fun (x : Name × AttrKind) => x.2 != AttrKind.tagRef) = true → attrRefs cur l = []
  | [], _ => rfl
  | (k, .plain) :: r, h => by
    simp only [List.all_cons, Bool.and_eq_true] at h
    simp only [attrRefs]; exact attrRefs_noTag cur r h.2
  | (k, .timestamp) :: r, h => by
    simp only [List.all_cons, Bool.and_eq_true] at h
    simp only [attrRefs]; exact attrRefs_noTag cur r h.2
  | (k, .tagRef) :: r, h => by simp at h

theorem routeWF_at {api : Api} (hapi : apiWF api = true) {ns : Namespace} (hns : ns ∈ api.namespaces)
    {r : Route} (hr : r ∈ ns.routes) :
    tyOK api ns r.arg = true ∧ tyOK api ns r.result = true ∧ tyOK api ns r.error = true
      ∧ attrRefs ns.name r.attrs = [] := by
  have hw := nsWF_of_apiWF hapi hns
  simp only [nsWF, Bool.and_eq_true] at hw
  have := List.all_eq_true.mp hw.1.1.1.2 r hr
  simp only [routeWF, Bool.and_eq_true] at this
  exact ⟨this.1.1.1, this.1.1.2, this.1.2, attrRefs_noTag _ _ this.2⟩

/-- route objects and `ROUTES` -/
theorem sec_routes {api : Api} (hapi : apiWF api = true) {ns : Namespace} (hns : ns ∈ api.namespaces) (st : St)
    (hwf : StWF st) (hctx : Ctx api st ns) (hcls : ∀ d ∈ ns.types, ClassOK api st ns d)
    (hals : ∀ a ∈ ns.aliases, AliasOK api st ns a)
    (hnd : ((routeStmts ns.name ns.routes).flatMap Stmt.globals).Nodup)
    (hfresh : ∀ n ∈ (routeStmts ns.name ns.routes).flatMap Stmt.globals, st.global? (modName ns) n = none) :
    ∃ st', Steps st (modName ns) (routeStmts ns.name ns.routes) st' := by
  rw [globals_routeStmts] at hnd hfresh
  have hmap : ns.routes.map (fun r => Stmt.assign (fmtFunc r.name false r.version) none none
      (tyRefs ns.name r.arg ++ tyRefs ns.name r.result ++ tyRefs ns.name r.error ++ attrRefs ns.name r.attrs))
      = ns.routes.flatMap (fun r => [Stmt.assign (fmtFunc r.name false r.version) none none
      (tyRefs ns.name r.arg ++ tyRefs ns.name r.result ++ tyRefs ns.name r.error ++ attrRefs ns.name r.attrs)]) := by
    induction ns.routes <;> simp_all [List.flatMap_cons]
  have hglob : (ns.routes.flatMap (fun r => [Stmt.assign (fmtFunc r.name false r.version) none none
      (tyRefs ns.name r.arg ++ tyRefs ns.name r.result ++ tyRefs ns.name r.error ++ attrRefs ns.name r.attrs)])).flatMap
        Stmt.globals = ns.routes.map (fun r => fmtFunc r.name false r.version) := by
    induction ns.routes <;> simp_all [List.flatMap_cons]
  have hnd' := (List.nodup_append.mp hnd)
  obtain ⟨st1, hs1, hq1⟩ := steps_flatMap' (α := Route)
    (fun r => [Stmt.assign (fmtFunc r.name false r.version) none none
      (tyRefs ns.name r.arg ++ tyRefs ns.name r.result ++ tyRefs ns.name r.error ++ attrRefs ns.name r.attrs)])
    (modName ns)
    (fun st => Ctx api st ns ∧ (∀ d ∈ ns.types, ClassOK api st ns d) ∧ (∀ a ∈ ns.aliases, AliasOK api st ns a))
    (fun r st => (st.global? (modName ns) (fmtFunc r.name false r.version)).isSome = true)
    (fun hle h => ⟨h.1.mono hle, fun d hd => (h.2.1 d hd).mono hle, fun a ha => (h.2.2 a ha).mono hle⟩)
    (fun {r st st'} hle h => by
      obtain ⟨v, hv⟩ := isSome_get h
      simp [hle.glob _ _ _ hv])
    ns.routes
    (by
      intro pre r post hsplit st hwf ⟨hctx, hcls, hals⟩ _ hfr
      have hr : r ∈ ns.routes := by rw [hsplit]; simp
      obtain ⟨h1, h2, h3, h4⟩ := routeWF_at hapi hns hr
      have rdy := fun t (ht : tyOK api ns t = true) =>
        ready_tyRefs hapi hns hctx hcls ns.aliases hals t ht (local_aliases_exist hapi hns ht)
      obtain ⟨st', v, hs, hg, _⟩ := steps_assign_glob (cur := modName ns) (t := fmtFunc r.name false r.version)
        (cp := none)
        (uses := tyRefs ns.name r.arg ++ tyRefs ns.name r.result ++ tyRefs ns.name r.error ++ attrRefs ns.name r.attrs) hwf
        (by
          intro x hx
          rw [h4, List.append_nil] at hx
          simp only [List.mem_append] at hx
          rcases hx with (hx | hx) | hx
          · exact rdy _ h1 x hx
          · exact rdy _ h2 x hx
          · exact rdy _ h3 x hx)
        (fun x hx => by simp at hx) (hfr _ (by simp)) hctx.started
      exact ⟨st', hs, by simp [hg]⟩)
    (by rw [hglob]; exact hnd'.1) st hwf ⟨hctx, hcls, hals⟩
    (by rw [hglob]; intro n hn; exact hfresh n (List.mem_append_left _ hn))
  have hfr1 : st1.global? (modName ns) "ROUTES" = none := by
    rw [hs1.frame _ _ (fun _ => ?_)]
    · exact hfresh _ (by simp)
    · rw [hglob]
      intro hmem
      exact hnd'.2.2 _ hmem _ (List.mem_singleton.mpr rfl) rfl
  obtain ⟨st2, v, hs2, _⟩ := steps_assign_glob (cur := modName ns) (t := "ROUTES") (cp := none)
    (uses := ns.routes.map fun r => here (fmtFunc r.name false r.version)) hs1.wf
    (by
      intro x hx
      simp only [List.mem_map] at hx
      obtain ⟨r, hr, rfl⟩ := hx
      obtain ⟨v, hv⟩ := isSome_get (hq1 r hr)
      exact ready_here_global hv)
    (fun x hx => by simp at hx) hfr1 (hs1.le.started _ hctx.started)
  refine ⟨st2, ?_⟩
  simp only [routeStmts]
  rw [hmap]
  exact hs1.append hs2

end StoneVerif.DeclPy
