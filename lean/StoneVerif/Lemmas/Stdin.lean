import StoneVerif.Model.Stdin
/-! Lemmas about the stdin splitter (C11): `splitLines` on a concatenation of texts each of which begins with the
keyword line, has no other line beginning with it, and ends with a newline.  The point is locality: whether a
position is cut depends on the character before it and on at most ten characters after it, and a text that ends
with a newline cannot lend a prefix of `namespace` to the text that follows. -/
namespace StoneVerif.Stdin

theorem kw_length : kw.length = 9 := by decide

theorem isPrefixOf_append_long (sep u w : List Char) (h : sep.length ≤ u.length) :
    sep.isPrefixOf (u ++ w) = sep.isPrefixOf u := by
  induction sep generalizing u with
  | nil => simp
  | cons s sep' ih =>
    cases u with
    | nil => simp at h
    | cons x u' =>
      simp only [List.length_cons, Nat.add_le_add_iff_right] at h
      simp [List.isPrefixOf, ih u' h]

theorem endsNL_cons_cons (a b : Char) (r : List Char) : endsNL (a :: b :: r) = endsNL (b :: r) := rfl

theorem endsNL_append_cons (a : List Char) (b : Char) (r : List Char) : endsNL (a ++ b :: r) = endsNL (b :: r) := by
  induction a with
  | nil => rfl
  | cons x a' ih =>
    cases a' with
    | nil => simp [endsNL]
    | cons y a'' => simpa [endsNL_cons_cons] using ih

/-- no non-empty prefix of the keyword ends with a newline -/
theorem take_kw_not_endsNL : ∀ k, k < 10 → 1 ≤ k → endsNL (kw.take k) = false := by decide

/-- a short text that ends with a newline is not the beginning of the keyword -/
theorem prefix_short_false (u rest : List Char) (hne : u ≠ []) (hnl : endsNL u = true) (hlen : u.length ≤ 9) :
    kw.isPrefixOf (u ++ rest) = false := by
  cases hp : kw.isPrefixOf (u ++ rest) with
  | false => rfl
  | true =>
    exfalso
    rw [List.isPrefixOf_iff_prefix] at hp
    obtain ⟨z, hz⟩ := hp
    have h1 : (kw ++ z).take u.length = kw.take u.length := by
      rw [List.take_append_of_le_length (by rw [kw_length]; exact hlen)]
    have h2 : (u ++ rest).take u.length = u := by simp
    rw [hz, h2] at h1
    have hk : 1 ≤ u.length := by
      cases u with
      | nil => exact absurd rfl hne
      | cons _ _ => simp
    have := take_kw_not_endsNL u.length (by omega) hk
    rw [← h1, hnl] at this
    exact Bool.noConfusion this

/-- locality: a non-empty text ending with a newline decides by itself whether `namespace\b` stands at its head -/
theorem kwb_local (w : Char → Bool) (u rest : List Char) (hne : u ≠ []) (hnl : endsNL u = true) :
    kwb w (u ++ rest) = kwb w u := by
  by_cases hlen : u.length ≤ 9
  · have h1 := prefix_short_false u rest hne hnl hlen
    have h2 := prefix_short_false u [] hne hnl hlen
    rw [List.append_nil] at h2
    simp [kwb, h1, h2]
  · have hl : 10 ≤ u.length := by omega
    unfold kwb
    rw [isPrefixOf_append_long _ _ _ (by rw [kw_length]; omega), List.drop_append_of_le_length (by rw [kw_length]; omega)]
    have : ∃ c r, u.drop kw.length = c :: r := by
      cases hd : u.drop kw.length with
      | nil =>
        have := congrArg List.length hd
        simp [kw_length] at this
        omega
      | cons c r => exact ⟨c, r, rfl⟩
    obtain ⟨c, r, hc⟩ := this
    rw [hc]
    rfl

theorem kwb_length (w : Char → Bool) (t : List Char) (h : kwb w t = true) : 9 ≤ t.length := by
  unfold kwb at h
  simp only [Bool.and_eq_true] at h
  have := (List.isPrefixOf_iff_prefix.1 h.1).length_le
  rw [kw_length] at this
  exact this

/-! ### `splitLines` -/

theorem splitLines_ne (w : Char → Bool) (ls : Bool) (s : List Char) : ∃ h t, splitLines w ls s = h :: t := by
  cases s with
  | nil => exact ⟨[], [], rfl⟩
  | cons c cs =>
    simp only [splitLines]
    split
    · exact ⟨_, _, rfl⟩
    · split <;> exact ⟨_, _, rfl⟩

/-- a stretch without a line that begins with the keyword is not cut, whatever follows it -/
theorem splitLines_nostart (w : Char → Bool) (u : List Char) : ∀ (ls : Bool) (R h : List Char) (t : List (List Char)),
    starts w ls u = 0 → endsNL u = true →
    splitLines w (if u.isEmpty then ls else true) R = h :: t →
    splitLines w ls (u ++ R) = (u ++ h) :: t := by
  induction u with
  | nil => intro ls R h t _ _ hR; simpa using hR
  | cons c u' ih =>
    intro ls R h t hs hnl hR
    simp only [starts, Nat.add_eq_zero_iff] at hs
    obtain ⟨hdec, hs'⟩ := hs
    have hloc := kwb_local w (c :: u') R (by simp) hnl
    have hdec' : (ls && kwb w (c :: (u' ++ R))) = false := by
      rw [← List.cons_append, hloc]
      cases hx : (ls && kwb w (c :: u')) with
      | false => rfl
      | true => simp [hx] at hdec
    have hnl' : endsNL u' = true := by
      cases u' with
      | nil => rfl
      | cons b r => simpa [endsNL_cons_cons] using hnl
    have hstate : (if u'.isEmpty then (c == '\n') else true) = true := by
      cases u' with
      | nil => simpa [endsNL] using hnl
      | cons b r => rfl
    have hR' : splitLines w (if u'.isEmpty then (c == '\n') else true) R = h :: t := by
      rw [hstate]; simpa using hR
    have := ih (c == '\n') R h t hs' hnl' hR'
    simp only [List.cons_append, splitLines, this, hdec']
    simp

/-- what the hypotheses of `stdin_split` say about one text -/
structure Good (w : Char → Bool) (t : List Char) : Prop where
  /-- it begins with `namespace` followed by the end of the text or a non-word character -/
  head : kwb w t = true
  /-- no other line of it begins that way -/
  once : starts w true t = 1
  /-- it ends with a newline -/
  nl : endsNL t = true

theorem splitLines_flatten (w : Char → Bool) (p : List Char) (ts : List (List Char))
    (hp0 : starts w true p = 0) (hpnl : endsNL p = true) (hne : ts ≠ []) (h : ∀ t ∈ ts, Good w t) :
    splitLines w true (p ++ ts.flatten) = p :: ts := by
  have key : ∀ ts : List (List Char), ts ≠ [] → (∀ t ∈ ts, Good w t) → splitLines w true ts.flatten = [] :: ts := by
    intro ts
    induction ts with
    | nil => intro hne; exact absurd rfl hne
    | cons t ts' ih =>
      intro _ h
      obtain ⟨hk, ho, hn⟩ := h t (by simp)
      have hlen := kwb_length w t hk
      cases t with
      | nil => simp at hlen
      | cons c t' =>
        have ht' : t' ≠ [] := by
          intro he; subst he
          simp at hlen
        have hloc := kwb_local w (c :: t') ts'.flatten (by simp) hn
        simp only [starts, hk, Bool.and_self, if_true] at ho
        have hs' : starts w (c == '\n') t' = 0 := by omega
        have hn' : endsNL t' = true := by
          cases t' with
          | nil => exact absurd rfl ht'
          | cons b r => simpa [endsNL_cons_cons] using hn
        have hst : (if t'.isEmpty then (c == '\n') else true) = true := by
          cases t' with
          | nil => exact absurd rfl ht'
          | cons b r => rfl
        have hR : ∃ tl, splitLines w true ts'.flatten = [] :: tl ∧ tl = ts' := by
          cases ts' with
          | nil => exact ⟨[], rfl, rfl⟩
          | cons t2 ts'' => exact ⟨_, ih (by simp) (fun x hx => h x (by simp [hx])), rfl⟩
        obtain ⟨tl, hR, rfl⟩ := hR
        have := splitLines_nostart w t' (c == '\n') tl.flatten [] tl hs' hn' (by rw [hst]; exact hR)
        have hdec : (true && kwb w (c :: (t' ++ tl.flatten))) = true := by
          rw [← List.cons_append, hloc, hk]; rfl
        simp only [List.flatten_cons, List.cons_append, splitLines, this, hdec]
        simp
  have hk := key ts hne h
  have := splitLines_nostart w p true ts.flatten [] ts hp0 hpnl (by simpa using hk)
  simpa using this

theorem number_snd (k : Nat) (ps : List (List Char)) : (number k ps).map Prod.snd = ps := by
  induction ps generalizing k with
  | nil => rfl
  | cons p ps ih => simp [number, ih]

theorem number_fst (k : Nat) (ps : List (List Char)) : (number k ps).map Prod.fst = List.range' k ps.length := by
  induction ps generalizing k with
  | nil => rfl
  | cons p ps ih => simp [number, ih, List.range'_succ]

theorem splitStdinW_flatten (w : Char → Bool) (p : List Char) (t1 : List Char) (rest : List (List Char))
    (hp0 : starts w true p = 0) (hpnl : endsNL p = true) (h : ∀ t ∈ t1 :: rest, Good w t) :
    (splitStdinW w (p ++ (t1 :: rest).flatten)).map Prod.snd = (p ++ t1) :: rest ∧
    (splitStdinW w (p ++ (t1 :: rest).flatten)).map Prod.fst = List.range' 1 (rest.length + 1) := by
  unfold splitStdinW
  rw [splitLines_flatten w p (t1 :: rest) hp0 hpnl (by simp) h]
  simp [number_snd, number_fst, List.range'_succ]

/-! ### strings -/

theorem toList_foldl_append (l : List String) (acc : String) :
    (l.foldl (fun r s => r ++ s) acc).toList = acc.toList ++ (l.map String.toList).flatten := by
  induction l generalizing acc with
  | nil => simp
  | cons s l ih => simp [ih, String.toList_append]

theorem toList_join (l : List String) : (String.join l).toList = (l.map String.toList).flatten := by
  simp [String.join, toList_foldl_append]

end StoneVerif.Stdin
