import StoneVerif.Model.Stdin
/-! Lemmas about the stdin splitter (C11): `split` on a concatenation of texts that each start with the keyword
and contain it once.  The combinatorial core is that `namespace` has no border (no proper prefix that is also a
suffix), so an occurrence cannot straddle the end of one text and the keyword opening the next. -/
namespace StoneVerif.Stdin

theorem kw_eq : kw = ['n', 'a', 'm', 'e', 's', 'p', 'a', 'c', 'e'] := by decide

theorem kw_length : kw.length = 9 := by decide

theorem isPrefixOf_append_long (sep u w : List Char) (h : sep.length ≤ u.length) :
    sep.isPrefixOf (u ++ w) = sep.isPrefixOf u := by
  induction sep generalizing u with
  | nil => simp
  | cons s sep' ih =>
    cases u with
    | nil => simp at h
    | cons x u' =>
      simp only [List.length_cons, Nat.add_le_add_iff_right] at h
      simp [List.isPrefixOf, ih u' h]

theorem isPrefixOf_short (sep u : List Char) (h : u.length < sep.length) : sep.isPrefixOf u = false := by
  induction sep generalizing u with
  | nil => simp at h
  | cons s sep' ih =>
    cases u with
    | nil => rfl
    | cons x u' =>
      simp only [List.length_cons, Nat.add_lt_add_iff_right] at h
      simp [List.isPrefixOf, ih u' h]

theorem isPrefixOf_self_append (sep z : List Char) : sep.isPrefixOf (sep ++ z) = true := by
  induction sep with
  | nil => simp
  | cons s sep' ih => simp [ih]

/-- `namespace` has no border: it cannot start inside the tail of one text and run into the keyword that opens
the next text -/
theorem border (u v : List Char) (h1 : u ≠ []) (h2 : u.length < 9) : kw.isPrefixOf (u ++ (kw ++ v)) = false := by
  rw [kw_eq]
  match u, h1, h2 with
  | [_], _, _ => simp [List.isPrefixOf]
  | [_, _], _, _ => simp [List.isPrefixOf]
  | [_, _, _], _, _ => simp [List.isPrefixOf]
  | [_, _, _, _], _, _ => simp [List.isPrefixOf]
  | [_, _, _, _, _], _, _ => simp [List.isPrefixOf]
  | [_, _, _, _, _, _], _, _ => simp [List.isPrefixOf]
  | [_, _, _, _, _, _, _], _, _ => simp [List.isPrefixOf]
  | [_, _, _, _, _, _, _, _], _, _ => simp [List.isPrefixOf]
  | _ :: _ :: _ :: _ :: _ :: _ :: _ :: _ :: _ :: _, _, h => simp at h; omega

/-! ### `split` -/

theorem split_skip (sep : List Char) (x y : List Char) : split sep x.length (x ++ y) = split sep 0 y := by
  induction x with
  | nil => rfl
  | cons c x' ih => simpa [split] using ih

theorem split_sep (sep z : List Char) (h : sep ≠ []) : split sep 0 (sep ++ z) = [] :: split sep 0 z := by
  cases sep with
  | nil => simp at h
  | cons s sep' =>
    have hp : (s :: sep').isPrefixOf (s :: (sep' ++ z)) = true := isPrefixOf_self_append (s :: sep') z
    simp only [List.cons_append, split, hp, if_true, List.length_cons, Nat.add_sub_cancel]
    rw [split_skip]

theorem split_nomatch (sep r rest p : List Char) (ps : List (List Char))
    (hno : ∀ k, k < r.length → sep.isPrefixOf (r.drop k ++ rest) = false)
    (hrest : split sep 0 rest = p :: ps) : split sep 0 (r ++ rest) = (r ++ p) :: ps := by
  induction r with
  | nil => simpa using hrest
  | cons c r' ih =>
    have h0 := hno 0 (by simp)
    simp only [List.drop_zero, List.cons_append] at h0
    have ih' := ih (fun k hk => by simpa using hno (k + 1) (by simpa using hk))
    simp [split, h0, ih']

/-! ### `occ` -/

theorem occ_zero (sep x : List Char) (h : occ sep x = 0) : ∀ k, k < x.length → sep.isPrefixOf (x.drop k) = false := by
  induction x with
  | nil => intro k hk; simp at hk
  | cons c cs ih =>
    simp only [occ, Nat.add_eq_zero_iff] at h
    intro k hk
    cases k with
    | zero =>
      cases hp : sep.isPrefixOf (c :: cs) with
      | true => simp [hp] at h
      | false => simpa using hp
    | succ k => simpa using ih h.2 k (by simpa using hk)

theorem occ_zero_suffix (sep a b : List Char) (h : occ sep (a ++ b) = 0) :
    ∀ k, k < b.length → sep.isPrefixOf (b.drop k) = false := by
  induction a with
  | nil => exact occ_zero sep b h
  | cons c a' ih =>
    simp only [List.cons_append, occ, Nat.add_eq_zero_iff] at h
    exact ih h.2

theorem occ_self_append (s : Char) (sep' r : List Char) :
    occ (s :: sep') ((s :: sep') ++ r) = 1 + occ (s :: sep') (sep' ++ r) := by
  have hp : (s :: sep').isPrefixOf (s :: (sep' ++ r)) = true := isPrefixOf_self_append (s :: sep') r
  rw [List.cons_append, occ, hp]
  simp

/-- a text that starts with the keyword and contains it once: no occurrence inside the remainder -/
theorem once_tail (r : List Char) (h : occ kw (kw ++ r) = 1) :
    ∀ k, k < r.length → kw.isPrefixOf (r.drop k) = false := by
  rw [kw_eq] at h ⊢
  rw [occ_self_append] at h
  have h' : occ ['n', 'a', 'm', 'e', 's', 'p', 'a', 'c', 'e'] (['a', 'm', 'e', 's', 'p', 'a', 'c', 'e'] ++ r) = 0 := by
    omega
  exact occ_zero_suffix _ _ r h'

/-- no match starts inside the remainder `r` of a text, whatever legal text (or nothing) follows -/
theorem nomatch_of_once (r rest : List Char) (h : occ kw (kw ++ r) = 1) (hrest : rest = [] ∨ ∃ v, rest = kw ++ v) :
    ∀ k, k < r.length → kw.isPrefixOf (r.drop k ++ rest) = false := by
  intro k hk
  by_cases hl : 9 ≤ (r.drop k).length
  · rw [isPrefixOf_append_long _ _ _ (by rw [kw_length]; exact hl)]
    exact once_tail r h k hk
  · have hne : r.drop k ≠ [] := by
      intro he
      have : (r.drop k).length = 0 := by rw [he]; rfl
      simp at this; omega
    rcases hrest with rfl | ⟨v, rfl⟩
    · exact isPrefixOf_short _ _ (by rw [kw_length]; simp; simp at hl; omega)
    · exact border _ v hne (by omega)

theorem prefix_decomp (t : List Char) (h : kw <+: t) : t = kw ++ t.drop 9 := by
  obtain ⟨r, rfl⟩ := h
  rw [← kw_length, List.drop_left]

/-- the parts `str.split` finds in the concatenation -/
theorem split_flatten (ts : List (List Char)) (hne : ts ≠ [])
    (h : ∀ t ∈ ts, kw <+: t ∧ occ kw t = 1) :
    split kw 0 ts.flatten = [] :: ts.map (·.drop 9) := by
  induction ts with
  | nil => simp at hne
  | cons t ts' ih =>
    obtain ⟨hp, ho⟩ := h t (by simp)
    have ht := prefix_decomp t hp
    generalize t.drop 9 = r at ht
    subst ht
    have hk : kw ≠ [] := by decide
    simp only [List.flatten_cons, List.append_assoc, List.map_cons]
    rw [split_sep kw _ hk]
    congr 1
    have hd : (kw ++ r).drop 9 = r := by rw [← kw_length, List.drop_left]
    rw [hd]
    cases ts' with
    | nil =>
      have := split_nomatch kw r [] [] [] (nomatch_of_once r [] ho (Or.inl rfl)) (by simp [split])
      simpa using this
    | cons t2 ts'' =>
      have ih' := ih (by simp) (fun x hx => h x (by simp [hx]))
      have hrest : (t2 :: ts'').flatten = [] ∨ ∃ v, (t2 :: ts'').flatten = kw ++ v := by
        right
        obtain ⟨hp2, _⟩ := h t2 (by simp)
        obtain ⟨r2, rfl⟩ := hp2
        exact ⟨r2 ++ ts''.flatten, by simp⟩
      have := split_nomatch kw r _ [] _ (nomatch_of_once r _ ho hrest) ih'
      simpa using this

theorem number_snd (k : Nat) (ps : List (List Char)) : (number k ps).map Prod.snd = ps.map (kw ++ ·) := by
  induction ps generalizing k with
  | nil => rfl
  | cons p ps ih => simp [number, ih]

theorem number_fst (k : Nat) (ps : List (List Char)) : (number k ps).map Prod.fst = List.range' k ps.length := by
  induction ps generalizing k with
  | nil => rfl
  | cons p ps ih => simp [number, ih, List.range'_succ]

theorem map_restore (ts : List (List Char)) (h : ∀ t ∈ ts, kw <+: t) : ts.map (fun t => kw ++ t.drop 9) = ts := by
  induction ts with
  | nil => rfl
  | cons t ts ih =>
    simp only [List.map_cons]
    rw [← prefix_decomp t (h t (by simp)), ih (fun x hx => h x (by simp [hx]))]

theorem splitStdinL_flatten (ts : List (List Char)) (hne : ts ≠ [])
    (h : ∀ t ∈ ts, kw <+: t ∧ occ kw t = 1) :
    (splitStdinL ts.flatten).map Prod.snd = ts ∧ (splitStdinL ts.flatten).map Prod.fst = List.range' 1 ts.length := by
  have hs := split_flatten ts hne h
  have hp : ∀ t ∈ ts, kw <+: t := fun t ht => (h t ht).1
  unfold splitStdinL
  rw [hs]
  cases ts with
  | nil => simp at hne
  | cons t ts' =>
    have hm := map_restore (t :: ts') hp
    simp only [List.map_cons] at hm ⊢
    simp only [List.nil_append, number_snd, number_fst, List.map_map, List.length_cons, List.length_map]
    constructor
    · simpa [Function.comp_def] using hm
    · simp [List.range'_succ]

/-! ### strings -/

theorem toList_foldl_append (l : List String) (acc : String) :
    (l.foldl (fun r s => r ++ s) acc).toList = acc.toList ++ (l.map String.toList).flatten := by
  induction l generalizing acc with
  | nil => simp
  | cons s l ih => simp [ih, String.toList_append]

theorem toList_join (l : List String) : (String.join l).toList = (l.map String.toList).flatten := by
  simp [String.join, toList_foldl_append]

end StoneVerif.Stdin
