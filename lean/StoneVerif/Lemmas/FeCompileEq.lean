import StoneVerif.Lemmas.FeCompileInv
set_option linter.unusedSimpArgs false
/-!
`compileCore fs = .ok api → denoteCore fs = some api`: passes 5 and 6 and the assembly of the Api against the
specification-level image.
-/
namespace StoneVerif.FeCompile.L
open StoneVerif.FeCompile
open StoneVerif.FeParams (TyKind)

theorem typesOut_denote {rx E fs st ns} (hI : Inv rx E fs st) : ∀ {tds : List TypeDecl} {types},
    (∀ d, d ∈ tds → E.items.lookup (ns, d.name) = some (.type d)) → typesOut st ns tds = .ok types →
    optMapM (fun d => (denoteType rx fs ns d).map fun c => (d.name, c)) tds = some types
  | [], types, _, h => by simp only [typesOut] at h; cases h; rfl
  | d :: tds, types, hl, h => by
    simp only [typesOut] at h
    split at h
    · cases h
    · rename_i c hc
      split at h
      · cases h
      · rename_i cs hcs
        cases h
        obtain ⟨d', hd', hden⟩ := hI.done _ _ (mem_of_lookup hc)
        rw [hl d List.mem_cons_self] at hd'
        cases hd'
        simp only at hden
        simp [optMapM, hden, typesOut_denote hI (fun d' hm => hl d' (List.mem_cons_of_mem _ hm)) hcs]

theorem aliasesOut_denote {rx E fs st ns} (hI : Inv rx E fs st) : ∀ {as : List (String × TRef)} {out},
    (∀ n r, (n, r) ∈ as → E.items.lookup (ns, n) = some (.alias r)) → aliasesOut st ns as = .ok out →
    optMapM (fun (p : String × TRef) => (denoteRef rx fs ns p.2).map fun t => (p.1, t)) as = some out
  | [], out, _, h => by simp only [aliasesOut] at h; cases h; rfl
  | (n, r) :: as, out, hl, h => by
    simp only [aliasesOut] at h
    split at h
    · cases h
    · rename_i t ht
      split at h
      · cases h
      · rename_i ts hts
        cases h
        obtain ⟨r', hr', hden⟩ := hI.aliases _ _ (mem_of_lookup ht)
        rw [hl n r List.mem_cons_self] at hr'
        cases hr'
        simp only at hden
        simp [optMapM, hden, aliasesOut_denote hI (fun n' r' hm => hl n' r' (List.mem_cons_of_mem _ hm)) hts]

theorem compileRoute_denote {rx E fs A ns r c} (hE : EnvOK E fs) (h : compileRoute rx E A ns r = .ok c) :
    denoteRoute rx fs ns r = some c := by
  unfold compileRoute at h
  split at h
  · cases h
  · rename_i ta hta
    split at h
    · cases h
    · rename_i tr htr
      split at h
      · cases h
      · rename_i re hre
        split at h
        · cases h
        · rename_i te hte
          split at h
          · cases h
          · cases h
            unfold denoteRoute
            simp [resolve_denote hE hta, resolve_denote hE htr, hre, resolve_denote hE hte]

theorem compileRoutes_denote {rx E fs A ns} (hE : EnvOK E fs) : ∀ {rds : List RouteDecl} {rs},
    compileRoutes rx E A ns rds = .ok rs → optMapM (denoteRoute rx fs ns) rds = some rs
  | [], rs, h => by simp only [compileRoutes] at h; cases h; rfl
  | r :: rds, rs, h => by
    simp only [compileRoutes] at h
    split at h
    · cases h
    · rename_i c hc
      split at h
      · cases h
      · rename_i cs hcs
        cases h
        simp [optMapM, compileRoute_denote hE hc, compileRoutes_denote hE hcs]

/-! ## enumerated subtypes -/

theorem subtypeFields_denote {rx E fs st ns} (hE : EnvOK E fs) : ∀ {subs : List (String × TRef)} {fields},
    subtypeFields rx E st ns subs = .ok fields → optMapM (subDen rx fs ns) subs = some fields
  | [], fields, h => by simp only [subtypeFields] at h; cases h; rfl
  | (tag, r) :: subs, fields, h => by
    simp only [subtypeFields] at h
    split at h
    · cases h
    · split at h
      · cases h
      · rename_i t ht
        split at h
        · rename_i k
          split at h
          · split at h
            · cases h
            · rename_i fs' hfs
              cases h
              simp [optMapM, subDen, resolve_denote hE ht, subtypeFields_denote hE hfs]
          · cases h
        · cases h

/-- every entry of the enumerated-subtypes table is the image of the declaration under its key -/
def EnInv (rx : String → Bool) (E : Env) (fs : List File) (en : EnumMap) : Prop :=
  ∀ k v, (k, v) ∈ en → ∃ d subs, E.items.lookup k = some (.type d) ∧
    enumOf d = some (subs, v.2) ∧ optMapM (subDen rx fs k.1) subs = some v.1

def hasSub (d : TypeDecl) : Bool := (enumOf d).isSome

theorem lookup_isSome_cons {α β} [BEq α] [LawfulBEq α] {l : List (α × β)} {k k' : α} {v : β}
    (h : (l.lookup k).isSome) : (((k', v) :: l).lookup k).isSome := by
  rw [List.lookup_cons]
  split <;> simp [h]

theorem enumFirst_inv {rx E fs st ns} (hE : EnvOK E fs) : ∀ {ds : List TypeDecl} {en en'},
    (∀ d, d ∈ ds → E.items.lookup (ns, d.name) = some (.type d)) → EnInv rx E fs en →
    enumFirst rx E st ns en ds = .ok en' →
    EnInv rx E fs en' ∧ (∀ k, (en.lookup k).isSome → (en'.lookup k).isSome) ∧
      (∀ d, d ∈ ds → hasSub d = true → (en'.lookup (ns, d.name)).isSome)
  | [], en, en', _, hI, h => by
    simp only [enumFirst] at h; cases h
    exact ⟨hI, fun _ h => h, by simp⟩
  | d :: ds, en, en', hl, hI, h => by
    simp only [enumFirst] at h
    have hl' : ∀ d', d' ∈ ds → E.items.lookup (ns, d'.name) = some (.type d') :=
      fun d' hm => hl d' (List.mem_cons_of_mem _ hm)
    split at h
    · rename_i subs ca hsub
      split at h
      · cases h
      · rename_i c hc
        split at h
        · cases h
        · rename_i fields hfields
          split at h
          · cases h
          · have hI1 : EnInv rx E fs (((ns, d.name), (fields, ca)) :: en) := by
              intro k v hm
              simp only [List.mem_cons] at hm
              rcases hm with hm | hm
              · cases hm
                exact ⟨d, subs, hl d List.mem_cons_self, hsub, subtypeFields_denote hE hfields⟩
              · exact hI k v hm
            obtain ⟨hI2, hmono, hcomp⟩ := enumFirst_inv hE hl' hI1 h
            refine ⟨hI2, fun k hk => hmono k (lookup_isSome_cons hk), ?_⟩
            intro d' hm hs
            simp only [List.mem_cons] at hm
            rcases hm with rfl | hm
            · apply hmono
              simp [List.lookup_cons]
            · exact hcomp d' hm hs
    · rename_i hno
      obtain ⟨hI2, hmono, hcomp⟩ := enumFirst_inv hE hl' hI h
      refine ⟨hI2, hmono, ?_⟩
      intro d' hm hs
      simp only [List.mem_cons] at hm
      rcases hm with rfl | hm
      · exfalso
        unfold hasSub at hs
        rw [hno] at hs
        cases hs
      · exact hcomp d' hm hs

theorem pass5Nss_inv {rx E fs st} (hE : EnvOK E fs) : ∀ {nss : List String} {en en'},
    EnInv rx E fs en → pass5Nss rx E st en nss = .ok en' →
    EnInv rx E fs en' ∧ (∀ k, (en.lookup k).isSome → (en'.lookup k).isSome) ∧
      (∀ ns, ns ∈ nss → ∀ d, d ∈ typeDecls (declsOf fs ns) → hasSub d = true → (en'.lookup (ns, d.name)).isSome)
  | [], en, en', hI, h => by
    simp only [pass5Nss] at h; cases h
    exact ⟨hI, fun _ h => h, by simp⟩
  | ns :: nss, en, en', hI, h => by
    simp only [pass5Nss] at h
    split at h
    · cases h
    · rename_i en1 h1
      split at h
      · cases h
      · rw [hE.files] at h1
        obtain ⟨hI1, hmono1, hcomp1⟩ := enumFirst_inv hE (fun d hm => hE.lookup_type hm) hI h1
        obtain ⟨hI2, hmono2, hcomp2⟩ := pass5Nss_inv hE hI1 h
        refine ⟨hI2, fun k hk => hmono2 k (hmono1 k hk), ?_⟩
        intro ns' hm d hd hs
        simp only [List.mem_cons] at hm
        rcases hm with rfl | hm
        · exact hmono2 _ (hcomp1 d hd hs)
        · exact hcomp2 ns' hm d hd hs

theorem enumsOut_denote {rx E fs en ns} (hI : EnInv rx E fs en) : ∀ {tds : List TypeDecl},
    (∀ d, d ∈ tds → E.items.lookup (ns, d.name) = some (.type d)) →
    (∀ d, d ∈ tds → hasSub d = true → (en.lookup (ns, d.name)).isSome) →
    (optMapM (denoteEnum rx fs ns) tds).map (fun l => l.filterMap id) = some (enumsOut en ns tds)
  | [], _, _ => rfl
  | d :: tds, hl, hc => by
    have ih := enumsOut_denote hI (tds := tds) (fun d' hm => hl d' (List.mem_cons_of_mem _ hm))
      (fun d' hm => hc d' (List.mem_cons_of_mem _ hm))
    cases hrest : optMapM (denoteEnum rx fs ns) tds with
    | none => rw [hrest] at ih; cases ih
    | some rest =>
      rw [hrest] at ih
      simp only [Option.map_some, Option.some.injEq] at ih
      simp only [enumsOut, optMapM, hrest]
      cases hlk : en.lookup (ns, d.name) with
      | some v =>
        obtain ⟨d', subs, hd', hsub, hden⟩ := hI _ _ (mem_of_lookup hlk)
        rw [hl d List.mem_cons_self] at hd'
        cases hd'
        simp only at hden
        simp [denoteEnum, hsub, hden, ih]
      | none =>
        have hns : enumOf d = none := by
          cases hh : enumOf d with
          | none => rfl
          | some p =>
            have := hc d List.mem_cons_self (by simp [hasSub, hh])
            rw [hlk] at this
            cases this
        simp [denoteEnum, hns, ih]

/-! ## routes and the assembly -/

theorem pass6Nss_spec {rx E A} : ∀ {nss : List String} {L}, pass6Nss rx E A nss = .ok L →
    L.map (·.1) = nss ∧ ∀ ns rs, (ns, rs) ∈ L → compileRoutes rx E A ns (routeDecls (declsOf E.files ns)) = .ok rs
  | [], L, h => by simp only [pass6Nss] at h; cases h; simp
  | ns :: nss, L, h => by
    simp only [pass6Nss] at h
    split at h
    · cases h
    · rename_i rs hrs
      split at h
      · cases h
      · rename_i rest hrest
        cases h
        obtain ⟨hm, hall⟩ := pass6Nss_spec hrest
        refine ⟨by simp [hm], ?_⟩
        intro ns' rs' hmem
        simp only [List.mem_cons, Prod.mk.injEq] at hmem
        rcases hmem with ⟨rfl, rfl⟩ | hmem
        · exact hrs
        · exact hall ns' rs' hmem

theorem assemble_denote {rx E fs st en} (hE : EnvOK E fs) (hI : Inv rx E fs st) (hEn : EnInv rx E fs en) :
    ∀ {L : List (String × List CRoute)} {outs},
    (∀ ns rs, (ns, rs) ∈ L → compileRoutes rx E st.aliases ns (routeDecls (declsOf fs ns)) = .ok rs) →
    (∀ ns, ns ∈ L.map (·.1) → ∀ d, d ∈ typeDecls (declsOf fs ns) → hasSub d = true → (en.lookup (ns, d.name)).isSome) →
    assemble E st en L = .ok outs → optMapM (denoteNs rx fs) (L.map (·.1)) = some outs
  | [], outs, _, _, h => by simp only [assemble] at h; cases h; rfl
  | (ns, routes) :: L, outs, hr, hc, h => by
    simp only [assemble] at h
    rw [hE.files] at h
    split at h
    · cases h
    · rename_i types htypes
      split at h
      · cases h
      · rename_i aliases haliases
        split at h
        · cases h
        · rename_i outs' houts
          cases h
          have ih := assemble_denote hE hI hEn (fun ns' rs' hm => hr ns' rs' (List.mem_cons_of_mem _ hm))
            (fun ns' hm => hc ns' (by simp only [List.map_cons, List.mem_cons]; exact Or.inr hm)) houts
          have h1 := typesOut_denote hI (fun d hm => hE.lookup_type hm) htypes
          have h2 := aliasesOut_denote hI (fun n r hm => hE.lookup_alias hm) haliases
          have h3 := compileRoutes_denote hE (hr ns routes List.mem_cons_self)
          have h4 := enumsOut_denote hEn (ns := ns) (tds := typeDecls (declsOf fs ns)) (fun d hm => hE.lookup_type hm)
            (hc ns (by simp))
          cases h4' : optMapM (denoteEnum rx fs ns) (typeDecls (declsOf fs ns)) with
          | none => rw [h4'] at h4; cases h4
          | some enums =>
            rw [h4'] at h4
            simp only [Option.map_some, Option.some.injEq] at h4
            simp only [List.map_cons, optMapM, ih]
            simp [denoteNs, specDecls, h1, h2, h3, h4', h4]

theorem compile_denote {rx fs api} (h : compileCore rx fs = .ok api) : denoteCore rx fs = some api := by
  unfold compileCore at h
  split at h
  · cases h
  · rename_i E hEb
    have hE := buildEnv_ok hEb
    unfold compileEnv at h
    split at h
    · cases h
    · rename_i st hst
      split at h
      · cases h
      · split at h
        · cases h
        · rename_i en hen
          split at h
          · cases h
          · rename_i routes hroutes
            split at h
            · cases h
            · rename_i nss hnss
              cases h
              have hI := pass3_inv hE hst
              obtain ⟨hEn, _, hcomp⟩ := pass5Nss_inv hE (en := []) (by intro k v hm; simp at hm) hen
              obtain ⟨hmap, hrs⟩ := pass6Nss_spec hroutes
              rw [hE.files] at hrs
              have := assemble_denote hE hI hEn hrs (by rw [hmap]; exact hcomp) hnss
              unfold denoteCore
              rw [← hE.nss, ← hmap, this]
              rfl

end StoneVerif.FeCompile.L
