import StoneVerif.Model.DeclStub
/-!
Helper lemmas for the C15 property theorems (Props/C15.lean): list bookkeeping, the judged names each
generator function contributes, `all_fields` along an inheritance chain, and the availability
invariant (`Avail`) behind `stub_imports_closed`.
-/
namespace StoneVerif.C15
open StoneVerif.DeclStub

/-- every override the stub backend passes is present (computed from `Tables.stubOverrideCallbacks`) -/
theorem overrides_all : stubOverrides = ⟨true, true, true, true, true, true⟩ := by decide

theorem pep484S_norm (N : Naming) (ns : String) (t : StoneTy) (h : textFree N t = true) :
    normText (pep484S (.name "Text") (fun n => fmtClass N n) fmtNamespace ns t) = pep484 N ns t := by
  unfold pep484
  induction t with
  | alias a b t ih => simpa [pep484S, textFree] using ih (by simpa [textFree] using h)
  | user tns name =>
    have h' : fmtClass N name ≠ "Text" := by simpa [textFree] using h
    by_cases e : tns = ns <;> simp [pep484S, normText, e, h']
  | list t ih => simp [pep484S, normText, ih (by simpa [textFree] using h)]
  | map k v ihk ihv =>
    have hh : textFree N k = true ∧ textFree N v = true := by simpa [textFree] using h
    simp [pep484S, normText, ihk hh.1, ihv hh.2]
  | nullable t ih => simp [pep484S, normText, ih (by simpa [textFree] using h)]
  | _ => simp [pep484S, normText]

theorem flatMap_flatMap' {α β γ : Type} (l : List α) (f : α → List β) (g : β → List γ) :
    (l.flatMap f).flatMap g = l.flatMap (fun a => (f a).flatMap g) := by
  induction l with
  | nil => rfl
  | cons a l ih => simp [List.flatMap_cons, List.flatMap_append, ih]

theorem flatMap_nil' {α β : Type} (l : List α) : l.flatMap (fun _ => ([] : List β)) = [] := by
  induction l with
  | nil => rfl
  | cons a l ih => simp [List.flatMap_cons, ih]

theorem flatMap_single' {α β : Type} (l : List α) (g : α → β) : l.flatMap (fun a => [g a]) = l.map g := by
  induction l with
  | nil => rfl
  | cons a l ih => simp [List.flatMap_cons, ih]

theorem flatMap_congr' {α β : Type} (l : List α) (f g : α → List β) (h : ∀ a ∈ l, f a = g a) :
    l.flatMap f = l.flatMap g := by
  induction l with
  | nil => rfl
  | cons a l ih =>
    simp only [List.flatMap_cons]
    rw [h a (by simp), ih (fun b hb => h b (by simp [hb]))]

theorem flatW_fst {α β : Type} (l : List β) (f : β → W (List α)) :
    (flatW (l.map f)).1 = l.flatMap (fun b => (f b).1) := by
  simp [flatW, List.flatMap_map]

theorem judged_stubType (N : Naming) (api : Api) (ns : String) (t : TypeDef) :
    (stubType N api ns t).1.flatMap judgedItem =
      [(JKind.cls, fmtClass N t.name), (JKind.validator, fmtClass N t.name ++ "_validator")] := by
  cases h : t.kind <;> simp [stubType, h, stubStruct, stubUnion, judgedItem]

theorem judged_rtType (N : Naming) (api : Api) (ns : String) (t : TypeDef) :
    (rtType N api ns t).flatMap judgedItem =
      [(JKind.cls, fmtClass N t.name), (JKind.validator, fmtClass N t.name ++ "_validator")] := by
  cases h : t.kind <;> simp [rtType, h, rtStruct, rtUnion, judgedItem]

theorem judged_stubAlias (N : Naming) (ns : String) (a : AliasDef) :
    (stubAlias N ns a).flatMap judgedItem =
      (JKind.validator, fmtClass N a.name ++ "_validator") ::
        (if isUserTy (unwrapAliases a.ty) then [(JKind.aliasName, fmtClass N a.name)] else []) := by
  by_cases h : isUserTy (unwrapAliases a.ty) <;> simp [stubAlias, h, judgedItem]

theorem judged_rtAlias (N : Naming) (ns : String) (a : AliasDef) :
    (rtAlias N ns a).flatMap judgedItem =
      (JKind.validator, fmtClass N a.name ++ "_validator") ::
        (if isUserTy (unwrapAliases a.ty) then [(JKind.aliasName, fmtClass N a.name)] else []) := by
  by_cases h : isUserTy (unwrapAliases a.ty) <;> simp [rtAlias, h, judgedItem]

theorem judgedSpec_congr (N : Naming) (ns : Namespace) (f g : String → String)
    (h : ∀ a ∈ ns.aliases, f a.name = g a.name) : judgedSpec N ns f = judgedSpec N ns g := by
  unfold judgedSpec
  rw [flatMap_congr' ns.aliases _ _ (fun a ha => by rw [h a ha])]

theorem stubInitParam_name (N : Naming) (ns : String) (f : Field) :
    (stubInitParam N ns f).1.name = fmtVar N f.name true := by
  by_cases h : f.hasDefault <;> simp [stubInitParam, h]

theorem ctor_own_eq (N : Naming) (api : Api) (ns : String) (t : TypeDef) :
    ctorParams (stubType N api ns t).1 = ctorParams (rtType N api ns t) := by
  cases h : t.kind <;>
    simp [stubType, rtType, h, stubStruct, stubUnion, rtStruct, rtUnion, classOf, ctorParams,
      unzipW, List.map_map, Function.comp_def, stubInitParam_name, rtParam]

/-- the judged member a struct field contributes -/
def jAttr (N : Naming) (f : Field) : List (MKind × String) :=
  if isPublic (fmtFunc N f.name true) then [(MKind.attr, fmtFunc N f.name true)] else []

theorem custom_private : isPublic "_process_custom_annotations" = false := by decide

theorem stubOwn_struct (N : Naming) (api : Api) (ns : String) (t : TypeDef) (h : t.kind = .struct) :
    stubOwn N api ns t = (allFields api api.fuel t).flatMap (jAttr N) := by
  simp [stubOwn, stubType, h, stubStruct, classOf, unzipW, List.flatMap_append, List.flatMap_map, judgedMember,
    customAnnotationsMember, custom_private, stubFieldAttr]
  rfl

theorem rtOwn_struct (N : Naming) (api : Api) (ns : String) (t : TypeDef) (h : t.kind = .struct) :
    rtOwn N api ns t = t.fields.flatMap (jAttr N) := by
  simp [rtOwn, rtType, h, rtStruct, classOf, List.flatMap_append, List.flatMap_map, judgedMember,
    custom_private, rtMember]
  rfl

/-- `all_fields` does not change once the fuel covers the chain -/
theorem filterFields_stable (api : Api) (p : Field → Bool) (n : Nat) :
    ∀ (t : TypeDef), chainOK api n t = true → ∀ m, filterFields api p (n + m) t = filterFields api p n t := by
  induction n with
  | zero =>
    intro t h m
    have hp : parentDef api t = none := by simpa [chainOK] using h
    cases m with
    | zero => rfl
    | succ m => simp [filterFields, hp]
  | succ n ih =>
    intro t h m
    have e : n + 1 + m = (n + m) + 1 := by omega
    rw [e]
    simp only [filterFields]
    cases hp : parentDef api t with
    | none => rfl
    | some q =>
      have hq : chainOK api n q = true := by
        have := h
        simp only [chainOK, hp] at this
        simpa using (Bool.and_eq_true _ _ ▸ this).2
      simp [ih q hq m]

/-- every field of the chain, super types first (`_filter_fields` with the constant-true filter) -/
def chainFields (api : Api) (n : Nat) (t : TypeDef) : List Field := filterFields api (fun _ => true) n t

theorem mem_filterFields (api : Api) (p : Field → Bool) (n : Nat) :
    ∀ (t : TypeDef) (f : Field), f ∈ filterFields api p n t ↔ (f ∈ chainFields api n t ∧ p f = true) := by
  induction n with
  | zero => intro t f; simp [filterFields, chainFields]
  | succ n ih =>
    intro t f
    simp only [filterFields, chainFields, List.mem_append, List.mem_filter]
    cases hp : parentDef api t with
    | none => simp
    | some q =>
      have := ih q f
      simp only [chainFields] at this
      simp only [this]
      grind

theorem optional_eq_not_required (f : Field) : isOptional f = !isRequired f := by
  simp [isOptional, isRequired]

/-- `all_fields` is a rearrangement of the fields of the chain -/
theorem mem_allFields (api : Api) (n : Nat) (t : TypeDef) (f : Field) :
    f ∈ allFields api n t ↔ f ∈ chainFields api n t := by
  simp only [allFields, List.mem_append, mem_filterFields, optional_eq_not_required]
  cases isRequired f <;> simp

theorem chainFields_succ (api : Api) (n : Nat) (t q : TypeDef) (hp : parentDef api t = some q) :
    chainFields api (n + 1) t = chainFields api n q ++ t.fields := by
  simp [chainFields, filterFields, hp]

theorem chainFields_root (api : Api) (n : Nat) (t : TypeDef) (hp : parentDef api t = none) :
    chainFields api n t = t.fields := by
  cases n <;> simp [chainFields, filterFields, hp]

theorem allFields_stable (api : Api) (n m : Nat) (t : TypeDef) (h : chainOK api n t = true) :
    allFields api (n + m) t = allFields api n t := by
  simp [allFields, filterFields_stable api _ n t h m]

theorem fmtFunc_plain (N : Naming) (n : String) : fmtFunc N n = fmtVar N n := by
  simp [fmtFunc, fmtVar]

/-- a union class declares the same judged members on both sides (void-tag attributes, `is_*`,
tag constructors, `get_*`), in a different order -/
theorem own_union_mem (N : Naming) (api : Api) (ns : String) (t : TypeDef) (h : t.kind = .union)
    (x : MKind × String) : x ∈ stubOwn N api ns t ↔ x ∈ rtOwn N api ns t := by
  simp only [stubOwn, rtOwn, stubType, rtType, h, stubUnion, rtUnion, classOf, List.findSome?,
    stubUnionVars, stubUnionIsSet, stubUnionCreators, stubUnionGetters, unzipW, customAnnotationsMember,
    List.flatMap_append, List.flatMap_map, List.map_map, List.mem_append, List.mem_flatMap, List.mem_filter,
    judgedMember, rtMember, fmtFunc_plain, List.flatMap_cons, List.flatMap_nil, custom_private,
    Function.comp_def]
  grind

theorem chainOK_succ (api : Api) (n : Nat) (t q : TypeDef) (hp : parentDef api t = some q)
    (h : chainOK api (n + 1) t = true) : q.kind = t.kind ∧ chainOK api n q = true := by
  simp only [chainOK, hp, Bool.and_eq_true, beq_iff_eq] at h
  exact h

theorem parentDef_of (api : Api) (t : TypeDef) (k : QName) (hk : t.parent = some k) :
    parentDef api t = lookupType api k := by
  simp [parentDef, hk]

theorem parentDef_none (api : Api) (t : TypeDef) (hk : t.parent = none) : parentDef api t = none := by
  simp [parentDef, hk]

theorem mem_flatMap_allFields {β : Type} (api : Api) (n : Nat) (t : TypeDef) (g : Field → List β) (x : β) :
    x ∈ (allFields api n t).flatMap g ↔ x ∈ (chainFields api n t).flatMap g := by
  simp [List.mem_flatMap, mem_allFields]

/-- runtime side: the own fields of the classes along the chain -/
theorem rt_resolve_struct (N : Naming) (api : Api) (n : Nat) :
    ∀ (ns : String) (t : TypeDef), chainOK api n t = true → t.kind = .struct →
      ∀ x, x ∈ resolve (rtOwn N api) api n ns t ↔ x ∈ (chainFields api n t).flatMap (jAttr N) := by
  induction n with
  | zero =>
    intro ns t hc hk x
    have hp : parentDef api t = none := by simpa [chainOK] using hc
    simp [resolve, rtOwn_struct N api ns t hk, chainFields_root api 0 t hp]
  | succ n ih =>
    intro ns t hc hk x
    simp only [resolve, rtOwn_struct N api ns t hk, List.mem_append]
    cases hpar : t.parent with
    | none =>
      simp [chainFields_root api (n + 1) t (parentDef_none api t hpar)]
    | some k =>
      cases hl : lookupType api k with
      | none =>
        have hp : parentDef api t = none := by rw [parentDef_of api t k hpar, hl]
        simp [hl, chainFields_root api (n + 1) t hp]
      | some q =>
        have hp : parentDef api t = some q := by rw [parentDef_of api t k hpar, hl]
        obtain ⟨hkq, hcq⟩ := chainOK_succ api n t q hp hc
        simp only [hl, chainFields_succ api n t q hp, List.flatMap_append, List.mem_append,
          ih k.1 q hcq (hkq.trans hk) x]
        exact Or.comm

/-- stub side: every class lists `all_fields`, which adds nothing to what the chain has -/
theorem stub_resolve_struct (N : Naming) (api : Api) (n : Nat) :
    ∀ (ns : String) (t : TypeDef), chainOK api n t = true → t.kind = .struct → n ≤ api.fuel →
      ∀ x, x ∈ resolve (stubOwn N api) api n ns t ↔ x ∈ (chainFields api n t).flatMap (jAttr N) := by
  induction n with
  | zero =>
    intro ns t hc hk hn x
    have e : api.fuel = 0 + api.fuel := by omega
    simp only [resolve, stubOwn_struct N api ns t hk]
    rw [e, allFields_stable api 0 api.fuel t hc, mem_flatMap_allFields]
  | succ n ih =>
    intro ns t hc hk hn x
    obtain ⟨m, e⟩ : ∃ m, api.fuel = (n + 1) + m := ⟨api.fuel - (n + 1), by omega⟩
    have hown : ∀ y, y ∈ stubOwn N api ns t ↔ y ∈ (chainFields api (n + 1) t).flatMap (jAttr N) := by
      intro y
      rw [stubOwn_struct N api ns t hk, e, allFields_stable api (n + 1) m t hc, mem_flatMap_allFields]
    simp only [resolve, List.mem_append, hown]
    cases hpar : t.parent with
    | none => simp
    | some k =>
      cases hl : lookupType api k with
      | none => simp [hl]
      | some q =>
        have hp : parentDef api t = some q := by rw [parentDef_of api t k hpar, hl]
        obtain ⟨hkq, hcq⟩ := chainOK_succ api n t q hp hc
        simp only [hl, ih k.1 q hcq (hkq.trans hk) (by omega) x, chainFields_succ api n t q hp,
          List.flatMap_append, List.mem_append]
        constructor
        · rintro (h | h)
          · exact h
          · exact Or.inl h
        · intro h
          exact Or.inl h

theorem union_resolve (N : Naming) (api : Api) (n : Nat) :
    ∀ (ns : String) (t : TypeDef), chainOK api n t = true → t.kind = .union →
      ∀ x, x ∈ resolve (stubOwn N api) api n ns t ↔ x ∈ resolve (rtOwn N api) api n ns t := by
  induction n with
  | zero =>
    intro ns t _ hk x
    simp [resolve, own_union_mem N api ns t hk x]
  | succ n ih =>
    intro ns t hc hk x
    simp only [resolve, List.mem_append, own_union_mem N api ns t hk x]
    cases hpar : t.parent with
    | none => simp
    | some k =>
      cases hl : lookupType api k with
      | none => simp [hl]
      | some q =>
        have hp : parentDef api t = some q := by rw [parentDef_of api t k hpar, hl]
        obtain ⟨hkq, hcq⟩ := chainOK_succ api n t q hp hc
        simp only [hl, ih k.1 q hcq (hkq.trans hk) x]

/-- what is in scope for the annotations of `ns` once `regs` has been registered with the tracker -/
def Avail (N : Naming) (ns : Namespace) (regs : List Reg) (x : String) : Prop :=
  x ∈ pyBuiltins ∨ Reg.typing x ∈ regs ∨ (x = "datetime" ∧ Reg.adhoc "import datetime" ∈ regs) ∨
  x ∈ ["bb", "bv", "T", "U"] ∨ (∃ t ∈ ns.types, x = fmtClass N t.name) ∨
  (∃ i, Reg.nsRef i ∈ regs ∧ x = fmtNamespace i)

theorem Avail.mono {N : Naming} {ns : Namespace} {regs regs' : List Reg} {x : String}
    (h : ∀ r ∈ regs, r ∈ regs') (a : Avail N ns regs x) : Avail N ns regs' x := by
  rcases a with a | a | ⟨a, b⟩ | a | a | a
  · exact Or.inl a
  · exact Or.inr (Or.inl (h _ a))
  · exact Or.inr (Or.inr (Or.inl ⟨a, h _ b⟩))
  · exact Or.inr (Or.inr (Or.inr (Or.inl a)))
  · exact Or.inr (Or.inr (Or.inr (Or.inr (Or.inl a))))
  · obtain ⟨i, hi, hx⟩ := a
    exact Or.inr (Or.inr (Or.inr (Or.inr (Or.inr ⟨i, h _ hi, hx⟩))))

/-- every user type of `ns` itself that the mapping can mention for `t` is a class of `ns` (a class of another
namespace brings its own import: `Reg.nsRef`) -/
def RefsOK (ns : Namespace) (t : StoneTy) : Prop :=
  ∀ k ∈ resolvedUsers t, k.1 = ns.name → ∃ td ∈ ns.types, td.name = k.2

theorem refsOK_of_covered (api : Api) (ns : Namespace) (h : ownRefsDefined api ns = true) :
    ∀ t ∈ annotatedTypes api ns, RefsOK ns t := by
  intro t ht k hk e
  have h1 := (List.all_eq_true.mp h) t ht
  have h2 := (List.all_eq_true.mp h1) k hk
  simpa [e] using h2

theorem mapTy_avail (N : Naming) (ns : Namespace) (t : StoneTy) (h : RefsOK ns t) :
    ∀ x ∈ (mapStoneType N ns.name t).1.names, Avail N ns (mapStoneType N ns.name t).2 x := by
  unfold mapStoneType
  rw [overrides_all]
  induction t with
  | string => intro x hx; simp [mapTy, TExpr.names] at hx; subst hx; exact Or.inr (Or.inl (by simp [mapTy]))
  | bytes => intro x hx; simp [mapTy, TExpr.names] at hx; subst hx; exact Or.inl (by decide)
  | boolean => intro x hx; simp [mapTy, TExpr.names] at hx; subst hx; exact Or.inl (by decide)
  | float => intro x hx; simp [mapTy, TExpr.names] at hx; subst hx; exact Or.inl (by decide)
  | integer => intro x hx; simp [mapTy, TExpr.names] at hx; subst hx; exact Or.inl (by decide)
  | void => intro x hx; simp [mapTy, TExpr.names] at hx
  | timestamp =>
    intro x hx
    simp [mapTy, TExpr.names, tDatetime] at hx
    subst hx
    exact Or.inr (Or.inr (Or.inl ⟨rfl, by simp [mapTy]⟩))
  | alias a b t ih =>
    intro x hx
    exact ih (by simpa [RefsOK, resolvedUsers] using h) x (by simpa [mapTy] using hx)
  | user tns name =>
    intro x hx
    have hk := h (tns, name) (by simp [resolvedUsers])
    by_cases e : tns = ns.name
    · simp [mapTy, e, TExpr.names] at hx
      subst hx
      obtain ⟨td, htd, hn⟩ := hk e
      exact Or.inr (Or.inr (Or.inr (Or.inr (Or.inl ⟨td, htd, by simp [hn]⟩))))
    · simp [mapTy, e, TExpr.names] at hx
      subst hx
      exact Or.inr (Or.inr (Or.inr (Or.inr (Or.inr ⟨tns, by simp [mapTy, e], rfl⟩))))
  | list t ih =>
    intro x hx
    simp [mapTy, TExpr.names] at hx
    rcases hx with hx | hx
    · subst hx; exact Or.inr (Or.inl (by simp [mapTy]))
    · exact (ih (by simpa [RefsOK, resolvedUsers] using h) x hx).mono (by intro r hr; simp [mapTy, hr])
  | map k v ihk ihv =>
    intro x hx
    have hk' : RefsOK ns k := fun q hq => h q (by simp [resolvedUsers, hq])
    have hv' : RefsOK ns v := fun q hq => h q (by simp [resolvedUsers, hq])
    simp [mapTy, TExpr.names] at hx
    rcases hx with hx | hx | hx
    · subst hx; exact Or.inr (Or.inl (by simp [mapTy]))
    · exact (ihk hk' x hx).mono (by intro r hr; simp [mapTy, hr])
    · exact (ihv hv' x hx).mono (by intro r hr; simp [mapTy, hr])
  | nullable t ih =>
    intro x hx
    simp [mapTy, TExpr.names] at hx
    rcases hx with hx | hx
    · subst hx; exact Or.inr (Or.inl (by simp [mapTy]))
    · exact (ih (by simpa [RefsOK, resolvedUsers] using h) x hx).mono (by intro r hr; simp [mapTy, hr])

theorem avail_fixed {N : Naming} {ns : Namespace} {regs : List Reg} {x : String}
    (h : x ∈ ["bb", "bv", "T", "U"]) : Avail N ns regs x :=
  Or.inr (Or.inr (Or.inr (Or.inl h)))

theorem avail_typing {N : Naming} {ns : Namespace} {regs : List Reg} {x : String}
    (h : Reg.typing x ∈ regs) : Avail N ns regs x := Or.inr (Or.inl h)

theorem avail_class {N : Naming} {ns : Namespace} {regs : List Reg} (t : TypeDef) (h : t ∈ ns.types) :
    Avail N ns regs (fmtClass N t.name) :=
  Or.inr (Or.inr (Or.inr (Or.inr (Or.inl ⟨t, h, rfl⟩))))

theorem unzipW_avail {α β : Type} (N : Naming) (ns : Namespace) (l : List β) (g : β → W α)
    (names : α → List String)
    (h : ∀ b ∈ l, ∀ x ∈ names (g b).1, Avail N ns (g b).2 x) :
    ∀ x ∈ (unzipW (l.map g)).1.flatMap names, Avail N ns (unzipW (l.map g)).2 x := by
  intro x hx
  simp only [unzipW, List.map_map, List.mem_flatMap, List.mem_map, Function.comp_def] at hx
  obtain ⟨a, ⟨b, hb, rfl⟩, hx⟩ := hx
  refine (h b hb x hx).mono ?_
  intro r hr
  simp only [unzipW, List.mem_flatMap, List.mem_map]
  exact ⟨g b, ⟨b, hb, rfl⟩, hr⟩

theorem flatW_avail {β : Type} (N : Naming) (ns : Namespace) (l : List β) (g : β → W (List ModItem))
    (h : ∀ b ∈ l, ∀ x ∈ (g b).1.flatMap ModItem.annNames, Avail N ns (g b).2 x) :
    ∀ x ∈ (flatW (l.map g)).1.flatMap ModItem.annNames, Avail N ns (flatW (l.map g)).2 x := by
  intro x hx
  simp only [flatW, List.flatMap_map, List.mem_flatMap] at hx
  obtain ⟨it, ⟨b, hb, hit⟩, hx⟩ := hx
  refine (h b hb x (List.mem_flatMap.mpr ⟨it, hit, hx⟩)).mono ?_
  intro r hr
  simp only [flatW, List.flatMap_map, List.mem_flatMap]
  exact ⟨b, hb, hr⟩

theorem initParam_avail (N : Naming) (ns : Namespace) (f : Field) (h : RefsOK ns f.ty) :
    ∀ x ∈ (stubInitParam N ns.name f).1.ann.names, Avail N ns (stubInitParam N ns.name f).2 x := by
  intro x hx
  by_cases hd : f.hasDefault
  · simp only [stubInitParam, hd, if_true, tOptional, TExpr.names, List.mem_append, List.mem_singleton] at hx
    rcases hx with hx | hx
    · subst hx; exact avail_typing (by simp [stubInitParam, hd])
    · exact (mapTy_avail N ns f.ty h x hx).mono (by intro r hr; simp [stubInitParam, hd, hr])
  · simp only [stubInitParam, hd] at hx ⊢
    exact mapTy_avail N ns f.ty h x hx

theorem fieldAttr_avail (N : Naming) (ns : Namespace) (f : Field) (h : RefsOK ns f.ty) :
    ∀ x ∈ Member.annNames (stubFieldAttr N ns.name f).1, Avail N ns (stubFieldAttr N ns.name f).2 x := by
  intro x hx
  simp only [stubFieldAttr, Member.annNames, TExpr.names, tBB, List.flatMap_nil, List.append_nil,
    List.mem_append, List.mem_singleton] at hx
  rcases hx with hx | hx
  · subst hx; exact avail_fixed (by simp)
  · exact mapTy_avail N ns f.ty h x hx

theorem custom_avail (N : Naming) (ns : Namespace) :
    ∀ x ∈ Member.annNames customAnnotationsMember.1, Avail N ns customAnnotationsMember.2 x := by
  intro x hx
  have e : Member.annNames customAnnotationsMember.1 = ["Type", "T", "Text", "Callable", "T", "U", "U"] := by rfl
  rw [e] at hx
  simp only [List.mem_cons, List.not_mem_nil, or_false] at hx
  rcases hx with hx | hx | hx | hx | hx | hx | hx <;> subst hx
  · exact avail_typing (by simp [customAnnotationsMember])
  · exact avail_fixed (by simp)
  · exact avail_typing (by simp [customAnnotationsMember])
  · exact avail_typing (by simp [customAnnotationsMember])
  · exact avail_fixed (by simp)
  · exact avail_fixed (by simp)
  · exact avail_fixed (by simp)

theorem mono_left {N : Naming} {ns : Namespace} {a b : List Reg} {x : String} (h : Avail N ns a x) :
    Avail N ns (a ++ b) x := h.mono (by intro r hr; simp [hr])

theorem mono_right {N : Naming} {ns : Namespace} {a b : List Reg} {x : String} (h : Avail N ns b x) :
    Avail N ns (a ++ b) x := h.mono (by intro r hr; simp [hr])

theorem struct_avail (N : Naming) (api : Api) (ns : Namespace) (t : TypeDef)
    (h : ∀ f ∈ allFields api api.fuel t, RefsOK ns f.ty) :
    ∀ x ∈ (stubStruct N api ns.name t).1.flatMap ModItem.annNames, Avail N ns (stubStruct N api ns.name t).2 x := by
  intro x hx
  simp only [stubStruct, List.flatMap_cons, List.flatMap_nil, List.append_nil, ModItem.annNames,
    ClassDecl.annNames, List.flatMap_append, List.mem_append, tBV, TExpr.names, List.mem_singleton] at hx
  rcases hx with (hx | hx | hx) | hx
  · exact mono_left (mono_left (unzipW_avail N ns _ _ (fun p => p.ann.names)
      (fun f hf => initParam_avail N ns f (h f hf)) x hx))
  · exact mono_left (mono_right (unzipW_avail N ns _ _ Member.annNames
      (fun f hf => fieldAttr_avail N ns f (h f hf)) x hx))
  · exact mono_right (custom_avail N ns x hx)
  · subst hx; exact avail_fixed (by simp)

theorem union_avail (N : Naming) (ns : Namespace) (t : TypeDef) (ht : t ∈ ns.types)
    (h : ∀ f ∈ t.fields, RefsOK ns f.ty) :
    ∀ x ∈ (stubUnion N ns.name t).1.flatMap ModItem.annNames, Avail N ns (stubUnion N ns.name t).2 x := by
  intro x hx
  simp only [stubUnion, List.flatMap_cons, List.flatMap_nil, List.append_nil, ModItem.annNames,
    ClassDecl.annNames, List.flatMap_append, List.mem_append, tBV, TExpr.names, List.mem_singleton,
    List.nil_append] at hx
  rcases hx with ((((hx | hx) | hx) | hx) | hx) | hx
  · -- void-tag attributes: annotated with the union's own class
    simp only [stubUnionVars, List.flatMap_map, List.mem_flatMap, List.mem_filter, Member.annNames, TExpr.names,
      List.flatMap_nil, List.append_nil, List.mem_singleton] at hx
    obtain ⟨f, _, rfl⟩ := hx
    exact avail_class t ht
  · simp only [stubUnionIsSet, List.flatMap_map, List.mem_flatMap, Member.annNames, TExpr.names,
      List.flatMap_nil, List.append_nil, List.mem_singleton] at hx
    obtain ⟨f, _, rfl⟩ := hx
    exact Or.inl (by decide)
  · refine mono_left (mono_left ?_)
    refine unzipW_avail N ns _ _ Member.annNames ?_ x hx
    intro f hf y hy
    have hf' : f ∈ t.fields := (List.mem_filter.mp hf).1
    simp only [Member.annNames, TExpr.names, List.flatMap_cons, List.flatMap_nil, List.append_nil,
      List.mem_append, List.mem_cons, List.not_mem_nil, or_false] at hy
    rcases hy with hy | hy
    · subst hy; exact avail_class t ht
    · exact mapTy_avail N ns f.ty (h f hf') y hy
  · refine mono_left (mono_right ?_)
    refine unzipW_avail N ns _ _ Member.annNames ?_ x hx
    intro f hf y hy
    have hf' : f ∈ t.fields := (List.mem_filter.mp hf).1
    simp only [Member.annNames, List.flatMap_nil, List.append_nil] at hy
    exact mapTy_avail N ns f.ty (h f hf') y hy
  · exact mono_right (custom_avail N ns x hx)
  · subst hx; exact avail_fixed (by simp)

theorem annoType_avail (N : Naming) (ns : Namespace) (a : AnnoTypeDef)
    (h : ∀ p ∈ a.params, RefsOK ns p.ty) :
    ∀ x ∈ (stubAnnoType N ns.name a).1.flatMap ModItem.annNames, Avail N ns (stubAnnoType N ns.name a).2 x := by
  intro x hx
  simp only [stubAnnoType, List.flatMap_cons, List.flatMap_nil, List.append_nil, ModItem.annNames,
    ClassDecl.annNames, List.mem_append] at hx
  rcases hx with hx | hx
  · refine mono_left (unzipW_avail N ns _ _ (fun p => p.ann.names) ?_ x hx)
    intro p hp y hy
    by_cases hn : isNullableTy p.ty
    · simp only [stubAnnoParam, hn, Bool.not_true, Bool.false_eq_true, if_false] at hy ⊢
      exact mapTy_avail N ns p.ty (h p hp) y hy
    · simp only [stubAnnoParam, hn, Bool.not_false, if_true, tOptional, TExpr.names, List.mem_append,
        List.mem_singleton] at hy ⊢
      rcases hy with hy | hy
      · subst hy; exact avail_typing (by simp)
      · exact mono_left (mapTy_avail N ns p.ty (h p hp) y hy)
  · refine mono_right (unzipW_avail N ns _ _ Member.annNames ?_ x hx)
    intro p hp y hy
    simp only [stubAnnoProp, Member.annNames, List.flatMap_nil, List.append_nil] at hy ⊢
    exact mapTy_avail N ns p.ty (h p hp) y hy

theorem type_avail (N : Naming) (api : Api) (ns : Namespace) (t : TypeDef) (ht : t ∈ ns.types)
    (h : ∀ ty ∈ annotatedTypes api ns, RefsOK ns ty) :
    ∀ x ∈ (stubType N api ns.name t).1.flatMap ModItem.annNames, Avail N ns (stubType N api ns.name t).2 x := by
  cases hk : t.kind with
  | struct =>
    simp only [stubType, hk]
    refine struct_avail N api ns t ?_
    intro f hf
    refine h f.ty ?_
    simp only [annotatedTypes, List.mem_append, List.mem_flatMap]
    exact Or.inl ⟨t, ht, by simp [hk]; exact ⟨f, hf, rfl⟩⟩
  | union =>
    simp only [stubType, hk]
    refine union_avail N ns t ht ?_
    intro f hf
    refine h f.ty ?_
    simp only [annotatedTypes, List.mem_append, List.mem_flatMap]
    exact Or.inl ⟨t, ht, by simp [hk]; exact ⟨f, hf, rfl⟩⟩

theorem body_avail (N : Naming) (api : Api) (ns : Namespace)
    (h : ∀ ty ∈ annotatedTypes api ns, RefsOK ns ty) :
    ∀ x ∈ (stubBody N api ns).1.flatMap ModItem.annNames, Avail N ns (stubBody N api ns).2 x := by
  intro x hx
  simp only [stubBody, List.flatMap_append, List.mem_append] at hx
  rcases hx with (((hx | hx) | hx) | hx) | hx
  · simp [stubTypevars, ModItem.annNames] at hx
  · refine mono_left (mono_right (flatW_avail N ns _ _ ?_ x hx))
    intro a ha
    refine annoType_avail N ns a ?_
    intro p hp
    refine h p.ty ?_
    simp only [annotatedTypes, List.mem_append, List.mem_flatMap, List.mem_map]
    exact Or.inr ⟨a, ha, p, hp, rfl⟩
  · refine mono_right (flatW_avail N ns _ _ ?_ x hx)
    intro t ht
    exact type_avail N api ns t ht h
  · simp only [List.mem_flatMap, stubAlias] at hx
    obtain ⟨it, ⟨a, _, hit⟩, hx⟩ := hx
    simp only [List.mem_cons] at hit
    rcases hit with rfl | hit
    · simp only [ModItem.annNames, tBV, TExpr.names, List.mem_singleton] at hx
      subst hx; exact avail_fixed (by simp)
    · split at hit
      · simp only [List.mem_singleton] at hit
        subst hit
        simp [ModItem.annNames] at hx
      · simp at hit
  · simp only [stubRoutes, List.flatMap_map, List.mem_flatMap, ModItem.annNames, tBB, TExpr.names,
      List.mem_singleton] at hx
    obtain ⟨r, _, rfl⟩ := hx
    exact avail_fixed (by simp)

theorem mem_dedup (l : List String) (x : String) : x ∈ dedup l ↔ x ∈ l := by
  induction l with
  | nil => simp [dedup]
  | cons a l ih =>
    simp only [dedup]
    split
    · rename_i h
      simp only [List.mem_cons, ih]
      constructor
      · exact Or.inr
      · rintro (rfl | h')
        · exact ih.mp h
        · exact h'
    · simp only [List.mem_cons, ih]

theorem typing_imported (imps : List String) (regs : List Reg) (x : String) (h : Reg.typing x ∈ regs) :
    x ∈ (placeholderImports imps regs).flatMap Import.binds := by
  have hx : x ∈ typingNames regs := by
    simp only [typingNames, mem_dedup, List.mem_filterMap]
    exact ⟨_, h, rfl⟩
  have hne : (typingNames regs).isEmpty = false := by
    cases hl : typingNames regs with
    | nil => rw [hl] at hx; simp at hx
    | cons a l => rfl
  simp only [placeholderImports, hne, Bool.false_eq_true, if_false, List.flatMap_append, List.mem_append,
    List.flatMap_cons, List.flatMap_nil, List.append_nil, Import.binds]
  exact Or.inl (Or.inl hx)

/-- a namespace the user-defined callback met is imported: by the regular import block, or by the placeholder -/
theorem nsRef_imported (imps : List String) (regs : List Reg) (i : String) (h : Reg.nsRef i ∈ regs) :
    fmtNamespace i ∈ (placeholderImports imps regs ++ imps.map (fun n => Import.ns (fmtNamespace n))).flatMap Import.binds := by
  by_cases hi : i ∈ imps
  · simp only [List.flatMap_append, List.mem_append, List.flatMap_map, List.mem_flatMap, Import.binds, List.mem_singleton]
    exact Or.inr ⟨i, hi, rfl⟩
  · have hx : i ∈ extraNamespaces imps regs := by
      simp only [extraNamespaces, mem_dedup, List.mem_filterMap]
      exact ⟨_, h, by simp [hi]⟩
    simp only [placeholderImports, List.flatMap_append, List.mem_append, List.flatMap_map, List.mem_flatMap, Import.binds,
      List.mem_singleton]
    exact Or.inl (Or.inl (Or.inr ⟨i, hx, rfl⟩))

theorem datetime_imported (imps : List String) (regs : List Reg) (h : Reg.adhoc "import datetime" ∈ regs) :
    "datetime" ∈ (placeholderImports imps regs).flatMap Import.binds := by
  have hx : "import datetime" ∈ adhocStmts regs := by
    simp only [adhocStmts, mem_dedup, List.mem_filterMap]
    exact ⟨_, h, rfl⟩
  simp only [placeholderImports, List.flatMap_append, List.mem_append, List.flatMap_map, List.mem_flatMap]
  exact Or.inr ⟨_, hx, by decide⟩

theorem class_defined (N : Naming) (api : Api) (ns : String) (t : TypeDef) :
    fmtClass N t.name ∈ (stubType N api ns t).1.flatMap ModItem.defines := by
  cases h : t.kind <;> simp [stubType, h, stubStruct, stubUnion, ModItem.defines]

end StoneVerif.C15
