import StoneVerif.Lemmas.RtCompatBwd5
/-!
Helper lemmas for C07, part 15 (backward direction): the induction over the document — a document in the older spec's
encoder form that the older spec's decoder accepts is accepted by the newer spec's decoder (either mode) as the same value
seen under the newer spec.
-/
namespace StoneVerif.Rt.Compat
open StoneVerif.Rt

theorem tightDoc_void (A : Env) (fl : Flags) (j : JVal) : tightDoc A (.void fl) j = isNullJ j := by
  unfold tightDoc; cases j <;> rfl

theorem tightDoc_list_arr (A : Env) (fl : Flags) (item : PTy) (a b : Option Nat) (xs : List JVal) :
    tightDoc A (.list fl item a b) (.arr xs) = tightList A item xs := by
  unfold tightDoc; rfl

theorem tightDoc_map_obj (A : Env) (fl : Flags) (kt vt : PTy) (kvs : List (String × JVal)) :
    tightDoc A (.map fl kt vt) (.obj kvs) = tightVals A vt kvs := by
  unfold tightDoc; rfl

theorem nvrDoc_list_arr (ρ : Rho) (A B : Env) (fl : Flags) (item : PTy) (a b : Option Nat) (xs : List JVal) :
    nvrDoc ρ A B (.list fl item a b) (.arr xs) = nvrList ρ A B item xs := by
  unfold nvrDoc; rfl

theorem nvrDoc_map_obj (ρ : Rho) (A B : Env) (fl : Flags) (kt vt : PTy) (kvs : List (String × JVal)) :
    nvrDoc ρ A B (.map fl kt vt) (.obj kvs) = nvrVals ρ A B vt kvs := by
  unfold nvrDoc; rfl

theorem msf_lift (E : Ext) (A B : Env) {ρ : Rho} {tA tB : PTy} (h : tySub ρ tA tB = true) (hp : isPrimTy tA = true)
    (sA sB : Bool) (j : JVal) (w : PyVal) (hk : tightDoc A tA j = true)
    (hd : makeStoneFriendly E A [] sA false tA j = .ok w) :
    makeStoneFriendly E B [] sB false tB j = .ok w := by
  cases tA <;> simp only [isPrimTy, Bool.false_eq_true] at hp <;> cases tB <;>
    simp only [tySub, Bool.false_eq_true, Bool.and_eq_true, beq_iff_eq] at h
  case ts.ts =>
    obtain ⟨_, rfl⟩ := h
    simpa [makeStoneFriendly] using hd
  case void.void =>
    simp only [makeStoneFriendly] at hd ⊢
    rw [tightDoc_void] at hk
    cases sA <;> cases sB <;> cases j <;> simp_all [verr, isNullJ]
  all_goals (simpa [makeStoneFriendly] using hd)

mutual
theorem decode_lift (E : Ext) {ρ : Rho} {A B : Env} (cx : Ctx ρ A B) :
    ∀ (j : JVal) (tA tB : PTy) (sA sB : Bool) (w : PyVal), tySub ρ tA tB = true → tyWF A tA = true →
      tightDoc A tA j = true → nvrDoc ρ A B tA j = true →
      decode E A [] sA tA j = .ok w → decode E B [] sB tB j = .ok (lift ρ B tB w)
  | j, tA, tB, sA, sB, w, h, hw, hk, hn, hd => by
    have hnl := tySub_nullable h
    by_cases hnull : (tA.flags.nullable && isNullJ j) = true
    · have hj : j = .null := by cases j <;> simp_all [isNullJ]
      subst hj
      simp only [isNullJ, Bool.and_true] at hnull
      rw [decode_null_nullable E A sA tA hnull] at hd
      cases hd
      rw [decode_null_nullable E B sB tB (hnl ▸ hnull), lift_none]
    · simp only [Bool.not_eq_true] at hnull
      by_cases hp : isPrimTy tA = true
      · have hpb : isPrimTy tB = true := by rw [← tySub_isPrim h]; exact hp
        rw [decode_prim E A sA hp, hnull] at hd
        rw [decode_prim E B sB hpb, ← hnl, hnull]
        simp only [Bool.false_eq_true, if_false] at hd ⊢
        have := msf_lift E A B h hp sA sB j w hk hd
        rw [this, lift_prim ρ B hpb]
      · cases tA <;> cases tB <;> simp only [tySub, Bool.false_eq_true, Bool.and_eq_true, beq_iff_eq] at h <;>
          simp only [isPrimTy, not_true_eq_false] at hp
        case list.list f ia a b g ib a' b' =>
          obtain ⟨⟨⟨_, hi⟩, rfl⟩, rfl⟩ := h
          have hwi : tyWF A ia = true := by simpa [tyWF] using hw
          cases j with
          | arr xs =>
            rw [decode_list_arr] at hd ⊢
            rw [tightDoc_list_arr] at hk
            rw [nvrDoc_list_arr] at hn
            cases hl : decodeList E A [] sA ia xs with
            | error e => simp [hl, Except.map] at hd
            | ok ys =>
              simp only [hl, Except.map, Except.ok.injEq] at hd
              subst hd
              rw [decodeList_lift E cx xs ia ib sA sB ys hi hwi hk hn hl, lift_list_list]
              rfl
          | _ => unfold decode at hd; simp_all [PTy.flags, verr, isNullJ]
        case map.map f ka va g kb vb =>
          obtain ⟨⟨_, _⟩, hvt⟩ := h
          have hwv : tyWF A va = true := by
            simp only [tyWF, Bool.and_eq_true] at hw; exact hw.2
          cases j with
          | obj kvs =>
            rw [decode_map_obj] at hd ⊢
            rw [tightDoc_map_obj] at hk
            rw [nvrDoc_map_obj] at hn
            cases hl : decodeMap E A [] sA va kvs with
            | error e => simp [hl, Except.map] at hd
            | ok ys =>
              simp only [hl, Except.map, Except.ok.injEq] at hd
              subst hd
              rw [decodeMap_lift E cx kvs va vb sA sB ys hvt hwv hk hn hl, lift_map_dict]
              rfl
          | _ => unfold decode at hd; simp_all [PTy.flags, verr, isNullJ]
        case struct.struct f c g c' =>
          obtain ⟨hfl, hr⟩ := h
          obtain ⟨sa, hsa⟩ := tyWF_struct hw
          cases j with
          | null =>
            simp only [PTy.flags, isNullJ, Bool.and_true] at hnull hnl
            rw [decode_struct_null, hnull] at hd
            rw [decode_struct_null, ← hnl, hnull]
            simp only [Bool.false_eq_true, if_false] at hd ⊢
            have hhd : hasDefault A (.struct {} c) = hasDefault B (.struct {} c') :=
              hasDefault_sub cx (by simp [tySub, hr]) (by simpa [tyWF] using hw)
            rw [← hhd]
            by_cases hdf : hasDefault A (.struct {} c) = true
            · simp only [hdf, if_true, Except.ok.injEq] at hd ⊢
              subst hd
              simp [lift_struct_struct, liftSlots, orderSlots_nil]
            · simp [hdf, verr] at hd
          | obj kvs =>
            exact decode_struct_bwd E cx hr hsa kvs sA sB w (members_lift E cx kvs sA sB) hk hn hd
          | _ => unfold decode at hd; simp_all [PTy.flags, verr, isNullJ]
        case tree.tree f c g c' =>
          obtain ⟨hfl, hr⟩ := h
          obtain ⟨sa, hsa⟩ := tyWF_tree hw
          have hta : sa.subtypes.isSome = true := by
            simp only [tyWF, hsa] at hw; exact hw
          cases j with
          | obj kvs =>
            exact decode_tree_bwd E cx hr hsa hta kvs sA sB w (members_lift E cx kvs sA sB) hk hn hd
          | _ => unfold decode at hd; simp_all [PTy.flags, verr, isNullJ]
        case union.union f c g c' =>
          obtain ⟨hfl, hr⟩ := h
          obtain ⟨ua, hua⟩ := tyWF_union hw
          cases j with
          | obj kvs =>
            exact decode_union_bwd E cx hr hua (.obj kvs) sA sB w (by simpa [PTy.flags] using hnull)
              (fun kvs' hk' => by cases hk'; exact members_lift E cx kvs sA sB) hk hn hd
          | str s =>
            exact decode_union_bwd E cx hr hua (.str s) sA sB w (by simpa [PTy.flags] using hnull)
              (fun kvs' hk' => by cases hk') hk hn hd
          | null =>
            exact decode_union_bwd E cx hr hua .null sA sB w (by simpa [PTy.flags] using hnull)
              (fun kvs' hk' => by cases hk') hk hn hd
          | bool b =>
            exact decode_union_bwd E cx hr hua (.bool b) sA sB w (by simp [isNullJ]) (fun kvs' hk' => by cases hk') hk hn hd
          | int n =>
            exact decode_union_bwd E cx hr hua (.int n) sA sB w (by simp [isNullJ]) (fun kvs' hk' => by cases hk') hk hn hd
          | flt x =>
            exact decode_union_bwd E cx hr hua (.flt x) sA sB w (by simp [isNullJ]) (fun kvs' hk' => by cases hk') hk hn hd
          | arr xs =>
            exact decode_union_bwd E cx hr hua (.arr xs) sA sB w (by simp [isNullJ]) (fun kvs' hk' => by cases hk') hk hn hd
theorem decodeList_lift (E : Ext) {ρ : Rho} {A B : Env} (cx : Ctx ρ A B) :
    ∀ (xs : List JVal) (tA tB : PTy) (sA sB : Bool) (ys : List PyVal), tySub ρ tA tB = true → tyWF A tA = true →
      tightList A tA xs = true → nvrList ρ A B tA xs = true →
      decodeList E A [] sA tA xs = .ok ys → decodeList E B [] sB tB xs = .ok (liftList ρ B tB ys)
  | [], tA, tB, sA, sB, ys, _, _, _, _, hd => by
    simp only [decodeList, Except.ok.injEq] at hd
    subst hd
    simp [decodeList, liftList]
  | x :: xs, tA, tB, sA, sB, ys, h, hw, hk, hn, hd => by
    simp only [tightList, Bool.and_eq_true] at hk
    simp only [nvrList, Bool.and_eq_true] at hn
    simp only [decodeList, bind, Except.bind] at hd
    cases h1 : decode E A [] sA tA x with
    | error e => simp [h1] at hd
    | ok y =>
      simp only [h1] at hd
      cases h2 : decodeList E A [] sA tA xs with
      | error e => simp [h2] at hd
      | ok ys' =>
        simp only [h2, pure, Except.pure, Except.ok.injEq] at hd
        subst hd
        simp only [decodeList, bind, Except.bind, decode_lift E cx x tA tB sA sB y h hw hk.1 hn.1 h1,
          decodeList_lift E cx xs tA tB sA sB ys' h hw hk.2 hn.2 h2, pure, Except.pure, liftList]
theorem decodeMap_lift (E : Ext) {ρ : Rho} {A B : Env} (cx : Ctx ρ A B) :
    ∀ (kvs : List (String × JVal)) (tA tB : PTy) (sA sB : Bool) (ys : List (PyVal × PyVal)), tySub ρ tA tB = true →
      tyWF A tA = true → tightVals A tA kvs = true → nvrVals ρ A B tA kvs = true →
      decodeMap E A [] sA tA kvs = .ok ys → decodeMap E B [] sB tB kvs = .ok (liftDict ρ B tB ys)
  | [], tA, tB, sA, sB, ys, _, _, _, _, hd => by
    simp only [decodeMap, Except.ok.injEq] at hd
    subst hd
    simp [decodeMap, liftDict]
  | (k, x) :: rest, tA, tB, sA, sB, ys, h, hw, hk, hn, hd => by
    simp only [tightVals, Bool.and_eq_true] at hk
    simp only [nvrVals, Bool.and_eq_true] at hn
    simp only [decodeMap, bind, Except.bind] at hd
    cases h1 : decode E A [] sA tA x with
    | error e => simp [h1] at hd
    | ok y =>
      simp only [h1] at hd
      cases h2 : decodeMap E A [] sA tA rest with
      | error e => simp [h2] at hd
      | ok ys' =>
        simp only [h2, pure, Except.pure, Except.ok.injEq] at hd
        subst hd
        simp only [decodeMap, bind, Except.bind, decode_lift E cx x tA tB sA sB y h hw hk.1 hn.1 h1,
          decodeMap_lift E cx rest tA tB sA sB ys' h hw hk.2 hn.2 h2, pure, Except.pure, liftDict]
theorem members_lift (E : Ext) {ρ : Rho} {A B : Env} (cx : Ctx ρ A B) :
    ∀ (kvs : List (String × JVal)) (sA sB : Bool), MembersIHB E ρ A B sA sB kvs
  | [], sA, sB => by
    intro tblA tblB k ftA ftB _ _ _ _ _ _
    simp [ChildRelB, decodeMembers, childLookup]
  | (k0, x) :: rest, sA, sB => by
    intro tblA tblB k ftA ftB hkm hnm hfa hfb hty hw
    simp only [tightMembers, Bool.and_eq_true] at hkm
    simp only [nvrMembers, Bool.and_eq_true] at hnm
    have ih := members_lift E cx rest sA sB tblA tblB k ftA ftB hkm.2 hnm.2 hfa hfb hty hw
    unfold ChildRelB at ih ⊢
    by_cases hk : k0 = k
    · subst hk
      simp only [decodeMembers, hfa, hfb, childLookup, beq_self_eq_true, if_true]
      cases hdx : decode E A [] sA ftA x with
      | error e => trivial
      | ok v =>
        simp only []
        have hkx : tightDoc A ftA x = true := by
          have := hkm.1; simp only [hfa] at this; exact this
        have hnx : nvrDoc ρ A B ftA x = true := by
          have := hnm.1; simp only [hfa] at this; exact this
        rw [decode_lift E cx x ftA ftB sA sB v hty hw hkx hnx hdx]
    · have hne : (k0 == k) = false := by simpa using hk
      have hA : childLookup k (decodeMembers E A [] sA tblA ((k0, x) :: rest)) =
          childLookup k (decodeMembers E A [] sA tblA rest) := by
        simp only [decodeMembers]
        split <;> simp [childLookup, hne]
      have hB : childLookup k (decodeMembers E B [] sB tblB ((k0, x) :: rest)) =
          childLookup k (decodeMembers E B [] sB tblB rest) := by
        simp only [decodeMembers]
        split <;> simp [childLookup, hne]
      rw [hA, hB]
      exact ih
end

end StoneVerif.Rt.Compat
