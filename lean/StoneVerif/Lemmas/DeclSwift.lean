import StoneVerif.Model.DeclSwift
/-! Helper lemmas for Props/C17.lean: the type mappers only name user types of the type they format; fields and
subtypes reached through the parent chain / the subtype tree belong to registered types. -/
namespace StoneVerif.DeclSwift

/-- `r` names a user type that the IR type `t` mentions -/
def RefOK (t : Ty) (r : TRef) : Prop := ∀ q, r.typeQ? = some q → q ∈ t.userTypes

theorem refs_cat (a b : TExpr) : (a ++ b).refs = a.refs ++ b.refs := rfl

theorem tableOr_refs (tbl : List (String × String)) (t : Ty) (f : String → String) :
    ∀ r ∈ (tableOr tbl t f).refs, r.typeQ? = none := by
  intro r hr
  unfold tableOr at hr
  split at hr
  · simp [TExpr.refs] at hr
  · split at hr
    · simp [TExpr.refs] at hr; subst hr; rfl
    · simp [TExpr.refs] at hr

theorem tableOr_ok (tbl : List (String × String)) (t t' : Ty) (f : String → String) :
    ∀ r ∈ (tableOr tbl t f).refs, RefOK t' r := by
  intro r hr q hq
  have := tableOr_refs tbl t f r hr
  simp [this] at hq

theorem refOK_user (q0 : QName) (r : TRef) (h : r.typeQ? = some q0) : RefOK (.user q0) r := by
  intro q hq; simp [h] at hq; simp [Ty.userTypes, hq]

/-! ### `swift_helpers.fmt_type` -/

theorem swType_refs (t : Ty) : ∀ r ∈ (swType t).refs, RefOK t r := by
  induction t with
  | prim c => simpa [swType] using tableOr_ok _ _ _ _
  | ts f => simpa [swType] using tableOr_ok _ _ _ _
  | alias q0 => simpa [swType] using tableOr_ok _ _ _ _
  | user q0 => intro r hr; simp [swType, TExpr.refs] at hr; subst hr; exact refOK_user _ _ rfl
  | list e ih => intro r hr q hq; simp [swType, refs_cat, TExpr.refs] at hr; exact ih r hr q hq
  | map k v ihk ihv =>
    intro r hr q hq
    simp [swType, refs_cat, TExpr.refs] at hr
    simp [Ty.userTypes]
    rcases hr with hr | hr
    · exact Or.inl (ihk r hr q hq)
    · exact Or.inr (ihv r hr q hq)
  | nullable t ih =>
    intro r hr q hq
    by_cases hn : ∃ t1, t = .nullable t1
    · obtain ⟨t1, rfl⟩ := hn
      rw [swType.eq_1, refs_cat] at hr
      simp only [TExpr.refs, List.append_nil] at hr
      exact tableOr_ok _ _ _ _ r hr q hq
    · rw [swType.eq_2 _ (fun t1 h => hn ⟨t1, h⟩), refs_cat] at hr
      simp only [TExpr.refs, List.append_nil] at hr
      exact ih r hr q hq

/-! ### `swift_helpers.fmt_objc_type` -/

theorem swObjcTypeU_refs (t : Ty) : ∀ r ∈ (swObjcTypeU t).refs, RefOK t r := by
  fun_induction swObjcTypeU t with
  | case1 q0 => intro r hr; simp [TExpr.refs] at hr; subst hr; exact refOK_user _ _ rfl
  | case2 e ih => intro r hr q hq; simp [refs_cat, TExpr.refs] at hr; simpa [Ty.userTypes] using ih r hr q hq
  | case3 e _ ih => intro r hr q hq; simp [refs_cat, TExpr.refs] at hr; simpa [Ty.userTypes] using ih r hr q hq
  | case4 k v ih =>
    intro r hr q hq; simp [refs_cat, TExpr.refs] at hr; simp [Ty.userTypes]; exact Or.inr (ih r hr q hq)
  | case5 k v _ ih =>
    intro r hr q hq; simp [refs_cat, TExpr.refs] at hr; simp [Ty.userTypes]; exact Or.inr (ih r hr q hq)
  | case6 t _ _ _ _ _ => exact tableOr_ok _ _ _ _

theorem swObjcType_refs (t : Ty) (b : Bool) : ∀ r ∈ (swObjcType t b).refs, RefOK t r := by
  intro r hr q hq
  unfold swObjcType at hr
  split at hr
  · next t' =>
    simp only [Ty.userTypes]
    split at hr
    · simp [refs_cat, TExpr.refs] at hr; exact swObjcTypeU_refs _ r hr q hq
    · exact swObjcTypeU_refs _ r hr q hq
  · exact swObjcTypeU_refs _ r hr q hq

/-! ### `swift.fmt_serial_type`, `swift.fmt_serial_obj` -/

theorem swSerialType_refs (t : Ty) : ∀ r ∈ (swSerialType t).refs, RefOK t r := by
  induction t with
  | prim c => simpa [swSerialType] using tableOr_ok _ _ _ _
  | ts f => simpa [swSerialType] using tableOr_ok _ _ _ _
  | alias q0 => simpa [swSerialType] using tableOr_ok _ _ _ _
  | user q0 => intro r hr; simp [swSerialType, TExpr.refs] at hr; subst hr; exact refOK_user _ _ rfl
  | list e ih => intro r hr q hq; simp [swSerialType, refs_cat, TExpr.refs] at hr; exact ih r hr q hq
  | map k v ihk ihv =>
    intro r hr q hq
    simp [swSerialType, refs_cat, TExpr.refs] at hr
    simp [Ty.userTypes]
    rcases hr with hr | hr
    · exact Or.inl (ihk r hr q hq)
    · exact Or.inr (ihv r hr q hq)
  | nullable t _ => intro r hr; simp [swSerialType, TExpr.refs] at hr

theorem swSerialObj_refs (t : Ty) : ∀ r ∈ (swSerialObj t).refs, RefOK t r := by
  induction t with
  | prim c => intro r hr; simp [swSerialObj, refs_cat, TExpr.refs] at hr; exact tableOr_ok _ _ _ _ r hr
  | ts f => intro r hr; simp [swSerialObj, refs_cat, TExpr.refs] at hr
  | alias q0 => intro r hr; simp [swSerialObj, refs_cat, TExpr.refs] at hr; exact tableOr_ok _ _ _ _ r hr
  | user q0 => intro r hr; simp [swSerialObj, TExpr.refs] at hr; subst hr; exact refOK_user _ _ rfl
  | list e ih => intro r hr q hq; simp [swSerialObj, refs_cat, TExpr.refs] at hr; exact ih r hr q hq
  | map k v _ ihv =>
    intro r hr q hq
    simp [swSerialObj, refs_cat, TExpr.refs] at hr
    simp [Ty.userTypes]
    exact Or.inr (ihv r hr q hq)
  | nullable t ih =>
    intro r hr q hq
    by_cases hn : ∃ t1, t = .nullable t1
    · obtain ⟨t1, rfl⟩ := hn
      rw [swSerialObj.eq_1] at hr
      simp only [refs_cat, TExpr.refs, List.append_nil, List.nil_append] at hr
      exact tableOr_ok _ _ _ _ r hr q hq
    · rw [swSerialObj.eq_2 _ (fun t1 h => hn ⟨t1, h⟩)] at hr
      simp only [refs_cat, TExpr.refs, List.append_nil, List.nil_append] at hr
      exact ih r hr q hq

/-! ### `obj_c_helpers.fmt_type`, `fmt_class_type`, `fmt_serial_obj`, `fmt_validator` -/

theorem ocType_inner_refs (t : Ty) : ∀ r ∈ (ocType.inner t).refs, RefOK t r := by
  induction t with
  | prim c => simpa [ocType.inner] using tableOr_ok _ _ _ _
  | ts f => simpa [ocType.inner] using tableOr_ok _ _ _ _
  | alias q0 => simpa [ocType.inner] using tableOr_ok _ _ _ _
  | user q0 => intro r hr; simp [ocType.inner, TExpr.refs] at hr; subst hr; exact refOK_user _ _ rfl
  | list e ih => intro r hr q hq; simp [ocType.inner, refs_cat, TExpr.refs] at hr; exact ih r hr q hq
  | map k v _ ihv =>
    intro r hr q hq
    simp [ocType.inner, refs_cat, TExpr.refs] at hr
    simp [Ty.userTypes]
    exact Or.inr (ihv r hr q hq)
  | nullable t ih => intro r hr q hq; simp [ocType.inner] at hr; exact ih r hr q hq

theorem ocType_go_refs (t : Ty) (b : Bool) : ∀ r ∈ (ocType.go t b).refs, RefOK t r := by
  cases t with
  | prim c => simpa [ocType.go] using tableOr_ok _ _ _ _
  | ts f => simpa [ocType.go] using tableOr_ok _ _ _ _
  | alias q0 => simpa [ocType.go] using tableOr_ok _ _ _ _
  | nullable t => simpa [ocType.go] using tableOr_ok _ _ _ _
  | user q0 => intro r hr; simp [ocType.go, TExpr.refs] at hr; subst hr; exact refOK_user _ _ rfl
  | list e => intro r hr q hq; simp [ocType.go, refs_cat, TExpr.refs] at hr; exact ocType_inner_refs e r hr q hq
  | map k v =>
    intro r hr q hq
    simp [ocType.go, refs_cat, TExpr.refs] at hr
    simp [Ty.userTypes]
    exact Or.inr (ocType_inner_refs v r hr q hq)

theorem unwrap_userTypes (t : Ty) : t.unwrap.1.userTypes = t.userTypes := by
  cases t <;> simp [Ty.unwrap, Ty.userTypes]

theorem ocType_refs (t : Ty) (a b c d : Bool) : ∀ r ∈ (ocType t a b c d).refs, RefOK t r := by
  intro r hr q hq
  rw [← unwrap_userTypes]
  unfold ocType at hr
  simp only [] at hr
  split at hr
  · simp [refs_cat, TExpr.refs] at hr; exact ocType_go_refs _ _ r hr q hq
  · exact ocType_go_refs _ _ r hr q hq

theorem ocClassType_refs (t : Ty) (b : Bool) : ∀ r ∈ (ocClassType t b).refs, RefOK t r := by
  intro r hr q hq
  rw [← unwrap_userTypes]
  unfold ocClassType at hr
  split at hr
  · next q0 h => simp [TExpr.refs] at hr; subst hr; rw [h]; exact refOK_user _ _ rfl q hq
  · next e h =>
    simp [refs_cat, TExpr.refs] at hr
    rw [h]; simp [Ty.userTypes]; rw [← unwrap_userTypes]
    exact ocType_refs _ _ _ _ _ r hr q hq
  · next k v h =>
    simp [refs_cat, TExpr.refs] at hr
    rw [h]; simp [Ty.userTypes]; right; rw [← unwrap_userTypes]
    exact ocType_refs _ _ _ _ _ r hr q hq
  · have h2 := tableOr_refs Tables.objcPrimitiveTable t.unwrap.1 ocUpper r
    generalize tableOr Tables.objcPrimitiveTable t.unwrap.1 ocUpper = x at hr h2
    cases x with
    | lit s => simp [TExpr.refs] at hr
    | ref r0 suf => simp at hr; have := h2 hr; simp [this] at hq
    | cat a b => simp at hr; have := h2 hr; simp [this] at hq

theorem ocSerialObj_refs (t : Ty) : ∀ r ∈ (ocSerialObj t).refs, RefOK t r := by
  intro r hr q hq
  rw [← unwrap_userTypes]
  unfold ocSerialObj at hr
  split at hr
  · next q0 h => simp [TExpr.refs] at hr; subst hr; rw [h]; exact refOK_user _ _ rfl q hq
  · have := tableOr_refs _ _ _ r hr
    simp [this] at hq

theorem ocSerCallRefs_ok (t : Ty) : ∀ r ∈ ocSerCallRefs t, RefOK t r := by
  induction t with
  | prim c => simp [ocSerCallRefs]
  | ts f => simp [ocSerCallRefs]
  | alias q0 => simp [ocSerCallRefs]
  | user q0 => intro r hr; simp [ocSerCallRefs] at hr; subst hr; exact refOK_user _ _ rfl
  | list e ih => intro r hr q hq; simp [ocSerCallRefs] at hr; exact ih r hr q hq
  | map k v _ ihv => intro r hr q hq; simp [ocSerCallRefs] at hr; simp [Ty.userTypes]; exact Or.inr (ihv r hr q hq)
  | nullable t ih => intro r hr q hq; simp [ocSerCallRefs] at hr; exact ih r hr q hq

/-! ### Lookups, parent chains, subtype trees -/

theorem find?_sound {api : Api} {q : QName} {t : UserT} (h : api.find? q = some t) :
    ∃ ns ∈ api.nss, ns.name = q.ns ∧ t ∈ ns.types ∧ t.name = q.name := by
  unfold Api.find? Api.findNs? at h
  split at h
  · simp at h
  · next ns hns =>
    refine ⟨ns, List.mem_of_find?_eq_some hns, ?_, List.mem_of_find?_eq_some h, ?_⟩
    · have := List.find?_some hns; simpa using this
    · have := List.find?_some h; simpa using this

theorem mem_mentioned_of_type {api : Api} {ns : Namespace} {t : UserT} {q : QName}
    (hns : ns ∈ api.nss) (ht : t ∈ ns.types) (hq : q ∈ typeMentions ns.name t) : q ∈ mentioned api := by
  unfold mentioned
  simp only [List.mem_flatMap, List.mem_append]
  exact ⟨ns, hns, Or.inl ⟨t, ht, hq⟩⟩

theorem mem_mentioned_of_route {api : Api} {ns : Namespace} {r : Route} {q : QName}
    (hns : ns ∈ api.nss) (hr : r ∈ ns.routes) (hq : q ∈ routeMentions r) : q ∈ mentioned api := by
  unfold mentioned
  simp only [List.mem_flatMap, List.mem_append]
  exact ⟨ns, hns, Or.inr ⟨r, hr, hq⟩⟩

/-- a field of a registered type: the user types of its type are mentioned -/
theorem field_mentioned {api : Api} {ns : Namespace} {t : UserT} {f : Field} {q : QName}
    (hns : ns ∈ api.nss) (ht : t ∈ ns.types) (hf : f ∈ t.fields) (hq : q ∈ f.ty.userTypes) : q ∈ mentioned api := by
  apply mem_mentioned_of_type hns ht
  unfold typeMentions
  simp only [List.mem_append, List.mem_flatMap]
  exact Or.inl (Or.inl (Or.inr ⟨f, hf, hq⟩))

theorem chainFields_mem {api : Api} (fuel : Nat) (q : QName) (f : Field) (h : f ∈ chainFields api fuel q) :
    ∃ ns ∈ api.nss, ∃ t ∈ ns.types, f ∈ t.fields := by
  induction fuel generalizing q with
  | zero => simp [chainFields] at h
  | succ n ih =>
    unfold chainFields at h
    split at h
    · simp at h
    · next t ht =>
      simp only [List.mem_append] at h
      rcases h with h | h
      · split at h
        · simp at h
        · exact ih _ h
      · obtain ⟨ns, hns, _, htm, _⟩ := find?_sound ht
        exact ⟨ns, hns, t, htm, h⟩

theorem structAllFields_mem {api : Api} {ns : Namespace} {s : StructT} {x : String} {f : Field}
    (hns : ns ∈ api.nss) (ht : UserT.struct s ∈ ns.types) (h : f ∈ structAllFields api x s) :
    ∃ ns' ∈ api.nss, ∃ t ∈ ns'.types, f ∈ t.fields := by
  unfold structAllFields at h
  simp only [List.mem_append, List.mem_filter] at h
  have key : ∀ g, g ∈ (match s.parent with
      | none => []
      | some p => chainFields api api.typeCount p) ++ s.fields → ∃ ns' ∈ api.nss, ∃ t ∈ ns'.types, g ∈ t.fields := by
    intro g hg
    simp only [List.mem_append] at hg
    rcases hg with hg | hg
    · split at hg
      · simp at hg
      · exact chainFields_mem _ _ _ hg
    · exact ⟨ns, hns, _, ht, hg⟩
  rcases h with h | h <;> exact key f (List.mem_append.mpr h.1)

theorem unionAllFields_mem {api : Api} {ns : Namespace} {u : UnionT} {x : String} {f : Field}
    (hns : ns ∈ api.nss) (ht : UserT.union u ∈ ns.types) (h : f ∈ unionAllFields api x u) :
    ∃ ns' ∈ api.nss, ∃ t ∈ ns'.types, f ∈ t.fields := by
  unfold unionAllFields at h
  simp only [List.mem_append] at h
  rcases h with h | h
  · split at h
    · simp at h
    · exact chainFields_mem _ _ _ h
  · exact ⟨ns, hns, _, ht, h⟩

/-- user types of the type of any field reachable through `all_fields` of a registered type are mentioned -/
theorem structAllFields_mentioned {api : Api} {ns : Namespace} {s : StructT} {x : String} {f : Field} {q : QName}
    (hns : ns ∈ api.nss) (ht : UserT.struct s ∈ ns.types) (h : f ∈ structAllFields api x s)
    (hq : q ∈ f.ty.userTypes) : q ∈ mentioned api := by
  obtain ⟨ns', hns', t, ht', hf⟩ := structAllFields_mem hns ht h
  exact field_mentioned hns' ht' hf hq

theorem unionAllFields_mentioned {api : Api} {ns : Namespace} {u : UnionT} {x : String} {f : Field} {q : QName}
    (hns : ns ∈ api.nss) (ht : UserT.union u ∈ ns.types) (h : f ∈ unionAllFields api x u)
    (hq : q ∈ f.ty.userTypes) : q ∈ mentioned api := by
  obtain ⟨ns', hns', t, ht', hf⟩ := unionAllFields_mem hns ht h
  exact field_mentioned hns' ht' hf hq

theorem directSubtypes_mentioned {api : Api} {q q' : QName} (h : q ∈ directSubtypes api q') : q ∈ mentioned api := by
  unfold directSubtypes at h
  split at h
  · next s hs =>
    obtain ⟨ns, hns, _, htm, _⟩ := find?_sound hs
    apply mem_mentioned_of_type hns htm
    unfold typeMentions
    simp only [List.mem_append]
    exact Or.inr h
  · simp at h

theorem bfsSubtypes_mem {api : Api} (fuel : Nat) (queue : List QName) (q : QName) (h : q ∈ bfsSubtypes api fuel queue) :
    q ∈ queue ∨ q ∈ mentioned api := by
  induction fuel generalizing queue with
  | zero => simp [bfsSubtypes] at h
  | succ n ih =>
    cases queue with
    | nil => simp [bfsSubtypes] at h
    | cons a rest =>
      simp only [bfsSubtypes, List.mem_cons] at h
      rcases h with h | h
      · exact Or.inl (by simp [h])
      · rcases ih _ h with h | h
        · simp only [List.mem_append] at h
          rcases h with h | h
          · exact Or.inl (by simp [h])
          · exact Or.inr (directSubtypes_mentioned h)
        · exact Or.inr h

theorem allSubtypes_mentioned {api : Api} {ns : Namespace} {s : StructT} {q : QName}
    (hns : ns ∈ api.nss) (ht : UserT.struct s ∈ ns.types) (h : q ∈ allSubtypes api s) : q ∈ mentioned api := by
  unfold allSubtypes at h
  rcases bfsSubtypes_mem _ _ _ h with h | h
  · apply mem_mentioned_of_type hns ht
    unfold typeMentions
    simp only [List.mem_append]
    exact Or.inr h
  · exact h

theorem self_mentioned {api : Api} {ns : Namespace} {t : UserT} (hns : ns ∈ api.nss) (ht : t ∈ ns.types) :
    (⟨ns.name, t.name⟩ : QName) ∈ mentioned api := by
  apply mem_mentioned_of_type hns ht
  unfold typeMentions
  simp

theorem parent_mentioned {api : Api} {ns : Namespace} {t : UserT} {p : QName} (hns : ns ∈ api.nss) (ht : t ∈ ns.types)
    (hp : t.parent = some p) : p ∈ mentioned api := by
  apply mem_mentioned_of_type hns ht
  unfold typeMentions
  simp [hp]

theorem dflt_mentioned {api : Api} {ns : Namespace} {t : UserT} {f : Field} {u : QName} {tag : String}
    (hns : ns ∈ api.nss) (ht : t ∈ ns.types) (hf : f ∈ t.fields) (hd : f.dfltTag = some (u, tag)) :
    u ∈ mentioned api := by
  apply mem_mentioned_of_type hns ht
  unfold typeMentions
  simp only [List.mem_append, List.mem_filterMap]
  exact Or.inl (Or.inr ⟨f, hf, by simp [hd]⟩)

/-! ### Every type reference of a declaration names a mentioned user type -/

/-- all user-type references of the list name mentioned types -/
def AllM (api : Api) (rs : List TRef) : Prop := ∀ r ∈ rs, ∀ q, r.typeQ? = some q → q ∈ mentioned api

theorem AllM_nil (api : Api) : AllM api [] := by intro r hr; simp at hr

theorem AllM_append {api : Api} {a b : List TRef} (ha : AllM api a) (hb : AllM api b) : AllM api (a ++ b) := by
  intro r hr q hq
  rcases List.mem_append.mp hr with h | h
  · exact ha r h q hq
  · exact hb r h q hq

theorem AllM_cons {api : Api} {a : TRef} {b : List TRef} (ha : ∀ q, a.typeQ? = some q → q ∈ mentioned api)
    (hb : AllM api b) : AllM api (a :: b) := by
  intro r hr q hq
  rcases List.mem_cons.mp hr with h | h
  · subst h; exact ha q hq
  · exact hb r h q hq

theorem AllM_flatMap {api : Api} {α : Type} {l : List α} {f : α → List TRef} (h : ∀ x ∈ l, AllM api (f x)) :
    AllM api (l.flatMap f) := by
  intro r hr q hq
  obtain ⟨x, hx, hrx⟩ := List.mem_flatMap.mp hr
  exact h x hx r hrx q hq

theorem AllM_map_nontype {api : Api} {α : Type} {l : List α} {f : α → TRef} (h : ∀ x, (f x).typeQ? = none) :
    AllM api (l.map f) := by
  intro r hr q hq
  obtain ⟨x, _, rfl⟩ := List.mem_map.mp hr
  simp [h x] at hq

theorem AllM_of_refOK {api : Api} {t : Ty} {rs : List TRef} (ht : ∀ q ∈ t.userTypes, q ∈ mentioned api)
    (hr : ∀ r ∈ rs, RefOK t r) : AllM api rs := by
  intro r h q hq
  exact ht q (hr r h q hq)

theorem AllM_fieldRefs {api : Api} {m : Ty → TExpr} {fs : List Field} (hm : ∀ t, ∀ r ∈ (m t).refs, RefOK t r)
    (hfs : ∀ f ∈ fs, ∀ q ∈ f.ty.userTypes, q ∈ mentioned api) : AllM api (fieldRefs m fs) := by
  unfold fieldRefs
  exact AllM_flatMap fun f hf => AllM_of_refOK (hfs f hf) (hm f.ty)

theorem AllM_sub {api : Api} {a b : List TRef} (h : ∀ r ∈ a, r ∈ b) (hb : AllM api b) : AllM api a :=
  fun r hr q hq => hb r (h r hr) q hq

theorem userQ_mentioned_of {api : Api} {p : QName} (h : p ∈ mentioned api) : ∀ q ∈ (Ty.user p).userTypes, q ∈ mentioned api := by
  intro q hq; simp [Ty.userTypes] at hq; subst hq; exact h

/-! #### swift_types -/

theorem swStructDecls_AllM {api : Api} {ns : Namespace} {s : StructT} (hns : ns ∈ api.nss)
    (ht : UserT.struct s ∈ ns.types) : ∀ d ∈ swStructDecls api ns.name s, AllM api d.refs := by
  have haf : ∀ f ∈ structAllFields api ns.name s, ∀ q ∈ f.ty.userTypes, q ∈ mentioned api :=
    fun f hf q hq => structAllFields_mentioned hns ht hf hq
  have hown : ∀ f ∈ s.fields, ∀ q ∈ f.ty.userTypes, q ∈ mentioned api :=
    fun f hf q hq => field_mentioned hns ht (by simpa [UserT.fields] using hf) hq
  have hpar : AllM api (match s.parent with
      | none => []
      | some p => (swType (.user p)).refs) := by
    split
    · exact AllM_nil _
    · next p hp =>
      exact AllM_of_refOK (userQ_mentioned_of (parent_mentioned hns ht (by simpa [UserT.parent] using hp))) (swType_refs _)
  intro d hd
  simp only [swStructDecls, List.mem_append, List.mem_cons, List.mem_map, List.not_mem_nil, or_false] at hd
  rcases hd with (rfl | rfl) | ⟨f, hf, rfl⟩
  · refine AllM_append (AllM_append hpar (AllM_fieldRefs swType_refs hown)) ?_
    split
    · exact AllM_nil _
    · exact AllM_fieldRefs swType_refs haf
  · refine AllM_append (AllM_append (AllM_fieldRefs swSerialObj_refs haf) ?_) ?_
    · split
      · intro r hr q hq
        simp only [List.mem_filterMap] at hr
        obtain ⟨f, hf, hfr⟩ := hr
        split at hfr
        · cases hdt : f.dfltTag with
          | none => simp [hdt] at hfr
          | some p =>
            obtain ⟨u, tag⟩ := p
            simp [hdt] at hfr
            subst hfr
            simp [TRef.typeQ?] at hq
            subst hq
            obtain ⟨ns', hns', t', ht', hf'⟩ := structAllFields_mem hns ht hf
            exact dflt_mentioned hns' ht' hf' hdt
        · simp at hfr
      · exact AllM_nil _
    · apply AllM_flatMap
      intro q hq
      have hm : q ∈ mentioned api := by
        split at hq
        · exact allSubtypes_mentioned hns ht hq
        · simp at hq
      intro r hr q' hq'
      simp only [List.mem_cons, List.not_mem_nil, or_false] at hr
      rcases hr with rfl | rfl <;> (simp [TRef.typeQ?] at hq'; subst hq'; exact hm)
  · exact AllM_of_refOK (hown f hf) (swType_refs _)

theorem swUnionDecls_AllM {api : Api} {ns : Namespace} {u : UnionT} (hns : ns ∈ api.nss)
    (ht : UserT.union u ∈ ns.types) : ∀ d ∈ swUnionDecls api ns.name u, AllM api d.refs := by
  have haf : ∀ f ∈ unionAllFields api ns.name u, ∀ q ∈ f.ty.userTypes, q ∈ mentioned api :=
    fun f hf q hq => unionAllFields_mentioned hns ht hf hq
  intro d hd
  simp only [swUnionDecls, List.mem_append, List.mem_cons, List.mem_map, List.not_mem_nil, or_false] at hd
  rcases hd with (rfl | rfl) | ⟨f, hf, rfl⟩
  · exact AllM_fieldRefs swType_refs haf
  · exact AllM_fieldRefs swSerialObj_refs haf
  · exact AllM_of_refOK (haf f hf) (swType_refs _)

theorem route_ty_mentioned {api : Api} {ns : Namespace} {r : Route} (hns : ns ∈ api.nss) (hr : r ∈ ns.routes) :
    (∀ q ∈ r.arg.userTypes, q ∈ mentioned api) ∧ (∀ q ∈ r.result.userTypes, q ∈ mentioned api) ∧
    (∀ q ∈ r.error.userTypes, q ∈ mentioned api) := by
  refine ⟨fun q hq => ?_, fun q hq => ?_, fun q hq => ?_⟩ <;>
    (apply mem_mentioned_of_route hns hr; unfold routeMentions; simp only [List.mem_append])
  · exact Or.inl (Or.inl hq)
  · exact Or.inl (Or.inr hq)
  · exact Or.inr hq

theorem swiftTypesDecls_AllM (api : Api) : ∀ d ∈ swiftTypesDecls api, AllM api d.refs := by
  intro d hd
  simp only [swiftTypesDecls, List.mem_flatMap, List.mem_cons, List.mem_append, List.mem_map] at hd
  obtain ⟨ns, hns, hd⟩ := hd
  rcases hd with (rfl | ⟨t, ht, hd⟩) | ⟨r, hr, rfl⟩
  · exact AllM_nil _
  · cases t with
    | struct s => exact swStructDecls_AllM hns ht d hd
    | union u => exact swUnionDecls_AllM hns ht d hd
  · obtain ⟨ha, hres, he⟩ := route_ty_mentioned hns hr
    exact AllM_append (AllM_append (AllM_of_refOK ha (swSerialObj_refs _)) (AllM_of_refOK hres (swSerialObj_refs _)))
      (AllM_of_refOK he (swSerialObj_refs _))

/-! #### swift_types --objc -/

theorem one_type_mentioned {api : Api} {r : TRef} {q : QName} (hq : q ∈ mentioned api) (hr : r.typeQ? = some q ∨ r.typeQ? = none) :
    ∀ q', r.typeQ? = some q' → q' ∈ mentioned api := by
  intro q' h
  rcases hr with hr | hr
  · rw [hr] at h; cases h; exact hq
  · rw [hr] at h; cases h

theorem listCore_user (t : Ty) : ∀ q0, listCore t = .user q0 → q0 ∈ t.userTypes := by
  fun_induction listCore t with
  | case1 e ih => intro q0 h; simpa [Ty.userTypes] using ih q0 h
  | case2 e ih => intro q0 h; simpa [Ty.userTypes] using ih q0 h
  | case3 t _ => intro q0 h; subst h; simp [Ty.userTypes]
  | case4 t _ _ => intro q0 h; subst h; simp [Ty.userTypes]
  | case5 t _ _ _ _ => intro q0 h; subst h; simp [Ty.userTypes]

theorem factoryRefs_ok (t : Ty) : ∀ r ∈ factoryRefs t, RefOK t r := by
  intro r hr q hq
  rw [← unwrap_userTypes]
  unfold factoryRefs at hr
  split at hr
  · next l e h =>
    rw [h]
    have key := listCore_user
    split at hr
    · next q0 hq0 =>
      simp at hr; subst hr; simp [TRef.typeQ?] at hq; subst hq
      exact key _ _ hq0
    · simp at hr
  · next q0 h => simp at hr; subst hr; simp [TRef.typeQ?] at hq; subst hq; rw [h]; simp [Ty.userTypes]
  · simp at hr

theorem swObjcStructDecls_AllM {api : Api} {ns : Namespace} {s : StructT} (hns : ns ∈ api.nss)
    (ht : UserT.struct s ∈ ns.types) : ∀ d ∈ swObjcStructDecls api ns.name s, AllM api d.refs := by
  have haf : ∀ f ∈ structAllFields api ns.name s, ∀ q ∈ f.ty.userTypes, q ∈ mentioned api :=
    fun f hf q hq => structAllFields_mentioned hns ht hf hq
  have hown : ∀ f ∈ s.fields, ∀ q ∈ f.ty.userTypes, q ∈ mentioned api :=
    fun f hf q hq => field_mentioned hns ht (by simpa [UserT.fields] using hf) hq
  have hself : (⟨ns.name, s.name⟩ : QName) ∈ mentioned api := self_mentioned hns ht
  intro d hd
  simp only [swObjcStructDecls, List.mem_cons, List.mem_map] at hd
  rcases hd with rfl | ⟨f, hf, rfl⟩
  · refine AllM_append (AllM_append (AllM_append (AllM_append ?_ ?_) (AllM_fieldRefs (fun t => swObjcType_refs t true) hown)) ?_) ?_
    · exact AllM_cons (one_type_mentioned hself (Or.inl rfl)) (AllM_nil _)
    · split
      · exact AllM_nil _
      · next p hp =>
        exact AllM_of_refOK (userQ_mentioned_of (parent_mentioned hns ht (by simpa [UserT.parent] using hp))) (swObjcType_refs _ _)
    · split
      · exact AllM_nil _
      · exact AllM_fieldRefs (fun t => swObjcType_refs t true) haf
    · split
      · apply AllM_flatMap
        intro q hq
        have hm := allSubtypes_mentioned hns ht hq
        exact AllM_cons (one_type_mentioned hm (Or.inl rfl)) (AllM_cons (one_type_mentioned hm (Or.inl rfl)) (AllM_nil _))
      · exact AllM_nil _
  · exact AllM_of_refOK (hown f hf) (swObjcType_refs _ _)

theorem swObjcUnionDecls_AllM {api : Api} {ns : Namespace} {u : UnionT} (hns : ns ∈ api.nss)
    (ht : UserT.union u ∈ ns.types) : ∀ d ∈ swObjcUnionDecls api ns.name u, AllM api d.refs := by
  have haf : ∀ f ∈ unionAllFields api ns.name u, ∀ q ∈ f.ty.userTypes, q ∈ mentioned api :=
    fun f hf q hq => unionAllFields_mentioned hns ht hf hq
  have hself : (⟨ns.name, u.name⟩ : QName) ∈ mentioned api := self_mentioned hns ht
  intro d hd
  simp only [swObjcUnionDecls, List.mem_cons, List.mem_append, List.mem_map, List.mem_flatMap] at hd
  rcases hd with (rfl | ⟨f, hf, rfl⟩) | ⟨f, hf, hd⟩
  · refine AllM_append (AllM_cons (one_type_mentioned hself (Or.inl rfl)) (AllM_nil _)) (AllM_flatMap fun f hf => ?_)
    exact AllM_cons (one_type_mentioned hself (Or.inr rfl)) (AllM_of_refOK (haf f hf) (factoryRefs_ok _))
  · exact AllM_cons (one_type_mentioned hself (Or.inr rfl)) (AllM_nil _)
  · rcases hd with rfl | hd
    · exact AllM_append (AllM_cons (one_type_mentioned hself (Or.inl rfl))
        (AllM_cons (one_type_mentioned hself (Or.inl rfl)) (AllM_nil _))) (AllM_of_refOK (haf f hf) (swObjcType_refs _ _))
    · split at hd
      · simp at hd
      · simp only [List.mem_cons, List.not_mem_nil, or_false] at hd
        subst hd
        exact AllM_of_refOK (haf f hf) (swObjcType_refs _ _)

theorem swiftTypesObjcDecls_AllM (api : Api) : ∀ d ∈ swiftTypesObjcDecls api, AllM api d.refs := by
  intro d hd
  simp only [swiftTypesObjcDecls, List.mem_flatMap] at hd
  obtain ⟨ns, hns, t, ht, hd⟩ := hd
  cases t with
  | struct s => exact swObjcStructDecls_AllM hns ht d hd
  | union u => exact swObjcUnionDecls_AllM hns ht d hd

end StoneVerif.DeclSwift
