import StoneVerif.Model.DeclPyClient
/-!
Helper lemmas for C14 (Props/C14.lean): list / `mapM` facts, the code's view of aliases (`stripFirst`) against the
specification's (`specUnalias`, `specNullable`), call binding, the stages of a generated method body, names.
-/
namespace StoneVerif.C14
open StoneVerif.DeclPyClient

theorem lookup_zip_map {α : Type} (L : List α) (k : α → Name) (g : α → Val) (a : α) (ha : a ∈ L)
    (inj : ∀ b ∈ L, k b = k a → g b = g a) :
    lookup ((L.map k).zip (L.map g)) (k a) = some (g a) := by
  induction L with
  | nil => cases ha
  | cons b L ih =>
    simp only [List.map_cons, List.zip_cons_cons, lookup]
    by_cases hk : k b = k a
    · simp [hk, inj b (by simp) hk]
    · have hne : (k b == k a) = false := by simpa using hk
      rw [hne]
      have : a ∈ L := by
        cases ha with
        | head => exact absurd rfl hk
        | tail _ h => exact h
      simpa using ih this (fun c hc => inj c (List.mem_cons_of_mem _ hc))

theorem lookup_some_of_mem_keys (σ : List (Name × Val)) (n : Name) (h : n ∈ σ.map (·.1)) :
    ∃ v, lookup σ n = some v := by
  induction σ with
  | nil => cases h
  | cons p σ ih =>
    obtain ⟨k, v⟩ := p
    simp only [lookup]
    by_cases hk : k = n
    · exact ⟨v, by simp [hk]⟩
    · have : (k == n) = false := by simpa using hk
      rw [this]
      apply ih
      simp only [List.map_cons, List.mem_cons] at h
      rcases h with h | h
      · exact absurd h.symm hk
      · exact h

theorem mapM_ok_of_forall {α β ε : Type} (f : α → Except ε β) (g : α → β) (L : List α)
    (h : ∀ a ∈ L, f a = .ok (g a)) : L.mapM f = .ok (L.map g) := by
  induction L with
  | nil => rfl
  | cons a L ih =>
    rw [List.mapM_cons, h a (by simp), ih (fun b hb => h b (List.mem_cons_of_mem _ hb))]
    rfl

theorem mapM_ok_mem {α β ε : Type} (f : α → Except ε β) :
    ∀ (L : List α) (ys : List β), L.mapM f = .ok ys → ∀ y ∈ ys, ∃ x ∈ L, f x = .ok y := by
  intro L
  induction L with
  | nil =>
    intro ys h y hy
    rw [List.mapM_nil] at h
    cases h
    cases hy
  | cons a L ih =>
    intro ys h y hy
    rw [List.mapM_cons] at h
    cases hfa : f a with
    | error e => rw [hfa] at h; cases h
    | ok b =>
      rw [hfa] at h
      cases hr : L.mapM f with
      | error e => rw [hr] at h; cases h
      | ok bs =>
        rw [hr] at h
        cases h
        cases hy with
        | head => exact ⟨a, by simp, hfa⟩
        | tail _ hy' =>
          obtain ⟨x, hx, hfx⟩ := ih bs hr y hy'
          exact ⟨x, List.mem_cons_of_mem _ hx, hfx⟩

theorem mapM_ok_mem' {α β ε : Type} (f : α → Except ε β) :
    ∀ (L : List α) (ys : List β), L.mapM f = .ok ys → ∀ x ∈ L, ∃ y ∈ ys, f x = .ok y := by
  intro L
  induction L with
  | nil => intro ys _ x hx; cases hx
  | cons a L ih =>
    intro ys h x hx
    rw [List.mapM_cons] at h
    cases hfa : f a with
    | error e => rw [hfa] at h; cases h
    | ok b =>
      rw [hfa] at h
      cases hr : L.mapM f with
      | error e => rw [hr] at h; cases h
      | ok bs =>
        rw [hr] at h
        cases h
        cases hx with
        | head => exact ⟨b, by simp, hfa⟩
        | tail _ hx' =>
          obtain ⟨y, hy, hfy⟩ := ih bs hr x hx'
          exact ⟨y, List.mem_cons_of_mem _ hy, hfy⟩

theorem spineResolve_nullable (t : Ty) : (spineResolve t).isNullable = specNullable t := by
  induction t with
  | alias _ _ t ih => simpa [spineResolve, specNullable] using ih
  | nullable t _ => simp [spineResolve, specNullable, Ty.isNullable]
  | list t _ => simp [spineResolve, specNullable, Ty.isNullable]
  | prim _ => rfl
  | void => rfl
  | map _ _ _ _ => rfl
  | struct _ _ => rfl
  | union _ _ => rfl

/-- after `remove_aliases_from_api` a field type is `Nullable` exactly when the field is nullable for the spec
author (directly or through aliases) -/
theorem stripFirst_nullable (t : Ty) : (stripFirst t).isNullable = specNullable t := by
  cases t with
  | alias _ _ t => simpa [stripFirst, specNullable] using spineResolve_nullable t
  | nullable t => simp [stripFirst, specNullable, Ty.isNullable]
  | list t => simp [stripFirst, specNullable, Ty.isNullable]
  | prim _ => rfl
  | void => rfl
  | map _ _ => rfl
  | struct _ _ => rfl
  | union _ _ => rfl

/-- the two views of a type agree unless both are `Nullable` / `List` headed -/
def SameHead (a b : Ty) : Prop :=
  a = b ∨ (∃ x y, a = .nullable x ∧ b = .nullable y) ∨ (∃ x y, a = .list x ∧ b = .list y)

theorem spineResolve_head (t : Ty) : SameHead (spineResolve t) (specUnalias t) := by
  induction t with
  | alias _ _ t ih => simpa [spineResolve, specUnalias] using ih
  | nullable t _ => exact .inr (.inl ⟨_, _, rfl, rfl⟩)
  | list t _ => exact .inr (.inr ⟨_, _, rfl, rfl⟩)
  | prim _ => exact .inl rfl
  | void => exact .inl rfl
  | map _ _ _ _ => exact .inl rfl
  | struct _ _ => exact .inl rfl
  | union _ _ => exact .inl rfl

theorem stripFirst_head (t : Ty) : SameHead (stripFirst t) (specUnalias t) := by
  cases t with
  | alias _ _ t => simpa [stripFirst, specUnalias] using spineResolve_head t
  | nullable t => exact .inr (.inl ⟨_, _, rfl, rfl⟩)
  | list t => exact .inr (.inr ⟨_, _, rfl, rfl⟩)
  | prim _ => exact .inl rfl
  | void => exact .inl rfl
  | map _ _ => exact .inl rfl
  | struct _ _ => exact .inl rfl
  | union _ _ => exact .inl rfl

theorem strip_struct {t : Ty} {a b : Name} (h : stripFirst t = .struct a b) : specUnalias t = .struct a b := by
  rcases stripFirst_head t with e | ⟨x, y, e, _⟩ | ⟨x, y, e, _⟩
  · rw [← e, h]
  · rw [h] at e; cases e
  · rw [h] at e; cases e

theorem strip_union {t : Ty} {a b : Name} (h : stripFirst t = .union a b) : specUnalias t = .union a b := by
  rcases stripFirst_head t with e | ⟨x, y, e, _⟩ | ⟨x, y, e, _⟩
  · rw [← e, h]
  · rw [h] at e; cases e
  · rw [h] at e; cases e

theorem strip_void {t : Ty} (h : stripFirst t = .void) : specUnalias t = .void := by
  rcases stripFirst_head t with e | ⟨x, y, e, _⟩ | ⟨x, y, e, _⟩
  · rw [← e, h]
  · rw [h] at e; cases e
  · rw [h] at e; cases e

theorem unalias_union_strip {t : Ty} {a b : Name} (h : specUnalias t = .union a b) : stripFirst t = .union a b := by
  rcases stripFirst_head t with e | ⟨x, y, _, e⟩ | ⟨x, y, _, e⟩
  · rw [e, h]
  · rw [h] at e; cases e
  · rw [h] at e; cases e

theorem strip_isVoid (t : Ty) : (stripFirst t).isVoid = (specUnalias t).isVoid := by
  rcases stripFirst_head t with e | ⟨x, y, e1, e2⟩ | ⟨x, y, e1, e2⟩
  · rw [e]
  · rw [e1, e2]; rfl
  · rw [e1, e2]; rfl

theorem isRequired_strip (f : Field) : isRequired stripFirst f = specRequired f := by
  simp [isRequired, specRequired, stripFirst_nullable]

/-- the parameter the specification asks for one field -/
def specParam (f : Field) : Param :=
  if specRequired f then ⟨f.name, none⟩ else ⟨f.name, some (specDefault f)⟩

theorem unwrapAliases_eq_specUnalias (t : Ty) : unwrapAliases t = specUnalias t := by
  induction t with
  | alias _ _ t ih => simpa [unwrapAliases, specUnalias] using ih
  | _ => rfl

theorem fieldParam_spec (f : Field)
    (hwt : ∀ u tag, f.dflt = some (.tag u tag) →
      ∃ uns uname, specUnalias f.ty = .union uns uname ∧ specUnalias u = .union uns uname) :
    fieldParam f = .ok (specParam f) := by
  unfold fieldParam specParam specRequired specDefault
  simp only [stripFirst_nullable]
  cases hn : specNullable f.ty with
  | true =>
    cases hd : f.dflt with
    | none => simp
    | some d => cases d <;> simp
  | false =>
    cases hd : f.dflt with
    | none => simp
    | some d =>
      cases d with
      | tag u tag =>
        obtain ⟨uns, uname, hf, hu⟩ := hwt u tag hd
        have := unalias_union_strip hf
        simp [genPythonValue, this, Ty.userNs, unwrapAliases_eq_specUnalias, hu, hf, bind, Except.bind, pure, Except.pure]
      | bool b => simp [genPythonValue, bind, Except.bind, pure, Except.pure]
      | int i => simp [genPythonValue, bind, Except.bind, pure, Except.pure]
      | float x => simp [genPythonValue, bind, Except.bind, pure, Except.pure]
      | str s => simp [genPythonValue, bind, Except.bind, pure, Except.pure]

theorem wellTyped_field {api : Api} {r : Ref} (h : defaultsWellTyped api r = true) {f : Field} (hf : f ∈ declFields api r) :
    ∀ u tag, f.dflt = some (.tag u tag) →
      ∃ uns uname, specUnalias f.ty = .union uns uname ∧ specUnalias u = .union uns uname := by
  intro u tag hd
  have := (List.all_eq_true.mp h) f hf
  simp only [hd, Bool.and_eq_true, beq_iff_eq] at this
  obtain ⟨hu, he⟩ := this
  cases hft : specUnalias f.ty with
  | union uns uname => exact ⟨uns, uname, rfl, by rw [he, hft]⟩
  | _ => rw [hft] at hu; cases hu

theorem mem_allFields {view : Ty → Ty} {api : Api} {r : Ref} {f : Field} :
    f ∈ allFields view api r ↔ f ∈ declFields api r := by
  unfold allFields
  simp only [List.mem_append, List.mem_filter]
  constructor
  · rintro (⟨h, _⟩ | ⟨h, _⟩) <;> exact h
  · intro h
    cases hq : isRequired view f
    · exact .inr ⟨h, by simp⟩
    · exact .inl ⟨h, rfl⟩

theorem bindGo_keys : ∀ (ps : List BParam) (vs : List Val) (kw σ : List (Name × Val)),
    bindGo ps vs kw = .ok σ → σ.map (·.1) = ps.map (·.1) := by
  intro ps
  induction ps with
  | nil =>
    intro vs kw σ h
    cases vs with
    | nil => simp [bindGo] at h; subst h; rfl
    | cons v vs => simp [bindGo] at h
  | cons p ps ih =>
    intro vs kw σ h
    cases vs with
    | cons v vs =>
      simp only [bindGo] at h
      split at h
      · cases h
      · cases hr : bindGo ps vs kw with
        | error e => rw [hr] at h; cases h
        | ok σ' =>
          rw [hr] at h
          simp only [Except.map] at h
          cases h
          simp [ih vs kw σ' hr]
    | nil =>
      simp only [bindGo] at h
      split at h
      · cases hr : bindGo ps [] kw with
        | error e => rw [hr] at h; cases h
        | ok σ' =>
          rw [hr] at h
          simp only [Except.map] at h
          cases h
          simp [ih [] kw σ' hr]
      · split at h
        · cases hr : bindGo ps [] kw with
          | error e => rw [hr] at h; cases h
          | ok σ' =>
            rw [hr] at h
            simp only [Except.map] at h
            cases h
            simp [ih [] kw σ' hr]
        · cases h

theorem bindArgs_keys (ps : List BParam) (c : Call) (σ : List (Name × Val)) (h : bindArgs ps c = .ok σ) :
    σ.map (·.1) = ps.map (·.1) := by
  unfold bindArgs at h
  split at h
  · cases h
  · split at h
    · cases h
    · exact bindGo_keys _ _ _ _ h

theorem resolveGlobal_ok {cm : ClientModule} {m : Method} {n : Name} (h : hygienic cm m = true)
    (hn : n ∈ globalsUsed m) : resolveGlobal cm m n = .ok () := by
  have := (List.all_eq_true.mp h) n hn
  simp only [Bool.and_eq_true, Bool.not_eq_true', List.contains_eq_mem, decide_eq_false_iff_not, decide_eq_true_eq] at this
  simp [resolveGlobal, this.1, this.2]

theorem lookupLocal_of_key {σ : List (Name × Val)} {n : Name} (h : n ∈ σ.map (·.1)) :
    ∃ v, lookup σ n = some v ∧ lookupLocal σ n = .ok v := by
  obtain ⟨v, hv⟩ := lookup_some_of_mem_keys σ n h
  exact ⟨v, hv, by simp [lookupLocal, hv]⟩

/-- value of a parameter in a complete binding -/
def getV (σ : List (Name × Val)) (n : Name) : Val := (lookup σ n).getD .none

theorem mapM_lookupLocal {σ : List (Name × Val)} (args : List Name) (h : ∀ n ∈ args, n ∈ σ.map (·.1)) :
    args.mapM (lookupLocal σ) = .ok (args.map (getV σ)) := by
  apply mapM_ok_of_forall
  intro n hn
  obtain ⟨v, hv, hl⟩ := lookupLocal_of_key (h n hn)
  simp [hl, getV, hv]

/-- Both generators walk `all_fields`; python_types sees the aliases, python_client does not. When no field type
is an alias of a nullable type the two walks give the same list. -/
theorem allFields_views_agree (api : Api) (r : Ref) (h : noNullableAlias api r = true) :
    allFields stripFirst api r = structCtorFields api r := by
  unfold structCtorFields allFields
  have key : ∀ f ∈ declFields api r, isRequired stripFirst f = isRequired id f := by
    intro f hf
    have := (List.all_eq_true.mp h) f hf
    simp only [beq_iff_eq] at this
    simp [isRequired, this]
  congr 1
  · exact List.filter_congr key
  · exact List.filter_congr (fun f hf => by rw [key f hf])

theorem filterMap_congr' {α β : Type} (f g : α → Option β) (L : List α) (h : ∀ a ∈ L, f a = g a) :
    L.filterMap f = L.filterMap g := by
  induction L with
  | nil => rfl
  | cons a L ih =>
    simp only [List.filterMap_cons, h a (by simp)]
    rw [ih (fun b hb => h b (List.mem_cons_of_mem _ hb))]

theorem ctorApply_direct (api : Api) (ty : Ref) (σ : List (Name × Val))
    (hna : noNullableAlias api ty = true)
    (hinj : ∀ f ∈ declFields api ty, ∀ f' ∈ declFields api ty, fmtVarR f'.name = fmtVarR f.name → f'.name = f.name)
    (hkeys : ∀ f ∈ declFields api ty, f.name ∈ σ.map (·.1)) :
    ctorApply api ty (typesClassOf ty).1 (typesClassOf ty).2 (((allFields stripFirst api ty).map (·.name)).map (getV σ))
      = .ok (structDirect api ty σ) := by
  unfold ctorApply structCtorParams
  rw [← allFields_views_agree api ty hna]
  generalize hL : allFields stripFirst api ty = L
  have hmem : ∀ f, f ∈ declFields api ty → f ∈ L := fun f hf => hL ▸ mem_allFields.mpr hf
  have hmem' : ∀ f, f ∈ L → f ∈ declFields api ty := fun f hf => mem_allFields.mp (hL ▸ hf)
  simp only [List.length_map, Nat.lt_irrefl, gt_iff_lt, ↓reduceIte, Nat.sub_self, List.replicate_zero, List.append_nil,
    List.map_map]
  unfold structDirect
  congr 2
  apply filterMap_congr'
  intro f hf
  have h1 := lookup_zip_map L (fun f => fmtVarR f.name) ((getV σ) ∘ (fun f => f.name)) f (hmem f hf)
    (fun b hb hk => by
      have := hinj f hf b (hmem' b hb) hk
      simp [this])
  simp only [Function.comp] at h1 ⊢
  rw [h1]
  obtain ⟨v, hv⟩ := lookup_some_of_mem_keys σ f.name (hkeys f hf)
  simp [getV, hv]

theorem fieldParam_name {f : Field} {p : Param} (h : fieldParam f = .ok p) : p.name = f.name := by
  unfold fieldParam at h
  simp only at h
  cases hn : (stripFirst f.ty).isNullable
  · rw [hn] at h
    cases hd : f.dflt with
    | none => rw [hd] at h; simp at h; rw [← h]
    | some d =>
      rw [hd] at h
      simp only [Bool.false_eq_true, ↓reduceIte] at h
      cases hg : genPythonValue f.name (stripFirst f.ty).userNs d with
      | error e => rw [hg] at h; cases h
      | ok e => rw [hg] at h; cases h; rfl
  · rw [hn] at h; simp at h; rw [← h]

theorem argParams_names_struct (api : Api) (ty : Ref) (ps : List Param)
    (h : (allFields stripFirst api ty).mapM fieldParam = .ok ps) :
    ps.map (·.name) = (allFields stripFirst api ty).map (·.name) := by
  generalize allFields stripFirst api ty = L at h
  induction L generalizing ps with
  | nil => rw [List.mapM_nil] at h; cases h; rfl
  | cons f L ih =>
    rw [List.mapM_cons] at h
    cases hf : fieldParam f with
    | error e => rw [hf] at h; cases h
    | ok p =>
      rw [hf] at h
      cases hr : L.mapM fieldParam with
      | error e => rw [hr] at h; cases h
      | ok ps' =>
        rw [hr] at h
        cases h
        simp [fieldParam_name hf, ih ps' hr]

theorem warnings_mem_globalsUsed {m : Method} (h : m.deprecated = true) : "warnings".toList ∈ globalsUsed m := by
  unfold globalsUsed
  rw [h]
  exact List.mem_append_left _ (List.mem_append_left _ (List.mem_singleton.mpr rfl))

theorem routeMod_mem_globalsUsed (m : Method) : m.routeMod ∈ globalsUsed m := by
  unfold globalsUsed
  exact List.mem_append_right _ (List.mem_singleton.mpr rfl)

theorem ctorMod_mem_globalsUsed {m : Method} {mod cls : Name} {ty : Ref} {args : List Name}
    (h : m.argBuild = .ctor mod cls ty args) : mod ∈ globalsUsed m := by
  unfold globalsUsed
  rw [h]
  exact List.mem_append_left _ (List.mem_append_right _ (List.mem_singleton.mpr rfl))

theorem warnStep_ok {cm : ClientModule} {m : Method} (hyg : hygienic cm m = true) : warnStep cm m = .ok () := by
  unfold warnStep
  cases hd : m.deprecated
  · rfl
  · simp only [↓reduceIte]
    exact resolveGlobal_ok hyg (warnings_mem_globalsUsed hd)

/-- the body of a generated method that is not a `_to_file` twin, given its argument and body steps -/
theorem runMethod_steps (api : Api) (cm : ClientModule) (m : Method) (σ : List (Name × Val)) (obj : ArgObj) (b : Option Val)
    (hyg : hygienic cm m = true) (htf : m.toFile = false)
    (harg : buildArg api cm m σ = .ok obj) (hbody : bodyArg m σ = .ok b) :
    runMethod api cm m σ = .ok
      { requests := [{ route := (m.routeMod, m.routeVar), ns := m.nsLit, arg := obj, body := b }]
        warned := m.deprecated, saved := none, ret := if m.resultVoid then .none else .result } := by
  have hroute := resolveGlobal_ok hyg (routeMod_mem_globalsUsed m)
  have hsaved : savedArg m σ = .ok none := by simp [savedArg, htf]
  simp only [runMethod, warnStep_ok hyg, harg, hroute, hbody, hsaved, htf, Bool.false_eq_true, ↓reduceIte]

theorem isPrefix_of_append_eq : ∀ (a b x y : Name), a ++ x = b ++ y → isPrefix a b = true ∨ isPrefix b a = true := by
  intro a
  induction a with
  | nil => intro b x y _; exact .inl (by cases b <;> rfl)
  | cons c a ih =>
    intro b x y h
    cases b with
    | nil => exact .inr rfl
    | cons d b =>
      simp only [List.cons_append, List.cons.injEq] at h
      obtain ⟨hcd, h⟩ := h
      subst hcd
      rcases ih b x y h with h1 | h1
      · exact .inl (by simp [isPrefix, h1])
      · exact .inr (by simp [isPrefix, h1])

/-- the name of the (main) method of a route -/
def mainName (ns : Namespace) (r : Route) : Name := fmtUnderscores ns.name ++ ['_'] ++ fmtFunc r.name r.version

theorem mkMethod_name (api : Api) (ns : Namespace) (r : Route) (ps : List Param) :
    (mkMethod api ns r false ps).name = mainName ns r := by
  simp [mkMethod, mainName]

theorem routeMethod_name {api : Api} {ns : Namespace} {r : Route} {m : Method}
    (h : routeMethod api ns r false = .ok m) : m.name = mainName ns r ∧ m.routeNs = ns.name ∧ m.routeName = r.name ∧ m.version = r.version := by
  unfold routeMethod at h
  cases hp : argParamsOf api ns r with
  | error e => rw [hp] at h; cases h
  | ok ps =>
    rw [hp] at h
    simp only [Except.map] at h
    cases h
    exact ⟨mkMethod_name api ns r ps, rfl, rfl, rfl⟩

theorem conflict_go_false (seen : List Name) (rs : List Route) (h : routeNameConflict.go seen rs = false) :
    (rs.map (fun r => fmtFunc r.name r.version)).Nodup ∧ ∀ r ∈ rs, fmtFunc r.name r.version ∉ seen := by
  induction rs generalizing seen with
  | nil => exact ⟨List.nodup_nil, fun _ h => by cases h⟩
  | cons r rs ih =>
    simp only [routeNameConflict.go] at h
    split at h
    · cases h
    · rename_i hns
      obtain ⟨hnd, hseen⟩ := ih _ h
      have hns' : fmtFunc r.name r.version ∉ seen := by simpa using hns
      refine ⟨?_, ?_⟩
      · simp only [List.map_cons, List.nodup_cons]
        refine ⟨?_, hnd⟩
        intro hmem
        obtain ⟨r', hr', he⟩ := List.mem_map.mp hmem
        have := hseen r' hr'
        rw [he] at this
        exact this (by simp)
      · intro r' hr'
        cases hr' with
        | head => exact hns'
        | tail _ hr'' =>
          have := hseen r' hr''
          intro hc
          exact this (List.mem_cons_of_mem _ hc)

theorem inj_of_nodup_map {α β : Type} (f : α → β) : ∀ (L : List α), (L.map f).Nodup →
    ∀ a ∈ L, ∀ b ∈ L, f a = f b → a = b := by
  intro L
  induction L with
  | nil => intro _ a ha; cases ha
  | cons x L ih =>
    intro h a ha b hb hab
    simp only [List.map_cons, List.nodup_cons] at h
    obtain ⟨hx, hnd⟩ := h
    cases ha with
    | head =>
      cases hb with
      | head => rfl
      | tail _ hb' => exact absurd (hab ▸ List.mem_map_of_mem hb') hx
    | tail _ ha' =>
      cases hb with
      | head => exact absurd (hab ▸ List.mem_map_of_mem ha') hx
      | tail _ hb' => exact ih hnd a ha' b hb' hab

theorem except_map_ok {ε α β : Type} {f : α → β} {x : Except ε α} {y : β} (h : x.map f = .ok y) :
    ∃ a, x = .ok a ∧ y = f a := by
  cases x with
  | error e => cases h
  | ok a => simp only [Except.map] at h; cases h; exact ⟨a, rfl, rfl⟩

theorem routeMethods_main {api : Api} {ns : Namespace} {r : Route} {l : List Method}
    (h : routeMethods api ns r = .ok l) : ∃ m ∈ l, routeMethod api ns r false = .ok m := by
  unfold routeMethods at h
  cases hm : routeMethod api ns r false with
  | error e => rw [hm] at h; cases h
  | ok m =>
    rw [hm] at h
    simp only at h
    split at h
    · cases hm2 : routeMethod api ns r true with
      | error e => rw [hm2] at h; cases h
      | ok m2 => rw [hm2] at h; cases h; exact ⟨m, by simp, rfl⟩
    · cases h; exact ⟨m, by simp, rfl⟩

theorem routeMethods_all {api : Api} {ns : Namespace} {r : Route} {l : List Method}
    (h : routeMethods api ns r = .ok l) : ∀ m ∈ l, ∃ tf, routeMethod api ns r tf = .ok m := by
  unfold routeMethods at h
  cases hm : routeMethod api ns r false with
  | error e => rw [hm] at h; cases h
  | ok m0 =>
    rw [hm] at h
    simp only at h
    split at h
    · cases hm2 : routeMethod api ns r true with
      | error e => rw [hm2] at h; cases h
      | ok m2 =>
        rw [hm2] at h; cases h
        intro m hmem
        simp only [List.mem_cons, List.not_mem_nil, or_false] at hmem
        rcases hmem with rfl | rfl
        · exact ⟨false, hm⟩
        · exact ⟨true, hm2⟩
    · cases h
      intro m hmem
      simp only [List.mem_cons, List.not_mem_nil, or_false] at hmem
      subst hmem
      exact ⟨false, hm⟩

end StoneVerif.C14
