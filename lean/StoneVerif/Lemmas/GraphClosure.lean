import StoneVerif.Model.Graph
/-! Lemmas about `addAll`, `step`, `iter`, `closureBy` (generic in the successor function). -/
namespace StoneVerif.Graph

theorem mem_addAll {S xs : List Id} {y : Id} : y ∈ addAll S xs ↔ y ∈ S ∨ y ∈ xs := by
  induction xs generalizing S with
  | nil => simp [addAll]
  | cons x xs ih =>
    simp only [addAll]
    split
    · rename_i h
      have hx : x ∈ S := by simpa using h
      rw [ih]
      constructor
      · rintro (h | h)
        · exact Or.inl h
        · exact Or.inr (List.mem_cons_of_mem _ h)
      · rintro (h | h)
        · exact Or.inl h
        · rcases List.mem_cons.1 h with rfl | h
          · exact Or.inl hx
          · exact Or.inr h
    · rw [ih]
      simp only [List.mem_append, List.mem_cons, List.not_mem_nil, or_false]
      constructor
      · rintro ((h | h) | h)
        · exact Or.inl h
        · exact Or.inr (Or.inl h)
        · exact Or.inr (Or.inr h)
      · rintro (h | h | h)
        · exact Or.inl (Or.inl h)
        · exact Or.inl (Or.inr h)
        · exact Or.inr h

theorem nodup_addAll {S xs : List Id} (h : S.Nodup) : (addAll S xs).Nodup := by
  induction xs generalizing S with
  | nil => simpa [addAll]
  | cons x xs ih =>
    simp only [addAll]
    split
    · exact ih h
    · rename_i hx
      have hx' : x ∉ S := by simpa using hx
      apply ih
      rw [List.nodup_append]
      refine ⟨h, by simp, ?_⟩
      intro a ha b hb
      have : b = x := by simpa using hb
      subst this
      intro hab
      exact hx' (hab ▸ ha)

theorem addAll_eq_self {S xs : List Id} (h : ∀ x ∈ xs, x ∈ S) : addAll S xs = S := by
  induction xs generalizing S with
  | nil => simp [addAll]
  | cons x xs ih =>
    have hx : x ∈ S := h x (List.mem_cons_self ..)
    simp only [addAll, List.contains_iff_mem.2 hx, ↓reduceIte] 
    exact ih (fun y hy => h y (List.mem_cons_of_mem _ hy))

theorem length_le_addAll {S xs : List Id} : S.length ≤ (addAll S xs).length := by
  induction xs generalizing S with
  | nil => simp [addAll]
  | cons x xs ih =>
    simp only [addAll]
    split
    · exact ih
    · have := @ih (S ++ [x])
      simp at this
      omega

theorem length_lt_addAll {S xs : List Id} (h : ∃ x ∈ xs, x ∉ S) : S.length < (addAll S xs).length := by
  induction xs generalizing S with
  | nil => simp at h
  | cons x xs ih =>
    simp only [addAll]
    split
    · rename_i hx
      have hx : x ∈ S := by simpa using hx
      apply ih
      obtain ⟨y, hy, hyS⟩ := h
      rcases List.mem_cons.1 hy with rfl | hy
      · exact absurd hx hyS
      · exact ⟨y, hy, hyS⟩
    · have := @length_le_addAll (S ++ [x]) xs
      simp at this
      omega

/-- `S` is closed under the successor function -/
def Stable (sc : Id → List Id) (S : List Id) : Prop := ∀ a ∈ S, ∀ b ∈ sc a, b ∈ S

theorem mem_step {sc : Id → List Id} {S : List Id} {y : Id} :
    y ∈ step sc S ↔ y ∈ S ∨ ∃ a ∈ S, y ∈ sc a := by
  simp [step, mem_addAll, List.mem_flatMap]

theorem step_eq_self {sc : Id → List Id} {S : List Id} (h : Stable sc S) : step sc S = S := by
  apply addAll_eq_self
  intro x hx
  obtain ⟨a, ha, hxa⟩ := List.mem_flatMap.1 hx
  exact h a ha x hxa

theorem iter_eq_self {sc : Id → List Id} {S : List Id} (h : Stable sc S) (n : Nat) : iter sc n S = S := by
  induction n with
  | zero => rfl
  | succ n ih => simp [iter, step_eq_self h, ih]

theorem subset_iter {sc : Id → List Id} (n : Nat) (S : List Id) : ∀ x ∈ S, x ∈ iter sc n S := by
  induction n generalizing S with
  | zero => intro x hx; exact hx
  | succ n ih =>
    intro x hx
    exact ih (step sc S) x (mem_step.2 (Or.inl hx))

theorem nodup_iter {sc : Id → List Id} (n : Nat) {S : List Id} (h : S.Nodup) : (iter sc n S).Nodup := by
  induction n generalizing S with
  | zero => exact h
  | succ n ih => exact ih (nodup_addAll h)

/-- everything `iter` adds stays inside any set that contains the start and is closed -/
theorem iter_subset {sc : Id → List Id} (T : Id → Prop) (hT : ∀ a, T a → ∀ b ∈ sc a, T b)
    (n : Nat) {S : List Id} (hS : ∀ x ∈ S, T x) : ∀ x ∈ iter sc n S, T x := by
  induction n generalizing S with
  | zero => exact hS
  | succ n ih =>
    apply ih
    intro x hx
    rcases mem_step.1 hx with h | ⟨a, ha, hxa⟩
    · exact hS x h
    · exact hT a (hS a ha) x hxa

theorem iter_succ' {sc : Id → List Id} (n : Nat) (S : List Id) :
    iter sc (n + 1) S = step sc (iter sc n S) := by
  induction n generalizing S with
  | zero => rfl
  | succ n ih => 
    show iter sc (n + 1) (step sc S) = step sc (iter sc (n + 1) S)
    rw [ih (step sc S)]
    rfl

theorem length_lt_step {sc : Id → List Id} {S : List Id} (h : ¬ Stable sc S) :
    S.length < (step sc S).length := by
  apply length_lt_addAll
  by_cases hex : ∃ b ∈ S.flatMap sc, b ∉ S
  · exact hex
  · exfalso
    apply h
    intro a ha b hb
    by_cases hb' : b ∈ S
    · exact hb'
    · exact absurd ⟨b, List.mem_flatMap.2 ⟨a, ha, hb⟩, hb'⟩ hex

/-- while the iteration has not reached a closed set, every round adds an element -/
theorem length_growth {sc : Id → List Id} (n : Nat) (S : List Id) (h : ¬ Stable sc (iter sc n S)) :
    S.length + n + 1 ≤ (iter sc (n + 1) S).length := by
  induction n generalizing S with
  | zero =>
    have := length_lt_step (sc := sc) (S := S) h
    simp [iter] at *
    omega
  | succ n ih =>
    have hS : ¬ Stable sc S := by
      intro hs
      apply h
      rw [iter_eq_self hs]
      exact hs
    have h1 := length_lt_step hS
    have h2 := ih (step sc S) h
    show S.length + (n + 1) + 1 ≤ (iter sc (n + 1) (step sc S)).length
    omega

/-- the fuel bound: if all ids live in a universe `U` closed under `sc` with `U.length ≤ n`,
`n` rounds reach a closed set -/
theorem iter_stable {sc : Id → List Id} (U : List Id) (hU : ∀ a ∈ U, ∀ b ∈ sc a, b ∈ U)
    {S : List Id} (hS : ∀ x ∈ S, x ∈ U) (hnd : S.Nodup) (n : Nat) (hn : U.length ≤ n) :
    Stable sc (iter sc n S) := by
  by_cases h : Stable sc (iter sc n S)
  · exact h
  · exfalso
    have h1 := length_growth n S h
    have h2 : (iter sc (n + 1) S).Nodup := nodup_iter _ hnd
    have h3 : ∀ x ∈ iter sc (n + 1) S, x ∈ U := iter_subset (· ∈ U) (fun a ha b hb => hU a ha b hb) _ hS
    have h4 := List.Nodup.length_le_of_subset h2 h3
    omega

end StoneVerif.Graph
