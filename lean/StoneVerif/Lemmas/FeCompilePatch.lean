import StoneVerif.Lemmas.FeCompileLegalIff
set_option linter.unusedSimpArgs false
/-!
Patches: `_merge_patches` of the compile model accepts exactly the patches that obey the rules, and the merged files
have the names, imports and namespaces of the original ones -- so everything proved about files without patches
carries over to `compile`, `denote` and `Legal`.
-/
namespace StoneVerif.FeCompile.L
open StoneVerif.FeCompile
open StoneVerif.FeParams (TyKind)

/-! ## what is stored under a canonical name -/

theorem find_filterMap_named (K : FeNames.Name) : ∀ (l : List (String × Decl)),
    (l.filterMap namedEntry).find? (fun p => canonKey p.1.2 p.1.1 == K) = (l.find? (namedPred K)).bind namedEntry
  | [] => rfl
  | q :: l => by
    obtain ⟨ns, d⟩ := q
    simp only [List.filterMap_cons, List.find?_cons, namedPred]
    cases hn : anyName d with
    | none => simp [namedEntry, hn, find_filterMap_named K l]
    | some n =>
      simp only [namedEntry, hn, Option.map_some, List.find?_cons]
      cases hk : canonKey n ns == K with
      | true => simp [namedEntry, hn]
      | false => simp [find_filterMap_named K l]

theorem itemAt_spec {E fs} (hE : EnvOK2 E fs) (K : FeNames.Name) :
    (itemAt E.items K).map (fun p => shapeOf p.2) = (namedAt fs K).map (fun q => declShape q.2) := by
  have h3 := hE.inv3
  unfold RegInv3 at h3
  have h1 : ((E.items.map fun p => (p.1, shapeOf p.2)).find? fun p => canonKey p.1.2 p.1.1 == K) =
      (itemAt E.items K).map fun p => (p.1, shapeOf p.2) := by
    unfold itemAt
    rw [List.find?_map]
    rfl
  rw [h3, ← List.filterMap_reverse, find_filterMap_named] at h1
  unfold namedAt
  rw [allPairs_eq]
  cases hf : (pairs fs).reverse.find? (namedPred K) with
  | none =>
    rw [hf] at h1
    cases hi : itemAt E.items K with
    | none => rfl
    | some p => rw [hi] at h1; simp at h1
  | some q =>
    rw [hf] at h1
    obtain ⟨ns, d⟩ := q
    have hp := List.find?_some hf
    simp only [namedPred] at hp
    cases hn : anyName d with
    | none => simp [hn] at hp
    | some n =>
      simp only [Option.bind_some, namedEntry, hn, Option.map_some] at h1
      cases hi : itemAt E.items K with
      | none => rw [hi] at h1; simp at h1
      | some p =>
        rw [hi] at h1
        simp only [Option.map_some, Option.some.injEq, Prod.mk.injEq] at h1
        simp [h1.2]

/-! ## one patch -/

theorem any_or_false {α} (l : List α) (p q : α → Bool) :
    (l.any fun x => p x || q x) = false ↔ l.any p = false ∧ l.any q = false := by
  induction l with
  | nil => simp
  | cons x l ih =>
    simp only [List.any_cons, Bool.or_eq_false_iff, ih]
    constructor
    · rintro ⟨⟨h1, h2⟩, h3, h4⟩; exact ⟨⟨h1, h3⟩, h2, h4⟩
    · rintro ⟨⟨h1, h3⟩, h2, h4⟩; exact ⟨⟨h1, h2⟩, h3, h4⟩

theorem checkPatch_ok_iff {E fs acc ns p acc'} (hE : EnvOK2 E fs) :
    checkPatch E acc ns p = .ok acc' ↔ patchStatic fs ns p = true ∧
      (p.fields.any fun f => acc.contains (canonKey p.name ns, f.name)) = false ∧
      acc' = p.fields.map (fun f => (canonKey p.name ns, f.name)) ++ acc := by
  have hspec := itemAt_spec hE (canonKey p.name ns)
  unfold checkPatch patchStatic
  simp only [hE.ok.nss]
  cases hns : (nsNames fs []).any (fun m => canonKey m m == canonKey p.name ns) with
  | true => simp
  | false =>
    simp only [Bool.false_eq_true, ↓reduceIte, Bool.not_false, Bool.true_and]
    cases hi : itemAt E.items (canonKey p.name ns) with
    | none =>
      rw [hi] at hspec
      cases hn : namedAt fs (canonKey p.name ns) with
      | none => simp
      | some q => rw [hn] at hspec; simp at hspec
    | some it =>
      rw [hi] at hspec
      obtain ⟨k, i⟩ := it
      cases hn : namedAt fs (canonKey p.name ns) with
      | none => rw [hn] at hspec; simp at hspec
      | some q =>
        rw [hn] at hspec
        obtain ⟨qns, qd⟩ := q
        simp only [Option.map_some, Option.some.injEq] at hspec
        cases i with
        | type d =>
          simp only [shapeOf] at hspec
          cases qd <;> simp [declShape] at hspec
          subst hspec
          simp only
          by_cases hk : d.kind = p.kind
          · have hk1 : (d.kind != p.kind) = false := by simp [hk]
            have hk2 : (d.kind == p.kind) = true := by simp [hk]
            simp only [hk1, hk2, Bool.false_eq_true, ↓reduceIte, Bool.true_and]
            cases hany : (p.fields.any fun f => (d.fields.map (·.name)).contains f.name || acc.contains (canonKey p.name ns, f.name)) with
            | true =>
              simp only [↓reduceIte, reduceCtorEq, false_iff, not_and]
              intro h1 h2
              have := (any_or_false p.fields (fun f => (d.fields.map (·.name)).contains f.name)
                (fun f => acc.contains (canonKey p.name ns, f.name))).mpr ⟨by simpa using h1, h2⟩
              rw [hany] at this
              cases this
            | false =>
              obtain ⟨h1, h2⟩ := (any_or_false p.fields _ _).mp hany
              simp only [Bool.false_eq_true, ↓reduceIte, Except.ok.injEq, h1, h2, Bool.not_false, true_and]
              exact eq_comm
          · have hk1 : (d.kind != p.kind) = true := by simp [hk]
            have hk2 : (d.kind == p.kind) = false := by simp [hk]
            simp [hk1, hk2]
        | «alias» _ | routes _ | other | annot _ =>
          simp only [shapeOf] at hspec
          cases qd <;> simp [declShape] at hspec <;> simp

/-! ## all patches: the accumulated members against the pairwise rule -/

theorem disjoint_iff (a b : String × PatchDecl) :
    patchesDisjoint a b = true ↔
      (b.2.fields.any fun f => (a.2.fields.map fun g => (canonKey a.2.name a.1, g.name)).contains (canonKey b.2.name b.1, f.name)) = false := by
  unfold patchesDisjoint
  rw [Bool.not_eq_true', Bool.and_eq_false_iff]
  constructor
  · intro h
    rw [Bool.eq_false_iff, ne_eq, List.any_eq_true]
    rintro ⟨f, hf, hc⟩
    rw [List.contains_iff_mem, List.mem_map] at hc
    obtain ⟨g, hg, he⟩ := hc
    simp only [Prod.mk.injEq] at he
    rcases h with h | h
    · simp [he.1] at h
    · rw [Bool.eq_false_iff, ne_eq, List.any_eq_true] at h
      exact h ⟨g, hg, by rw [List.contains_iff_mem, List.mem_map]; exact ⟨f, hf, he.2.symm⟩⟩
  · intro h
    by_cases hk : canonKey a.2.name a.1 = canonKey b.2.name b.1
    · right
      rw [Bool.eq_false_iff, ne_eq, List.any_eq_true]
      rintro ⟨g, hg, hc⟩
      rw [List.contains_iff_mem, List.mem_map] at hc
      obtain ⟨f, hf, he⟩ := hc
      rw [Bool.eq_false_iff, ne_eq, List.any_eq_true] at h
      exact h ⟨f, hf, by rw [List.contains_iff_mem, List.mem_map]; exact ⟨g, hg, by rw [hk, he]⟩⟩
    · left; simpa using hk

theorem any_contains_append {α β} [BEq β] [LawfulBEq β] (l : List α) (g : α → β) (x y : List β) :
    (l.any fun f => (x ++ y).contains (g f)) = false ↔
      (l.any fun f => x.contains (g f)) = false ∧ (l.any fun f => y.contains (g f)) = false := by
  have : (fun f => (x ++ y).contains (g f)) = (fun f => x.contains (g f) || y.contains (g f)) := by
    funext f
    rw [Bool.eq_iff_iff]
    simp [List.contains_iff_mem]
  rw [this, any_or_false]

theorem checkPatches_ok_iff {E fs} (hE : EnvOK2 E fs) : ∀ {ps : List (String × PatchDecl)} {acc},
    checkPatches E acc ps = .ok () ↔
      (∀ q, q ∈ ps → patchStatic fs q.1 q.2 = true ∧
        (q.2.fields.any fun f => acc.contains (canonKey q.2.name q.1, f.name)) = false) ∧
      pairwiseB patchesDisjoint ps = true
  | [], acc => by simp [checkPatches, pairwiseB]
  | (ns, p) :: ps, acc => by
    simp only [checkPatches, pairwiseB, Bool.and_eq_true, List.all_eq_true, List.mem_cons, forall_eq_or_imp]
    cases hc : checkPatch E acc ns p with
    | error e =>
      have := (not_congr (checkPatch_ok_iff (acc' := p.fields.map (fun f => (canonKey p.name ns, f.name)) ++ acc) hE)).mp
        (by rw [hc]; simp)
      simp only [reduceCtorEq, false_iff]
      rintro ⟨⟨⟨h1, h2⟩, _⟩, _⟩
      exact this ⟨h1, h2, rfl⟩
    | ok acc' =>
      obtain ⟨h1, h2, rfl⟩ := (checkPatch_ok_iff hE).mp hc
      simp only
      rw [checkPatches_ok_iff hE (ps := ps)]
      constructor
      · rintro ⟨hall, hpw⟩
        refine ⟨⟨⟨h1, h2⟩, fun q hq => ⟨(hall q hq).1, ?_⟩⟩, fun q hq => ?_, hpw⟩
        · exact ((any_contains_append q.2.fields (fun f => (canonKey q.2.name q.1, f.name)) _ acc).mp (hall q hq).2).2
        · rw [disjoint_iff]
          exact ((any_contains_append q.2.fields (fun f => (canonKey q.2.name q.1, f.name)) _ acc).mp (hall q hq).2).1
      · rintro ⟨⟨_, hall⟩, hdis, hpw⟩
        refine ⟨fun q hq => ⟨(hall q hq).1, ?_⟩, hpw⟩
        rw [any_contains_append]
        exact ⟨(disjoint_iff (ns, p) q).mp (hdis q hq), (hall q hq).2⟩

/-- **patches.** `_merge_patches` accepts exactly the patches that obey the rules -/
theorem patches_ok_iff {E fs} (hE : EnvOK2 E fs) : isOk (checkPatches E [] (patchesOf fs)) = patchesLegal fs := by
  rw [Bool.eq_iff_iff]
  have := checkPatches_ok_iff hE (ps := patchesOf fs) (acc := [])
  unfold patchesLegal
  simp only [Bool.and_eq_true, List.all_eq_true]
  constructor
  · intro h
    cases hc : checkPatches E [] (patchesOf fs) with
    | error e => rw [hc] at h; cases h
    | ok u =>
      cases u
      obtain ⟨h1, h2⟩ := this.mp hc
      exact ⟨fun q hq => (h1 q hq).1, h2⟩
  · rintro ⟨h1, h2⟩
    rw [this.mpr ⟨fun q hq => ⟨h1 q hq, by simp⟩, h2⟩]
    rfl

/-! ## the merged files -/

theorem mergeDecl_item (fs : List File) (ns : String) (d : Decl) : declItem (mergeDecl fs ns d) = declItem d := by
  cases d <;> rfl

theorem filterMap_ext {α β} {f g : α → Option β} : ∀ {l : List α}, (∀ x, x ∈ l → f x = g x) → l.filterMap f = l.filterMap g
  | [], _ => rfl
  | x :: l, h => by
    simp only [List.filterMap_cons, h x List.mem_cons_self,
      filterMap_ext (l := l) (fun y hy => h y (List.mem_cons_of_mem _ hy))]

def mergeFile (fs0 : List File) (f : File) : File := { f with decls := f.decls.map (mergeDecl fs0 f.ns) }

theorem mergeFiles_eq (fs : List File) : mergeFiles fs = fs.map (mergeFile fs) := rfl

theorem toNames_mergeG (fs0 : List File) : ∀ fs : List File, toNames (fs.map (mergeFile fs0)) = toNames fs
  | [] => rfl
  | f :: fs => by
    have ih := toNames_mergeG fs0 fs
    unfold toNames at ih ⊢
    simp only [List.map_cons, ih, List.cons.injEq, and_true, mergeFile, FeNames.File.mk.injEq, true_and]
    rw [List.filterMap_map]
    exact filterMap_ext (fun d _ => mergeDecl_item fs0 f.ns d)

theorem toNames_merge (fs : List File) : toNames (mergeFiles fs) = toNames fs := toNames_mergeG fs fs

theorem nsNames_mergeG (fs0 : List File) : ∀ (fs : List File) (acc : List String),
    nsNames (fs.map (mergeFile fs0)) acc = nsNames fs acc
  | [], _ => rfl
  | f :: fs, acc => by simp only [List.map_cons, nsNames, mergeFile]; exact nsNames_mergeG fs0 fs _

theorem nsLexical_mergeG (fs0 : List File) : ∀ fs : List File, nsLexical (fs.map (mergeFile fs0)) = nsLexical fs
  | [] => rfl
  | f :: fs => by
    have ih := nsLexical_mergeG fs0 fs
    unfold nsLexical at ih ⊢
    simp only [List.map_cons, List.all_cons, ih, mergeFile]

theorem nsLexical_merge (fs : List File) : nsLexical (mergeFiles fs) = nsLexical fs := nsLexical_mergeG fs fs

theorem importPairs_mergeG (fs0 : List File) : ∀ fs : List File, importPairs (fs.map (mergeFile fs0)) = importPairs fs
  | [] => rfl
  | f :: fs => by
    have ih := importPairs_mergeG fs0 fs
    unfold importPairs allPairs at ih ⊢
    simp only [List.map_cons, List.flatMap_cons, List.filterMap_append, ih, mergeFile, List.map_map]
    congr 1
    rw [List.filterMap_map, List.filterMap_map]
    apply filterMap_ext
    intro d _
    cases d <;> rfl

theorem importPairs_merge (fs : List File) : importPairs (mergeFiles fs) = importPairs fs := importPairs_mergeG fs fs

theorem namesLegal_merge (fs : List File) : namesLegal (mergeFiles fs) = namesLegal fs := by
  unfold namesLegal; rw [toNames_merge]

theorem importsLegal_merge (fs : List File) : importsLegal (mergeFiles fs) = importsLegal fs := by
  unfold importsLegal
  rw [importPairs_merge]
  have : nsNames (mergeFiles fs) [] = nsNames fs [] := nsNames_mergeG fs fs []
  rw [this]

theorem LegalCore_names {rx fs} (h : LegalCore rx fs = true) : namesLegal fs = true ∧ importsLegal fs = true :=
  let ⟨a, b, _⟩ := Legal_parts h; ⟨a, b⟩

end StoneVerif.FeCompile.L
