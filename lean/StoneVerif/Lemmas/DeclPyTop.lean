import StoneVerif.Lemmas.DeclPyLoad
namespace StoneVerif.DeclPy

theorem unstartedIn_le_length (l : List Name) (st : St) : unstartedIn l st ≤ l.length := by
  unfold unstartedIn; exact List.length_filter_le _ _

theorem pyModules_length (api : Api) : (pyModules api).length = (api.namespaces.map modName).length := by
  simp [pyModules]

theorem stWF_empty : StWF {} :=
  ⟨trivial, fun _ _ _ h => by simp [St.global?] at h, fun _ h => by simp [clsKeys] at h,
   fun _ _ h => by simp [St.global?] at h⟩

/-- at top level (no module is executing) every module in `sys.modules` is completely loaded -/
structure TopInv (api : Api) (st : St) : Prop where
  wf : StWF st
  loaded : ∀ ns ∈ api.namespaces, modName ns ∈ st.started → Loaded api st ns

/-- one `importlib.import_module` at top level -/
theorem import_step {api : Api} (hapi : apiWF api = true) (hdag : Acyclic (importEdges api)) {st : St}
    (hinv : TopInv api st) {ns : Namespace} (hns : ns ∈ api.namespaces) :
    ∃ st', runMod (pyModules api) ((pyModules api).length + 1) st (modName ns) = .ok st' ∧ TopInv api st'
      ∧ Loaded api st' ns := by
  obtain ⟨rank, hrank⟩ := hdag
  by_cases hst : modName ns ∈ st.started
  · exact ⟨st, runMod_started hst, hinv, hinv.loaded ns hns hst⟩
  · obtain ⟨st', hrun, hpost⟩ := load_module hapi rank hrank (rank ns.name + 1) ns hns (Nat.lt_succ_self _)
      ((pyModules api).length + 1) st hinv.wf
      (by rw [pyModules_length]; exact Nat.lt_succ_of_le (unstartedIn_le_length _ _))
      (fun ns' hns' _ hs' => hinv.loaded ns' hns' hs') hst
    refine ⟨st', hrun, ⟨hpost.wf, fun ns' hns' hs' => ?_⟩, hpost.loaded⟩
    rcases hpost.newer ns' hns' hs' with h | ⟨_, h⟩
    · exact (hinv.loaded ns' hns' h).mono hpost.le
    · exact h

end StoneVerif.DeclPy
