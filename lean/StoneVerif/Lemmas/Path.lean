import StoneVerif.Model.Path
/-! Helper lemmas about the POSIX path model (used by Props/C18.lean). -/
namespace StoneVerif.Path

/-- a path component that names a directory entry: non-empty, slash-free, neither `.` nor `..` -/
def Proper (w : Str) : Prop := w ≠ [] ∧ w ≠ dot ∧ w ≠ dotdot ∧ sep ∉ w

/-! ### split / join -/

theorem splitOn_ne_nil (c : Char) (s : Str) : splitOn c s ≠ [] := by
  induction s with
  | nil => simp [splitOn]
  | cons x xs ih =>
    simp only [splitOn]
    split
    · simp
    · split <;> simp

theorem splitOn_no_sep (c : Char) (s : Str) : ∀ w ∈ splitOn c s, c ∉ w := by
  induction s with
  | nil => simp [splitOn]
  | cons x xs ih =>
    simp only [splitOn]
    split
    · intro w hw
      simp at hw
      rcases hw with rfl | hw
      · simp
      · exact ih w hw
    · next hx =>
      split
      · next w ws heq =>
        intro v hv
        simp at hv
        rcases hv with rfl | hv
        · have := ih w (by rw [heq]; simp)
          simp
          exact ⟨fun h => hx h.symm, this⟩
        · exact ih v (by rw [heq]; simp [hv])
      · intro v hv
        simp at hv
        subst hv
        simp
        exact fun h => hx h.symm

theorem splitOn_no_sep_word (c : Char) (w : Str) (h : c ∉ w) : splitOn c w = [w] := by
  induction w with
  | nil => simp [splitOn]
  | cons x xs ih =>
    simp at h
    have hx : ¬ x = c := fun e => h.1 e.symm
    simp [splitOn, hx, ih h.2]

theorem splitOn_append_sep (c : Char) (w rest : Str) (h : c ∉ w) :
    splitOn c (w ++ c :: rest) = w :: splitOn c rest := by
  induction w with
  | nil => simp [splitOn]
  | cons x xs ih =>
    simp at h
    have hx : ¬ x = c := fun e => h.1 e.symm
    simp [splitOn, hx, ih h.2]

theorem splitOn_joinSep (c : Char) (l : List Str) (hl : l ≠ []) (h : ∀ w ∈ l, c ∉ w) :
    splitOn c (joinSep [c] l) = l := by
  induction l with
  | nil => exact absurd rfl hl
  | cons a rest ih =>
    cases rest with
    | nil => simp [joinSep]; exact splitOn_no_sep_word c a (h a (by simp))
    | cons b r =>
      simp only [joinSep, List.append_assoc, List.singleton_append]
      rw [splitOn_append_sep c a _ (h a (by simp))]
      rw [ih (by simp) (fun w hw => h w (by simp [hw]))]

theorem splitOn_replicate_sep (c : Char) (n : Nat) (rest : Str) :
    splitOn c (List.replicate n c ++ rest) = List.replicate n [] ++ splitOn c rest := by
  induction n with
  | zero => simp
  | succ n ih => simp [List.replicate_succ, splitOn, ih]

theorem joinSep_ne_nil (s : Str) (a : Str) (rest : List Str) (ha : a ≠ []) : joinSep s (a :: rest) ≠ [] := by
  cases rest with
  | nil => simpa [joinSep]
  | cons b r => simp [joinSep, ha]

theorem joinSep_snoc (s : Str) (a : Str) (pre : List Str) (b : Str) :
    joinSep s (a :: pre ++ [b]) = joinSep s (a :: pre) ++ s ++ b := by
  induction pre generalizing a with
  | nil => simp [joinSep]
  | cons x xs ih =>
    have := ih x
    simp only [List.cons_append] at this ⊢
    simp only [joinSep]
    rw [this]
    simp [List.append_assoc]

/-! ### endsWithSep / join -/

theorem endsWithSep_append (x y : Str) (hy : y ≠ []) : endsWithSep (x ++ y) = endsWithSep y := by
  induction x with
  | nil => rfl
  | cons c cs ih =>
    cases h : cs ++ y with
    | nil => simp at h; exact absurd h.2 hy
    | cons d ds =>
      simp only [List.cons_append, h, endsWithSep]
      rw [← h]; exact ih

theorem endsWithSep_no_sep (w : Str) (h : sep ∉ w) : endsWithSep w = false := by
  induction w with
  | nil => rfl
  | cons c cs ih =>
    simp at h
    cases cs with
    | nil =>
      simp [endsWithSep]
      intro e; exact h.1 (by simp [sep, e])
    | cons d ds => simp only [endsWithSep]; exact ih (by simpa using h.2)

theorem endsWithSep_joinSep (a : Str) (pre : List Str)
    (h : ∀ w ∈ a :: pre, w ≠ [] ∧ sep ∉ w) : endsWithSep (joinSep [sep] (a :: pre)) = false := by
  induction pre generalizing a with
  | nil => simp [joinSep]; exact endsWithSep_no_sep a (h a (by simp)).2
  | cons b r ih =>
    simp only [joinSep]
    rw [endsWithSep_append]
    · exact ih b (fun w hw => h w (by simp at hw ⊢; right; exact hw))
    · exact joinSep_ne_nil _ _ _ (h b (by simp)).1

theorem isAbs_of_no_sep (w : Str) (hne : w ≠ []) (h : sep ∉ w) : isAbs w = false := by
  cases w with
  | nil => exact absurd rfl hne
  | cons c cs =>
    simp at h
    unfold isAbs
    split
    · next heq => simp at heq; exact absurd heq.1.symm (by simpa [sep] using h.1)
    · rfl

theorem joinMany_eq_joinSep (a : Str) (pre rest : List Str)
    (h : ∀ w ∈ a :: pre ++ rest, w ≠ [] ∧ sep ∉ w) :
    joinMany (joinSep [sep] (a :: pre)) rest = joinSep [sep] (a :: pre ++ rest) := by
  induction rest generalizing pre with
  | nil => simp [joinMany]
  | cons b r ih =>
    have hb := h b (by simp)
    have hpre : ∀ w ∈ a :: pre, w ≠ [] ∧ sep ∉ w := fun w hw => h w (by simp at hw ⊢; rcases hw with h1 | h1 <;> simp [h1])
    have hstep : join2 (joinSep [sep] (a :: pre)) b = joinSep [sep] (a :: (pre ++ [b])) := by
      unfold join2
      rw [isAbs_of_no_sep b hb.1 hb.2, endsWithSep_joinSep a pre hpre]
      have hne := joinSep_ne_nil [sep] a pre (hpre a (by simp)).1
      simp [hne]
      have := joinSep_snoc [sep] a pre b
      simp only [List.cons_append] at this
      rw [this]; simp
    simp only [joinMany, List.foldl_cons] at ih ⊢
    rw [hstep]
    have := ih (pre ++ [b]) (by simpa [List.append_assoc] using h)
    simpa [List.append_assoc] using this

/-! ### normpath on absolute paths -/

theorem normStep_proper (acc : List Str) (comp : Str) (hacc : ∀ w ∈ acc, Proper w) (hc : sep ∉ comp) :
    ∀ w ∈ normStep true acc comp, Proper w := by
  unfold normStep
  split
  · exact hacc
  · next h1 =>
    have hhead : acc.head? ≠ some dotdot := by
      cases acc with
      | nil => simp
      | cons x xs => simp; exact (hacc x (by simp)).2.2.1
    split
    · next h2 =>
      have hne : comp ≠ dotdot := by
        rcases h2 with h2 | h2 | h2
        · exact h2
        · simp at h2
        · exact absurd h2 hhead
      intro w hw
      simp at hw
      rcases hw with rfl | hw
      · simp at h1; exact ⟨h1.1, h1.2, hne, hc⟩
      · exact hacc w hw
    · split
      · intro w hw; exact hacc w (by simp [hw])
      · exact hacc

theorem foldl_normStep_proper (comps : List Str) (acc : List Str) (hacc : ∀ w ∈ acc, Proper w)
    (hc : ∀ w ∈ comps, sep ∉ w) : ∀ w ∈ comps.foldl (normStep true) acc, Proper w := by
  induction comps generalizing acc with
  | nil => simpa using hacc
  | cons c cs ih =>
    simp only [List.foldl_cons]
    exact ih _ (normStep_proper acc c hacc (hc c (by simp))) (fun w hw => hc w (by simp [hw]))

theorem normComps_proper (s : Str) : ∀ w ∈ normComps true (splitOn sep s), Proper w := by
  intro w hw
  unfold normComps at hw
  simp at hw
  exact foldl_normStep_proper _ [] (by simp) (splitOn_no_sep sep s) w hw

theorem foldl_normStep_of_proper (l acc : List Str) (hacc : ∀ w ∈ acc, Proper w) (h : ∀ w ∈ l, Proper w) :
    l.foldl (normStep true) acc = l.reverse ++ acc := by
  induction l generalizing acc with
  | nil => simp
  | cons c cs ih =>
    have hc := h c (by simp)
    have : normStep true acc c = c :: acc := by
      unfold normStep
      have h1 : ¬ (c = [] ∨ c = dot) := by intro h; rcases h with h | h; exact hc.1 h; exact hc.2.1 h
      simp [h1, hc.2.2.1]
    simp only [List.foldl_cons, this]
    rw [ih (c :: acc) (by intro w hw; simp at hw; rcases hw with rfl | hw; exact hc; exact hacc w hw)
      (fun w hw => h w (by simp [hw]))]
    simp

theorem foldl_normStep_empties (n : Nat) (l acc : List Str) :
    (List.replicate n [] ++ l).foldl (normStep true) acc = l.foldl (normStep true) acc := by
  induction n with
  | zero => simp
  | succ n ih => simp [List.replicate_succ, normStep, ih]

theorem initialSlashes_abs (q : Str) (h : isAbs q = true) : initialSlashes q = 1 ∨ initialSlashes q = 2 := by
  unfold initialSlashes
  split
  · simp
  · simp
  · simp
  · rename_i h3
    cases q with
    | nil => simp [isAbs] at h
    | cons c cs =>
      unfold isAbs at h
      split at h
      · rename_i t heq
        exact absurd heq (h3 t)
      · simp at h

/-- shape of `normpath` on an absolute path -/
theorem normpath_abs (q : Str) (h : isAbs q = true) :
    ∃ n, (n = 1 ∨ n = 2) ∧
      normpath q = List.replicate n sep ++ joinSep [sep] (normComps true (splitOn sep q)) := by
  have hq : q ≠ [] := by intro e; subst e; simp [isAbs] at h
  refine ⟨initialSlashes q, initialSlashes_abs q h, ?_⟩
  unfold normpath
  simp only [hq, if_false]
  have hn := initialSlashes_abs q h
  have hne : (initialSlashes q != 0) = true := by rcases hn with e | e <;> simp [e]
  simp only [hne]
  have : List.replicate (initialSlashes q) sep ++ joinSep [sep] (normComps true (splitOn sep q)) ≠ [] := by
    rcases hn with e | e <;> simp [e, List.replicate_succ]
  simp [this]

theorem isAbs_replicate (n : Nat) (hn : n = 1 ∨ n = 2) (rest : Str) : isAbs (List.replicate n sep ++ rest) = true := by
  rcases hn with e | e <;> subst e <;> simp [List.replicate_succ, isAbs, sep]

theorem isAbs_normpath (q : Str) (h : isAbs q = true) : isAbs (normpath q) = true := by
  obtain ⟨n, hn, e⟩ := normpath_abs q h
  rw [e]; exact isAbs_replicate n hn _

/-- the non-empty components of a normalised absolute path are exactly the normalised component list -/
theorem nonEmptyComps_normpath (q : Str) (h : isAbs q = true) :
    nonEmptyComps (normpath q) = normComps true (splitOn sep q) := by
  obtain ⟨n, _, e⟩ := normpath_abs q h
  have hp := normComps_proper q
  generalize normComps true (splitOn sep q) = L at *
  rw [e]
  unfold nonEmptyComps
  rw [splitOn_replicate_sep]
  cases hL : L with
  | nil => simp [joinSep, splitOn]
  | cons a r =>
    rw [splitOn_joinSep sep (a :: r) (by simp) (fun w hw => (hp w (hL ▸ hw)).2.2.2)]
    rw [List.filter_append]
    have h1 : (List.replicate n ([] : Str)).filter (fun x => decide (x ≠ [])) = [] := by
      simp
    rw [h1]
    simp only [List.nil_append]
    rw [List.filter_eq_self]
    intro w hw
    simpa using (hp w (hL ▸ hw)).1

theorem normComps_normpath (q : Str) (h : isAbs q = true) :
    normComps true (splitOn sep (normpath q)) = normComps true (splitOn sep q) := by
  obtain ⟨n, _, e⟩ := normpath_abs q h
  have hp := normComps_proper q
  generalize normComps true (splitOn sep q) = L at *
  rw [e, splitOn_replicate_sep]
  unfold normComps
  rw [foldl_normStep_empties]
  cases hL : L with
  | nil => simp [joinSep, splitOn, normStep]
  | cons a r =>
    rw [splitOn_joinSep sep (a :: r) (by simp) (fun w hw => (hp w (hL ▸ hw)).2.2.2)]
    rw [foldl_normStep_of_proper (a :: r) [] (by simp) (fun w hw => hp w (hL ▸ hw))]
    simp

/-! ### abspath -/

theorem isAbs_join2 (cwd p : Str) (hcwd : isAbs cwd = true) : isAbs (join2 cwd p) = true := by
  unfold join2
  split
  · assumption
  · cases cwd with
    | nil => simp [isAbs] at hcwd
    | cons c cs =>
      have hc : c = '/' := by
        unfold isAbs at hcwd; split at hcwd
        · next heq => simp at heq; exact heq.1
        · simp at hcwd
      subst hc
      split <;> simp [isAbs]

/-- the absolute string `abspath` normalises -/
def absInput (cwd p : Str) : Str := if isAbs p then p else join2 cwd p

theorem abspath_eq (cwd p : Str) : abspath cwd p = normpath (absInput cwd p) := by
  unfold abspath absInput; split <;> rfl

theorem isAbs_absInput (cwd p : Str) (hcwd : isAbs cwd = true) : isAbs (absInput cwd p) = true := by
  unfold absInput; split
  · assumption
  · exact isAbs_join2 cwd p hcwd

theorem isAbs_abspath (cwd p : Str) (hcwd : isAbs cwd = true) : isAbs (abspath cwd p) = true := by
  rw [abspath_eq]; exact isAbs_normpath _ (isAbs_absInput cwd p hcwd)

theorem abspath_ne_nil (cwd p : Str) (hcwd : isAbs cwd = true) : abspath cwd p ≠ [] := by
  intro e; have := isAbs_abspath cwd p hcwd; rw [e] at this; simp [isAbs] at this

theorem absComps_eq (cwd p : Str) (hcwd : isAbs cwd = true) :
    absComps cwd p = normComps true (splitOn sep (absInput cwd p)) := by
  unfold absComps; rw [abspath_eq]; exact nonEmptyComps_normpath _ (isAbs_absInput cwd p hcwd)

theorem absComps_proper (cwd p : Str) (hcwd : isAbs cwd = true) : ∀ w ∈ absComps cwd p, Proper w := by
  rw [absComps_eq cwd p hcwd]; exact normComps_proper _

/-- `relpath` re-normalises its (already absolute, already normal) arguments: nothing changes -/
theorem absComps_abspath (cwd p : Str) (hcwd : isAbs cwd = true) :
    absComps cwd (abspath cwd p) = absComps cwd p := by
  have habs := isAbs_abspath cwd p hcwd
  rw [absComps_eq cwd (abspath cwd p) hcwd, absComps_eq cwd p hcwd]
  have : absInput cwd (abspath cwd p) = abspath cwd p := by unfold absInput; simp [habs]
  rw [this, abspath_eq]
  exact normComps_normpath _ (isAbs_absInput cwd p hcwd)

/-! ### commonprefix -/

theorem commonLen_le (a b : List Str) : commonLen a b ≤ a.length := by
  induction a generalizing b with
  | nil => simp [commonLen]
  | cons x xs ih =>
    cases b with
    | nil => simp [commonLen]
    | cons y ys =>
      simp only [commonLen]; split
      · have := ih ys; simp; omega
      · simp

theorem commonLen_eq_iff_prefix (root p : List Str) : commonLen root p = root.length ↔ root <+: p := by
  induction root generalizing p with
  | nil => simp [commonLen]
  | cons x xs ih =>
    cases p with
    | nil => simp [commonLen]
    | cons y ys =>
      simp only [commonLen]
      split
      · next h => subst h; simp [ih]
      · next h => simp [h]

/-! ### the three-way escape test -/

theorem startsWith_iff (p s : Str) : startsWith p s = true ↔ p <+: s := by
  induction p generalizing s with
  | nil => simp [startsWith]
  | cons a as ih =>
    cases s with
    | nil => simp [startsWith]
    | cons b bs => simp [startsWith, ih, List.cons_prefix_cons]

/-- For a relative path built by joining slash-free non-empty components, the code's test
(`== '..'`, `startswith('../')`, `isabs`) fires exactly when the first component is `..`. -/
theorem escapes_joinSep (a : Str) (rest : List Str) (h : ∀ w ∈ a :: rest, w ≠ [] ∧ sep ∉ w) :
    escapes (joinSep [sep] (a :: rest)) = true ↔ a = dotdot := by
  have ha := h a (by simp)
  have hshape : ∃ tail, joinSep [sep] (a :: rest) = a ++ tail ∧ (tail = [] ∨ ∃ t, tail = sep :: t) := by
    cases rest with
    | nil => exact ⟨[], by simp [joinSep], Or.inl rfl⟩
    | cons b r => exact ⟨[sep] ++ joinSep [sep] (b :: r), by simp [joinSep], Or.inr ⟨_, rfl⟩⟩
  obtain ⟨tail, e, ht⟩ := hshape
  rw [e]
  have habs : isAbs (a ++ tail) = false := by
    cases a with
    | nil => exact absurd rfl ha.1
    | cons c cs =>
      have : c ≠ '/' := by have := ha.2; simp [sep] at this; exact fun e => this.1 e.symm
      unfold isAbs; split
      · next heq => simp at heq; exact absurd heq.1 this
      · rfl
  unfold escapes
  rw [habs, Bool.or_false]
  constructor
  · intro hh
    rw [Bool.or_eq_true] at hh
    rcases hh with hh | hh
    · have hh : a ++ tail = dotdot := by simpa using hh
      rcases ht with rfl | ⟨t, rfl⟩
      · simpa using hh
      · have : sep ∈ dotdot := by rw [← hh]; simp
        simp [dotdot, sep] at this
    · rw [startsWith_iff] at hh
      obtain ⟨u, hu⟩ := hh
      -- dotdot ++ [sep] ++ u = a ++ tail, with sep ∉ a and tail = [] or sep :: _
      match a, ha, hu with
      | [], ha, _ => exact absurd rfl ha.1
      | [c], ha, hu =>
        simp [dotdot] at hu
        rcases ht with rfl | ⟨t, rfl⟩
        · simp at hu
        · simp [sep] at hu
      | [c, d], ha, hu =>
        simp [dotdot] at hu
        rw [← hu.1, ← hu.2.1]; rfl
      | c :: d :: e :: f, ha, hu =>
        simp [dotdot] at hu
        have := ha.2
        simp [sep] at this
        exact (this.2.2.1 (by simpa [sep] using hu.2.2.1)).elim
  · intro ea
    subst ea
    rcases ht with rfl | ⟨t, rfl⟩
    · simp
    · simp [startsWith, dotdot]

end StoneVerif.Path

namespace StoneVerif.Path

/-- the relative path the code returns when the request is accepted -/
def relOf (rootComps pathComps : List Str) : Str :=
  match pathComps.drop rootComps.length with
  | [] => dot
  | a :: r => joinSep [sep] (a :: r)

/-- Complete characterisation of `_relative_output_path` in terms of normalised component lists. -/
theorem relativeOutputPath_spec (cwd root p : Str) (hcwd : isAbs cwd = true) :
    relativeOutputPath cwd root p =
      if absComps cwd root <+: absComps cwd p then .ok (relOf (absComps cwd root) (absComps cwd p))
      else .error () := by
  have hR := absComps_abspath cwd root hcwd
  have hP := absComps_abspath cwd p hcwd
  have hRp := absComps_proper cwd root hcwd
  have hPp := absComps_proper cwd p hcwd
  unfold relativeOutputPath relpath
  simp only [abspath_ne_nil cwd p hcwd, if_false]
  unfold absComps at hR hP
  rw [hR, hP]
  change
    (match (match List.replicate ((absComps cwd root).length - commonLen (absComps cwd root) (absComps cwd p)) dotdot
              ++ List.drop (commonLen (absComps cwd root) (absComps cwd p)) (absComps cwd p) with
            | [] => some dot
            | a :: rest => some (joinMany a rest)) with
     | none => Except.error ()
     | some rel => if escapes rel = true then Except.error () else Except.ok rel) = _
  generalize absComps cwd root = R at *
  generalize absComps cwd p = P at *
  have hle := commonLen_le R P
  by_cases hpre : R <+: P
  · have hi := (commonLen_eq_iff_prefix R P).2 hpre
    simp only [hpre, if_true, hi, Nat.sub_self, List.replicate_zero, List.nil_append, relOf]
    cases hd : List.drop R.length P with
    | nil => simp [escapes, dot, dotdot, startsWith, isAbs, sep]
    | cons a rest =>
      have hmem : ∀ w ∈ a :: rest, Proper w := fun w hw => hPp w (List.mem_of_mem_drop (hd ▸ hw))
      have hj := joinMany_eq_joinSep a [] rest (fun w hw => by
        have := hmem w (by simpa using hw); exact ⟨this.1, this.2.2.2⟩)
      simp only [joinSep, List.append_nil, List.cons_append, List.nil_append] at hj
      simp only [hj]
      have hesc := escapes_joinSep a rest (fun w hw => by have := hmem w hw; exact ⟨this.1, this.2.2.2⟩)
      have : escapes (joinSep [sep] (a :: rest)) = false := by
        cases he : escapes (joinSep [sep] (a :: rest)) with
        | false => rfl
        | true => exact absurd (hesc.1 he) (hmem a (by simp)).2.2.1
      simp [this]
  · have hi : commonLen R P ≠ R.length := fun e => hpre ((commonLen_eq_iff_prefix R P).1 e)
    simp only [hpre, if_false]
    obtain ⟨k, hk⟩ : ∃ k, R.length - commonLen R P = k + 1 := ⟨R.length - commonLen R P - 1, by omega⟩
    rw [hk, List.replicate_succ]
    simp only [List.cons_append]
    have hall : ∀ w ∈ dotdot :: (List.replicate k dotdot ++ List.drop (commonLen R P) P), w ≠ [] ∧ sep ∉ w := by
      intro w hw
      simp at hw
      rcases hw with rfl | ⟨_, rfl⟩ | hw
      · simp [dotdot, sep]
      · simp [dotdot, sep]
      · have := hPp w (List.mem_of_mem_drop hw); exact ⟨this.1, this.2.2.2⟩
    have hj := joinMany_eq_joinSep dotdot [] (List.replicate k dotdot ++ List.drop (commonLen R P) P) hall
    simp only [joinSep, List.cons_append, List.nil_append] at hj
    simp only [hj]
    have hesc := (escapes_joinSep dotdot _ hall).2 rfl
    simp [hesc]

end StoneVerif.Path
