import StoneVerif.Lemmas.IrCheckExamples
import StoneVerif.Lemmas.IrCheckExamplesU
import StoneVerif.Props.C05
/-! C10: the example round trips through the real entry points `json_compat_obj_decode` / `json_compat_obj_encode`
(C05's `jsonCompatObjEncode_eq_wire` turns the documented wire form into the encoder's output), and the class
tables of `envOfC`. -/
set_option linter.unusedSimpArgs false
set_option linter.unusedVariables false
namespace StoneVerif.IrCheck
open StoneVerif.Rt

/-! ### the environment python_types generates -/

theorem find_of_mem_nodup {α : Type} (nm : α → String) {l : List α} (hnd : (l.map nm).Nodup) {a : α} (h : a ∈ l) :
    l.find? (fun x => nm x == nm a) = some a := by
  induction l with
  | nil => cases h
  | cons b bs ih =>
    simp only [List.map_cons, List.nodup_cons] at hnd
    rcases List.mem_cons.mp h with rfl | hm
    · simp
    · have hne : ¬ nm b = nm a := fun he => hnd.1 (he ▸ List.mem_map_of_mem hm)
      simp [List.find?_cons, hne, ih hnd.2 hm]

theorem envOfC_inv {api : CApi} {env : Env} (h : envOfC api = some env) :
    ∃ structs unions, api.structs.mapM (structDefOfC api.unions) = some structs ∧
      api.unions.mapM unionDefOfC = some unions ∧ env = { structs := structs, unions := unions } := by
  simp only [envOfC, Option.bind_eq_bind, Option.bind_eq_some_iff, Option.pure_def, Option.some.injEq] at h
  obtain ⟨structs, hs, unions, hu, he⟩ := h
  exact ⟨structs, unions, hs, hu, he.symm⟩

/-- in the environment generated for an API whose struct classes are distinct, the class of a struct of the API
holds the table `structDefOfC` generates for it (the hypotheses `hsd`, `henv` of `example_roundtrip_partial`) -/
theorem envOfC_struct {api : CApi} {env : Env} (h : envOfC api = some env) (hnd : (api.structs.map (·.cls)).Nodup)
    {cs : CStruct} (hcs : cs ∈ api.structs) :
    ∃ sd, structDefOfC api.unions cs = some sd ∧ env.struct? cs.cls = some sd := by
  obtain ⟨structs, unions, hs, _, rfl⟩ := envOfC_inv h
  obtain ⟨hnames, _, hleft⟩ := mapM_some_spec (g := structDefOfC api.unions) (·.cls) (·.cls)
    (fun a b hab => by obtain ⟨_, _, rfl⟩ := structDefOfC_inv hab; rfl) hs
  obtain ⟨sd, hsd, hg⟩ := hleft cs hcs
  refine ⟨sd, hg, ?_⟩
  have hc : sd.cls = cs.cls := by obtain ⟨_, _, rfl⟩ := structDefOfC_inv hg; rfl
  unfold Env.struct?
  rw [← hc]
  exact find_of_mem_nodup (·.cls) (hnames ▸ hnd) hsd

theorem envOfC_union {api : CApi} {env : Env} (h : envOfC api = some env) (hnd : (api.unions.map (·.cls)).Nodup)
    {cu : CUnion} (hcu : cu ∈ api.unions) :
    ∃ ud, unionDefOfC cu = some ud ∧ env.union? cu.cls = some ud := by
  obtain ⟨structs, unions, _, hu, rfl⟩ := envOfC_inv h
  obtain ⟨hnames, _, hleft⟩ := mapM_some_spec (g := unionDefOfC) (·.cls) (·.cls)
    (fun a b hab => by obtain ⟨_, _, rfl⟩ := unionDefOfC_inv hab; rfl) hu
  obtain ⟨ud, hud, hg⟩ := hleft cu hcu
  refine ⟨ud, hg, ?_⟩
  have hc : ud.cls = cu.cls := by obtain ⟨_, _, rfl⟩ := unionDefOfC_inv hg; rfl
  unfold Env.union?
  rw [← hc]
  exact find_of_mem_nodup (·.cls) (hnames ▸ hnd) hud

/-! ### through the encoder -/

theorem mem_of_getLast? {α : Type} {l : List α} {a : α} (h : l.getLast? = some a) : a ∈ l := by
  obtain ⟨ys, rfl⟩ := List.getLast?_eq_some_iff.mp h
  simp

/-- a well-formed environment registers each struct under a chain that ends in the struct itself -/
theorem envWF_struct_self {env : Env} (hwf : envWF env = true) {c : String} {sd : StructDef} (h : env.struct? c = some sd) :
    c ∈ sd.levels.map (·.cls) := by
  have hmem : sd ∈ env.structs := List.mem_of_find?_eq_some h
  have hc : sd.cls = c := by simpa using List.find?_some h
  simp only [envWF, Bool.and_eq_true, List.all_eq_true] at hwf
  have hsd := hwf.1.2 sd hmem
  simp only [StructDef.wf, Bool.and_eq_true] at hsd
  have h1 := hsd.1.1.1.1.1
  cases hl : sd.levels.getLast? with
  | none => simp [hl] at h1
  | some l =>
    simp [hl] at h1
    exact List.mem_map.mpr ⟨l, mem_of_getLast? hl, by rw [h1, hc]⟩

theorem envWF_union_self {env : Env} (hwf : envWF env = true) {c : String} {ud : UnionDef} (h : env.union? c = some ud) :
    c ∈ ud.levels.map (·.cls) := by
  have hmem : ud ∈ env.unions := List.mem_of_find?_eq_some h
  have hc : ud.cls = c := by simpa using List.find?_some h
  simp only [envWF, Bool.and_eq_true, List.all_eq_true] at hwf
  have hud := hwf.2 ud hmem
  simp only [UnionDef.wf, Bool.and_eq_true] at hud
  have h1 := hud.1.1.1.1
  cases hl : ud.levels.getLast? with
  | none => simp [hl] at h1
  | some l =>
    simp [hl] at h1
    exact List.mem_map.mpr ⟨l, mem_of_getLast? hl, by rw [h1, hc]⟩

/-- `example_roundtrip_partial` through the real entry points: in a well-formed environment (`envWF`, `envWFX`:
what C01/C02 guarantee and the driver evaluates on every environment) `json_compat_obj_decode` (strict) accepts
the example document and `json_compat_obj_encode` of the result gives back the members of the document. -/
theorem example_roundtrip_encode_partial (E : Ext) (C : CExt) (us : List CUnion) (env : Env) (cs : CStruct) (sd : StructDef)
    (ex : List (String × ExVal))
    (hwf : envWF env = true) (hchain : envWFX env = true) (hsub : cs.subtypes = none)
    (hsd : structDefOfC us cs = some sd) (henv : env.struct? cs.cls = some sd)
    (hscalar : ∀ f ∈ cs.allFields, scalarTy f.ty = true)
    (hpub : ∀ f ∈ cs.allFields, f.omitted = none)
    (hnd : (cs.allFields.map (·.name)).Nodup)
    (hdef : ∀ f ∈ cs.allFields, ∀ d, f.dflt = some d → ∃ lit, fieldDefault E C us f.ty lit = .ok d)
    (hexact : ∀ f ∈ cs.allFields, (∀ l, exLookup f.name ex = some (.lit l) → exactKind f.ty l = true) ∧
      (∀ d, exLookup f.name ex = none → f.dflt = some d → exactKind f.ty d = true))
    (hadd : addStructExample E C us cs ex = .ok ()) :
    ∃ kvs v kvs', structExampleDoc cs ex = some (.obj kvs) ∧
      jsonCompatObjDecode E env [] true (.struct {} cs.cls) (.obj kvs) = .ok v ∧
      jsonCompatObjEncode E env [] false (.struct {} cs.cls) v = .ok (.obj kvs') ∧ kvs'.Perm kvs := by
  obtain ⟨kvs, slots, h1, _, h3, ⟨kvs', h4, h5⟩, h6, h7⟩ :=
    example_roundtrip_partial E C us env cs sd ex hsd henv hscalar hpub hnd hdef hexact hadd
  obtain ⟨levels, hlv, hsdeq⟩ := structDefOfC_inv hsd
  obtain ⟨_, hcls⟩ := chain_mapM_flat hlv
  have hself : cs.cls ∈ cs.chain.map (·.1) := by
    have := envWF_struct_self hwf henv
    rw [hsdeq] at this
    simpa [hcls] using this
  have htwf : tyWF env (.struct {} cs.cls) = true := by
    simp [tyWF, henv, hsdeq, hsub]
  refine ⟨kvs, _, kvs', h1, h3, ?_, h5⟩
  rw [StoneVerif.C05.jsonCompatObjEncode_eq_wire E env hwf hchain _ _ htwf (h7 hself) h6, h4]

/-- `example_union_roundtrip_partial` through the real entry points. -/
theorem example_union_roundtrip_encode_partial (E : Ext) (C : CExt) (us : List CUnion) (env : Env) (cu : CUnion) (ud : UnionDef)
    (tag : String) (v : ExVal) (t : CTag)
    (hwf : envWF env = true) (hchain : envWFX env = true)
    (hud : unionDefOfC cu = some ud) (henv : env.union? cu.cls = some ud)
    (hpub : ∀ t ∈ cu.allTags, t.omitted = none) (hnd : (cu.allTags.map (·.name)).Nodup)
    (ht : cu.allTags.find? (·.name == tag) = some t)
    (hty : t.ty = .void ∨ scalarTy t.ty = true)
    (hca : some tag ≠ cu.catchAll) (htne : tag ≠ ".tag")
    (hexact : scalarTy t.ty = true → ∀ l, v = .lit l → exactKind t.ty l = true)
    (hadd : addUnionExample E C us cu [(tag, v)] = .ok ()) :
    ∃ doc u, unionExampleDoc cu [(tag, v)] = some doc ∧
      jsonCompatObjDecode E env [] true (.union {} cu.cls) doc = .ok u ∧
      jsonCompatObjEncode E env [] false (.union {} cu.cls) u = .ok doc := by
  obtain ⟨kvs, payload, h1, _, h3, h4, h5, h6⟩ :=
    example_union_roundtrip_partial E C us env cu ud tag v t hud henv hpub hnd ht hty hca htne hexact hadd
  obtain ⟨levels, hlv, hudeq⟩ := unionDefOfC_inv hud
  obtain ⟨_, hcls⟩ := uchain_mapM_flat hlv
  have hself : cu.cls ∈ cu.chain.map (·.1) := by
    have := envWF_union_self hwf henv
    rw [hudeq] at this
    simpa [hcls] using this
  have htwf : tyWF env (.union {} cu.cls) = true := by simp [tyWF, henv]
  refine ⟨_, _, h1, h3, ?_⟩
  rw [StoneVerif.C05.jsonCompatObjEncode_eq_wire E env hwf hchain _ _ htwf (h6 hself) h5, h4]

/-! ### non-vacuity: the generated environment of an API with the struct, its parent and the union -/

def rtBase : CStruct :=
  { cls := "ns.Base", chain := [("ns.Base", [{ name := "id", ty := .int "Int64" none none },
                                             { name := "note", ty := .nullable (.str none none none) }])] }

def rtColor : CUnion :=
  { cls := "ns.Color",
    chain := [("ns.Color", [{ name := "red", ty := .void }, { name := "green", ty := .int "Int32" none none },
                            { name := "name", ty := .nullable (.str none none none) }, { name := "other", ty := .void }])],
    catchAll := some "other" }

def rtApi : CApi := { structs := [rtBase, rtItem], unions := [rtColor, rtTint] }

def rtApiEnv : Env := (envOfC rtApi).getD { structs := [], unions := [] }

theorem rtApiEnv_wf : (envOfC rtApi).isSome = true ∧ envWF rtApiEnv = true ∧ envWFX rtApiEnv = true := by
  decide +kernel

theorem rtApiEnv_eq : envOfC rtApi = some rtApiEnv := by
  unfold rtApiEnv
  cases h : envOfC rtApi with
  | none => have := rtApiEnv_wf.1; simp [h] at this
  | some e => rfl

example : ∃ kvs v kvs', structExampleDoc rtItem rtEx = some (.obj kvs) ∧
    jsonCompatObjDecode rtE rtApiEnv [] true (.struct {} rtItem.cls) (.obj kvs) = .ok v ∧
    jsonCompatObjEncode rtE rtApiEnv [] false (.struct {} rtItem.cls) v = .ok (.obj kvs') ∧ kvs'.Perm kvs := by
  obtain ⟨sd, hsd, henv⟩ := envOfC_struct rtApiEnv_eq (by decide) (cs := rtItem) (by simp [rtApi])
  have hf : (rtItem.allFields.all fun f => scalarTy f.ty && f.omitted.isNone && dfltOK rtE rtC rtApi.unions f && exactOK rtEx f) = true := rfl
  rw [List.all_eq_true] at hf
  have hf' : ∀ f ∈ rtItem.allFields, scalarTy f.ty = true ∧ f.omitted = none ∧ dfltOK rtE rtC rtApi.unions f = true ∧ exactOK rtEx f = true := by
    intro f h
    have := hf f h
    simp only [Bool.and_eq_true, Option.isNone_iff_eq_none] at this
    exact ⟨this.1.1.1, this.1.1.2, this.1.2, this.2⟩
  exact example_roundtrip_encode_partial rtE rtC rtApi.unions rtApiEnv rtItem sd rtEx rtApiEnv_wf.2.1 rtApiEnv_wf.2.2 rfl
    hsd henv (fun f h => (hf' f h).1) (fun f h => (hf' f h).2.1) (by decide)
    (fun f h => hdef_of_dfltOK (hf' f h).2.2.1) (fun f h => hexact_of_exactOK (hf' f h).2.2.2) rfl

example : ∃ doc u, unionExampleDoc rtTint [("pale", .lit (.flt 4609434218613702656))] = some doc ∧
    jsonCompatObjDecode rtE rtApiEnv [] true (.union {} rtTint.cls) doc = .ok u ∧
    jsonCompatObjEncode rtE rtApiEnv [] false (.union {} rtTint.cls) u = .ok doc := by
  obtain ⟨ud, hud, henv⟩ := envOfC_union rtApiEnv_eq (by decide) (cu := rtTint) (by simp [rtApi])
  exact example_union_roundtrip_encode_partial rtE rtC [] rtApiEnv rtTint ud "pale" _
    { name := "pale", ty := .float "Float64" none none } rtApiEnv_wf.2.1 rtApiEnv_wf.2.2 hud henv
    (by decide) (by decide) rfl (Or.inr rfl) (by decide) (by decide) (by intro _ l h; cases h; rfl) rfl

end StoneVerif.IrCheck
