import StoneVerif.Model.DeclPy
/-!
Lemmas about the declaration-level model of the python_types generator (C09): which module-level names each
section binds, the class statements, attribute lookup along the bases.
-/
namespace StoneVerif.DeclPy

/-! ### module-level names bound by the sections -/

theorem globals_cls (n : Name) (b : Option Ref) (body : List Name) (c : Option (List Name)) :
    (Stmt.cls n b body c).globals = [n] := by
  simp [Stmt.globals, Stmt.defines]

@[simp] theorem globals_imp (m : Name) : (Stmt.imp m).globals = [m] := by simp [Stmt.globals, Stmt.defines]
@[simp] theorem globals_assign_none (t : Name) (c : Option Ref) (u : List Ref) :
    (Stmt.assign t none c u).globals = [t] := by simp [Stmt.globals, Stmt.defines]
@[simp] theorem globals_assign_some (t a : Name) (c : Option Ref) (u : List Ref) :
    (Stmt.assign t (some a) c u).globals = [] := by simp [Stmt.globals, Stmt.defines]
@[simp] theorem globals_expr (u : List Ref) : (Stmt.expr u).globals = [] := by simp [Stmt.globals, Stmt.defines]

/-- attribute assignments and expression statements bind no module-level name -/
def noGlobal : Stmt → Bool
  | .assign _ (some _) _ _ => true
  | .expr _ => true
  | _ => false

theorem noGlobal_globals {s : Stmt} (h : noGlobal s = true) : s.globals = [] := by
  cases s with
  | imp m => simp [noGlobal] at h
  | cls n b body c => simp [noGlobal] at h
  | assign t a c u => cases a <;> simp [noGlobal] at h ⊢
  | expr u => simp

theorem flatMap_globals_of_noGlobal {l : List Stmt} (h : l.all noGlobal = true) :
    l.flatMap Stmt.globals = [] := by
  induction l with
  | nil => rfl
  | cons s t ih =>
    simp only [List.all_cons, Bool.and_eq_true] at h
    simp [List.flatMap_cons, noGlobal_globals h.1, ih h.2]

theorem all_ite {α} (c : Prop) [Decidable c] (a b : List α) (p : α → Bool) :
    (if c then a else b).all p = if c then a.all p else b.all p := by split <;> rfl

theorem structRefl_noGlobal (api : Api) (cur : Name) (d : DataType) :
    (structReflStmts api cur d).all noGlobal = true := by
  simp only [structReflStmts]
  simp [List.all_append, List.all_flatMap, all_ite, noGlobal, List.all_cons]

theorem unionRefl_noGlobal (api : Api) (cur : Name) (d : DataType) :
    (unionReflStmts api cur d).all noGlobal = true := by
  simp only [unionReflStmts]
  simp [List.all_append, List.all_flatMap, all_ite, noGlobal, List.all_cons]
  intro oc _
  cases baseRef cur d <;> simp [noGlobal]

theorem defaults_noGlobal (cur : Name) (d : DataType) :
    (defaultStmts cur d).all noGlobal = true := by
  simp only [defaultStmts, List.all_filterMap]
  simp
  intro f _
  cases f.dflt with
  | none => simp
  | some v => cases v <;> simp [noGlobal]

theorem globals_importStmts (ns : Namespace) :
    (importStmts ns).flatMap Stmt.globals = ns.imports.map fmtNamespace := by
  simp [importStmts, List.flatMap_map]
  induction ns.imports <;> simp_all [List.flatMap_cons]

theorem globals_annStmts (ns : Namespace) :
    (annStmts ns).flatMap Stmt.globals = ns.annTypes.map (fmtClass ·.name) := by
  simp only [annStmts]
  induction ns.annTypes <;> simp_all [List.flatMap_cons, annTypeStmts, globals_cls]

theorem globals_classStmts (api : Api) (ns : Namespace) :
    (classStmts api ns).flatMap Stmt.globals
      = ns.types.flatMap (fun d => [fmtClass d.name, fmtClass d.name ++ "_validator"]) := by
  simp only [classStmts]
  induction ns.types with
  | nil => rfl
  | cons d t ih =>
    simp only [List.flatMap_cons, List.flatMap_append, ih]
    congr 1
    split <;> simp [structClassStmts, unionClassStmts, globals_cls]

theorem aliasEndsInUser_shape {api : Api} {n : Nat} {t : Ty} (h : aliasEndsInUser api n t = true) :
    (∃ ns nm, t = .user ns nm) ∨ (∃ ns nm, t = .alias ns nm) := by
  cases t <;> simp_all [aliasEndsInUser]
  all_goals (cases n <;> simp_all [aliasEndsInUser])

theorem globals_aliasSection (api : Api) (ns : Namespace) :
    (aliasSection api ns).flatMap Stmt.globals
      = ns.aliases.flatMap (fun a => (fmtClass a.name ++ "_validator") ::
          (if aliasEndsInUser api api.nAliases a.ty then [fmtClass a.name] else [])) := by
  simp only [aliasSection]
  induction ns.aliases with
  | nil => rfl
  | cons a t ih =>
    simp only [List.flatMap_cons, List.flatMap_append, ih]
    congr 1
    simp only [aliasStmts, List.flatMap_append, List.flatMap_cons, List.flatMap_nil, globals_assign_none]
    by_cases hr : a.redact <;> by_cases he : aliasEndsInUser api api.nAliases a.ty = true
    all_goals simp [hr, he]
    all_goals (rcases aliasEndsInUser_shape he with ⟨x, y, hxy⟩ | ⟨x, y, hxy⟩ <;> simp [hxy])

theorem globals_reflStmts (api : Api) (ns : Namespace) : (reflStmts api ns).flatMap Stmt.globals = [] := by
  apply flatMap_globals_of_noGlobal
  simp only [reflStmts, List.all_flatMap]
  rw [List.all_eq_true]
  intro d _
  split
  · exact structRefl_noGlobal api ns.name d
  · exact unionRefl_noGlobal api ns.name d

theorem globals_defaultSection (ns : Namespace) : (defaultSection ns).flatMap Stmt.globals = [] := by
  apply flatMap_globals_of_noGlobal
  simp only [defaultSection, List.all_flatMap]
  rw [List.all_eq_true]
  intro d _
  split
  · exact defaults_noGlobal ns.name d
  · rfl

theorem globals_routeStmts (cur : Name) (rs : List Route) :
    (routeStmts cur rs).flatMap Stmt.globals = rs.map (fun r => fmtFunc r.name false r.version) ++ ["ROUTES"] := by
  simp only [routeStmts, List.flatMap_append, List.flatMap_cons, List.flatMap_nil, globals_assign_none,
    List.append_nil]
  congr 1
  induction rs <;> simp_all [List.flatMap_cons]

/-- the module-level names bound by the generated module, in order, are exactly `bindNames` -/
theorem globals_pyTypesStmts (api : Api) (ns : Namespace) :
    (pyTypesStmts api ns).flatMap Stmt.globals = bindNames api ns := by
  simp only [pyTypesStmts, List.flatMap_append, globals_importStmts, globals_annStmts, globals_classStmts,
    globals_aliasSection, globals_reflStmts, globals_defaultSection, globals_routeStmts, bindNames,
    List.nil_append, List.append_assoc]

/-! ### class statements, attribute lookup along the bases, routes -/

theorem baseRef_eq_expectedBase (cur : Name) (d : DataType) : baseRef cur d = expectedBase cur d := by
  unfold baseRef expectedBase
  cases d.parent with
  | none => rfl
  | some p => obtain ⟨pns, pn⟩ := p; simp [qual]

theorem mem_pyTypes_of_mem_class {api : Api} {ns : Namespace} {s : Stmt} (h : s ∈ classStmts api ns) :
    s ∈ pyTypesStmts api ns := by
  simp only [pyTypesStmts, List.mem_append, h, true_or, or_true]

theorem mem_pyTypes_of_mem_routes {api : Api} {ns : Namespace} {s : Stmt} (h : s ∈ routeStmts ns.name ns.routes) :
    s ∈ pyTypesStmts api ns := by
  simp only [pyTypesStmts, List.mem_append, h, true_or, or_true]

theorem mem_pyTypes_of_mem_alias {api : Api} {ns : Namespace} {s : Stmt} (h : s ∈ aliasSection api ns) :
    s ∈ pyTypesStmts api ns := by
  simp only [pyTypesStmts, List.mem_append, h, true_or, or_true]

/-- the class statement of a declared type: base as promised, every own member's attributes in the body, the
constructor of a struct takes all fields -/
theorem class_stmt (api : Api) (ns : Namespace) (d : DataType) (hd : d ∈ ns.types) :
    ∃ body ctor, Stmt.cls (fmtClass d.name) (expectedBase ns.name d) body ctor ∈ pyTypesStmts api ns
      ∧ (∀ f ∈ d.fields, ∀ a ∈ memberAttrs d.isStruct f, a ∈ body)
      ∧ (d.isStruct = true → ctor = some (expectedCtor api d)) := by
  by_cases hs : d.isStruct = true
  · refine ⟨["__slots__", "_has_required_fields", "__init__"] ++ d.fields.map (fmtFunc ·.name true)
        ++ ["_process_custom_annotations"], some ((allFieldsStruct api d).map (fmtVar ·.name true)),
      mem_pyTypes_of_mem_class (List.mem_flatMap.mpr ⟨d, hd, ?_⟩), ?_, ?_⟩
    · simp only [hs, if_true, structClassStmts, baseRef_eq_expectedBase]
      exact List.mem_cons_self
    · intro f hf a ha
      simp only [memberAttrs, hs, if_true, List.mem_singleton] at ha
      subst ha
      simp only [List.mem_append, List.mem_map]
      exact Or.inl (Or.inr ⟨f, hf, rfl⟩)
    · intro _; rfl
  · refine ⟨(if d.catchAll || d.parent.isNone then ["_catch_all"] else [])
        ++ (d.fields.filter (·.ty.isVoid)).map (fmtVar ·.name)
        ++ (d.fields.filter (fun f => !f.ty.isVoid)).map (fmtFunc ·.name true)
        ++ d.fields.map (fun f => "is_" ++ fmtFunc f.name)
        ++ (d.fields.filter (fun f => !f.ty.isVoid)).map (fun f => "get_" ++ fmtFunc f.name)
        ++ ["_process_custom_annotations"], none,
      mem_pyTypes_of_mem_class (List.mem_flatMap.mpr ⟨d, hd, ?_⟩), ?_, ?_⟩
    · simp only [hs, unionClassStmts, baseRef_eq_expectedBase]
      exact List.mem_cons_self
    · intro f hf a ha
      simp only [memberAttrs, hs] at ha
      by_cases hv : f.ty.isVoid = true
      · simp [hv] at ha
        simp only [List.mem_append, List.mem_map, List.mem_filter]
        rcases ha with rfl | rfl
        · exact Or.inl (Or.inl (Or.inr ⟨f, hf, rfl⟩))
        · exact Or.inl (Or.inl (Or.inl (Or.inl (Or.inr ⟨f, ⟨hf, hv⟩, rfl⟩))))
      · simp [hv] at ha
        have hv' : (!f.ty.isVoid) = true := by simpa using hv
        simp only [List.mem_append, List.mem_map, List.mem_filter]
        rcases ha with rfl | rfl | rfl
        · exact Or.inl (Or.inl (Or.inr ⟨f, hf, rfl⟩))
        · exact Or.inl (Or.inr ⟨f, ⟨hf, hv'⟩, rfl⟩)
        · exact Or.inl (Or.inl (Or.inl (Or.inr ⟨f, ⟨hf, hv'⟩, rfl⟩)))
    · intro h; exact absurd h hs

theorem findType_mem {api : Api} {pns pn : Name} {p : DataType} (h : api.findType pns pn = some p) :
    ∃ ns' ∈ api.namespaces, ns'.name = pns ∧ p ∈ ns'.types := by
  unfold Api.findType Api.findNs at h
  cases hn : api.namespaces.find? (fun x => x.name == pns) with
  | none => simp [hn] at h
  | some ns' =>
    simp only [hn] at h
    refine ⟨ns', List.mem_of_find?_eq_some hn, ?_, List.mem_of_find?_eq_some h⟩
    have := List.find?_some hn
    simpa using this

/-- every member of the chain (own and inherited, at any depth) is reachable by Python attribute lookup -/
theorem hasAttr_chain (api : Api) : ∀ (n : Nat) (ns : Namespace), ns ∈ api.namespaces → ∀ d ∈ ns.types,
    ∀ kf ∈ chainMembersK api n d, ∀ a ∈ memberAttrs kf.1 kf.2, HasAttr api ns.name d a := by
  intro n
  induction n with
  | zero =>
    intro ns hns d hd kf hkf a ha
    simp only [chainMembersK, List.mem_map] at hkf
    obtain ⟨f, hf, rfl⟩ := hkf
    obtain ⟨body, ctor, hmem, hbody, _⟩ := class_stmt api ns d hd
    exact HasAttr.own hns hd hmem (hbody f hf a ha)
  | succ n ih =>
    intro ns hns d hd kf hkf a ha
    obtain ⟨body, ctor, hmem, hbody, _⟩ := class_stmt api ns d hd
    simp only [chainMembersK, List.mem_append, List.mem_map] at hkf
    rcases hkf with hkf | ⟨f, hf, rfl⟩
    · cases hp : api.parentOf d with
      | none => simp [hp] at hkf
      | some p =>
        simp only [hp] at hkf
        unfold Api.parentOf at hp
        cases hpar : d.parent with
        | none => simp [hpar] at hp
        | some q =>
          obtain ⟨pns, pn⟩ := q
          simp only [hpar] at hp
          obtain ⟨ns', hns', hname, hp'⟩ := findType_mem hp
          have := ih ns' hns' p hp' kf hkf a ha
          rw [hname] at this
          exact HasAttr.inherited hns hd hpar hp hmem this
    · exact HasAttr.own hns hd hmem (hbody f hf a ha)

theorem chainMembersK_fields (api : Api) : ∀ (n : Nat) (d : DataType),
    (chainMembersK api n d).map (·.2) = chainFields api n d := by
  intro n
  induction n with
  | zero => intro d; simp [chainMembersK, chainFields, Function.comp_def]
  | succ n ih =>
    intro d
    simp only [chainMembersK, chainFields, List.map_append, List.map_map]
    congr 1
    · cases api.parentOf d with
      | none => rfl
      | some p => exact ih p
    · simp [Function.comp_def]

/-- every route version is bound to a route object under `fmt_func(name, version)` whose expression evaluates the
validators of its argument, result and error types, and `ROUTES` lists that object -/
theorem routes_listed (api : Api) (ns : Namespace) :
    (∃ uses, Stmt.assign "ROUTES" none none uses ∈ pyTypesStmts api ns
      ∧ ∀ r ∈ ns.routes, here (fmtFunc r.name false r.version) ∈ uses)
    ∧ ∀ r ∈ ns.routes, ∃ uses, Stmt.assign (fmtFunc r.name false r.version) none none uses ∈ pyTypesStmts api ns
        ∧ (∀ x ∈ tyRefs ns.name r.arg ++ tyRefs ns.name r.result ++ tyRefs ns.name r.error, x ∈ uses) := by
  constructor
  · refine ⟨_, mem_pyTypes_of_mem_routes (List.mem_append_right _ List.mem_cons_self), ?_⟩
    intro r hr
    exact List.mem_map.mpr ⟨r, hr, rfl⟩
  · intro r hr
    refine ⟨_, mem_pyTypes_of_mem_routes (List.mem_append_left _ (List.mem_map.mpr ⟨r, hr, rfl⟩)), ?_⟩
    intro x hx
    exact List.mem_append_left _ hx

/-- every alias has `<name>_validator` -/
theorem alias_validator (api : Api) (ns : Namespace) (a : Alias) (ha : a ∈ ns.aliases) :
    ∃ copy uses, Stmt.assign (fmtClass a.name ++ "_validator") none copy uses ∈ pyTypesStmts api ns := by
  have h : ∃ copy, Stmt.assign (fmtClass a.name ++ "_validator") none copy (tyRefs ns.name a.ty) ∈ aliasStmts api ns.name a := by
    simp [aliasStmts]
  obtain ⟨copy, h⟩ := h
  exact ⟨copy, _, mem_pyTypes_of_mem_alias (List.mem_flatMap.mpr ⟨a, ha, h⟩)⟩

/-- every struct and union has `<Name>_validator`, built from its class -/
theorem type_validator (api : Api) (ns : Namespace) (d : DataType) (hd : d ∈ ns.types) :
    Stmt.assign (fmtClass d.name ++ "_validator") none none [here (fmtClass d.name)] ∈ pyTypesStmts api ns := by
  refine mem_pyTypes_of_mem_class (List.mem_flatMap.mpr ⟨d, hd, ?_⟩)
  split <;> simp [structClassStmts, unionClassStmts]

end StoneVerif.DeclPy
