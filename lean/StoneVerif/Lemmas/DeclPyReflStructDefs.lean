import StoneVerif.Lemmas.DeclPyReflPre2
namespace StoneVerif.DeclPy

/-! ### the parts of a struct's reflection block -/

def sFieldVals (cur : Name) (d : DataType) : List Stmt :=
  d.fields.flatMap fun f =>
    [Stmt.assign (fmtClass d.name) (some (fmtVar f.name ++ ".validator")) none
      (here (fmtClass d.name) (some (fmtVar f.name)) :: tyRefs cur f.ty)]
    ++ (if f.redact then [Stmt.assign (fmtClass d.name) (some (fmtVar f.name ++ ".validator._redact")) none
      [here (fmtClass d.name) (some (fmtVar f.name ++ ".validator"))]] else [])

def sParentCallers (api : Api) (d : DataType) : List Name :=
  dedup (ancestorCallers api api.nTypes (api.parentOf d))

def sCallers (api : Api) (d : DataType) : List (Option Name) :=
  sortCallers (none :: (dedup (d.ownCallers ++ sParentCallers api d)).map some)

def pref (cur : Name) (d : DataType) (attr : String) : List Ref :=
  match baseRef cur d with
  | some p => [{ p with attr := some attr }]
  | none => []

/-- `caller_in_parent` -/
def cipB (api : Api) (d : DataType) (oc : Option Name) : Bool :=
  d.parent.isSome && (oc.isNone || match oc with | some x => (sParentCallers api d).contains x | none => false)

/-- `is_public or omitted_caller in child_omitted_callers` -/
def ownB (d : DataType) (oc : Option Name) : Bool :=
  oc.isNone || match oc with | some x => d.ownCallers.contains x | none => false

def sFieldRefs (d : DataType) (oc : Option Name) : List Ref :=
  (d.fields.filter (·.caller == oc)).map fun f => here (fmtClass d.name) (some (fmtVar f.name ++ ".validator"))

def sCallerBody (api : Api) (cur : Name) (d : DataType) (oc : Option Name) : List Stmt :=
  let c := fmtClass d.name
  let pre := callerPrefix oc
  let names := pre ++ "_field_names_"
  let allNames := "_all" ++ pre ++ "_field_names_"
  let flds := pre ++ "_fields_"
  let allFlds := "_all" ++ pre ++ "_fields_"
  if isTreeMember api d then
    (if ownB d oc then [Stmt.assign c (some names) none [here c]] else [])
    ++ (if cipB api d oc then
          [Stmt.assign c (some allNames) none (here c :: pref cur d allNames ++ [here c (some names)])]
        else [Stmt.assign c (some allNames) none [here c, here c (some names)]])
    ++ [Stmt.assign c (some flds) none (here c :: sFieldRefs d oc)]
    ++ (if cipB api d oc then
          [Stmt.assign c (some allFlds) none (here c :: pref cur d allFlds ++ [here c (some flds)])]
        else [Stmt.assign c (some allFlds) none [here c, here c (some flds)]])
  else
    [Stmt.assign c (some allNames) none (here c :: (if cipB api d oc then pref cur d allNames else [])),
     Stmt.assign c (some allFlds) none (here c :: (if cipB api d oc then pref cur d allFlds else [])
        ++ sFieldRefs d oc)]

def sSubs (cur : Name) (d : DataType) : List Stmt :=
  if d.hasSubtypes then
    [Stmt.assign (fmtClass d.name) (some "_tag_to_subtype_") none
        (here (fmtClass d.name) :: d.subtypes.flatMap fun (sns, sn) => tyRefs cur (.user sns sn)),
     Stmt.assign (fmtClass d.name) (some "_pytype_to_tag_and_subtype_") none
        (here (fmtClass d.name) :: (d.subtypes.map fun (_, sn) => here (fmtClass sn))
          ++ d.subtypes.flatMap fun (sns, sn) => tyRefs cur (.user sns sn)),
     Stmt.assign (fmtClass d.name) (some "_is_catch_all_") none [here (fmtClass d.name)]]
  else []

theorem structRefl_eq (api : Api) (cur : Name) (d : DataType) :
    structReflStmts api cur d
      = sFieldVals cur d ++ (sCallers api d).flatMap (sCallerBody api cur d) ++ sSubs cur d := rfl

end StoneVerif.DeclPy
