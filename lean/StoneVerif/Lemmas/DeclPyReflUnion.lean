import StoneVerif.Lemmas.DeclPyReflUnionDefs
namespace StoneVerif.DeclPy

/-- the reflection block of a union -/
theorem union_refl_item {api : Api} (hapi : apiWF api = true) {ns : Namespace} (hns : ns ∈ api.namespaces)
    {st : St} (hwf : StWF st) (hctx : Ctx api st ns) (hcls : ∀ d ∈ ns.types, ClassOK api st ns d)
    (hals : ∀ a ∈ ns.aliases, AliasOK api st ns a) {pre post : List DataType} {d : DataType}
    (hsplit : ns.types = pre ++ d :: post) (hprer : ∀ y ∈ pre, ReflOK api st ns y) (hs : d.isStruct = false) :
    ∃ st', Steps st (modName ns) (unionReflStmts api ns.name d) st' ∧ ReflOK api st' ns d := by
  have hd : d ∈ ns.types := by rw [hsplit]; simp
  have htw := typeWF_at hapi hns hsplit
  have hng := unionRefl_noGlobal api ns.name d
  rw [unionRefl_eq] at hng ⊢
  simp only [List.all_append, Bool.and_eq_true] at hng
  obtain ⟨⟨⟨hngA, hngP⟩, hngB⟩, hngS⟩ := hng
  have hok := hcls d hd
  -- A: validators of the tags
  obtain ⟨stA, hsA, hA⟩ := steps_flatMap' (α := Field)
    (fun f => [Stmt.assign (fmtClass d.name) (some ("_" ++ fmtVar f.name ++ "_validator")) none
        (here (fmtClass d.name) :: tyRefs ns.name f.ty)]
      ++ (if f.redact then [Stmt.assign (fmtClass d.name) (some ("_" ++ fmtVar f.name ++ "_validator" ++ "._redact"))
        none [here (fmtClass d.name) (some ("_" ++ fmtVar f.name ++ "_validator"))]] else []))
    (modName ns)
    (fun st => Ctx api st ns ∧ (∀ d ∈ ns.types, ClassOK api st ns d) ∧ (∀ a ∈ ns.aliases, AliasOK api st ns a))
    (fun f st => HasA st (clsId ns.name d.name) ("_" ++ fmtVar f.name ++ "_validator"))
    (fun hle h => ⟨h.1.mono hle, fun d hd => (h.2.1 d hd).mono hle, fun a ha => (h.2.2 a ha).mono hle⟩)
    (fun hle h => hle.hasA h) d.fields
    (by
      intro pre' f post' hsp st hwf ⟨hctx, hcls, hals⟩ _ _
      have hf : f ∈ d.fields := by rw [hsp]; simp
      have hok := hcls d hd
      obtain ⟨st1, hs1, ha1⟩ := assign_on_class (a := "_" ++ fmtVar f.name ++ "_validator")
        (uses := here (fmtClass d.name) :: tyRefs ns.name f.ty) hwf hok.clsAt
        (by
          intro r hr
          rcases List.mem_cons.mp hr with rfl | hr
          · exact ready_cls hok.glob
          · exact ready_tyRefs hapi hns hctx hcls ns.aliases hals f.ty (typeWF_field htw hf).1
              (local_aliases_exist hapi hns (typeWF_field htw hf).1) r hr)
      by_cases hr : f.redact = true
      · simp only [hr, if_true]
        obtain ⟨st2, hs2, _⟩ := assign_on_class (a := "_" ++ fmtVar f.name ++ "_validator" ++ "._redact")
          (uses := [here (fmtClass d.name) (some ("_" ++ fmtVar f.name ++ "_validator"))]) hs1.wf
          (hok.clsAt.mono hs1.le)
          (by
            intro r hr
            simp only [List.mem_singleton] at hr; subst hr
            exact ready_cls_attr (hs1.le.glob _ _ _ hok.glob) ha1)
        exact ⟨st2, hs1.append hs2, hs2.le.hasA ha1⟩
      · simp only [hr, Bool.false_eq_true, if_false, List.append_nil]
        exact ⟨st1, hs1, ha1⟩)
    (by rw [show (d.fields.flatMap _) = uTagVals ns.name d from rfl, flatMap_globals_of_noGlobal hngA]
        exact List.nodup_nil)
    st hwf ⟨hctx, hcls, hals⟩
    (by rw [show (d.fields.flatMap _) = uTagVals ns.name d from rfl, flatMap_globals_of_noGlobal hngA]
        intro n hn; simp at hn)
  have hsA' : Steps st (modName ns) (uTagVals ns.name d) stA := hsA
  -- P: `_permissioned_tagmaps`
  have stepP : ∃ stP, Steps stA (modName ns) (uPerm api d) stP := by
    unfold uPerm
    split
    · exact ⟨stA, Steps.nil hsA.wf⟩
    · obtain ⟨stP, hsP, _⟩ := assign_on_class (a := "_permissioned_tagmaps") (uses := [here (fmtClass d.name)])
        hsA.wf (hok.clsAt.mono hsA.le)
        (fun r hr => by simp only [List.mem_singleton] at hr; subst hr; exact ready_cls (hsA.le.glob _ _ _ hok.glob))
      exact ⟨stP, hsP⟩
  obtain ⟨stP, hsP⟩ := stepP
  have hleP := hsA.le.trans hsP.le
  -- B: one tagmap per caller
  obtain ⟨stB, hsB, hB⟩ := steps_flatMap' (α := Option Name) (uCallerBody api ns.name d) (modName ns)
    (fun st => True ∧ Ctx api st ns ∧ (∀ d ∈ ns.types, ClassOK api st ns d) ∧ (∀ y ∈ pre, ReflOK api st ns y)
      ∧ ∀ f ∈ d.fields, HasA st (clsId ns.name d.name) ("_" ++ fmtVar f.name ++ "_validator"))
    (fun oc st => HasA st (clsId ns.name d.name) (tagmapName oc))
    (fun hle h => ⟨trivial, h.2.1.mono hle, fun d hd => (h.2.2.1 d hd).mono hle,
      fun y hy => (h.2.2.2.1 y hy).mono hle, fun f hf => hle.hasA (h.2.2.2.2 f hf)⟩)
    (fun hle h => hle.hasA h) (sCallers api d)
    (by
      intro pre' oc post' hsp st hwf ⟨_, hctx, hcls, hprer, hA⟩ _ _
      have hok := hcls d hd
      obtain ⟨st1, hs1, ha1⟩ := assign_on_class (a := tagmapName oc)
        (uses := here (fmtClass d.name) :: (d.fields.filter (·.caller == oc)).map
          fun f => here (fmtClass d.name) (some ("_" ++ fmtVar f.name ++ "_validator"))) hwf hok.clsAt
        (by
          intro r hr
          rcases List.mem_cons.mp hr with rfl | hr
          · exact ready_cls hok.glob
          · obtain ⟨f, hf, rfl⟩ := List.mem_map.mp hr
            exact ready_cls_attr hok.glob (hA f (List.mem_filter.mp hf).1))
      simp only [uCallerBody]
      by_cases hcip : cipB api d oc = true
      · rw [if_pos hcip]
        cases hpar : d.parent with
        | none => simp [cipB, hpar] at hcip
        | some q =>
          obtain ⟨pns, pn⟩ := q
          obtain ⟨P, nsP, hnsP, hname, hmem, hPn, hpo, hkind, hokP, hreflP, hres⟩ :=
            parent_refl_facts hapi hns hctx hcls hsplit hprer hpar
          have hcaller : IsReflCaller api P oc := by
            cases oc with
            | none => exact Or.inl rfl
            | some x =>
              simp only [cipB, hpar, Option.isSome_some, Option.isNone_some, Bool.false_or, Bool.true_and,
                List.contains_eq_mem, decide_eq_true_eq] at hcip
              exact parent_isReflCaller hpo (mem_dedup.mp hcip)
          have hmap := hreflP.unionMaps (by rw [hkind, hs]) oc hcaller
          rw [hname, hPn] at hmap
          simp only [baseRef, hpar, qual_with_attr]
          have hs2 : Steps st1 (modName ns)
              [Stmt.expr [here (fmtClass d.name) (some (tagmapName oc)),
                qual ns.name pns (fmtClass pn) (some (tagmapName oc))]] st1 := by
            refine steps_expr hs1.wf (fun r hr => ?_)
            simp only [List.mem_cons, List.mem_nil_iff, or_false] at hr
            rcases hr with rfl | rfl
            · exact ready_cls_attr (hs1.le.glob _ _ _ hok.glob) ha1
            · have hr0 : Ready st (modName ns) (qual ns.name pns (fmtClass pn) (some (tagmapName oc))) :=
                ⟨_, hres (some (tagmapName oc)), fun a ha' => by
                  rw [qual_attr] at ha'; injection ha' with ha'; subst ha'; exact ⟨_, rfl, hmap⟩⟩
              exact hr0.mono hs1.le
          exact ⟨st1, hs1.append hs2, ha1⟩
      · rw [if_neg hcip, List.append_nil]
        exact ⟨st1, hs1, ha1⟩)
    (by rw [flatMap_globals_of_noGlobal hngB]; exact List.nodup_nil) stP hsP.wf
    ⟨trivial, hctx.mono hleP, fun d hd => (hcls d hd).mono hleP, fun y hy => (hprer y hy).mono hleP,
      fun f hf => hsP.le.hasA (hA f hf)⟩
    (by rw [flatMap_globals_of_noGlobal hngB]; intro n hn; simp at hn)
  have hleB := hleP.trans hsB.le
  -- S: the instances of the void tags
  have hnone : none ∈ sCallers api d := mem_sCallers.mpr (Or.inl rfl)
  have htm : HasA stB (clsId ns.name d.name) "_tagmap" := hB none hnone
  have stepS : ∀ (l : List Field) (st0 : St), StWF st0 → Le stB st0 →
      ∃ stS, Steps st0 (modName ns) (l.map fun f => Stmt.assign (fmtClass d.name) (some (fmtFunc f.name)) none
        [here (fmtClass d.name), here (fmtClass d.name) (some "_tagmap")]) stS := by
    intro l
    induction l with
    | nil => intro st0 hwf0 _; exact ⟨st0, Steps.nil hwf0⟩
    | cons f rest ih =>
      intro st0 hwf0 hle0
      have hle := hleB.trans hle0
      obtain ⟨st1, hs1, _⟩ := assign_on_class (a := fmtFunc f.name)
        (uses := [here (fmtClass d.name), here (fmtClass d.name) (some "_tagmap")]) hwf0 (hok.clsAt.mono hle)
        (fun r hr => by
          simp only [List.mem_cons, List.mem_nil_iff, or_false] at hr
          rcases hr with rfl | rfl
          · exact ready_cls (hle.glob _ _ _ hok.glob)
          · exact ready_cls_attr (hle.glob _ _ _ hok.glob) (hle0.hasA htm))
      obtain ⟨st2, hs2⟩ := ih st1 hs1.wf (hle0.trans hs1.le)
      exact ⟨st2, hs1.cons hs2⟩
  obtain ⟨stS, hsS⟩ := stepS (d.fields.filter (·.ty.isVoid)) stB hsB.wf (Le.refl _)
  refine ⟨stS, ((hsA'.append hsP).append hsB).append hsS, fun h => by rw [hs] at h; exact absurd h (by simp),
    fun h => by rw [hs] at h; exact absurd h (by simp), ?_⟩
  intro _ oc hcaller
  have hmem : oc ∈ sCallers api d := by
    rw [mem_sCallers]
    rcases hcaller with h | ⟨x, rfl, hx⟩
    · exact Or.inl h
    · refine Or.inr ⟨x, rfl, ?_⟩
      rcases hx with hx | hx
      · exact Or.inl hx
      · exact Or.inr (mem_dedup.mpr hx)
  exact hsS.le.hasA (hB oc hmem)

end StoneVerif.DeclPy
