import StoneVerif.Lemmas.FeCompileClosed
set_option linter.unusedSimpArgs false
/-!
Members of the specification-level image: position by position the declared ones.
-/
namespace StoneVerif.FeCompile
open StoneVerif.FeParams (TyKind TyVal)

/-- two lists of equal length related position by position -/
inductive Matched {α β} (R : α → β → Prop) : List α → List β → Prop
  | nil : Matched R [] []
  | cons {a b l l'} : R a b → Matched R l l' → Matched R (a :: l) (b :: l')

/-- the compiled member `c` is the declared member `f` of a type of namespace `ns`: same name, and its type is what
the declared type expression denotes (`Void` for a tag declared without one) -/
def MemberOf (rx : String → Bool) (fs : List File) (ns : String) (f : AField) (c : CField) : Prop :=
  c.name = f.name ∧ match f.ty with
    | some r => denoteRef rx fs ns r = some c.ty
    | none => c.ty = tyVoid

/-- the compiled type `c` has exactly the declared members of `d`, in declaration order, plus only the implicit
`other` (open unions only) -/
def MembersOf (rx : String → Bool) (fs : List File) (ns : String) (d : TypeDecl) (c : CType) : Prop :=
  ∃ members, Matched (MemberOf rx fs ns) d.fields members ∧
    c.fields = members ++ (if c.catchAll then [otherField] else []) ∧
    (c.catchAll = true → d.kind = .union false)

/-- every namespace (order of first mention) lists exactly its declared types (declaration order) with exactly
their declared members -/
def Faithful (rx : String → Bool) (fs : List File) (api : Api) : Prop :=
  Matched (fun ns (o : NsOut) => o.name = ns ∧
      Matched (fun (d : TypeDecl) (p : String × CType) => p.1 = d.name ∧ MembersOf rx fs ns d p.2)
        (typeDecls (declsOf fs ns)) o.types ∧
      Matched (fun (a : String × TRef) (p : String × Ty) => p.1 = a.1 ∧ denoteRef rx fs ns a.2 = some p.2)
        (aliasDecls (declsOf fs ns)) o.aliases)
    (nsNames fs []) api.nss

namespace L

theorem optMapM_forall2 {α β} {g : α → Option β} : ∀ {l : List α} {l'}, optMapM g l = some l' →
    Matched (fun x y => g x = some y) l l'
  | [], l', h => by simp only [optMapM] at h; cases h; exact .nil
  | x :: l, l', h => by
    simp only [optMapM] at h
    split at h
    · rename_i y ys hy hys
      cases h
      exact .cons hy (optMapM_forall2 hys)
    · cases h

theorem forall2_imp {α β} {R S : α → β → Prop} (h : ∀ a b, R a b → S a b) : ∀ {l l'}, Matched R l l' → Matched S l l'
  | _, _, .nil => .nil
  | _, _, .cons hr ht => .cons (h _ _ hr) (forall2_imp h ht)

theorem denoteField_member {rx fs ns b f c} (h : denoteField rx fs ns b f = some c) : MemberOf rx fs ns f c := by
  unfold denoteField at h
  unfold MemberOf
  split at h
  · rename_i hty
    cases h
    simp [hty]
  · rename_i r hty
    cases hd : denoteRef rx fs ns r with
    | none => simp [hd] at h
    | some t => simp [hd] at h; subst h; simp [hty, hd]

theorem denoteType_members {rx fs ns d c} (h : denoteType rx fs ns d = some c) : MembersOf rx fs ns d c := by
  unfold denoteType at h
  split at h
  · rename_i parent fields hp hf
    have hm : Matched (MemberOf rx fs ns) d.fields fields :=
      forall2_imp (fun a b hab => denoteField_member hab) (optMapM_forall2 hf)
    split at h
    · cases h
      exact ⟨fields, hm, by simp, by simp⟩
    · rename_i closed hk
      cases h
      refine ⟨fields, hm, ?_, ?_⟩
      · simp only
        split <;> simp
      · simp only [Bool.and_eq_true, Bool.not_eq_eq_eq_not, Bool.not_true]
        rintro ⟨hc, _⟩
        rw [hk, hc]
  · cases h

theorem denoteNs_faithful {rx fs ns o} (h : denoteNs rx fs ns = some o) :
    o.name = ns ∧
      Matched (fun (d : TypeDecl) (p : String × CType) => p.1 = d.name ∧ MembersOf rx fs ns d p.2)
        (typeDecls (declsOf fs ns)) o.types ∧
      Matched (fun (a : String × TRef) (p : String × Ty) => p.1 = a.1 ∧ denoteRef rx fs ns a.2 = some p.2)
        (aliasDecls (declsOf fs ns)) o.aliases := by
  unfold denoteNs specDecls at h
  simp only at h
  split at h
  · rename_i types aliases routes enums ht ha hr he
    cases h
    refine ⟨rfl, ?_, ?_⟩
    · refine forall2_imp ?_ (optMapM_forall2 ht)
      intro d p hd
      cases hdt : denoteType rx fs ns d with
      | none => simp [hdt] at hd
      | some c => simp [hdt] at hd; subst hd; exact ⟨rfl, denoteType_members hdt⟩
    · refine forall2_imp ?_ (optMapM_forall2 ha)
      intro a p hd
      cases hdr : denoteRef rx fs ns a.2 with
      | none => simp [hdr] at hd
      | some t => simp [hdr] at hd; subst hd; exact ⟨rfl, rfl⟩
  · cases h

theorem denote_faithful {rx fs api} (h : denoteCore rx fs = some api) : Faithful rx fs api := by
  unfold denoteCore at h
  cases ho : optMapM (denoteNs rx fs) (nsNames fs []) with
  | none => simp [ho] at h
  | some outs =>
    simp [ho] at h
    subst h
    exact forall2_imp (fun ns o hno => denoteNs_faithful hno) (optMapM_forall2 ho)

end L
end StoneVerif.FeCompile
