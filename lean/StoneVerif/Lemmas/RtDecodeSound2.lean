import StoneVerif.Lemmas.RtDecodeSound
/-! Soundness of the RT decoder, part 2: structs, enumerated subtypes, unions, and the main induction. -/
namespace StoneVerif.Rt.DecL

theorem validB_struct_struct (E : Ext) (env : Env) (fl : Flags) (cls c : String) (slots : List (String × PyVal)) :
    validB E env (.struct fl cls) (.struct c slots) =
      (env.structSubclass c cls && (publicFields env c).all (fun f => attrHas f slots) &&
        validSlots E env (publicFields env c) slots) := by
  unfold validB
  simp only [isNoneV, Bool.and_false, Bool.false_eq_true, if_false]

theorem validB_tree_struct (E : Ext) (env : Env) (fl : Flags) (cls c : String) (slots : List (String × PyVal)) :
    validB E env (.tree fl cls) (.struct c slots) =
      ((leafTag? env cls c).isSome && env.structSubclass c cls &&
        (publicFields env c).all (fun f => attrHas f slots) && validSlots E env (publicFields env c) slots) := by
  unfold validB
  simp only [isNoneV, Bool.and_false, Bool.false_eq_true, if_false]

theorem getDefault_pre (E : Ext) (env : Env) (hwf : envWF env = true) (t : PTy) (ht : tyWF env t = true)
    (hd : hasDefault env t = true) : Pre E env t (getDefault t) := by
  by_cases hn : t.flags.nullable = true
  · rw [getDefault_nullable t hn]; exact Pre_nullable_none E env t hn
  · have hn' : t.flags.nullable = false := by simpa using hn
    cases t with
    | struct fl c =>
      simp only [PTy.flags] at hn'
      cases hs : env.struct? c with
      | none => simp [tyWF, hs] at ht
      | some s =>
        simp only [hasDefault, PTy.flags, hn', hs, Bool.false_or, List.all_eq_true] at hd
        simp only [getDefault, PTy.flags, hn', Bool.false_eq_true, if_false, Pre]
        rw [validB_struct_struct, structSubclass_self env hwf c s hs, publicFields_eq env c s hs]
        simp only [Bool.true_and, validSlots, Bool.and_true, List.all_eq_true]
        intro f hf
        have := hd f (fieldsSpec_subset_allAttrs s [] f hf)
        simp only [attrHas, attrGet, lookupSlot]
        cases hfn : f.attrNullable <;> simp_all
    | tree fl c =>
      -- `StructTree.has_default()` is `False`: a non-nullable tree type has no implicit default
      simp only [PTy.flags] at hn'
      simp [hasDefault, PTy.flags, hn'] at hd
    | void fl => simp [Pre]
    | _ => simp_all [hasDefault, PTy.flags]

theorem struct_valid (E : Ext) (env : Env) (hwf : envWF env = true) (fl : Flags) (cls : String) (s : StructDef)
    (hs : env.struct? cls = some s) (slots : List (String × PyVal))
    (h1 : (publicFields env cls).all (fun f => attrHas f slots) = true)
    (h2 : validSlots E env (publicFields env cls) slots = true) :
    validB E env (.struct fl cls) (.struct cls slots) = true := by
  rw [validB_struct_struct, structSubclass_self env hwf cls s hs, h1, h2]; rfl

/-- the class a `.tag` selects is a leaf of the root's subtype table and a subclass of the root -/
theorem tree_leaf_facts (env : Env) (hwf : envWF env = true) (cls : String) (s : StructDef)
    (hs : env.struct? cls = some s) (tag : String) (tags : List String) (sc : String)
    (hf : (s.subtypes.getD []).find? (fun (tags, _, _) => tags == [tag]) = some (tags, sc, false)) :
    (leafTag? env cls sc).isSome = true ∧ env.structSubclass sc cls = true := by
  obtain ⟨subs, hsub, hmem, d, hd, hpre, _⟩ := subtype_registered env hwf cls s hs _ _ hf
  have hparts := StructDef.wf_parts env s (envWF_struct env hwf cls s hs)
  obtain ⟨hndc, _, _⟩ := hparts.2.2.2.2.2 subs hsub
  have htags : tags = [tag] := by simpa using List.find?_some hf
  subst htags
  constructor
  · simp only [leafTag?, hs, hsub, Option.getD_some]
    cases hfc : subs.find? (fun (_, c, _) => c == sc) with
    | none =>
      have := List.find?_eq_none.mp hfc _ hmem
      simp at this
    | some e =>
      have hem := List.mem_of_find?_eq_some hfc
      have hec : e.2.1 = sc := by simpa using List.find?_some hfc
      have : e = ([tag], sc, false) :=
        nodupS_names_unique (fun (e : List String × String × Bool) => e.2.1) subs hndc e _ hem hmem hec
      subst this
      rfl
  · have hc := (struct?_mem env cls s hs).2
    have h1 := hparts.1
    simp only [Env.structSubclass, hd, StructDef.ancestors, List.contains_eq_mem, List.mem_map, decide_eq_true_eq]
    cases hl : s.levels.getLast? with
    | none => simp [hl] at h1
    | some l =>
      simp only [hl, beq_iff_eq] at h1
      obtain ⟨l', hl', hcl⟩ := levelsPrefix_mem_cls s.levels d.levels hpre l (List.mem_of_getLast? hl)
      exact ⟨l', hl', by rw [hcl, h1, hc]⟩


theorem mem_tagmapAttrRev_omitted (X : Option String) :
    ∀ (ls : List ULevel) (l : List TagDef), tagmapAttrRev X ls = some l → ∀ t ∈ l, t.omitted = X := by
  intro ls
  induction ls with
  | nil => intro l h; simp [tagmapAttrRev] at h
  | cons lv parents ih =>
    intro l h f hf
    have hown : ∀ t ∈ lv.tags.filter (·.omitted == X), t.omitted = X := by
      intro t ht
      have := (List.mem_filter.mp ht).2
      simpa using this
    simp only [tagmapAttrRev] at h
    split at h
    · split at h
      · cases hp : tagmapAttrRev X parents with
        | none => simp [hp] at h
        | some lp =>
          simp only [hp, Option.map_some, Option.some.injEq] at h
          subst h
          rcases List.mem_append.mp hf with h1 | h2
          · exact hown f h1
          · exact ih lp hp f h2
      · simp only [Option.some.injEq] at h
        subst h
        exact hown f hf
    · exact ih l h f hf

theorem tagmapAttr_findTag_omitted (u : UnionDef) (X : Option String) (tag : String) (t : TagDef)
    (h : (u.tagmapAttr X).bind (findTag tag) = some t) : t.omitted = X := by
  unfold UnionDef.tagmapAttr at h
  cases hm : tagmapAttrRev X u.levels.reverse with
  | none => simp [hm] at h
  | some l =>
    simp only [hm, Option.bind_some] at h
    exact mem_tagmapAttrRev_omitted X _ l hm t (findTag_mem tag l t h).1

/-- the tag `_get_val_data_type` answers for is public or omitted for a caller class the caller holds -/
theorem valDataType_mem' (u : UnionDef) (tag : String) (perms : List String) (ft : PTy)
    (h : u.valDataType tag perms = some ft) :
    ∃ t ∈ u.levels.flatMap (·.tags), t.name = tag ∧ t.ty = ft ∧
      (t.omitted = none ∨ ∃ p ∈ perms, t.omitted = some p) := by
  unfold UnionDef.valDataType at h
  split at h
  · rename_i t ht
    obtain ⟨p, hpm, hp⟩ := List.exists_of_findSome?_eq_some ht
    obtain ⟨h1, h2⟩ := tagmapAttr_findTag_mem u (some p) tag t hp
    exact ⟨t, h1, h2, by simpa using h, Or.inr ⟨p, hpm, tagmapAttr_findTag_omitted u (some p) tag t hp⟩⟩
  · cases hn : (u.tagmapAttr none).bind (findTag tag) with
    | none => simp [hn] at h
    | some t =>
      simp only [hn, Option.map_some, Option.some.injEq] at h
      obtain ⟨h1, h2⟩ := tagmapAttr_findTag_mem u none tag t hn
      exact ⟨t, h1, h2, h, Or.inl (tagmapAttr_findTag_omitted u none tag t hn)⟩

theorem findTag_of_mem : ∀ (l : List TagDef) (t : TagDef), t ∈ l → ∃ t', findTag t.name l = some t' := by
  intro l
  induction l with
  | nil => intro t h; cases h
  | cons a rest ih =>
    intro t h
    simp only [findTag]
    split
    · exact ⟨a, rfl⟩
    · rcases List.mem_cons.mp h with rfl | h'
      · rename_i hne; simp at hne
      · exact ih t h'

theorem publicTag_of_public (env : Env) (hwf : envWF env = true) (cls : String) (u : UnionDef)
    (hu : env.union? cls = some u) (td : TagDef) (hm : td ∈ u.levels.flatMap (·.tags)) (ho : td.omitted = none) :
    publicTag? env cls td.name = some td := by
  have hnd := (UnionDef.wf_parts env u (envWF_union env hwf cls u hu)).2.1
  simp only [publicTag?, hu]
  have hin : td ∈ u.tagsSpec [] := by
    simp only [UnionDef.tagsSpec, List.mem_filter]
    exact ⟨hm, by simp [ho]⟩
  obtain ⟨t', ht'⟩ := findTag_of_mem _ td hin
  obtain ⟨h1, h2⟩ := findTag_mem _ _ t' ht'
  have h1' : t' ∈ u.levels.flatMap (·.tags) := by
    simp only [UnionDef.tagsSpec, List.mem_filter] at h1
    exact h1.1
  have : t' = td := nodupS_names_unique (·.name) _ hnd t' td h1' hm h2
  rw [ht', this]

theorem ctorValidator_spec (u : UnionDef) (tag : String) (vt : PTy) (h : u.ctorValidator tag = some vt) :
    ∃ t ∈ u.levels.flatMap (·.tags), t.name = tag ∧ t.ty = vt := by
  simp only [UnionDef.ctorValidator] at h
  cases hf : findTag tag ((u.tagmapAttr none).getD [] ++
      u.permissionedTagmaps.flatMap fun p => (u.tagmapAttr (some p)).getD []) with
  | none => simp [hf] at h
  | some t =>
    simp only [hf, Option.map_some, Option.some.injEq] at h
    obtain ⟨hm, hn⟩ := findTag_mem tag _ t hf
    refine ⟨t, ?_, hn, h⟩
    have key : ∀ X, t ∈ (u.tagmapAttr X).getD [] → t ∈ u.levels.flatMap (·.tags) := by
      intro X hx
      unfold UnionDef.tagmapAttr at hx
      cases hm' : tagmapAttrRev X u.levels.reverse with
      | none => simp [hm'] at hx
      | some l =>
        simp only [hm', Option.getD_some] at hx
        have := mem_tagmapAttrRev X _ l hm' t hx
        simp only [List.mem_flatMap, List.mem_reverse] at this ⊢
        exact this
    rcases List.mem_append.mp hm with h1 | h1
    · exact key none h1
    · obtain ⟨p, _, hp⟩ := List.mem_flatMap.mp h1
      exact key (some p) hp

theorem validB_union_union (E : Ext) (env : Env) (fl : Flags) (cls c tag : String) (x : PyVal) :
    validB E env (.union fl cls) (.union c tag x) =
      (env.unionSubclass cls c && match publicTag? env cls tag with
        | some td => if isVoidT td.ty then isNoneV x else validB E env td.ty x
        | none => false) := by
  conv => lhs; unfold validB
  simp only [isNoneV, Bool.and_false, Bool.false_eq_true, if_false]
  rfl

/-- `Union.__init__` on a public tag with a payload that is what `decode` returns for the tag's type yields a
valid union value -/
theorem mkUnion_sound (E : Ext) (env : Env) (hwf : envWF env = true) (fl : Flags) (cls tag : String) (u : UnionDef)
    (hu : env.union? cls = some u) (td : TagDef) (hm : td ∈ u.levels.flatMap (·.tags)) (hn : td.name = tag)
    (ho : td.omitted = none) (x v : PyVal) (hpre : Pre E env td.ty x)
    (h : mkUnion E env cls tag x = .ok v) : validB E env (.union fl cls) v = true := by
  have hparts := UnionDef.wf_parts env u (envWF_union env hwf cls u hu)
  have htw : tyWF env td.ty = true := (hparts.2.2.1 td hm).2.2
  have hpub := publicTag_of_public env hwf cls u hu td hm ho
  rw [hn] at hpub
  have hsub := unionSubclass_self env hwf cls u hu
  unfold mkUnion at h
  simp only [hu] at h
  cases hc : u.ctorValidator tag with
  | none => simp [hc, verr] at h
  | some vt =>
    obtain ⟨t', ht', hn', hty'⟩ := ctorValidator_spec u tag vt hc
    have : t' = td := nodupS_names_unique (·.name) _ hparts.2.1 t' td ht' hm (by rw [hn', hn])
    subst this
    subst hty'
    simp only [hc] at h
    have fin : ∀ y, (isVoidT t'.ty = true → y = .none) → (isVoidT t'.ty = false → validB E env t'.ty y = true) →
        validB E env (.union fl cls) (.union cls tag y) = true := by
      intro y h1 h2
      rw [validB_union_union, hsub, hpub]
      simp only [Bool.true_and]
      cases hv : isVoidT t'.ty with
      | true => simp [h1 hv, isNoneV]
      | false => simp [h2 hv]
    cases hty : t'.ty with
    | void vfl =>
      have hvn : vfl.nullable = false := by simpa [hty, tyWF] using htw
      simp only [hty, PTy.flags, hvn, Bool.not_false, Bool.and_self, if_true] at h
      cases x <;> simp [verr] at h
      subst h
      exact fin .none (fun _ => rfl) (fun hv => by simp [hty, isVoidT] at hv)
    | struct sfl sc =>
      simp only [hty, PTy.flags, Bool.and_false, Bool.false_eq_true, if_false, Bool.and_true] at h
      rw [hty] at hpre
      have hx : validB E env (.struct sfl sc) x = true := hpre
      split at h
      · cases hvt : validateTypeOnly env (.struct sfl sc) x with
        | error e => simp [hvt, bind, Except.bind] at h
        | ok _ =>
          simp [hvt, bind, Except.bind, pure, Except.pure] at h
          subst h
          exact fin x (fun hv => by simp [hty, isVoidT] at hv) (fun _ => by rw [hty]; exact hx)
      · cases hvt : validate E env (.struct sfl sc) x with
        | error e => simp [hvt, bind, Except.bind] at h
        | ok _ =>
          simp [hvt, bind, Except.bind, pure, Except.pure] at h
          subst h
          exact fin x (fun hv => by simp [hty, isVoidT] at hv) (fun _ => by rw [hty]; exact hx)
    | tree sfl sc =>
      simp only [hty, PTy.flags, Bool.and_false, Bool.false_eq_true, if_false, Bool.and_true] at h
      rw [hty] at hpre
      have hx : validB E env (.tree sfl sc) x = true := hpre
      split at h
      · cases hvt : validateTypeOnly env (.tree sfl sc) x with
        | error e => simp [hvt, bind, Except.bind] at h
        | ok _ =>
          simp [hvt, bind, Except.bind, pure, Except.pure] at h
          subst h
          exact fin x (fun hv => by simp [hty, isVoidT] at hv) (fun _ => by rw [hty]; exact hx)
      · cases hvt : validate E env (.tree sfl sc) x with
        | error e => simp [hvt, bind, Except.bind] at h
        | ok _ =>
          simp [hvt, bind, Except.bind, pure, Except.pure] at h
          subst h
          exact fin x (fun hv => by simp [hty, isVoidT] at hv) (fun _ => by rw [hty]; exact hx)
    | union sfl sc =>
      simp only [hty, PTy.flags, Bool.and_false, Bool.false_eq_true, if_false, Bool.and_true] at h
      rw [hty] at hpre
      have hx : validB E env (.union sfl sc) x = true := hpre
      split at h
      · cases hvt : validateTypeOnly env (.union sfl sc) x with
        | error e => simp [hvt, bind, Except.bind] at h
        | ok _ =>
          simp [hvt, bind, Except.bind, pure, Except.pure] at h
          subst h
          exact fin x (fun hv => by simp [hty, isVoidT] at hv) (fun _ => by rw [hty]; exact hx)
      · cases hvt : validate E env (.union sfl sc) x with
        | error e => simp [hvt, bind, Except.bind] at h
        | ok _ =>
          simp [hvt, bind, Except.bind, pure, Except.pure] at h
          subst h
          exact fin x (fun hv => by simp [hty, isVoidT] at hv) (fun _ => by rw [hty]; exact hx)
    | _ =>
      simp only [hty, PTy.flags, Bool.and_false, Bool.false_eq_true, if_false] at h
      rw [hty] at hpre
      simp only [bind, Except.bind] at h
      split at h
      · cases h
      · rename_i x' hvt
        simp only [pure, Except.pure, Except.ok.injEq] at h
        subst h
        exact fin x (fun hv => by simp [hty, isVoidT] at hv)
          (fun _ => by rw [hty]; exact (validate_sound E env _ x x' hpre hvt).1)


/-- `noDefaultedTrees` (formerly a hypothesis of the soundness theorems) holds of every environment now that
`hasDefault` of a `.tree` validator is `false` unless it is nullable. -/
theorem noDefaultedTrees_holds (env : Env) : noDefaultedTrees env = true := by
  simp only [noDefaultedTrees, List.all_eq_true]
  intro s _ f _
  cases hty : f.ty <;> simp [hasDefault, PTy.flags]

theorem visible_public (env : Env) (perms : List String) (h : visibleTagsPublic env perms = true) (c : String)
    (u : UnionDef) (hu : env.union? c = some u) (t : TagDef) (ht : t ∈ u.levels.flatMap (·.tags))
    (hv : t.omitted = none ∨ ∃ p ∈ perms, t.omitted = some p) : t.omitted = none := by
  rcases hv with hv | ⟨p, hp, ho⟩
  · exact hv
  · simp only [visibleTagsPublic, List.all_eq_true] at h
    have := h u (union?_mem env c u hu).1 t ht
    simp [ho, hp] at this

theorem noCatchAll_struct (env : Env) (h : noCatchAllTrees env = true) (c : String) (s : StructDef)
    (hs : env.struct? c = some s) (hsub : s.subtypes.isSome = true) : s.catchAll = false := by
  simp only [noCatchAllTrees, List.all_eq_true] at h
  have := h s (struct?_mem env c s hs).1
  simpa [hsub] using this

/-- the decoded members of an object, looked up by field, are what `decode` returns at the field's type -/
theorem children_pre (E : Ext) (env : Env) (s : StructDef) (perms : List String)
    (hnd : nodupS (s.allAttrs.map (·.name)) = true) (children : List (String × R PyVal))
    (hmem : ∀ k r, childLookup k children = some r →
      ∃ e, ((s.fieldsFor perms).map fun f => (f.name, f.ty)).find? (·.1 == k) = some e ∧
        ∀ v, r = .ok v → Pre E env e.2 v) :
    ∀ f ∈ s.fieldsFor perms, ∀ v, childLookup f.name children = some (.ok v) → Pre E env f.ty v := by
  intro f hf v hc
  obtain ⟨e, he, hpre⟩ := hmem f.name _ hc
  obtain ⟨g, hg, hgn, hfind⟩ := find_table_of_mem (s.fieldsFor perms) f.name f hf rfl
  rw [hfind] at he
  cases he
  have : g = f := nodupS_names_unique (·.name) _ hnd g f (fieldsFor_subset s perms g hg)
    (fieldsFor_subset s perms f hf) hgn
  subst this
  exact hpre v rfl

theorem Pre_withFlags_empty (E : Ext) (env : Env) (t : PTy) (v : PyVal) (h : Pre E env (t.withFlags {}) v) :
    Pre E env t v := by
  cases t with
  | list fl item a b =>
    simp only [PTy.withFlags, Pre] at h ⊢
    rcases h with ⟨h, _⟩ | h
    · cases h
    · exact Or.inr h
  | map fl kt vt =>
    simp only [PTy.withFlags, Pre] at h ⊢
    rcases h with ⟨h, _⟩ | h
    · cases h
    · exact Or.inr h
  | struct fl c =>
    simp only [PTy.withFlags, Pre] at h ⊢
    cases v <;> first
      | (rw [validB_struct_struct] at h ⊢; exact h)
      | (unfold validB at h; simp [isNoneV, PTy.flags] at h)
  | tree fl c =>
    simp only [PTy.withFlags, Pre] at h ⊢
    cases v <;> first
      | (rw [validB_tree_struct] at h ⊢; exact h)
      | (unfold validB at h; simp [isNoneV, PTy.flags] at h)
  | union fl c =>
    simp only [PTy.withFlags, Pre] at h ⊢
    cases v <;> first
      | (rw [validB_union_union] at h ⊢; exact h)
      | (unfold validB at h; simp [isNoneV, PTy.flags] at h)
  | _ => simp [Pre]


theorem memberTable_tree_leaf (env : Env) (perms : List String) (strict : Bool) (fl : Flags) (cls tag sc : String)
    (s d : StructDef) (tags : List String) (kvs : List (String × JVal))
    (htag : jsonLookup ".tag" kvs = some (.str tag)) (hs : env.struct? cls = some s)
    (hf : (s.subtypes.getD []).find? (fun (tags, _, _) => tags == [tag]) = some (tags, sc, false))
    (hd : env.struct? sc = some d) :
    memberTable env perms strict (.tree fl cls) kvs = (d.fieldsFor perms).map fun f => (f.name, f.ty) := by
  unfold memberTable
  simp only [htag, hs]
  split
  · rename_i t2 sc2 isTree2 heq
    have : some (t2, sc2, isTree2) = some (tags, sc, false) := heq.symm.trans hf
    cases this
    simp [hd]
  · rename_i heq
    have : none = some (tags, sc, false) := heq.symm.trans hf
    cases this

theorem memberTableStruct_struct (env : Env) (perms : List String) (fl : Flags) (sc : String) (d : StructDef)
    (hd : env.struct? sc = some d) :
    memberTable.memberTableStruct env perms (.struct fl sc) = (d.fieldsFor perms).map fun f => (f.name, f.ty) := by
  simp [memberTable.memberTableStruct, hd]


section
variable (E : Ext) (env : Env) (perms : List String) (strict : Bool)
  (hwf : envWF env = true) (hff : fieldFlagsWF env = true)
  (hcat : strict = true ∨ noCatchAllTrees env = true)
  (hvis : visibleTagsPublic env perms = true)
include hwf hff hcat hvis
set_option linter.unusedSectionVars false

/-- `finishStruct_sound` with its hypotheses discharged from the environment-level ones -/
theorem finishStruct_valid (cls : String) (s : StructDef) (hs : env.struct? cls = some s)
    (kvs : List (String × JVal)) (children : List (String × R PyVal)) (v : PyVal)
    (hmem : ∀ k r, childLookup k children = some r →
      ∃ e, ((s.fieldsFor perms).map fun f => (f.name, f.ty)).find? (·.1 == k) = some e ∧
        ∀ v, r = .ok v → Pre E env e.2 v)
    (h : finishStruct E env perms strict cls kvs children = .ok v) :
    ∃ slots, v = .struct cls slots ∧ (publicFields env cls).all (fun f => attrHas f slots) = true ∧
      validSlots E env (publicFields env cls) slots = true := by
  have hparts := StructDef.wf_parts env s (envWF_struct env hwf cls s hs)
  refine finishStruct_sound E env perms strict cls s kvs children v hwf hff hs ?_ ?_ h
  · intro f hf hd
    exact getDefault_pre E env hwf f.ty (hparts.2.2.2.1 f hf).1 hd
  · exact children_pre E env s perms hparts.2.1 children hmem

theorem decode_pre_of (j : JVal) (t : PTy) (ht : tyWF env t = true)
    (hlist : ∀ xs item, j = .arr xs → tyWF env item = true → ∀ vs,
      decodeList E env perms strict item xs = .ok vs → ∀ x ∈ vs, Pre E env item x)
    (hmap : ∀ kvs vt, j = .obj kvs → tyWF env vt = true → ∀ out,
      decodeMap E env perms strict vt kvs = .ok out → ∀ p ∈ out, Pre E env vt p.2)
    (hmem : ∀ kvs tbl, j = .obj kvs → (∀ p ∈ tbl, tyWF env p.2 = true) →
      ∀ k r, childLookup k (decodeMembers E env perms strict tbl kvs) = some r →
      ∃ e, tbl.find? (·.1 == k) = some e ∧ ∀ v, r = .ok v → Pre E env e.2 v) :
    ∀ v, decode E env perms strict t j = .ok v → Pre E env t v := by
  intro v h
  cases t with
  | list fl item a b =>
    simp only [tyWF] at ht
    unfold decode at h
    cases j <;> simp only [PTy.flags, Bool.and_true, Bool.and_false, Bool.false_eq_true, if_false] at h
    case null =>
      split at h
      · cases h; rename_i hn; exact Or.inl ⟨hn, rfl⟩
      · simp [verr] at h
    case arr xs =>
      cases hl : decodeList E env perms strict item xs with
      | error e => simp [hl, Except.map] at h
      | ok vs =>
        simp [hl, Except.map] at h
        subst h
        exact Or.inr ⟨vs, rfl, hlist xs item rfl ht vs hl⟩
    all_goals simp [verr] at h
  | map fl kt vt =>
    simp only [tyWF, Bool.and_eq_true] at ht
    unfold decode at h
    cases j <;> simp only [PTy.flags, Bool.and_true, Bool.and_false, Bool.false_eq_true, if_false] at h
    case null =>
      split at h
      · cases h; rename_i hn; exact Or.inl ⟨hn, rfl⟩
      · simp [verr] at h
    case obj kvs =>
      cases hl : decodeMap E env perms strict vt kvs with
      | error e => simp [hl, Except.map] at h
      | ok out =>
        simp [hl, Except.map] at h
        subst h
        refine Or.inr ⟨out, rfl, fun p hp => ⟨?_, hmap kvs vt rfl ht.2 out hl p hp⟩⟩
        cases kt <;> simp_all [Pre]
    all_goals simp [verr] at h
  | struct fl cls =>
    cases hs : env.struct? cls with
    | none => simp [tyWF, hs] at ht
    | some s =>
      simp only [Pre]
      unfold decode at h
      cases j <;> simp only [PTy.flags, Bool.and_true, Bool.and_false, Bool.false_eq_true, if_false] at h
      case null =>
        split at h
        · cases h; rename_i hn; exact validB_nullable_none E env _ hn
        · split at h
          · rename_i hd
            cases h
            have htw : tyWF env (.struct {} cls) = true := by simpa [tyWF] using ht
            have := getDefault_pre E env hwf (.struct {} cls) htw hd
            simp only [getDefault, PTy.flags, Bool.false_eq_true, if_false, Pre] at this
            rw [validB_struct_struct] at this ⊢
            exact this
          · simp [verr] at h
      case obj kvs =>
        rw [memberTable_struct env perms strict fl cls s kvs hs] at h
        obtain ⟨slots, rfl, h1, h2⟩ := finishStruct_valid E env perms strict hwf hff hcat hvis cls s hs kvs _ v
          (hmem kvs _ rfl (fun p hp => structTable_tyWF env hwf perms cls s hs p hp)) h
        exact struct_valid E env hwf fl cls s hs slots h1 h2
      all_goals simp [verr] at h
  | tree fl cls =>
    cases hs : env.struct? cls with
    | none => simp [tyWF, hs] at ht
    | some s =>
      have hsub : s.subtypes.isSome = true := by simpa [tyWF, hs] using ht
      simp only [Pre]
      unfold decode at h
      cases j <;> simp only [PTy.flags, Bool.and_true, Bool.and_false, Bool.false_eq_true, if_false] at h
      case null =>
        split at h
        · cases h; rename_i hn; exact validB_nullable_none E env _ hn
        · simp [verr] at h
      case obj kvs =>
        cases htag : jsonLookup ".tag" kvs with
        | none => simp [htag, verr] at h
        | some x =>
          cases x with
          | str tag =>
            simp only [htag, hs] at h
            split at h
            · rename_i tags sc isTree hf
              cases isTree with
              | true => simp [verr] at h
              | false =>
                simp only [Bool.false_eq_true, if_false] at h
                obtain ⟨_, _, _, d, hd, _, _⟩ := subtype_registered env hwf cls s hs _ _ hf
                rw [memberTable_tree_leaf env perms strict fl cls tag sc s d tags kvs htag hs hf hd] at h
                obtain ⟨slots, rfl, h1, h2⟩ := finishStruct_valid E env perms strict hwf hff hcat hvis sc d hd kvs _ v
                  (hmem kvs _ rfl (fun p hp => structTable_tyWF env hwf perms sc d hd p hp)) h
                obtain ⟨g1, g2⟩ := tree_leaf_facts env hwf cls s hs tag tags sc hf
                rw [validB_tree_struct, g1, g2, h1, h2]; rfl
            · rcases hcat with hst | hnc
              · simp [hst, verr] at h
              · have := noCatchAll_struct env hnc cls s hs hsub
                cases strict <;> simp [this, verr] at h
          | _ => simp [htag, verr] at h
      all_goals simp [verr] at h
  | union fl cls =>
    cases hu : env.union? cls with
    | none => simp [tyWF, hu] at ht
    | some u =>
      have hparts := UnionDef.wf_parts env u (envWF_union env hwf cls u hu)
      -- the catch-all member, when lenient decoding falls back to it
      have hcatch : ∀ v, u.catchAll.isSome = true → mkUnion E env cls (u.catchAll.getD "") .none = .ok v →
          validB E env (.union fl cls) v = true := by
        intro v hsome hmk
        obtain ⟨n, hn⟩ := Option.isSome_iff_exists.mp hsome
        obtain ⟨t, hft, hto, htv⟩ := hparts.2.2.2.2 n hn
        obtain ⟨htm, htn⟩ := findTag_mem n _ t hft
        rw [hn] at hmk
        refine mkUnion_sound E env hwf fl cls n u hu t htm htn hto .none v ?_ hmk
        cases hty : t.ty <;> simp [hty, isVoidTy] at htv
        simp [Pre]
      -- a tag that is present for the caller
      have hpresent : ∀ tag ft x v, u.valDataType tag perms = some ft → Pre E env ft x →
          mkUnion E env cls tag x = .ok v → validB E env (.union fl cls) v = true := by
        intro tag ft x v hft hpre hmk
        obtain ⟨td, htm, htn, hty, hvv⟩ := valDataType_mem' u tag perms ft hft
        have hto := visible_public env perms hvis cls u hu td htm hvv
        subst hty
        exact mkUnion_sound E env hwf fl cls tag u hu td htm htn hto x v hpre hmk
      simp only [Pre]
      unfold decode at h
      simp only [hu] at h
      cases j with
      | null =>
        simp only [PTy.flags, Bool.and_true] at h
        split at h
        · cases h; rename_i hn; exact validB_nullable_none E env _ hn
        · simp [verr] at h
      | str tag =>
        simp only [Bool.and_false, Bool.false_eq_true, if_false] at h
        by_cases hp : u.isTagPresent tag perms = true
        · simp only [hp, if_true] at h
          obtain ⟨ft, hft⟩ := Option.isSome_iff_exists.mp (valDataType_isSome_of_present u tag perms hp)
          simp only [hft] at h
          split at h
          · simp [verr] at h
          · rename_i hvn
            split at h
            · simp [verr] at h
            · refine hpresent tag ft .none v hft ?_ h
              simp only [Bool.not_eq_true', Bool.not_eq_false, Bool.or_eq_true] at hvn
              rcases hvn with hv | hn
              · cases ft <;> simp [isVoidTy] at hv
                simp [Pre]
              · exact Pre_nullable_none E env ft hn
        · simp only [hp, Bool.false_eq_true, if_false] at h
          split at h
          · rename_i hc
            simp only [Bool.and_eq_true] at hc
            exact hcatch v hc.2 h
          · simp [verr] at h
      | obj kvs =>
        simp only [Bool.and_false, Bool.false_eq_true, if_false] at h
        cases htag : jsonLookup ".tag" kvs with
        | none => simp [htag, verr] at h
        | some x =>
          cases x with
          | str tag =>
            simp only [htag] at h
            by_cases hp : u.isTagPresent tag perms = true
            · simp only [hp, Bool.not_true, Bool.false_eq_true, if_false] at h
              split at h
              · simp [verr] at h
              · obtain ⟨ft, hft⟩ := Option.isSome_iff_exists.mp (valDataType_isSome_of_present u tag perms hp)
                simp only [hft] at h
                have htf : tyWF env ft = true := valDataType_tyWF env hwf cls u hu tag perms ft hft
                by_cases hv : isVoidTy ft = true
                · simp only [hv, if_true] at h
                  have hprev : Pre E env ft .none := by
                    cases ft <;> simp [isVoidTy] at hv
                    simp [Pre]
                  repeat' split at h
                  all_goals first
                    | (simp [verr] at h; done)
                    | exact hpresent tag ft .none v hft hprev h
                · simp only [hv, Bool.false_eq_true, if_false] at h
                  by_cases hps : isPlainStruct ft = true
                  · simp only [hps, if_true] at h
                    split at h
                    · rename_i hc
                      simp only [Bool.and_eq_true] at hc
                      exact hpresent tag ft .none v hft (Pre_nullable_none E env ft hc.1) h
                    · cases ft <;> simp only [isPlainStruct, Bool.false_eq_true] at hps
                      rename_i sfl sc hnl
                      simp only [] at h
                      cases hd : env.struct? sc with
                      | none => simp [tyWF, hd] at htf
                      | some d =>
                        rw [memberTable_union_eq env perms strict fl cls tag u kvs _ htag hu hp hft] at h
                        simp only [isPlainStruct, if_true, memberTableStruct_struct env perms sfl sc d hd] at h
                        split at h
                        · rename_i sv hfs
                          obtain ⟨slots, rfl, h1, h2⟩ := finishStruct_valid E env perms strict hwf hff hcat hvis
                            sc d hd kvs _ sv
                            (hmem kvs _ rfl (fun p hp => structTable_tyWF env hwf perms sc d hd p hp)) hfs
                          exact hpresent tag _ _ v hft (struct_valid E env hwf sfl sc d hd slots h1 h2) h
                        · cases h
                  · simp only [hps, Bool.false_eq_true, if_false] at h
                    rw [memberTable_union_eq env perms strict fl cls tag u kvs _ htag hu hp hft] at h
                    simp only [hps, Bool.false_eq_true, if_false] at h
                    split at h
                    · cases h
                    · rename_i x hx
                      split at h
                      · simp [verr] at h
                      · refine hpresent tag ft x v hft ?_ h
                        split at hx
                        · rename_i r hr
                          obtain ⟨e, he, hpre⟩ := hmem kvs [(tag, ft.withFlags {})] rfl
                            (fun p hp => by
                              simp only [List.mem_singleton] at hp; subst hp
                              exact tyWF_withFlags_empty env ft htf) tag r hr
                          simp only [List.find?, beq_self_eq_true, Option.some.injEq] at he
                          subst he
                          exact Pre_withFlags_empty E env ft x (hpre x hx)
                        · split at hx
                          · simp [crash] at hx
                          · split at hx
                            · rename_i hn
                              cases hx
                              exact Pre_nullable_none E env ft hn
                            · simp [verr] at hx
            · simp only [hp, Bool.not_false, if_true] at h
              split at h
              · rename_i hc
                simp only [Bool.and_eq_true] at hc
                exact hcatch v hc.2 h
              · simp [verr] at h
          | _ => simp [htag, verr] at h
      | _ => simp [verr] at h
  | _ => simp [Pre]


mutual
theorem decode_pre : ∀ (j : JVal) (t : PTy), tyWF env t = true →
    ∀ v, decode E env perms strict t j = .ok v → Pre E env t v
  | .null, t, ht => decode_pre_of E env perms strict hwf hff hcat hvis _ t ht (fun _ _ h => by cases h)
      (fun _ _ h => by cases h) (fun _ _ h => by cases h)
  | .bool _, t, ht => decode_pre_of E env perms strict hwf hff hcat hvis _ t ht (fun _ _ h => by cases h)
      (fun _ _ h => by cases h) (fun _ _ h => by cases h)
  | .int _, t, ht => decode_pre_of E env perms strict hwf hff hcat hvis _ t ht (fun _ _ h => by cases h)
      (fun _ _ h => by cases h) (fun _ _ h => by cases h)
  | .flt _, t, ht => decode_pre_of E env perms strict hwf hff hcat hvis _ t ht (fun _ _ h => by cases h)
      (fun _ _ h => by cases h) (fun _ _ h => by cases h)
  | .str _, t, ht => decode_pre_of E env perms strict hwf hff hcat hvis _ t ht (fun _ _ h => by cases h)
      (fun _ _ h => by cases h) (fun _ _ h => by cases h)
  | .arr xs, t, ht => decode_pre_of E env perms strict hwf hff hcat hvis _ t ht
      (fun xs' item h hi => by cases h; exact decodeList_pre xs item hi)
      (fun _ _ h => by cases h) (fun _ _ h => by cases h)
  | .obj kvs, t, ht => decode_pre_of E env perms strict hwf hff hcat hvis _ t ht (fun _ _ h => by cases h)
      (fun kvs' vt h hv => by cases h; exact decodeMap_pre kvs vt hv)
      (fun kvs' tbl h htbl => by cases h; exact decodeMembers_pre kvs tbl htbl)
theorem decodeList_pre : ∀ (xs : List JVal) (t : PTy), tyWF env t = true →
    ∀ vs, decodeList E env perms strict t xs = .ok vs → ∀ x ∈ vs, Pre E env t x
  | [], _, _, vs, h, x, hx => by simp [decodeList] at h; subst h; cases hx
  | j :: js, t, ht, vs, h, x, hx => by
    simp only [decodeList] at h
    cases h1 : decode E env perms strict t j with
    | error e => simp [h1, bind, Except.bind] at h
    | ok v =>
      cases h2 : decodeList E env perms strict t js with
      | error e => simp [h1, h2, bind, Except.bind] at h
      | ok vs' =>
        simp [h1, h2, bind, Except.bind, pure, Except.pure] at h
        subst h
        rcases List.mem_cons.mp hx with rfl | hx'
        · exact decode_pre j t ht _ h1
        · exact decodeList_pre js t ht vs' h2 x hx'
theorem decodeMap_pre : ∀ (kvs : List (String × JVal)) (t : PTy), tyWF env t = true →
    ∀ out, decodeMap E env perms strict t kvs = .ok out → ∀ p ∈ out, Pre E env t p.2
  | [], _, _, out, h, p, hp => by simp [decodeMap] at h; subst h; cases hp
  | (k, j) :: rest, t, ht, out, h, p, hp => by
    simp only [decodeMap] at h
    cases h1 : decode E env perms strict t j with
    | error e => simp [h1, bind, Except.bind] at h
    | ok v =>
      cases h2 : decodeMap E env perms strict t rest with
      | error e => simp [h1, h2, bind, Except.bind] at h
      | ok out' =>
        simp [h1, h2, bind, Except.bind, pure, Except.pure] at h
        subst h
        rcases List.mem_cons.mp hp with rfl | hp'
        · exact decode_pre j t ht _ h1
        · exact decodeMap_pre rest t ht out' h2 p hp'
theorem decodeMembers_pre : ∀ (kvs : List (String × JVal)) (tbl : List (String × PTy)),
    (∀ p ∈ tbl, tyWF env p.2 = true) →
    ∀ k r, childLookup k (decodeMembers E env perms strict tbl kvs) = some r →
    ∃ e, tbl.find? (·.1 == k) = some e ∧ ∀ v, r = .ok v → Pre E env e.2 v
  | [], _, _, k, r, h => by simp [decodeMembers, childLookup] at h
  | (k', x) :: rest, tbl, htbl, k, r, h => by
    simp only [decodeMembers] at h
    split at h
    · rename_i n ft hfind
      simp only [childLookup] at h
      split at h
      · rename_i hk
        have : k' = k := by simpa using hk
        subst this
        cases h
        exact ⟨(n, ft), hfind, fun v hv => decode_pre x ft (htbl _ (List.mem_of_find?_eq_some hfind)) v hv⟩
      · exact decodeMembers_pre rest tbl htbl k r h
    · exact decodeMembers_pre rest tbl htbl k r h
end

end

end StoneVerif.Rt.DecL
