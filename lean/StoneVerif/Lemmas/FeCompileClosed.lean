import StoneVerif.Lemmas.FeCompileEq
set_option linter.unusedSimpArgs false
/-!
Closure of the specification-level image: every (namespace, name) a type expression, a parent link or an
enumerated-subtype link of `denoteCore fs` mentions is a data type / alias that `denoteCore fs` holds in that namespace.
-/
namespace StoneVerif.FeCompile.L
open StoneVerif.FeCompile
open StoneVerif.FeParams (TyKind TyVal)

def IsType (fs : List File) (k : Key) : Prop := ∃ d, Decl.type d ∈ declsOf fs k.1 ∧ d.name = k.2
def IsAlias (fs : List File) (k : Key) : Prop := ∃ r, Decl.alias k.2 r ∈ declsOf fs k.1

def GoodTy (fs : List File) (t : Ty) : Prop := (∀ k ∈ t.users, IsType fs k) ∧ (∀ k ∈ t.aliases, IsAlias fs k)

theorem GoodTy.prim {fs} (v : TyVal) : GoodTy fs (.prim v) := ⟨by simp [Ty.users], by simp [Ty.aliases]⟩
theorem GoodTy.void {fs} : GoodTy fs tyVoid := GoodTy.prim _
theorem GoodTy.nullable {fs t} (h : GoodTy fs t) : GoodTy fs (.nullable t) := ⟨by simpa [Ty.users] using h.1, by simpa [Ty.aliases] using h.2⟩

theorem GoodTy.nullableMeaning {fs t} (h : GoodTy fs t) (hd : RefHead) : GoodTy fs (nullableMeaning hd t) := by
  unfold FeCompile.nullableMeaning
  split
  · exact h.nullable
  · exact h

theorem mkTy_good {fs tv} : ∀ {tys : List Ty}, (∀ t ∈ tys, GoodTy fs t) → GoodTy fs (mkTy tv tys) := by
  intro tys h
  unfold mkTy
  split
  · rename_i e
    have := h e (by simp)
    exact ⟨by simpa [Ty.users] using this.1, by simpa [Ty.aliases] using this.2⟩
  · rename_i k v
    have h1 := h k (by simp)
    have h2 := h v (by simp)
    refine ⟨?_, ?_⟩
    · intro x hx
      simp only [Ty.users, List.mem_append] at hx
      rcases hx with hx | hx
      · exact h1.1 x hx
      · exact h2.1 x hx
    · intro x hx
      simp only [Ty.aliases, List.mem_append] at hx
      rcases hx with hx | hx
      · exact h1.2 x hx
      · exact h2.2 x hx
  · exact GoodTy.prim _

theorem builtinMeaning_good {fs rx k tys lits kw t} (h : builtinMeaning rx k tys lits kw = some t)
    (hg : ∀ t ∈ tys, GoodTy fs t) : GoodTy fs t := by
  unfold builtinMeaning at h
  split at h
  · cases h; exact mkTy_good hg
  · cases h

theorem findDef_mem {fs ns n d} (h : findDef fs ns n = some d) : d ∈ declsOf fs ns ∧ declName d = some n := by
  unfold findDef specDecls at h
  exact ⟨List.mem_of_find?_eq_some h, by simpa using List.find?_some h⟩

theorem meaningIn_cases {fs ns name m} (h : meaningIn fs ns name = some m) :
    (∃ k, m = .builtin k) ∨ (m = .user (ns, name) ∧ IsType fs (ns, name)) ∨ (m = .alias (ns, name) ∧ IsAlias fs (ns, name)) := by
  unfold meaningIn at h
  split at h
  · rename_i d hf
    cases h
    obtain ⟨hm, hn⟩ := findDef_mem hf
    simp [declName] at hn
    exact Or.inr (Or.inl ⟨rfl, d, hm, hn⟩)
  · rename_i n r hf
    cases h
    obtain ⟨hm, hn⟩ := findDef_mem hf
    simp [declName] at hn
    subst hn
    exact Or.inr (Or.inr ⟨rfl, r, hm⟩)
  · cases hk : TyKind.ofName? name with
    | none => simp [hk] at h
    | some k => simp [hk] at h; exact Or.inl ⟨k, h.symm⟩

theorem headMeaning_cases {fs cur h ens m} (hm : headMeaning fs cur h = some (ens, m)) :
    (∃ k, m = .builtin k) ∨ (m = .user (ens, h.name) ∧ IsType fs (ens, h.name)) ∨
      (m = .alias (ens, h.name) ∧ IsAlias fs (ens, h.name)) := by
  unfold headMeaning at hm
  split at hm
  · rename_i q _
    split at hm
    · cases hq : meaningIn fs q h.name with
      | none => simp [hq] at hm
      | some m' =>
        simp [hq] at hm
        obtain ⟨rfl, rfl⟩ := hm
        exact meaningIn_cases hq
    · cases hm
  · cases hq : meaningIn fs cur h.name with
    | none => simp [hq] at hm
    | some m' =>
      simp [hq] at hm
      obtain ⟨rfl, rfl⟩ := hm
      exact meaningIn_cases hq

theorem good_user {fs k} (h : IsType fs k) : GoodTy fs (.user k) :=
  ⟨by intro x hx; simp [Ty.users] at hx; subst hx; exact h, by simp [Ty.aliases]⟩

theorem good_alias {fs k} (h : IsAlias fs k) : GoodTy fs (.alias k) :=
  ⟨by simp [Ty.users], by intro x hx; simp [Ty.aliases] at hx; subst hx; exact h⟩

theorem denoteRef_good {rx fs} : ∀ (r : TRef) {cur t}, denoteRef rx fs cur r = some t → GoodTy fs t
  | .leaf h lits, cur, t, hd => by
    simp only [denoteRef] at hd
    split at hd
    · rename_i ens k hm
      cases hb : builtinMeaning rx k [] lits h.kw with
      | none => simp [hb] at hd
      | some t0 =>
        simp [hb] at hd
        subst hd
        exact (builtinMeaning_good hb (by simp)).nullableMeaning h
    · rename_i ens k hm
      cases hd
      rcases headMeaning_cases hm with ⟨_, he⟩ | ⟨he, hi⟩ | ⟨he, _⟩
      · cases he
      · cases he; exact (good_user hi).nullableMeaning h
      · cases he
    · rename_i ens k hm
      cases hd
      rcases headMeaning_cases hm with ⟨_, he⟩ | ⟨he, _⟩ | ⟨he, hi⟩
      · cases he
      · cases he
      · cases he; exact (good_alias hi).nullableMeaning h
    · cases hd
  | .app1 h a, cur, t, hd => by
    simp only [denoteRef] at hd
    split at hd
    · rename_i ens k hm
      split at hd
      · rename_i ta ha
        cases hb : builtinMeaning rx k [ta] [] h.kw with
        | none => simp [hb] at hd
        | some t0 =>
          simp [hb] at hd
          subst hd
          have := denoteRef_good a ha
          exact (builtinMeaning_good hb (by simpa using this)).nullableMeaning h
      · cases hd
    · cases hd
  | .app2 h a b, cur, t, hd => by
    simp only [denoteRef] at hd
    split at hd
    · rename_i ens k hm
      split at hd
      · rename_i ta tb ha hb'
        cases hb : builtinMeaning rx k [ta, tb] [] h.kw with
        | none => simp [hb] at hd
        | some t0 =>
          simp [hb] at hd
          subst hd
          have h1 := denoteRef_good a ha
          have h2 := denoteRef_good b hb'
          exact (builtinMeaning_good hb (by simp [h1, h2])).nullableMeaning h
      · cases hd
    · cases hd

/-! ## `optMapM` -/

theorem optMapM_mem {α β} {g : α → Option β} : ∀ {l : List α} {l'}, optMapM g l = some l' →
    ∀ y, y ∈ l' → ∃ x, x ∈ l ∧ g x = some y
  | [], l', h, y, hy => by simp only [optMapM] at h; cases h; simp at hy
  | x :: l, l', h, y, hy => by
    simp only [optMapM] at h
    split at h
    · rename_i y' ys hy' hys
      cases h
      simp only [List.mem_cons] at hy
      rcases hy with rfl | hy
      · exact ⟨x, List.mem_cons_self, hy'⟩
      · obtain ⟨x', hx', hg⟩ := optMapM_mem hys y hy
        exact ⟨x', List.mem_cons_of_mem _ hx', hg⟩
    · cases h

theorem optMapM_mem' {α β} {g : α → Option β} : ∀ {l : List α} {l'}, optMapM g l = some l' →
    ∀ x, x ∈ l → ∃ y, y ∈ l' ∧ g x = some y
  | [], l', h, x, hx => by simp at hx
  | x0 :: l, l', h, x, hx => by
    simp only [optMapM] at h
    split at h
    · rename_i y' ys hy' hys
      cases h
      simp only [List.mem_cons] at hx
      rcases hx with rfl | hx
      · exact ⟨y', List.mem_cons_self, hy'⟩
      · obtain ⟨y, hy, hg⟩ := optMapM_mem' hys x hx
        exact ⟨y, List.mem_cons_of_mem _ hy, hg⟩
    · cases h

/-! ## the pieces of `denoteNs` -/

theorem denoteField_good {rx fs ns b f c} (h : denoteField rx fs ns b f = some c) : GoodTy fs c.ty := by
  unfold denoteField at h
  split at h
  · cases h; exact GoodTy.void
  · rename_i r _
    cases hd : denoteRef rx fs ns r with
    | none => simp [hd] at h
    | some t => simp [hd] at h; subst h; exact denoteRef_good r hd

theorem denoteParent_good {rx fs ns d p} (h : denoteParent rx fs ns d = some (some p)) : IsType fs p := by
  unfold denoteParent at h
  split at h
  · cases h
  · rename_i r _
    split at h
    · rename_i k hd
      cases h
      exact (denoteRef_good r hd).1 p (by simp [Ty.users])
    · cases h

theorem denoteType_good {rx fs ns d c} (h : denoteType rx fs ns d = some c) :
    (∀ f ∈ c.fields, GoodTy fs f.ty) ∧ (∀ p, c.parent = some p → IsType fs p) := by
  unfold denoteType at h
  split at h
  · rename_i parent fields hp hf
    have hfields : ∀ f ∈ fields, GoodTy fs f.ty := by
      intro f hm
      obtain ⟨af, _, haf⟩ := optMapM_mem hf f hm
      exact denoteField_good haf
    have hpar : ∀ p, parent = some p → IsType fs p := by
      intro p hpp; subst hpp; exact denoteParent_good hp
    split at h
    · cases h; exact ⟨hfields, hpar⟩
    · cases h
      refine ⟨?_, hpar⟩
      intro f hm
      simp only at hm
      split at hm
      · simp only [List.mem_append, List.mem_singleton] at hm
        rcases hm with hm | rfl
        · exact hfields f hm
        · exact GoodTy.void
      · exact hfields f hm
  · cases h

theorem denoteRoute_good {rx fs ns r c} (h : denoteRoute rx fs ns r = some c) :
    GoodTy fs c.arg ∧ GoodTy fs c.result ∧ GoodTy fs c.error := by
  unfold denoteRoute at h
  split at h
  · rename_i a b e ha hb he
    cases h
    refine ⟨denoteRef_good _ ha, denoteRef_good _ hb, ?_⟩
    cases hre : r.error with
    | none => simp [hre] at he
    | some re => simp [hre] at he; exact denoteRef_good _ he
  · cases h

theorem subDen_good {rx fs ns p q} (h : subDen rx fs ns p = some q) : IsType fs q.2 := by
  unfold subDen at h
  split at h
  · rename_i k hd
    cases h
    exact (denoteRef_good _ hd).1 k (by simp [Ty.users])
  · cases h

/-- what `denoteNs` puts into a namespace -/
structure NsGood (rx : String → Bool) (fs : List File) (ns : String) (o : NsOut) : Prop where
  name : o.name = ns
  tys : ∀ t ∈ o.tys, GoodTy fs t
  links : ∀ k ∈ o.links, IsType fs k
  hasTypes : ∀ d, Decl.type d ∈ declsOf fs ns → (o.types.lookup d.name).isSome
  hasAliases : ∀ n r, Decl.alias n r ∈ declsOf fs ns → (o.aliases.lookup n).isSome

theorem lookup_isSome_of_mem {α β} [BEq α] [LawfulBEq α] {l : List (α × β)} {k : α} {v : β} (h : (k, v) ∈ l) :
    (l.lookup k).isSome := by
  induction l with
  | nil => simp at h
  | cons p l ih =>
    obtain ⟨a, b⟩ := p
    rw [List.lookup_cons]
    split
    · simp
    · simp only [List.mem_cons, Prod.mk.injEq] at h
      rcases h with ⟨rfl, _⟩ | h
      · rename_i hne; simp at hne
      · exact ih h

theorem denoteNs_good {rx fs ns o} (h : denoteNs rx fs ns = some o) : NsGood rx fs ns o := by
  unfold denoteNs specDecls at h
  simp only at h
  split at h
  · rename_i types aliases routes enums ht ha hr he
    cases h
    refine ⟨rfl, ?_, ?_, ?_, ?_⟩
    · intro t hm
      simp only [NsOut.tys, List.mem_append, List.mem_flatMap, List.mem_map] at hm
      rcases hm with (⟨p, hp, f, hf, rfl⟩ | ⟨p, hp, rfl⟩) | ⟨c, hc, hm⟩
      · obtain ⟨d, _, hd⟩ := optMapM_mem ht p hp
        cases hdt : denoteType rx fs ns d with
        | none => simp [hdt] at hd
        | some c => simp [hdt] at hd; subst hd; exact (denoteType_good hdt).1 f hf
      · obtain ⟨q, _, hq⟩ := optMapM_mem ha p hp
        cases hdr : denoteRef rx fs ns q.2 with
        | none => simp [hdr] at hq
        | some t => simp [hdr] at hq; subst hq; exact denoteRef_good _ hdr
      · obtain ⟨r, _, hrr⟩ := optMapM_mem hr c hc
        have := denoteRoute_good hrr
        simp only [List.mem_cons, List.mem_nil_iff, or_false] at hm
        rcases hm with rfl | rfl | rfl
        · exact this.1
        · exact this.2.1
        · exact this.2.2
    · intro k hm
      simp only [NsOut.links, List.mem_append, List.mem_filterMap, List.mem_flatMap, List.mem_map] at hm
      rcases hm with ⟨p, hp, hpk⟩ | ⟨p, hp, q, hq, rfl⟩
      · obtain ⟨d, _, hd⟩ := optMapM_mem ht p hp
        cases hdt : denoteType rx fs ns d with
        | none => simp [hdt] at hd
        | some c => simp [hdt] at hd; subst hd; exact (denoteType_good hdt).2 k hpk
      · simp only [id, List.mem_filterMap] at hp
        obtain ⟨e, hem, rfl⟩ := hp
        obtain ⟨d, _, hd⟩ := optMapM_mem he _ hem
        unfold denoteEnum at hd
        split at hd
        · rename_i subs ca _
          cases hs : optMapM (subDen rx fs ns) subs with
          | none => simp [hs] at hd
          | some l =>
            simp [hs] at hd
            subst hd
            obtain ⟨x, _, hx⟩ := optMapM_mem hs q hq
            exact subDen_good hx
        · cases hd
    · intro d hd
      obtain ⟨y, hy, hg⟩ := optMapM_mem' ht d (mem_typeDecls.mpr hd)
      cases hdt : denoteType rx fs ns d with
      | none => simp [hdt] at hg
      | some c => simp [hdt] at hg; subst hg; exact lookup_isSome_of_mem hy
    · intro n r hd
      obtain ⟨y, hy, hg⟩ := optMapM_mem' ha (n, r) (mem_aliasDecls.mpr hd)
      cases hdr : denoteRef rx fs ns r with
      | none => simp [hdr] at hg
      | some t => simp [hdr] at hg; subst hg; exact lookup_isSome_of_mem hy
  · cases h

/-! ## namespaces -/

theorem nsNames_mem : ∀ {fs : List File} {acc : List String} {n}, n ∈ nsNames fs acc ↔ n ∈ acc ∨ ∃ f ∈ fs, f.ns = n
  | [], acc, n => by simp [nsNames]
  | f :: fs, acc, n => by
    simp only [nsNames]
    rw [nsNames_mem]
    split
    · rename_i hc
      constructor
      · rintro (h | ⟨g, hg, rfl⟩)
        · exact Or.inl h
        · exact Or.inr ⟨g, List.mem_cons_of_mem _ hg, rfl⟩
      · rintro (h | ⟨g, hg, rfl⟩)
        · exact Or.inl h
        · simp only [List.mem_cons] at hg
          rcases hg with rfl | hg
          · exact Or.inl (by simpa using hc)
          · exact Or.inr ⟨g, hg, rfl⟩
    · constructor
      · rintro (h | ⟨g, hg, rfl⟩)
        · simp only [List.mem_append, List.mem_singleton] at h
          rcases h with h | rfl
          · exact Or.inl h
          · exact Or.inr ⟨f, List.mem_cons_self, rfl⟩
        · exact Or.inr ⟨g, List.mem_cons_of_mem _ hg, rfl⟩
      · rintro (h | ⟨g, hg, rfl⟩)
        · exact Or.inl (List.mem_append_left _ h)
        · simp only [List.mem_cons] at hg
          rcases hg with rfl | hg
          · exact Or.inl (by simp)
          · exact Or.inr ⟨g, hg, rfl⟩

theorem ns_of_decl {fs ns} {d : Decl} (h : d ∈ declsOf fs ns) : ns ∈ nsNames fs [] := by
  rw [nsNames_mem]
  simp only [declsOf, List.mem_flatMap, List.mem_filter, beq_iff_eq] at h
  obtain ⟨f, ⟨hf, hn⟩, _⟩ := h
  exact Or.inr ⟨f, hf, hn⟩

/-- the namespace entry `Api.ns?` finds is the image of that namespace -/
theorem ns?_of_denote {rx fs api ns} (h : denoteCore rx fs = some api) (hn : ns ∈ nsNames fs []) :
    ∃ o, api.ns? ns = some o ∧ NsGood rx fs ns o := by
  unfold denoteCore at h
  cases ho : optMapM (denoteNs rx fs) (nsNames fs []) with
  | none => simp [ho] at h
  | some outs =>
    simp [ho] at h
    subst h
    obtain ⟨o, hom, hden⟩ := optMapM_mem' ho ns hn
    have hgood := denoteNs_good hden
    unfold Api.ns?
    simp only
    cases hf : outs.find? (fun x => x.name == ns) with
    | none =>
      rw [List.find?_eq_none] at hf
      have := hf o hom
      simp [hgood.name] at this
    | some o' =>
      have hm' := List.mem_of_find?_eq_some hf
      have hp' := List.find?_some hf
      simp only [beq_iff_eq] at hp'
      obtain ⟨ns', _, hden'⟩ := optMapM_mem ho o' hm'
      have hgood' := denoteNs_good hden'
      have : ns' = ns := by rw [← hgood'.name, hp']
      subst this
      exact ⟨o', rfl, hgood'⟩

theorem hasType_of_isType {rx fs api k} (h : denoteCore rx fs = some api) (hk : IsType fs k) : api.hasType k = true := by
  obtain ⟨d, hd, hn⟩ := hk
  obtain ⟨o, ho, hg⟩ := ns?_of_denote h (ns_of_decl hd)
  unfold Api.hasType Api.type?
  rw [ho]
  simp only [Option.bind_some]
  rw [← hn]
  exact hg.hasTypes d hd

theorem hasAlias_of_isAlias {rx fs api k} (h : denoteCore rx fs = some api) (hk : IsAlias fs k) : api.hasAlias k = true := by
  obtain ⟨r, hd⟩ := hk
  obtain ⟨o, ho, hg⟩ := ns?_of_denote h (ns_of_decl hd)
  unfold Api.hasAlias Api.alias?
  rw [ho]
  simp only [Option.bind_some]
  exact hg.hasAliases k.2 r hd

theorem denote_closed {rx fs api} (h : denoteCore rx fs = some api) : api.closed = true := by
  have hall : ∀ o ∈ api.nss, ∃ ns, NsGood rx fs ns o := by
    intro o hm
    unfold denoteCore at h
    cases ho : optMapM (denoteNs rx fs) (nsNames fs []) with
    | none => simp [ho] at h
    | some outs =>
      simp [ho] at h
      subst h
      obtain ⟨ns, _, hden⟩ := optMapM_mem ho o hm
      exact ⟨ns, denoteNs_good hden⟩
  unfold Api.closed
  simp only [Bool.and_eq_true, List.all_eq_true, Api.tys, Api.links, List.mem_flatMap]
  refine ⟨?_, ?_⟩
  · rintro t ⟨o, ho, ht⟩
    obtain ⟨ns, hg⟩ := hall o ho
    have := hg.tys t ht
    exact ⟨fun k hk => hasType_of_isType h (this.1 k hk), fun k hk => hasAlias_of_isAlias h (this.2 k hk)⟩
  · rintro k ⟨o, ho, hk⟩
    obtain ⟨ns, hg⟩ := hall o ho
    exact hasType_of_isType h (hg.links k hk)

end StoneVerif.FeCompile.L
