import StoneVerif.Lemmas.RtWireVal
/-!
Helper lemmas for C05, part 4: the encoder on valid values.
-/
namespace StoneVerif.Rt

theorem encode_nullable_none (E : Ext) (env : Env) (norm : Bool) (t : PTy) (h : t.flags.nullable = true) :
    encode E env [] false norm t .none = .ok .null := by
  unfold encode
  simp [h, isNone]

/-- primitives: past the Nullable wrapper and the validation, `encode_primitive` -/
theorem encode_prim (E : Ext) (env : Env) (norm : Bool) (t : PTy) (v : PyVal) (hp : isPrimTy t = true)
    (hg : (t.flags.nullable && isNoneV v) = false)
    (hv1 : ∃ v', validate E env t v = .ok v') (hv2 : ∃ v', validate E env (t.withFlags {}) v = .ok v') :
    encode E env [] false norm t v = encodePrim E norm t v := by
  obtain ⟨v1, hv1⟩ := hv1
  obtain ⟨v2, hv2⟩ := hv2
  unfold encode
  cases hn : t.flags.nullable <;> cases t <;> simp [isPrimTy] at hp <;>
    simp_all [PTy.flags, PTy.withFlags, isNone_eq_isNoneV]

theorem encode_list (E : Ext) (env : Env) (norm : Bool) (fl : Flags) (item : PTy) (lo hi : Option Nat)
    (xs : List PyVal) {v' : PyVal} (hv : validate E env (.list {} item lo hi) (.list xs) = .ok v') :
    encode E env [] false norm (.list fl item lo hi) (.list xs) =
      (encodeList E env [] false item xs).map .arr := by
  have hv1 : validate E env (.list fl item lo hi) (.list xs) = .ok v' := by
    simpa [validate, PTy.flags] using hv
  unfold encode
  cases hn : fl.nullable <;> simp [PTy.flags, PTy.withFlags, isNone, hn, hv, hv1]

theorem encode_map (E : Ext) (env : Env) (norm : Bool) (fl : Flags) (kt vt : PTy)
    (kvs : List (PyVal × PyVal)) {v' : PyVal} (hv : validate E env (.map {} kt vt) (.dict kvs) = .ok v') :
    encode E env [] false norm (.map fl kt vt) (.dict kvs) =
      (encodeDict E env [] false kt vt kvs).map .obj := by
  have hv1 : validate E env (.map fl kt vt) (.dict kvs) = .ok v' := by
    simpa [validate, PTy.flags] using hv
  unfold encode
  cases hn : fl.nullable <;> simp [PTy.flags, PTy.withFlags, isNone, hn, hv, hv1]

theorem encode_struct (E : Ext) (env : Env) (norm : Bool) (fl : Flags) (cls c : String)
    (slots : List (String × PyVal)) {s : StructDef} (hs : env.struct? cls = some s)
    (hty : env.structSubclass c cls = true) (hf : structFieldsOk env cls none (.struct c slots) = true) :
    encode E env [] false norm (.struct fl cls) (.struct c slots) =
      (assembleStruct (s.fieldsFor []) slots (encodeSlots E env [] false (s.fieldsFor []) slots)).map .obj := by
  unfold encode
  cases hn : fl.nullable <;>
    simp [PTy.flags, PTy.withFlags, isNone, hn, validate, validateTypeOnly, structTypeOk, hty, hf, hs]

theorem encode_tree (E : Ext) (env : Env) (norm : Bool) (fl : Flags) (cls c tag : String)
    (slots : List (String × PyVal)) {s sd : StructDef} (hs : env.struct? cls = some s)
    (hty : env.structSubclass c cls = true) (hf : structFieldsOk env cls none (.struct c slots) = true)
    (hfind : (s.subtypes.getD []).find? (fun (_, sc, _) => sc == c) = some ([tag], c, false))
    (hsd : env.struct? c = some sd) :
    encode E env [] false norm (.tree fl cls) (.struct c slots) =
      (assembleStruct (sd.fieldsFor []) slots (encodeSlots E env [] false (sd.fieldsFor []) slots)).map
        fun kvs => .obj ((".tag", .str tag) :: kvs) := by
  unfold encode
  cases hn : fl.nullable <;>
    simp [PTy.flags, PTy.withFlags, isNone, hn, validate, structTypeOk, hty, hf, hs, hfind, hsd, Except.map]

theorem isNone_union (c tag : String) (p : PyVal) : isNone (.union c tag p) = false := rfl
theorem flags_union (fl : Flags) (c : String) : (PTy.union fl c).flags = fl := rfl
theorem withFlags_union (fl fl' : Flags) (c : String) : (PTy.union fl c).withFlags fl' = .union fl' c := rfl

theorem encode_union_tagonly (E : Ext) (env : Env) (norm : Bool) (fl : Flags) (cls c tag : String)
    (payload : PyVal) {u : UnionDef} {ft : PTy} (hu : env.union? cls = some u)
    (hty : env.unionSubclass cls c = true) (hpres : u.isTagPresent tag [] = true)
    (hvd : u.valDataType tag [] = some ft)
    (h : (isVoidT ft || (ft.flags.nullable && isNoneV payload)) = true) :
    encode E env [] false norm (.union fl cls) (.union c tag payload) = .ok (.obj [(".tag", .str tag)]) := by
  rw [← isNone_eq_isNoneV] at h
  unfold encode
  cases hn : fl.nullable <;>
    simp only [flags_union, withFlags_union, isNone_union, hn, validate, validateTypeOnly, unionTypeOk, hty, hu,
      hpres, hvd] <;> cases ft <;> simp_all [isVoidT, PTy.flags]

theorem encode_union_struct (E : Ext) (env : Env) (norm : Bool) (fl : Flags) (cls c tag : String)
    (payload : PyVal) {u : UnionDef} {fl' : Flags} {sc : String} {kvs : List (String × JVal)}
    (hu : env.union? cls = some u)
    (hty : env.unionSubclass cls c = true) (hpres : u.isTagPresent tag [] = true)
    (hvd : u.valDataType tag [] = some (.struct fl' sc))
    (h : (fl'.nullable && isNoneV payload) = false)
    (hj : encode E env [] false false (.struct fl' sc) payload = .ok (.obj kvs)) :
    encode E env [] false norm (.union fl cls) (.union c tag payload) =
      .ok (.obj ((".tag", .str tag) :: kvs)) := by
  rw [← isNone_eq_isNoneV] at h
  unfold encode
  cases hn : fl.nullable <;>
    simp only [flags_union, withFlags_union, isNone_union, hn, validate, validateTypeOnly, unionTypeOk, hty, hu,
      hpres, hvd, hj] <;> simp_all [PTy.flags]

theorem encode_union_nested (E : Ext) (env : Env) (norm : Bool) (fl : Flags) (cls c tag : String)
    (payload : PyVal) {u : UnionDef} {ft : PTy} {j : JVal} (hu : env.union? cls = some u)
    (hty : env.unionSubclass cls c = true) (hpres : u.isTagPresent tag [] = true)
    (hvd : u.valDataType tag [] = some ft)
    (h : (isVoidT ft || (ft.flags.nullable && isNoneV payload)) = false)
    (hns : ∀ fl' sc, ft ≠ .struct fl' sc)
    (hj : encode E env [] false false ft payload = .ok j) :
    encode E env [] false norm (.union fl cls) (.union c tag payload) =
      .ok (.obj [(".tag", .str tag), (tag, j)]) := by
  rw [← isNone_eq_isNoneV] at h
  unfold encode
  cases hn : fl.nullable <;>
    simp only [flags_union, withFlags_union, isNone_union, hn, validate, validateTypeOnly, unionTypeOk, hty, hu,
      hpres, hvd, hj] <;> cases ft <;> simp_all [isVoidT, PTy.flags]

end StoneVerif.Rt
