import StoneVerif.Lemmas.DeclPyReflStructDefs
namespace StoneVerif.DeclPy

structure ClsAt (st : St) (cur t : Name) (c : ClsId) : Prop where
  glob : st.global? cur t = some (.cls c)
  key : c ∈ clsKeys st

theorem ClsAt.mono {st st' : St} {cur t : Name} {c : ClsId} (h : Le st st') (hc : ClsAt st cur t c) :
    ClsAt st' cur t c := by
  refine ⟨h.glob _ _ _ hc.glob, ?_⟩
  obtain ⟨new, hnew, _⟩ := h.cls
  simp only [clsKeys, hnew, List.map_append, List.mem_append]
  exact Or.inr hc.key

theorem ClassOK.clsAt {api : Api} {st : St} {ns : Namespace} {d : DataType} (h : ClassOK api st ns d) :
    ClsAt st (modName ns) (fmtClass d.name) (clsId ns.name d.name) :=
  ⟨h.glob, List.mem_map.mpr ⟨_, h.entry, rfl⟩⟩

/-- one attribute assignment on a class object -/
theorem assign_on_class {st : St} {cur t a : Name} {c : ClsId} {uses : List Ref} (hwf : StWF st)
    (hc : ClsAt st cur t c) (hu : ∀ r ∈ uses, Ready st cur r) :
    ∃ st', Steps st cur [.assign t (some a) none uses] st' ∧ HasA st' c a := by
  obtain ⟨st', hs, _, hcl, ha⟩ := steps_assign_attr (cur := cur) (t := t) (a := a) (cp := none) (uses := uses)
    hwf hu (by simp [hc.glob])
  refine ⟨st', hs, lookupAttr_direct _ _ _ ?_ (ha c hc.glob)⟩
  rw [hcl]; exact hc.key

/-- part A: the validators of the own fields -/
theorem sFieldVals_ok {api : Api} (hapi : apiWF api = true) {ns : Namespace} (hns : ns ∈ api.namespaces) {st : St}
    (hwf : StWF st) (hctx : Ctx api st ns) (hcls : ∀ d ∈ ns.types, ClassOK api st ns d)
    (hals : ∀ a ∈ ns.aliases, AliasOK api st ns a) {pre : List DataType} {d : DataType} (hd : d ∈ ns.types)
    (htw : typeWF api ns pre d = true) (hs : d.isStruct = true) :
    ∃ st', Steps st (modName ns) (sFieldVals ns.name d) st'
      ∧ ∀ f ∈ d.fields, HasA st' (clsId ns.name d.name) (fmtVar f.name ++ ".validator") := by
  have hng : (sFieldVals ns.name d).flatMap Stmt.globals = [] := by
    apply flatMap_globals_of_noGlobal
    simp [sFieldVals, List.all_flatMap, all_ite, noGlobal]
  unfold sFieldVals at hng ⊢
  refine steps_flatMap' (α := Field) _ (modName ns)
    (fun st => Ctx api st ns ∧ (∀ d ∈ ns.types, ClassOK api st ns d) ∧ (∀ a ∈ ns.aliases, AliasOK api st ns a))
    (fun f st => HasA st (clsId ns.name d.name) (fmtVar f.name ++ ".validator"))
    (fun hle h => ⟨h.1.mono hle, fun d hd => (h.2.1 d hd).mono hle, fun a ha => (h.2.2 a ha).mono hle⟩)
    (fun hle h => hle.hasA h) d.fields ?_ (by rw [hng]; exact List.nodup_nil) st hwf ⟨hctx, hcls, hals⟩
    (by rw [hng]; intro n hn; simp at hn)
  intro pre' f post' hsplit st hwf ⟨hctx, hcls, hals⟩ _ _
  have hf : f ∈ d.fields := by rw [hsplit]; simp
  have hok := hcls d hd
  obtain ⟨st1, hs1, ha1⟩ := assign_on_class (a := fmtVar f.name ++ ".validator")
    (uses := here (fmtClass d.name) (some (fmtVar f.name)) :: tyRefs ns.name f.ty) hwf hok.clsAt
    (by
      intro r hr
      rcases List.mem_cons.mp hr with rfl | hr
      · exact ready_cls_attr hok.glob (hok.fieldAttrs hs f hf)
      · exact ready_tyRefs hapi hns hctx hcls ns.aliases hals f.ty (typeWF_field htw hf).1
          (local_aliases_exist hapi hns (typeWF_field htw hf).1) r hr)
  by_cases hr : f.redact = true
  · simp only [hr, if_true]
    obtain ⟨st2, hs2, _⟩ := assign_on_class (a := fmtVar f.name ++ ".validator._redact")
      (uses := [here (fmtClass d.name) (some (fmtVar f.name ++ ".validator"))]) hs1.wf (hok.clsAt.mono hs1.le)
      (by
        intro r hr
        simp only [List.mem_singleton] at hr; subst hr
        exact ready_cls_attr (hs1.le.glob _ _ _ hok.glob) ha1)
    exact ⟨st2, hs1.append hs2, hs2.le.hasA ha1⟩
  · simp only [hr, Bool.false_eq_true, if_false, List.append_nil]
    exact ⟨st1, hs1, ha1⟩

end StoneVerif.DeclPy
