import StoneVerif.Model.Rt.SpecC08
import StoneVerif.Model.Rt.Ir
import StoneVerif.Model.Rt.Decode
/-! Helper lemmas for C08: the validators against the shallow acceptance predicate `satB`. -/
set_option linter.unusedSimpArgs false
set_option linter.unusedVariables false
namespace StoneVerif.Rt.V8
open StoneVerif.Rt

def IsVerr {α} : R α → Prop
  | .error (.verr _) => True
  | _ => False

@[simp, grind =] theorem isVerr_error {α} (e : Err) : IsVerr (α := α) (.error e) = (∃ h, e = .verr h) := by
  cases e <;> simp [IsVerr]
@[simp, grind =] theorem isVerr_verr {α} (h : String) : IsVerr (α := α) (verr h) = True := by simp [IsVerr, verr]
@[simp, grind =] theorem isVerr_ok {α} (a : α) : IsVerr (α := α) (.ok a) = False := by simp [IsVerr]
@[simp] theorem verr_ne_ok {α} (h : String) (a : α) : (verr h : R α) ≠ .ok a := by simp [verr]

def Good {α} (acc : Bool) (r : R α) (n : α) : Prop :=
  (acc = true ∧ r = .ok n) ∨ (acc = false ∧ IsVerr r)

theorem IsVerr.exists {α} {r : R α} (h : IsVerr r) : ∃ s, r = .error (.verr s) := by
  cases r with
  | ok _ => simp at h
  | error e => simpa using h

theorem Good.map {α β} {a : Bool} {r : R α} {n : α} (f : α → β) (h : Good a r n) : Good a (Except.map f r) (f n) := by
  rcases h with ⟨h1, h2⟩ | ⟨h1, h2⟩
  · left; simp [h1, h2, Except.map]
  · right; cases r with
    | ok _ => simp at h2
    | error e => simpa [h1, Except.map] using h2

theorem spec_leaf (E env t) (v : PyVal) (h1 : ∀ xs, v ≠ .list xs)  (h2 : ∀ xs, v ≠ .tuple xs) (h3 : ∀ xs, v ≠ .dict xs) : Good (satB E env t v) (validate E env t v) (normOf E t v) := by
  cases hn : t.flags.nullable <;> cases v <;> simp at h1 h2 h3 <;> cases t <;> simp only [PTy.flags] at hn <;>
  simp [hn, Good, satB, validate, normOf, isNoneV, validPrim, structSat, unionSat, structTypeOk, structFieldsOk, unionTypeOk, intOf, fltOf, PTy.flags] <;> (try grind [inRange])
  all_goals (rename_i lo hi; cases lo <;> cases hi <;> (try simp [inRange]) <;> grind [inRange])

mutual
theorem validate_spec (E : Ext) (env : Env) (t : PTy) : (v : PyVal) → Good (satB E env t v) (validate E env t v) (normOf E t v)
  | .list xs => by
    have ih := fun item => validateList_spec E env item xs
    cases hn : t.flags.nullable <;> cases t <;> simp only [PTy.flags] at hn <;>
    simp [hn, Good, satB, validate, normOf, isNoneV, validPrim, structSat, unionSat, structTypeOk, structFieldsOk, unionTypeOk, intOf, fltOf, PTy.flags]
    all_goals
      rename_i item lo hi
      have h := (ih item).map PyVal.list
      cases h1 : geOpt hi xs.length <;> cases h2 : leOpt lo xs.length <;> simp [Good] at h ⊢ <;> (try exact h)
  | .tuple xs => by
    have ih := fun item => validateList_spec E env item xs
    cases hn : t.flags.nullable <;> cases t <;> simp only [PTy.flags] at hn <;>
    simp [hn, Good, satB, validate, normOf, isNoneV, validPrim, structSat, unionSat, structTypeOk, unionTypeOk, intOf, fltOf, PTy.flags]
    all_goals
      rename_i item lo hi
      have h := (ih item).map PyVal.list
      cases h1 : geOpt hi xs.length <;> cases h2 : leOpt lo xs.length <;> simp [Good] at h ⊢ <;> (try exact h)
  | .dict kvs => by
    have ih := fun kt vt => validateDict_spec E env kt vt kvs
    cases hn : t.flags.nullable <;> cases t <;> simp only [PTy.flags] at hn <;>
    simp [hn, Good, satB, validate, normOf, isNoneV, validPrim, structSat, unionSat, structTypeOk, unionTypeOk, intOf, fltOf, PTy.flags]
    all_goals
      rename_i kt vt
      have h := (ih kt vt).map PyVal.dict
      simpa [Good] using h
  | .none => spec_leaf E env t _ (by simp) (by simp) (by simp)
  | .bool _ => spec_leaf E env t _ (by simp) (by simp) (by simp)
  | .int _ => spec_leaf E env t _ (by simp) (by simp) (by simp)
  | .flt _ => spec_leaf E env t _ (by simp) (by simp) (by simp)
  | .str _ => spec_leaf E env t _ (by simp) (by simp) (by simp)
  | .bytes _ => spec_leaf E env t _ (by simp) (by simp) (by simp)
  | .ts _ _ => spec_leaf E env t _ (by simp) (by simp) (by simp)
  | .struct _ _ => spec_leaf E env t _ (by simp) (by simp) (by simp)
  | .union _ _ _ => spec_leaf E env t _ (by simp) (by simp) (by simp)
  | .other _ => spec_leaf E env t _ (by simp) (by simp) (by simp)
theorem validateList_spec (E : Ext) (env : Env) (t : PTy) : (xs : List PyVal) → Good (satList E env t xs) (validateList E env t xs) (normList E t xs)
  | [] => by simp [Good, satList, validateList, normList]
  | x :: xs => by
    have h1 := validate_spec E env t x
    have h2 := validateList_spec E env t xs
    rcases h1 with ⟨a1, b1⟩ | ⟨a1, b1⟩
    · rcases h2 with ⟨a2, b2⟩ | ⟨a2, b2⟩
      · simp [Good, satList, validateList, normList, a1, a2, b1, b2, bind, Except.bind, pure, Except.pure]
      · obtain ⟨s, hs⟩ := b2.exists
        simp [Good, satList, validateList, normList, a1, a2, b1, hs, bind, Except.bind, pure, Except.pure]
    · obtain ⟨s, hs⟩ := b1.exists
      simp [Good, satList, validateList, normList, a1, hs, bind, Except.bind, pure, Except.pure]
theorem validateDict_spec (E : Ext) (env : Env) (kt vt : PTy) : (kvs : List (PyVal × PyVal)) → Good (satDict E env kt vt kvs) (validateDict E env kt vt kvs) (normDict E kt vt kvs)
  | [] => by simp [Good, satDict, validateDict, normDict]
  | (k, x) :: rest => by
    have h1 := validate_spec E env kt k
    have h2 := validate_spec E env vt x
    have h3 := validateDict_spec E env kt vt rest
    rcases h1 with ⟨a1, b1⟩ | ⟨a1, b1⟩
    · rcases h2 with ⟨a2, b2⟩ | ⟨a2, b2⟩
      · rcases h3 with ⟨a3, b3⟩ | ⟨a3, b3⟩
        · simp [Good, satDict, validateDict, normDict, a1, a2, a3, b1, b2, b3, bind, Except.bind, pure, Except.pure]
        · obtain ⟨s, hs⟩ := b3.exists
          simp [Good, satDict, validateDict, normDict, a1, a2, a3, b1, b2, hs, bind, Except.bind, pure, Except.pure]
      · obtain ⟨s, hs⟩ := b2.exists
        simp [Good, satDict, validateDict, normDict, a1, a2, b1, hs, bind, Except.bind, pure, Except.pure]
    · obtain ⟨s, hs⟩ := b1.exists
      simp [Good, satDict, validateDict, normDict, a1, hs, bind, Except.bind, pure, Except.pure]
end

end StoneVerif.Rt.V8
